package main

// The generated input streams of idlcheck.

import (
	"fmt"
	"strings"

	"go.uber.org/thriftrw/idl"

	"verifharness/internal/rng"
)

var vocabulary = func() []string {
	v := []string{"(", ")", "{", "}", "[", "]", "<", ">", ",", ";", ":", "=", "*",
		`"x"`, `'y'`, `"bad\q"`, `"a\\'b"`, `'a\\"b'`, `"\xff"`, "\"\xff\"", `"a\` + "\nb\"", `"open`, `'open`,
		"99999999999999999999", "9223372036854775807", "-9223372036854775808", "9223372036854775808", "0x", "0x7fffffffffffffff", "0x8000000000000000",
		"1e999", "1.5", "1.", "1e", "1e+", "-", "+", "+5", "/", "/*", "/**/", "/** d */", "/* c */", "#c\n", "//c\n", "\n", "\n\n", " ", "\t", "\r\n",
		"\x00", "\xff", ".", "a.b", "a.", ".a", "$", "@", "`", "X", "foo", "_", "true.x", "i32x"}
	v = append(v, keywordList...)
	v = append(v, "begin", "END", "__FILE__", "float", "class", "import")
	return v
}()

// splitTokens cuts a document into lexical pieces (blanks, comments, literals, words, single bytes).
func splitTokens(doc []byte) [][]byte {
	var out [][]byte
	i := 0
	wordy := func(b byte) bool {
		return b == '_' || b == '.' || b == '+' || b == '-' || (b >= '0' && b <= '9') || (b >= 'a' && b <= 'z') || (b >= 'A' && b <= 'Z')
	}
	for i < len(doc) {
		j := i + 1
		b := doc[i]
		switch {
		case isBlankByte(b):
			for j < len(doc) && isBlankByte(doc[j]) {
				j++
			}
		case b == '#' || (b == '/' && j < len(doc) && doc[j] == '/'):
			for j < len(doc) && doc[j] != '\n' {
				j++
			}
		case b == '/' && j < len(doc) && doc[j] == '*':
			k := strings.Index(string(doc[i+2:]), "*/")
			if k < 0 {
				j = len(doc)
			} else {
				j = i + 2 + k + 2
			}
		case b == '"' || b == '\'':
			for j < len(doc) && doc[j] != b && doc[j] != '\n' {
				if doc[j] == '\\' {
					j++
				}
				j++
			}
			if j < len(doc) {
				j++
			}
			if j > len(doc) {
				j = len(doc)
			}
		case wordy(b):
			for j < len(doc) && wordy(doc[j]) {
				j++
			}
		}
		out = append(out, doc[i:j])
		i = j
	}
	return out
}

func mutate(r *rng.R, doc []byte) []byte {
	toks := splitTokens(doc)
	n := 1 + r.Intn(2)
	for k := 0; k < n; k++ {
		if len(toks) == 0 {
			toks = append(toks, []byte(vocabulary[r.Intn(len(vocabulary))]))
			continue
		}
		i := r.Intn(len(toks))
		switch r.Intn(12) {
		case 0: // delete
			toks = append(toks[:i:i], toks[i+1:]...)
		case 1: // duplicate
			toks = append(toks[:i+1:i+1], toks[i:]...)
		case 2: // swap with a later piece
			j := i + 1 + r.Intn(3)
			if j < len(toks) {
				toks[i], toks[j] = toks[j], toks[i]
			}
		case 3, 4: // replace
			toks[i] = []byte(vocabulary[r.Intn(len(vocabulary))])
		case 5, 6: // insert
			ins := []byte(vocabulary[r.Intn(len(vocabulary))])
			toks = append(toks[:i:i], append([][]byte{ins}, toks[i:]...)...)
		case 7: // truncate at a piece boundary
			toks = toks[:i]
		case 8: // truncate inside a piece
			if len(toks[i]) > 1 {
				toks = append(toks[:i:i], toks[i][:1+r.Intn(len(toks[i])-1)])
			} else {
				toks = toks[:i]
			}
		case 9: // change one byte
			t := append([]byte{}, toks[i]...)
			if len(t) > 0 {
				t[r.Intn(len(t))] = byte(r.U64())
			}
			toks[i] = t
		case 10: // newline(s) right after this piece (the D18 shape when it is a keyword)
			toks[i] = append(append([]byte{}, toks[i]...), strings.Repeat("\n", 1+r.Intn(2))...)
		case 11: // insert a random byte
			toks = append(toks[:i:i], append([][]byte{{byte(r.U64())}}, toks[i:]...)...)
		}
	}
	var out []byte
	for _, t := range toks {
		out = append(out, t...)
	}
	return out
}

const junkAlphabet = "abcxyz_09 \t\n\"'\\/*#(){}[]<>,;:=+-.eE\x00\xff\xc2\xa0"

func randomBytes(r *rng.R) []byte {
	n := r.Intn(40)
	b := make([]byte, n)
	for i := range b {
		switch r.Intn(4) {
		case 0:
			b[i] = byte(r.U64())
		default:
			b[i] = junkAlphabet[r.Intn(len(junkAlphabet))]
		}
	}
	if r.Chance(1, 3) {
		b = append([]byte(keywordList[r.Intn(len(keywordList))]+" "), b...)
	}
	return b
}

// ---- literals ----

// randomLiteral draws a byte string that matches lex.rl's `literal` pattern.
func randomLiteral(r *rng.R, q byte) []byte {
	b := []byte{q}
	n := r.Intn(10)
	for i := 0; i < n; i++ {
		switch r.Intn(9) {
		case 0, 1:
			b = append(b, '\\')
			e := "abfnrtv\\'\"xuU01234567zq \n"
			if r.Chance(1, 6) {
				b = append(b, byte(r.U64()))
			} else {
				b = append(b, e[r.Intn(len(e))])
			}
		case 2:
			b = append(b, "0123456789abcdefABCDEFg"[r.Intn(23)])
		case 6: // numeric escapes with boundary values (surrogates, > U+10FFFF, octal > 377, short forms)
			vals := []uint32{0, 0x27, 0x22, 0x5c, 0x7f, 0x80, 0xff, 0x7ff, 0x800, 0xd7ff, 0xd800, 0xdfff, 0xe000, 0xfffd, 0xffff, 0x10000, 0x10ffff, 0x110000, 0xffffffff, uint32(r.U64())}
			v := vals[r.Intn(len(vals))]
			switch r.Intn(5) {
			case 0:
				b = append(b, fmt.Sprintf("\\x%02x", v&0xff)...)
			case 1:
				b = append(b, fmt.Sprintf("\\u%04X", v&0xffff)...)
			case 2:
				b = append(b, fmt.Sprintf("\\U%08x", v)...)
			case 3:
				b = append(b, fmt.Sprintf("\\%03o", v&0x1ff)...)
			default: // truncated form
				t := fmt.Sprintf("\\U%08x", v)
				b = append(b, t[:2+r.Intn(8)]...)
			}
		case 3:
			x := byte(r.U64())
			if x != q && x != '\n' && x != '\\' {
				b = append(b, x)
			}
		case 4:
			b = append(b, []string{"é", "€", "\xf0\x9f\x98\x80", "\xed\xa0\x80", "\xc0\x80", "\xe2\x80", "\xf4\x90\x80\x80"}[r.Intn(7)]...)
		case 5:
			o := byte('\'')
			if q == '\'' {
				o = '"'
			}
			b = append(b, o)
		default:
			x := byte(0x20 + r.Intn(0x5f))
			if x != q && x != '\\' {
				b = append(b, x)
			}
		}
	}
	return append(b, q)
}

// the model's printers (lean/ThriftVerif/Idl/Quote.lean `quoteByte`), replicated.
func modelQuote(s []byte, q byte, safe bool) []byte {
	out := []byte{q}
	for _, c := range s {
		switch {
		case c == '\\':
			out = append(out, '\\', '\\')
		case c == q:
			out = append(out, '\\', q)
		case safe && (c == '"' || c == '\''):
			out = append(out, '\\', c)
		case c == '\n':
			out = append(out, '\\', 'n')
		case c == '\t':
			out = append(out, '\\', 't')
		case c == '\r':
			out = append(out, '\\', 'r')
		case c >= 0x20 && c <= 0x7e:
			out = append(out, c)
		default:
			out = append(out, []byte(fmt.Sprintf("\\x%02x", c))...)
		}
	}
	return append(out, q)
}

func (c *checker) literalStream(r *rng.R, n int) {
	g := &gen{r: r}
	for i := 0; i < n; i++ {
		// (1) arbitrary pattern-conformant literals: implementation vs model
		q := byte('"')
		op := "unq2"
		if r.Bool() {
			q, op = '\'', "unq1"
		}
		lit := randomLiteral(r, q)
		ans := implUnquote(q == '\'', lit)
		c.rep.Case(op+" "+hx(string(lit)), true)
		c.rep.Hist("literal", op+":"+ans[:2])
		if strings.HasPrefix(ans, "panic") {
			c.oracle("C11 panic", op+" "+hx(string(lit)), ans, "Unquote panicked")
		}
		c.expect("C11 Unquote vs model", op+" "+hx(string(lit)), ans)

		// (2) the printers' round trip on the implementation, for every byte string
		s := []byte(g.content())
		if r.Chance(1, 3) {
			s = r.Bytes(r.Intn(6))
		}
		for _, safe := range []bool{false, true} {
			for _, qq := range []byte{'"', '\''} {
				text := modelQuote(s, qq, safe)
				name := map[byte]string{'"': "q2", '\'': "q1"}[qq]
				if safe {
					name += "s"
				}
				c.expect("C11 model printer vs its replica in the harness", name+" "+hx(string(s)), "ok "+hx(string(text)))
				got := implUnquote(qq == '\'', text)
				if got == "ok "+hx(string(s)) {
					continue
				}
				uop := map[byte]string{'"': "unq2", '\'': "unq1"}[qq]
				c.oracle("C11 unquote(quote s) ≠ s", uop+" "+hx(string(text)), got, "want ok "+hx(string(s)))
			}
		}
	}
}

// ---- docstrings ----

var docPieces = []string{"/**", "*/", "*", " *", " * ", "  ", " ", "\t", "\n", "\n", "\r", "foo", "bar baz", "é", " ", "\u0085", " ", "　", " ", "\xc2", "\xe2\x80", "\xa0", "\v", "\f", "/", "**"}

func (c *checker) docStream(r *rng.R, n int) {
	for i := 0; i < n; i++ {
		var sb strings.Builder
		if r.Chance(3, 4) {
			sb.WriteString("/**")
		}
		k := r.Intn(12)
		for j := 0; j < k; j++ {
			sb.WriteString(docPieces[r.Intn(len(docPieces))])
		}
		if r.Chance(3, 4) {
			sb.WriteString("*/")
		}
		s := sb.String()
		ans := func() (a string) {
			defer func() {
				if p := recover(); p != nil {
					a = "panic " + fmt.Sprint(p)
				}
			}()
			return "ok " + hx(idl.VerifParseDocstring(s))
		}()
		if strings.HasPrefix(ans, "panic") {
			c.oracle("C11 panic", "doc "+hx(s), ans, "ParseDocstring panicked")
		}
		c.rep.Case("doc "+hx(s), true)
		c.expect("C11 ParseDocstring vs model", "doc "+hx(s), ans)
	}
}

// ---- numbers: documents that are a few numeric tokens ----

func (c *checker) numberStream(r *rng.R, n int) {
	g := &gen{r: r}
	for i := 0; i < n; i++ {
		var parts []string
		k := 1 + r.Intn(3)
		for j := 0; j < k; j++ {
			switch r.Intn(7) {
			case 0:
				t, _ := g.doubleText()
				parts = append(parts, t)
			case 1:
				parts = append(parts, g.intText(g.intValue()))
			case 2: // around the int64 boundary, and beyond
				parts = append(parts, []string{"9223372036854775807", "9223372036854775808", "-9223372036854775808", "-9223372036854775809",
					"0x7fffffffffffffff", "0x8000000000000000", "0xFFFFFFFFFFFFFFFF", "+0", "-0", "00", "0x0", "0X1"}[r.Intn(12)])
			case 3: // doubles around the range limits and halfway cases
				parts = append(parts, []string{"1.7976931348623157e308", "1.7976931348623158e308", "1.7976931348623159e308", "1e309", "4.9e-324", "2.4703282292062327e-324",
					"2.4703282292062328e-324", "2.2250738585072011e-308", "9007199254740993.0", "9007199254740992.5", "0.1", "1e23", "8.41e21", "5e-324", "1e-400", "-0.0", "0e999", "1.e5", "1.", "123456789012345678901234567890.5e-10"}[r.Intn(20)])
			case 4: // a well-formed number with one more character glued on
				t, _ := g.doubleText()
				if r.Bool() {
					t = g.intText(g.intValue())
				}
				parts = append(parts, t+string("gGxXeE.+-_zZ09afAF"[r.Intn(18)])+[]string{"", "1", "g"}[r.Intn(3)])
			default: // digits, dots, exponents glued together at random
				m := 1 + r.Intn(8)
				var sb strings.Builder
				for x := 0; x < m; x++ {
					sb.WriteByte("0123456789.eE+-xXabcdfgABCDFG_"[r.Intn(29)])
				}
				parts = append(parts, sb.String())
			}
		}
		doc := []byte(strings.Join(parts, " "))
		c.rep.Case("lex "+hx(string(doc)), true)
		c.expect("C11 lexer vs model lexAll", "lex "+hx(string(doc)), implLex(doc))
	}
}

// ---- token soup: vocabulary pieces and identifier-like characters glued together, so that every
// token boundary decision of the scanner (longest match, what may continue a token) is exercised ----

const soupAlphabet = "abefgxz_09AZ.+-\"'/*#<>(){}[],;:= \t\n\\"

func (c *checker) soupStream(r *rng.R, n int) {
	for i := 0; i < n; i++ {
		var sb strings.Builder
		k := 1 + r.Intn(8)
		for j := 0; j < k; j++ {
			switch r.Intn(5) {
			case 0, 1:
				sb.WriteString(vocabulary[r.Intn(len(vocabulary))])
			case 2:
				m := 1 + r.Intn(5)
				for x := 0; x < m; x++ {
					sb.WriteByte(soupAlphabet[r.Intn(len(soupAlphabet))])
				}
			case 3:
				sb.WriteString(reservedList[r.Intn(len(reservedList))])
			default:
				sb.WriteByte(" \t\n"[r.Intn(3)])
			}
		}
		c.checkAny([]byte(sb.String()), "token-soup")
	}
}

// ---- deep nesting: runs of openers, closed or not (the model parser's fuel must cover them) ----

func (c *checker) nestingStream(r *rng.R, n int) {
	for i := 0; i < n; i++ {
		k := 1 + r.Intn(70)
		var doc string
		if i%10 == 3 {
			// well-formed and hundreds of levels deep: the parser returns the whole tree, and a walk
			// has to visit all of it
			k = 150 + r.Intn(450)
			switch r.Intn(4) {
			case 0:
				doc = "const i32 x = " + strings.Repeat("[", k) + "1" + strings.Repeat("]", k)
			case 1:
				doc = "const i32 x = " + strings.Repeat("{1:", k) + "2" + strings.Repeat("}", k)
			case 2:
				doc = "typedef " + strings.Repeat("list<", k) + "i32" + strings.Repeat(">", k) + " T"
			default:
				doc = "struct S { 1: optional " + strings.Repeat("map<i8,", k/2) + strings.Repeat("set<", k/2) + "string" + strings.Repeat(">", k/2*2) + " f }"
			}
			c.checkAny([]byte(doc), "deep-nesting (well-formed, hundreds of levels)")
			continue
		}
		switch r.Intn(5) {
		case 0:
			doc = "const i32 x = " + strings.Repeat("[", k)
			if r.Bool() {
				doc += "1" + strings.Repeat("]", r.Intn(k+2))
			}
		case 1:
			doc = "const i32 x = " + strings.Repeat("{1:", k)
			if r.Bool() {
				doc += "2" + strings.Repeat("}", r.Intn(k+2))
			}
		case 2:
			doc = "typedef " + strings.Repeat("list<", k)
			if r.Bool() {
				doc += "i32" + strings.Repeat(">", r.Intn(k+2)) + " T"
			}
		case 3:
			doc = "typedef " + strings.Repeat("map<i8,", k)
			if r.Bool() {
				doc += "i32" + strings.Repeat(">", r.Intn(k+2)) + " T"
			}
		default:
			doc = "struct S { 1: i32 f = " + strings.Repeat("[{", k/2+1) + strings.Repeat("(", r.Intn(3))
		}
		c.checkAny([]byte(doc), "deep-nesting")
	}
}

func runStreams(c *checker, r *rng.R) {
	nValid, nBig, nD18, nMut, nRand, nSoup, nLit, nDoc, nNum := 6000, 200, 1200, 12000, 4000, 8000, 12000, 12000, 6000
	if *tier == "thorough" {
		nValid, nBig, nD18, nMut, nRand, nSoup, nLit, nDoc, nNum = 60000, 2000, 12000, 120000, 40000, 80000, 120000, 120000, 60000
	}
	var pool [][]byte
	for i := 0; i < nValid+nBig; i++ {
		g := &gen{r: r, maxDepth: 1 + r.Intn(3), big: i >= nValid}
		x := g.program()
		rd := render(r, x, false)
		if i < 3 {
			c.rep.Sample("valid: " + string(rd.doc))
		}
		c.rep.Hist("definitions", fmt.Sprint(min(len(x.Defs), 8)))
		c.checkRendered(rd, "rendered")
		if len(pool) < 4000 {
			pool = append(pool, rd.doc)
		}
	}
	for i := 0; i < nD18; i++ {
		g := &gen{r: r, maxDepth: 1 + r.Intn(2)}
		rd := render(r, g.program(), true)
		if i < 2 {
			c.rep.Sample("D18 probe: " + string(rd.doc))
		}
		c.checkRendered(rd, "rendered-newline-after-keyword")
	}
	for i := 0; i < nMut; i++ {
		doc := mutate(r, pool[r.Intn(len(pool))])
		if i < 3 {
			c.rep.Sample("mutated: " + string(doc))
		}
		c.checkAny(doc, "token-mutated")
	}
	for i := 0; i < nRand; i++ {
		c.checkAny(randomBytes(r), "random-bytes")
	}
	c.soupStream(r, nSoup)
	c.nestingStream(r, nSoup/20)
	c.literalStream(r, nLit)
	c.docStream(r, nDoc)
	c.numberStream(r, nNum)
	c.rep.Rule = "documents: random ASTs from the full thrift.y grammar rendered by the harness's own printer with random layout " +
		"(blanks, CR/LF, #, // and /* */ comments, optional separators , ; or none, '…' and \"…\" literals with every escape form, " +
		"decimal/signed/hex integers, doubles with fraction/exponent, docstring shapes attached and detached, annotations everywhere), " +
		"compared with the printer's tree and true positions; a second rendering that allows a newline directly after a keyword (D18 probe); " +
		"token-level mutations of rendered documents (delete/duplicate/swap/replace/insert from a vocabulary of tokens and malformed tokens, truncation, byte edits); " +
		"random bytes; token soup (vocabulary pieces, reserved words and identifier-like characters glued together); runs of up to 70 nested openers ([ {1: list< map<i8,) closed or not; pattern-conformant random literals; docstring-like byte strings with Unicode spaces; numeric token strings. " +
		"non-trivial = non-empty input; distinct by input bytes"
}
