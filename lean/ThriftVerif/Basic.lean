def hello := "world"
