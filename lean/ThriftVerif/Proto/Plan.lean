/-
M-Proto, part 3: the generate plan (gen/generate.go `Generate`,
internal/plugin/multi.go `MultiServiceGenerator.Generate`,
internal/plugin/transport.go `serviceGenerator.Generate`).

Everything that is to be written is accumulated in one map (relative path →
contents) *before* the first write: all modules are generated, then all plugins are
asked, their answers are checked for ".." and merged (conflict = the same key
twice, keys compared in the form in which they are written: `normKey`), the complete map is
checked for paths that cannot all be written below one directory (`checkPaths`: a key that
is the output directory itself, a key that another key needs as a directory), and only then
does the write loop run over `filepath.Join(outDir, rel)`.

Maps are association lists with unique keys; the iteration order of the Go maps
only influences which of several errors is reported first, never ok-vs-error.
`Content` is opaque (bytes); a `none` module result / plugin result is a failure.

The write loop itself is modelled over a small file-system state (`FS`): a path that
is a directory, or that needs a file as a directory, makes it fail half-way. Since the
repair of finding D33 (`checkPaths`) an accepted plan cannot do that to itself; what is
left is what the output directory already holds (an OS-level failure, outside C17).

Core-only.
-/
import ThriftVerif.Proto.Path
import ThriftVerif.Wire.Bytes

namespace ThriftVerif.Proto
open ThriftVerif.Wire (Bytes)

abbrev Content := Bytes
abbrev Files := List (Str × Content)

def hasKey (fs : Files) (p : Str) : Bool := fs.any fun x => x.1 == p

/-- the form in which a relative output path is compared: as it will be written below the
output directory (`filepath.Join("/", p)` without the leading separator), so that "x.go",
"./x.go", "/x.go" and "a/../x.go" are one key. -/
def normKey (p : Str) : Str := (join2 ['/'] p).drop 1

def normFiles (fs : Files) : Files := fs.map fun x => (normKey x.1, x.2)

/-- `addFile` on an already normalised key: error (none) if the key is present. -/
def addFile (fs : Files) (p : Str) (c : Content) : Option Files :=
  if hasKey fs p then none else some (fs ++ [(p, c)])

/-- `mergeFiles dest src`: every key of `src` must be new (errors are accumulated, the
outcome is an error iff some key collides). -/
def mergeFiles (dest : Files) : Files → Option Files
  | [] => some dest
  | (p, c) :: r =>
    match addFile dest p c with
    | none => none
    | some d => mergeFiles d r

inductive PlanErr where
  | moduleFailed    -- generateModule returned an error (or Rel failed)
  | coreConflict    -- two modules map to the same output file
  | pluginFailed    -- a plugin's generate call failed
  | dotdot          -- a plugin returned a path containing ".."
  | pluginConflict  -- two plugins returned the same path
  | mergeConflict   -- a plugin returned a path the core generator also produced
  | outDirItself    -- a path that denotes the output directory itself ("" after normalisation)
  | fileVsDir       -- a path that another path needs as a directory
  deriving DecidableEq, Repr

/-- a compiled module as `Generate` sees it: its Thrift file and whether generating its
code succeeds (with what contents). -/
structure ModIn where
  thriftPath : Str
  result : Option Content
  deriving Repr

/-- `m.Walk(generate)`: modules in walk order; the first failure aborts. -/
def genModules (root : Str) : Files → List ModIn → Except PlanErr Files
  | acc, [] => .ok acc
  | acc, m :: ms =>
    match m.result, modulePath root m.thriftPath with
    | some c, some p =>
      match addFile acc (normKey p) c with
      | some acc' => genModules root acc' ms
      | none => .error .coreConflict
    | _, _ => .error .moduleFailed

/-- `serviceGenerator.Generate`: the reply of one plugin after the ".." check. -/
def checkPlugin : Option Files → Except PlanErr Files
  | none => .error .pluginFailed
  | some fs => if fs.any (fun x => containsDotDot x.1) then .error .dotdot else .ok fs

/-- the merge under the mutex in `MultiServiceGenerator.Generate`, in completion order. -/
def mergePlugins : Files → List Files → Option Files
  | acc, [] => some acc
  | acc, f :: fs =>
    match mergeFiles acc f with
    | none => none
    | some acc' => mergePlugins acc' fs

def allOk : List (Except PlanErr Files) → Except PlanErr (List Files)
  | [] => .ok []
  | .ok f :: r =>
    match allOk r with
    | .ok fs => .ok (f :: fs)
    | .error e => .error e
  | .error e :: _ => .error e

/-- reorder by completion order (indices into the list; out-of-range indices are dropped). -/
def pickOrder {α} (xs : List α) (ord : List Nat) : List α := ord.filterMap fun i => xs[i]?

/-- `MultiServiceGenerator.Generate`: all plugins answer (concurrently), each answer is
checked, the good ones are merged in completion order `ord`, compared by normalised key (a
plugin that returns the same file twice under two spellings conflicts with itself). Any
failure is an error. -/
def runPlugins (plugs : List (Option Files)) (ord : List Nat) : Except PlanErr Files :=
  match allOk (plugs.map checkPlugin) with
  | .error e => .error e
  | .ok fs =>
    match mergePlugins [] (pickOrder (fs.map normFiles) ord) with
    | none => .error .pluginConflict
    | some m => .ok m

/-- `d` is a proper directory prefix of `p` (`d ++ "/"` is a prefix of `p`). -/
def isDirOf (d p : Str) : Bool := hasPrefix (d ++ ['/']) p

/-- `checkFilePaths` (gen/generate.go), on the complete map of normalised keys, before the
first write: the empty key is the output directory itself; a key that is a proper directory
prefix of another key would have to be a file and a directory. (The code walks
`filepath.Dir(path)`, `Dir(Dir(path))`, … up to "." and looks each one up in the map; on
normalised keys — relative, cleaned — those are exactly the `d` with `d ++ "/"` a prefix of
`path`. Keys are visited in sorted order, so an empty key is reported first.) -/
def checkPaths (fs : Files) : Option PlanErr :=
  if hasKey fs [] then some .outDirItself
  else if fs.any (fun x => fs.any fun y => isDirOf y.1 x.1) then some .fileVsDir
  else none

/-- the relative-path map `Generate` holds when the write loop starts. -/
def planFiles (root : Str) (mods : List ModIn) (plugs : List (Option Files)) (ord : List Nat) :
    Except PlanErr Files :=
  match genModules root [] mods with
  | .error e => .error e
  | .ok core =>
    match runPlugins plugs ord with
    | .error e => .error e
    | .ok pf =>
      match mergeFiles core pf with
      | none => .error .mergeConflict
      | some all =>
        match checkPaths all with
        | some e => .error e
        | none => .ok all

/-- what the write loop will do: `(filepath.Join(outDir, rel), contents)` for every entry. -/
def generatePlan (root out : Str) (mods : List ModIn) (plugs : List (Option Files)) (ord : List Nat) :
    Except PlanErr Files :=
  match planFiles root mods plugs ord with
  | .error e => .error e
  | .ok fs => .ok (fs.map fun x => (join2 out x.1, x.2))

/-- `filepath.Abs` relative to the working directory `cwd`. -/
def absPath (cwd p : Str) : Str := if isAbs p then clean p else join2 cwd p

/-- main.go `do` after compilation: resolve the output directory and the Thrift root (given
with `--thrift-root` and then verified, or the common ancestor of all modules), then
`gen.Generate`. An ancestry failure happens before any plugin is started. -/
def cliPlan (cwd : Str) (thriftRoot : Option Str) (out : Str) (mods : List ModIn)
    (plugs : List (Option Files)) (ord : List Nat) : Except PlanErr Files :=
  let paths := mods.map (·.thriftPath)
  match thriftRoot with
  | none =>
    match findCommonAncestor paths with
    | none => .error .moduleFailed
    | some root => generatePlan root (absPath cwd out) mods plugs ord
  | some r =>
    if verifyAncestry (absPath cwd r) paths then generatePlan (absPath cwd r) (absPath cwd out) mods plugs ord
    else .error .moduleFailed

/-- `gen.Generate` under `--output-file ofile` with Thrift root `root`: only the module given on
the command line (the first of `mods`) is generated — included modules are not — into
`Join(packageRelPath, ofile)`. The key under which the file is collected is normalised by
`addFile` like every other; plugins run and are merged as always. -/
def generateOutputFile (root outAbs ofile : Str) (mods : List ModIn) (plugs : List (Option Files)) (ord : List Nat) :
    Except PlanErr Files :=
  match mods with
  | [] => .error .moduleFailed
  | main :: _ =>
    match main.result, outputFilePath root main.thriftPath ofile with
    | some c, some p =>
      match runPlugins plugs ord with
      | .error e => .error e
      | .ok pf =>
        match mergeFiles [(normKey p, c)] pf with
        | none => .error .mergeConflict
        | some all =>
          match checkPaths all with
          | some e => .error e
          | none => .ok (all.map fun x => (join2 outAbs x.1, x.2))
    | _, _ => .error .moduleFailed

/-- main.go `do` under `--output-file`: the Thrift root is still determined from (and checked
against) all modules. -/
def cliPlanOutputFile (cwd : Str) (thriftRoot : Option Str) (out ofile : Str) (mods : List ModIn)
    (plugs : List (Option Files)) (ord : List Nat) : Except PlanErr Files :=
  let paths := mods.map (·.thriftPath)
  match thriftRoot with
  | none =>
    match findCommonAncestor paths with
    | none => .error .moduleFailed
    | some root => generateOutputFile root (absPath cwd out) ofile mods plugs ord
  | some r =>
    if verifyAncestry (absPath cwd r) paths then generateOutputFile (absPath cwd r) (absPath cwd out) ofile mods plugs ord
    else .error .moduleFailed

/-- the writes of a run: none at all unless the whole plan succeeded. -/
def writesOf (r : Except PlanErr Files) : Files :=
  match r with
  | .ok fs => fs
  | .error _ => []

/-! ### the write loop over a file-system state -/

/-- regular files (absolute cleaned path → contents) and directories that exist. -/
structure FS where
  files : Files
  dirs : List Str
  deriving Repr

def FS.isFile (fs : FS) (p : Str) : Bool := hasKey fs.files p
def FS.isDir (fs : FS) (p : Str) : Bool := p == ['/'] || fs.dirs.contains p

/-- all proper ancestors of a cleaned absolute path, outermost first, without "/". -/
def ancestorsAux : Str → List Str → List Str
  | _, [] => []
  | _, [_] => []
  | pre, c :: d :: r => (pre ++ '/' :: c) :: ancestorsAux (pre ++ '/' :: c) (d :: r)

def ancestors (p : Str) : List Str := ancestorsAux [] ((splitSlash p).drop 1)

/-- `os.MkdirAll(dir)`: fails if the directory or an ancestor exists as a regular file. -/
def mkdirAll (fs : FS) (d : Str) : Option FS :=
  let need := ancestors (d ++ ['/', 'x'])
  if need.any fs.isFile then none
  else some { fs with dirs := fs.dirs ++ need.filter (fun x => !fs.isDir x) }

/-- `os.WriteFile(p)`: fails on a directory; replaces an existing file. -/
def writeFile (fs : FS) (p : Str) (c : Content) : Option FS :=
  if fs.isDir p then none
  else some { fs with files := (fs.files.filter fun x => !(x.1 == p)) ++ [(p, c)] }

/-- the write loop, in the (arbitrary) order the map is iterated; stops at the first error,
keeping what was written so far. -/
def writeLoop : FS → Files → FS × Bool
  | fs, [] => (fs, true)
  | fs, (p, c) :: r =>
    match mkdirAll fs (dir p) with
    | none => (fs, false)
    | some fs1 =>
      match writeFile fs1 p c with
      | none => (fs1, false)
      | some fs2 => writeLoop fs2 r

end ThriftVerif.Proto
