/-
M-Proto proofs (C17): the normalised key `normKey p = Join("/", p)` minus the leading "/".
It is a '/'-joined list of proper components, `Join(out, ·)` is injective on such keys and
always lands inside `out`; for a path without ".." component it changes nothing about where
the file is written.
-/
import ThriftVerif.Proto.Plan
import ThriftVerif.Proto.PathProofs5

set_option linter.unusedSimpArgs false
set_option linter.unusedVariables false

namespace ThriftVerif.Proto

theorem normKey_eq (p : Str) : normKey p = joinSlash (outComps p) := by
  have habs : isAbs (['/'] ++ '/' :: p) = true := rfl
  simp only [normKey, join2, ne_eq, reduceCtorEq, not_false_eq_true, if_true]
  rw [clean_abs _ habs, show (['/'] ++ '/' :: p : Str) = '/' :: '/' :: p from rfl, comps_slash, comps_slash]
  rfl

/-- a normalised key never has a ".." component — whatever the raw path was. -/
theorem normKey_no_dotdot (p : Str) : ∀ c ∈ splitSlash (normKey p), c ≠ dotdot := by
  rw [normKey_eq]; exact splitSlash_joinSlash_no_dotdot _ (outComps_comp p)

theorem join2_normKey (out p : Str) (ho : isAbs out = true) :
    join2 out (normKey p) = '/' :: joinSlash (outComps out ++ outComps p) := by
  rw [normKey_eq, join2_abs_joinSlash out _ ho (outComps_comp p)]

/-- different normalised keys are written to different files. -/
theorem join2_normKey_inj (out p q : Str) (ho : isAbs out = true)
    (h : join2 out (normKey p) = join2 out (normKey q)) : normKey p = normKey q := by
  rw [normKey_eq, normKey_eq] at h ⊢
  rw [join2_abs_joinSlash_inj out _ _ ho (outComps_comp p) (outComps_comp q) h]

/-- a normalised key is written inside the output directory. -/
theorem join2_normKey_confined (out p : Str) (ho : isAbs out = true) :
    within (clean out) (join2 out (normKey p)) = true :=
  join_confined out _ ho (normKey_no_dotdot p)

theorem outComps_of_no_dotdot (p : Str) (hp : ∀ c ∈ splitSlash p, c ≠ dotdot) :
    outComps p = comps p := by
  unfold outComps
  rw [cleanStack_push _ _ _ (fun c hc => hp c (mem_comps.1 hc).1)]
  simp

/-- for a path without ".." component normalisation does not move the file:
`Join(out, normKey p) = Join(out, p)`. -/
theorem join2_normKey_of_no_dotdot (out p : Str) (ho : isAbs out = true)
    (hp : ∀ c ∈ splitSlash p, c ≠ dotdot) : join2 out (normKey p) = join2 out p := by
  rw [join2_normKey out p ho, join2_abs_push out p ho hp, outComps_of_no_dotdot p hp]
  rfl

/-- normalisation is idempotent. -/
theorem normKey_normKey (p : Str) : normKey (normKey p) = normKey p := by
  rw [normKey_eq (normKey p), normKey_eq p,
    outComps_of_no_dotdot _ (splitSlash_joinSlash_no_dotdot _ (outComps_comp p)),
    comps_joinSlash _ (outComps_comp p)]

theorem keys_normFiles (fs : Files) : (normFiles fs).map (·.1) = fs.map (fun x => normKey x.1) := by
  simp [normFiles]

end ThriftVerif.Proto
