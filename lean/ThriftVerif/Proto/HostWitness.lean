/-
M-Proto, concrete runs of the host automaton (C16): a conforming two-plugin run, and
the regression case of finding D41 (fixed: a goodbye failure used to make the host fail
without naming the plugin). Everything here is evaluated by the kernel (`decide`).
-/
import ThriftVerif.Proto.Host

namespace ThriftVerif.Proto
open ThriftVerif.Wire

/-- a correct handshake reply for plugin `name` (features: service generator iff `sg`). -/
def okHs (name : Bytes) (sg : Bool) : Bytes :=
  frame (encEnvStrict ⟨methodName .handshake, etReply, 1,
    .struct [(0, .struct [(1, .binary name), (2, .i32 4),
      (3, .list TType.i32.code (if sg then [.i32 1] else []))])]⟩)

def okGen (files : List (Bytes × Bytes)) : Bytes :=
  frame (encEnvStrict ⟨methodName .generate, etReply, 1,
    .struct [(0, .struct [(1, .map TType.binary.code TType.binary.code
      (files.map fun x => (.binary x.1, .binary x.2)))])]⟩)

def okBye : Bytes := frame (encEnvStrict ⟨methodName .goodbye, etReply, 1, .struct []⟩)

/-- an exception envelope in reply to goodbye. -/
def excBye : Bytes :=
  frame (encEnvStrict ⟨methodName .goodbye, etException, 1, .struct [(1, .binary [0x78]), (2, .i32 6)]⟩)

def plugA : Plugin :=
  { name := [0x61], exitAtStart := false, exitCode := 0,
    hs := ⟨[okHs [0x61] true], false⟩, gen := ⟨[okGen [([0x61, 0x2e, 0x67, 0x6f], [1])]], false⟩,
    bye := ⟨[okBye], false⟩ }

/-- plugin `b` answers the handshake byte by byte, has no generator, and its goodbye reply is
an exception. -/
def plugB : Plugin :=
  { name := [0x62], exitAtStart := false, exitCode := 0,
    hs := ⟨(okHs [0x62] false).map fun x => [x], false⟩, gen := ⟨[], false⟩,
    bye := ⟨[excBye], false⟩ }

def cfgOK : Cfg := { plugins := [plugA, { plugB with bye := ⟨[okBye], false⟩ }], coreOk := true,
                     coreFiles := [(['m'], [0])], ord := [0, 1] }

def cfgD41 : Cfg := { plugins := [plugA, plugB], coreOk := true, coreFiles := [(['m'], [0])], ord := [1, 0] }

set_option maxRecDepth 100000 in
/-- a conforming run: exit ok, files of core and plugin handed to the write loop, plugin `a` sees
handshake, generate, goodbye, EOF; plugin `b` (no generator) sees handshake, goodbye, EOF. -/
theorem conforming_run :
    (run cfgOK).exit = .ok ∧
    (run cfgOK).wrote = some [(['m'], [0]), (['a', '.', 'g', 'o'], [1])] ∧
    (run cfgOK).recs.map (·.st.view) =
      [[.start, .req .handshake, .req .generate, .req .goodbye, .eof, .exit],
       [.start, .req .handshake, .req .goodbye, .eof, .exit]] ∧
    (run cfgOK).recs.map (·.h) =
      [[.start, .send .handshake, .recvOk .handshake, .send .generate, .recvOk .generate,
        .send .goodbye, .recvOk .goodbye, .closePipes, .wait],
       [.start, .send .handshake, .recvOk .handshake, .send .goodbye, .recvOk .goodbye,
        .closePipes, .wait]] := by
  decide

set_option maxRecDepth 100000 in
/-- regression case for D41 (fixed): plugin `b` fails only at goodbye; the run fails after the
files were written, and the error output names `b` and only `b`. -/
theorem goodbye_failure_named_run :
    (run cfgD41).exit = .fail ∧ (run cfgD41).wrote.isSome = true ∧
    (run cfgD41).recs.map (·.errs) = [[], [.goodbye]] ∧
    (run cfgD41).recs.map namedIn = [false, true] := by
  decide

end ThriftVerif.Proto
