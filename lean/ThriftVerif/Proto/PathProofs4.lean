/-
M-Proto proofs, part 1d (C17): `findCommonAncestor` yields a cleaned absolute directory
that every (cleaned, absolute) module path lies below, component-wise.
-/
import ThriftVerif.Proto.PathProofs3

set_option linter.unusedSimpArgs false
set_option linter.unusedVariables false

namespace ThriftVerif.Proto

/-- a component of a cleaned absolute path. -/
def Comp (c : Str) : Prop := c ≠ [] ∧ c ≠ dot ∧ c ≠ dotdot ∧ '/' ∉ c

theorem Comp.good {c : Str} (h : Comp c) : c ≠ [] ∧ '/' ∉ c := ⟨h.1, h.2.2.2⟩

/-- a cleaned absolute path is "/" followed by components. -/
theorem clean_abs_comps (f : Str) (ha : isAbs f = true) (hc : clean f = f) :
    ∃ F : List Str, f = '/' :: joinSlash F ∧ ∀ c ∈ F, Comp c := by
  refine ⟨(cleanStack true [] (comps f)).reverse, ?_, ?_⟩
  · rw [← clean_abs f ha, hc]
  · intro c hc
    have hm := cleanStack_nil_subset _ _ c (List.mem_reverse.1 hc)
    exact ⟨(mem_comps.1 hm).2.1, (mem_comps.1 hm).2.2,
      cleanStack_rooted_no_dotdot [] _ (by simp) c (List.mem_reverse.1 hc), comp_no_slash hm⟩

theorem comps_root_join (l : List Str) (h : ∀ c ∈ l, Comp c) : comps ('/' :: joinSlash l) = l := by
  rw [comps_slash]
  by_cases hl : l = []
  · subst hl; rfl
  · unfold comps
    rw [splitSlash_joinSlash l hl (fun c hc => (h c hc).2.2.2), List.filter_eq_self]
    intro c hc
    have := h c hc
    simp [this.1, this.2.1]

/-- and conversely. -/
theorem clean_root_join (l : List Str) (h : ∀ c ∈ l, Comp c) :
    clean ('/' :: joinSlash l) = '/' :: joinSlash l := by
  rw [clean_abs _ rfl, comps_root_join l h, cleanStack_push _ _ _ (fun c hc => (h c hc).2.2.1)]
  simp

theorem clean_clean_abs (s : Str) (ha : isAbs s = true) : clean (clean s) = clean s := by
  rw [clean_abs s ha]
  apply clean_root_join
  intro c hc
  have hm := cleanStack_nil_subset _ _ c (List.mem_reverse.1 hc)
  exact ⟨(mem_comps.1 hm).2.1, (mem_comps.1 hm).2.2,
    cleanStack_rooted_no_dotdot [] _ (by simp) c (List.mem_reverse.1 hc), comp_no_slash hm⟩

/-! ### Dir of a cleaned absolute path -/

theorem dropWhile_append_all {α} (q : α → Bool) (a b : List α) (h : ∀ x ∈ a, q x = true) :
    (a ++ b).dropWhile q = b.dropWhile q := by
  induction a with
  | nil => rfl
  | cons x a ih =>
    have hx := h x (by simp)
    simp only [List.cons_append, List.dropWhile_cons, hx, if_true]
    exact ih (fun y hy => h y (by simp [hy]))

theorem uptoLastSlash_append (pre l : Str) (hl : '/' ∉ l) :
    uptoLastSlash (pre ++ '/' :: l) = pre ++ ['/'] := by
  unfold uptoLastSlash
  have : (pre ++ '/' :: l).reverse = l.reverse ++ '/' :: pre.reverse := by simp
  rw [this, dropWhile_append_all]
  · simp [List.dropWhile_cons]
  · intro x hx
    have : x ≠ '/' := fun e => hl (e ▸ List.mem_reverse.1 hx)
    simpa using this

theorem dir_root_join (F : List Str) (hF : ∀ c ∈ F, Comp c) :
    dir ('/' :: joinSlash F) = '/' :: joinSlash F.dropLast := by
  by_cases hnil : F = []
  · subst hnil; decide
  · obtain ⟨I, l, rfl⟩ : ∃ I l, F = I ++ [l] :=
      ⟨F.dropLast, F.getLast hnil, (List.dropLast_concat_getLast hnil).symm⟩
    have hl : '/' ∉ l := (hF l (by simp)).2.2.2
    have hI : ∀ c ∈ I, Comp c := fun c hc => hF c (by simp [hc])
    simp only [List.dropLast_concat]
    unfold dir
    by_cases hIn : I = []
    · subst hIn
      have : ('/' :: joinSlash ([] ++ [l]) : Str) = [] ++ '/' :: l := rfl
      rw [this, uptoLastSlash_append [] l hl]; decide
    · have : ('/' :: joinSlash (I ++ [l]) : Str) = ('/' :: joinSlash I) ++ '/' :: l := by
        rw [joinSlash_append I [l] hIn (by simp)]; rfl
      rw [this, uptoLastSlash_append _ l hl]
      have hc : comps (('/' :: joinSlash I) ++ '/' :: []) = comps ('/' :: joinSlash I) := by
        rw [comps_append_slash]; simp [comps]
      rw [clean_abs _ rfl, hc, ← clean_abs _ rfl, clean_root_join I hI]

/-- the list `findCommonAncestor` folds over for a cleaned absolute path. -/
theorem splitSlash_dir (F : List Str) (hF : ∀ c ∈ F, Comp c) :
    splitSlash (dir ('/' :: joinSlash F)) =
      [] :: (if F.dropLast = [] then [[]] else F.dropLast) := by
  rw [dir_root_join F hF, splitSlash_slash]
  split
  · rename_i h; rw [h]; rfl
  · rename_i h
    rw [splitSlash_joinSlash _ h (fun c hc => (hF c (List.dropLast_subset F hc)).2.2.2)]

/-! ### commonPrefix / commonAncestorFrom -/

theorem commonPrefix_left (a b : List Str) : commonPrefix a b <+: a := by
  induction a generalizing b with
  | nil => cases b <;> simp [commonPrefix]
  | cons x a ih =>
    cases b with
    | nil => simp [commonPrefix]
    | cons y b =>
      simp only [commonPrefix]
      split
      · exact List.cons_prefix_cons.2 ⟨rfl, ih b⟩
      · simp

theorem commonPrefix_right (a b : List Str) : commonPrefix a b <+: b := by
  induction a generalizing b with
  | nil => cases b <;> simp [commonPrefix]
  | cons x a ih =>
    cases b with
    | nil => simp [commonPrefix]
    | cons y b =>
      simp only [commonPrefix]
      split
      · rename_i h; exact List.cons_prefix_cons.2 ⟨h, ih b⟩
      · simp

/-- all module paths are cleaned and absolute (what the compiler hands to main.go). -/
def CleanAbs (f : Str) : Prop := isAbs f = true ∧ clean f = f

theorem dropWhile_concat_neg {α} (q : α → Bool) (a : List α) (x : α) (hx : q x = false) :
    (a ++ [x]).dropWhile q = a.dropWhile q ++ [x] := by
  induction a with
  | nil => simp [List.dropWhile_cons, hx]
  | cons y a ih =>
    simp only [List.cons_append, List.dropWhile_cons]
    split
    · exact ih
    · rfl

theorem isAbs_uptoLastSlash (f : Str) (h : isAbs f = true) : isAbs (uptoLastSlash f) = true := by
  obtain ⟨t, rfl⟩ := (isAbs_iff _).1 h
  unfold uptoLastSlash
  rw [List.reverse_cons, dropWhile_concat_neg _ _ _ (by simp)]
  simp [isAbs]

theorem isAbs_dir (f : Str) (h : isAbs f = true) : isAbs (dir f) = true :=
  isAbs_clean _ (isAbs_uptoLastSlash f h)

theorem splitSlash_dir_head (f : Str) (h : isAbs f = true) :
    ∃ E, splitSlash (dir f) = [] :: E ∧ E ≠ [] := by
  obtain ⟨t, ht⟩ := (isAbs_iff _).1 (isAbs_dir f h)
  rw [ht, splitSlash_slash]
  exact ⟨_, rfl, splitSlash_ne_nil t⟩

theorem commonAncestorFrom_spec (acc : List Str) (fs : List Str) (r : List Str)
    (hacc : ∃ A, acc = [] :: A) (h : commonAncestorFrom acc fs = some r) :
    (∃ R, r = [] :: R) ∧ r <+: acc ∧ (∀ f ∈ fs, r <+: splitSlash (dir f)) ∧ (fs ≠ [] → r ≠ [[]]) := by
  induction fs generalizing acc with
  | nil =>
    simp only [commonAncestorFrom, Option.some.injEq] at h
    subst h
    exact ⟨hacc, List.prefix_refl _, by simp, by simp⟩
  | cons f fs ih =>
    have hf : isAbs f = true := by
      cases hfa : isAbs f with
      | true => rfl
      | false => simp [commonAncestorFrom, hfa] at h
    obtain ⟨A, rfl⟩ := hacc
    obtain ⟨E, hE, _⟩ := splitSlash_dir_head f hf
    simp only [commonAncestorFrom, hf, Bool.not_true, Bool.false_eq_true, if_false] at h
    split at h
    · exact absurd h (by simp)
    · rename_i hne
      have hcp : commonPrefix ([] :: A) (splitSlash (dir f)) = [] :: commonPrefix A E := by
        rw [hE]; simp [commonPrefix]
      obtain ⟨hR, hpre, hall, hlast⟩ := ih _ ⟨_, hcp⟩ h
      refine ⟨hR, hpre.trans (commonPrefix_left _ _), ?_, ?_⟩
      · intro g hg
        simp only [List.mem_cons] at hg
        rcases hg with rfl | hg
        · exact hpre.trans (commonPrefix_right _ _)
        · exact hall g hg
      · intro _
        by_cases hfs' : fs = []
        · subst hfs'
          simp only [commonAncestorFrom, Option.some.injEq] at h
          rw [← h]; exact hne
        · exact hlast hfs'

/-- what `findCommonAncestor` returns for a non-empty list of module paths. -/
theorem findCommonAncestor_spec (fs : List Str) (root : Str) (hne : fs ≠ [])
    (h : findCommonAncestor fs = some root) :
    ∃ R, root = joinSlash ([] :: R) ∧ R ≠ [] ∧ ∀ f ∈ fs, ([] :: R) <+: splitSlash (dir f) := by
  cases fs with
  | nil => exact absurd rfl hne
  | cons f0 fs =>
    have hf0 : isAbs f0 = true := by
      cases hfa : isAbs f0 with
      | true => rfl
      | false => simp [findCommonAncestor, hfa] at h
    obtain ⟨E, hE, hEne⟩ := splitSlash_dir_head f0 hf0
    simp only [findCommonAncestor, hf0, Bool.not_true, Bool.false_eq_true, if_false,
      Option.map_eq_some_iff] at h
    obtain ⟨r, hr, rfl⟩ := h
    obtain ⟨⟨R, rfl⟩, hpre, hall, hlast⟩ :=
      commonAncestorFrom_spec _ fs r ⟨E, hE⟩ hr
    refine ⟨R, rfl, ?_, ?_⟩
    · by_cases hfs' : fs = []
      · subst hfs'
        simp only [commonAncestorFrom, Option.some.injEq] at hr
        rw [hE] at hr
        simp only [List.cons.injEq, true_and] at hr
        rw [← hr]; exact hEne
      · intro e; subst e; exact hlast hfs' rfl
    · intro g hg
      simp only [List.mem_cons] at hg
      rcases hg with rfl | hg
      · exact hpre
      · exact hall g hg

/-- a non-trivial prefix of the directory elements of a cleaned absolute file names a cleaned
absolute directory the file is below. -/
theorem below_of_dir_prefix (f : Str) (hf : CleanAbs f) (R : List Str) (hR : R ≠ [])
    (hpre : ([] :: R) <+: splitSlash (dir f)) :
    isAbs (joinSlash ([] :: R)) = true ∧ clean (joinSlash ([] :: R)) = joinSlash ([] :: R) ∧
      Below (joinSlash ([] :: R)) f := by
  obtain ⟨F, rfl, hF⟩ := clean_abs_comps f hf.1 hf.2
  rw [splitSlash_dir F hF, List.cons_prefix_cons] at hpre
  have hpre := hpre.2
  have hroot : joinSlash ([] :: R) = '/' :: joinSlash R := by
    rw [joinSlash_cons_ne _ _ hR]; rfl
  rw [hroot]
  by_cases hD : F.dropLast = []
  · -- the directory is "/": so is the root
    simp only [hD, if_true] at hpre
    have hR1 : R = [[]] := by
      obtain ⟨t, ht⟩ := hpre
      cases R with
      | nil => exact absurd rfl hR
      | cons x R =>
        simp only [List.cons_append, List.cons.injEq] at ht
        have : R = [] := by
          have := ht.2; exact (List.append_eq_nil_iff.1 this).1
        rw [← ht.1, this]
    subst hR1
    refine ⟨rfl, by decide, F, ?_⟩
    rw [relElems_root_join F (fun c hc => (hF c hc).good)]
    rfl
  · simp only [hD, if_false] at hpre
    have hRF : R <+: F := hpre.trans (List.dropLast_prefix F)
    have hRc : ∀ c ∈ R, Comp c := fun c hc => hF c (hRF.subset hc)
    obtain ⟨t, ht⟩ := hRF
    refine ⟨rfl, clean_root_join R hRc, t, ?_⟩
    rw [relElems_root_join F (fun c hc => (hF c hc).good),
      relElems_root_join R (fun c hc => (hRc c hc).good), ← ht]
    rfl

/-- **C17 7(iii)**, the `findCommonAncestor` side: every cleaned absolute module path other
than the ancestor itself whose last component minus ".thrift" is not ".." is mapped to a Go
file without ".." component, inside every absolute output directory. -/
theorem core_path_of_common_ancestor (fs : List Str) (root f : Str)
    (hfc : CleanAbs f) (h : findCommonAncestor fs = some root) (hf : f ∈ fs)
    (hne : f ≠ root)
    (hlast : (splitSlash (trimSuffix f thriftSuffix)).getLast? ≠ some dotdot) :
    ∃ p, modulePath root f = some p ∧ (∀ c ∈ splitSlash p, c ≠ dotdot) ∧
      ∀ out, isAbs out = true → within (clean out) (join2 out p) = true := by
  have hfsne : fs ≠ [] := by intro e; subst e; simp at hf
  obtain ⟨R, rfl, hR, hall⟩ := findCommonAncestor_spec fs root hfsne h
  obtain ⟨ha, hc, hb⟩ := below_of_dir_prefix f hfc R hR (hall f hf)
  exact core_path_of_below _ f ha hc hfc.1 hfc.2 hne hb hlast

/-- the common ancestor of a non-empty list of module paths is absolute (all of them are,
or `findCommonAncestor` fails). -/
theorem findCommonAncestor_isAbs (fs : List Str) (root : Str) (hne : fs ≠ [])
    (h : findCommonAncestor fs = some root) : isAbs root = true := by
  obtain ⟨R, rfl, hR, _⟩ := findCommonAncestor_spec fs root hne h
  rw [joinSlash_cons_ne _ _ hR]; rfl

end ThriftVerif.Proto
