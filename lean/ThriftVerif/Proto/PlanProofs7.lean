/-
M-Proto proofs, part 8 (C17): what the path check before the write loop (`checkPaths`, the
repair of finding D33) buys. The written paths of an accepted plan are pairwise prefix-free
and none is the output directory; hence the write loop completes — on exactly those file
systems that are not in the way.
-/
import ThriftVerif.Proto.PlanProofs6

set_option linter.unusedSimpArgs false
set_option linter.unusedVariables false

namespace ThriftVerif.Proto

theorem checkPaths_none {fs : Files} (h : checkPaths fs = none) :
    hasKey fs [] = false ∧ ∀ x ∈ fs, ∀ y ∈ fs, isDirOf y.1 x.1 = false := by
  unfold checkPaths at h
  split at h
  · exact absurd h (by simp)
  · rename_i h0
    split at h
    · exact absurd h (by simp)
    · rename_i h1
      refine ⟨by simpa using h0, fun x hx y hy => ?_⟩
      cases e : isDirOf y.1 x.1 with
      | false => rfl
      | true =>
        exact absurd (List.any_eq_true.2 ⟨x, hx, List.any_eq_true.2 ⟨y, hy, e⟩⟩) h1

/-- the check refuses nothing else. -/
theorem checkPaths_none_iff (fs : Files) :
    checkPaths fs = none ↔
      (hasKey fs [] = false ∧ ∀ x ∈ fs, ∀ y ∈ fs, isDirOf y.1 x.1 = false) := by
  refine ⟨checkPaths_none, fun ⟨h0, h1⟩ => ?_⟩
  unfold checkPaths
  rw [if_neg (by simp [h0]), if_neg]
  intro h
  obtain ⟨x, hx, hy⟩ := List.any_eq_true.1 h
  obtain ⟨y, hy, hxy⟩ := List.any_eq_true.1 hy
  rw [h1 x hx y hy] at hxy
  exact absurd hxy (by simp)

theorem checkPaths_some {fs : Files} {e : PlanErr} (h : checkPaths fs = some e) :
    (e = .outDirItself ∧ hasKey fs [] = true) ∨
    (e = .fileVsDir ∧ ∃ x ∈ fs, ∃ y ∈ fs, isDirOf y.1 x.1 = true) := by
  unfold checkPaths at h
  split at h
  · rename_i h0
    simp only [Option.some.injEq] at h
    exact Or.inl ⟨h.symm, h0⟩
  · split at h
    · rename_i h1
      simp only [Option.some.injEq] at h
      obtain ⟨x, hx, hy⟩ := List.any_eq_true.1 h1
      obtain ⟨y, hy, hxy⟩ := List.any_eq_true.1 hy
      exact Or.inr ⟨h.symm, x, hx, y, hy, hxy⟩
    · exact absurd h (by simp)

/-- a directory-prefix clash between two written paths comes from one between their keys. -/
theorem isDirOf_join2_reflect (out : Str) (A B : List Str) (ho : isAbs out = true)
    (hA : ∀ c ∈ A, Comp c) (hB : ∀ c ∈ B, Comp c) (hAne : A ≠ [])
    (h : isDirOf (join2 out (joinSlash A)) (join2 out (joinSlash B)) = true) :
    isDirOf (joinSlash A) (joinSlash B) = true := by
  rw [join2_abs_joinSlash out A ho hA, join2_abs_joinSlash out B ho hB] at h
  simp only [isDirOf, hasPrefix, List.isPrefixOf_iff_prefix] at h ⊢
  obtain ⟨t, ht⟩ := h
  simp only [List.cons_append, List.cons.injEq, true_and, List.append_assoc, List.nil_append] at ht
  have hns : ∀ L : List Str, (∀ c ∈ L, Comp c) → ∀ c ∈ outComps out ++ L, '/' ∉ c := by
    intro L hL c hc
    rcases List.mem_append.1 hc with hm | hm
    · exact (outComps_comp out c hm).good.2
    · exact (hL c hm).good.2
  have hOB : outComps out ++ B ≠ [] := by
    intro e
    rw [e] at ht
    simp [joinSlash] at ht
  have := congrArg splitSlash ht
  rw [splitSlash_append_slash, splitSlash_joinSlash _ (by simp [hAne]) (hns A hA),
    splitSlash_joinSlash _ hOB (hns B hB), List.append_assoc] at this
  have hB' := List.append_cancel_left this
  subst hB'
  rw [joinSlash_append A _ hAne (splitSlash_ne_nil t)]
  exact ⟨joinSlash (splitSlash t), by simp⟩

/-- every key of the map the write loop starts from is a normalised key. -/
theorem planFiles_keys_norm {root : Str} {mods plugs ord} {all : Files}
    (h : planFiles root mods plugs ord = .ok all) : ∀ x ∈ all, ∃ p, x.1 = normKey p := by
  obtain ⟨core, pf, hg, hr, hm⟩ := planFiles_ok h
  obtain ⟨fs, hc, hmp⟩ := runPlugins_ok hr
  obtain ⟨hpf, _, _, _, _⟩ := mergePlugins_some_spec _ _ _ hmp
  obtain ⟨rfl, _, _⟩ := mergeFiles_some_spec _ _ _ hm
  simp only [List.nil_append] at hpf
  subst hpf
  intro x hx
  rcases List.mem_append.1 hx with hx | hx
  · rcases (genModules_ok_spec _ _ _ _ hg).2.1 x hx with hnil | ⟨m, hm, p, hmp, hk⟩
    · exact absurd hnil (by simp)
    · exact ⟨p, hk.symm⟩
  · obtain ⟨nf, hnf, hxf⟩ := List.mem_flatten.1 hx
    obtain ⟨f, hf, rfl⟩ := List.mem_map.1 (mem_of_mem_pickOrder hnf)
    obtain ⟨y, hy, rfl⟩ := List.mem_map.1 hxf
    exact ⟨y.1, rfl⟩

theorem joinSlash_eq_nil_of_comp (A : List Str) (hA : ∀ c ∈ A, Comp c) (h : joinSlash A = []) :
    A = [] := by
  cases A with
  | nil => rfl
  | cons a r =>
    exact absurd h (joinSlash_ne_nil (a :: r) (by simp) (fun c hc => (hA c hc).1))

/-- a non-empty normalised key is not written at "/" (nor at the output directory). -/
theorem join2_normKey_ne_root (out p : Str) (ho : isAbs out = true) (hp : normKey p ≠ []) :
    join2 out (normKey p) ≠ ['/'] ∧ join2 out (normKey p) ≠ clean out := by
  have hA : outComps p ≠ [] := by
    intro e; apply hp; rw [normKey_eq, e]; rfl
  constructor
  · rw [join2_normKey out p ho]
    intro e
    simp only [List.cons.injEq, true_and] at e
    have := joinSlash_eq_nil_of_comp _ (fun c hc => by
      rcases List.mem_append.1 hc with hm | hm
      · exact outComps_comp out c hm
      · exact outComps_comp p c hm) e
    simp [hA] at this
  · intro e
    have h1 := join2_normKey out p ho
    have h2 : clean out = '/' :: joinSlash (outComps out ++ []) := by
      have := join2_abs_joinSlash out [] ho (by simp)
      rw [← this]
      obtain ⟨t, rfl⟩ := (isAbs_iff _).1 ho
      have habs : isAbs ('/' :: t ++ '/' :: joinSlash []) = true := rfl
      simp only [join2, ne_eq, reduceCtorEq, not_false_eq_true, if_true]
      rw [clean_abs _ habs, clean_abs _ ho]
      have : comps ('/' :: t ++ '/' :: joinSlash []) = comps ('/' :: t) := by
        rw [comps_append_slash]; simp [joinSlash, comps]
      rw [this]
    rw [e] at h1
    rw [h1] at h2
    simp only [List.cons.injEq, true_and, List.append_nil] at h2
    have hns : ∀ c ∈ outComps out ++ outComps p, '/' ∉ c := by
      intro c hc
      rcases List.mem_append.1 hc with hm | hm
      · exact (outComps_comp out c hm).good.2
      · exact (outComps_comp p c hm).good.2
    by_cases hO : outComps out = []
    · rw [hO] at h2
      simp only [List.nil_append] at h2
      exact hA (joinSlash_eq_nil_of_comp _ (outComps_comp p) h2)
    · have := congrArg splitSlash h2
      rw [splitSlash_joinSlash _ (by simp [hO]) hns,
        splitSlash_joinSlash _ hO (fun c hc => (outComps_comp out c hc).good.2)] at this
      have hl := congrArg List.length this
      rw [List.length_append] at hl
      exact hA (List.eq_nil_of_length_eq_zero (by omega))

/-- **C17** (the repaired D33): the written paths of an accepted plan are pairwise
prefix-free — no two are equal, none is a directory prefix of another — and none is "/" or the
output directory itself. -/
theorem plan_paths_prefixFree (root out : Str) (mods plugs ord) (ws : Files)
    (h : generatePlan root out mods plugs ord = .ok ws) (ho : isAbs out = true) :
    ws.Pairwise (fun a b => PrefixFree a.1 b.1) ∧
    ∀ w ∈ ws, w.1 ≠ ['/'] ∧ w.1 ≠ clean out := by
  have hdist := plan_writes_distinct root out mods plugs ord ws h ho
  obtain ⟨all, hp, rfl⟩ := generatePlan_ok h
  obtain ⟨hempty, hclash⟩ := checkPaths_none (planFiles_ok_paths hp)
  have hnorm := planFiles_keys_norm hp
  have hne : ∀ x ∈ all, x.1 ≠ [] := by
    intro x hx e
    have := hasKey_of_mem hx
    rw [e, hempty] at this; exact absurd this (by simp)
  have hrefl : ∀ x ∈ all, ∀ y ∈ all, isDirOf (join2 out x.1) (join2 out y.1) = false := by
    intro x hx y hy
    cases e : isDirOf (join2 out x.1) (join2 out y.1) with
    | false => rfl
    | true =>
      obtain ⟨p, hxp⟩ := hnorm x hx
      obtain ⟨q, hyq⟩ := hnorm y hy
      have hA : outComps p ≠ [] := by
        intro e'; apply hne x hx; rw [hxp, normKey_eq, e']; rfl
      rw [hxp, hyq, normKey_eq, normKey_eq] at e
      have := isDirOf_join2_reflect out _ _ ho (outComps_comp p) (outComps_comp q) hA e
      rw [← normKey_eq, ← normKey_eq, ← hxp, ← hyq, hclash y hy x hx] at this
      exact absurd this (by simp)
  constructor
  · rw [List.pairwise_map]
    rw [List.Nodup, List.pairwise_map, List.pairwise_map] at hdist
    refine List.Pairwise.imp_of_mem (fun {a b} ha hb hab => ?_) hdist
    exact ⟨hab, hrefl a ha b hb, hrefl b hb a ha⟩
  · intro w hw
    obtain ⟨x, hx, rfl⟩ := List.mem_map.1 hw
    obtain ⟨p, hxp⟩ := hnorm x hx
    simp only
    rw [hxp]
    exact join2_normKey_ne_root out p ho (by rw [← hxp]; exact hne x hx)

/-- **C17** (the repaired D33): for an accepted plan the write loop succeeds, in whatever
order the map is iterated, on every file system that is not in the way — and on no other.
After it the regular files are the old ones that were not overwritten, then the plan. -/
theorem plan_writeLoop_complete (root out : Str) (mods plugs ord) (ws : Files)
    (h : generatePlan root out mods plugs ord = .ok ws) (ho : isAbs out = true) (fs : FS) :
    ((writeLoop fs ws).2 = true ↔ NotInTheWay fs ws) ∧
    (NotInTheWay fs ws → ∃ fs', writeLoop fs ws = (fs', true) ∧
      fs'.files = fs.files.filter (fun x => !hasKey ws x.1) ++ ws) := by
  obtain ⟨hpw, hroot⟩ := plan_paths_prefixFree root out mods plugs ord ws h ho
  have hcl : ∀ a ∈ ws, CleanAbs a.1 ∧ a.1 ≠ ['/'] :=
    fun a ha => ⟨plan_paths_cleanAbs root out mods plugs ord ws h ho a ha, (hroot a ha).1⟩
  have hpos := writeLoop_complete_prefixFree_on fs ws hcl hpw
  refine ⟨⟨writeLoop_ok_notInTheWay fs ws, fun hn => ?_⟩, hpos⟩
  obtain ⟨fs', h1, _⟩ := hpos hn
  rw [h1]

/-- the command line: the same with the output directory made absolute. -/
theorem cli_writeLoop_complete (cwd : Str) (tr : Option Str) (out : Str) (mods plugs ord) (ws : Files)
    (h : cliPlan cwd tr out mods plugs ord = .ok ws) (hcwd : isAbs cwd = true) (fs : FS) :
    ((writeLoop fs ws).2 = true ↔ NotInTheWay fs ws) ∧
    (NotInTheWay fs ws → ∃ fs', writeLoop fs ws = (fs', true) ∧
      fs'.files = fs.files.filter (fun x => !hasKey ws x.1) ++ ws) := by
  obtain ⟨root, _, hg⟩ := cliPlan_ok h
  exact plan_writeLoop_complete root _ mods plugs ord ws hg (isAbs_absPath cwd out hcwd) fs

theorem cli_paths_prefixFree (cwd : Str) (tr : Option Str) (out : Str) (mods plugs ord) (ws : Files)
    (h : cliPlan cwd tr out mods plugs ord = .ok ws) (hcwd : isAbs cwd = true) :
    ws.Pairwise (fun a b => PrefixFree a.1 b.1) ∧
    ∀ w ∈ ws, w.1 ≠ ['/'] ∧ w.1 ≠ clean (absPath cwd out) := by
  obtain ⟨root, _, hg⟩ := cliPlan_ok h
  exact plan_paths_prefixFree root _ mods plugs ord ws hg (isAbs_absPath cwd out hcwd)

end ThriftVerif.Proto
