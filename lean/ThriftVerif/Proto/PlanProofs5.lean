/-
M-Proto proofs, part 6 (C17): the write loop completes when no planned path is (or needs as
a directory) another planned path.
-/
import ThriftVerif.Proto.PlanProofs

set_option linter.unusedSimpArgs false
set_option linter.unusedVariables false

namespace ThriftVerif.Proto

/-- the directories `os.MkdirAll(filepath.Dir(p))` makes sure exist. -/
def needDirs (p : Str) : List Str := ancestors (dir p ++ ['/', 'x'])

/-- two planned paths do not get in each other's way. -/
def Apart (a b : Str) : Prop := a ≠ b ∧ a ∉ needDirs b ∧ b ∉ needDirs a

instance (a b : Str) : Decidable (Apart a b) := by unfold Apart; infer_instance

/-- the state invariant of the loop with respect to the entries still to be written. -/
structure LoopInv (fs : FS) (todo : Files) : Prop where
  files_apart : ∀ q, hasKey fs.files q = true → ∀ x ∈ todo, Apart q x.1
  dirs_needed : ∀ d ∈ fs.dirs, ∃ q, hasKey fs.files q = true ∧ d ∈ needDirs q

theorem filter_ne_key (files : Files) (p : Str) (h : hasKey files p = false) :
    files.filter (fun x => !(x.1 == p)) = files := by
  rw [List.filter_eq_self]
  intro x hx
  have : x.1 ≠ p := by
    intro e
    have := hasKey_of_mem hx
    rw [e, h] at this; exact absurd this (by simp)
  simp [this]

theorem writeLoop_complete_aux (fs : FS) (ws : Files)
    (hpw : ws.Pairwise (fun a b => Apart a.1 b.1))
    (hself : ∀ a ∈ ws, a.1 ≠ ['/'] ∧ a.1 ∉ needDirs a.1)
    (hinv : LoopInv fs ws) :
    ∃ fs', writeLoop fs ws = (fs', true) ∧ fs'.files = fs.files ++ ws := by
  induction ws generalizing fs with
  | nil => exact ⟨fs, rfl, by simp⟩
  | cons x r ih =>
    obtain ⟨p, c⟩ := x
    obtain ⟨hpx, hpr⟩ := List.pairwise_cons.1 hpw
    obtain ⟨hproot, hpself⟩ := hself (p, c) (by simp)
    -- MkdirAll succeeds: no needed directory is a file
    have hmk : (needDirs p).any fs.isFile = false := by
      cases h : (needDirs p).any fs.isFile with
      | false => rfl
      | true =>
        obtain ⟨d, hd, hf⟩ := List.any_eq_true.1 h
        exact absurd hd (hinv.files_apart d hf (p, c) (by simp)).2.1
    -- WriteFile succeeds: the path is not a directory
    have hnotdir : ∀ dirs' : List Str, (∀ d ∈ dirs', d ∈ fs.dirs ∨ d ∈ needDirs p) →
        (p == ['/'] || dirs'.contains p) = false := by
      intro dirs' hd
      have h1 : (p == ['/']) = false := by simpa using hproot
      cases h2 : dirs'.contains p with
      | false => simp [h1]
      | true =>
        exfalso
        have hm : p ∈ dirs' := by simpa using h2
        rcases hd p hm with h | h
        · obtain ⟨q, hq, hpq⟩ := hinv.dirs_needed p h
          exact (hinv.files_apart q hq (p, c) (by simp)).2.2 hpq
        · exact hpself h
    have hnokey : hasKey fs.files p = false := by
      cases h : hasKey fs.files p with
      | false => rfl
      | true => exact absurd rfl (hinv.files_apart p h (p, c) (by simp)).1
    let dirs' := fs.dirs ++ (needDirs p).filter (fun x => !fs.isDir x)
    have hdirs' : ∀ d ∈ dirs', d ∈ fs.dirs ∨ d ∈ needDirs p := by
      intro d hd
      rcases List.mem_append.1 hd with h | h
      · exact Or.inl h
      · exact Or.inr (List.mem_filter.1 h).1
    let fs2 : FS := ⟨fs.files ++ [(p, c)], dirs'⟩
    have hstep : writeLoop fs ((p, c) :: r) = writeLoop fs2 r := by
      have e1 : mkdirAll fs (dir p) = some ⟨fs.files, dirs'⟩ := by
        simp only [mkdirAll]
        rw [show ancestors (dir p ++ ['/', 'x']) = needDirs p from rfl, hmk]
        rfl
      have e2 : writeFile ⟨fs.files, dirs'⟩ p c = some fs2 := by
        simp only [writeFile, FS.isDir, hnotdir dirs' hdirs', Bool.false_eq_true, if_false,
          filter_ne_key fs.files p hnokey]
        rfl
      simp only [writeLoop, e1, e2]
    have hinv2 : LoopInv fs2 r := by
      constructor
      · intro q hq y hy
        simp only [fs2, hasKey_append, Bool.or_eq_true] at hq
        rcases hq with hq | hq
        · exact hinv.files_apart q hq y (by simp [hy])
        · have : p = q := by simpa [hasKey] using hq
          subst this
          exact hpx y hy
      · intro d hd
        rcases hdirs' d hd with h | h
        · obtain ⟨q, hq, hdq⟩ := hinv.dirs_needed d h
          exact ⟨q, by simp only [fs2, hasKey_append, hq, Bool.true_or], hdq⟩
        · exact ⟨p, by simp [fs2, hasKey_append, hasKey], h⟩
    obtain ⟨fs', h1, h2⟩ := ih fs2 hpr (fun a ha => hself a (by simp [ha])) hinv2
    exact ⟨fs', by rw [hstep, h1], by rw [h2]; simp [fs2]⟩

/-- On an empty output tree the write loop writes the whole plan, in every iteration order,
provided no planned path is "/", equals another planned path, or is one of the directories
another (or itself) needs. -/
theorem writeLoop_complete (ws : Files)
    (hpw : ws.Pairwise (fun a b => Apart a.1 b.1))
    (hself : ∀ a ∈ ws, a.1 ≠ ['/'] ∧ a.1 ∉ needDirs a.1) :
    ∃ fs', writeLoop ⟨[], []⟩ ws = (fs', true) ∧ fs'.files = ws := by
  obtain ⟨fs', h1, h2⟩ := writeLoop_complete_aux ⟨[], []⟩ ws hpw hself
    ⟨fun q hq => by simp [hasKey] at hq, fun d hd => by simp at hd⟩
  exact ⟨fs', h1, by simpa using h2⟩

end ThriftVerif.Proto
