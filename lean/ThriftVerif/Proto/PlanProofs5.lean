/-
M-Proto proofs, part 6 (C17): the write loop completes when no planned path is (or needs as
a directory) another planned path, and the file system it starts on is not in the way
(`NotInTheWay`: no regular file where a directory is needed, no directory where a file is
planned). The second condition is also necessary.
-/
import ThriftVerif.Proto.PlanProofs

set_option linter.unusedSimpArgs false
set_option linter.unusedVariables false

namespace ThriftVerif.Proto

/-- the directories `os.MkdirAll(filepath.Dir(p))` makes sure exist. -/
def needDirs (p : Str) : List Str := ancestors (dir p ++ ['/', 'x'])

/-- two planned paths do not get in each other's way. -/
def Apart (a b : Str) : Prop := a ≠ b ∧ a ∉ needDirs b ∧ b ∉ needDirs a

instance (a b : Str) : Decidable (Apart a b) := by unfold Apart; infer_instance

/-- The initial file system is not in the way of the writes `ws`: no existing regular file is
one of the directories a planned path needs, and no existing directory is a planned path.
(An existing regular file AT a planned path is fine: it is replaced.) -/
def NotInTheWay (fs : FS) (ws : Files) : Prop :=
  (∀ q, fs.isFile q = true → ∀ w ∈ ws, q ∉ needDirs w.1) ∧
  (∀ d ∈ fs.dirs, ∀ w ∈ ws, d ≠ w.1)

theorem notInTheWay_empty (ws : Files) : NotInTheWay ⟨[], []⟩ ws :=
  ⟨fun q hq => by simp [FS.isFile, hasKey] at hq, fun d hd => by simp at hd⟩

theorem filter_ne_key (files : Files) (p : Str) (h : hasKey files p = false) :
    files.filter (fun x => !(x.1 == p)) = files := by
  rw [List.filter_eq_self]
  intro x hx
  have : x.1 ≠ p := by
    intro e
    have := hasKey_of_mem hx
    rw [e, h] at this; exact absurd this (by simp)
  simp [this]

theorem hasKey_cons (x : Str × Content) (r : Files) (q : Str) :
    hasKey (x :: r) q = (x.1 == q || hasKey r q) := by
  simp [hasKey]

/-- the files left after one more write, in terms of the whole plan. -/
theorem filter_step (files r : Files) (p : Str) (c : Content) (hp : hasKey r p = false) :
    (files.filter (fun x => !(x.1 == p)) ++ [(p, c)]).filter (fun x => !hasKey r x.1) ++ r =
      files.filter (fun x => !hasKey ((p, c) :: r) x.1) ++ (p, c) :: r := by
  rw [List.filter_append, List.filter_filter]
  have h1 : [(p, c)].filter (fun x => !hasKey r x.1) = [(p, c)] := by simp [hp]
  rw [h1]
  have h2 : files.filter (fun x => (!hasKey r x.1) && !(x.1 == p)) =
      files.filter (fun x => !hasKey ((p, c) :: r) x.1) := by
    apply List.filter_congr
    intro x _
    rw [hasKey_cons]
    by_cases e : x.1 = p
    · simp [e]
    · have e' : ¬ p = x.1 := fun h => e h.symm
      have b1 : (x.1 == p) = false := by simpa using e
      have b2 : (p == x.1) = false := by simpa using e'
      simp [b1, b2]
  rw [h2]; simp

theorem writeLoop_complete_aux (fs : FS) (ws : Files)
    (hpw : ws.Pairwise (fun a b => Apart a.1 b.1))
    (hself : ∀ a ∈ ws, a.1 ≠ ['/'] ∧ a.1 ∉ needDirs a.1)
    (hinv : NotInTheWay fs ws) :
    ∃ fs', writeLoop fs ws = (fs', true) ∧
      fs'.files = fs.files.filter (fun x => !hasKey ws x.1) ++ ws := by
  induction ws generalizing fs with
  | nil =>
    refine ⟨fs, rfl, ?_⟩
    have : fs.files.filter (fun x => !hasKey [] x.1) = fs.files :=
      List.filter_eq_self.2 (fun _ _ => rfl)
    rw [this]; simp
  | cons x r ih =>
    obtain ⟨p, c⟩ := x
    obtain ⟨hpx, hpr⟩ := List.pairwise_cons.1 hpw
    obtain ⟨hproot, hpself⟩ := hself (p, c) (by simp)
    obtain ⟨hfiles, hdirs⟩ := hinv
    -- MkdirAll succeeds: no needed directory is a file
    have hmk : (needDirs p).any fs.isFile = false := by
      cases h : (needDirs p).any fs.isFile with
      | false => rfl
      | true =>
        obtain ⟨d, hd, hf⟩ := List.any_eq_true.1 h
        exact absurd hd (hfiles d hf (p, c) (by simp))
    -- WriteFile succeeds: the path is not a directory
    have hnotdir : ∀ dirs' : List Str, (∀ d ∈ dirs', d ∈ fs.dirs ∨ d ∈ needDirs p) →
        (p == ['/'] || dirs'.contains p) = false := by
      intro dirs' hd
      have h1 : (p == ['/']) = false := by simpa using hproot
      cases h2 : dirs'.contains p with
      | false => simp [h1]
      | true =>
        exfalso
        have hm : p ∈ dirs' := by simpa using h2
        rcases hd p hm with h | h
        · exact hdirs p h (p, c) (by simp) rfl
        · exact hpself h
    let dirs' := fs.dirs ++ (needDirs p).filter (fun x => !fs.isDir x)
    have hdirs' : ∀ d ∈ dirs', d ∈ fs.dirs ∨ d ∈ needDirs p := by
      intro d hd
      rcases List.mem_append.1 hd with h | h
      · exact Or.inl h
      · exact Or.inr (List.mem_filter.1 h).1
    let fs2 : FS := ⟨fs.files.filter (fun x => !(x.1 == p)) ++ [(p, c)], dirs'⟩
    have hstep : writeLoop fs ((p, c) :: r) = writeLoop fs2 r := by
      have e1 : mkdirAll fs (dir p) = some ⟨fs.files, dirs'⟩ := by
        simp only [mkdirAll]
        rw [show ancestors (dir p ++ ['/', 'x']) = needDirs p from rfl, hmk]
        rfl
      have e2 : writeFile ⟨fs.files, dirs'⟩ p c = some fs2 := by
        simp only [writeFile, FS.isDir, hnotdir dirs' hdirs', Bool.false_eq_true, if_false]
        rfl
      simp only [writeLoop, e1, e2]
    have hpr' : hasKey r p = false := by
      cases h : hasKey r p with
      | false => rfl
      | true =>
        obtain ⟨y, hy, hyp⟩ := List.any_eq_true.1 h
        have : y.1 = p := by simpa using hyp
        exact absurd this.symm (hpx y hy).1
    have hinv2 : NotInTheWay fs2 r := by
      constructor
      · intro q hq y hy
        simp only [fs2, FS.isFile, hasKey_append, Bool.or_eq_true] at hq
        rcases hq with hq | hq
        · have hq' : hasKey fs.files q = true := by
            obtain ⟨z, hz, hzq⟩ := List.any_eq_true.1 hq
            exact List.any_eq_true.2 ⟨z, (List.mem_filter.1 hz).1, hzq⟩
          exact hfiles q hq' y (by simp [hy])
        · have : p = q := by simpa [hasKey] using hq
          subst this
          exact (hpx y hy).2.1
      · intro d hd y hy
        rcases hdirs' d hd with h | h
        · exact hdirs d h y (by simp [hy])
        · intro e; subst e; exact (hpx y hy).2.2 h
    obtain ⟨fs', h1, h2⟩ := ih fs2 hpr (fun a ha => hself a (by simp [ha])) hinv2
    refine ⟨fs', by rw [hstep, h1], ?_⟩
    rw [h2]
    exact filter_step fs.files r p c hpr'

/-- On an empty output tree the write loop writes the whole plan, in every iteration order,
provided no planned path is "/", equals another planned path, or is one of the directories
another (or itself) needs. -/
theorem writeLoop_complete (ws : Files)
    (hpw : ws.Pairwise (fun a b => Apart a.1 b.1))
    (hself : ∀ a ∈ ws, a.1 ≠ ['/'] ∧ a.1 ∉ needDirs a.1) :
    ∃ fs', writeLoop ⟨[], []⟩ ws = (fs', true) ∧ fs'.files = ws := by
  obtain ⟨fs', h1, h2⟩ := writeLoop_complete_aux ⟨[], []⟩ ws hpw hself (notInTheWay_empty ws)
  exact ⟨fs', h1, by simpa using h2⟩

/-- Conversely — for ANY list of writes — the loop cannot succeed on a file system that is in
the way: an existing regular file stays a regular file and an existing directory stays a
directory until the loop reaches the entry they block. -/
theorem writeLoop_ok_notInTheWay (fs : FS) (ws : Files) (h : (writeLoop fs ws).2 = true) :
    NotInTheWay fs ws := by
  induction ws generalizing fs with
  | nil => exact ⟨fun q _ w hw => by simp at hw, fun d _ w hw => by simp at hw⟩
  | cons x r ih =>
    obtain ⟨p, c⟩ := x
    simp only [writeLoop] at h
    cases e1 : mkdirAll fs (dir p) with
    | none => simp [e1] at h
    | some fs1 =>
      simp only [e1] at h
      cases e2 : writeFile fs1 p c with
      | none => simp [e2] at h
      | some fs2 =>
        simp only [e2] at h
        obtain ⟨ihf, ihd⟩ := ih fs2 h
        -- what the two steps did
        simp only [mkdirAll] at e1
        rw [show ancestors (dir p ++ ['/', 'x']) = needDirs p from rfl] at e1
        cases hmk : (needDirs p).any fs.isFile with
        | true => simp [hmk] at e1
        | false =>
          simp only [hmk, Bool.false_eq_true, if_false, Option.some.injEq] at e1
          subst e1
          simp only [writeFile] at e2
          split at e2
          · simp at e2
          · rename_i hnd
            simp only [Option.some.injEq] at e2
            subst e2
            constructor
            · intro q hq w hw
              rcases List.mem_cons.1 hw with rfl | hw
              · intro hm
                have : (needDirs p).any fs.isFile = true := List.any_eq_true.2 ⟨q, hm, hq⟩
                rw [hmk] at this; exact absurd this (by simp)
              · apply ihf q _ w hw
                simp only [FS.isFile, hasKey_append, Bool.or_eq_true]
                by_cases e : q = p
                · right; simp [hasKey, e]
                · left
                  obtain ⟨z, hz, hzq⟩ := List.any_eq_true.1 hq
                  refine List.any_eq_true.2 ⟨z, List.mem_filter.2 ⟨hz, ?_⟩, hzq⟩
                  have : z.1 = q := by simpa using hzq
                  simp [this, e]
            · intro d hd w hw
              rcases List.mem_cons.1 hw with rfl | hw
              · intro e; subst e
                apply hnd
                simp [FS.isDir, hd]
              · exact ihd d (List.mem_append_left _ hd) w hw

end ThriftVerif.Proto
