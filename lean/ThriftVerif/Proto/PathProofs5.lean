/-
M-Proto proofs, part 1e (C17): the repaired `modulePath` (it refuses a package path that
`escapesRoot`) never yields a ".." component for an absolute root; `Join` below an absolute
directory is injective on joined component lists.
-/
import ThriftVerif.Proto.PathProofs4

set_option linter.unusedSimpArgs false
set_option linter.unusedVariables false

namespace ThriftVerif.Proto

/-! ### Clean preserves rootedness, both ways -/

theorem joinSlash_head (x : Str) (r : List Str) (c : Char) (x' : Str) (hx : x = c :: x') :
    ∃ t, joinSlash (x :: r) = c :: t := by
  subst hx
  cases r with
  | nil => exact ⟨x', rfl⟩
  | cons y r => exact ⟨x' ++ '/' :: joinSlash (y :: r), rfl⟩

theorem isAbs_of_isAbs_clean (s : Str) (h : isAbs (clean s) = true) : isAbs s = true := by
  cases hs : isAbs s with
  | true => rfl
  | false =>
    exfalso
    unfold clean at h
    split at h
    · simp [isAbs, dot] at h
    · simp only [hs, Bool.false_eq_true, if_false] at h
      split at h
      · simp [isAbs, dot] at h
      · rename_i hne
        generalize hout : (cleanStack false [] (comps s)).reverse = out at h hne
        cases out with
        | nil => exact hne rfl
        | cons x r =>
          have hx : x ∈ comps s :=
            cleanStack_nil_subset _ _ x (List.mem_reverse.1 (by rw [hout]; simp))
          have hg := comp_good hx
          cases x with
          | nil => exact hg.1 rfl
          | cons c x' =>
            obtain ⟨t, ht⟩ := joinSlash_head (c :: x') r c x' rfl
            rw [ht] at h
            simp only [isAbs, List.head?_cons, beq_iff_eq, Option.some.injEq] at h
            subst h
            exact hg.2 (by simp)

theorem clean_comps_of_abs (s : Str) (h : isAbs s = true) :
    ∃ S : List Str, clean s = '/' :: joinSlash S ∧ ∀ c ∈ S, Comp c := by
  obtain ⟨S, hS, hc⟩ := clean_abs_comps (clean s) (isAbs_clean s h) (clean_clean_abs s h)
  exact ⟨S, hS, hc⟩

/-! ### Rel from an absolute base: ".." only in front -/

theorem escapesRoot_joinSlash_dotdot (l : List Str) : escapesRoot (joinSlash (dotdot :: l)) = true := by
  cases l with
  | nil => decide
  | cons y l => simp [joinSlash, escapesRoot, hasPrefix, dotdot]

/-- a `Rel` result from an absolute base that `RelativePackage` accepts has no ".." component. -/
theorem rel_abs_no_dotdot (root t pkg : Str) (ha : isAbs root = true)
    (h : rel root t = some pkg) (he : escapesRoot pkg = false) :
    ∀ c ∈ splitSlash pkg, c ≠ dotdot := by
  obtain ⟨S, hS, hSc⟩ := clean_comps_of_abs root ha
  unfold rel at h
  simp only at h
  split at h
  · simp only [Option.some.injEq] at h; subst h; decide
  · rename_i hne
    have hnd : clean root ≠ dot := by rw [hS]; simp [dot]
    simp only [hnd, if_false] at h
    split at h
    · exact absurd h (by simp)
    · rename_i habs
      have hta : isAbs (clean t) = true := by
        have : isAbs (clean root) = true := isAbs_clean root ha
        simpa [this] using habs
      obtain ⟨T, hT, hTc⟩ := clean_comps_of_abs t (isAbs_of_isAbs_clean t hta)
      rw [hS, hT, relElems_root_join S (fun c hc => (hSc c hc).good),
        relElems_root_join T (fun c hc => (hTc c hc).good)] at h
      generalize hsc : stripCommon ([] :: S) ([] :: T) = r at h
      obtain ⟨b', t'⟩ := r
      obtain ⟨pre, h1, h2⟩ := stripCommon_spec _ _ _ _ hsc
      have hb'S : ∀ c ∈ b', c = [] ∨ c ∈ S := by
        intro c hc
        have : c ∈ ([] : Str) :: S := by rw [h1]; simp [hc]
        simpa using this
      have ht'T : ∀ c ∈ t', c = [] ∨ c ∈ T := by
        intro c hc
        have : c ∈ ([] : Str) :: T := by rw [h2]; simp [hc]
        simpa using this
      simp only at h
      cases b' with
      | nil =>
        simp only [Option.some.injEq] at h
        subst h
        by_cases ht' : t' = []
        · subst ht'; decide
        · rw [splitSlash_joinSlash t' ht' (fun c hc => by
            rcases ht'T c hc with rfl | hm
            · simp
            · exact (hTc c hm).2.2.2)]
          intro c hc
          rcases ht'T c hc with rfl | hm
          · decide
          · exact (hTc c hm).2.2.1
      | cons x xs =>
        simp only at h
        split at h
        · exact absurd h (by simp)
        · simp only [List.map_cons, List.cons_append, Option.some.injEq] at h
          rw [← h, escapesRoot_joinSlash_dotdot] at he
          exact absurd he (by simp)

/-- **C17 (d)**: for an absolute Thrift root the repaired `modulePath` never yields a path
with a ".." component (the file need not even be absolute or cleaned). -/
theorem modulePath_abs_no_dotdot (root file p : Str) (ha : isAbs root = true)
    (h : modulePath root file = some p) : ∀ c ∈ splitSlash p, c ≠ dotdot := by
  obtain ⟨pkg, hrel, hesc, rfl⟩ := (modulePath_iff _ _ _).1 h
  exact core_path_no_dotdot pkg (rel_abs_no_dotdot root _ pkg ha hrel hesc)

/-! ### Join below an absolute directory -/

theorem comps_joinSlash (K : List Str) (hK : ∀ c ∈ K, Comp c) : comps (joinSlash K) = K := by
  have := comps_root_join K hK
  rwa [comps_slash] at this

theorem splitSlash_joinSlash_no_dotdot (K : List Str) (hK : ∀ c ∈ K, Comp c) :
    ∀ c ∈ splitSlash (joinSlash K), c ≠ dotdot := by
  by_cases hn : K = []
  · subst hn; decide
  · rw [splitSlash_joinSlash K hn (fun c hc => (hK c hc).2.2.2)]
    exact fun c hc => (hK c hc).2.2.1

/-- the components of `Clean(out)` for an absolute `out`. -/
def outComps (out : Str) : List Str := (cleanStack true [] (comps out)).reverse

theorem outComps_comp (out : Str) : ∀ c ∈ outComps out, Comp c := by
  intro c hc
  have hm := cleanStack_nil_subset _ _ c (List.mem_reverse.1 hc)
  exact ⟨(mem_comps.1 hm).2.1, (mem_comps.1 hm).2.2,
    cleanStack_rooted_no_dotdot [] _ (by simp) c (List.mem_reverse.1 hc), comp_no_slash hm⟩

theorem join2_abs_joinSlash (out : Str) (K : List Str) (ho : isAbs out = true)
    (hK : ∀ c ∈ K, Comp c) : join2 out (joinSlash K) = '/' :: joinSlash (outComps out ++ K) := by
  rw [join2_abs_push out _ ho (splitSlash_joinSlash_no_dotdot K hK), comps_joinSlash K hK]
  rfl

/-- `Join(out, ·)` is injective on joined component lists. -/
theorem join2_abs_joinSlash_inj (out : Str) (K K' : List Str) (ho : isAbs out = true)
    (hK : ∀ c ∈ K, Comp c) (hK' : ∀ c ∈ K', Comp c)
    (h : join2 out (joinSlash K) = join2 out (joinSlash K')) : K = K' := by
  rw [join2_abs_joinSlash out K ho hK, join2_abs_joinSlash out K' ho hK'] at h
  have hall : ∀ L : List Str, (∀ c ∈ L, Comp c) → ∀ c ∈ outComps out ++ L, c ≠ [] ∧ '/' ∉ c := by
    intro L hL c hc
    rcases List.mem_append.1 hc with hm | hm
    · exact (outComps_comp out c hm).good
    · exact (hL c hm).good
  have := congrArg relElems h
  rw [relElems_root_join _ (hall K hK), relElems_root_join _ (hall K' hK')] at this
  simpa using this

end ThriftVerif.Proto
