/-
M-Proto proofs about the host automaton (C16): characterisations of the three
per-plugin phases, then the properties of `finish` (one plugin under arbitrary
global flags) and their lift to `run`.
-/
import ThriftVerif.Proto.Host

set_option linter.unusedSimpArgs false
set_option linter.unusedVariables false

namespace ThriftVerif.Proto
open ThriftVerif.Wire

/-! ### what each phase does to a plugin's record -/

/-- the three ways `Flag.Handle` can end. -/
inductive HsCase (p : Plugin) (r : Rec) : Prop where
  | accepted (x : HsResp) (hx : r.hsResp = some x) (hacc : handshakeAccepts p x = true)
      (hok : r.hsOk = true) (hb : r.blocked = false)
      (hh : r.h = [.start, .send .handshake, .recvOk .handshake]) (he : r.errs = []) (hf : r.files = none)
  | failed (e : HEvent) (hev : e = .recvOk .handshake ∨ e = .recvErr .handshake)
      (hok : r.hsOk = false) (hb : r.blocked = false)
      (hh : r.h = [.start, .send .handshake, e, .closePipes, .wait])
      (he : r.errs = .handshake :: exitErr p) (hf : r.files = none)
      (hrej : ∀ x, r.hsResp = some x → handshakeAccepts p x = false)
  | blocked (hok : r.hsOk = false) (hb : r.blocked = true)
      (hh : r.h = [.start, .send .handshake]) (he : r.errs = []) (hf : r.files = none)
      (hresp : r.hsResp = none)

theorem hsPhase_cases (p : Plugin) : HsCase p (hsPhase p) := by
  unfold hsPhase
  generalize exchange (startState p) .handshake p.hs = ex
  obtain ⟨st, got⟩ := ex
  cases got with
  | msg m =>
    simp only
    split
    · rename_i r hr
      split
      · rename_i hacc
        exact .accepted r rfl hacc rfl rfl rfl rfl rfl
      · rename_i hacc
        refine .failed (.recvOk .handshake) (Or.inl rfl) rfl rfl rfl rfl rfl ?_
        intro x hx
        simp only [Option.some.injEq] at hx
        subst hx
        simpa using hacc
    · exact .failed (.recvErr .handshake) (Or.inr rfl) rfl rfl rfl rfl rfl (by intro x hx; cases hx)
  | fail => exact .failed (.recvErr .handshake) (Or.inr rfl) rfl rfl rfl rfl rfl (by intro x hx; cases hx)
  | block => exact .blocked rfl rfl rfl rfl rfl rfl

/-- the two ways `transportHandle.Close` can end (a blocked goodbye never returns). -/
inductive CloseCase (p : Plugin) (r r' : Rec) : Prop where
  | closed (e : HEvent) (hev : e = .recvOk .goodbye ∨ e = .recvErr .goodbye)
      (hb : r'.blocked = r.blocked)
      (hh : r'.h = r.h ++ [.send .goodbye, e, .closePipes, .wait])
      (he : r'.errs = r.errs ++ ((if e = .recvErr .goodbye then [ErrKind.goodbye] else []) ++ exitErr p))
  | blocked (hb : r'.blocked = true) (hh : r'.h = r.h ++ [.send .goodbye]) (he : r'.errs = r.errs)

theorem closeHandle_same (p : Plugin) (r : Rec) :
    (closeHandle p r).hsOk = r.hsOk ∧ (closeHandle p r).hsResp = r.hsResp ∧
    (closeHandle p r).files = r.files := by
  unfold closeHandle
  generalize exchange r.st .goodbye p.bye = ex
  obtain ⟨st, got⟩ := ex
  cases got <;> simp only <;> (try split) <;> simp

theorem closeHandle_cases (p : Plugin) (r : Rec) : CloseCase p r (closeHandle p r) := by
  unfold closeHandle
  generalize exchange r.st .goodbye p.bye = ex
  obtain ⟨st, got⟩ := ex
  cases got with
  | msg m =>
    simp only
    split
    · exact .closed (.recvOk .goodbye) (Or.inl rfl) rfl rfl (by simp)
    · exact .closed (.recvErr .goodbye) (Or.inr rfl) rfl rfl (by simp)
  | fail => exact .closed (.recvErr .goodbye) (Or.inr rfl) rfl rfl (by simp)
  | block => exact .blocked rfl rfl rfl

/-- the ways `serviceGenerator.Generate` can end. -/
inductive GenCase (r r' : Rec) : Prop where
  | files (fs : Files) (hb : r'.blocked = r.blocked)
      (hh : r'.h = r.h ++ [.send .generate, .recvOk .generate]) (he : r'.errs = r.errs)
      (hf : r'.files = some fs) (hnd : fs.any (fun x => containsDotDot x.1) = false)
  | dotdot (hb : r'.blocked = r.blocked)
      (hh : r'.h = r.h ++ [.send .generate, .recvOk .generate]) (he : r'.errs = r.errs ++ [.dotdot])
      (hf : r'.files = r.files)
  | failed (hb : r'.blocked = r.blocked)
      (hh : r'.h = r.h ++ [.send .generate, .recvErr .generate]) (he : r'.errs = r.errs ++ [.generate])
      (hf : r'.files = r.files)
  | blocked (hb : r'.blocked = true) (hh : r'.h = r.h ++ [.send .generate]) (he : r'.errs = r.errs)
      (hf : r'.files = r.files)

theorem genPhase_same (p : Plugin) (r : Rec) :
    (genPhase p r).hsOk = r.hsOk ∧ (genPhase p r).hsResp = r.hsResp := by
  unfold genPhase
  generalize exchange r.st .generate p.gen = ex
  obtain ⟨st, got⟩ := ex
  cases got <;> simp only <;> (try split) <;> (try split) <;> simp

theorem genPhase_cases (p : Plugin) (r : Rec) : GenCase r (genPhase p r) := by
  unfold genPhase
  generalize exchange r.st .generate p.gen = ex
  obtain ⟨st, got⟩ := ex
  cases got with
  | msg m =>
    simp only
    split
    · rename_i fs hfs
      split
      · exact .dotdot rfl rfl rfl rfl
      · rename_i hnd
        exact .files fs rfl rfl rfl rfl (by simpa using hnd)
    · exact .failed rfl rfl rfl rfl
  | fail => exact .failed rfl rfl rfl rfl
  | block => exact .blocked rfl rfl rfl rfl

/-! ### one plugin under arbitrary global flags -/

theorem phase2_cases (g : Flags) (p : Plugin) (r : Rec) :
    phase2 g p r = r ∨
    (r.hsOk = true ∧ g.blk1 = false ∧ g.allOk = false ∧ phase2 g p r = closeHandle p r) ∨
    (g.blk1 = false ∧ g.allOk = true ∧ g.coreOk = true ∧ wantsGenerate r = true ∧
      phase2 g p r = genPhase p r) := by
  unfold phase2
  cases hb : g.blk1 <;> cases ha : g.allOk <;> cases hc : g.coreOk <;> cases hw : wantsGenerate r <;>
    cases ho : r.hsOk <;> simp

theorem phase3_cases (g : Flags) (p : Plugin) (r : Rec) :
    (phase3 g p r = r ∧ (g.blk1 = true ∨ g.allOk = false ∨ g.blk2 = true)) ∨
    (g.blk1 = false ∧ g.allOk = true ∧ g.blk2 = false ∧ phase3 g p r = closeHandle p r) := by
  unfold phase3
  cases hb : g.blk1 <;> cases ha : g.allOk <;> cases hc : g.blk2 <;> simp

theorem wantsGenerate_iff (r : Rec) :
    wantsGenerate r = true ↔ r.hsOk = true ∧ ∃ x, r.hsResp = some x ∧ hasServiceGenerator x = true := by
  unfold wantsGenerate
  cases h : r.hsResp <;> simp

theorem closeHandle_no_generate (p : Plugin) (r : Rec)
    (h : HEvent.send .generate ∈ (closeHandle p r).h) : HEvent.send .generate ∈ r.h := by
  rcases closeHandle_cases p r with ⟨e, hev, _, hh, _⟩ | ⟨_, hh, _⟩
  · rw [hh] at h
    rcases hev with rfl | rfl <;> simpa using h
  · rw [hh] at h; simpa using h

/-- **generate_after_handshake** for one plugin under any global situation: a generate
request is only ever sent to a plugin whose handshake reply decoded to a response with the
expected name, the host's API version and the service-generator feature, and it comes
right after the successful handshake exchange. -/
theorem finish_generate_after_handshake (g : Flags) (p : Plugin)
    (h : HEvent.send .generate ∈ (finish g p).h) :
    ∃ x, (hsPhase p).hsResp = some x ∧ handshakeAccepts p x = true ∧ hasServiceGenerator x = true ∧
      ∃ tail, (finish g p).h =
        [.start, .send .handshake, .recvOk .handshake, .send .generate] ++ tail := by
  unfold finish at h ⊢
  have hs := hsPhase_cases p
  generalize hsPhase p = r1 at h hs ⊢
  -- where can a generate come from? only from genPhase in phase 2
  have key : ∀ r2, r2 = phase2 g p r1 → HEvent.send .generate ∈ r2.h →
      wantsGenerate r1 = true ∧ ∃ t, r2.h = r1.h ++ (.send .generate :: t) := by
    intro r2 hr2 hmem
    rcases phase2_cases g p r1 with h2 | ⟨_, _, _, h2⟩ | ⟨_, _, _, hw, h2⟩
    · rw [h2] at hr2; subst hr2
      exfalso
      rcases hs with ⟨x, _, _, _, _, hh, _, _⟩ | ⟨e, hev, _, _, hh, _, _, _⟩ | ⟨_, _, hh, _, _, _⟩ <;>
        rw [hh] at hmem
      · simp at hmem
      · rcases hev with rfl | rfl <;> simp at hmem
      · simp at hmem
    · rw [h2] at hr2; subst hr2
      exfalso
      have := closeHandle_no_generate p r1 hmem
      rcases hs with ⟨x, _, _, _, _, hh, _, _⟩ | ⟨e, hev, _, _, hh, _, _, _⟩ | ⟨_, _, hh, _, _, _⟩ <;>
        rw [hh] at this
      · simp at this
      · rcases hev with rfl | rfl <;> simp at this
      · simp at this
    · rw [h2] at hr2; subst hr2
      refine ⟨hw, ?_⟩
      rcases genPhase_cases p r1 with ⟨fs, _, hh, _, _, _⟩ | ⟨_, hh, _, _⟩ | ⟨_, hh, _, _⟩ | ⟨_, hh, _, _⟩ <;>
        exact ⟨_, by rw [hh]⟩
  have fromP2 : HEvent.send .generate ∈ (phase2 g p r1).h := by
    rcases phase3_cases g p (phase2 g p r1) with ⟨h3, _⟩ | ⟨_, _, _, h3⟩
    · rw [h3] at h; exact h
    · rw [h3] at h; exact closeHandle_no_generate p _ h
  obtain ⟨hw, t, ht⟩ := key _ rfl fromP2
  obtain ⟨hok, x, hx, hfeat⟩ := (wantsGenerate_iff r1).1 hw
  rcases hs with ⟨x', hx', hacc, _, _, hh, _, _⟩ | ⟨_, _, hok', _, _, _, _, _⟩ | ⟨hok', _, _, _, _, _⟩
  · rw [hx] at hx'; cases hx'
    refine ⟨x, hx, hacc, hfeat, ?_⟩
    rcases phase3_cases g p (phase2 g p r1) with ⟨h3, _⟩ | ⟨_, _, _, h3⟩
    · rw [h3, ht, hh]; exact ⟨t, by simp⟩
    · rw [h3]
      rcases closeHandle_cases p (phase2 g p r1) with ⟨e, _, _, hc, _⟩ | ⟨_, hc, _⟩
      · rw [hc, ht, hh]; exact ⟨t ++ [.send .goodbye, e, .closePipes, .wait], by simp⟩
      · rw [hc, ht, hh]; exact ⟨t ++ [.send .goodbye], by simp⟩
  · rw [hok] at hok'; cases hok'
  · rw [hok] at hok'; cases hok'

/-- number of goodbye requests the host sends to one plugin. -/
def goodbyes (h : List HEvent) : Nat := h.count (.send .goodbye)
def closes (h : List HEvent) : Nat := h.count .closePipes
def waits (h : List HEvent) : Nat := h.count .wait

theorem hs_counts (p : Plugin) : goodbyes (hsPhase p).h = 0 ∧
    (closes (hsPhase p).h = if (hsPhase p).hsOk || (hsPhase p).blocked then 0 else 1) ∧
    (waits (hsPhase p).h = if (hsPhase p).hsOk || (hsPhase p).blocked then 0 else 1) := by
  rcases hsPhase_cases p with ⟨x, _, _, hok, hb, hh, _, _⟩ | ⟨e, hev, hok, hb, hh, _, _, _⟩ | ⟨hok, hb, hh, _, _, _⟩
  · rw [hh, hok]; simp [goodbyes, closes, waits]
  · rw [hh, hok, hb]; rcases hev with rfl | rfl <;> simp [goodbyes, closes, waits]
  · rw [hh, hok, hb]; simp [goodbyes, closes, waits]

theorem gen_counts (p : Plugin) (r : Rec) : goodbyes (genPhase p r).h = goodbyes r.h ∧
    closes (genPhase p r).h = closes r.h ∧ waits (genPhase p r).h = waits r.h := by
  rcases genPhase_cases p r with ⟨fs, _, hh, _, _, _⟩ | ⟨_, hh, _, _⟩ | ⟨_, hh, _, _⟩ | ⟨_, hh, _, _⟩ <;>
    rw [hh] <;> simp [goodbyes, closes, waits, List.count_append]

theorem close_counts (p : Plugin) (r : Rec) : goodbyes (closeHandle p r).h = goodbyes r.h + 1 ∧
    ((closeHandle p r).blocked = false → closes (closeHandle p r).h = closes r.h + 1 ∧
      waits (closeHandle p r).h = waits r.h + 1 ∧ r.blocked = false ∧
      ∃ pre, (closeHandle p r).h = pre ++ [.closePipes, .wait]) := by
  rcases closeHandle_cases p r with ⟨e, hev, hb, hh, _⟩ | ⟨hb, hh, _⟩
  · rw [hh]
    refine ⟨by rcases hev with rfl | rfl <;> simp [goodbyes, List.count_append], ?_⟩
    intro hnb
    refine ⟨by rcases hev with rfl | rfl <;> simp [closes, List.count_append],
      by rcases hev with rfl | rfl <;> simp [waits, List.count_append], by rw [← hb]; exact hnb,
      r.h ++ [.send .goodbye, e], by simp⟩
  · rw [hh]
    refine ⟨by simp [goodbyes, List.count_append], ?_⟩
    intro hnb; rw [hb] at hnb; cases hnb

/-- hypotheses under which the per-plugin statements are made: the run does not hang in the
handshake or generate barrier, and the `allOk` flag is truthful for this plugin. -/
structure FlagsOK (g : Flags) (p : Plugin) : Prop where
  nb1 : g.blk1 = false
  nb2 : g.blk2 = false
  cons : g.allOk = true → (hsPhase p).hsOk = true

/-- **goodbye_once**: exactly one goodbye to a plugin whose handshake succeeded, none otherwise. -/
theorem finish_goodbye_once (g : Flags) (p : Plugin) (hg : FlagsOK g p) :
    goodbyes (finish g p).h = if (hsPhase p).hsOk then 1 else 0 := by
  obtain ⟨nb1, nb2, hcons⟩ := hg
  unfold finish
  have h0 := (hs_counts p).1
  generalize hsPhase p = r1 at h0 hcons ⊢
  cases ha : g.allOk
  · -- some handshake failed: phase 2 closes the handles that were obtained, phase 3 is skipped
    have h3 : ∀ r, phase3 g p r = r := by intro r; simp [phase3, ha]
    rw [h3]
    cases hok : r1.hsOk
    · have : phase2 g p r1 = r1 := by simp [phase2, nb1, ha, hok]
      rw [this, h0]; simp
    · have : phase2 g p r1 = closeHandle p r1 := by simp [phase2, nb1, ha, hok]
      rw [this, (close_counts p r1).1, h0]; simp
  · have hok := hcons ha
    have h3 : ∀ r, phase3 g p r = closeHandle p r := by intro r; simp [phase3, ha, nb1, nb2]
    rw [h3, (close_counts p _).1, hok]
    have : goodbyes (phase2 g p r1).h = 0 := by
      rcases phase2_cases g p r1 with h2 | ⟨_, _, ha', _⟩ | ⟨_, _, _, _, h2⟩
      · rw [h2]; exact h0
      · rw [ha] at ha'; cases ha'
      · rw [h2, (gen_counts p r1).1]; exact h0
    rw [this]; simp

/-- **all_closed**: in a run that does not block, every started plugin has its pipes closed
and is waited for, exactly once, as the last two things the host does to it. -/
theorem finish_all_closed (g : Flags) (p : Plugin) (hg : FlagsOK g p)
    (hnb : (finish g p).blocked = false) :
    closes (finish g p).h = 1 ∧ waits (finish g p).h = 1 ∧
    (∃ pre, (finish g p).h = pre ++ [.closePipes, .wait]) ∧ (finish g p).h.head? = some .start := by
  obtain ⟨nb1, nb2, hcons⟩ := hg
  unfold finish at hnb ⊢
  have hc := hs_counts p
  have hs := hsPhase_cases p
  generalize hsPhase p = r1 at hc hs hcons hnb ⊢
  have hstart : ∀ t, (r1.h ++ t).head? = some .start := by
    intro t
    rcases hs with ⟨_, _, _, _, _, hh, _, _⟩ | ⟨_, _, _, _, hh, _, _, _⟩ | ⟨_, _, hh, _, _, _⟩ <;> rw [hh] <;> rfl
  cases ha : g.allOk
  · have h3 : ∀ r, phase3 g p r = r := by intro r; simp [phase3, ha]
    rw [h3] at hnb ⊢
    cases hok : r1.hsOk
    · have h2 : phase2 g p r1 = r1 := by simp [phase2, nb1, ha, hok]
      rw [h2] at hnb ⊢
      rcases hs with ⟨_, _, _, hok', _, _, _, _⟩ | ⟨e, hev, _, _, hh, _, _, _⟩ | ⟨_, hb, _, _, _, _⟩
      · rw [hok] at hok'; cases hok'
      · rw [hh]
        rcases hev with rfl | rfl
        · exact ⟨by simp [closes], by simp [waits],
            ⟨[.start, .send .handshake, .recvOk .handshake], by simp⟩, rfl⟩
        · exact ⟨by simp [closes], by simp [waits],
            ⟨[.start, .send .handshake, .recvErr .handshake], by simp⟩, rfl⟩
      · rw [hb] at hnb; cases hnb
    · have h2 : phase2 g p r1 = closeHandle p r1 := by simp [phase2, nb1, ha, hok]
      rw [h2] at hnb ⊢
      obtain ⟨c1, c2, hb1, pre, hpre⟩ := (close_counts p r1).2 hnb
      rw [hok] at hc
      refine ⟨by rw [c1, hc.2.1]; simp, by rw [c2, hc.2.2]; simp, ⟨pre, hpre⟩, ?_⟩
      rcases closeHandle_cases p r1 with ⟨e, _, _, hh, _⟩ | ⟨_, hh, _⟩ <;> rw [hh] <;> exact hstart _
  · have hok := hcons ha
    have h3 : ∀ r, phase3 g p r = closeHandle p r := by intro r; simp [phase3, ha, nb1, nb2]
    rw [h3] at hnb ⊢
    obtain ⟨c1, c2, hb2, pre, hpre⟩ := (close_counts p _).2 hnb
    rw [hok] at hc
    have hcnt : closes (phase2 g p r1).h = 0 ∧ waits (phase2 g p r1).h = 0 ∧
        ∃ t, (phase2 g p r1).h = r1.h ++ t := by
      rcases phase2_cases g p r1 with h2 | ⟨_, _, ha', _⟩ | ⟨_, _, _, _, h2⟩
      · rw [h2]; exact ⟨by simpa using hc.2.1, by simpa using hc.2.2, [], by simp⟩
      · rw [ha] at ha'; cases ha'
      · rw [h2, (gen_counts p r1).2.1, (gen_counts p r1).2.2]
        refine ⟨by simpa using hc.2.1, by simpa using hc.2.2, ?_⟩
        rcases genPhase_cases p r1 with ⟨fs, _, hh, _, _, _⟩ | ⟨_, hh, _, _⟩ | ⟨_, hh, _, _⟩ | ⟨_, hh, _, _⟩ <;>
          exact ⟨_, hh⟩
    obtain ⟨z1, z2, t, ht⟩ := hcnt
    refine ⟨by rw [c1, z1], by rw [c2, z2], ⟨pre, hpre⟩, ?_⟩
    rcases closeHandle_cases p (phase2 g p r1) with ⟨e, _, _, hh, _⟩ | ⟨_, hh, _⟩ <;>
      rw [hh, ht, List.append_assoc] <;> exact hstart _

end ThriftVerif.Proto
