/-
M-Proto proofs, C18 part 3: the merge under the mutex (`mergePlugins` over the answers in
completion order `pickOrder fs ord`) gives the same outcome for every completion order.
-/
import ThriftVerif.Proto.Plan

namespace ThriftVerif.Proto

/-- the keys (relative paths) of a file map. -/
abbrev keys (fs : Files) : List Str := fs.map (·.1)

theorem hasKey_iff (fs : Files) (p : Str) : hasKey fs p = true ↔ p ∈ keys fs := by
  simp only [hasKey, List.any_eq_true, beq_iff_eq, keys, List.mem_map]

theorem hasKey_false_iff (fs : Files) (p : Str) : hasKey fs p = false ↔ p ∉ keys fs := by
  rw [← hasKey_iff]; simp

/-- `mergeFiles` succeeds with the concatenation when all keys stay distinct. -/
theorem mergeFiles_some (src : Files) : ∀ dest : Files, (keys (dest ++ src)).Nodup →
    mergeFiles dest src = some (dest ++ src) := by
  induction src with
  | nil => intro dest _; simp [mergeFiles]
  | cons x r ih =>
    intro dest h
    obtain ⟨p, c⟩ := x
    have hnot : p ∉ keys dest := by
      simp only [keys, List.map_append, List.map_cons, List.nodup_append, List.mem_cons] at h
      intro hp
      exact h.2.2 p hp p (Or.inl rfl) rfl
    have hk : hasKey dest p = false := (hasKey_false_iff dest p).2 hnot
    have h' : (keys ((dest ++ [(p, c)]) ++ r)).Nodup := by simpa using h
    simp only [mergeFiles, addFile, hk, Bool.false_eq_true, if_false]
    rw [ih _ h']
    simp

/-- `mergeFiles` fails as soon as some key occurs twice (given a conflict-free destination). -/
theorem mergeFiles_none (src : Files) : ∀ dest : Files, (keys dest).Nodup →
    ¬ (keys (dest ++ src)).Nodup → mergeFiles dest src = none := by
  induction src with
  | nil => intro dest hd h; simp at h; exact absurd hd h
  | cons x r ih =>
    intro dest hd h
    obtain ⟨p, c⟩ := x
    cases hk : hasKey dest p with
    | true => simp [mergeFiles, addFile, hk]
    | false =>
      have hnot : p ∉ keys dest := (hasKey_false_iff dest p).1 hk
      have hd' : (keys (dest ++ [(p, c)])).Nodup := by
        simp only [keys, List.map_append, List.map_cons, List.map_nil, List.nodup_append]
        refine ⟨hd, by simp, ?_⟩
        intro a ha b hb
        simp only [List.mem_singleton] at hb
        subst hb
        intro hab; subst hab; exact hnot ha
      have h' : ¬ (keys ((dest ++ [(p, c)]) ++ r)).Nodup := by simpa using h
      simp only [mergeFiles, addFile, hk, Bool.false_eq_true, if_false]
      exact ih _ hd' h'

theorem nodup_keys_prefix (a b : Files) (h : (keys (a ++ b)).Nodup) : (keys a).Nodup := by
  simp only [keys, List.map_append, List.nodup_append] at h
  exact h.1

/-- the merge loop succeeds with everything appended when all keys are distinct. -/
theorem mergePlugins_some (fs : List Files) : ∀ acc : Files, (keys (acc ++ fs.flatten)).Nodup →
    mergePlugins acc fs = some (acc ++ fs.flatten) := by
  induction fs with
  | nil => intro acc _; simp [mergePlugins]
  | cons f fs ih =>
    intro acc h
    have h' : (keys ((acc ++ f) ++ fs.flatten)).Nodup := by simpa using h
    have hf : (keys (acc ++ f)).Nodup := nodup_keys_prefix _ _ h'
    simp only [mergePlugins, mergeFiles_some f acc hf]
    rw [ih _ h']
    simp

/-- the merge loop fails when some key occurs twice. -/
theorem mergePlugins_none (fs : List Files) : ∀ acc : Files, (keys acc).Nodup →
    ¬ (keys (acc ++ fs.flatten)).Nodup → mergePlugins acc fs = none := by
  induction fs with
  | nil => intro acc ha h; simp at h; exact absurd ha h
  | cons f fs ih =>
    intro acc ha h
    have h' : ¬ (keys ((acc ++ f) ++ fs.flatten)).Nodup := by simpa using h
    by_cases hf : (keys (acc ++ f)).Nodup
    · simp only [mergePlugins, mergeFiles_some f acc hf]
      exact ih _ hf h'
    · simp only [mergePlugins, mergeFiles_none f acc ha hf]

theorem pickOrder_range {α} (xs : List α) : pickOrder xs (List.range xs.length) = xs := by
  induction xs with
  | nil => simp [pickOrder]
  | cons x xs ih =>
    simp only [pickOrder] at ih ⊢
    rw [List.length_cons, List.range_succ_eq_map, List.filterMap_cons, List.filterMap_map]
    simp only [List.getElem?_cons_zero]
    congr 1

/-- reordering by a permutation of all indices permutes the list. -/
theorem pickOrder_perm {α} (xs : List α) (ord : List Nat)
    (h : ord.Perm (List.range xs.length)) : (pickOrder xs ord).Perm xs := by
  have := List.Perm.filterMap (fun i => xs[i]?) h
  rw [show List.filterMap (fun i => xs[i]?) (List.range xs.length) = xs from pickOrder_range xs]
    at this
  exact this

theorem keys_perm_flatten (fs : List Files) (ord : List Nat)
    (h : ord.Perm (List.range fs.length)) :
    ((pickOrder fs ord).flatten).Perm fs.flatten :=
  List.Perm.flatten (pickOrder_perm fs ord h)

/-- Whatever order the plugins complete in, if no two of them (and no plugin by itself)
produce the same path, the merged map is a permutation of all answers: nothing lost,
nothing invented, same set for every order. -/
theorem merge_no_loss (fs : List Files) (ord : List Nat)
    (hord : ord.Perm (List.range fs.length)) (hnd : ((fs.flatten).map (·.1)).Nodup) :
    ∃ m, mergePlugins [] (pickOrder fs ord) = some m ∧ m.Perm fs.flatten := by
  have hp := keys_perm_flatten fs ord hord
  have hnd' : (keys ([] ++ (pickOrder fs ord).flatten)).Nodup := by
    simp only [List.nil_append]
    exact ((hp.map (·.1)).nodup_iff).2 hnd
  refine ⟨_, mergePlugins_some _ [] hnd', ?_⟩
  simpa using hp

/-- A path produced twice is a conflict in every completion order. -/
theorem merge_conflict_any_order (fs : List Files) (ord : List Nat)
    (hord : ord.Perm (List.range fs.length)) (hnd : ¬ ((fs.flatten).map (·.1)).Nodup) :
    mergePlugins [] (pickOrder fs ord) = none := by
  have hp := keys_perm_flatten fs ord hord
  apply mergePlugins_none _ [] (by simp)
  simp only [List.nil_append]
  intro h
  exact hnd (((hp.map (·.1)).nodup_iff).1 h)

end ThriftVerif.Proto
