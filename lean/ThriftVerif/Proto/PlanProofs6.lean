/-
M-Proto proofs, part 7 (C17): the directories a cleaned absolute path needs are proper
directory prefixes of it; hence the write loop completes on a prefix-free plan, on every file
system that is not in the way.
-/
import ThriftVerif.Proto.PlanProofs5
import ThriftVerif.Proto.PlanProofs2
import ThriftVerif.Proto.PathProofs4

set_option linter.unusedSimpArgs false
set_option linter.unusedVariables false

namespace ThriftVerif.Proto

theorem ancestorsAux_prefix (pre : Str) (l : List Str) :
    ∀ e ∈ ancestorsAux pre l, (e ++ ['/']) <+: (pre ++ '/' :: joinSlash l) := by
  induction l generalizing pre with
  | nil => simp [ancestorsAux]
  | cons c l ih =>
    cases l with
    | nil => simp [ancestorsAux]
    | cons d r =>
      intro e he
      simp only [ancestorsAux, List.mem_cons] at he
      have htarget : pre ++ '/' :: joinSlash (c :: d :: r) =
          (pre ++ '/' :: c) ++ '/' :: joinSlash (d :: r) := by
        rw [joinSlash_cons_cons]; simp
      rw [htarget]
      rcases he with rfl | he
      · exact ⟨joinSlash (d :: r), by simp⟩
      · exact ih (pre ++ '/' :: c) e he

/-- every directory a cleaned absolute path needs is "/" or a proper directory prefix of it. -/
theorem needDirs_prefix (b : Str) (hb : CleanAbs b) (hne : b ≠ ['/']) :
    ∀ e ∈ needDirs b, e = ['/'] ∨ hasPrefix (e ++ ['/']) b = true := by
  obtain ⟨F, rfl, hF⟩ := clean_abs_comps b hb.1 hb.2
  have hFne : F ≠ [] := by intro e; subst e; exact hne rfl
  obtain ⟨D, l, rfl⟩ : ∃ D l, F = D ++ [l] :=
    ⟨F.dropLast, F.getLast hFne, (List.dropLast_concat_getLast hFne).symm⟩
  have hD : ∀ c ∈ D, Comp c := fun c hc => hF c (by simp [hc])
  intro e he
  unfold needDirs at he
  rw [dir_root_join _ hF, List.dropLast_concat] at he
  by_cases hDn : D = []
  · subst hDn
    left
    have : ancestors (('/' :: joinSlash ([] : List Str)) ++ ['/', 'x']) = [['/']] := by decide
    rw [this] at he
    simpa using he
  · right
    have hsplit : (splitSlash (('/' :: joinSlash D) ++ ['/', 'x'])).drop 1 = D ++ [['x']] := by
      rw [show (['/', 'x'] : Str) = '/' :: ['x'] from rfl, splitSlash_append_slash, splitSlash_slash,
        splitSlash_joinSlash D hDn (fun c hc => (hD c hc).2.2.2)]
      rfl
    unfold ancestors at he
    rw [hsplit] at he
    have hp := ancestorsAux_prefix [] _ e he
    have htarget : ([] : Str) ++ '/' :: joinSlash (D ++ [['x']]) = (('/' :: joinSlash D) ++ ['/']) ++ ['x'] := by
      rw [joinSlash_append D _ hDn (by simp)]; simp [joinSlash]
    rw [htarget, List.prefix_concat_iff] at hp
    have hb' : ('/' :: joinSlash (D ++ [l]) : Str) = (('/' :: joinSlash D) ++ ['/']) ++ l := by
      rw [joinSlash_append D _ hDn (by simp)]; simp [joinSlash]
    rw [hasPrefix, List.isPrefixOf_iff_prefix, hb']
    rcases hp with hp | hp
    · have := congrArg List.reverse hp
      simp at this
    · exact hp.trans (List.prefix_append _ _)

/-- two paths neither of which is a directory prefix of the other. -/
def PrefixFree (a b : Str) : Prop :=
  a ≠ b ∧ hasPrefix (a ++ ['/']) b = false ∧ hasPrefix (b ++ ['/']) a = false

instance (a b : Str) : Decidable (PrefixFree a b) := by unfold PrefixFree; infer_instance

theorem not_hasPrefix_self (a : Str) : hasPrefix (a ++ ['/']) a = false := by
  cases h : hasPrefix (a ++ ['/']) a with
  | false => rfl
  | true =>
    rw [hasPrefix, List.isPrefixOf_iff_prefix] at h
    have := h.length_le
    simp at this
    omega

theorem apart_of_prefixFree (a b : Str) (ha : CleanAbs a) (hb : CleanAbs b)
    (han : a ≠ ['/']) (hbn : b ≠ ['/']) (h : PrefixFree a b) : Apart a b := by
  refine ⟨h.1, fun hm => ?_, fun hm => ?_⟩
  · rcases needDirs_prefix b hb hbn a hm with e | e
    · exact han e
    · rw [h.2.1] at e; exact absurd e (by simp)
  · rcases needDirs_prefix a ha han b hm with e | e
    · exact hbn e
    · rw [h.2.2] at e; exact absurd e (by simp)

/-- The write loop writes the whole plan, in every iteration order, if the planned paths
(cleaned, absolute, not "/") are pairwise different, none is a directory prefix of another,
and the file system it starts on is not in the way. Afterwards the regular files are the old
ones that were not overwritten, then the plan. -/
theorem writeLoop_complete_prefixFree_on (fs : FS) (ws : Files)
    (hclean : ∀ a ∈ ws, CleanAbs a.1 ∧ a.1 ≠ ['/'])
    (hpw : ws.Pairwise (fun a b => PrefixFree a.1 b.1))
    (hfs : NotInTheWay fs ws) :
    ∃ fs', writeLoop fs ws = (fs', true) ∧
      fs'.files = fs.files.filter (fun x => !hasKey ws x.1) ++ ws := by
  apply writeLoop_complete_aux
  · exact List.Pairwise.imp_of_mem
      (fun {a b} ha hb h => apart_of_prefixFree a.1 b.1 (hclean a ha).1 (hclean b hb).1
        (hclean a ha).2 (hclean b hb).2 h) hpw
  · intro a ha
    refine ⟨(hclean a ha).2, fun hm => ?_⟩
    rcases needDirs_prefix a.1 (hclean a ha).1 (hclean a ha).2 a.1 hm with e | e
    · exact (hclean a ha).2 e
    · rw [not_hasPrefix_self] at e; exact absurd e (by simp)
  · exact hfs

/-- … in particular on an empty output tree. -/
theorem writeLoop_complete_prefixFree (ws : Files)
    (hclean : ∀ a ∈ ws, CleanAbs a.1 ∧ a.1 ≠ ['/'])
    (hpw : ws.Pairwise (fun a b => PrefixFree a.1 b.1)) :
    ∃ fs', writeLoop ⟨[], []⟩ ws = (fs', true) ∧ fs'.files = ws := by
  obtain ⟨fs', h1, h2⟩ := writeLoop_complete_prefixFree_on ⟨[], []⟩ ws hclean hpw (notInTheWay_empty ws)
  exact ⟨fs', h1, by simpa using h2⟩

/-- a sufficient condition in terms of prefixes: no existing regular file is "/" or a proper
directory prefix of a planned path, no existing directory is a planned path. -/
theorem notInTheWay_of_prefix (fs : FS) (ws : Files)
    (hclean : ∀ a ∈ ws, CleanAbs a.1 ∧ a.1 ≠ ['/'])
    (hf : ∀ q, fs.isFile q = true → q ≠ ['/'] ∧ ∀ w ∈ ws, hasPrefix (q ++ ['/']) w.1 = false)
    (hd : ∀ d ∈ fs.dirs, ∀ w ∈ ws, d ≠ w.1) : NotInTheWay fs ws := by
  refine ⟨fun q hq w hw hm => ?_, hd⟩
  rcases needDirs_prefix w.1 (hclean w hw).1 (hclean w hw).2 q hm with e | e
  · exact (hf q hq).1 e
  · rw [(hf q hq).2 w hw] at e; exact absurd e (by simp)

theorem join2_cleanAbs (out p : Str) (ho : isAbs out = true) : CleanAbs (join2 out p) := by
  obtain ⟨t, rfl⟩ := (isAbs_iff _).1 ho
  have : isAbs ('/' :: t ++ '/' :: p) = true := rfl
  simp only [join2, ne_eq, reduceCtorEq, not_false_eq_true, if_true]
  exact ⟨isAbs_clean _ this, clean_clean_abs _ this⟩

/-- every planned write path is cleaned and absolute. -/
theorem plan_paths_cleanAbs (root out : Str) (mods plugs ord) (ws : Files)
    (h : generatePlan root out mods plugs ord = .ok ws) (ho : isAbs out = true) :
    ∀ w ∈ ws, CleanAbs w.1 := by
  obtain ⟨fs, _, rfl⟩ := generatePlan_ok h
  intro w hw
  obtain ⟨x, _, rfl⟩ := List.mem_map.1 hw
  exact join2_cleanAbs out x.1 ho

end ThriftVerif.Proto
