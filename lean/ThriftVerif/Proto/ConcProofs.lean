/-
M-Proto proofs for C18: the statements about all schedules, read off the invariants of
ConcProofsPool (pool ownership), ConcProofsLock (lock pairing) and ConcProofsMerge (merge
under the mutex; `merge_no_loss`, `merge_conflict_any_order` live there).
-/
import ThriftVerif.Proto.Conc
import ThriftVerif.Proto.Plan
import ThriftVerif.Proto.ConcProofsPool
import ThriftVerif.Proto.ConcProofsLock
import ThriftVerif.Proto.ConcProofsMerge

namespace ThriftVerif.Proto.Conc

/-! ### pool ownership -/

/-- Every reachable state of well-formed operations satisfies the pool invariant: no object
held twice, held objects not pooled, pooled objects clean, ids in use allocated, every
operation at a consistent point of its program. -/
theorem exclusive_ownership (inputs : Nat → List Nat) (K : Nat) (sched : List (Nat × Nat)) :
    PInv inputs K (prun (pinit (fun _ => true) inputs K) sched) :=
  pinv_reachable inputs K sched

/-- the four ownership facts of the invariant, spelled out. -/
theorem exclusive_ownership_facts (inputs : Nat → List Nat) (K : Nat) (sched : List (Nat × Nat)) :
    let s := prun (pinit (fun _ => true) inputs K) sched
    (∀ i j o, (s.th i).held = some o → (s.th j).held = some o → i = j) ∧
    (∀ i o, (s.th i).held = some o → s.inPool o = false) ∧
    (∀ o, s.inPool o = true → s.heap o = []) ∧
    (∀ i o, (s.th i).held = some o → o < s.fresh) ∧
    (∀ o, s.inPool o = true → o < s.fresh) := by
  intro s
  have h : PInv inputs K s := pinv_reachable inputs K sched
  exact ⟨h.excl, h.notPooled, h.pooledClean, h.heldFresh, h.pooledFresh⟩

theorem pstep_todo (s : PoolState) (t pick : Nat) :
    ((pstep s t pick).th t).todo = (s.th t).todo.tail := by
  cases h : (s.th t).todo with
  | nil => simp [pstep, h]
  | cons i rest =>
    cases i <;> cases ho : (s.th t).held <;> cases hp : s.inPool pick <;>
      simp [pstep, h, ho, hp]

theorem prun_replicate_todo (t pick : Nat) (n : Nat) : ∀ s : PoolState,
    ((prun s (List.replicate n (t, pick))).th t).todo = (s.th t).todo.drop n := by
  induction n with
  | zero => intro s; simp [prun]
  | succ n ih =>
    intro s
    simp only [List.replicate_succ, prun]
    rw [ih, pstep_todo]
    simp

/-- An operation run alone returns exactly its input. -/
theorem sequential_eq (xs : List Nat) : sequential xs = some xs := by
  unfold sequential
  have hinv := (pinv_reachable (fun _ => xs) 1 (List.replicate (xs.length + 4) (0, 0))).thr 0
    (by omega)
  refine hinv.result_done ?_
  rw [prun_replicate_todo]
  simp [pinit, prog]

/-- Isolation: under every interleaving (and every choice the pool makes), an operation
that has delivered a result has delivered its sequential result, and an operation that
has run to completion has delivered one. -/
theorem isolation (inputs : Nat → List Nat) (K : Nat) (sched : List (Nat × Nat)) :
    let s := prun (pinit (fun _ => true) inputs K) sched
    (∀ i, (s.th i).result = none ∨ (s.th i).result = sequential (inputs i)) ∧
    (∀ i, (s.th i).todo = [] → i < K → (s.th i).result = sequential (inputs i)) := by
  intro s
  have h : PInv inputs K s := pinv_reachable inputs K sched
  constructor
  · intro i
    by_cases hi : i < K
    · rw [sequential_eq]; exact (h.thr i hi).result_cases
    · exact Or.inl (h.idle i (by omega)).2.2
  · intro i hd hi
    rw [sequential_eq]; exact (h.thr i hi).result_done hd

/-- Without the reset isolation fails: thread 0 (faulty) returns its object dirty, thread 1
(well-formed) gets it from the pool and delivers `[7, 9]` instead of `[9]`. -/
theorem no_reset_breaks_isolation :
    ∃ (wf : Nat → Bool) (inputs : Nat → List Nat) (K : Nat) (sched : List (Nat × Nat)) (i : Nat),
      (∃ j, wf j = false) ∧ wf i = true ∧ i < K ∧
      ((prun (pinit wf inputs K) sched).th i).todo = [] ∧
      ((prun (pinit wf inputs K) sched).th i).result ≠ sequential (inputs i) := by
  refine ⟨fun i => i != 0, fun i => if i = 0 then [7] else [9], 2,
    [(0, 0), (0, 0), (0, 0), (0, 0), (1, 0), (1, 0), (1, 0), (1, 0), (1, 0)], 1,
    ⟨0, by decide⟩, by decide, by decide, by decide, ?_⟩
  rw [sequential_eq]
  decide

/-! ### lock pairing -/

/-- With the lock held across write and read, under every interleaving of senders and
server, a sender that has read a response has read the answer to its own request, and a
sender that has run to completion has read one. -/
theorem send_paired (payloads : Nat → Nat) (K : Nat) (sched : List Nat) :
    let s := lrun K (linit true payloads K) sched
    (∀ i, i < K → (s.sd i).got = none ∨ (s.sd i).got = some (echo (payloads i))) ∧
    (∀ i, (s.sd i).todo = [] → i < K → (s.sd i).got = some (echo (payloads i))) := by
  intro s
  have h : LInv payloads K s := linv_reachable payloads K sched
  constructor
  · intro i hi
    by_cases hl : s.lock = some i
    · exact (h.holder i hl).2.got_cases
    · exact (h.out i hi hl).got_cases
  · intro i hd hi
    by_cases hl : s.lock = some i
    · exact absurd hd (h.holder i hl).2.not_done
    · exact (h.out i hi hl).got_done hd

/-- Releasing the lock between write and read breaks the pairing: sender 0 and sender 1
both write, the server answers both, sender 1 reads first and gets sender 0's answer. -/
theorem send_unpaired_without_lock :
    ∃ (payloads : Nat → Nat) (K : Nat) (sched : List Nat) (i j : Nat),
      i < K ∧ j < K ∧ payloads i ≠ payloads j ∧
      ((lrun K (linit false payloads K) sched).sd i).got = some (echo (payloads j)) ∧
      ((lrun K (linit false payloads K) sched).sd i).got ≠ some (echo (payloads i)) := by
  refine ⟨fun i => i + 10, 2, [0, 0, 0, 1, 1, 1, 2, 2, 1, 1], 1, 0, ?_⟩
  decide

end ThriftVerif.Proto.Conc
