/-
M-Proto, part 5: the plugin side as the plugin library runs it (plugin/plugin.go `Main`,
internal/frame/server.go `Serve`, internal/envelope/server.go `Handle`,
internal/multiplex/handler.go, the generated handlers in plugin/api).

`Serve` reads one frame at a time, hands it to the envelope server, writes the answer as
one frame, and stops after the answer to `Plugin:goodbye` (the handler calls
`Server.Stop`, the loop condition is re-checked after the reply has been written).
Error texts are not modelled: an exception reply is identified by its
`TApplicationException` type code.

Core-only.
-/
import ThriftVerif.Proto.Host

namespace ThriftVerif.Proto
open ThriftVerif.Wire

/-- a plugin built with the library: its name, and — if it implements a service generator —
the answers (files, or an error) it gives to successive generate requests. The user's
function is a parameter; `gens` lists its results in call order. -/
structure Impl where
  name : Bytes
  hasSG : Bool
  libVersion : Bytes
  deriving Repr

inductive SReply where
  | reply (v : WValue)
  | genReply (fs : Option Files)   -- the answer to a generate call (a Reply; the map's order is Go's)
  | exc (typ : Nat)      -- TApplicationException.Type (1 unknown method, 6 internal error)
  deriving Repr

/-- `strings.SplitN(name, ":", 2)`. -/
def splitColon : Bytes → Option (Bytes × Bytes)
  | [] => none
  | b :: r =>
    if b = 0x3a then some ([], r)
    else
      match splitColon r with
      | some (x, y) => some (b :: x, y)
      | none => none

def svcPlugin : Bytes := [0x50, 0x6c, 0x75, 0x67, 0x69, 0x6e]
def svcServiceGenerator : Bytes :=
  [0x53, 0x65, 0x72, 0x76, 0x69, 0x63, 0x65, 0x47, 0x65, 0x6e, 0x65, 0x72, 0x61, 0x74, 0x6f, 0x72]
def mHandshake : Bytes := [0x68, 0x61, 0x6e, 0x64, 0x73, 0x68, 0x61, 0x6b, 0x65]
def mGoodbye : Bytes := [0x67, 0x6f, 0x6f, 0x64, 0x62, 0x79, 0x65]
def mGenerate : Bytes := [0x67, 0x65, 0x6e, 0x65, 0x72, 0x61, 0x74, 0x65]

def handshakeResult (i : Impl) : WValue :=
  .struct [(0, .struct [(1, .binary i.name), (2, .i32 (UInt32.ofNat apiVersion)),
    (3, .list TType.i32.code (if i.hasSG then [.i32 (UInt32.ofNat featureServiceGenerator)] else [])),
    (4, .binary i.libVersion)])]

def filesValue (fs : Files) : WValue :=
  .map TType.binary.code TType.binary.code (fs.map fun x => (.binary (bytesOfStr x.1), .binary x.2))

/-- the result struct for a generate call that returned these files (`none` = nil map). -/
def generateResult (fs : Option Files) : WValue :=
  match fs with
  | some fs => .struct [(0, .struct [(1, filesValue fs)])]
  | none => .struct [(0, .struct [])]

/-- the outcome of the user's `Generate` for one request: an error, or a response with or
without a files map. -/
inductive GenAnswer where
  | error
  | files (fs : Option Files)
  deriving Repr

/-- multiplexed dispatch; returns the reply, whether the server stops afterwards, and
whether a generate answer was consumed. -/
def dispatch (i : Impl) (name : Bytes) (gen : Option GenAnswer) : SReply × Bool × Bool :=
  match splitColon name with
  | none => (.exc 1, false, false)
  | some (svc, m) =>
    if svc = svcPlugin then
      if m = mHandshake then (.reply (handshakeResult i), false, false)
      else if m = mGoodbye then (.reply (.struct []), true, false)
      else (.exc 1, false, false)
    else if svc = svcServiceGenerator ∧ i.hasSG then
      if m = mGenerate then
        match gen with
        | some (.files fs) => (.genReply fs, false, true)
        | _ => (.exc 6, false, true)
      else (.exc 1, false, false)
    else (.exc 1, false, false)

/-- one answer of the server, as the frame payload it writes. -/
structure Answer where
  name : Bytes
  seqid : UInt32
  r : SReply
  deriving Repr

/-- TApplicationException{1: message, 2: type}; the message is whatever `msg` says. -/
def excValue (msg : Bytes) (typ : Nat) : WValue :=
  .struct [(1, .binary msg), (2, .i32 (UInt32.ofNat typ))]

inductive Stop where
  | goodbye   -- stopped by the goodbye handler, after replying
  | eof       -- the host closed the pipe between frames (Serve returns io.EOF)
  | readErr   -- truncated frame
  | badRequest-- a frame that is not an envelope (Serve returns the decode error)
  | fuel
  deriving DecidableEq, Repr

/-- `Server.Serve`: answers in order, and why it stopped. `gens` are the user generator's
answers for successive generate requests (a request that fails to parse uses one up too:
the harness passes `error` for it). -/
def serveN : Nat → Impl → List GenAnswer → Chunks → List Answer × Stop
  | 0, _, _, _ => ([], .fuel)
  | f + 1, i, gens, cs =>
    match readFrame cs with
    | .eof => ([], .eof)
    | .err => ([], .readErr)
    | .ok m rest =>
      match decEnvelope m with
      | .error _ => ([], .badRequest)
      | .ok e =>
        -- only Call (1) and OneWay (4) are requests; anything else is answered with
        -- TApplicationException INVALID_MESSAGE_TYPE (2) and never reaches a handler
        match (if e.etype = 1 ∨ e.etype = 4 then dispatch i e.name gens.head? else (SReply.exc 2, false, false)) with
        | (r, stop, used) =>
          if stop then ([⟨e.name, e.seqid, r⟩], .goodbye)
          else
            match serveN f i (if used then gens.drop 1 else gens) rest with
            | (as, s) => (⟨e.name, e.seqid, r⟩ :: as, s)

def serve (i : Impl) (gens : List GenAnswer) (cs : Chunks) : List Answer × Stop :=
  serveN (cs.flatten.length + 1) i gens cs

/-- the payload the server writes for an answer with a Reply body. -/
def answerBytes (a : Answer) (msg : Bytes) : Bytes :=
  match a.r with
  | .reply v => encEnvStrict ⟨a.name, etReply, a.seqid, v⟩
  | .genReply fs => encEnvStrict ⟨a.name, etReply, a.seqid, generateResult fs⟩
  | .exc t => encEnvStrict ⟨a.name, etException, a.seqid, excValue msg t⟩

end ThriftVerif.Proto
