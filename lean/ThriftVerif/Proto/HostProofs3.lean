/-
M-Proto proofs about the host automaton, part 3 (C16): from one plugin under
arbitrary flags to the whole run (flags computed from the plugins), the exit
verdict, and independence of the completion order.
-/
import ThriftVerif.Proto.HostProofs2
import ThriftVerif.Proto.ConcProofsMerge

set_option linter.unusedSimpArgs false
set_option linter.unusedVariables false

namespace ThriftVerif.Proto
open ThriftVerif.Wire

theorem run_recs (c : Cfg) : (run c).recs = c.plugins.map (finish (flagsOf c)) := rfl

theorem flagsOf_allOk (c : Cfg) : (flagsOf c).allOk = (c.plugins.map hsPhase).all (·.hsOk) := rfl
theorem flagsOf_blk1 (c : Cfg) : (flagsOf c).blk1 = (c.plugins.map hsPhase).any (·.blocked) := rfl
theorem flagsOf_coreOk (c : Cfg) : (flagsOf c).coreOk = c.coreOk := rfl

/-- phase 2 does not look at `blk2`. -/
theorem phase2_congr (g g' : Flags) (p : Plugin) (r : Rec) (h1 : g.blk1 = g'.blk1)
    (h2 : g.allOk = g'.allOk) (h3 : g.coreOk = g'.coreOk) : phase2 g p r = phase2 g' p r := by
  unfold phase2; rw [h1, h2, h3]

theorem flagsOf_blk2 (c : Cfg) :
    (flagsOf c).blk2 = (c.plugins.map fun p => phase2 (flagsOf c) p (hsPhase p)).any (·.blocked) := rfl

theorem run_exit (c : Cfg) : (run c).exit =
    if (run c).recs.any (·.blocked) then .hang
    else if ((run c).recs.any fun r => !r.errs.isEmpty) || !c.coreOk || (run c).conflict then .fail else .ok := rfl

theorem flags_cons (c : Cfg) (p : Plugin) (hp : p ∈ c.plugins) :
    (flagsOf c).allOk = true → (hsPhase p).hsOk = true := by
  rw [flagsOf_allOk]
  intro h
  rw [List.all_eq_true] at h
  exact h (hsPhase p) (List.mem_map.2 ⟨p, hp, rfl⟩)

theorem exit_hang_iff (c : Cfg) : (run c).exit = .hang ↔ (run c).recs.any (·.blocked) = true := by
  rw [run_exit]
  cases hb : (run c).recs.any (·.blocked)
  · simp only [Bool.false_eq_true, if_false]
    constructor
    · intro h; split at h <;> cases h
    · intro h; cases h
  · simp

/-- a run that does not hang passed both barriers, and no plugin's record is blocked. -/
theorem not_hang (c : Cfg) (h : (run c).exit ≠ .hang) :
    (flagsOf c).blk1 = false ∧ (flagsOf c).blk2 = false ∧
    ∀ p ∈ c.plugins, (finish (flagsOf c) p).blocked = false := by
  have hb : (run c).recs.any (·.blocked) = false := by
    cases hx : (run c).recs.any (·.blocked)
    · rfl
    · exact absurd ((exit_hang_iff c).2 hx) h
  rw [run_recs] at hb
  have hall : ∀ p ∈ c.plugins, (finish (flagsOf c) p).blocked = false := by
    intro p hp
    cases hx : (finish (flagsOf c) p).blocked
    · rfl
    · have : (c.plugins.map (finish (flagsOf c))).any (·.blocked) = true :=
        List.any_eq_true.2 ⟨_, List.mem_map.2 ⟨p, hp, rfl⟩, hx⟩
      rw [this] at hb; cases hb
  refine ⟨?_, ?_, hall⟩
  · cases h1 : (flagsOf c).blk1
    · rfl
    · exfalso
      rw [flagsOf_blk1, List.any_eq_true] at h1
      obtain ⟨r, hr, hrb⟩ := h1
      obtain ⟨p, hp, rfl⟩ := List.mem_map.1 hr
      have hb1 : (flagsOf c).blk1 = true := by
        rw [flagsOf_blk1, List.any_eq_true]; exact ⟨_, List.mem_map.2 ⟨p, hp, rfl⟩, hrb⟩
      have : finish (flagsOf c) p = hsPhase p := by
        unfold finish phase3 phase2; simp [hb1]
      have := hall p hp
      simp_all
  · cases h2 : (flagsOf c).blk2
    · rfl
    · exfalso
      have h2' := h2
      rw [flagsOf_blk2, List.any_eq_true] at h2'
      obtain ⟨r, hr, hrb⟩ := h2'
      obtain ⟨p, hp, rfl⟩ := List.mem_map.1 hr
      have : finish (flagsOf c) p = phase2 (flagsOf c) p (hsPhase p) := by
        unfold finish phase3; simp [h2]
      have := hall p hp
      simp_all

theorem flagsOK_of_not_hang (c : Cfg) (h : (run c).exit ≠ .hang) (p : Plugin) (hp : p ∈ c.plugins) :
    FlagsOK (flagsOf c) p :=
  ⟨(not_hang c h).1, (not_hang c h).2.1, flags_cons c p hp⟩

/-- **exit_fail_iff**: a run that terminates exits with failure exactly when the core
generator failed, two sources collided, or some plugin failed. -/
theorem run_exit_fail_iff (c : Cfg) (h : (run c).exit ≠ .hang) :
    (run c).exit = .fail ↔
      (c.coreOk = false ∨ (run c).conflict = true ∨
        ∃ p ∈ c.plugins, PluginFailed p (finish (flagsOf c) p)) := by
  have hnb : (run c).recs.any (·.blocked) = false := by
    cases hx : (run c).recs.any (·.blocked)
    · rfl
    · exact absurd ((exit_hang_iff c).2 hx) h
  have hany : ((run c).recs.any fun r => !r.errs.isEmpty) = true ↔
      ∃ p ∈ c.plugins, PluginFailed p (finish (flagsOf c) p) := by
    rw [run_recs, List.any_eq_true]
    constructor
    · rintro ⟨r, hr, he⟩
      obtain ⟨p, hp, rfl⟩ := List.mem_map.1 hr
      refine ⟨p, hp, ?_⟩
      have hs := finish_shape _ p (flagsOK_of_not_hang c h p hp) ((not_hang c h).2.2 p hp)
      apply (shape_failed p _ hs).1
      intro hn; rw [hn] at he; simp at he
    · rintro ⟨p, hp, hf⟩
      refine ⟨_, List.mem_map.2 ⟨p, hp, rfl⟩, ?_⟩
      have hs := finish_shape _ p (flagsOK_of_not_hang c h p hp) ((not_hang c h).2.2 p hp)
      have := (shape_failed p _ hs).2 hf
      cases he : (finish (flagsOf c) p).errs with
      | nil => exact absurd he this
      | cons _ _ => rfl
  have hexit : (run c).exit =
      if ((run c).recs.any fun r => !r.errs.isEmpty) || !c.coreOk || (run c).conflict then .fail else .ok := by
    rw [run_exit, hnb]; simp
  rw [hexit]
  cases h1 : ((run c).recs.any fun r => !r.errs.isEmpty) <;> cases h2 : c.coreOk <;>
    cases h3 : (run c).conflict <;> simp [← hany, h1]

/-! ### the completion order does not matter -/

theorem mergeFiles_isSome_iff (src : Files) : ∀ dest : Files,
    (mergeFiles dest src).isSome = true ↔ ((keys src).Nodup ∧ ∀ k ∈ keys src, k ∉ keys dest) := by
  induction src with
  | nil => intro dest; simp [mergeFiles]
  | cons x src ih =>
    intro dest
    obtain ⟨p, c⟩ := x
    simp only [mergeFiles, addFile]
    by_cases hk : hasKey dest p = true
    · simp only [hk, if_true]
      have := (hasKey_iff dest p).1 hk
      simp only [Option.isSome_none, Bool.false_eq_true, false_iff]
      intro ⟨_, h2⟩
      exact h2 p (by simp [keys]) this
    · have hk' : hasKey dest p = false := by simpa using hk
      have hnot := (hasKey_false_iff dest p).1 hk'
      simp only [hk', Bool.false_eq_true, if_false]
      rw [ih]
      have e1 : keys ((p, c) :: src) = p :: keys src := rfl
      have e2 : keys (dest ++ [(p, c)]) = keys dest ++ [p] := by simp [keys]
      rw [e1, e2, List.nodup_cons]
      constructor
      · rintro ⟨hnd, hall⟩
        refine ⟨⟨fun hmem => hall p hmem (by simp), hnd⟩, ?_⟩
        intro k hk
        rcases List.mem_cons.1 hk with rfl | hk'
        · exact hnot
        · intro hd; exact hall k hk' (by simp [hd])
      · rintro ⟨⟨hp, hnd⟩, hall⟩
        refine ⟨hnd, fun k hks hmem => ?_⟩
        rcases List.mem_append.1 hmem with hd | hd
        · exact hall k (List.mem_cons_of_mem _ hks) hd
        · have hkp : k = p := by simpa using hd
          rw [hkp] at hks; exact hp hks

theorem mergeFiles_isSome_perm (dest s1 s2 : Files) (h : s1.Perm s2) :
    (mergeFiles dest s1).isSome = (mergeFiles dest s2).isSome := by
  have hk : (keys s1).Perm (keys s2) := h.map _
  have : (mergeFiles dest s1).isSome = true ↔ (mergeFiles dest s2).isSome = true := by
    rw [mergeFiles_isSome_iff, mergeFiles_isSome_iff, hk.nodup_iff]
    constructor
    · rintro ⟨a, b⟩; exact ⟨a, fun k hk' => b k (hk.mem_iff.2 hk')⟩
    · rintro ⟨a, b⟩; exact ⟨a, fun k hk' => b k (hk.mem_iff.1 hk')⟩
  cases h1 : (mergeFiles dest s1).isSome <;> cases h2 : (mergeFiles dest s2).isSome <;> simp_all

/-- whether the plugins' answers and the core files merge without conflict does not depend
on the order in which the plugins completed. -/
theorem merged_isSome_order (recs : List Rec) (core : Files) (o1 o2 : List Nat)
    (h1 : o1.Perm (List.range recs.length)) (h2 : o2.Perm (List.range recs.length)) :
    ((mergedPluginFiles recs o1).bind (mergeFiles core)).isSome =
    ((mergedPluginFiles recs o2).bind (mergeFiles core)).isSome := by
  unfold mergedPluginFiles
  have p1 : (((pickOrder recs o1).filterMap (·.files)).map normFiles).Perm
      ((recs.filterMap (·.files)).map normFiles) :=
    ((pickOrder_perm recs o1 h1).filterMap _).map _
  have p2 : (((pickOrder recs o2).filterMap (·.files)).map normFiles).Perm
      ((recs.filterMap (·.files)).map normFiles) :=
    ((pickOrder_perm recs o2 h2).filterMap _).map _
  generalize ((pickOrder recs o1).filterMap (·.files)).map normFiles = L1 at p1
  generalize ((pickOrder recs o2).filterMap (·.files)).map normFiles = L2 at p2
  generalize (recs.filterMap (·.files)).map normFiles = L at p1 p2
  have f1 : L1.flatten.Perm L.flatten := List.Perm.flatten p1
  have f2 : L2.flatten.Perm L.flatten := List.Perm.flatten p2
  by_cases hnd : (keys L.flatten).Nodup
  · have n1 : (keys ([] ++ L1.flatten)).Nodup := by simpa using ((f1.map (·.1)).nodup_iff).2 hnd
    have n2 : (keys ([] ++ L2.flatten)).Nodup := by simpa using ((f2.map (·.1)).nodup_iff).2 hnd
    rw [mergePlugins_some L1 [] n1, mergePlugins_some L2 [] n2]
    simp only [List.nil_append, Option.bind_some]
    exact mergeFiles_isSome_perm core _ _ (f1.trans f2.symm)
  · have n1 : ¬ (keys ([] ++ L1.flatten)).Nodup := by
      intro h; exact hnd (((f1.map (·.1)).nodup_iff).1 (by simpa using h))
    have n2 : ¬ (keys ([] ++ L2.flatten)).Nodup := by
      intro h; exact hnd (((f2.map (·.1)).nodup_iff).1 (by simpa using h))
    rw [mergePlugins_none L1 [] (by simp) n1, mergePlugins_none L2 [] (by simp) n2]

/-- the part of a run that does not involve the completion order. -/
def reached (c : Cfg) : Bool :=
  (flagsOf c).allOk && !(flagsOf c).blk1 && (flagsOf c).coreOk && !(flagsOf c).blk2 &&
    !run.anyGenErr (c.plugins.map (finish (flagsOf c)))

theorem run_conflict (c : Cfg) : (run c).conflict =
    (reached c && ((mergedPluginFiles (c.plugins.map (finish (flagsOf c))) c.ord).bind
      (mergeFiles c.coreFiles)).isNone) := by
  show (reached c && (if reached c = true then
      (match mergedPluginFiles (c.plugins.map (finish (flagsOf c))) c.ord with
        | some pf => mergeFiles c.coreFiles pf
        | none => none) else none).isNone) = _
  cases reached c
  · simp
  · cases mergedPluginFiles (c.plugins.map (finish (flagsOf c))) c.ord <;> simp

/-- **order irrelevance**: per-plugin histories never depend on the order in which the
concurrent generate calls complete, and neither does the exit verdict. -/
theorem run_order_irrelevant (c : Cfg) (o1 o2 : List Nat)
    (h1 : o1.Perm (List.range c.plugins.length)) (h2 : o2.Perm (List.range c.plugins.length)) :
    (run { c with ord := o1 }).recs = (run { c with ord := o2 }).recs ∧
    (run { c with ord := o1 }).exit = (run { c with ord := o2 }).exit := by
  refine ⟨rfl, ?_⟩
  rw [run_exit, run_exit, run_conflict, run_conflict]
  have hrecs : (run { c with ord := o1 }).recs = (run { c with ord := o2 }).recs := rfl
  have hreach : reached { c with ord := o1 } = reached { c with ord := o2 } := rfl
  rw [hrecs, hreach]
  have hlen : (c.plugins.map (finish (flagsOf c))).length = c.plugins.length := by simp
  have hm := merged_isSome_order (c.plugins.map (finish (flagsOf c))) c.coreFiles o1 o2
    (by rw [hlen]; exact h1) (by rw [hlen]; exact h2)
  have hn : ∀ o : Option Files, o.isNone = !o.isSome := by intro o; cases o <;> rfl
  show (if _ then _ else if (_ || _ || (_ && ((mergedPluginFiles (c.plugins.map (finish (flagsOf c))) o1).bind
      (mergeFiles c.coreFiles)).isNone)) = true then _ else _) = _
  rw [hn, hm, ← hn]
  rfl

end ThriftVerif.Proto
