/-
M-Proto, part 6: abstract interleaving semantics for the three concurrency
mechanisms C18 is about.

1. **Pool ownership** (protocol/binary: writerPool, streamWriterPool, streamReaderPool,
   lazyValueListPool, lazyMapItemListPool). An operation is the step sequence
   `get; use*; finish; reset; put`. Objects live in a shared heap and are named by ids; the
   pool is the set of free ids; `get` takes *any* pooled id the scheduler offers or
   allocates a fresh one (sync.Pool may return any element or call New). `use x` appends to
   the held object's data, `finish` reads the result off the object, `reset` clears it,
   `put` returns it. The per-use fields that the real code re-assigns right after `Get`
   and the fields it clears before `Put` are both folded into "the object is clean when it
   is handed out" (`reset`); Facts/ExpectProto ties the field lists of every Get/Put site.
   `wf := false` is the faulty operation that puts without resetting.

2. **Lock pairing** (internal/frame/client.go `Send`): `lock; write; read; unlock` against a
   FIFO server that answers requests in arrival order. `held := false` is the faulty
   client that releases the lock between write and read.

3. **Merge under a mutex** (internal/plugin/multi.go): `mergePlugins` of Plan.lean applied to
   the answers in completion order.

A schedule is a list of moves; every theorem quantifies over all schedules.

Core-only.
-/
namespace ThriftVerif.Proto.Conc

def upd {α} (f : Nat → α) (i : Nat) (v : α) : Nat → α := fun j => if j = i then v else f j

/-! ### 1. pool ownership -/

inductive Instr where
  | get | use (x : Nat) | finish | reset | put
  deriving DecidableEq, Repr

/-- the step sequence of one operation with the given input. -/
def prog (wf : Bool) (xs : List Nat) : List Instr :=
  .get :: (xs.map .use ++ (.finish :: if wf then [.reset, .put] else [.put]))

structure Thread where
  todo : List Instr
  held : Option Nat := none
  result : Option (List Nat) := none

structure PoolState where
  heap : Nat → List Nat        -- data of object id
  inPool : Nat → Bool          -- free ids
  fresh : Nat                  -- next unused id
  th : Nat → Thread

/-- thread `t` moves; `pick` is the pooled id offered to a `get`. An instruction that cannot
execute (use/finish/reset/put without an object) is skipped. -/
def pstep (s : PoolState) (t pick : Nat) : PoolState :=
  let me := s.th t
  match me.todo with
  | [] => s
  | i :: rest =>
    match i with
    | .get =>
      if s.inPool pick then
        { s with inPool := upd s.inPool pick false, th := upd s.th t { me with todo := rest, held := some pick } }
      else
        { s with heap := upd s.heap s.fresh [], fresh := s.fresh + 1,
                 th := upd s.th t { me with todo := rest, held := some s.fresh } }
    | .use x =>
      match me.held with
      | some o => { s with heap := upd s.heap o (s.heap o ++ [x]), th := upd s.th t { me with todo := rest } }
      | none => { s with th := upd s.th t { me with todo := rest } }
    | .finish =>
      match me.held with
      | some o => { s with th := upd s.th t { me with todo := rest, result := some (s.heap o) } }
      | none => { s with th := upd s.th t { me with todo := rest } }
    | .reset =>
      match me.held with
      | some o => { s with heap := upd s.heap o [], th := upd s.th t { me with todo := rest } }
      | none => { s with th := upd s.th t { me with todo := rest } }
    | .put =>
      match me.held with
      | some o => { s with inPool := upd s.inPool o true, th := upd s.th t { me with todo := rest, held := none } }
      | none => { s with th := upd s.th t { me with todo := rest } }

def prun (s : PoolState) : List (Nat × Nat) → PoolState
  | [] => s
  | (t, pick) :: r => prun (pstep s t pick) r

/-- K operations (thread i has input `inputs i`; threads ≥ K have nothing to do), empty pool. -/
def pinit (wf : Nat → Bool) (inputs : Nat → List Nat) (K : Nat) : PoolState :=
  { heap := fun _ => [], inPool := fun _ => false, fresh := 0,
    th := fun i => if i < K then { todo := prog (wf i) (inputs i) } else { todo := [] } }

/-- the operation run alone: what it returns. -/
def sequential (xs : List Nat) : Option (List Nat) :=
  ((prun (pinit (fun _ => true) (fun _ => xs) 1) (List.replicate (xs.length + 4) (0, 0))).th 0).result

/-! ### 2. lock pairing -/

inductive LInstr where
  | lock | write | read | unlock
  deriving DecidableEq, Repr

/-- `Client.Send`; the faulty variant gives the lock up between write and read. -/
def sendProg (held : Bool) : List LInstr :=
  if held then [.lock, .write, .read, .unlock] else [.lock, .write, .unlock, .lock, .read, .unlock]

structure Sender where
  todo : List LInstr
  payload : Nat
  got : Option Nat := none

structure LockState where
  lock : Option Nat        -- holder
  reqQ : List Nat          -- requests written, not yet served
  respQ : List Nat         -- responses written by the server, not yet read
  sd : Nat → Sender

/-- the server's answer to a request. -/
def echo (x : Nat) : Nat := x

/-- move `t`: a sender id, or (any id ≥ K) the server, which serves the oldest request.
Blocked moves (lock taken, nothing to read) leave the state unchanged. -/
def lstep (K : Nat) (s : LockState) (t : Nat) : LockState :=
  if t ≥ K then
    match s.reqQ with
    | [] => s
    | r :: rest => { s with reqQ := rest, respQ := s.respQ ++ [echo r] }
  else
    let me := s.sd t
    match me.todo with
    | [] => s
    | i :: rest =>
      match i with
      | .lock =>
        match s.lock with
        | none => { s with lock := some t, sd := upd s.sd t { me with todo := rest } }
        | some _ => s
      | .write => { s with reqQ := s.reqQ ++ [me.payload], sd := upd s.sd t { me with todo := rest } }
      | .read =>
        match s.respQ with
        | [] => s
        | r :: rs => { s with respQ := rs, sd := upd s.sd t { me with todo := rest, got := some r } }
      | .unlock => { s with lock := none, sd := upd s.sd t { me with todo := rest } }

def lrun (K : Nat) (s : LockState) : List Nat → LockState
  | [] => s
  | t :: r => lrun K (lstep K s t) r

def linit (held : Bool) (payloads : Nat → Nat) (K : Nat) : LockState :=
  { lock := none, reqQ := [], respQ := [],
    sd := fun i => { todo := if i < K then sendProg held else [], payload := payloads i } }

end ThriftVerif.Proto.Conc
