/-
M-Proto proofs, part 1b (C17): where the core generator's files go.
`modulePath root file = join2 pkg (base pkg ++ ".go")` with `pkg = rel root (file - ".thrift")`;
`clean`/`join2` never invent a ".." component; `rel` of a target that extends the root.
-/
import ThriftVerif.Proto.PathProofs

set_option linter.unusedSimpArgs false
set_option linter.unusedVariables false

namespace ThriftVerif.Proto

/-! ### (i) modulePath, definitionally -/

theorem modulePath_iff (root f p : Str) :
    modulePath root f = some p ↔
      ∃ pkg, rel root (trimSuffix f thriftSuffix) = some pkg ∧ escapesRoot pkg = false ∧
        p = join2 pkg (base pkg ++ goSuffix) := by
  unfold modulePath
  cases h : rel root (trimSuffix f thriftSuffix) with
  | none => simp
  | some pkg =>
    simp only [Option.some.injEq, exists_eq_left']
    constructor
    · intro hm
      split at hm
      · exact absurd hm (by simp)
      · rename_i he
        exact ⟨by simpa using he, (Option.some.inj hm).symm⟩
    · rintro ⟨he, rfl⟩
      simp [he]

/-- a package path without ".." component is not refused by `RelativePackage`. -/
theorem escapesRoot_false_of_no_dotdot (pkg : Str) (h : ∀ c ∈ splitSlash pkg, c ≠ dotdot) :
    escapesRoot pkg = false := by
  cases he : escapesRoot pkg with
  | false => rfl
  | true =>
    exfalso
    simp only [escapesRoot, Bool.or_eq_true, beq_iff_eq] at he
    rcases he with he | he
    · subst he; exact h dotdot (by decide) rfl
    · rw [hasPrefix, List.isPrefixOf_iff_prefix] at he
      obtain ⟨r, rfl⟩ := he
      have : splitSlash (dotdot ++ ['/'] ++ r) = splitSlash dotdot ++ splitSlash r := by
        rw [show dotdot ++ ['/'] ++ r = dotdot ++ '/' :: r by simp, splitSlash_append_slash]
      exact h dotdot (by rw [this]; simp [show splitSlash dotdot = [dotdot] from by decide]) rfl

/-! ### components of a cleaned path -/

theorem comp_no_slash {s c : Str} (h : c ∈ comps s) : '/' ∉ c :=
  splitSlash_no_slash s c (mem_comps.1 h).1

theorem cleanStack_nil_subset (r : Bool) (cs : List Str) : ∀ c ∈ cleanStack r [] cs, c ∈ cs := by
  intro c hc
  rcases cleanStack_subset r [] cs c hc with h | h
  · exact absurd h (by simp)
  · exact h

/-- every component of `Clean(s)` is empty, ".", or a component of `s`. -/
theorem splitSlash_clean_subset (s : Str) :
    ∀ c ∈ splitSlash (clean s), c = [] ∨ c = dot ∨ c ∈ comps s := by
  intro c hc
  unfold clean at hc
  split at hc
  · exact Or.inr (Or.inl (by simpa [splitSlash, dot] using hc))
  · have hsub : ∀ x ∈ (cleanStack (isAbs s) [] (comps s)).reverse, x ∈ comps s :=
      fun x hx => cleanStack_nil_subset _ _ x (List.mem_reverse.1 hx)
    have hjoin : ∀ l : List Str, (∀ x ∈ l, x ∈ comps s) → ∀ c ∈ splitSlash (joinSlash l),
        c = [] ∨ c ∈ comps s := by
      intro l hl c hc
      by_cases hnil : l = []
      · subst hnil; simp [joinSlash] at hc; exact Or.inl hc
      · rw [splitSlash_joinSlash l hnil (fun x hx => comp_no_slash (hl x hx))] at hc
        exact Or.inr (hl c hc)
    simp only at hc
    split at hc
    · simp only [splitSlash_slash, List.mem_cons] at hc
      rcases hc with rfl | hc
      · exact Or.inl rfl
      · rcases hjoin _ hsub c hc with h | h
        · exact Or.inl h
        · exact Or.inr (Or.inr h)
    · split at hc
      · exact Or.inr (Or.inl (by simpa [splitSlash, dot] using hc))
      · rcases hjoin _ hsub c hc with h | h
        · exact Or.inl h
        · exact Or.inr (Or.inr h)

/-- `Clean` never invents a ".." component. -/
theorem clean_no_dotdot (s : Str) (h : ∀ c ∈ splitSlash s, c ≠ dotdot) :
    ∀ c ∈ splitSlash (clean s), c ≠ dotdot := by
  intro c hc
  rcases splitSlash_clean_subset s c hc with rfl | rfl | hm
  · simp [dotdot]
  · simp [dot, dotdot]
  · exact h c (mem_comps.1 hm).1

/-- nor does `Join`. -/
theorem join2_no_dotdot (a b : Str) (ha : ∀ c ∈ splitSlash a, c ≠ dotdot)
    (hb : ∀ c ∈ splitSlash b, c ≠ dotdot) : ∀ c ∈ splitSlash (join2 a b), c ≠ dotdot := by
  unfold join2
  split
  · apply clean_no_dotdot
    rw [splitSlash_append_slash]
    intro c hc
    rcases List.mem_append.1 hc with h | h
    · exact ha c h
    · exact hb c h
  · split
    · exact clean_no_dotdot b hb
    · simp [dotdot]

/-! ### base -/

theorem mem_takeWhile_true {α} (q : α → Bool) (l : List α) (a : α) (h : a ∈ l.takeWhile q) :
    q a = true := by
  induction l with
  | nil => simp at h
  | cons x l ih =>
    simp only [List.takeWhile_cons] at h
    split at h
    · simp only [List.mem_cons] at h
      rcases h with rfl | h
      · assumption
      · exact ih h
    · simp at h

theorem base_shape (s : Str) : base s = ['/'] ∨ '/' ∉ base s := by
  unfold base
  split
  · exact Or.inr (by simp [dot])
  · simp only
    split
    · exact Or.inl rfl
    · refine Or.inr ?_
      rw [List.mem_reverse]
      intro hm
      have := mem_takeWhile_true _ _ _ hm
      simp at this

theorem splitSlash_base_go (s : Str) : ∀ c ∈ splitSlash (base s ++ goSuffix), c ≠ dotdot := by
  rcases base_shape s with h | h
  · rw [h]; decide
  · have hns : '/' ∉ base s ++ goSuffix := by
      simp only [List.mem_append, not_or]; exact ⟨h, by decide⟩
    rw [splitSlash_of_no_slash _ hns]
    intro c hc
    simp only [List.mem_singleton] at hc
    subst hc
    intro he
    have := congrArg List.length he
    simp [goSuffix, dotdot] at this

/-! ### (ii) a package path without ".." gives a confined file -/

theorem core_path_no_dotdot (pkg : Str) (h : ∀ c ∈ splitSlash pkg, c ≠ dotdot) :
    ∀ c ∈ splitSlash (join2 pkg (base pkg ++ goSuffix)), c ≠ dotdot :=
  join2_no_dotdot _ _ h (splitSlash_base_go pkg)

theorem core_path_confined (out pkg : Str) (ho : isAbs out = true)
    (h : ∀ c ∈ splitSlash pkg, c ≠ dotdot) :
    within (clean out) (join2 out (join2 pkg (base pkg ++ goSuffix))) = true :=
  join_confined out _ ho (core_path_no_dotdot pkg h)

/-! ### (iii) `Rel` of a target that extends the root -/

theorem stripCommon_prefix (l r : List Str) : stripCommon l (l ++ r) = ([], r) := by
  induction l with
  | nil => cases r <;> rfl
  | cons x l ih => simp [stripCommon, ih]

theorem joinSlash_ne_nil (l : List Str) (hl : l ≠ []) (h : ∀ c ∈ l, c ≠ []) : joinSlash l ≠ [] := by
  cases l with
  | nil => exact absurd rfl hl
  | cons x l =>
    cases l with
    | nil => simpa [joinSlash] using h x (by simp)
    | cons y l => simp [joinSlash]

theorem relElems_root_join (l : List Str) (h : ∀ c ∈ l, c ≠ [] ∧ '/' ∉ c) :
    relElems ('/' :: joinSlash l) = [] :: l := by
  by_cases hl : l = []
  · subst hl; rfl
  · have hne := joinSlash_ne_nil l hl (fun c hc => (h c hc).1)
    simp only [relElems, reduceCtorEq, if_false, List.cons.injEq, true_and, hne, splitSlash_slash]
    rw [splitSlash_joinSlash l hl (fun c hc => (h c hc).2)]

theorem comp_good {s c : Str} (h : c ∈ comps s) : c ≠ [] ∧ '/' ∉ c :=
  ⟨(mem_comps.1 h).2.1, comp_no_slash h⟩

/-- `Rel(root, root/rest)` for a cleaned absolute `root` and a remainder without ".."
component: the remaining components joined by '/' (or "." if there are none). -/
theorem rel_extends (root rest : Str) (ha : isAbs root = true) (hc : clean root = root)
    (hr : ∀ c ∈ splitSlash rest, c ≠ dotdot) :
    rel root (root ++ '/' :: rest) =
      some (if comps rest = [] then dot else joinSlash (comps rest)) := by
  have hS : ∀ c ∈ (cleanStack true [] (comps root)).reverse, c ≠ [] ∧ '/' ∉ c :=
    fun c hc => comp_good (cleanStack_nil_subset _ _ c (List.mem_reverse.1 hc))
  have hb : clean root = '/' :: joinSlash (cleanStack true [] (comps root)).reverse := clean_abs root ha
  have hne : root ≠ [] := by intro h; subst h; simp [isAbs] at ha
  have ht : clean (root ++ '/' :: rest) =
      '/' :: joinSlash ((cleanStack true [] (comps root)).reverse ++ comps rest) := by
    have := join2_abs_push root rest ha hr
    simpa [join2, hne] using this
  generalize hSdef : (cleanStack true [] (comps root)).reverse = S at hS hb ht
  unfold rel
  simp only [ht, hb]
  by_cases hcs : comps rest = []
  · simp [hcs]
  · have hcomps : ∀ c ∈ comps rest, c ≠ [] ∧ '/' ∉ c := fun c h => comp_good h
    have hall : ∀ c ∈ S ++ comps rest, c ≠ [] ∧ '/' ∉ c := by
      intro c h
      rcases List.mem_append.1 h with h | h
      · exact hS c h
      · exact hcomps c h
    have hneq : ('/' :: joinSlash (S ++ comps rest) : Str) ≠ '/' :: joinSlash S := by
      intro he
      have he' := congrArg relElems he
      rw [relElems_root_join _ hall, relElems_root_join _ hS] at he'
      simp only [List.cons.injEq, true_and] at he'
      have := congrArg List.length he'
      simp only [List.length_append] at this
      have : (comps rest).length = 0 := by omega
      exact hcs (List.eq_nil_of_length_eq_zero this)
    simp only [hneq, if_false, hcs]
    have hd : ('/' :: joinSlash S : Str) ≠ dot := by simp [dot]
    simp only [hd, if_false, isAbs, List.head?_cons, bne_self_eq_false, Bool.false_eq_true]
    rw [relElems_root_join _ hall, relElems_root_join _ hS]
    rw [show ([] : Str) :: (S ++ comps rest) = ([] :: S) ++ comps rest from rfl, stripCommon_prefix]

theorem comps_no_dotdot {s : Str} (h : ∀ c ∈ splitSlash s, c ≠ dotdot) :
    ∀ c ∈ splitSlash (if comps s = [] then dot else joinSlash (comps s)), c ≠ dotdot := by
  split
  · decide
  · rename_i hne
    rw [splitSlash_joinSlash _ hne (fun c hc => comp_no_slash hc)]
    exact fun c hc => h c (mem_comps.1 hc).1

theorem trimSuffix_append (x suf : Str) : trimSuffix (x ++ suf) suf = x := by
  have hp : suf.reverse.isPrefixOf (suf.reverse ++ x.reverse) = true := isPrefixOf_append_self _ _
  simp [trimSuffix, List.reverse_append, hp]

/-- a Thrift file `root/rest.thrift` below a cleaned absolute root, `rest` (directories
and the base name minus ".thrift") without ".." component: its Go file is inside every
absolute output directory. -/
theorem core_path_of_extends (root rest : Str) (ha : isAbs root = true) (hc : clean root = root)
    (hr : ∀ c ∈ splitSlash rest, c ≠ dotdot) :
    ∃ p, modulePath root (root ++ '/' :: rest ++ thriftSuffix) = some p ∧
      (∀ c ∈ splitSlash p, c ≠ dotdot) ∧
      ∀ out, isAbs out = true → within (clean out) (join2 out p) = true := by
  let pkg : Str := if comps rest = [] then dot else joinSlash (comps rest)
  refine ⟨join2 pkg (base pkg ++ goSuffix), (modulePath_iff _ _ _).2 ⟨pkg, ?_,
    escapesRoot_false_of_no_dotdot _ (comps_no_dotdot hr), rfl⟩, ?_, ?_⟩
  · rw [show root ++ '/' :: rest ++ thriftSuffix = (root ++ '/' :: rest) ++ thriftSuffix by simp,
      trimSuffix_append]
    exact rel_extends root rest ha hc hr
  · exact core_path_no_dotdot _ (comps_no_dotdot hr)
  · exact fun out ho => core_path_confined out _ ho (comps_no_dotdot hr)

end ThriftVerif.Proto
