/-
M-Proto proofs, part 2 (C17): the generate plan. Characterisations of
`mergeFiles/mergePlugins/genModules/allOk/runPlugins/planFiles/generatePlan`,
then all-or-nothing, conflict detection and confinement of the planned writes.
-/
import ThriftVerif.Proto.Plan
import ThriftVerif.Proto.PathProofs5

set_option linter.unusedSimpArgs false
set_option linter.unusedVariables false

namespace ThriftVerif.Proto

/-- two maps share no key. -/
def KeyDisjoint (a b : Files) : Prop := ∀ p, hasKey a p = true → hasKey b p = true → False

theorem KeyDisjoint.symm {a b : Files} (h : KeyDisjoint a b) : KeyDisjoint b a :=
  fun p hb ha => h p ha hb

/-- the keys of a map, in order. -/
def keys (fs : Files) : List Str := fs.map (·.1)

/-! ### hasKey / addFile / mergeFiles / mergePlugins -/

theorem hasKey_iff_mem_keys (fs : Files) (p : Str) : hasKey fs p = true ↔ p ∈ keys fs := by
  simp only [hasKey, keys, List.any_eq_true, beq_iff_eq, List.mem_map]

theorem keys_nodup_append (a b : Files) (ha : (keys a).Nodup) (hb : (keys b).Nodup)
    (hd : KeyDisjoint a b) : (keys (a ++ b)).Nodup := by
  simp only [keys, List.map_append]
  refine List.nodup_append.2 ⟨ha, hb, fun x hx y hy hxy => ?_⟩
  subst hxy
  exact hd x ((hasKey_iff_mem_keys a x).2 hx) ((hasKey_iff_mem_keys b x).2 hy)

theorem hasKey_append (a b : Files) (p : Str) :
    hasKey (a ++ b) p = (hasKey a p || hasKey b p) := by simp [hasKey]

theorem hasKey_of_mem {fs : Files} {x : Str × Content} (h : x ∈ fs) : hasKey fs x.1 = true := by
  simp only [hasKey, List.any_eq_true]; exact ⟨x, h, by simp⟩

theorem addFile_some {fs : Files} {p : Str} {c : Content} {r : Files}
    (h : addFile fs p c = some r) : hasKey fs p = false ∧ r = fs ++ [(p, c)] := by
  unfold addFile at h
  split at h
  · exact absurd h (by simp)
  · rename_i hk
    simp only [Option.some.injEq] at h
    exact ⟨by simpa using hk, h.symm⟩

/-- own characterisation of a successful `mergeFiles` (the concurrent-merge file has its own). -/
theorem mergeFiles_some_spec (dest src r : Files) (h : mergeFiles dest src = some r) :
    r = dest ++ src ∧ KeyDisjoint dest src ∧ (keys src).Nodup := by
  induction src generalizing dest with
  | nil =>
    simp only [mergeFiles, Option.some.injEq] at h
    exact ⟨by simp [h], fun p _ hp => by simp [hasKey] at hp, by simp [keys]⟩
  | cons x rest ih =>
    obtain ⟨p, c⟩ := x
    simp only [mergeFiles] at h
    cases ha : addFile dest p c with
    | none => simp [ha] at h
    | some d =>
      simp only [ha] at h
      obtain ⟨hk, rfl⟩ := addFile_some ha
      obtain ⟨hr, hd, hn⟩ := ih _ h
      refine ⟨by simp [hr], fun q hq1 hq2 => ?_, ?_⟩
      · simp only [hasKey, List.any_cons, Bool.or_eq_true, beq_iff_eq] at hq2
        rcases hq2 with rfl | hq2
        · rw [hk] at hq1; exact absurd hq1 (by simp)
        · exact hd q (by rw [hasKey_append]; simp [hq1]) hq2
      · simp only [keys, List.map_cons, List.nodup_cons]
        refine ⟨fun hm => ?_, hn⟩
        exact hd p (by rw [hasKey_append]; simp [hasKey]) ((hasKey_iff_mem_keys rest p).2 hm)

theorem mergeFiles_keys_nodup (dest src r : Files) (h : mergeFiles dest src = some r)
    (hd : (keys dest).Nodup) : (keys r).Nodup := by
  obtain ⟨rfl, hdis, hn⟩ := mergeFiles_some_spec _ _ _ h
  exact keys_nodup_append _ _ hd hn hdis

theorem mergePlugins_some_spec (acc : Files) (l : List Files) (r : Files)
    (h : mergePlugins acc l = some r) :
    r = acc ++ l.flatten ∧ (∀ f ∈ l, KeyDisjoint acc f) ∧ l.Pairwise KeyDisjoint ∧
      (∀ f ∈ l, (keys f).Nodup) ∧ ((keys acc).Nodup → (keys r).Nodup) := by
  induction l generalizing acc with
  | nil => simp only [mergePlugins, Option.some.injEq] at h; simp [h]
  | cons f fs ih =>
    simp only [mergePlugins] at h
    cases hm : mergeFiles acc f with
    | none => simp [hm] at h
    | some acc' =>
      simp only [hm] at h
      have hkn := mergeFiles_keys_nodup _ _ _ hm
      obtain ⟨rfl, hd, hnf⟩ := mergeFiles_some_spec _ _ _ hm
      obtain ⟨hr, hall, hpw, hnod, hkr⟩ := ih _ h
      refine ⟨by simp [hr], ?_, ?_, ?_, fun ha => hkr (hkn ha)⟩
      · intro g hg
        simp only [List.mem_cons] at hg
        rcases hg with rfl | hg
        · exact hd
        · exact fun p h1 h2 => hall g hg p (by rw [hasKey_append]; simp [h1]) h2
      · rw [List.pairwise_cons]
        exact ⟨fun g hg p h1 h2 => hall g hg p (by rw [hasKey_append]; simp [h1]) h2, hpw⟩
      · intro g hg
        simp only [List.mem_cons] at hg
        rcases hg with rfl | hg
        · exact hnf
        · exact hnod g hg

/-! ### genModules -/

theorem genModules_cons_ok {root : Str} {acc : Files} {m : ModIn} {ms : List ModIn} {r : Files}
    (h : genModules root acc (m :: ms) = .ok r) :
    ∃ c p, m.result = some c ∧ modulePath root m.thriftPath = some p ∧
      hasKey acc (normKey p) = false ∧ genModules root (acc ++ [(normKey p, c)]) ms = .ok r := by
  unfold genModules at h
  split at h
  · rename_i c p hc hp
    split at h
    · rename_i acc' ha
      obtain ⟨hk, rfl⟩ := addFile_some ha
      exact ⟨c, p, hc, hp, hk, h⟩
    · exact absurd h (by simp)
  · exact absurd h (by simp)

/-- `k` is the (normalised) key under which the core generator files module `m`. -/
def ModKey (root : Str) (m : ModIn) (k : Str) : Prop :=
  ∃ p, modulePath root m.thriftPath = some p ∧ normKey p = k

theorem genModules_ok_spec (root : Str) (acc : Files) (mods : List ModIn) (r : Files)
    (h : genModules root acc mods = .ok r) :
    (∀ m ∈ mods, m.result.isSome = true ∧ (modulePath root m.thriftPath).isSome = true) ∧
    (∀ x ∈ r, x ∈ acc ∨ ∃ m ∈ mods, ModKey root m x.1) ∧
    (∀ p, hasKey acc p = true → hasKey r p = true) ∧
    (∀ m ∈ mods, ∀ k, ModKey root m k → hasKey r k = true ∧ hasKey acc k = false) ∧
    mods.Pairwise (fun a b => ∀ k, ModKey root a k → ModKey root b k → False) ∧
    ((keys acc).Nodup → (keys r).Nodup) := by
  induction mods generalizing acc with
  | nil =>
    simp only [genModules, Except.ok.injEq] at h
    subst h; simp
  | cons m ms ih =>
    obtain ⟨c, p, hc, hp, hk, hrest⟩ := genModules_cons_ok h
    obtain ⟨h1, h2, h3, h4, h5, h6⟩ := ih _ hrest
    have hpr : hasKey r (normKey p) = true := h3 _ (by rw [hasKey_append]; simp [hasKey])
    have hkey : ∀ q, ModKey root m q → q = normKey p := by
      rintro q ⟨p', hp', rfl⟩
      rw [hp] at hp'; rw [Option.some.inj hp']
    refine ⟨?_, ?_, ?_, ?_, ?_, ?_⟩
    · intro m' hm'
      simp only [List.mem_cons] at hm'
      rcases hm' with rfl | hm'
      · simp [hc, hp]
      · exact h1 m' hm'
    · intro x hx
      rcases h2 x hx with hx | ⟨m', hm', hmp⟩
      · simp only [List.mem_append, List.mem_singleton] at hx
        rcases hx with hx | rfl
        · exact Or.inl hx
        · exact Or.inr ⟨m, by simp, p, hp, rfl⟩
      · exact Or.inr ⟨m', by simp [hm'], hmp⟩
    · intro q hq; exact h3 q (by rw [hasKey_append]; simp [hq])
    · intro m' hm' q hq
      simp only [List.mem_cons] at hm'
      rcases hm' with rfl | hm'
      · rw [hkey q hq]; exact ⟨hpr, hk⟩
      · obtain ⟨ha, hb⟩ := h4 m' hm' q hq
        rw [hasKey_append] at hb
        exact ⟨ha, by simpa using (Bool.or_eq_false_iff.1 hb).1⟩
    · rw [List.pairwise_cons]
      refine ⟨fun m' hm' q hq hq' => ?_, h5⟩
      have hq1 := hkey q hq
      subst hq1
      have := (h4 m' hm' _ hq').2
      rw [hasKey_append] at this
      simp [hasKey] at this
    · intro ha
      apply h6
      apply keys_nodup_append _ _ ha (by simp [keys])
      intro q h1 h2
      have : normKey p = q := by simpa [hasKey] using h2
      subst this
      rw [hk] at h1; exact absurd h1 (by simp)

/-! ### plugins -/

theorem allOk_ok (xs : List (Except PlanErr Files)) (fs : List Files) (h : allOk xs = .ok fs) :
    xs = fs.map .ok := by
  induction xs generalizing fs with
  | nil => simp only [allOk, Except.ok.injEq] at h; subst h; rfl
  | cons x xs ih =>
    cases x with
    | error e => simp [allOk] at h
    | ok f =>
      simp only [allOk] at h
      cases hr : allOk xs with
      | error e => simp [hr] at h
      | ok gs =>
        simp only [hr, Except.ok.injEq] at h
        subst h; simp [ih gs hr]

theorem checkPlugin_ok {p : Option Files} {f : Files} (h : checkPlugin p = .ok f) :
    p = some f ∧ ∀ x ∈ f, containsDotDot x.1 = false := by
  cases p with
  | none => simp [checkPlugin] at h
  | some g =>
    simp only [checkPlugin] at h
    split at h
    · exact absurd h (by simp)
    · rename_i hany
      simp only [Except.ok.injEq] at h
      subst h
      refine ⟨rfl, fun x hx => ?_⟩
      cases hc : containsDotDot x.1 with
      | false => rfl
      | true => exact absurd (List.any_eq_true.2 ⟨x, hx, hc⟩) hany

/-- the checked answers: `fs` lines up with `plugs` index by index. -/
def Checked (plugs : List (Option Files)) (fs : List Files) : Prop :=
  plugs.map checkPlugin = fs.map .ok

theorem Checked.all_ok {plugs fs} (h : Checked plugs fs) :
    ∀ p ∈ plugs, ∃ f, p = some f ∧ ∀ x ∈ f, containsDotDot x.1 = false := by
  intro p hp
  have : checkPlugin p ∈ fs.map Except.ok := h ▸ List.mem_map_of_mem hp
  obtain ⟨f, _, hf⟩ := List.mem_map.1 this
  exact ⟨f, checkPlugin_ok hf.symm⟩

theorem Checked.no_dotdot {plugs fs} (h : Checked plugs fs) :
    ∀ f ∈ fs, ∀ x ∈ f, containsDotDot x.1 = false := by
  intro f hf
  have : (Except.ok f : Except PlanErr Files) ∈ plugs.map checkPlugin := h ▸ List.mem_map_of_mem hf
  obtain ⟨p, _, hp⟩ := List.mem_map.1 this
  exact (checkPlugin_ok hp).2

theorem Checked.get {plugs fs} (h : Checked plugs fs) (i : Nat) (f : Files)
    (hi : plugs[i]? = some (some f)) : fs[i]? = some f := by
  have := congrArg (fun l => l[i]?) h
  simp only [List.getElem?_map, hi, Option.map_some] at this
  cases hfi : fs[i]? with
  | none => simp [hfi] at this
  | some g =>
    simp only [hfi, Option.map_some, Option.some.injEq] at this
    have := (checkPlugin_ok this).1
    simp only [Option.some.injEq] at this
    rw [this]

theorem runPlugins_ok {plugs : List (Option Files)} {ord : List Nat} {pf : Files}
    (h : runPlugins plugs ord = .ok pf) :
    ∃ fs, Checked plugs fs ∧ mergePlugins [] (pickOrder (fs.map normFiles) ord) = some pf := by
  unfold runPlugins at h
  cases ha : allOk (plugs.map checkPlugin) with
  | error e => simp [ha] at h
  | ok fs =>
    simp only [ha] at h
    cases hm : mergePlugins [] (pickOrder (fs.map normFiles) ord) with
    | none => simp [hm] at h
    | some m =>
      simp only [hm, Except.ok.injEq] at h
      subst h
      exact ⟨fs, allOk_ok _ _ ha, hm⟩

theorem planFiles_ok {root : Str} {mods plugs ord} {all : Files}
    (h : planFiles root mods plugs ord = .ok all) :
    ∃ core pf, genModules root [] mods = .ok core ∧ runPlugins plugs ord = .ok pf ∧
      mergeFiles core pf = some all := by
  unfold planFiles at h
  cases hg : genModules root [] mods with
  | error e => simp [hg] at h
  | ok core =>
    simp only [hg] at h
    cases hr : runPlugins plugs ord with
    | error e => simp [hr] at h
    | ok pf =>
      simp only [hr] at h
      cases hm : mergeFiles core pf with
      | none => simp [hm] at h
      | some a =>
        simp only [hm] at h
        cases hc : checkPaths a with
        | some e => simp [hc] at h
        | none =>
          simp only [hc, Except.ok.injEq] at h
          subst h
          exact ⟨core, pf, rfl, rfl, hm⟩

/-- … and the complete map passed the path check. -/
theorem planFiles_ok_paths {root : Str} {mods plugs ord} {all : Files}
    (h : planFiles root mods plugs ord = .ok all) : checkPaths all = none := by
  unfold planFiles at h
  cases hg : genModules root [] mods with
  | error e => simp [hg] at h
  | ok core =>
    simp only [hg] at h
    cases hr : runPlugins plugs ord with
    | error e => simp [hr] at h
    | ok pf =>
      simp only [hr] at h
      cases hm : mergeFiles core pf with
      | none => simp [hm] at h
      | some a =>
        simp only [hm] at h
        cases hc : checkPaths a with
        | some e => simp [hc] at h
        | none =>
          simp only [hc, Except.ok.injEq] at h
          subst h
          exact hc

theorem generatePlan_ok {root out : Str} {mods plugs ord} {ws : Files}
    (h : generatePlan root out mods plugs ord = .ok ws) :
    ∃ fs, planFiles root mods plugs ord = .ok fs ∧ ws = fs.map fun x => (join2 out x.1, x.2) := by
  unfold generatePlan at h
  cases hp : planFiles root mods plugs ord with
  | error e => simp [hp] at h
  | ok fs =>
    simp only [hp, Except.ok.injEq] at h
    exact ⟨fs, rfl, h.symm⟩

/-- everything a successful plan rests on, in one place (`l` = the normalised plugin answers in
completion order). -/
theorem generatePlan_ok_spec {root out : Str} {mods plugs ord} {ws : Files}
    (h : generatePlan root out mods plugs ord = .ok ws) :
    ∃ core fs, genModules root [] mods = .ok core ∧ Checked plugs fs ∧
      (pickOrder (fs.map normFiles) ord).Pairwise KeyDisjoint ∧
      (∀ f ∈ pickOrder (fs.map normFiles) ord, (keys f).Nodup) ∧
      KeyDisjoint core (pickOrder (fs.map normFiles) ord).flatten ∧
      (keys (core ++ (pickOrder (fs.map normFiles) ord).flatten)).Nodup ∧
      ws = (core ++ (pickOrder (fs.map normFiles) ord).flatten).map fun x => (join2 out x.1, x.2) := by
  obtain ⟨all, hp, rfl⟩ := generatePlan_ok h
  obtain ⟨core, pf, hg, hr, hm⟩ := planFiles_ok hp
  obtain ⟨fs, hc, hmp⟩ := runPlugins_ok hr
  obtain ⟨hpf, _, hpw, hnod, hkn⟩ := mergePlugins_some_spec _ _ _ hmp
  have hcore := (genModules_ok_spec _ _ _ _ hg).2.2.2.2.2 (by simp [keys])
  have hall := mergeFiles_keys_nodup _ _ _ hm hcore
  obtain ⟨rfl, hd, _⟩ := mergeFiles_some_spec _ _ _ hm
  simp only [List.nil_append] at hpf
  subst hpf
  exact ⟨core, fs, hg, hc, hpw, hnod, hd, hall, rfl⟩

end ThriftVerif.Proto
