/-
M-Proto proofs, part 1c (C17): from ancestry to the shape `root/rest.thrift`.
A cleaned absolute Thrift file that `verifyAncestry` accepts has the components of the root
followed by further components; cutting ".thrift" off changes only the last one.
-/
import ThriftVerif.Proto.PathProofs2

set_option linter.unusedSimpArgs false
set_option linter.unusedVariables false

namespace ThriftVerif.Proto

/-! ### more about splitSlash / joinSlash -/

theorem joinSlash_cons_head (c : Char) (h : Str) (t : List Str) :
    joinSlash ((c :: h) :: t) = c :: joinSlash (h :: t) := by
  cases t <;> rfl

theorem joinSlash_splitSlash (s : Str) : joinSlash (splitSlash s) = s := by
  induction s with
  | nil => rfl
  | cons c s ih =>
    by_cases hc : c = '/'
    · subst hc
      rw [splitSlash_slash, joinSlash_cons_ne _ _ (splitSlash_ne_nil s), ih]; rfl
    · obtain ⟨h, t, h1, h2⟩ := splitSlash_cons_ne c s hc
      rw [h2, joinSlash_cons_head, ← h1, ih]

/-- appending a slash-free suffix changes only the last component. -/
theorem splitSlash_append_noslash (x suf : Str) (hs : '/' ∉ suf) :
    ∃ init last, splitSlash x = init ++ [last] ∧ splitSlash (x ++ suf) = init ++ [last ++ suf] := by
  induction x with
  | nil => exact ⟨[], [], rfl, by simpa using splitSlash_of_no_slash suf hs⟩
  | cons c x ih =>
    obtain ⟨init, last, h1, h2⟩ := ih
    by_cases hc : c = '/'
    · subst hc
      exact ⟨[] :: init, last, by simp [h1], by simp [h2]⟩
    · obtain ⟨h, t, e1, e2⟩ := splitSlash_cons_ne c x hc
      obtain ⟨h', t', e1', e2'⟩ := splitSlash_cons_ne c (x ++ suf) hc
      rw [List.cons_append, e2, e2']
      cases init with
      | nil =>
        simp only [List.nil_append] at h1 h2
        rw [h1] at e1; rw [h2] at e1'
        simp only [List.cons.injEq] at e1 e1'
        refine ⟨[], c :: last, ?_, ?_⟩
        · simp [← e1.1, ← e1.2]
        · simp [← e1'.1, ← e1'.2]
      | cons i is =>
        rw [h1] at e1; rw [h2] at e1'
        simp only [List.cons_append, List.cons.injEq] at e1 e1'
        refine ⟨(c :: i) :: is, last, ?_, ?_⟩
        · simp [← e1.1, ← e1.2]
        · simp [← e1'.1, ← e1'.2]

/-! ### stripCommon and Rel under ancestry -/

theorem stripCommon_spec (a b a' b' : List Str) (h : stripCommon a b = (a', b')) :
    ∃ pre, a = pre ++ a' ∧ b = pre ++ b' := by
  induction a generalizing b with
  | nil =>
    have : stripCommon [] b = ([], b) := by cases b <;> rfl
    rw [this] at h; simp only [Prod.mk.injEq] at h
    exact ⟨[], by simp [h.1], by simp [h.2]⟩
  | cons x a ih =>
    cases b with
    | nil =>
      simp only [stripCommon, Prod.mk.injEq] at h
      exact ⟨[], by simp [h.1], by simp [h.2]⟩
    | cons y b =>
      simp only [stripCommon] at h
      split at h
      · rename_i hxy
        obtain ⟨pre, h1, h2⟩ := ih b h
        exact ⟨x :: pre, by simp [h1], by simp [← hxy, h2]⟩
      · simp only [Prod.mk.injEq] at h
        exact ⟨[], by simp [h.1], by simp [h.2]⟩

theorem hasPrefix_dotdot_joinSlash (l : List Str) : hasPrefix dotdot (joinSlash (dotdot :: l)) = true := by
  cases l with
  | nil => decide
  | cons y l => simp [joinSlash, hasPrefix, dotdot]

/-- what `verifyAncestry` establishes for cleaned paths: same rootedness, and the elements of
the file start with the elements of the root. -/
theorem rel_ancestry (root f q : Str) (ha : isAbs root = true) (hcr : clean root = root)
    (hcf : clean f = f) (hne : f ≠ root) (h : rel root f = some q)
    (hq : hasPrefix dotdot q = false) :
    isAbs f = true ∧ ∃ t', relElems f = relElems root ++ t' := by
  have hnd : root ≠ dot := by intro e; rw [e] at ha; simp [isAbs, dot] at ha
  unfold rel at h
  simp only [hcr, hcf, hne, if_false, hnd] at h
  split at h
  · exact absurd h (by simp)
  · rename_i habs
    have hf : isAbs f = true := by simpa [ha] using habs
    refine ⟨hf, ?_⟩
    generalize hsc : stripCommon (relElems root) (relElems f) = r at h
    obtain ⟨b', t'⟩ := r
    obtain ⟨pre, h1, h2⟩ := stripCommon_spec _ _ _ _ hsc
    simp only at h
    cases b' with
    | nil => exact ⟨t', by rw [h2, h1]; simp⟩
    | cons x xs =>
      simp only at h
      split at h
      · exact absurd h (by simp)
      · simp only [List.map_cons, List.cons_append, Option.some.injEq] at h
        rw [← h, hasPrefix_dotdot_joinSlash] at hq
        exact absurd hq (by simp)

/-! ### cleaned absolute paths -/

/-- a cleaned absolute path is "/" followed by its good components, none of them "..". -/
theorem clean_abs_shape (f : Str) (ha : isAbs f = true) (hc : clean f = f) :
    ∃ F : List Str, f = '/' :: joinSlash F ∧ (∀ c ∈ F, c ≠ [] ∧ '/' ∉ c) ∧ (∀ c ∈ F, c ≠ dotdot) := by
  refine ⟨(cleanStack true [] (comps f)).reverse, ?_, ?_, ?_⟩
  · rw [← clean_abs f ha, hc]
  · exact fun c hc => comp_good (cleanStack_nil_subset _ _ c (List.mem_reverse.1 hc))
  · exact fun c hc => cleanStack_rooted_no_dotdot [] _ (by simp) c (List.mem_reverse.1 hc)

theorem comps_slash (r : Str) : comps ('/' :: r) = comps r := by
  simp [comps]

theorem clean_slash_slash (r : Str) : clean ('/' :: '/' :: r) = clean ('/' :: r) := by
  rw [clean_abs _ (rfl : isAbs ('/' :: '/' :: r) = true), clean_abs _ (rfl : isAbs ('/' :: r) = true),
    comps_slash]

theorem rel_congr_clean (b t t' : Str) (h : clean t = clean t') : rel b t = rel b t' := by
  unfold rel; rw [h]

/-! ### the bridge -/

/-- a cleaned absolute file whose elements extend those of the cleaned absolute root, cut
before a slash-free suffix: it is (up to `Clean`) `root/rest` with `rest` free of "..",
provided its own last component is not "..". -/
theorem below_shape (root g suf : Str) (ha : isAbs root = true) (hcr : clean root = root)
    (hf : isAbs (g ++ suf) = true) (hcf : clean (g ++ suf) = g ++ suf) (hne : g ++ suf ≠ root)
    (hsuf : '/' ∉ suf) (t' : List Str) (hb : relElems (g ++ suf) = relElems root ++ t')
    (hlast : (splitSlash g).getLast? ≠ some dotdot) :
    ∃ rest, clean g = clean (root ++ '/' :: rest) ∧ ∀ c ∈ splitSlash rest, c ≠ dotdot := by
  obtain ⟨S, hS, hSg, _⟩ := clean_abs_shape root ha hcr
  obtain ⟨F, hF, hFg, hFd⟩ := clean_abs_shape _ hf hcf
  have hFS : F = S ++ t' := by
    have := hb
    rw [hF, hS, relElems_root_join _ hFg, relElems_root_join _ hSg] at this
    simpa using this
  have ht' : t' ≠ [] := by
    intro e; subst e
    apply hne; rw [hF, hS, hFS]; simp
  obtain ⟨t'', l, rfl⟩ : ∃ t'' l, t' = t'' ++ [l] :=
    ⟨t'.dropLast, t'.getLast ht', (List.dropLast_concat_getLast ht').symm⟩
  obtain ⟨init, last, hi1, hi2⟩ := splitSlash_append_noslash g suf hsuf
  have hFne : F ≠ [] := by rw [hFS]; simp
  have hsf : splitSlash (g ++ suf) = [] :: (S ++ t'' ++ [l]) := by
    rw [hF, splitSlash_slash, splitSlash_joinSlash F hFne (fun c hc => (hFg c hc).2), hFS]
    simp
  rw [hi2] at hsf
  have hinit : init = [] :: (S ++ t'') ∧ last ++ suf = l := by
    have : init ++ [last ++ suf] = ([] :: (S ++ t'')) ++ [l] := by simpa using hsf
    have h := List.append_inj' this rfl
    exact ⟨h.1, by simpa using h.2⟩
  have hsg : splitSlash g = [] :: (S ++ (t'' ++ [last])) := by rw [hi1, hinit.1]; simp
  have hg : g = '/' :: joinSlash (S ++ (t'' ++ [last])) := by
    have := joinSlash_splitSlash g
    rw [hsg, joinSlash_cons_ne _ _ (by simp)] at this
    simpa using this.symm
  have hgood : ∀ c ∈ t'' ++ [last], '/' ∉ c := by
    intro c hc
    rcases List.mem_append.1 hc with h | h
    · exact (hFg c (by rw [hFS]; simp [h])).2
    · simp only [List.mem_singleton] at h; subst h
      exact splitSlash_no_slash g _ (by rw [hi1]; simp)
  refine ⟨joinSlash (t'' ++ [last]), ?_, ?_⟩
  · by_cases hSn : S = []
    · subst hSn
      rw [hg, hS]
      simp only [joinSlash, List.nil_append, List.cons_append]
      exact (clean_slash_slash _).symm
    · rw [hg, hS, joinSlash_append S _ hSn (by simp)]
      simp
  · rw [splitSlash_joinSlash _ (by simp) hgood]
    intro c hc
    rcases List.mem_append.1 hc with h | h
    · exact hFd c (by rw [hFS]; simp [h])
    · simp only [List.mem_singleton] at h; subst h
      intro e; apply hlast; rw [hi1, e]; simp

theorem trimSuffix_cases (f suf : Str) :
    trimSuffix f suf = f ∨ f = trimSuffix f suf ++ suf := by
  unfold trimSuffix
  split
  · rename_i hp
    right
    obtain ⟨t, ht⟩ := List.isPrefixOf_iff_prefix.1 hp
    have hf : f = t.reverse ++ suf := by
      have := congrArg List.reverse ht
      simpa using this.symm
    have hd : (f.reverse.drop suf.length).reverse = t.reverse := by
      rw [← ht]; simp
    rw [hd]; exact hf
  · exact Or.inl rfl

/-- the general form of `core_path_of_extends`: the target only has to clean to `root/rest`. -/
theorem core_path_of_clean_extends (root f rest : Str) (ha : isAbs root = true) (hc : clean root = root)
    (hg : clean (trimSuffix f thriftSuffix) = clean (root ++ '/' :: rest))
    (hr : ∀ c ∈ splitSlash rest, c ≠ dotdot) :
    ∃ p, modulePath root f = some p ∧ (∀ c ∈ splitSlash p, c ≠ dotdot) ∧
      ∀ out, isAbs out = true → within (clean out) (join2 out p) = true := by
  let pkg : Str := if comps rest = [] then dot else joinSlash (comps rest)
  refine ⟨join2 pkg (base pkg ++ goSuffix), (modulePath_iff _ _ _).2 ⟨pkg, ?_,
    escapesRoot_false_of_no_dotdot _ (comps_no_dotdot hr), rfl⟩, ?_, ?_⟩
  · rw [rel_congr_clean _ _ _ hg]; exact rel_extends root rest ha hc hr
  · exact core_path_no_dotdot _ (comps_no_dotdot hr)
  · exact fun out ho => core_path_confined out _ ho (comps_no_dotdot hr)

/-- the file's elements extend the root's elements (both cleaned, absolute). -/
def Below (root f : Str) : Prop := ∃ t', relElems f = relElems root ++ t'

/-- the core of 7(iii), from the component-wise notion of "below". -/
theorem core_path_of_below (root f : Str) (ha : isAbs root = true) (hcr : clean root = root)
    (hfa : isAbs f = true) (hcf : clean f = f) (hne : f ≠ root) (hb : Below root f)
    (hlast : (splitSlash (trimSuffix f thriftSuffix)).getLast? ≠ some dotdot) :
    ∃ p, modulePath root f = some p ∧ (∀ c ∈ splitSlash p, c ≠ dotdot) ∧
      ∀ out, isAbs out = true → within (clean out) (join2 out p) = true := by
  obtain ⟨t', hb⟩ := hb
  obtain ⟨rest, hg, hr⟩ : ∃ rest, clean (trimSuffix f thriftSuffix) = clean (root ++ '/' :: rest) ∧
      ∀ c ∈ splitSlash rest, c ≠ dotdot := by
    rcases trimSuffix_cases f thriftSuffix with h | h
    · rw [h] at hlast ⊢
      exact below_shape root f [] ha hcr (by simpa using hfa) (by simpa using hcf) (by simpa using hne)
        (by simp) t' (by simpa using hb) hlast
    · generalize trimSuffix f thriftSuffix = g at h hlast ⊢
      subst h
      exact below_shape root g thriftSuffix ha hcr hfa hcf hne (by decide) t' hb hlast
  exact core_path_of_clean_extends root f rest ha hcr hg hr

/-- **C17 7(iii)**: a cleaned Thrift file that `verifyAncestry` accepts below a cleaned
absolute root, is not the root itself, and whose last component minus ".thrift" is not "..",
is mapped to a Go file without ".." component, inside every absolute output directory. -/
theorem core_path_of_ancestry (root f : Str) (ha : isAbs root = true) (hcr : clean root = root)
    (hcf : clean f = f) (hne : f ≠ root) (hanc : verifyAncestry root [f] = true)
    (hlast : (splitSlash (trimSuffix f thriftSuffix)).getLast? ≠ some dotdot) :
    ∃ p, modulePath root f = some p ∧ (∀ c ∈ splitSlash p, c ≠ dotdot) ∧
      ∀ out, isAbs out = true → within (clean out) (join2 out p) = true := by
  obtain ⟨q, hq, hqp⟩ : ∃ q, rel root f = some q ∧ hasPrefix dotdot q = false := by
    unfold verifyAncestry at hanc
    cases hr : rel root f with
    | none => simp [hr] at hanc
    | some q => simp only [hr, Bool.and_eq_true, Bool.not_eq_true'] at hanc; exact ⟨q, rfl, hanc.1⟩
  obtain ⟨hfa, hb⟩ := rel_ancestry root f q ha hcr hcf hne hq hqp
  exact core_path_of_below root f ha hcr hfa hcf hne hb hlast

end ThriftVerif.Proto
