/-
M-Proto proofs, part 3 (C17): the theorems about `generatePlan` / `cliPlan`:
all-or-nothing, conflict detection (on raw keys), confinement, ancestry.
-/
import ThriftVerif.Proto.PlanProofs

set_option linter.unusedSimpArgs false
set_option linter.unusedVariables false

namespace ThriftVerif.Proto

/-! ### all-or-nothing -/

theorem plan_all_or_nothing (root out : Str) (mods plugs ord) (e : PlanErr)
    (h : generatePlan root out mods plugs ord = .error e) :
    writesOf (generatePlan root out mods plugs ord) = [] := by
  rw [h]; rfl

theorem writesOf_ne_nil {r : Except PlanErr Files} (h : writesOf r ≠ []) : ∃ ws, r = .ok ws := by
  cases r with
  | error e => exact absurd rfl h
  | ok ws => exact ⟨ws, rfl⟩

theorem plan_ok_imply_all_ok {root out : Str} {mods plugs ord} {ws : Files}
    (h : generatePlan root out mods plugs ord = .ok ws) :
    (∀ m ∈ mods, m.result.isSome = true ∧ (modulePath root m.thriftPath).isSome = true) ∧
    (∀ p ∈ plugs, ∃ fs, p = some fs ∧ ∀ x ∈ fs, containsDotDot x.1 = false) := by
  obtain ⟨core, fs, hg, hc, _, _, _⟩ := generatePlan_ok_spec h
  exact ⟨(genModules_ok_spec _ _ _ _ hg).1, hc.all_ok⟩

theorem plan_writes_imply_all_ok (root out : Str) (mods plugs ord)
    (h : writesOf (generatePlan root out mods plugs ord) ≠ []) :
    (∀ m ∈ mods, m.result.isSome = true ∧ (modulePath root m.thriftPath).isSome = true) ∧
    (∀ p ∈ plugs, ∃ fs, p = some fs ∧ ∀ x ∈ fs, containsDotDot x.1 = false) := by
  obtain ⟨ws, hws⟩ := writesOf_ne_nil h
  exact plan_ok_imply_all_ok hws

/-! ### conflicts on raw keys are detected -/

theorem mem_pickOrder {α} {xs : List α} {ord : List Nat} {a : α} :
    a ∈ pickOrder xs ord ↔ ∃ i ∈ ord, xs[i]? = some a := by
  simp [pickOrder, List.mem_filterMap]

theorem mem_of_mem_pickOrder {α} {xs : List α} {ord : List Nat} {a : α}
    (h : a ∈ pickOrder xs ord) : a ∈ xs := by
  obtain ⟨i, _, hi⟩ := mem_pickOrder.1 h
  exact List.mem_of_getElem? hi

/-- two different indices of the completion order are related by a pairwise-symmetric relation. -/
theorem pickOrder_pairwise_two {α} (R : α → α → Prop) (hsym : ∀ a b, R a b → R b a)
    (xs : List α) (ord : List Nat) (i j : Nat) (a b : α)
    (hi : i ∈ ord) (hj : j ∈ ord) (hij : i ≠ j) (ha : xs[i]? = some a) (hb : xs[j]? = some b)
    (hpw : (pickOrder xs ord).Pairwise R) : R a b := by
  obtain ⟨s, t, rfl⟩ := List.append_of_mem hi
  have hsplit : pickOrder xs (s ++ i :: t) = pickOrder xs s ++ a :: pickOrder xs t := by
    simp [pickOrder, List.filterMap_append, List.filterMap_cons, ha]
  rw [hsplit, List.pairwise_append] at hpw
  obtain ⟨_, hcons, hcross⟩ := hpw
  simp only [List.mem_append, List.mem_cons] at hj
  rcases hj with hj | hj | hj
  · exact hsym _ _ (hcross b (mem_pickOrder.2 ⟨j, hj, hb⟩) a (by simp))
  · exact absurd hj.symm hij
  · exact (List.pairwise_cons.1 hcons).1 b (mem_pickOrder.2 ⟨j, hj, hb⟩)

/-- (a) two plugins answer with the same raw path: for EVERY completion order that
contains both (in particular every permutation of all plugins). -/
theorem conflict_detected_plugins_mem (root out : Str) (mods plugs) (ord : List Nat)
    (i j : Nat) (fi fj : Files) (p : Str)
    (hi : plugs[i]? = some (some fi)) (hj : plugs[j]? = some (some fj)) (hij : i ≠ j)
    (hio : i ∈ ord) (hjo : j ∈ ord)
    (hpi : hasKey fi p = true) (hpj : hasKey fj p = true) :
    ∃ e, generatePlan root out mods plugs ord = .error e := by
  cases hg : generatePlan root out mods plugs ord with
  | error e => exact ⟨e, rfl⟩
  | ok ws =>
    exfalso
    obtain ⟨core, fs, _, hc, hpw, _, _⟩ := generatePlan_ok_spec hg
    exact pickOrder_pairwise_two KeyDisjoint (fun _ _ h => h.symm) fs ord i j fi fj hio hjo hij
      (hc.get i fi hi) (hc.get j fj hj) hpw p hpi hpj

theorem mem_of_perm_range {n i : Nat} {ord : List Nat} (h : ord.Perm (List.range n)) (hi : i < n) :
    i ∈ ord := h.mem_iff.2 (List.mem_range.2 hi)

theorem lt_of_getElem?_some {α} {l : List α} {i : Nat} {a : α} (h : l[i]? = some a) : i < l.length := by
  cases Nat.lt_or_ge i l.length with
  | inl h' => exact h'
  | inr h' => rw [List.getElem?_eq_none h'] at h; exact absurd h (by simp)

theorem conflict_detected_plugins (root out : Str) (mods plugs) (ord : List Nat)
    (i j : Nat) (fi fj : Files) (p : Str)
    (hi : plugs[i]? = some (some fi)) (hj : plugs[j]? = some (some fj)) (hij : i ≠ j)
    (hpi : hasKey fi p = true) (hpj : hasKey fj p = true)
    (hord : ord.Perm (List.range plugs.length)) :
    ∃ e, generatePlan root out mods plugs ord = .error e :=
  conflict_detected_plugins_mem root out mods plugs ord i j fi fj p hi hj hij
    (mem_of_perm_range hord (lt_of_getElem?_some hi)) (mem_of_perm_range hord (lt_of_getElem?_some hj))
    hpi hpj

/-- (b) a plugin answers with a path the core generator also produces. -/
theorem conflict_detected_core_mem (root out : Str) (mods plugs) (ord : List Nat)
    (m : ModIn) (i : Nat) (fi : Files) (p : Str)
    (hm : m ∈ mods) (hmp : modulePath root m.thriftPath = some p)
    (hi : plugs[i]? = some (some fi)) (hio : i ∈ ord) (hpi : hasKey fi p = true) :
    ∃ e, generatePlan root out mods plugs ord = .error e := by
  cases hg : generatePlan root out mods plugs ord with
  | error e => exact ⟨e, rfl⟩
  | ok ws =>
    exfalso
    obtain ⟨core, fs, hgm, hc, _, hd, _⟩ := generatePlan_ok_spec hg
    have hcore : hasKey core p = true := ((genModules_ok_spec _ _ _ _ hgm).2.2.2.1 m hm p hmp).1
    refine hd p hcore ?_
    obtain ⟨x, hx, hxp⟩ : ∃ x ∈ fi, x.1 = p := by
      simpa [hasKey] using hpi
    have hmem : x ∈ (pickOrder fs ord).flatten :=
      List.mem_flatten.2 ⟨fi, mem_pickOrder.2 ⟨i, hio, hc.get i fi hi⟩, hx⟩
    rw [← hxp]; exact hasKey_of_mem hmem

theorem conflict_detected_core (root out : Str) (mods plugs) (ord : List Nat)
    (m : ModIn) (i : Nat) (fi : Files) (p : Str)
    (hm : m ∈ mods) (hmp : modulePath root m.thriftPath = some p)
    (hi : plugs[i]? = some (some fi)) (hpi : hasKey fi p = true)
    (hord : ord.Perm (List.range plugs.length)) :
    ∃ e, generatePlan root out mods plugs ord = .error e :=
  conflict_detected_core_mem root out mods plugs ord m i fi p hm hmp hi
    (mem_of_perm_range hord (lt_of_getElem?_some hi)) hpi

/-- (c) two modules (at different positions of the walk) map to the same output file. -/
theorem conflict_detected_modules (root out : Str) (mods plugs) (ord : List Nat)
    (i j : Nat) (mi mj : ModIn) (p : Str)
    (hi : mods[i]? = some mi) (hj : mods[j]? = some mj) (hij : i ≠ j)
    (hpi : modulePath root mi.thriftPath = some p) (hpj : modulePath root mj.thriftPath = some p) :
    ∃ e, generatePlan root out mods plugs ord = .error e := by
  cases hg : generatePlan root out mods plugs ord with
  | error e => exact ⟨e, rfl⟩
  | ok ws =>
    exfalso
    obtain ⟨core, fs, hgm, _, _, _, _⟩ := generatePlan_ok_spec hg
    have hpw := (genModules_ok_spec _ _ _ _ hgm).2.2.2.2
    rw [List.pairwise_iff_getElem] at hpw
    have hli := lt_of_getElem?_some hi
    have hlj := lt_of_getElem?_some hj
    have ei : mods[i] = mi := by
      have := List.getElem?_eq_getElem hli; rw [hi] at this; exact (Option.some.inj this).symm
    have ej : mods[j] = mj := by
      have := List.getElem?_eq_getElem hlj; rw [hj] at this; exact (Option.some.inj this).symm
    rcases Nat.lt_or_gt_of_ne hij with hlt | hlt
    · exact hpw i j hli hlj hlt p (by rw [ei]; exact hpi) (by rw [ej]; exact hpj)
    · exact hpw j i hlj hli hlt p (by rw [ej]; exact hpj) (by rw [ei]; exact hpi)

/-! ### confinement of the planned writes -/

theorem plan_confined (root out : Str) (mods plugs ord) (ws : Files)
    (h : generatePlan root out mods plugs ord = .ok ws) (ho : isAbs out = true)
    (hcore : ∀ m ∈ mods, ∀ p, modulePath root m.thriftPath = some p →
      ∀ c ∈ splitSlash p, c ≠ dotdot) :
    ∀ w ∈ ws, within (clean out) w.1 = true := by
  obtain ⟨core, fs, hgm, hc, _, _, rfl⟩ := generatePlan_ok_spec h
  intro w hw
  obtain ⟨x, hx, rfl⟩ := List.mem_map.1 hw
  apply join_confined out x.1 ho
  rcases List.mem_append.1 hx with hx | hx
  · rcases (genModules_ok_spec _ _ _ _ hgm).2.1 x hx with hnil | ⟨m, hm, hmp⟩
    · exact absurd hnil (by simp)
    · exact hcore m hm x.1 hmp
  · obtain ⟨f, hf, hxf⟩ := List.mem_flatten.1 hx
    exact no_dotdot_component _ (hc.no_dotdot f (mem_of_mem_pickOrder hf) x hxf)

/-- the plugin part alone needs no hypothesis: whatever comes from a plugin is confined. -/
theorem plan_plugin_entries_confined (root out : Str) (mods plugs ord) (ws : Files)
    (h : generatePlan root out mods plugs ord = .ok ws) (ho : isAbs out = true) :
    ∀ w ∈ ws, within (clean out) w.1 = true ∨
      ∃ m ∈ mods, ∃ p, modulePath root m.thriftPath = some p ∧ w.1 = join2 out p := by
  obtain ⟨core, fs, hgm, hc, _, _, rfl⟩ := generatePlan_ok_spec h
  intro w hw
  obtain ⟨x, hx, rfl⟩ := List.mem_map.1 hw
  rcases List.mem_append.1 hx with hx | hx
  · rcases (genModules_ok_spec _ _ _ _ hgm).2.1 x hx with hnil | ⟨m, hm, hmp⟩
    · exact absurd hnil (by simp)
    · exact Or.inr ⟨m, hm, x.1, hmp, rfl⟩
  · obtain ⟨f, hf, hxf⟩ := List.mem_flatten.1 hx
    exact Or.inl (join_confined_of_contains out x.1 ho
      (hc.no_dotdot f (mem_of_mem_pickOrder hf) x hxf))

/-! ### cliPlan -/

/-- the Thrift root `main.go` hands to `gen.Generate` (`none`: it gives up before). -/
def cliRoot (cwd : Str) (thriftRoot : Option Str) (mods : List ModIn) : Option Str :=
  match thriftRoot with
  | none => findCommonAncestor (mods.map (·.thriftPath))
  | some r => if verifyAncestry (absPath cwd r) (mods.map (·.thriftPath)) then some (absPath cwd r) else none

theorem cliPlan_eq (cwd : Str) (tr : Option Str) (out : Str) (mods plugs ord) :
    cliPlan cwd tr out mods plugs ord =
      match cliRoot cwd tr mods with
      | none => .error .moduleFailed
      | some root => generatePlan root (absPath cwd out) mods plugs ord := by
  cases tr with
  | none => simp only [cliPlan, cliRoot]; split <;> simp_all
  | some r => simp only [cliPlan, cliRoot]; split <;> simp_all

theorem cliPlan_ok {cwd : Str} {tr : Option Str} {out : Str} {mods plugs ord} {ws : Files}
    (h : cliPlan cwd tr out mods plugs ord = .ok ws) :
    ∃ root, cliRoot cwd tr mods = some root ∧
      generatePlan root (absPath cwd out) mods plugs ord = .ok ws := by
  rw [cliPlan_eq] at h
  cases hr : cliRoot cwd tr mods with
  | none => simp [hr] at h
  | some root => exact ⟨root, rfl, by simpa [hr] using h⟩

theorem cli_all_or_nothing (cwd : Str) (tr : Option Str) (out : Str) (mods plugs ord) (e : PlanErr)
    (h : cliPlan cwd tr out mods plugs ord = .error e) :
    writesOf (cliPlan cwd tr out mods plugs ord) = [] := by
  rw [h]; rfl

theorem cli_writes_imply_all_ok (cwd : Str) (tr : Option Str) (out : Str) (mods plugs ord)
    (h : writesOf (cliPlan cwd tr out mods plugs ord) ≠ []) :
    ∃ root, cliRoot cwd tr mods = some root ∧
      (∀ m ∈ mods, m.result.isSome = true ∧ (modulePath root m.thriftPath).isSome = true) ∧
      (∀ p ∈ plugs, ∃ fs, p = some fs ∧ ∀ x ∈ fs, containsDotDot x.1 = false) := by
  obtain ⟨ws, hws⟩ := writesOf_ne_nil h
  obtain ⟨root, hr, hg⟩ := cliPlan_ok hws
  exact ⟨root, hr, plan_ok_imply_all_ok hg⟩

theorem isAbs_absPath (cwd p : Str) (hc : isAbs cwd = true) : isAbs (absPath cwd p) = true := by
  unfold absPath
  split
  · rename_i hp; exact isAbs_clean p hp
  · obtain ⟨t, rfl⟩ := (isAbs_iff _).1 hc
    have : isAbs ('/' :: t ++ '/' :: p) = true := rfl
    simp only [join2, ne_eq, reduceCtorEq, not_false_eq_true, if_true]
    exact isAbs_clean _ this

theorem cli_confined (cwd : Str) (tr : Option Str) (out : Str) (mods plugs ord) (ws : Files)
    (h : cliPlan cwd tr out mods plugs ord = .ok ws) (hcwd : isAbs cwd = true)
    (hcore : ∀ root, cliRoot cwd tr mods = some root → ∀ m ∈ mods, ∀ p,
      modulePath root m.thriftPath = some p → ∀ c ∈ splitSlash p, c ≠ dotdot) :
    ∀ w ∈ ws, within (clean (absPath cwd out)) w.1 = true := by
  obtain ⟨root, hr, hg⟩ := cliPlan_ok h
  exact plan_confined root _ mods plugs ord ws hg (isAbs_absPath cwd out hcwd) (hcore root hr)

/-! ### ancestry -/

theorem verifyAncestry_sound (root : Str) (fs : List Str) (h : verifyAncestry root fs = true) :
    ∀ f ∈ fs, ∃ q, rel root f = some q ∧ hasPrefix dotdot q = false := by
  induction fs with
  | nil => simp
  | cons f fs ih =>
    unfold verifyAncestry at h
    cases hr : rel root f with
    | none => simp [hr] at h
    | some q =>
      simp only [hr, Bool.and_eq_true, Bool.not_eq_true'] at h
      intro g hg
      simp only [List.mem_cons] at hg
      rcases hg with rfl | hg
      · exact ⟨q, hr, h.1⟩
      · exact ih h.2 g hg

theorem cliPlan_rejects_outside_root (cwd r out : Str) (mods plugs ord)
    (h : verifyAncestry (absPath cwd r) (mods.map (·.thriftPath)) = false) :
    cliPlan cwd (some r) out mods plugs ord = .error .moduleFailed := by
  simp [cliPlan, h]

end ThriftVerif.Proto
