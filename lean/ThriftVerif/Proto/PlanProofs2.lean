/-
M-Proto proofs, part 3 (C17): the theorems about `generatePlan` / `cliPlan`:
all-or-nothing, conflict detection (on raw keys), confinement, ancestry.
-/
import ThriftVerif.Proto.PlanProofs
import ThriftVerif.Proto.PlanProofs1

set_option linter.unusedSimpArgs false
set_option linter.unusedVariables false

namespace ThriftVerif.Proto

/-! ### all-or-nothing -/

theorem plan_all_or_nothing (root out : Str) (mods plugs ord) (e : PlanErr)
    (h : generatePlan root out mods plugs ord = .error e) :
    writesOf (generatePlan root out mods plugs ord) = [] := by
  rw [h]; rfl

theorem writesOf_ne_nil {r : Except PlanErr Files} (h : writesOf r ≠ []) : ∃ ws, r = .ok ws := by
  cases r with
  | error e => exact absurd rfl h
  | ok ws => exact ⟨ws, rfl⟩

theorem plan_ok_imply_all_ok {root out : Str} {mods plugs ord} {ws : Files}
    (h : generatePlan root out mods plugs ord = .ok ws) :
    (∀ m ∈ mods, m.result.isSome = true ∧ (modulePath root m.thriftPath).isSome = true) ∧
    (∀ p ∈ plugs, ∃ fs, p = some fs ∧ ∀ x ∈ fs, containsDotDot x.1 = false) := by
  obtain ⟨core, fs, hg, hc, _⟩ := generatePlan_ok_spec h
  exact ⟨(genModules_ok_spec _ _ _ _ hg).1, hc.all_ok⟩

theorem plan_writes_imply_all_ok (root out : Str) (mods plugs ord)
    (h : writesOf (generatePlan root out mods plugs ord) ≠ []) :
    (∀ m ∈ mods, m.result.isSome = true ∧ (modulePath root m.thriftPath).isSome = true) ∧
    (∀ p ∈ plugs, ∃ fs, p = some fs ∧ ∀ x ∈ fs, containsDotDot x.1 = false) := by
  obtain ⟨ws, hws⟩ := writesOf_ne_nil h
  exact plan_ok_imply_all_ok hws

/-! ### conflicts on raw keys are detected -/

theorem mem_pickOrder {α} {xs : List α} {ord : List Nat} {a : α} :
    a ∈ pickOrder xs ord ↔ ∃ i ∈ ord, xs[i]? = some a := by
  simp [pickOrder, List.mem_filterMap]

theorem mem_of_mem_pickOrder {α} {xs : List α} {ord : List Nat} {a : α}
    (h : a ∈ pickOrder xs ord) : a ∈ xs := by
  obtain ⟨i, _, hi⟩ := mem_pickOrder.1 h
  exact List.mem_of_getElem? hi

/-- two different indices of the completion order are related by a pairwise-symmetric relation. -/
theorem pickOrder_pairwise_two {α} (R : α → α → Prop) (hsym : ∀ a b, R a b → R b a)
    (xs : List α) (ord : List Nat) (i j : Nat) (a b : α)
    (hi : i ∈ ord) (hj : j ∈ ord) (hij : i ≠ j) (ha : xs[i]? = some a) (hb : xs[j]? = some b)
    (hpw : (pickOrder xs ord).Pairwise R) : R a b := by
  obtain ⟨s, t, rfl⟩ := List.append_of_mem hi
  have hsplit : pickOrder xs (s ++ i :: t) = pickOrder xs s ++ a :: pickOrder xs t := by
    simp [pickOrder, List.filterMap_append, List.filterMap_cons, ha]
  rw [hsplit, List.pairwise_append] at hpw
  obtain ⟨_, hcons, hcross⟩ := hpw
  simp only [List.mem_append, List.mem_cons] at hj
  rcases hj with hj | hj | hj
  · exact hsym _ _ (hcross b (mem_pickOrder.2 ⟨j, hj, hb⟩) a (by simp))
  · exact absurd hj.symm hij
  · exact (List.pairwise_cons.1 hcons).1 b (mem_pickOrder.2 ⟨j, hj, hb⟩)

theorem hasKey_normFiles {f : Files} {x : Str × Content} (hx : x ∈ f) :
    hasKey (normFiles f) (normKey x.1) = true := by
  have : (normKey x.1, x.2) ∈ normFiles f := List.mem_map.2 ⟨x, hx, rfl⟩
  exact hasKey_of_mem this

theorem Checked.getNorm {plugs fs} (h : Checked plugs fs) (i : Nat) (f : Files)
    (hi : plugs[i]? = some (some f)) : (fs.map normFiles)[i]? = some (normFiles f) := by
  simp [List.getElem?_map, h.get i f hi]

/-- (a) two plugins answer with paths that are the same file (equal `normKey`): an error for
EVERY completion order that contains both (in particular every permutation of all plugins). -/
theorem conflict_detected_plugins_mem (root out : Str) (mods plugs) (ord : List Nat)
    (i j : Nat) (fi fj : Files) (x y : Str × Content)
    (hi : plugs[i]? = some (some fi)) (hj : plugs[j]? = some (some fj)) (hij : i ≠ j)
    (hio : i ∈ ord) (hjo : j ∈ ord)
    (hx : x ∈ fi) (hy : y ∈ fj) (hxy : normKey x.1 = normKey y.1) :
    ∃ e, generatePlan root out mods plugs ord = .error e := by
  cases hg : generatePlan root out mods plugs ord with
  | error e => exact ⟨e, rfl⟩
  | ok ws =>
    exfalso
    obtain ⟨core, fs, _, hc, hpw, _⟩ := generatePlan_ok_spec hg
    exact pickOrder_pairwise_two KeyDisjoint (fun _ _ h => h.symm) _ ord i j _ _ hio hjo hij
      (hc.getNorm i fi hi) (hc.getNorm j fj hj) hpw (normKey x.1) (hasKey_normFiles hx)
      (hxy ▸ hasKey_normFiles hy)

theorem mem_of_perm_range {n i : Nat} {ord : List Nat} (h : ord.Perm (List.range n)) (hi : i < n) :
    i ∈ ord := h.mem_iff.2 (List.mem_range.2 hi)

theorem lt_of_getElem?_some {α} {l : List α} {i : Nat} {a : α} (h : l[i]? = some a) : i < l.length := by
  cases Nat.lt_or_ge i l.length with
  | inl h' => exact h'
  | inr h' => rw [List.getElem?_eq_none h'] at h; exact absurd h (by simp)

theorem conflict_detected_plugins (root out : Str) (mods plugs) (ord : List Nat)
    (i j : Nat) (fi fj : Files) (x y : Str × Content)
    (hi : plugs[i]? = some (some fi)) (hj : plugs[j]? = some (some fj)) (hij : i ≠ j)
    (hx : x ∈ fi) (hy : y ∈ fj) (hxy : normKey x.1 = normKey y.1)
    (hord : ord.Perm (List.range plugs.length)) :
    ∃ e, generatePlan root out mods plugs ord = .error e :=
  conflict_detected_plugins_mem root out mods plugs ord i j fi fj x y hi hj hij
    (mem_of_perm_range hord (lt_of_getElem?_some hi)) (mem_of_perm_range hord (lt_of_getElem?_some hj))
    hx hy hxy

theorem getElem_of_getElem? {α} {l : List α} {i : Nat} {a : α} (h : l[i]? = some a) :
    ∃ hi : i < l.length, l[i] = a := by
  have hi := lt_of_getElem?_some h
  have := List.getElem?_eq_getElem hi
  rw [h] at this
  exact ⟨hi, (Option.some.inj this).symm⟩

/-- (a') one plugin answers with two entries (at different positions) that are the same file. -/
theorem conflict_detected_plugin_self_mem (root out : Str) (mods plugs) (ord : List Nat)
    (i : Nat) (fi : Files) (a b : Nat) (x y : Str × Content)
    (hi : plugs[i]? = some (some fi)) (hio : i ∈ ord)
    (hx : fi[a]? = some x) (hy : fi[b]? = some y) (hab : a ≠ b)
    (hxy : normKey x.1 = normKey y.1) :
    ∃ e, generatePlan root out mods plugs ord = .error e := by
  cases hg : generatePlan root out mods plugs ord with
  | error e => exact ⟨e, rfl⟩
  | ok ws =>
    exfalso
    obtain ⟨core, fs, _, hc, _, hnod, _⟩ := generatePlan_ok_spec hg
    have hn := hnod (normFiles fi) (mem_pickOrder.2 ⟨i, hio, hc.getNorm i fi hi⟩)
    have hn' : (fi.map (fun x => normKey x.1)).Pairwise (· ≠ ·) := by
      have : keys (normFiles fi) = fi.map (fun x => normKey x.1) := keys_normFiles fi
      rw [this] at hn; exact hn
    rw [List.pairwise_map, List.pairwise_iff_getElem] at hn'
    obtain ⟨ha, ea⟩ := getElem_of_getElem? hx
    obtain ⟨hb, eb⟩ := getElem_of_getElem? hy
    rcases Nat.lt_or_gt_of_ne hab with hlt | hlt
    · exact hn' a b ha hb hlt (by rw [ea, eb]; exact hxy)
    · exact hn' b a hb ha hlt (by rw [ea, eb]; exact hxy.symm)

theorem conflict_detected_plugin_self (root out : Str) (mods plugs) (ord : List Nat)
    (i : Nat) (fi : Files) (a b : Nat) (x y : Str × Content)
    (hi : plugs[i]? = some (some fi))
    (hx : fi[a]? = some x) (hy : fi[b]? = some y) (hab : a ≠ b)
    (hxy : normKey x.1 = normKey y.1) (hord : ord.Perm (List.range plugs.length)) :
    ∃ e, generatePlan root out mods plugs ord = .error e :=
  conflict_detected_plugin_self_mem root out mods plugs ord i fi a b x y hi
    (mem_of_perm_range hord (lt_of_getElem?_some hi)) hx hy hab hxy

/-- (b) a plugin answers with a path that is the same file as one of the core generator. -/
theorem conflict_detected_core_mem (root out : Str) (mods plugs) (ord : List Nat)
    (m : ModIn) (i : Nat) (fi : Files) (p : Str) (x : Str × Content)
    (hm : m ∈ mods) (hmp : modulePath root m.thriftPath = some p)
    (hi : plugs[i]? = some (some fi)) (hio : i ∈ ord) (hx : x ∈ fi)
    (hxp : normKey x.1 = normKey p) :
    ∃ e, generatePlan root out mods plugs ord = .error e := by
  cases hg : generatePlan root out mods plugs ord with
  | error e => exact ⟨e, rfl⟩
  | ok ws =>
    exfalso
    obtain ⟨core, fs, hgm, hc, _, _, hd, _⟩ := generatePlan_ok_spec hg
    have hcore : hasKey core (normKey p) = true :=
      ((genModules_ok_spec _ _ _ _ hgm).2.2.2.1 m hm _ ⟨p, hmp, rfl⟩).1
    refine hd (normKey p) hcore ?_
    have hmem : (normKey x.1, x.2) ∈ (pickOrder (fs.map normFiles) ord).flatten :=
      List.mem_flatten.2 ⟨normFiles fi, mem_pickOrder.2 ⟨i, hio, hc.getNorm i fi hi⟩,
        List.mem_map.2 ⟨x, hx, rfl⟩⟩
    rw [← hxp]; exact hasKey_of_mem hmem

theorem conflict_detected_core (root out : Str) (mods plugs) (ord : List Nat)
    (m : ModIn) (i : Nat) (fi : Files) (p : Str) (x : Str × Content)
    (hm : m ∈ mods) (hmp : modulePath root m.thriftPath = some p)
    (hi : plugs[i]? = some (some fi)) (hx : x ∈ fi) (hxp : normKey x.1 = normKey p)
    (hord : ord.Perm (List.range plugs.length)) :
    ∃ e, generatePlan root out mods plugs ord = .error e :=
  conflict_detected_core_mem root out mods plugs ord m i fi p x hm hmp hi
    (mem_of_perm_range hord (lt_of_getElem?_some hi)) hx hxp

/-- (c) two modules (at different positions of the walk) map to the same output file. -/
theorem conflict_detected_modules (root out : Str) (mods plugs) (ord : List Nat)
    (i j : Nat) (mi mj : ModIn) (pi pj : Str)
    (hi : mods[i]? = some mi) (hj : mods[j]? = some mj) (hij : i ≠ j)
    (hpi : modulePath root mi.thriftPath = some pi) (hpj : modulePath root mj.thriftPath = some pj)
    (hpp : normKey pi = normKey pj) :
    ∃ e, generatePlan root out mods plugs ord = .error e := by
  cases hg : generatePlan root out mods plugs ord with
  | error e => exact ⟨e, rfl⟩
  | ok ws =>
    exfalso
    obtain ⟨core, fs, hgm, _⟩ := generatePlan_ok_spec hg
    have hpw := (genModules_ok_spec _ _ _ _ hgm).2.2.2.2.1
    rw [List.pairwise_iff_getElem] at hpw
    obtain ⟨hli, ei⟩ := getElem_of_getElem? hi
    obtain ⟨hlj, ej⟩ := getElem_of_getElem? hj
    rcases Nat.lt_or_gt_of_ne hij with hlt | hlt
    · exact hpw i j hli hlj hlt (normKey pi) (by rw [ei]; exact ⟨pi, hpi, rfl⟩)
        (by rw [ej]; exact ⟨pj, hpj, hpp.symm⟩)
    · exact hpw j i hlj hli hlt (normKey pi) (by rw [ej]; exact ⟨pj, hpj, hpp.symm⟩)
        (by rw [ei]; exact ⟨pi, hpi, rfl⟩)

/-! ### what is in a successful plan -/

/-- every planned write is `Join(out, normKey p)` for a raw path `p` that is the path of a
module or a checked (".."-free) path of a plugin answer. -/
theorem plan_entries (root out : Str) (mods plugs ord) (ws : Files)
    (h : generatePlan root out mods plugs ord = .ok ws) :
    ∀ w ∈ ws, ∃ p, w.1 = join2 out (normKey p) ∧
      ((∃ m ∈ mods, modulePath root m.thriftPath = some p) ∨
       (∃ f, some f ∈ plugs ∧ (∃ x ∈ f, x.1 = p ∧ x.2 = w.2) ∧ containsDotDot p = false)) := by
  obtain ⟨core, fs, hgm, hc, _, _, _, _, rfl⟩ := generatePlan_ok_spec h
  intro w hw
  obtain ⟨x, hx, rfl⟩ := List.mem_map.1 hw
  rcases List.mem_append.1 hx with hx | hx
  · rcases (genModules_ok_spec _ _ _ _ hgm).2.1 x hx with hnil | ⟨m, hm, p, hmp, hk⟩
    · exact absurd hnil (by simp)
    · exact ⟨p, by simp [hk], Or.inl ⟨m, hm, hmp⟩⟩
  · obtain ⟨nf, hnf, hxf⟩ := List.mem_flatten.1 hx
    obtain ⟨f, hf, rfl⟩ := List.mem_map.1 (mem_of_mem_pickOrder hnf)
    obtain ⟨y, hy, rfl⟩ := List.mem_map.1 hxf
    have hfp : some f ∈ plugs := by
      have : (Except.ok f : Except PlanErr Files) ∈ plugs.map checkPlugin := hc ▸ List.mem_map_of_mem hf
      obtain ⟨q, hq, hqf⟩ := List.mem_map.1 this
      rw [(checkPlugin_ok hqf).1] at hq; exact hq
    exact ⟨y.1, rfl, Or.inr ⟨f, hfp, ⟨y, hy, rfl, rfl⟩, hc.no_dotdot f hf y hy⟩⟩

/-! ### confinement of the planned writes -/

/-- every planned write is inside the (absolute) output directory — no side condition. -/
theorem plan_confined (root out : Str) (mods plugs ord) (ws : Files)
    (h : generatePlan root out mods plugs ord = .ok ws) (ho : isAbs out = true) :
    ∀ w ∈ ws, within (clean out) w.1 = true := by
  intro w hw
  obtain ⟨p, hp, _⟩ := plan_entries root out mods plugs ord ws h w hw
  rw [hp]; exact join2_normKey_confined out p ho

/-- normalising the keys does not move any file: for an absolute Thrift root every planned
write is at `Join(out, p)` for the RAW path `p` (of a module, or of a plugin answer), and that
raw path has no ".." component. -/
theorem plan_writes_at_raw_join (root out : Str) (mods plugs ord) (ws : Files)
    (h : generatePlan root out mods plugs ord = .ok ws) (ho : isAbs out = true)
    (hr : isAbs root = true) :
    ∀ w ∈ ws, ∃ p, w.1 = join2 out p ∧ (∀ c ∈ splitSlash p, c ≠ dotdot) ∧
      ((∃ m ∈ mods, modulePath root m.thriftPath = some p) ∨
       (∃ f, some f ∈ plugs ∧ ∃ x ∈ f, x.1 = p ∧ x.2 = w.2)) := by
  intro w hw
  obtain ⟨p, hp, hsrc⟩ := plan_entries root out mods plugs ord ws h w hw
  have hnd : ∀ c ∈ splitSlash p, c ≠ dotdot := by
    rcases hsrc with ⟨m, _, hmp⟩ | ⟨f, _, _, hcd⟩
    · exact modulePath_abs_no_dotdot root _ p hr hmp
    · exact no_dotdot_component p hcd
  refine ⟨p, by rw [hp, join2_normKey_of_no_dotdot out p ho hnd], hnd, ?_⟩
  rcases hsrc with h1 | ⟨f, hf, hx, _⟩
  · exact Or.inl h1
  · exact Or.inr ⟨f, hf, hx⟩

/-- **C17** no file is planned twice (the positive form of the repaired D42). -/
theorem plan_writes_distinct (root out : Str) (mods plugs ord) (ws : Files)
    (h : generatePlan root out mods plugs ord = .ok ws) (ho : isAbs out = true) :
    (ws.map (·.1)).Nodup := by
  obtain ⟨core, fs, hgm, hc, _, _, _, hnod, rfl⟩ := generatePlan_ok_spec h
  -- every key of the plan is a normalised key
  have hnorm : ∀ x ∈ core ++ (pickOrder (fs.map normFiles) ord).flatten, ∃ p, x.1 = normKey p := by
    intro x hx
    rcases List.mem_append.1 hx with hx | hx
    · rcases (genModules_ok_spec _ _ _ _ hgm).2.1 x hx with hnil | ⟨m, hm, p, hmp, hk⟩
      · exact absurd hnil (by simp)
      · exact ⟨p, hk.symm⟩
    · obtain ⟨nf, hnf, hxf⟩ := List.mem_flatten.1 hx
      obtain ⟨f, hf, rfl⟩ := List.mem_map.1 (mem_of_mem_pickOrder hnf)
      obtain ⟨y, hy, rfl⟩ := List.mem_map.1 hxf
      exact ⟨y.1, rfl⟩
  simp only [List.map_map]
  unfold keys at hnod
  rw [List.Nodup, List.pairwise_map] at hnod ⊢
  refine List.Pairwise.imp_of_mem (fun {a b} ha hb hab => ?_) hnod
  obtain ⟨p, hp⟩ := hnorm a ha
  obtain ⟨q, hq⟩ := hnorm b hb
  intro he
  simp only [Function.comp] at he
  rw [hp, hq] at he hab
  exact hab (join2_normKey_inj out p q ho he)

/-! ### cliPlan -/

/-- the Thrift root `main.go` hands to `gen.Generate` (`none`: it gives up before). -/
def cliRoot (cwd : Str) (thriftRoot : Option Str) (mods : List ModIn) : Option Str :=
  match thriftRoot with
  | none => findCommonAncestor (mods.map (·.thriftPath))
  | some r => if verifyAncestry (absPath cwd r) (mods.map (·.thriftPath)) then some (absPath cwd r) else none

theorem cliPlan_eq (cwd : Str) (tr : Option Str) (out : Str) (mods plugs ord) :
    cliPlan cwd tr out mods plugs ord =
      match cliRoot cwd tr mods with
      | none => .error .moduleFailed
      | some root => generatePlan root (absPath cwd out) mods plugs ord := by
  cases tr with
  | none => simp only [cliPlan, cliRoot]; split <;> simp_all
  | some r => simp only [cliPlan, cliRoot]; split <;> simp_all

theorem cliPlan_ok {cwd : Str} {tr : Option Str} {out : Str} {mods plugs ord} {ws : Files}
    (h : cliPlan cwd tr out mods plugs ord = .ok ws) :
    ∃ root, cliRoot cwd tr mods = some root ∧
      generatePlan root (absPath cwd out) mods plugs ord = .ok ws := by
  rw [cliPlan_eq] at h
  cases hr : cliRoot cwd tr mods with
  | none => simp [hr] at h
  | some root => exact ⟨root, rfl, by simpa [hr] using h⟩

theorem cli_all_or_nothing (cwd : Str) (tr : Option Str) (out : Str) (mods plugs ord) (e : PlanErr)
    (h : cliPlan cwd tr out mods plugs ord = .error e) :
    writesOf (cliPlan cwd tr out mods plugs ord) = [] := by
  rw [h]; rfl

theorem cli_writes_imply_all_ok (cwd : Str) (tr : Option Str) (out : Str) (mods plugs ord)
    (h : writesOf (cliPlan cwd tr out mods plugs ord) ≠ []) :
    ∃ root, cliRoot cwd tr mods = some root ∧
      (∀ m ∈ mods, m.result.isSome = true ∧ (modulePath root m.thriftPath).isSome = true) ∧
      (∀ p ∈ plugs, ∃ fs, p = some fs ∧ ∀ x ∈ fs, containsDotDot x.1 = false) := by
  obtain ⟨ws, hws⟩ := writesOf_ne_nil h
  obtain ⟨root, hr, hg⟩ := cliPlan_ok hws
  exact ⟨root, hr, plan_ok_imply_all_ok hg⟩

theorem isAbs_absPath (cwd p : Str) (hc : isAbs cwd = true) : isAbs (absPath cwd p) = true := by
  unfold absPath
  split
  · rename_i hp; exact isAbs_clean p hp
  · obtain ⟨t, rfl⟩ := (isAbs_iff _).1 hc
    have : isAbs ('/' :: t ++ '/' :: p) = true := rfl
    simp only [join2, ne_eq, reduceCtorEq, not_false_eq_true, if_true]
    exact isAbs_clean _ this

/-- the command line needs nothing but an absolute working directory. -/
theorem cli_confined (cwd : Str) (tr : Option Str) (out : Str) (mods plugs ord) (ws : Files)
    (h : cliPlan cwd tr out mods plugs ord = .ok ws) (hcwd : isAbs cwd = true) :
    ∀ w ∈ ws, within (clean (absPath cwd out)) w.1 = true := by
  obtain ⟨root, hr, hg⟩ := cliPlan_ok h
  exact plan_confined root _ mods plugs ord ws hg (isAbs_absPath cwd out hcwd)

theorem cli_writes_distinct (cwd : Str) (tr : Option Str) (out : Str) (mods plugs ord) (ws : Files)
    (h : cliPlan cwd tr out mods plugs ord = .ok ws) (hcwd : isAbs cwd = true) :
    (ws.map (·.1)).Nodup := by
  obtain ⟨root, hr, hg⟩ := cliPlan_ok h
  exact plan_writes_distinct root _ mods plugs ord ws hg (isAbs_absPath cwd out hcwd)

/-- the Thrift root of the command line is absolute as soon as there is a module. -/
theorem cliRoot_isAbs (cwd : Str) (tr : Option Str) (mods : List ModIn) (root : Str)
    (hcwd : isAbs cwd = true) (hm : mods ≠ []) (h : cliRoot cwd tr mods = some root) :
    isAbs root = true := by
  cases tr with
  | none =>
    simp only [cliRoot] at h
    exact findCommonAncestor_isAbs _ root (by simpa using hm) h
  | some r =>
    simp only [cliRoot] at h
    split at h
    · simp only [Option.some.injEq] at h; subst h; exact isAbs_absPath cwd r hcwd
    · exact absurd h (by simp)

/-- on the command line every planned write is at `Join(out, p)` for a raw module or plugin
path `p` without ".." component. -/
theorem cli_writes_at_raw_join (cwd : Str) (tr : Option Str) (out : Str) (mods plugs ord) (ws : Files)
    (h : cliPlan cwd tr out mods plugs ord = .ok ws) (hcwd : isAbs cwd = true) :
    ∀ w ∈ ws, ∃ p, w.1 = join2 (absPath cwd out) p ∧ (∀ c ∈ splitSlash p, c ≠ dotdot) := by
  obtain ⟨root, hr, hg⟩ := cliPlan_ok h
  intro w hw
  by_cases hm : mods = []
  · obtain ⟨p, hp, hsrc⟩ := plan_entries root _ mods plugs ord ws hg w hw
    rcases hsrc with ⟨m, hmm, _⟩ | ⟨f, _, _, hcd⟩
    · subst hm; simp at hmm
    · have hnd := no_dotdot_component p hcd
      exact ⟨p, by rw [hp, join2_normKey_of_no_dotdot _ p (isAbs_absPath cwd out hcwd) hnd], hnd⟩
  · obtain ⟨p, hp, hnd, _⟩ := plan_writes_at_raw_join root _ mods plugs ord ws hg
      (isAbs_absPath cwd out hcwd) (cliRoot_isAbs cwd tr mods root hcwd hm hr) w hw
    exact ⟨p, hp, hnd⟩

/-! ### ancestry -/

theorem verifyAncestry_sound (root : Str) (fs : List Str) (h : verifyAncestry root fs = true) :
    ∀ f ∈ fs, ∃ q, rel root f = some q ∧ hasPrefix dotdot q = false := by
  induction fs with
  | nil => simp
  | cons f fs ih =>
    unfold verifyAncestry at h
    cases hr : rel root f with
    | none => simp [hr] at h
    | some q =>
      simp only [hr, Bool.and_eq_true, Bool.not_eq_true'] at h
      intro g hg
      simp only [List.mem_cons] at hg
      rcases hg with rfl | hg
      · exact ⟨q, hr, h.1⟩
      · exact ih h.2 g hg

theorem cliPlan_rejects_outside_root (cwd r out : Str) (mods plugs ord)
    (h : verifyAncestry (absPath cwd r) (mods.map (·.thriftPath)) = false) :
    cliPlan cwd (some r) out mods plugs ord = .error .moduleFailed := by
  simp [cliPlan, h]

end ThriftVerif.Proto
