/-
M-Proto proofs, C18 part 1: pool ownership. An invariant of the interleaving semantics of
`Conc.lean` (`PInv`), shown for the initial state, preserved by every move, hence true in
every reachable state; exclusive ownership and isolation are read off it.
-/
import ThriftVerif.Proto.Conc

set_option linter.unusedSimpArgs false

namespace ThriftVerif.Proto.Conc

@[simp] theorem upd_same {α} (f : Nat → α) (i : Nat) (v : α) : upd f i v i = v := by simp [upd]
theorem upd_other {α} (f : Nat → α) (i : Nat) (v : α) (j : Nat) (h : j ≠ i) :
    upd f i v j = f j := by simp [upd, h]

/-- progress of one well-formed operation with input `xs`, relative to the shared heap:
not started / holding an object that contains exactly the inputs consumed so far /
result taken / object cleaned / object returned. -/
inductive TInv (xs : List Nat) (heap : Nat → List Nat) (t : Thread) : Prop where
  | start (h1 : t.todo = prog true xs) (h2 : t.held = none) (h3 : t.result = none)
  | busy (o : Nat) (pre post : List Nat) (hx : xs = pre ++ post)
      (h1 : t.todo = post.map .use ++ [.finish, .reset, .put]) (h2 : t.held = some o)
      (hh : heap o = pre) (h3 : t.result = none)
  | finished (o : Nat) (h1 : t.todo = [.reset, .put]) (h2 : t.held = some o)
      (h3 : t.result = some xs)
  | clean (o : Nat) (h1 : t.todo = [.put]) (h2 : t.held = some o) (hh : heap o = [])
      (h3 : t.result = some xs)
  | done (h1 : t.todo = []) (h2 : t.held = none) (h3 : t.result = some xs)

/-- the per-thread invariant only looks at the held object. -/
theorem TInv.frame {xs heap heap' t} (h : TInv xs heap t)
    (hf : ∀ o, t.held = some o → heap' o = heap o) : TInv xs heap' t := by
  cases h with
  | start h1 h2 h3 => exact .start h1 h2 h3
  | busy o pre post hx h1 h2 hh h3 => exact .busy o pre post hx h1 h2 (by rw [hf o h2, hh]) h3
  | finished o h1 h2 h3 => exact .finished o h1 h2 h3
  | clean o h1 h2 hh h3 => exact .clean o h1 h2 (by rw [hf o h2, hh]) h3
  | done h1 h2 h3 => exact .done h1 h2 h3

theorem TInv.result_cases {xs heap t} (h : TInv xs heap t) :
    t.result = none ∨ t.result = some xs := by
  cases h <;> simp [*]

theorem TInv.result_done {xs heap t} (h : TInv xs heap t) (hd : t.todo = []) :
    t.result = some xs := by
  cases h with
  | start h1 _ _ => rw [h1] at hd; simp [prog] at hd
  | busy _ _ _ _ h1 _ _ _ => rw [h1] at hd; simp at hd
  | finished _ h1 _ _ => rw [h1] at hd; simp at hd
  | clean _ h1 _ _ _ => rw [h1] at hd; simp at hd
  | done _ _ h3 => exact h3

/-- The pool invariant (all operations well-formed). -/
structure PInv (inputs : Nat → List Nat) (K : Nat) (s : PoolState) : Prop where
  /-- no object is held by two threads -/
  excl : ∀ i j o, (s.th i).held = some o → (s.th j).held = some o → i = j
  /-- a held object is not in the pool -/
  notPooled : ∀ i o, (s.th i).held = some o → s.inPool o = false
  /-- every pooled object is clean -/
  pooledClean : ∀ o, s.inPool o = true → s.heap o = []
  /-- ids in use (held or pooled) have been allocated -/
  heldFresh : ∀ i o, (s.th i).held = some o → o < s.fresh
  pooledFresh : ∀ o, s.inPool o = true → o < s.fresh
  /-- every operation is at a consistent point of its program -/
  thr : ∀ i, i < K → TInv (inputs i) s.heap (s.th i)
  /-- the other threads never do anything -/
  idle : ∀ i, K ≤ i → (s.th i).todo = [] ∧ (s.th i).held = none ∧ (s.th i).result = none

theorem pinv_init (inputs : Nat → List Nat) (K : Nat) :
    PInv inputs K (pinit (fun _ => true) inputs K) := by
  refine ⟨?_, ?_, ?_, ?_, ?_, ?_, ?_⟩
  · intro i j o h; simp only [pinit] at h; split at h <;> simp at h
  · intro i o h; simp only [pinit] at h; split at h <;> simp at h
  · intro o h; simp [pinit] at h
  · intro i o h; simp only [pinit] at h; split at h <;> simp at h
  · intro o h; simp [pinit] at h
  · intro i hi; simp only [pinit, hi, if_true]; exact .start rfl rfl rfl
  · intro i hi
    have : ¬ i < K := by omega
    simp [pinit, this]

/-! ### the moves, one rewriting lemma per instruction -/

theorem pstep_nil {s : PoolState} {t pick : Nat} (h : (s.th t).todo = []) :
    pstep s t pick = s := by simp [pstep, h]

theorem pstep_get_pool {s : PoolState} {t pick : Nat} {rest}
    (h : (s.th t).todo = .get :: rest) (hp : s.inPool pick = true) :
    pstep s t pick =
    { s with inPool := upd s.inPool pick false,
             th := upd s.th t { s.th t with todo := rest, held := some pick } } := by
  simp [pstep, h, hp]

theorem pstep_get_new {s : PoolState} {t pick : Nat} {rest}
    (h : (s.th t).todo = .get :: rest) (hp : s.inPool pick = false) :
    pstep s t pick =
    { s with heap := upd s.heap s.fresh [], fresh := s.fresh + 1,
             th := upd s.th t { s.th t with todo := rest, held := some s.fresh } } := by
  simp [pstep, h, hp]

theorem pstep_use {s : PoolState} {t pick x o : Nat} {rest}
    (h : (s.th t).todo = .use x :: rest) (ho : (s.th t).held = some o) :
    pstep s t pick =
    { s with heap := upd s.heap o (s.heap o ++ [x]),
             th := upd s.th t { s.th t with todo := rest } } := by
  simp [pstep, h, ho]

theorem pstep_finish {s : PoolState} {t pick o : Nat} {rest}
    (h : (s.th t).todo = .finish :: rest) (ho : (s.th t).held = some o) :
    pstep s t pick =
    { s with
             th := upd s.th t { s.th t with todo := rest, result := some (s.heap o) } } := by
  simp [pstep, h, ho]

theorem pstep_reset {s : PoolState} {t pick o : Nat} {rest}
    (h : (s.th t).todo = .reset :: rest) (ho : (s.th t).held = some o) :
    pstep s t pick =
    { s with heap := upd s.heap o [],
             th := upd s.th t { s.th t with todo := rest } } := by
  simp [pstep, h, ho]

theorem pstep_put {s : PoolState} {t pick o : Nat} {rest}
    (h : (s.th t).todo = .put :: rest) (ho : (s.th t).held = some o) :
    pstep s t pick =
    { s with inPool := upd s.inPool o true,
             th := upd s.th t { s.th t with todo := rest, held := none } } := by
  simp [pstep, h, ho]

/-! ### preservation, one lemma per instruction -/

theorem pinv_get_pool {inputs K s} (h : PInv inputs K s) {t pick : Nat} (hK : t < K)
    (h2 : (s.th t).held = none) (h3 : (s.th t).result = none) (hp : s.inPool pick = true) :
    PInv inputs K { s with inPool := upd s.inPool pick false,
                           th := upd s.th t { s.th t with
                             todo := (inputs t).map .use ++ [.finish, .reset, .put],
                             held := some pick } } := by
  obtain ⟨e, np, pc, hf, pf, th, idl⟩ := h
  refine ⟨?_, ?_, ?_, ?_, ?_, ?_, ?_⟩
  · intro i j o; simp only [upd]; grind
  · intro i o; simp only [upd]; grind
  · intro o; simp only [upd]; grind
  · intro i o; simp only [upd]; grind
  · intro o; simp only [upd]; grind
  · intro i hi
    by_cases hit : i = t
    · subst hit
      simp only [upd_same]
      exact .busy pick [] (inputs i) (by simp) rfl rfl (pc pick hp) h3
    · simp only [upd_other _ _ _ _ hit]; exact th i hi
  · intro i hi
    have hit : i ≠ t := by omega
    simp only [upd_other _ _ _ _ hit]; exact idl i hi

theorem pinv_get_new {inputs K s} (h : PInv inputs K s) {t : Nat} (hK : t < K)
    (h2 : (s.th t).held = none) (h3 : (s.th t).result = none) :
    PInv inputs K { s with heap := upd s.heap s.fresh [], fresh := s.fresh + 1,
                           th := upd s.th t { s.th t with
                             todo := (inputs t).map .use ++ [.finish, .reset, .put],
                             held := some s.fresh } } := by
  obtain ⟨e, np, pc, hf, pf, th, idl⟩ := h
  refine ⟨?_, ?_, ?_, ?_, ?_, ?_, ?_⟩
  · intro i j o; simp only [upd]; grind
  · intro i o; simp only [upd]; grind
  · intro o; simp only [upd]; grind
  · intro i o; simp only [upd]; grind
  · intro o; simp only [upd]; grind
  · intro i hi
    by_cases hit : i = t
    · subst hit
      simp only [upd_same]
      exact .busy s.fresh [] (inputs i) (by simp) rfl rfl (by simp) h3
    · simp only [upd_other _ _ _ _ hit]
      refine (th i hi).frame ?_
      intro o ho
      have := hf i o ho
      exact upd_other _ _ _ _ (by omega)
  · intro i hi
    have hit : i ≠ t := by omega
    simp only [upd_other _ _ _ _ hit]; exact idl i hi

theorem pinv_use {inputs K s} (h : PInv inputs K s) {t o x : Nat} {pre post : List Nat} (hK : t < K)
    (hx : inputs t = pre ++ x :: post) (h2 : (s.th t).held = some o) (hh : s.heap o = pre)
    (h3 : (s.th t).result = none) :
    PInv inputs K { s with heap := upd s.heap o (s.heap o ++ [x]),
                           th := upd s.th t { s.th t with
                             todo := post.map .use ++ [.finish, .reset, .put] } } := by
  obtain ⟨e, np, pc, hf, pf, th, idl⟩ := h
  refine ⟨?_, ?_, ?_, ?_, ?_, ?_, ?_⟩
  · intro i j o; simp only [upd]; grind
  · intro i o; simp only [upd]; grind
  · intro o; simp only [upd]; grind
  · intro i o; simp only [upd]; grind
  · intro o; simp only [upd]; grind
  · intro i hi
    by_cases hit : i = t
    · subst hit
      simp only [upd_same]
      exact .busy o (pre ++ [x]) post (by simp [hx]) rfl h2 (by simp [hh]) h3
    · simp only [upd_other _ _ _ _ hit]
      refine (th i hi).frame ?_
      intro o' ho
      have : o' ≠ o := fun hc => hit (e i t o (hc ▸ ho) h2)
      exact upd_other _ _ _ _ this
  · intro i hi
    have hit : i ≠ t := by omega
    simp only [upd_other _ _ _ _ hit]; exact idl i hi

theorem pinv_finish {inputs K s} (h : PInv inputs K s) {t o : Nat} (hK : t < K)
    (h2 : (s.th t).held = some o) (hh : s.heap o = inputs t) :
    PInv inputs K { s with th := upd s.th t { s.th t with
                             todo := [.reset, .put], result := some (s.heap o) } } := by
  obtain ⟨e, np, pc, hf, pf, th, idl⟩ := h
  refine ⟨?_, ?_, ?_, ?_, ?_, ?_, ?_⟩
  · intro i j o; simp only [upd]; grind
  · intro i o; simp only [upd]; grind
  · intro o; simp only [upd]; grind
  · intro i o; simp only [upd]; grind
  · intro o; simp only [upd]; grind
  · intro i hi
    by_cases hit : i = t
    · subst hit
      simp only [upd_same]
      exact .finished o rfl h2 (by simp [hh])
    · simp only [upd_other _ _ _ _ hit]; exact th i hi
  · intro i hi
    have hit : i ≠ t := by omega
    simp only [upd_other _ _ _ _ hit]; exact idl i hi

theorem pinv_reset {inputs K s} (h : PInv inputs K s) {t o : Nat} (hK : t < K)
    (h2 : (s.th t).held = some o) (h3 : (s.th t).result = some (inputs t)) :
    PInv inputs K { s with heap := upd s.heap o [],
                           th := upd s.th t { s.th t with todo := [.put] } } := by
  obtain ⟨e, np, pc, hf, pf, th, idl⟩ := h
  refine ⟨?_, ?_, ?_, ?_, ?_, ?_, ?_⟩
  · intro i j o; simp only [upd]; grind
  · intro i o; simp only [upd]; grind
  · intro o; simp only [upd]; grind
  · intro i o; simp only [upd]; grind
  · intro o; simp only [upd]; grind
  · intro i hi
    by_cases hit : i = t
    · subst hit
      simp only [upd_same]
      exact .clean o rfl h2 (by simp) h3
    · simp only [upd_other _ _ _ _ hit]
      refine (th i hi).frame ?_
      intro o' ho
      have : o' ≠ o := fun hc => hit (e i t o (hc ▸ ho) h2)
      exact upd_other _ _ _ _ this
  · intro i hi
    have hit : i ≠ t := by omega
    simp only [upd_other _ _ _ _ hit]; exact idl i hi

theorem pinv_put {inputs K s} (h : PInv inputs K s) {t o : Nat} (hK : t < K)
    (h2 : (s.th t).held = some o) (hh : s.heap o = [])
    (h3 : (s.th t).result = some (inputs t)) :
    PInv inputs K { s with inPool := upd s.inPool o true,
                           th := upd s.th t { s.th t with todo := [], held := none } } := by
  obtain ⟨e, np, pc, hf, pf, th, idl⟩ := h
  refine ⟨?_, ?_, ?_, ?_, ?_, ?_, ?_⟩
  · intro i j o; simp only [upd]; grind
  · intro i o; simp only [upd]; grind
  · intro o; simp only [upd]; grind
  · intro i o; simp only [upd]; grind
  · intro o; simp only [upd]; grind
  · intro i hi
    by_cases hit : i = t
    · subst hit
      simp only [upd_same]
      exact .done rfl rfl h3
    · simp only [upd_other _ _ _ _ hit]; exact th i hi
  · intro i hi
    have hit : i ≠ t := by omega
    simp only [upd_other _ _ _ _ hit]; exact idl i hi

/-- every move preserves the invariant. -/
theorem pinv_step {inputs K s} (h : PInv inputs K s) (t pick : Nat) :
    PInv inputs K (pstep s t pick) := by
  by_cases hK : t < K
  case neg => rw [pstep_nil (h.idle t (by omega)).1]; exact h
  cases h.thr t hK with
  | start h1 h2 h3 =>
    have h1' : (s.th t).todo = .get :: ((inputs t).map .use ++ [.finish, .reset, .put]) := by
      simp [h1, prog]
    cases hp : s.inPool pick with
    | true => rw [pstep_get_pool h1' hp]; exact pinv_get_pool h hK h2 h3 hp
    | false => rw [pstep_get_new h1' hp]; exact pinv_get_new h hK h2 h3
  | busy o pre post hx h1 h2 hh h3 =>
    cases post with
    | nil =>
      have h1' : (s.th t).todo = .finish :: [.reset, .put] := by simp [h1]
      rw [pstep_finish h1' h2]; exact pinv_finish h hK h2 (by simp [hx, hh])
    | cons x post =>
      have h1' : (s.th t).todo = .use x :: (post.map .use ++ [.finish, .reset, .put]) := by
        simp [h1]
      rw [pstep_use h1' h2]; exact pinv_use h hK hx h2 hh h3
  | finished o h1 h2 h3 => rw [pstep_reset h1 h2]; exact pinv_reset h hK h2 h3
  | clean o h1 h2 hh h3 => rw [pstep_put h1 h2]; exact pinv_put h hK h2 hh h3
  | done h1 h2 h3 => rw [pstep_nil h1]; exact h

/-- the invariant holds in every reachable state. -/
theorem pinv_run {inputs K} (sched : List (Nat × Nat)) : ∀ s, PInv inputs K s →
    PInv inputs K (prun s sched) := by
  induction sched with
  | nil => intro s h; exact h
  | cons a r ih => intro s h; obtain ⟨t, pick⟩ := a; exact ih _ (pinv_step h t pick)

theorem pinv_reachable (inputs : Nat → List Nat) (K : Nat) (sched : List (Nat × Nat)) :
    PInv inputs K (prun (pinit (fun _ => true) inputs K) sched) :=
  pinv_run sched _ (pinv_init inputs K)

end ThriftVerif.Proto.Conc
