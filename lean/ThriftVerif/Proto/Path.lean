/-
M-Proto, part 2: lexical POSIX path functions, as far as main.go and
gen/generate.go use them: `filepath.Clean`, `Join`, `Rel`, `IsAbs`, `Dir`, `Base`,
`strings.Split/Join/TrimSuffix/HasPrefix/Contains`.

Paths are `List Char` (`Str`); '/' is the only separator; no volume names.
`clean` is written over *components* (the stack discipline of Go's `lazybuf`
loop): split on '/', drop empty and "." components, let ".." pop the last
non-".." component, drop ".." at the root of a rooted path, keep it otherwise.
The correspondence harness runs these against `path/filepath` on random paths.

Core-only.
-/
namespace ThriftVerif.Proto

abbrev Str := List Char

def dotdot : Str := ['.', '.']
def dot : Str := ['.']

/-- `strings.Split(s, "/")`: always at least one element. -/
def splitSlash : Str → List Str
  | [] => [[]]
  | c :: cs =>
    if c = '/' then [] :: splitSlash cs
    else
      match splitSlash cs with
      | h :: t => (c :: h) :: t
      | [] => [[c]]

/-- `strings.Join(xs, "/")`. -/
def joinSlash : List Str → Str
  | [] => []
  | [x] => x
  | x :: y :: r => x ++ '/' :: joinSlash (y :: r)

/-- the components `Clean` looks at: non-empty and not ".". -/
def comps (s : Str) : List Str := (splitSlash s).filter fun c => !(c == [] || c == dot)

/-- one step of `Clean`'s loop; the stack has its top first. -/
def cleanStep (rooted : Bool) (stk : List Str) (c : Str) : List Str :=
  if c = dotdot then
    match stk with
    | t :: rest => if t = dotdot then c :: stk else rest
    | [] => if rooted then [] else [c]
  else c :: stk

def cleanStack (rooted : Bool) (stk : List Str) (cs : List Str) : List Str :=
  cs.foldl (cleanStep rooted) stk

def isAbs (s : Str) : Bool := s.head? == some '/'

/-- `filepath.Clean`. -/
def clean (s : Str) : Str :=
  if s = [] then dot
  else
    let out := (cleanStack (isAbs s) [] (comps s)).reverse
    if isAbs s then '/' :: joinSlash out
    else if out = [] then dot else joinSlash out

/-- `filepath.Join(a, b)`. -/
def join2 (a b : Str) : Str :=
  if a ≠ [] then clean (a ++ '/' :: b)
  else if b ≠ [] then clean b
  else []

/-- everything up to and including the last '/', or "" if there is none. -/
def uptoLastSlash (s : Str) : Str :=
  (s.reverse.dropWhile (· ≠ '/')).reverse

/-- `filepath.Dir`. -/
def dir (s : Str) : Str := clean (uptoLastSlash s)

/-- `filepath.Base`. -/
def base (s : Str) : Str :=
  if s = [] then dot
  else
    let t := (s.reverse.dropWhile (· = '/')).reverse   -- strip trailing slashes
    let b := (t.reverse.takeWhile (· ≠ '/')).reverse    -- after the last slash
    if b = [] then ['/'] else b

def hasPrefix (p s : Str) : Bool := p.isPrefixOf s

/-- `strings.Contains(s, "..")`. -/
def containsDotDot : Str → Bool
  | [] => false
  | [_] => false
  | a :: b :: r => (a == '.' && b == '.') || containsDotDot (b :: r)

/-- `strings.TrimSuffix`. -/
def trimSuffix (s suf : Str) : Str :=
  if suf.reverse.isPrefixOf s.reverse then (s.reverse.drop suf.length).reverse else s

def thriftSuffix : Str := ['.', 't', 'h', 'r', 'i', 'f', 't']
def goSuffix : Str := ['.', 'g', 'o']

/-- the elements `Rel`'s scanning loop visits in an already cleaned path. -/
def relElems (s : Str) : List Str :=
  if s = [] then [] else if s = ['/'] then [[]] else splitSlash s

def stripCommon : List Str → List Str → List Str × List Str
  | b :: bs, t :: ts => if b = t then stripCommon bs ts else (b :: bs, t :: ts)
  | bs, ts => (bs, ts)

/-- `filepath.Rel(basepath, targpath)`; `none` = error. -/
def rel (basepath targpath : Str) : Option Str :=
  let b := clean basepath
  let t := clean targpath
  if t = b then some dot
  else
    let b := if b = dot then [] else b
    if isAbs b != isAbs t then none
    else
      match stripCommon (relElems b) (relElems t) with
      | (b', t') =>
        match b' with
        | [] => some (joinSlash t')
        | x :: _ => if x = dotdot then none else some (joinSlash (b'.map (fun _ => dotdot) ++ t'))

/-- `q` is `d` itself or lies beneath it (both cleaned, `d` absolute). -/
def within (d q : Str) : Bool :=
  q == d || (d == ['/'] && isAbs q) || hasPrefix (d ++ ['/']) q

/-! ### main.go: verifyAncestry / findCommonAncestor -/

/-- `verifyAncestry`: every Thrift file must be reachable from `root` without
leaving it (`filepath.Rel` succeeds and the result does not start with ".."). -/
def verifyAncestry (root : Str) : List Str → Bool
  | [] => true
  | f :: fs =>
    match rel root f with
    | none => false
    | some p => !hasPrefix dotdot p && verifyAncestry root fs

def commonPrefix : List Str → List Str → List Str
  | a :: as, b :: bs => if a = b then a :: commonPrefix as bs else []
  | _, _ => []

/-- the fold of `findCommonAncestor` after the first module. -/
def commonAncestorFrom (acc : List Str) : List Str → Option (List Str)
  | [] => some acc
  | f :: fs =>
    if !isAbs f then none
    else
      let r := commonPrefix acc (splitSlash (dir f))
      if r = [[]] then none else commonAncestorFrom r fs

/-- `findCommonAncestor`; `none` = error (a relative path, or no common directory below "/"). -/
def findCommonAncestor : List Str → Option Str
  | [] => some []
  | f :: fs =>
    if !isAbs f then none
    else (commonAncestorFrom (splitSlash (dir f)) fs).map joinSlash

/-- `RelativePackage` refuses a package path that leaves the Thrift root: ".." itself or
anything starting with "../" (a `filepath.Rel` result has its ".." elements in front). -/
def escapesRoot (pkg : Str) : Bool := pkg == dotdot || hasPrefix (dotdot ++ ['/']) pkg

/-- gen/generate.go `generateModule`: where the code for a Thrift file goes,
relative to the output directory: `<rel root (file minus ".thrift")>/<base>.go`; an error if
that package path is outside the root. -/
def modulePath (root file : Str) : Option Str :=
  match rel root (trimSuffix file thriftSuffix) with
  | none => none
  | some pkg => if escapesRoot pkg then none else some (join2 pkg (base pkg ++ goSuffix))

/-- `generateModule` under `--output-file FILENAME` (main.go only checks the `.go` extension):
the single generated file goes to `filepath.Join(packageRelPath, FILENAME)`. -/
def outputFilePath (root file ofile : Str) : Option Str :=
  match rel root (trimSuffix file thriftSuffix) with
  | none => none
  | some pkg => if escapesRoot pkg then none else some (join2 pkg ofile)

end ThriftVerif.Proto
