/-
M-Proto proofs about the host automaton, part 2 (C16): the complete shape of a
non-blocking per-plugin run, what each error means, and the lift of the per-plugin
theorems to `run` (flags computed from the plugins themselves).
-/
import ThriftVerif.Proto.HostProofs

set_option linter.unusedSimpArgs false
set_option linter.unusedVariables false

namespace ThriftVerif.Proto
open ThriftVerif.Wire

/-- what happens between a successful handshake and the goodbye: nothing, or one generate
exchange with one of three outcomes. -/
inductive Mid : List HEvent → List ErrKind → Prop where
  | none : Mid [] []
  | genOk : Mid [.send .generate, .recvOk .generate] []
  | genDotDot : Mid [.send .generate, .recvOk .generate] [.dotdot]
  | genErr : Mid [.send .generate, .recvErr .generate] [.generate]

/-- the complete host-side history of one plugin in a run that does not block. -/
inductive Shape (p : Plugin) (r : Rec) : Prop where
  | rejected (e0 : HEvent) (he0 : e0 = .recvOk .handshake ∨ e0 = .recvErr .handshake)
      (hok : r.hsOk = false)
      (hh : r.h = [.start, .send .handshake, e0, .closePipes, .wait])
      (he : r.errs = .handshake :: exitErr p)
  | served (mid : List HEvent) (me : List ErrKind) (hmid : Mid mid me)
      (eb : HEvent) (heb : eb = .recvOk .goodbye ∨ eb = .recvErr .goodbye)
      (hok : r.hsOk = true)
      (hh : r.h = [.start, .send .handshake, .recvOk .handshake] ++ mid ++ [.send .goodbye, eb, .closePipes, .wait])
      (he : r.errs = me ++ ((if eb = .recvErr .goodbye then [ErrKind.goodbye] else []) ++ exitErr p))

theorem phase2_hsOk (g : Flags) (p : Plugin) (r : Rec) : (phase2 g p r).hsOk = r.hsOk := by
  rcases phase2_cases g p r with h | ⟨_, _, _, h⟩ | ⟨_, _, _, _, h⟩ <;> rw [h]
  · exact (closeHandle_same p r).1
  · exact (genPhase_same p r).1

theorem phase3_hsOk (g : Flags) (p : Plugin) (r : Rec) : (phase3 g p r).hsOk = r.hsOk := by
  rcases phase3_cases g p r with ⟨h, _⟩ | ⟨_, _, _, h⟩ <;> rw [h]
  exact (closeHandle_same p r).1

theorem finish_hsOk (g : Flags) (p : Plugin) : (finish g p).hsOk = (hsPhase p).hsOk := by
  unfold finish; rw [phase3_hsOk, phase2_hsOk]

theorem finish_shape (g : Flags) (p : Plugin) (hg : FlagsOK g p) (hnb : (finish g p).blocked = false) :
    Shape p (finish g p) := by
  obtain ⟨nb1, nb2, hcons⟩ := hg
  have hfin := finish_hsOk g p
  unfold finish at hnb hfin ⊢
  have hs := hsPhase_cases p
  generalize hsPhase p = r1 at hs hcons hnb hfin ⊢
  cases ha : g.allOk
  · have h3 : ∀ r, phase3 g p r = r := by intro r; simp [phase3, ha]
    rw [h3] at hnb hfin ⊢
    rcases hs with ⟨x, _, _, hok, hb, hh, he, _⟩ | ⟨e, hev, hok, hb, hh, he, _, _⟩ | ⟨hok, hb, _, _, _, _⟩
    · have h2 : phase2 g p r1 = closeHandle p r1 := by simp [phase2, nb1, ha, hok]
      rw [h2] at hnb hfin ⊢
      rcases closeHandle_cases p r1 with ⟨eb, heb, hb', hh', he'⟩ | ⟨hb', _, _⟩
      · exact .served [] [] .none eb heb (by rw [hfin, hok]) (by simp [hh', hh]) (by simp [he', he])
      · rw [hb'] at hnb; cases hnb
    · have h2 : phase2 g p r1 = r1 := by simp [phase2, nb1, ha, hok]
      rw [h2]
      exact .rejected e hev hok hh he
    · have h2 : phase2 g p r1 = r1 := by simp [phase2, nb1, ha, hok]
      rw [h2, hb] at hnb; cases hnb
  · have hok := hcons ha
    have h3 : ∀ r, phase3 g p r = closeHandle p r := by intro r; simp [phase3, ha, nb1, nb2]
    rw [h3] at hnb hfin ⊢
    rcases hs with ⟨x, _, _, _, hb, hh, he, _⟩ | ⟨_, _, hok', _, _, _, _, _⟩ | ⟨hok', _, _, _, _, _⟩
    · -- what phase 2 did
      have mid : ∃ m me, Mid m me ∧ ((phase2 g p r1).blocked = false →
          (phase2 g p r1).h = r1.h ++ m ∧ (phase2 g p r1).errs = r1.errs ++ me) := by
        rcases phase2_cases g p r1 with h2 | ⟨_, _, ha', _⟩ | ⟨_, _, _, _, h2⟩
        · exact ⟨[], [], .none, fun _ => by rw [h2]; simp⟩
        · rw [ha] at ha'; cases ha'
        · rw [h2]
          rcases genPhase_cases p r1 with ⟨fs, _, hh', he', _, _⟩ | ⟨_, hh', he', _⟩ | ⟨_, hh', he', _⟩ | ⟨hb', _, _, _⟩
          · exact ⟨_, _, .genOk, fun _ => ⟨hh', by rw [he']; simp⟩⟩
          · exact ⟨_, _, .genDotDot, fun _ => ⟨hh', he'⟩⟩
          · exact ⟨_, _, .genErr, fun _ => ⟨hh', he'⟩⟩
          · exact ⟨[], [], .none, fun hnb' => by rw [hb'] at hnb'; cases hnb'⟩
      obtain ⟨m, me, hm, hmid⟩ := mid
      rcases closeHandle_cases p (phase2 g p r1) with ⟨eb, heb, hb', hh', he'⟩ | ⟨hb', _, _⟩
      · rw [hb'] at hnb
        obtain ⟨hh2, he2⟩ := hmid hnb
        exact .served m me hm eb heb (by rw [hfin, hok]) (by simp [hh', hh2, hh]) (by simp [he', he2, he])
      · rw [hb'] at hnb; cases hnb
    · rw [hok] at hok'; cases hok'
    · rw [hok] at hok'; cases hok'

/-- what each error kind means, read off the host's history (non-blocking runs). -/
theorem shape_errs (p : Plugin) (r : Rec) (hs : Shape p r) :
    (ErrKind.handshake ∈ r.errs ↔ r.hsOk = false) ∧
    (ErrKind.generate ∈ r.errs ↔ HEvent.recvErr .generate ∈ r.h) ∧
    (ErrKind.goodbye ∈ r.errs ↔ HEvent.recvErr .goodbye ∈ r.h) ∧
    (ErrKind.exitStatus ∈ r.errs ↔ p.exitCode ≠ 0) ∧
    (ErrKind.dotdot ∈ r.errs → HEvent.recvOk .generate ∈ r.h) := by
  have hx : ∀ k, k ∈ exitErr p ↔ (k = ErrKind.exitStatus ∧ p.exitCode ≠ 0) := by
    intro k; unfold exitErr; split <;> simp [*]
  rcases hs with ⟨e0, he0, hok, hh, he⟩ | ⟨mid, me, hmid, eb, heb, hok, hh, he⟩
  · rw [hh, he, hok]
    rcases he0 with rfl | rfl <;> simp [hx]
  · rw [hh, he, hok]
    cases hmid <;> rcases heb with rfl | rfl <;> simp [hx]

/-- every error message carries the plugin's name: the error output names a plugin exactly
when some error is recorded for it. -/
theorem named_iff_errs (r : Rec) : namedIn r = true ↔ r.errs ≠ [] := by
  unfold namedIn
  cases r.errs with
  | nil => simp
  | cons e es => simp [ErrKind.names]

/-- a plugin has failed, as far as the host can tell. -/
def PluginFailed (p : Plugin) (r : Rec) : Prop :=
  r.hsOk = false ∨ (∃ q, HEvent.recvErr q ∈ r.h) ∨ ErrKind.dotdot ∈ r.errs ∨ p.exitCode ≠ 0

theorem shape_failed (p : Plugin) (r : Rec) (hs : Shape p r) : r.errs ≠ [] ↔ PluginFailed p r := by
  have hx : exitErr p = if p.exitCode = 0 then [] else [ErrKind.exitStatus] := rfl
  unfold PluginFailed
  rcases hs with ⟨e0, he0, hok, hh, he⟩ | ⟨mid, me, hmid, eb, heb, hok, hh, he⟩
  · rw [hh, he, hok]; simp
  · rw [hh, he, hok, hx]
    cases hmid <;> rcases heb with rfl | rfl <;> by_cases hc : p.exitCode = 0 <;> simp [hc]

/-- the error output names a plugin iff that plugin failed. -/
theorem shape_named (p : Plugin) (r : Rec) (hs : Shape p r) : namedIn r = true ↔ PluginFailed p r :=
  (named_iff_errs r).trans (shape_failed p r hs)

end ThriftVerif.Proto
