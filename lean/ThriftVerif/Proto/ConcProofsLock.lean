/-
M-Proto proofs, C18 part 2: lock pairing. Invariant of `lstep` for the client that holds the
lock across write and read: only the lock holder is between `lock` and `unlock`, and the
connection carries at most the holder's own request or its answer.
-/
import ThriftVerif.Proto.ConcProofsPool

set_option linter.unusedSimpArgs false

namespace ThriftVerif.Proto.Conc

/-- a sender that does not hold the lock: not started, or completely done with its own answer. -/
def Outside (p : Nat) (sd : Sender) : Prop :=
  (sd.todo = sendProg true ∧ sd.got = none) ∨ (sd.todo = [] ∧ sd.got = some (echo p))

/-- the lock holder with payload `p`, and what is on the wire. -/
def Holder (p : Nat) (sd : Sender) (reqQ respQ : List Nat) : Prop :=
  (sd.todo = [.write, .read, .unlock] ∧ sd.got = none ∧ reqQ = [] ∧ respQ = []) ∨
  (sd.todo = [.read, .unlock] ∧ sd.got = none ∧
    ((reqQ = [p] ∧ respQ = []) ∨ (reqQ = [] ∧ respQ = [echo p]))) ∨
  (sd.todo = [.unlock] ∧ sd.got = some (echo p) ∧ reqQ = [] ∧ respQ = [])

/-- The lock invariant. -/
structure LInv (payloads : Nat → Nat) (K : Nat) (s : LockState) : Prop where
  /-- payloads never change -/
  pay : ∀ i, (s.sd i).payload = payloads i
  /-- nobody holds the lock: the connection is quiet -/
  free : s.lock = none → s.reqQ = [] ∧ s.respQ = []
  /-- everybody but the holder is outside the critical section -/
  out : ∀ i, i < K → s.lock ≠ some i → Outside (payloads i) (s.sd i)
  /-- the holder is a sender, and the wire carries only its request / its answer -/
  holder : ∀ h, s.lock = some h → h < K ∧ Holder (payloads h) (s.sd h) s.reqQ s.respQ

theorem linv_init (payloads : Nat → Nat) (K : Nat) : LInv payloads K (linit true payloads K) := by
  refine ⟨?_, ?_, ?_, ?_⟩
  · intro i; simp [linit]
  · intro _; simp [linit]
  · intro i hi _; simp [linit, Outside, hi]
  · intro h hh; simp [linit] at hh

theorem Outside.got_cases {p sd} (h : Outside p sd) : sd.got = none ∨ sd.got = some (echo p) := by
  rcases h with ⟨_, h⟩ | ⟨_, h⟩ <;> simp [h]

theorem Holder.got_cases {p sd q r} (h : Holder p sd q r) :
    sd.got = none ∨ sd.got = some (echo p) := by
  rcases h with ⟨_, h, _⟩ | ⟨_, h, _⟩ | ⟨_, h, _⟩ <;> simp [h]

theorem Outside.got_done {p sd} (h : Outside p sd) (hd : sd.todo = []) :
    sd.got = some (echo p) := by
  rcases h with ⟨h, _⟩ | ⟨_, h⟩
  · rw [h] at hd; simp [sendProg] at hd
  · exact h

theorem Holder.not_done {p sd q r} (h : Holder p sd q r) : sd.todo ≠ [] := by
  rcases h with ⟨h, _⟩ | ⟨h, _⟩ | ⟨h, _⟩ <;> simp [h]

/-- the server's move. -/
theorem linv_serve {payloads K s} (h : LInv payloads K s) :
    LInv payloads K (match s.reqQ with
      | [] => s
      | r :: rest => { s with reqQ := rest, respQ := s.respQ ++ [echo r] }) := by
  cases hq : s.reqQ with
  | nil => exact h
  | cons r rest =>
    obtain ⟨pay, free, out, holder⟩ := h
    refine ⟨pay, ?_, out, ?_⟩
    · intro hl; have := free hl; simp [hq] at this
    · intro t ht
      obtain ⟨htK, hh⟩ := holder t ht
      refine ⟨htK, ?_⟩
      simp only [Holder, hq] at hh ⊢
      rcases hh with ⟨_, _, h, _⟩ | ⟨h1, h2, ⟨h3, h4⟩ | ⟨h3, _⟩⟩ | ⟨_, _, h, _⟩
      · simp at h
      · simp only [List.cons.injEq] at h3
        obtain ⟨rfl, rfl⟩ := h3
        exact Or.inr (Or.inl ⟨h1, h2, Or.inr ⟨rfl, by simp [h4]⟩⟩)
      · simp at h3
      · simp at h

/-- every move preserves the invariant. -/
theorem linv_step {payloads K s} (h : LInv payloads K s) (t : Nat) :
    LInv payloads K (lstep K s t) := by
  unfold lstep
  by_cases htK : t ≥ K
  · simp only [htK, if_true]; exact linv_serve h
  simp only [htK, if_false]
  have htK' : t < K := by omega
  obtain ⟨pay, free, out, holder⟩ := h
  by_cases hl : s.lock = some t
  · -- the holder moves
    obtain ⟨_, hh⟩ := holder t hl
    have hpay := pay t
    rcases hh with ⟨h1, h2, h3, h4⟩ | ⟨h1, h2, ⟨h3, h4⟩ | ⟨h3, h4⟩⟩ | ⟨h1, h2, h3, h4⟩
    · -- write
      simp only [h1]
      refine ⟨?_, ?_, ?_, ?_⟩
      · intro i; simp only [upd]; split <;> simp_all
      · intro hn; simp [hl] at hn
      · intro i hi hne; simp only [hl] at hne
        have : i ≠ t := fun hc => hne (by rw [hc])
        simp only [upd_other _ _ _ _ this]; exact out i hi (by rw [hl]; exact hne)
      · intro x hx; simp only [hl, Option.some.injEq] at hx; subst hx
        exact ⟨htK', by simp [Holder, h2, h3, h4, hpay]⟩
    · -- read blocked: request not yet served
      simp only [h1, h4]
      exact ⟨pay, free, out, holder⟩
    · -- read
      simp only [h1, h4]
      refine ⟨?_, ?_, ?_, ?_⟩
      · intro i; simp only [upd]; split <;> simp_all
      · intro hn; simp [hl] at hn
      · intro i hi hne; simp only [hl] at hne
        have : i ≠ t := fun hc => hne (by rw [hc])
        simp only [upd_other _ _ _ _ this]; exact out i hi (by rw [hl]; exact hne)
      · intro x hx; simp only [hl, Option.some.injEq] at hx; subst hx
        exact ⟨htK', by simp [Holder, h3]⟩
    · -- unlock
      simp only [h1]
      refine ⟨?_, ?_, ?_, ?_⟩
      · intro i; simp only [upd]; split <;> simp_all
      · intro _; exact ⟨h3, h4⟩
      · intro i hi _
        by_cases hit : i = t
        · subst hit; simp [Outside, h2]
        · simp only [upd_other _ _ _ _ hit]
          exact out i hi (by rw [hl]; simpa using fun hc => hit hc.symm)
      · intro x hx; simp at hx
  · -- somebody outside the critical section moves
    rcases out t htK' hl with ⟨h1, h2⟩ | ⟨h1, _⟩
    · simp only [h1, sendProg, if_true]
      cases hlk : s.lock with
      | some x => simp only []; exact ⟨pay, free, out, holder⟩
      | none =>
        simp only []
        obtain ⟨hq, hr⟩ := free hlk
        refine ⟨?_, ?_, ?_, ?_⟩
        · intro i; simp only [upd]; split <;> simp_all
        · intro hn; simp at hn
        · intro i hi hne
          have : i ≠ t := fun hc => hne (by rw [hc])
          simp only [upd_other _ _ _ _ this]; exact out i hi (by simp [hlk])
        · intro x hx; simp only [Option.some.injEq] at hx; subst hx
          exact ⟨htK', by simp [Holder, h2, hq, hr]⟩
    · simp only [h1]; exact ⟨pay, free, out, holder⟩

/-- the invariant holds in every reachable state. -/
theorem linv_run {payloads K} (sched : List Nat) : ∀ s, LInv payloads K s →
    LInv payloads K (lrun K s sched) := by
  induction sched with
  | nil => intro s h; exact h
  | cons t r ih => intro s h; exact ih _ (linv_step h t)

theorem linv_reachable (payloads : Nat → Nat) (K : Nat) (sched : List Nat) :
    LInv payloads K (lrun K (linit true payloads K) sched) :=
  linv_run sched _ (linv_init payloads K)

end ThriftVerif.Proto.Conc
