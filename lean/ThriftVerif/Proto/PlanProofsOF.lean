/-
C17, the `--output-file` option: only the module given on the command line is generated, into
`Join(packageRelPath, FILENAME)`; main.go checks nothing but the `.go` extension of FILENAME.
The plan (`generateOutputFile` / `cliPlanOutputFile`) collects the file under a normalised key
like every other, so every write is `Join(out, normKey p)` and is confined to the output
directory whatever FILENAME is.
-/
import ThriftVerif.Proto.PlanProofs2

namespace ThriftVerif.Proto

theorem generateOutputFile_entries (root outAbs ofile : Str) (mods plugs ord) (ws : Files)
    (h : generateOutputFile root outAbs ofile mods plugs ord = .ok ws) :
    ∀ w ∈ ws, ∃ p, w.1 = join2 outAbs (normKey p) := by
  unfold generateOutputFile at h
  cases mods with
  | nil => simp at h
  | cons main rest =>
    simp only at h
    split at h
    · rename_i c p _ _
      split at h
      · simp at h
      · rename_i pf hpf
        split at h
        · simp at h
        · rename_i all hm
          split at h
          · simp at h
          · simp only [Except.ok.injEq] at h
            subst h
            obtain ⟨rfl, _, _⟩ := mergeFiles_some_spec _ _ _ hm
            intro w hw
            obtain ⟨x, hx, rfl⟩ := List.mem_map.1 hw
            rcases List.mem_append.1 hx with hx | hx
            · simp only [List.mem_singleton] at hx
              subst hx
              exact ⟨p, rfl⟩
            · obtain ⟨fs, _, hmp⟩ := runPlugins_ok hpf
              obtain ⟨hpfeq, _⟩ := mergePlugins_some_spec _ _ _ hmp
              rw [hpfeq] at hx
              simp only [List.nil_append] at hx
              obtain ⟨nf, hnf, hxf⟩ := List.mem_flatten.1 hx
              obtain ⟨f, _, rfl⟩ := List.mem_map.1 (mem_of_mem_pickOrder hnf)
              obtain ⟨y, _, rfl⟩ := List.mem_map.1 hxf
              exact ⟨y.1, rfl⟩
    · simp at h

/-- every write planned under `--output-file` is `Join(out, normKey p)` for some raw path `p` -/
theorem cliPlanOutputFile_entries (cwd : Str) (tr : Option Str) (out ofile : Str) (mods plugs ord) (ws : Files)
    (h : cliPlanOutputFile cwd tr out ofile mods plugs ord = .ok ws) :
    ∀ w ∈ ws, ∃ p, w.1 = join2 (absPath cwd out) (normKey p) := by
  unfold cliPlanOutputFile at h
  simp only at h
  cases tr with
  | none =>
    simp only at h
    split at h
    · simp at h
    · exact generateOutputFile_entries _ _ _ _ _ _ _ h
  | some r =>
    simp only at h
    split at h
    · exact generateOutputFile_entries _ _ _ _ _ _ _ h
    · simp at h

/-- a failed run under `--output-file` writes nothing (the plan is complete before the first write) -/
theorem cli_output_file_all_or_nothing (cwd : Str) (tr : Option Str) (out ofile : Str) (mods plugs ord) (e : PlanErr)
    (h : cliPlanOutputFile cwd tr out ofile mods plugs ord = .error e) :
    writesOf (cliPlanOutputFile cwd tr out ofile mods plugs ord) = [] := by
  rw [h]; rfl

/-- **`--output-file` cannot leave the output directory**, whatever the file name (any number of
`..`, absolute, empty …): the key is normalised before it is joined to the output directory. -/
theorem cli_output_file_confined (cwd : Str) (tr : Option Str) (out ofile : Str) (mods plugs ord) (ws : Files)
    (h : cliPlanOutputFile cwd tr out ofile mods plugs ord = .ok ws) (hcwd : isAbs cwd = true) :
    ∀ w ∈ ws, within (clean (absPath cwd out)) w.1 = true := by
  intro w hw
  obtain ⟨p, hp⟩ := cliPlanOutputFile_entries cwd tr out ofile mods plugs ord ws h w hw
  rw [hp]
  exact join2_normKey_confined _ p (isAbs_absPath cwd out hcwd)

end ThriftVerif.Proto
