/-
M-Proto, part 4: the host side of the plugin protocol, as an automaton driven by
an adversarial plugin script.

Code followed: main.go (`do`: `Plugins.Handle()`, deferred `pluginHandle.Close()`),
internal/plugin/flag.go (`Flag.Handle`, `Flags.Handle`), transport.go
(`NewTransportHandle`, `transportHandle.Close`, `serviceGenerator.Generate`),
multi.go, internal/process/client.go (`Close`: close stdout, close stdin, `Wait`),
internal/envelope/client.go (`Send`: encode, transport, decode, Reply/Exception),
internal/frame (Frame.lean), plugin/api (generated `FromWire` of the three results).

A plugin is *any* process: for each request it reads it may write arbitrary bytes in
arbitrary chunks and may exit. The host reads the reply with `readFrame` from the
pipe (whatever earlier steps left unread comes first), decodes it with M-Wire's
`decEnvelope` and the generated `FromWire` logic, and acts on the outcome. A plugin
that stays alive without completing a frame blocks the host for ever (`block`); the
properties are stated for runs that do not block.

Plugins run concurrently (`concurrent.Range`) in three phases separated by barriers
(handshakes; generate; close). What a plugin sees depends on the others only through
four flags (`Flags`); the completion order `ord` only enters the merge of the
generated files.

Core-only.
-/
import ThriftVerif.Proto.Frame
import ThriftVerif.Proto.Plan

namespace ThriftVerif.Proto
open ThriftVerif.Wire

/-- `api.APIVersion` and `api.FeatureServiceGenerator` (tied by Facts/ExpectProto). -/
def apiVersion : Nat := 4
def featureServiceGenerator : Nat := 1

inductive Req where
  | handshake | generate | goodbye
  deriving DecidableEq, Repr

/-- envelope names: "Plugin:handshake", "ServiceGenerator:generate", "Plugin:goodbye". -/
def methodName : Req → Bytes
  | .handshake => [0x50, 0x6c, 0x75, 0x67, 0x69, 0x6e, 0x3a, 0x68, 0x61, 0x6e, 0x64, 0x73, 0x68, 0x61, 0x6b, 0x65]
  | .generate => [0x53, 0x65, 0x72, 0x76, 0x69, 0x63, 0x65, 0x47, 0x65, 0x6e, 0x65, 0x72, 0x61, 0x74, 0x6f, 0x72,
                  0x3a, 0x67, 0x65, 0x6e, 0x65, 0x72, 0x61, 0x74, 0x65]
  | .goodbye => [0x50, 0x6c, 0x75, 0x67, 0x69, 0x6e, 0x3a, 0x67, 0x6f, 0x6f, 0x64, 0x62, 0x79, 0x65]

/-- envelope types (wire/envelope.go). -/
def etCall : UInt8 := 1
def etReply : UInt8 := 2
def etException : UInt8 := 3

/-- the frame the host writes for a request (`envelope.client.Send`: strict envelope,
type Call, seqid 1). -/
def requestFrame (r : Req) (body : WValue) : Bytes :=
  frame (encEnvStrict ⟨methodName r, etCall, 1, body⟩)

def handshakeArgs : WValue := .struct [(1, .struct [])]
def goodbyeArgs : WValue := .struct []

/-! ### decoding replies -/

/-- `envelope.client.Send` after the transport returned `m`: the body of a Reply envelope;
anything else (undecodable, Exception, other type) is an error. -/
def replyValue (m : Bytes) : Option WValue :=
  match decEnvelope m with
  | .ok e => if e.etype = etReply then some e.value else none
  | .error _ => none

/-- generated `X_Result.FromWire` + `UnwrapResponse` for a result struct whose only member is
`0: success`: the last struct-typed field 0 wins, a field 0 that fails to parse is an
error, no success at all is an error. -/
def resultLoop {α} (parse : WValue → Option α) : List (UInt16 × WValue) → Option α → Option (Option α)
  | [], acc => some acc
  | (id, v) :: r, acc =>
    if id = 0 then
      match v with
      | .struct _ =>
        match parse v with
        | some a => resultLoop parse r (some a)
        | none => none
      | _ => resultLoop parse r acc
    else resultLoop parse r acc

def parseResult {α} (parse : WValue → Option α) : WValue → Option α
  | .struct fs =>
    match resultLoop parse fs none with
    | some (some a) => some a
    | _ => none
  | _ => none

structure HsResp where
  name : Bytes
  version : UInt32
  features : List UInt32
  deriving Repr, DecidableEq

structure HsAcc where
  name : Option Bytes := none
  version : Option UInt32 := none
  features : Option (List UInt32) := none

def i32s : List WValue → List UInt32
  | [] => []
  | .i32 v :: r => v :: i32s r
  | _ :: r => 0 :: i32s r

/-- one field of `HandshakeResponse.FromWire` (a field with an unexpected type is skipped;
a `features` list whose element type is not i32 reads as empty). -/
def hsField (a : HsAcc) (id : UInt16) (v : WValue) : HsAcc :=
  if id = 1 then
    match v with
    | .binary b => { a with name := some b }
    | _ => a
  else if id = 2 then
    match v with
    | .i32 x => { a with version := some x }
    | _ => a
  else if id = 3 then
    match v with
    | .list et items => { a with features := some (if et = TType.i32.code then i32s items else []) }
    | _ => a
  else a

def hsFields : HsAcc → List (UInt16 × WValue) → HsAcc
  | a, [] => a
  | a, (id, v) :: r => hsFields (hsField a id v) r

/-- `HandshakeResponse.FromWire`: name, apiVersion, features are required. -/
def parseHsResp : WValue → Option HsResp
  | .struct fs =>
    match hsFields {} fs with
    | ⟨some n, some v, some f⟩ => some ⟨n, v, f⟩
    | _ => none
  | _ => none

def strOfBytes (b : Bytes) : Str := b.map fun x => Char.ofNat x.toNat
def bytesOfStr (s : Str) : Bytes := s.map fun c => UInt8.ofNat c.toNat

/-- a Go map built by successive assignment: the last value for a key wins. -/
def putLast (fs : Files) (p : Str) (c : Content) : Files :=
  if hasKey fs p then fs.map (fun x => if x.1 == p then (p, c) else x) else fs ++ [(p, c)]

def filesOfItems : Files → List (WValue × WValue) → Files
  | acc, [] => acc
  | acc, (.binary k, .binary v) :: r => filesOfItems (putLast acc (strOfBytes k) v) r
  | acc, _ :: r => filesOfItems acc r

/-- `GenerateServiceResponse.FromWire`: field 1 of type map; a map whose key or value type is
not binary reads as nil; the last field 1 wins. -/
def genFields : Files → List (UInt16 × WValue) → Files
  | acc, [] => acc
  | acc, (id, v) :: r =>
    if id = 1 then
      match v with
      | .map kt vt items =>
        genFields (if kt = TType.binary.code ∧ vt = TType.binary.code then filesOfItems [] items else []) r
      | _ => genFields acc r
    else genFields acc r

def parseGenResp : WValue → Option Files
  | .struct fs => some (genFields [] fs)
  | _ => none

/-! ### the plugin as a script -/

/-- what the plugin does after reading one request: writes `out` (in these chunks) and, if
`exits`, closes its pipes and exits. -/
structure PStep where
  out : Chunks
  exits : Bool
  deriving Repr

structure Plugin where
  name : Bytes          -- the name on the command line (`-p name`)
  exitAtStart : Bool    -- exits before reading anything
  hs : PStep
  gen : PStep
  bye : PStep
  exitCode : Nat
  deriving Repr

/-- what the scripted plugin logs. -/
inductive PEvent where
  | start | req (r : Req) | eof | exit
  deriving DecidableEq, Repr

/-- what the host does to one plugin. -/
inductive HEvent where
  | start | send (r : Req) | recvOk (r : Req) | recvErr (r : Req) | closePipes | wait
  deriving DecidableEq, Repr

/-- one end of the pipes: bytes written by the plugin and not yet read by the host, whether
the plugin process is still running, and its log. -/
structure PState where
  buf : Chunks
  alive : Bool
  view : List PEvent
  deriving Repr

inductive Got where
  | msg (m : Bytes) | fail | block
  deriving Repr

/-- `frame.Client.Send` against the scripted plugin. A dead plugin has closed its stdin:
the write fails. A live one reads the request and acts; the host then reads one frame. -/
def exchange (st : PState) (r : Req) (s : PStep) : PState × Got :=
  if st.alive then
    match readFrame (st.buf ++ s.out) with
    | .ok m rest =>
      (⟨rest, !s.exits, st.view ++ (PEvent.req r :: if s.exits then [PEvent.exit] else [])⟩, .msg m)
    | _ =>
      (⟨[], !s.exits, st.view ++ (PEvent.req r :: if s.exits then [PEvent.exit] else [])⟩,
       if s.exits then .fail else .block)
  else (st, .fail)

/-- `process.Client.Close` seen from the plugin: a live plugin reads EOF and exits. -/
def closeTransport (st : PState) : PState :=
  if st.alive then ⟨[], false, st.view ++ [.eof, .exit]⟩ else st

inductive ErrKind where
  | handshake   -- "failed to open plugin %q: handshake with plugin %q failed: …"
  | generate    -- "plugin %q failed to generate service code: …"
  | dotdot      -- "plugin %q is attempting to write to a parent directory …"
  | goodbye     -- "failed to say goodbye to plugin %q: …"
  | exitStatus  -- "%q failed with: exit status n" (the executable's path)
  deriving DecidableEq, Repr

/-- does the message carry the plugin's name? -/
def ErrKind.names : ErrKind → Bool
  | _ => true

/-- per-plugin bookkeeping of a run. -/
structure Rec where
  st : PState
  h : List HEvent
  hsOk : Bool := false
  hsResp : Option HsResp := none
  errs : List ErrKind := []
  files : Option Files := none     -- the checked answer to `generate`, if one was obtained
  blocked : Bool := false
  deriving Repr

def exitErr (p : Plugin) : List ErrKind := if p.exitCode = 0 then [] else [.exitStatus]

def startState (p : Plugin) : PState :=
  ⟨[], !p.exitAtStart, if p.exitAtStart then [.start, .exit] else [.start]⟩

/-- the checks of `NewTransportHandle`. -/
def handshakeAccepts (p : Plugin) (r : HsResp) : Bool :=
  r.name == p.name && r.version.toNat == apiVersion

def hasServiceGenerator (r : HsResp) : Bool :=
  r.features.any fun f => f.toNat == featureServiceGenerator

/-- `Flag.Handle`: start the process, handshake, and on failure close the transport. -/
def hsPhase (p : Plugin) : Rec :=
  match exchange (startState p) .handshake p.hs with
  | (st, .msg m) =>
    match (replyValue m).bind (parseResult parseHsResp) with
    | some r =>
      if handshakeAccepts p r then
        { st := st, h := [.start, .send .handshake, .recvOk .handshake], hsOk := true, hsResp := some r }
      else
        { st := closeTransport st, h := [.start, .send .handshake, .recvOk .handshake, .closePipes, .wait],
          hsResp := some r, errs := .handshake :: exitErr p }
    | none =>
      { st := closeTransport st, h := [.start, .send .handshake, .recvErr .handshake, .closePipes, .wait],
        errs := .handshake :: exitErr p }
  | (st, .fail) =>
    { st := closeTransport st, h := [.start, .send .handshake, .recvErr .handshake, .closePipes, .wait],
      errs := .handshake :: exitErr p }
  | (st, .block) =>
    { st := st, h := [.start, .send .handshake], blocked := true }

/-- `transportHandle.Close`: Goodbye, then close the transport whatever Goodbye returned. -/
def closeHandle (p : Plugin) (r : Rec) : Rec :=
  match exchange r.st .goodbye p.bye with
  | (st, .msg m) =>
    if (replyValue m).isSome then
      { r with st := closeTransport st, h := r.h ++ [.send .goodbye, .recvOk .goodbye, .closePipes, .wait],
               errs := r.errs ++ exitErr p }
    else
      { r with st := closeTransport st, h := r.h ++ [.send .goodbye, .recvErr .goodbye, .closePipes, .wait],
               errs := r.errs ++ .goodbye :: exitErr p }
  | (st, .fail) =>
    { r with st := closeTransport st, h := r.h ++ [.send .goodbye, .recvErr .goodbye, .closePipes, .wait],
             errs := r.errs ++ .goodbye :: exitErr p }
  | (st, .block) =>
    { r with st := st, h := r.h ++ [.send .goodbye], blocked := true }

/-- `serviceGenerator.Generate`. -/
def genPhase (p : Plugin) (r : Rec) : Rec :=
  match exchange r.st .generate p.gen with
  | (st, .msg m) =>
    match (replyValue m).bind (parseResult parseGenResp) with
    | some fs =>
      if fs.any (fun x => containsDotDot x.1) then
        { r with st := st, h := r.h ++ [.send .generate, .recvOk .generate], errs := r.errs ++ [.dotdot] }
      else
        { r with st := st, h := r.h ++ [.send .generate, .recvOk .generate], files := some fs }
    | none =>
      { r with st := st, h := r.h ++ [.send .generate, .recvErr .generate], errs := r.errs ++ [.generate] }
  | (st, .fail) =>
    { r with st := st, h := r.h ++ [.send .generate, .recvErr .generate], errs := r.errs ++ [.generate] }
  | (st, .block) =>
    { r with st := st, h := r.h ++ [.send .generate], blocked := true }

/-- what one plugin's goroutines need to know about the rest of the run. -/
structure Flags where
  allOk : Bool    -- every handshake succeeded
  blk1 : Bool     -- some handshake blocks (the barrier of `Flags.Handle` is never passed)
  coreOk : Bool   -- the core generator got through all modules (so plugins are asked)
  blk2 : Bool     -- some generate call blocks
  deriving Repr

def wantsGenerate (r : Rec) : Bool :=
  match r.hsResp with
  | some x => r.hsOk && hasServiceGenerator x
  | none => false

/-- after the handshake barrier: either `Flags.Handle` failed and closes the handles it got,
or generation runs and (core generator permitting) the plugin is asked to generate. -/
def phase2 (g : Flags) (p : Plugin) (r : Rec) : Rec :=
  if g.blk1 then r
  else if !g.allOk then (if r.hsOk then closeHandle p r else r)
  else if g.coreOk && wantsGenerate r then genPhase p r
  else r

/-- the deferred `pluginHandle.Close()` of main.go. -/
def phase3 (g : Flags) (p : Plugin) (r : Rec) : Rec :=
  if !g.blk1 && g.allOk && !g.blk2 then closeHandle p r else r

def finish (g : Flags) (p : Plugin) : Rec := phase3 g p (phase2 g p (hsPhase p))

inductive Verdict where
  | ok | fail | hang
  deriving DecidableEq, Repr

structure Cfg where
  plugins : List Plugin
  coreOk : Bool
  coreFiles : Files      -- what the core generator produced (relative paths)
  ord : List Nat         -- completion order of the generate calls
  deriving Repr

structure Result where
  exit : Verdict
  recs : List Rec
  wrote : Option Files   -- the relative-path map handed to the write loop, if it was reached
  conflict : Bool
  deriving Repr

def flagsOf (c : Cfg) : Flags :=
  let r1 := c.plugins.map hsPhase
  let g1 : Flags := ⟨r1.all (·.hsOk), r1.any (·.blocked), c.coreOk, false⟩
  let r2 := c.plugins.map fun p => phase2 g1 p (hsPhase p)
  { g1 with blk2 := r2.any (·.blocked) }

/-- the files the plugins contributed, in completion order, merged as multi.go does. -/
def mergedPluginFiles (recs : List Rec) (ord : List Nat) : Option Files :=
  mergePlugins [] (((pickOrder recs ord).filterMap (·.files)).map normFiles)

def run (c : Cfg) : Result :=
  let g := flagsOf c
  let recs := c.plugins.map (finish g)
  let blocked := recs.any (·.blocked)
  let anyErr := recs.any fun r => !r.errs.isEmpty
  let reached := g.allOk && !g.blk1 && g.coreOk && !g.blk2 && !anyGenErr recs
  let merged := if reached then
      match mergedPluginFiles recs c.ord with
      | some pf => mergeFiles c.coreFiles pf
      | none => none
    else none
  let conflict := reached && merged.isNone
  { exit := if blocked then .hang else if anyErr || !c.coreOk || conflict then .fail else .ok,
    recs := recs, wrote := merged, conflict := conflict }
where
  anyGenErr (recs : List Rec) : Bool :=
    recs.any fun r => r.errs.any fun e => e == .generate || e == .dotdot

/-- the plugins whose failure the host's error output attributes by name. -/
def namedIn (r : Rec) : Bool := r.errs.any ErrKind.names

end ThriftVerif.Proto
