/-
M-Proto, part 1: length-prefixed frames (internal/frame/reader.go, writer.go).

A frame is a 4-byte big-endian length followed by that many bytes. The reader
takes the prefix with `io.ReadFull`, then either `io.ReadFull`s the body into a
pre-allocated buffer (length < `_fastPathFrameSize`) or `io.CopyN`s it into a
growing buffer. The stream is a `Chunks` (M-Wire, Envelope.lean): successive
`Read` results, possibly empty, so every statement about `readFrame` is a
statement about every segmentation of the pipe.

Core-only.
-/
import ThriftVerif.Wire.Envelope

namespace ThriftVerif.Proto
open ThriftVerif.Wire

/-- `_fastPathFrameSize` (10 MB); tied to the source by Facts/ExpectProto. -/
def fastPathFrameSize : Nat := 10485760

/-- what `frame.Writer.Write(msg)` puts on the wire (`uint32(len)` truncates). -/
def frame (msg : Bytes) : Bytes := beN 4 msg.length ++ msg

/-- the `Write` calls `frame.Writer.Write` makes: the prefix, then the body unless empty. -/
def writeFrame (msg : Bytes) : Chunks :=
  if msg.isEmpty then [beN 4 0] else [beN 4 msg.length, msg]

/-- `io.CopyN(&buf, r, n)`: reads through an `io.LimitedReader` until n bytes or EOF;
consumes exactly what `io.ReadFull` would. -/
def copyN (n : Nat) (cs : Chunks) : Bytes × Chunks := readFull n cs

inductive FrameRes where
  | ok (msg : Bytes) (rest : Chunks)
  | eof   -- io.EOF: the stream ended before the first byte of a prefix
  | err   -- io.ErrUnexpectedEOF: the stream ended inside a prefix or a body
  deriving Repr

/-- `frame.Reader.Read` with fast-path threshold `thr`. The error *kind* follows the Go
library: `io.ReadFull` reports plain `io.EOF` when not a single byte arrived (so a stream that
ends right after a complete prefix looks like a clean end) and `io.ErrUnexpectedEOF` after a
partial read; `io.CopyN` reports `io.EOF` for every shortfall. -/
def readFrameT (thr : Nat) (cs : Chunks) : FrameRes :=
  match readFull 4 cs with
  | (hdr, cs1) =>
    if hdr.length = 0 then .eof
    else if hdr.length < 4 then .err
    else
      if deN hdr < thr then
        if deN hdr = 0 then .ok [] cs1
        else
          match readFull (deN hdr) cs1 with
          | (b, cs2) => if b.length = deN hdr then .ok b cs2 else if b.length = 0 then .eof else .err
      else
        match copyN (deN hdr) cs1 with
        | (b, cs2) => if b.length = deN hdr then .ok b cs2 else .eof

/-- `frame.Reader.Read` as shipped. -/
def readFrame (cs : Chunks) : FrameRes := readFrameT fastPathFrameSize cs

/-- read frames until the stream ends; the flag says whether the final error was
plain `io.EOF` (a frame boundary — or, see `readFrameT`, a prefix with nothing after it). -/
def readFramesN (thr : Nat) : Nat → Chunks → List Bytes × Bool
  | 0, _ => ([], false)
  | f + 1, cs =>
    match readFrameT thr cs with
    | .eof => ([], true)
    | .err => ([], false)
    | .ok m rest =>
      match readFramesN thr f rest with
      | (ms, c) => (m :: ms, c)

def readFramesT (thr : Nat) (cs : Chunks) : List Bytes × Bool := readFramesN thr (cs.flatten.length + 1) cs

def readFrames (cs : Chunks) : List Bytes × Bool := readFramesT fastPathFrameSize cs

/-- the byte stream carrying the given messages. -/
def frames (msgs : List Bytes) : Bytes := (msgs.map frame).flatten

end ThriftVerif.Proto
