/-
M-Proto proofs about the plugin side (C16): a plugin built with the plugin library
(`serve`, the model of plugin.Main) answers the host's session — handshake, any number
of generate requests, goodbye — request by request, under every segmentation of its
input, and stops after answering goodbye without reading further; and the host's
handshake logic accepts that answer.
-/
import ThriftVerif.Proto.Server
import ThriftVerif.Proto.FrameProofs

set_option linter.unusedSimpArgs false
set_option linter.unusedVariables false

namespace ThriftVerif.Proto
open ThriftVerif.Wire

/-- one step of `Serve` on a stream that starts with a well-formed enveloped request. -/
theorem serveN_env (f : Nat) (i : Impl) (gens : List GenAnswer) (e : Envelope) (he : EnvOK e)
    (hreq : e.etype = 1 ∨ e.etype = 4)
    (hsz : (encEnvStrict e).length < 2 ^ 32) (tail : Bytes) (cs : Chunks)
    (hcs : cs.flatten = frame (encEnvStrict e) ++ tail) :
    ∃ rest, rest.flatten = tail ∧ serveN (f + 1) i gens cs =
      (match dispatch i e.name gens.head? with
       | (r, stop, used) =>
         if stop then ([⟨e.name, e.seqid, r⟩], .goodbye)
         else
           match serveN f i (if used then gens.drop 1 else gens) rest with
           | (as, s) => (⟨e.name, e.seqid, r⟩ :: as, s)) := by
  obtain ⟨rest, hr, hrest⟩ := readFrameT_frame fastPathFrameSize (encEnvStrict e) tail cs hsz hcs
  refine ⟨rest, hrest, ?_⟩
  have hr' : readFrame cs = .ok (encEnvStrict e) rest := hr
  simp only [serveN, hr', envelope_roundtrip_strict e he, if_pos hreq]

def hsReq : Envelope := ⟨methodName .handshake, etCall, 1, handshakeArgs⟩
def byeReq : Envelope := ⟨methodName .goodbye, etCall, 1, goodbyeArgs⟩
def genReq (b : WValue) : Envelope := ⟨methodName .generate, etCall, 1, b⟩

theorem hsReq_ok : EnvOK hsReq ∧ (encEnvStrict hsReq).length < 2 ^ 32 := by
  refine ⟨⟨rfl, by decide, by decide, by decide⟩, by decide⟩

theorem byeReq_ok : EnvOK byeReq ∧ (encEnvStrict byeReq).length < 2 ^ 32 := by
  refine ⟨⟨rfl, by decide, by decide, by decide⟩, by decide⟩

/-- a generate request body the writer accepts and whose envelope fits a frame. -/
structure GenBodyOK (b : WValue) : Prop where
  isStruct : b.ttype = .struct
  wt : b.wt = true
  size : (encEnvStrict (genReq b)).length < 2 ^ 32

theorem genReq_ok (b : WValue) (h : GenBodyOK b) : EnvOK (genReq b) :=
  ⟨h.isStruct, h.wt, by show (methodName Req.generate).length < 2 ^ 31; decide,
    by show etCall.toNat < 128; decide⟩

theorem dispatch_handshake (i : Impl) (g : Option GenAnswer) :
    dispatch i (methodName .handshake) g = (.reply (handshakeResult i), false, false) := by
  simp [dispatch, methodName, splitColon, svcPlugin, mHandshake]

theorem dispatch_goodbye (i : Impl) (g : Option GenAnswer) :
    dispatch i (methodName .goodbye) g = (.reply (.struct []), true, false) := by
  simp [dispatch, methodName, splitColon, svcPlugin, mHandshake, mGoodbye]

theorem dispatch_generate (i : Impl) (hsg : i.hasSG = true) (a : Option Files) :
    dispatch i (methodName .generate) (some (.files a)) = (.genReply a, false, true) := by
  simp [dispatch, methodName, splitColon, svcPlugin, svcServiceGenerator, mGenerate, hsg]

/-- the generate requests of a session followed by goodbye. -/
def genSession (bodies : List WValue) : List Bytes :=
  bodies.map (fun b => encEnvStrict (genReq b)) ++ [encEnvStrict byeReq]

theorem serveN_genSession (i : Impl) (hsg : i.hasSG = true) (bodies : List WValue) :
    ∀ (answers : List (Option Files)), answers.length = bodies.length →
    (∀ b ∈ bodies, GenBodyOK b) → ∀ (f : Nat), bodies.length < f → ∀ (junk : Bytes) (cs : Chunks),
    cs.flatten = frames (genSession bodies) ++ junk →
    serveN f i (answers.map .files) cs =
      (answers.map (fun a => ⟨methodName .generate, 1, .genReply a⟩) ++
        [⟨methodName .goodbye, 1, .reply (.struct [])⟩], .goodbye) := by
  induction bodies with
  | nil =>
    intro answers hlen _ f hf junk cs hcs
    match f, hf with
    | f + 1, _ =>
      have ha : answers = [] := List.eq_nil_of_length_eq_zero (by simpa using hlen)
      subst ha
      have hcs' : cs.flatten = frame (encEnvStrict byeReq) ++ junk := by
        simpa [genSession, frames] using hcs
      obtain ⟨rest, _, hstep⟩ := serveN_env f i [] byeReq byeReq_ok.1 (Or.inl rfl) byeReq_ok.2 junk cs hcs'
      rw [List.map_nil, hstep]
      simp [byeReq, dispatch_goodbye]
  | cons b bs ih =>
    intro answers hlen hb f hf junk cs hcs
    match f, hf with
    | f + 1, hf =>
      match answers, hlen with
      | a :: as, hlen =>
        have hcs' : cs.flatten = frame (encEnvStrict (genReq b)) ++ (frames (genSession bs) ++ junk) := by
          simpa [genSession, frames] using hcs
        have hbo := hb b (by simp)
        obtain ⟨rest, hrest, hstep⟩ := serveN_env f i ((a :: as).map .files) (genReq b)
          (genReq_ok b hbo) (Or.inl rfl) hbo.size _ cs hcs'
        rw [hstep]
        have hih := ih as (by simpa using hlen) (fun x hx => hb x (by simp [hx])) f (by simpa using hf)
          junk rest hrest
        simp [genReq, dispatch_generate i hsg, hih]

/-- **conforming plugin**: the session the host conducts — handshake, one generate request
per body (answered by the user's generator with `answers`), goodbye — followed by arbitrary
further bytes, delivered in ANY segmentation: the library answers each request in order
(handshake with its name, the API version and the feature; generate with the generator's
files; goodbye with an empty reply) and stops right after the goodbye reply. -/
theorem conforming_plugin (i : Impl) (hsg : i.hasSG = true) (bodies : List WValue)
    (answers : List (Option Files)) (hlen : answers.length = bodies.length)
    (hb : ∀ b ∈ bodies, GenBodyOK b) (junk : Bytes) (cs : Chunks)
    (hcs : cs.flatten = frames (encEnvStrict hsReq :: genSession bodies) ++ junk) :
    serve i (answers.map .files) cs =
      (⟨methodName .handshake, 1, .reply (handshakeResult i)⟩ ::
        (answers.map (fun a => ⟨methodName .generate, 1, .genReply a⟩) ++
          [⟨methodName .goodbye, 1, .reply (.struct [])⟩]), .goodbye) := by
  unfold serve
  have hcs' : cs.flatten = frame (encEnvStrict hsReq) ++ (frames (genSession bodies) ++ junk) := by
    simpa [frames] using hcs
  -- enough fuel: every frame has at least four bytes
  have hfuel : bodies.length + 1 < cs.flatten.length := by
    have h1 := frames_length_ge (genSession bodies)
    have h2 : (genSession bodies).length = bodies.length + 1 := by simp [genSession]
    rw [hcs', List.length_append, List.length_append, frame_length]
    omega
  obtain ⟨n, hn⟩ : ∃ n, cs.flatten.length = n + 1 := ⟨cs.flatten.length - 1, by omega⟩
  rw [hn]
  obtain ⟨rest, hrest, hstep⟩ := serveN_env (n + 1) i (answers.map .files) hsReq hsReq_ok.1 (Or.inl rfl) hsReq_ok.2 _ cs hcs'
  rw [hstep]
  have := serveN_genSession i hsg bodies answers hlen hb (n + 1) (by omega) junk rest hrest
  simp [hsReq, dispatch_handshake, this]

/-! ### the host accepts the library's handshake answer -/

theorem parse_handshakeResult (i : Impl) :
    parseResult parseHsResp (handshakeResult i) =
      some ⟨i.name, UInt32.ofNat apiVersion,
        if i.hasSG then [UInt32.ofNat featureServiceGenerator] else []⟩ := by
  cases h : i.hasSG <;>
    simp [parseResult, resultLoop, parseHsResp, hsFields, hsField, handshakeResult, h, i32s, TType.code]

/-- what the library writes for its handshake answer. -/
def hsAnswerBytes (i : Impl) : Bytes :=
  encEnvStrict ⟨methodName .handshake, etReply, 1, handshakeResult i⟩

/-- a library-built plugin that is started under its own name passes `NewTransportHandle`,
whatever the segmentation of its answer; the service-generator feature is seen iff the plugin
has a generator. -/
theorem host_accepts_library_handshake (i : Impl) (p : Plugin) (hname : p.name = i.name)
    (hstart : p.exitAtStart = false)
    (hn : i.name.length < 2 ^ 31) (hv : i.libVersion.length < 2 ^ 31)
    (hsz : (hsAnswerBytes i).length < 2 ^ 32)
    (hout : p.hs.out.flatten = frame (hsAnswerBytes i)) :
    (hsPhase p).hsOk = true ∧
    (hsPhase p).hsResp = some ⟨i.name, UInt32.ofNat apiVersion,
      if i.hasSG then [UInt32.ofNat featureServiceGenerator] else []⟩ ∧
    wantsGenerate (hsPhase p) = i.hasSG := by
  have henv : EnvOK ⟨methodName .handshake, etReply, 1, handshakeResult i⟩ := by
    refine ⟨rfl, ?_, by show (methodName Req.handshake).length < 2 ^ 31; decide,
      by show etReply.toNat < 128; decide⟩
    cases h : i.hasSG <;>
      simp [handshakeResult, WValue.wt, wtFields, wtList, h, hn, hv, WValue.tcode, WValue.ttype]
  obtain ⟨rest, hr, _⟩ := readFrameT_frame fastPathFrameSize (hsAnswerBytes i) [] p.hs.out hsz
    (by simpa using hout)
  have hr' : readFrame ([] ++ p.hs.out) = .ok (hsAnswerBytes i) rest := by
    rw [List.nil_append]; exact hr
  have hreply : replyValue (hsAnswerBytes i) = some (handshakeResult i) := by
    unfold replyValue hsAnswerBytes
    rw [envelope_roundtrip_strict _ henv]
    simp [etReply]
  have hacc : handshakeAccepts p ⟨i.name, UInt32.ofNat apiVersion,
      if i.hasSG then [UInt32.ofNat featureServiceGenerator] else []⟩ = true := by
    simp [handshakeAccepts, hname, apiVersion]
  have h1 : (hsPhase p).hsOk = true := by
    unfold hsPhase exchange startState
    simp only [hstart, Bool.not_false, if_true, Bool.false_eq_true, if_false, hr', hreply,
      Option.bind_some, parse_handshakeResult, hacc]
  have h2 : (hsPhase p).hsResp = some ⟨i.name, UInt32.ofNat apiVersion,
      if i.hasSG then [UInt32.ofNat featureServiceGenerator] else []⟩ := by
    unfold hsPhase exchange startState
    simp only [hstart, Bool.not_false, if_true, Bool.false_eq_true, if_false, hr', hreply,
      Option.bind_some, parse_handshakeResult, hacc]
  refine ⟨h1, h2, ?_⟩
  unfold wantsGenerate
  rw [h2, h1]
  cases h : i.hasSG <;> simp [hasServiceGenerator, featureServiceGenerator]

end ThriftVerif.Proto
