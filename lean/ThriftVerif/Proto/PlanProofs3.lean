/-
M-Proto proofs, part 4 (C17): concrete witnesses, all by kernel evaluation (`decide`).
D42 (conflicts were detected on raw strings while files are written at the cleaned join) and
D34 (a Thrift file called "...thrift" made the core generator leave the output directory) are
repaired, and so is D33 (a plan whose paths clash file-vs-directory, or name the output
directory itself, used to be accepted and then failed half-way through the write loop): their
former witnesses are regression theorems now. What stays is that the write loop by itself is
not atomic when the operating system refuses a write.
-/
import ThriftVerif.Proto.PlanProofs2
import ThriftVerif.Proto.PathProofs2

namespace ThriftVerif.Proto

namespace C17Inst  -- own namespace: instance names cannot clash with other proof files
deriving instance DecidableEq for Except
deriving instance DecidableEq for FS
end C17Inst

/-- D42 (fixed), regression: two plugins answer `x.go` and `./x.go` — the same file; the plan
is now refused, in either completion order. -/
theorem conflict_after_clean_detected_witness :
    generatePlan "/r".toList "/o".toList []
        [some [("x.go".toList, [1])], some [("./x.go".toList, [2])]] [0, 1]
      = .error .pluginConflict ∧
    generatePlan "/r".toList "/o".toList []
        [some [("x.go".toList, [1])], some [("./x.go".toList, [2])]] [1, 0]
      = .error .pluginConflict := by decide

/-- the same between the core generator (`a/a.go` for `/r/a.thrift`) and a plugin (`a//a.go`),
and for one plugin against itself. -/
theorem conflict_after_clean_detected_core_witness :
    generatePlan "/r".toList "/o".toList [⟨"/r/a.thrift".toList, some [1]⟩]
        [some [("a//a.go".toList, [2])]] [0]
      = .error .mergeConflict ∧
    generatePlan "/r".toList "/o".toList []
        [some [("x.go".toList, [1]), ("./x.go".toList, [2])]] [0]
      = .error .pluginConflict := by decide

/-- D34 (fixed), regression: `/r/...thrift` (base name ".." + ".thrift"). The common ancestor
is `/r`, the package path would be "..": `modulePath` refuses, the command line fails before
anything is planned. -/
theorem dotdot_thrift_refused_witness :
    findCommonAncestor ["/r/...thrift".toList] = some "/r".toList ∧
    rel "/r".toList (trimSuffix "/r/...thrift".toList thriftSuffix) = some dotdot ∧
    modulePath "/r".toList "/r/...thrift".toList = none ∧
    cliPlan "/w".toList none "/o".toList [⟨"/r/...thrift".toList, some [7]⟩] [] []
      = .error .moduleFailed := by decide

/-- with an explicit `--thrift-root` the same file was and is rejected (its relative path
"...thrift" happens to start with ".."); a root that is itself a `.thrift` path is refused too. -/
theorem dotdot_thrift_rejected_with_explicit_root :
    cliPlan "/w".toList (some "/r".toList) "/o".toList [⟨"/r/...thrift".toList, some [7]⟩] [] []
      = .error .moduleFailed ∧
    modulePath "/r.thrift".toList "/r.thrift".toList = none := by decide

/-- a module outside the given Thrift root is rejected; one inside is planned. -/
theorem ancestry_examples :
    cliPlan "/w".toList (some "/r".toList) "/o".toList [⟨"/s/a.thrift".toList, some [1]⟩] [] []
      = .error .moduleFailed ∧
    cliPlan "/w".toList (some "../r".toList) "o".toList [⟨"/r/a.thrift".toList, some [1]⟩] [] []
      = .ok [("/w/o/a/a.go".toList, [1])] := by decide

/-- `findCommonAncestor`: the deepest common directory; an error if that is "/" or a path is relative. -/
theorem findCommonAncestor_examples :
    findCommonAncestor ["/r/a/x.thrift".toList, "/r/b/y.thrift".toList] = some "/r".toList ∧
    findCommonAncestor ["/a/x.thrift".toList, "/b/y.thrift".toList] = none ∧
    findCommonAncestor ["/a/x.thrift".toList, "b/y.thrift".toList] = none := by decide

/-- the write loop by itself is not atomic: given two writes that clash (a file below a path
that is also to be a file), the first file is written, the second write fails because its
path is now a directory; the first file stays. (Before the D33 repair a plan could contain
these two writes.) -/
theorem write_loop_not_atomic_witness :
    writeLoop ⟨[], []⟩ [("/o/main/main.go".toList, [1]), ("/o/main".toList, [2])]
      = (⟨[("/o/main/main.go".toList, [1])], ["/o".toList, "/o/main".toList]⟩, false) := by
  decide

/-- D33 (fixed), regression: the plan that led there — `main/main.go` from one plugin, `main`
from another — is refused, in either completion order; so is a plugin file `main` beside the
core file `main/main.go`, a plugin file below the core file, and one plugin with `a`, `a/b.go`. -/
theorem file_vs_directory_refused_witness :
    generatePlan "/r".toList "/o".toList []
        [some [("main/main.go".toList, [1])], some [("main".toList, [2])]] [0, 1]
      = .error .fileVsDir ∧
    generatePlan "/r".toList "/o".toList []
        [some [("main/main.go".toList, [1])], some [("main".toList, [2])]] [1, 0]
      = .error .fileVsDir ∧
    generatePlan "/r".toList "/o".toList [⟨"/r/main.thrift".toList, some [1]⟩]
        [some [("main".toList, [2])]] [0]
      = .error .fileVsDir ∧
    generatePlan "/r".toList "/o".toList [⟨"/r/main.thrift".toList, some [1]⟩]
        [some [("main/main.go/x".toList, [2])]] [0]
      = .error .fileVsDir ∧
    generatePlan "/r".toList "/o".toList []
        [some [("a".toList, [1]), ("a/b.go".toList, [2])]] [0]
      = .error .fileVsDir :=
  ⟨by decide, by decide, by decide, by decide, by decide⟩

/-- D33 (fixed), regression: a plugin path that denotes the output directory itself ("", ".",
"./", "/") is refused — and reported first when there is a file-vs-directory clash as well. -/
theorem output_directory_refused_witness :
    generatePlan "/r".toList "/o".toList [] [some [([], [1])]] [0] = .error .outDirItself ∧
    generatePlan "/r".toList "/o".toList [] [some [(".".toList, [1])]] [0] = .error .outDirItself ∧
    generatePlan "/r".toList "/o".toList [] [some [("./".toList, [1])]] [0] = .error .outDirItself ∧
    generatePlan "/r".toList "/o".toList [] [some [("/".toList, [1])]] [0] = .error .outDirItself ∧
    generatePlan "/r".toList "/o".toList []
        [some [("a/b".toList, [1]), ("a".toList, [2]), ([], [3])]] [0] = .error .outDirItself :=
  ⟨by decide, by decide, by decide, by decide, by decide⟩

/-- names that merely resemble each other are not a clash. -/
theorem near_clashes_accepted_witness :
    generatePlan "/r".toList "/o".toList [⟨"/r/main.thrift".toList, some [1]⟩]
        [some [("main-x".toList, [2]), ("mai".toList, [3]), ("main/main.gox".toList, [4])]] [0]
      = .ok [("/o/main/main.go".toList, [1]), ("/o/main-x".toList, [2]), ("/o/mai".toList, [3]),
          ("/o/main/main.gox".toList, [4])] := by decide

/-- what is left: an ACCEPTED plan on an output directory that is in the way (a regular file
`main` where the plan needs a directory). The first file is written, `MkdirAll` then fails. -/
theorem write_loop_blocked_witness :
    generatePlan "/r".toList "/o".toList []
        [some [("a.go".toList, [1]), ("main/x.go".toList, [2])]] [0]
      = .ok [("/o/a.go".toList, [1]), ("/o/main/x.go".toList, [2])] ∧
    writeLoop ⟨[("/o/main".toList, [9])], ["/o".toList]⟩
        [("/o/a.go".toList, [1]), ("/o/main/x.go".toList, [2])]
      = (⟨[("/o/main".toList, [9]), ("/o/a.go".toList, [1])], ["/o".toList]⟩, false) := by decide

/-- … and the same plan on an output directory that is not in the way (other files, a stale
`a.go`, the directory `main` already there): everything is written, `a.go` replaced. -/
theorem write_loop_existing_witness :
    writeLoop ⟨[("/o/existing.txt".toList, [9]), ("/o/a.go".toList, [7])], ["/o".toList, "/o/main".toList]⟩
        [("/o/a.go".toList, [1]), ("/o/main/x.go".toList, [2])]
      = (⟨[("/o/existing.txt".toList, [9]), ("/o/a.go".toList, [1]), ("/o/main/x.go".toList, [2])],
          ["/o".toList, "/o/main".toList]⟩, true) := by decide

end ThriftVerif.Proto
