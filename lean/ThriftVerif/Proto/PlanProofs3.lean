/-
M-Proto proofs, part 4 (C17): concrete witnesses, all by kernel evaluation (`decide`).
D42 (conflicts were detected on raw strings while files are written at the cleaned join) and
D34 (a Thrift file called "...thrift" made the core generator leave the output directory) are
repaired: their former witnesses are regression theorems now. D33 (the write loop is not
atomic) is NOT repaired and stays a negation witness.
-/
import ThriftVerif.Proto.PlanProofs2
import ThriftVerif.Proto.PathProofs2

namespace ThriftVerif.Proto

namespace C17Inst  -- own namespace: instance names cannot clash with other proof files
deriving instance DecidableEq for Except
deriving instance DecidableEq for FS
end C17Inst

/-- D42 (fixed), regression: two plugins answer `x.go` and `./x.go` — the same file; the plan
is now refused, in either completion order. -/
theorem conflict_after_clean_detected_witness :
    generatePlan "/r".toList "/o".toList []
        [some [("x.go".toList, [1])], some [("./x.go".toList, [2])]] [0, 1]
      = .error .pluginConflict ∧
    generatePlan "/r".toList "/o".toList []
        [some [("x.go".toList, [1])], some [("./x.go".toList, [2])]] [1, 0]
      = .error .pluginConflict := by decide

/-- the same between the core generator (`a/a.go` for `/r/a.thrift`) and a plugin (`a//a.go`),
and for one plugin against itself. -/
theorem conflict_after_clean_detected_core_witness :
    generatePlan "/r".toList "/o".toList [⟨"/r/a.thrift".toList, some [1]⟩]
        [some [("a//a.go".toList, [2])]] [0]
      = .error .mergeConflict ∧
    generatePlan "/r".toList "/o".toList []
        [some [("x.go".toList, [1]), ("./x.go".toList, [2])]] [0]
      = .error .pluginConflict := by decide

/-- D34 (fixed), regression: `/r/...thrift` (base name ".." + ".thrift"). The common ancestor
is `/r`, the package path would be "..": `modulePath` refuses, the command line fails before
anything is planned. -/
theorem dotdot_thrift_refused_witness :
    findCommonAncestor ["/r/...thrift".toList] = some "/r".toList ∧
    rel "/r".toList (trimSuffix "/r/...thrift".toList thriftSuffix) = some dotdot ∧
    modulePath "/r".toList "/r/...thrift".toList = none ∧
    cliPlan "/w".toList none "/o".toList [⟨"/r/...thrift".toList, some [7]⟩] [] []
      = .error .moduleFailed := by decide

/-- with an explicit `--thrift-root` the same file was and is rejected (its relative path
"...thrift" happens to start with ".."); a root that is itself a `.thrift` path is refused too. -/
theorem dotdot_thrift_rejected_with_explicit_root :
    cliPlan "/w".toList (some "/r".toList) "/o".toList [⟨"/r/...thrift".toList, some [7]⟩] [] []
      = .error .moduleFailed ∧
    modulePath "/r.thrift".toList "/r.thrift".toList = none := by decide

/-- a module outside the given Thrift root is rejected; one inside is planned. -/
theorem ancestry_examples :
    cliPlan "/w".toList (some "/r".toList) "/o".toList [⟨"/s/a.thrift".toList, some [1]⟩] [] []
      = .error .moduleFailed ∧
    cliPlan "/w".toList (some "../r".toList) "o".toList [⟨"/r/a.thrift".toList, some [1]⟩] [] []
      = .ok [("/w/o/a/a.go".toList, [1])] := by decide

/-- `findCommonAncestor`: the deepest common directory; an error if that is "/" or a path is relative. -/
theorem findCommonAncestor_examples :
    findCommonAncestor ["/r/a/x.thrift".toList, "/r/b/y.thrift".toList] = some "/r".toList ∧
    findCommonAncestor ["/a/x.thrift".toList, "/b/y.thrift".toList] = none ∧
    findCommonAncestor ["/a/x.thrift".toList, "b/y.thrift".toList] = none := by decide

/-- D33: the plan succeeded (two different cleaned paths), the first file is written, the
second write fails because its path is now a directory; the first file stays. -/
theorem write_loop_not_atomic_witness :
    writeLoop ⟨[], []⟩ [("/o/main/main.go".toList, [1]), ("/o/main".toList, [2])]
      = (⟨[("/o/main/main.go".toList, [1])], ["/o".toList, "/o/main".toList]⟩, false) := by
  decide

/-- and the plan that leads there is accepted. -/
theorem write_loop_not_atomic_plan :
    generatePlan "/r".toList "/o".toList []
        [some [("main/main.go".toList, [1])], some [("main".toList, [2])]] [0, 1]
      = .ok [("/o/main/main.go".toList, [1]), ("/o/main".toList, [2])] := by decide

end ThriftVerif.Proto
