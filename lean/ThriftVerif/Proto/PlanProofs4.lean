/-
M-Proto proofs, part 5 (C17): no false refusals. The repaired `modulePath` refuses package
paths outside the Thrift root (finding D34, fixed); it still accepts every cleaned absolute
module below the root the command line determines, except a file called "...thrift".
-/
import ThriftVerif.Proto.PlanProofs2
import ThriftVerif.Proto.PathProofs4

set_option linter.unusedSimpArgs false
set_option linter.unusedVariables false

namespace ThriftVerif.Proto

theorem verifyAncestry_mem (root : Str) (fs : List Str) (h : verifyAncestry root fs = true)
    (f : Str) (hf : f ∈ fs) : verifyAncestry root [f] = true := by
  obtain ⟨q, hq, hp⟩ := verifyAncestry_sound root fs h f hf
  simp [verifyAncestry, hq, hp]

theorem clean_absPath (cwd p : Str) (hc : isAbs cwd = true) : clean (absPath cwd p) = absPath cwd p := by
  unfold absPath
  split
  · rename_i hp; exact clean_clean_abs p hp
  · obtain ⟨t, rfl⟩ := (isAbs_iff _).1 hc
    have : isAbs ('/' :: t ++ '/' :: p) = true := rfl
    simp only [join2, ne_eq, reduceCtorEq, not_false_eq_true, if_true]
    exact clean_clean_abs _ this

/-- the base name of a module's Thrift file, minus ".thrift", is not "..". -/
def NotDotDotName (f : Str) : Prop :=
  (splitSlash (trimSuffix f thriftSuffix)).getLast? ≠ some dotdot

/-- no false refusals: for cleaned absolute module paths other than the root whose base
name minus ".thrift" is not "..", the repaired `modulePath` (which refuses packages outside
the root) succeeds under the root the command line determines, with or without `--thrift-root`. -/
theorem cli_modules_accepted (cwd : Str) (tr : Option Str) (mods : List ModIn)
    (hcwd : isAbs cwd = true)
    (hmods : ∀ m ∈ mods, CleanAbs m.thriftPath ∧ NotDotDotName m.thriftPath)
    (hroot : ∀ m ∈ mods, cliRoot cwd tr mods ≠ some m.thriftPath) :
    ∀ root, cliRoot cwd tr mods = some root → ∀ m ∈ mods,
      (modulePath root m.thriftPath).isSome = true := by
  intro root hr m hm
  have hne : m.thriftPath ≠ root := fun e => hroot m hm (by rw [hr, e])
  have hmem : m.thriftPath ∈ mods.map (·.thriftPath) := List.mem_map_of_mem hm
  obtain ⟨hca, hnm⟩ := hmods m hm
  have key : ∃ p', modulePath root m.thriftPath = some p' ∧ (∀ c ∈ splitSlash p', c ≠ dotdot) ∧
      ∀ out, isAbs out = true → within (clean out) (join2 out p') = true := by
    cases tr with
    | none =>
      simp only [cliRoot] at hr
      exact core_path_of_common_ancestor _ root _ hca hr hmem hne hnm
    | some r =>
      simp only [cliRoot] at hr
      split at hr
      · rename_i hv
        simp only [Option.some.injEq] at hr
        subst hr
        exact core_path_of_ancestry _ _ (isAbs_absPath cwd r hcwd) (clean_absPath cwd r hcwd) hca.2 hne
          (verifyAncestry_mem _ _ hv _ hmem) hnm
      · exact absurd hr (by simp)
  obtain ⟨p', hp', _⟩ := key
  simp [hp']

end ThriftVerif.Proto
