/-
M-Proto proofs, part 5 (C17): end to end. For cleaned absolute module paths the command line
plans writes only inside the output directory, unless a module's last path component minus
".thrift" is ".." (finding D34) — with a given `--thrift-root` as well as with the common ancestor.
-/
import ThriftVerif.Proto.PlanProofs2
import ThriftVerif.Proto.PathProofs4

set_option linter.unusedSimpArgs false
set_option linter.unusedVariables false

namespace ThriftVerif.Proto

theorem verifyAncestry_mem (root : Str) (fs : List Str) (h : verifyAncestry root fs = true)
    (f : Str) (hf : f ∈ fs) : verifyAncestry root [f] = true := by
  obtain ⟨q, hq, hp⟩ := verifyAncestry_sound root fs h f hf
  simp [verifyAncestry, hq, hp]

theorem clean_absPath (cwd p : Str) (hc : isAbs cwd = true) : clean (absPath cwd p) = absPath cwd p := by
  unfold absPath
  split
  · rename_i hp; exact clean_clean_abs p hp
  · obtain ⟨t, rfl⟩ := (isAbs_iff _).1 hc
    have : isAbs ('/' :: t ++ '/' :: p) = true := rfl
    simp only [join2, ne_eq, reduceCtorEq, not_false_eq_true, if_true]
    exact clean_clean_abs _ this

/-- the base name of a module's Thrift file, minus ".thrift", is not "..". -/
def NotDotDotName (f : Str) : Prop :=
  (splitSlash (trimSuffix f thriftSuffix)).getLast? ≠ some dotdot

/-- the module-path hypothesis of `cli_confined`, discharged. -/
theorem cli_core_paths_no_dotdot (cwd : Str) (tr : Option Str) (mods : List ModIn)
    (hcwd : isAbs cwd = true)
    (hmods : ∀ m ∈ mods, CleanAbs m.thriftPath ∧ NotDotDotName m.thriftPath)
    (hroot : ∀ m ∈ mods, cliRoot cwd tr mods ≠ some m.thriftPath) :
    ∀ root, cliRoot cwd tr mods = some root → ∀ m ∈ mods, ∀ p,
      modulePath root m.thriftPath = some p → ∀ c ∈ splitSlash p, c ≠ dotdot := by
  intro root hr m hm p hp
  have hne : m.thriftPath ≠ root := fun e => hroot m hm (by rw [hr, e])
  have hmem : m.thriftPath ∈ mods.map (·.thriftPath) := List.mem_map_of_mem hm
  obtain ⟨hca, hnm⟩ := hmods m hm
  have key : ∃ p', modulePath root m.thriftPath = some p' ∧ (∀ c ∈ splitSlash p', c ≠ dotdot) ∧
      ∀ out, isAbs out = true → within (clean out) (join2 out p') = true := by
    cases tr with
    | none =>
      simp only [cliRoot] at hr
      refine core_path_of_common_ancestor _ root _ ?_ hr hmem hne hnm
      intro g hg
      obtain ⟨m', hm', rfl⟩ := List.mem_map.1 hg
      exact (hmods m' hm').1
    | some r =>
      simp only [cliRoot] at hr
      split at hr
      · rename_i hv
        simp only [Option.some.injEq] at hr
        subst hr
        exact core_path_of_ancestry _ _ (isAbs_absPath cwd r hcwd) (clean_absPath cwd r hcwd) hca.2 hne
          (verifyAncestry_mem _ _ hv _ hmem) hnm
      · exact absurd hr (by simp)
  obtain ⟨p', hp', hnd, _⟩ := key
  rw [hp] at hp'
  simp only [Option.some.injEq] at hp'
  subst hp'
  exact hnd

/-- **C17** end to end: cleaned absolute module paths, none of them the Thrift root itself,
none with base name "...thrift": every planned write is inside the output directory. -/
theorem cli_confined_clean_mods (cwd : Str) (tr : Option Str) (out : Str) (mods plugs ord) (ws : Files)
    (h : cliPlan cwd tr out mods plugs ord = .ok ws) (hcwd : isAbs cwd = true)
    (hmods : ∀ m ∈ mods, CleanAbs m.thriftPath ∧ NotDotDotName m.thriftPath)
    (hroot : ∀ m ∈ mods, cliRoot cwd tr mods ≠ some m.thriftPath) :
    ∀ w ∈ ws, within (clean (absPath cwd out)) w.1 = true :=
  cli_confined cwd tr out mods plugs ord ws h hcwd
    (cli_core_paths_no_dotdot cwd tr mods hcwd hmods hroot)

end ThriftVerif.Proto
