/-
internal/multiplex: the client prefixes the method name with "<service>:" (`c.name + ":" + name`), the
handler cuts the envelope name at the FIRST colon (`strings.SplitN(name, ":", 2)`) — model `splitColon`
of Proto/Server.lean. What the service is handed is exactly the method the client was given, colons
and arbitrary bytes included. Core-only.
-/
import ThriftVerif.Proto.Server

namespace ThriftVerif.Proto
open ThriftVerif.Wire

/-- the envelope name a multiplexing client sends. -/
def muxName (svc m : Bytes) : Bytes := svc ++ 0x3a :: m

theorem splitColon_mux (svc m : Bytes) (h : (0x3a : UInt8) ∉ svc) :
    splitColon (muxName svc m) = some (svc, m) := by
  induction svc with
  | nil => simp [muxName, splitColon]
  | cons b r ih =>
    simp only [List.mem_cons, not_or] at h
    have hb : ¬ b = 0x3a := fun hb => h.1 hb.symm
    have := ih h.2
    simp only [muxName, List.cons_append] at this ⊢
    simp [splitColon, hb, this]

theorem splitColon_none_iff (n : Bytes) : splitColon n = none ↔ (0x3a : UInt8) ∉ n := by
  induction n with
  | nil => simp [splitColon]
  | cons b r ih =>
    simp only [splitColon, List.mem_cons, not_or]
    by_cases hb : b = 0x3a
    · simp [hb]
    · simp only [hb, if_false]
      constructor
      · intro h
        refine ⟨fun hb' => hb hb'.symm, ?_⟩
        cases hs : splitColon r with
        | none => exact ih.mp hs
        | some p => simp [hs] at h
      · intro h
        rw [ih.mpr h.2]

/-- whatever `splitColon` returns puts the name back together, and the service part has no colon:
the cut is at the first colon. -/
theorem splitColon_some (n svc m : Bytes) (h : splitColon n = some (svc, m)) :
    n = muxName svc m ∧ (0x3a : UInt8) ∉ svc := by
  induction n generalizing svc with
  | nil => simp [splitColon] at h
  | cons b r ih =>
    simp only [splitColon] at h
    by_cases hb : b = 0x3a
    · simp only [hb, if_true, Option.some.injEq, Prod.mk.injEq] at h
      obtain ⟨rfl, rfl⟩ := h
      simp [muxName, hb]
    · simp only [hb, if_false] at h
      cases hs : splitColon r with
      | none => simp [hs] at h
      | some p =>
        obtain ⟨x, y⟩ := p
        simp only [hs, Option.some.injEq, Prod.mk.injEq] at h
        obtain ⟨rfl, rfl⟩ := h
        obtain ⟨h1, h2⟩ := ih x hs
        refine ⟨by simp [muxName] at h1 ⊢; exact h1, ?_⟩
        simp only [List.mem_cons, not_or]
        exact ⟨fun hb' => hb hb'.symm, h2⟩

end ThriftVerif.Proto
