/-
M-Proto proofs, part 1 (C17): lexical facts about `splitSlash`, `joinSlash`, `comps`,
`clean`, `join2` and `within`.

Main result: `join_confined` — joining a path without a ".." component onto an
absolute directory stays inside that directory.
-/
import ThriftVerif.Proto.Path

set_option linter.unusedSimpArgs false
set_option linter.unusedVariables false

namespace ThriftVerif.Proto

/-! ### splitSlash -/

theorem splitSlash_ne_nil (s : Str) : splitSlash s ≠ [] := by
  cases s with
  | nil => simp [splitSlash]
  | cons c cs =>
    unfold splitSlash
    split
    · simp
    · split <;> simp

@[simp] theorem splitSlash_nil : splitSlash [] = [[]] := rfl

@[simp] theorem splitSlash_slash (cs : Str) : splitSlash ('/' :: cs) = [] :: splitSlash cs := by
  simp [splitSlash]

theorem splitSlash_cons_ne (c : Char) (cs : Str) (hc : c ≠ '/') :
    ∃ h t, splitSlash cs = h :: t ∧ splitSlash (c :: cs) = (c :: h) :: t := by
  cases hs : splitSlash cs with
  | nil => exact absurd hs (splitSlash_ne_nil cs)
  | cons h t => exact ⟨h, t, rfl, by simp [splitSlash, hc, hs]⟩

/-- `strings.Split` distributes over a separator. -/
theorem splitSlash_append_slash (a b : Str) :
    splitSlash (a ++ '/' :: b) = splitSlash a ++ splitSlash b := by
  induction a with
  | nil => simp
  | cons c a ih =>
    by_cases hc : c = '/'
    · subst hc; simp [ih]
    · obtain ⟨h, t, h1, h2⟩ := splitSlash_cons_ne c a hc
      obtain ⟨h', t', h1', h2'⟩ := splitSlash_cons_ne c (a ++ '/' :: b) hc
      rw [List.cons_append, h2', h2]
      rw [ih, h1] at h1'
      simp only [List.cons_append, List.cons.injEq] at h1'
      simp [h1'.1, h1'.2]

/-- no component contains a separator. -/
theorem splitSlash_no_slash (s : Str) : ∀ c ∈ splitSlash s, '/' ∉ c := by
  induction s with
  | nil => simp
  | cons x s ih =>
    by_cases hx : x = '/'
    · subst hx; simpa using ih
    · obtain ⟨h, t, h1, h2⟩ := splitSlash_cons_ne x s hx
      rw [h2]; rw [h1] at ih
      intro c hc
      simp only [List.mem_cons] at hc
      rcases hc with rfl | hc
      · have := ih h (by simp)
        simp [this, Ne.symm hx]
      · exact ih c (by simp [hc])

theorem splitSlash_of_no_slash (s : Str) (h : '/' ∉ s) : splitSlash s = [s] := by
  induction s with
  | nil => rfl
  | cons x s ih =>
    simp only [List.mem_cons, not_or] at h
    have hx : x ≠ '/' := fun e => h.1 e.symm
    obtain ⟨hh, t, h1, h2⟩ := splitSlash_cons_ne x s hx
    rw [ih h.2] at h1
    simp only [List.cons.injEq] at h1
    rw [h2, ← h1.1, ← h1.2]

/-- the first component of a string whose split starts with a non-empty component. -/
theorem splitSlash_head_cons (s : Str) (x : Char) (h t : Str) (tl : List Str)
    (hs : splitSlash s = (x :: h) :: tl) : ∃ s', s = x :: s' := by
  cases s with
  | nil => simp at hs
  | cons c cs =>
    by_cases hc : c = '/'
    · subst hc; simp at hs
    · obtain ⟨h', t', h1, h2⟩ := splitSlash_cons_ne c cs hc
      rw [h2] at hs
      simp only [List.cons.injEq] at hs
      exact ⟨cs, by rw [hs.1.1]⟩

/-! ### joinSlash -/

theorem joinSlash_cons_cons (x y : Str) (r : List Str) :
    joinSlash (x :: y :: r) = x ++ '/' :: joinSlash (y :: r) := rfl

theorem joinSlash_cons_ne (x : Str) (r : List Str) (h : r ≠ []) :
    joinSlash (x :: r) = x ++ '/' :: joinSlash r := by
  cases r with
  | nil => exact absurd rfl h
  | cons y r => rfl

theorem joinSlash_append (a b : List Str) (ha : a ≠ []) (hb : b ≠ []) :
    joinSlash (a ++ b) = joinSlash a ++ '/' :: joinSlash b := by
  induction a with
  | nil => exact absurd rfl ha
  | cons x a ih =>
    cases a with
    | nil =>
      simp only [List.cons_append, List.nil_append]
      rw [joinSlash_cons_ne x b hb]; rfl
    | cons y a =>
      have := ih (by simp)
      simp only [List.cons_append] at this ⊢
      rw [joinSlash_cons_cons, this, joinSlash_cons_cons]
      simp

/-- `Split` inverts `Join` on slash-free components. -/
theorem splitSlash_joinSlash (l : List Str) (hl : l ≠ []) (h : ∀ c ∈ l, '/' ∉ c) :
    splitSlash (joinSlash l) = l := by
  induction l with
  | nil => exact absurd rfl hl
  | cons x l ih =>
    cases l with
    | nil => simpa [joinSlash] using splitSlash_of_no_slash x (h x (by simp))
    | cons y l =>
      rw [joinSlash_cons_cons, splitSlash_append_slash, ih (by simp) (fun c hc => h c (by simp [hc])),
        splitSlash_of_no_slash x (h x (by simp))]
      rfl

/-! ### comps / cleanStack -/

theorem comps_append_slash (a b : Str) : comps (a ++ '/' :: b) = comps a ++ comps b := by
  simp [comps, splitSlash_append_slash]

theorem mem_comps {s c : Str} : c ∈ comps s ↔ c ∈ splitSlash s ∧ c ≠ [] ∧ c ≠ dot := by
  simp [comps]

theorem cleanStack_append (r : Bool) (stk : List Str) (a b : List Str) :
    cleanStack r stk (a ++ b) = cleanStack r (cleanStack r stk a) b := by
  simp [cleanStack]

/-- components other than ".." are only pushed. -/
theorem cleanStack_push (r : Bool) (stk cs : List Str) (h : ∀ c ∈ cs, c ≠ dotdot) :
    cleanStack r stk cs = cs.reverse ++ stk := by
  induction cs generalizing stk with
  | nil => simp [cleanStack]
  | cons c cs ih =>
    have hc : c ≠ dotdot := h c (by simp)
    have := ih (c :: stk) (fun x hx => h x (by simp [hx]))
    simp only [cleanStack, List.foldl_cons] at this ⊢
    simp only [cleanStep, hc, if_false]
    rw [this]; simp

/-- in a rooted path the stack never holds "..". -/
theorem cleanStack_rooted_no_dotdot (stk cs : List Str) (h : ∀ c ∈ stk, c ≠ dotdot) :
    ∀ c ∈ cleanStack true stk cs, c ≠ dotdot := by
  induction cs generalizing stk with
  | nil => simpa [cleanStack] using h
  | cons c cs ih =>
    simp only [cleanStack, List.foldl_cons]
    apply ih
    unfold cleanStep
    split
    · cases stk with
      | nil => simp
      | cons t rest =>
        have ht : t ≠ dotdot := h t (by simp)
        simp only [ht, if_false]
        exact fun x hx => h x (by simp [hx])
    · rename_i hc
      intro x hx
      simp only [List.mem_cons] at hx
      rcases hx with rfl | hx
      · exact hc
      · exact h x hx

/-- every entry of the stack is an input component (or was there before). -/
theorem cleanStack_subset (r : Bool) (stk cs : List Str) :
    ∀ c ∈ cleanStack r stk cs, c ∈ stk ∨ c ∈ cs := by
  induction cs generalizing stk with
  | nil => intro c hc; exact Or.inl (by simpa [cleanStack] using hc)
  | cons x cs ih =>
    intro c hc
    simp only [cleanStack, List.foldl_cons] at hc
    rcases ih _ c hc with h | h
    · unfold cleanStep at h
      split at h
      · cases stk with
        | nil => cases r <;> simp_all
        | cons t rest =>
          simp only at h
          split at h
          · simp only [List.mem_cons] at h ⊢
            rcases h with h | h | h
            · exact Or.inr (Or.inl h)
            · exact Or.inl (Or.inl h)
            · exact Or.inl (Or.inr h)
          · exact Or.inl (by simp [h])
      · simp only [List.mem_cons] at h ⊢
        rcases h with h | h
        · exact Or.inr (Or.inl h)
        · exact Or.inl h
    · exact Or.inr (by simp [h])

/-! ### clean of an absolute path -/

theorem isAbs_iff (s : Str) : isAbs s = true ↔ ∃ t, s = '/' :: t := by
  cases s with
  | nil => simp [isAbs]
  | cons c t => simp [isAbs]

theorem clean_abs (s : Str) (h : isAbs s = true) :
    clean s = '/' :: joinSlash (cleanStack true [] (comps s)).reverse := by
  obtain ⟨t, rfl⟩ := (isAbs_iff _).1 h
  simp [clean, h]

theorem isAbs_clean (s : Str) (h : isAbs s = true) : isAbs (clean s) = true := by
  rw [clean_abs s h]; rfl

/-- `Join(out, p)` for absolute `out` and `p` without ".." component is `Clean(out)`
followed by the components of `p`. -/
theorem join2_abs_push (out p : Str) (ho : isAbs out = true)
    (hp : ∀ c ∈ splitSlash p, c ≠ dotdot) :
    join2 out p = '/' :: joinSlash ((cleanStack true [] (comps out)).reverse ++ comps p) := by
  obtain ⟨t, rfl⟩ := (isAbs_iff _).1 ho
  have habs : isAbs ('/' :: t ++ '/' :: p) = true := rfl
  have hne : ('/' :: t : Str) ≠ [] := by simp
  simp only [join2, hne, ne_eq, not_false_eq_true, if_true]
  rw [clean_abs _ habs, comps_append_slash, cleanStack_append,
    cleanStack_push _ _ (comps p) (fun c hc => hp c (mem_comps.1 hc).1)]
  simp

theorem within_refl (d : Str) : within d d = true := by simp [within]

theorem isPrefixOf_append_self (a b : Str) : a.isPrefixOf (a ++ b) = true := by
  induction a with
  | nil => simp
  | cons x a ih => simp [List.isPrefixOf, ih]

/-- the shape lemma behind confinement. -/
theorem within_root_join (a b : List Str) :
    within ('/' :: joinSlash a) ('/' :: joinSlash (a ++ b)) = true := by
  by_cases hb : b = []
  · subst hb; simp [within]
  by_cases ha : a = []
  · subst ha; simp [within, joinSlash, isAbs]
  · rw [joinSlash_append a b ha hb]
    have : hasPrefix ('/' :: joinSlash a ++ ['/']) ('/' :: (joinSlash a ++ '/' :: joinSlash b)) = true := by
      simp [hasPrefix]
    simp only [within, this, Bool.or_true]

/-- **C17** the lexical confinement theorem: for an absolute output directory, joining any
path that has no ".." component (absolute or not, repeated separators, "." components,
trailing slashes, empty) yields a path inside the cleaned output directory. -/
theorem join_confined (out p : Str) (ho : isAbs out = true)
    (hp : ∀ c ∈ splitSlash p, c ≠ dotdot) : within (clean out) (join2 out p) = true := by
  rw [join2_abs_push out p ho hp, clean_abs out ho]
  exact within_root_join _ _

/-! ### `strings.Contains(p, "..")` is stronger than "no .. component" -/

theorem containsDotDot_cons (c : Char) (s : Str) (h : containsDotDot s = true) :
    containsDotDot (c :: s) = true := by
  cases s with
  | nil => simp [containsDotDot] at h
  | cons x s => simp [containsDotDot, h]

theorem no_dotdot_component (p : Str) (h : containsDotDot p = false) :
    ∀ c ∈ splitSlash p, c ≠ dotdot := by
  induction p with
  | nil => simp [dotdot]
  | cons x s ih =>
    have hs : containsDotDot s = false := by
      cases hcs : containsDotDot s with
      | false => rfl
      | true => rw [containsDotDot_cons x s hcs] at h; exact absurd h (by simp)
    by_cases hx : x = '/'
    · subst hx
      intro c hc
      simp only [splitSlash_slash, List.mem_cons] at hc
      rcases hc with rfl | hc
      · simp [dotdot]
      · exact ih hs c hc
    · obtain ⟨hd, t, h1, h2⟩ := splitSlash_cons_ne x s hx
      intro c hc
      rw [h2] at hc
      simp only [List.mem_cons] at hc
      rcases hc with rfl | hc
      · intro hdd
        simp only [dotdot, List.cons.injEq] at hdd
        obtain ⟨rfl, rfl⟩ := hdd
        obtain ⟨s', rfl⟩ := splitSlash_head_cons s '.' [] [] t h1
        simp [containsDotDot] at h
      · exact ih hs c (by rw [h1]; simp [hc])

/-- **C17** corollary: what the plugin check (`strings.Contains(path, "..")`) buys. -/
theorem join_confined_of_contains (out p : Str) (ho : isAbs out = true)
    (hp : containsDotDot p = false) : within (clean out) (join2 out p) = true :=
  join_confined out p ho (no_dotdot_component p hp)

end ThriftVerif.Proto
