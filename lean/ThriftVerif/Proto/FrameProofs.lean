/-
M-Proto proofs about frames (C16, and the chunk-independence half of C12/C18):
`readFrameT` delivers exactly the framed message for EVERY segmentation of the
stream and EVERY fast-path threshold, never invents a message, and a stream that
ends inside a frame yields an error.
-/
import ThriftVerif.Proto.Frame
import ThriftVerif.Wire.EnvelopeProofs

namespace ThriftVerif.Proto
open ThriftVerif.Wire

theorem frame_length (m : Bytes) : (frame m).length = 4 + m.length := by
  simp [frame]

theorem take_frame (m tail : Bytes) : (frame m ++ tail).take 4 = beN 4 m.length := by
  unfold frame
  rw [List.append_assoc]
  exact List.take_left' (beN_length 4 _)

theorem drop_frame (m tail : Bytes) : (frame m ++ tail).drop 4 = m ++ tail := by
  unfold frame
  rw [List.append_assoc]
  exact List.drop_left' (beN_length 4 _)

theorem copyN_eq (n : Nat) (cs : Chunks) : copyN n cs = readFull n cs := rfl

theorem readFull_length (n : Nat) (cs : Chunks) : (readFull n cs).1.length ≤ n := by
  rw [readFull_fst]; simp [List.length_take]; omega

/-- reading one frame off a stream that starts with `frame m`, whatever the segmentation and
the threshold: the message comes back and the rest of the stream is untouched. -/
theorem readFrameT_frame (thr : Nat) (m tail : Bytes) (cs : Chunks) (hm : m.length < 2 ^ 32)
    (hcs : cs.flatten = frame m ++ tail) :
    ∃ rest, readFrameT thr cs = .ok m rest ∧ rest.flatten = tail := by
  have h1 := readFull_fst 4 cs
  have h2 := readFull_snd 4 cs
  unfold readFrameT
  generalize readFull 4 cs = pr at h1 h2
  obtain ⟨hdr, cs1⟩ := pr
  simp only at h1 h2
  have hhdr : hdr = beN 4 m.length := by rw [h1, hcs, take_frame]
  have hrest : cs1.flatten = m ++ tail := by rw [h2, hcs, drop_frame]
  have hlen : hdr.length = 4 := by rw [hhdr]; simp
  have hde : deN hdr = m.length := by
    rw [hhdr, deN_beN]; exact Nat.mod_eq_of_lt (by simpa using hm)
  simp only [hlen, hde]
  have e1 : ¬ ((4 : Nat) = 0) := by decide
  have e2 : ¬ ((4 : Nat) < 4) := by decide
  simp only [e1, e2, if_false]
  have hbody : ∀ (pr : Bytes × Chunks), pr.1 = cs1.flatten.take m.length →
      pr.2.flatten = cs1.flatten.drop m.length → pr.1 = m ∧ pr.2.flatten = tail := by
    intro pr ha hb
    rw [hrest] at ha hb
    constructor
    · rw [ha]; simp
    · rw [hb]; simp
  by_cases hz : m.length = 0
  · have hm0 : m = [] := List.eq_nil_of_length_eq_zero hz
    subst hm0
    simp only [List.length_nil] at *
    split
    · exact ⟨cs1, by simp, by simpa using hrest⟩
    · have hb := hbody (copyN 0 cs1) (readFull_fst 0 cs1) (readFull_snd 0 cs1)
      generalize copyN 0 cs1 = q at hb
      obtain ⟨b, cs2⟩ := q
      simp only at hb
      obtain ⟨hb1, hb2⟩ := hb
      subst hb1
      exact ⟨cs2, by simp, hb2⟩
  · simp only [hz, if_false]
    split
    · have hb := hbody (readFull m.length cs1) (readFull_fst _ cs1) (readFull_snd _ cs1)
      generalize readFull m.length cs1 = q at hb
      obtain ⟨b, cs2⟩ := q
      simp only at hb
      obtain ⟨hb1, hb2⟩ := hb
      subst hb1
      exact ⟨cs2, by simp, hb2⟩
    · have hb := hbody (copyN m.length cs1) (readFull_fst _ cs1) (readFull_snd _ cs1)
      generalize copyN m.length cs1 = q at hb
      obtain ⟨b, cs2⟩ := q
      simp only at hb
      obtain ⟨hb1, hb2⟩ := hb
      subst hb1
      exact ⟨cs2, by simp, hb2⟩

/-- at the end of the stream the reader reports a clean end. -/
theorem readFrameT_end (thr : Nat) (cs : Chunks) (h : cs.flatten = []) : readFrameT thr cs = .eof := by
  have h1 := readFull_fst 4 cs
  unfold readFrameT
  generalize readFull 4 cs = pr at h1
  obtain ⟨hdr, cs1⟩ := pr
  simp only at h1
  rw [h] at h1
  simp at h1
  subst h1
  simp

/-- soundness: whatever `readFrameT` delivers is literally framed at the front of the stream
(so a message can never be invented, shortened or mixed with its neighbours). -/
theorem readFrameT_sound (thr : Nat) (cs : Chunks) (m : Bytes) (rest : Chunks)
    (h : readFrameT thr cs = .ok m rest) :
    cs.flatten = frame m ++ rest.flatten ∧ m.length < 2 ^ 32 := by
  have h1 := readFull_fst 4 cs
  have h2 := readFull_snd 4 cs
  unfold readFrameT at h
  generalize readFull 4 cs = pr at h h1 h2
  obtain ⟨hdr, cs1⟩ := pr
  simp only at h h1 h2
  split at h
  · cases h
  split at h
  · cases h
  rename_i hn0 hn4
  have hl4 : hdr.length = 4 := by
    have : hdr.length ≤ 4 := by rw [h1]; simp [List.length_take]; omega
    omega
  have hfr : ∀ b : Bytes, b.length = deN hdr → frame b = hdr ++ b := by
    intro b hb
    unfold frame
    rw [hb, ← hl4, beN_deN]
  have hlt : deN hdr < 2 ^ 32 := by
    have := deN_lt hdr; rw [hl4] at this; simpa using this
  have hsplit : cs.flatten = hdr ++ cs1.flatten := by
    rw [h1, h2, List.take_append_drop]
  have body : ∀ (pr : Bytes × Chunks), pr.1 = cs1.flatten.take (deN hdr) →
      pr.2.flatten = cs1.flatten.drop (deN hdr) → pr.1.length = deN hdr →
      cs.flatten = frame pr.1 ++ pr.2.flatten ∧ pr.1.length < 2 ^ 32 := by
    intro pr ha hb hc
    refine ⟨?_, by omega⟩
    rw [hfr pr.1 hc, hsplit, ha, hb, List.append_assoc, List.take_append_drop]
  split at h
  · split at h
    · rename_i hz
      cases h
      refine ⟨?_, by simp⟩
      have := hfr [] (by simpa using hz.symm)
      rw [this, hsplit]; simp
    · have hb := body (readFull (deN hdr) cs1) (readFull_fst _ _) (readFull_snd _ _)
      generalize readFull (deN hdr) cs1 = q at h hb
      obtain ⟨b, cs2⟩ := q
      simp only at h hb
      split at h
      · rename_i hbl
        cases h
        exact hb hbl
      · split at h <;> cases h
  · have hb := body (copyN (deN hdr) cs1) (readFull_fst _ _) (readFull_snd _ _)
    generalize copyN (deN hdr) cs1 = q at h hb
    obtain ⟨b, cs2⟩ := q
    simp only at h hb
    split at h
    · rename_i hbl
      cases h
      exact hb hbl
    · cases h

/-- a stream that stops inside a frame (truncated body, or a prefix announcing more than
there is — "oversized prefix") is never answered with a message. -/
theorem readFrameT_incomplete (thr : Nat) (cs : Chunks) (m : Bytes) (k : Nat)
    (hm : m.length < 2 ^ 32) (hk : k < (frame m).length) (hcs : cs.flatten = (frame m).take k) :
    ∀ m' rest, readFrameT thr cs ≠ .ok m' rest := by
  intro m' rest h
  obtain ⟨hs, hm'⟩ := readFrameT_sound thr cs m' rest h
  have hlen : cs.flatten.length = k := by
    rw [hcs, List.length_take]; omega
  have hge : 4 + m'.length ≤ k := by
    have := congrArg List.length hs
    rw [hlen, List.length_append, frame_length] at this
    omega
  -- the first four bytes agree, hence the declared lengths agree
  have h4 : (cs.flatten).take 4 = beN 4 m'.length := by rw [hs, take_frame]
  have h4' : (cs.flatten).take 4 = beN 4 m.length := by
    rw [hcs, List.take_take, Nat.min_eq_left (by omega)]
    have := take_frame m []
    simpa using this
  have : m'.length % 256 ^ 4 = m.length % 256 ^ 4 := by
    have := congrArg deN (h4.symm.trans h4')
    simpa [deN_beN] using this
  have e1 : m'.length % 256 ^ 4 = m'.length := Nat.mod_eq_of_lt (by simpa using hm')
  have e2 : m.length % 256 ^ 4 = m.length := Nat.mod_eq_of_lt (by simpa using hm)
  rw [frame_length] at hk
  omega

/-- all frames of a stream, for every segmentation. -/
theorem readFramesN_frames (thr : Nat) (msgs : List Bytes) (hm : ∀ m ∈ msgs, m.length < 2 ^ 32)
    (f : Nat) (hf : msgs.length < f) (cs : Chunks) (hcs : cs.flatten = frames msgs) :
    readFramesN thr f cs = (msgs, true) := by
  induction msgs generalizing f cs with
  | nil =>
    match f, hf with
    | f + 1, _ =>
      simp only [readFramesN]
      rw [readFrameT_end thr cs (by simpa [frames] using hcs)]
  | cons m ms ih =>
    match f, hf with
    | f + 1, hf =>
      have hcs' : cs.flatten = frame m ++ frames ms := by simpa [frames] using hcs
      obtain ⟨rest, hr, hrest⟩ := readFrameT_frame thr m (frames ms) cs (hm m (by simp)) hcs'
      simp only [readFramesN, hr]
      rw [ih (fun x hx => hm x (by simp [hx])) f (by simpa using hf) rest hrest]

theorem frames_length_ge (msgs : List Bytes) : msgs.length ≤ (frames msgs).length := by
  induction msgs with
  | nil => simp [frames]
  | cons m ms ih =>
    have : (frames (m :: ms)).length = (frame m).length + (frames ms).length := by
      simp [frames]
    rw [this, frame_length]; simp only [List.length_cons]; omega

/-- C16 framing: messages are delivered intact and in order under ANY segmentation of the pipe
(and for any fast-path threshold, so for both code paths of `Reader.Read`). -/
theorem frames_roundtrip (thr : Nat) (msgs : List Bytes) (hm : ∀ m ∈ msgs, m.length < 2 ^ 32)
    (cs : Chunks) (hcs : cs.flatten = frames msgs) : readFramesT thr cs = (msgs, true) := by
  unfold readFramesT
  apply readFramesN_frames thr msgs hm _ _ cs hcs
  have := frames_length_ge msgs
  rw [hcs]; omega

/-- the writer's `Write` calls concatenate to the frame. -/
theorem writeFrame_flatten (m : Bytes) : (writeFrame m).flatten = frame m := by
  unfold writeFrame frame
  cases m with
  | nil => simp
  | cons b bs => simp

theorem writeFrames_flatten (msgs : List Bytes) :
    ((msgs.map writeFrame).flatten).flatten = frames msgs := by
  unfold frames
  induction msgs with
  | nil => rfl
  | cons m ms ih =>
    simp only [List.map_cons, List.flatten_cons, List.flatten_append, writeFrame_flatten]
    rw [ih]

/-- writer then reader: round trip through any re-segmentation of what the writer wrote. -/
theorem write_read_roundtrip (thr : Nat) (msgs : List Bytes) (hm : ∀ m ∈ msgs, m.length < 2 ^ 32)
    (cs : Chunks) (hcs : cs.flatten = ((msgs.map writeFrame).flatten).flatten) :
    readFramesT thr cs = (msgs, true) :=
  frames_roundtrip thr msgs hm cs (by rw [hcs, writeFrames_flatten])

end ThriftVerif.Proto
