/-
C17 — code generation writes only inside the output directory, all-or-nothing, and
detects conflicting outputs.

Property theorems only. Models: M-Proto `Path.lean` (lexical `path/filepath`) and `Plan.lean`
(gen/generate.go `Generate`, internal/plugin `MultiServiceGenerator.Generate`, main.go root
handling, the write loop). Three theorems are NEGATION witnesses for defects of the code as it
is (D42, D33, D34); the model reproduces the current behaviour.
-/
import ThriftVerif.Proto.PlanProofs3
import ThriftVerif.Proto.PlanProofs4
import ThriftVerif.Proto.PlanProofs6

namespace ThriftVerif.Properties.C17
open ThriftVerif.Proto

/-! ### 1. all-or-nothing -/

/-- A failed plan writes nothing. -/
theorem plan_all_or_nothing (root out : Str) (mods plugs ord) (e : PlanErr)
    (h : generatePlan root out mods plugs ord = .error e) :
    writesOf (generatePlan root out mods plugs ord) = [] :=
  ThriftVerif.Proto.plan_all_or_nothing root out mods plugs ord e h

/-- Substantive form: if anything at all is written, EVERY module was generated and mapped
to a path and EVERY plugin answered, without a ".." in any of its paths, beforehand. -/
theorem plan_writes_imply_all_ok (root out : Str) (mods plugs ord)
    (h : writesOf (generatePlan root out mods plugs ord) ≠ []) :
    (∀ m ∈ mods, m.result.isSome = true ∧ (modulePath root m.thriftPath).isSome = true) ∧
    (∀ p ∈ plugs, ∃ fs, p = some fs ∧ ∀ x ∈ fs, containsDotDot x.1 = false) :=
  ThriftVerif.Proto.plan_writes_imply_all_ok root out mods plugs ord h

/-- The same for the command line (`cliRoot`: the given and verified `--thrift-root`, or the
common ancestor of all modules). -/
theorem cli_all_or_nothing (cwd : Str) (tr : Option Str) (out : Str) (mods plugs ord) (e : PlanErr)
    (h : cliPlan cwd tr out mods plugs ord = .error e) :
    writesOf (cliPlan cwd tr out mods plugs ord) = [] :=
  ThriftVerif.Proto.cli_all_or_nothing cwd tr out mods plugs ord e h

theorem cli_writes_imply_all_ok (cwd : Str) (tr : Option Str) (out : Str) (mods plugs ord)
    (h : writesOf (cliPlan cwd tr out mods plugs ord) ≠ []) :
    ∃ root, cliRoot cwd tr mods = some root ∧
      (∀ m ∈ mods, m.result.isSome = true ∧ (modulePath root m.thriftPath).isSome = true) ∧
      (∀ p ∈ plugs, ∃ fs, p = some fs ∧ ∀ x ∈ fs, containsDotDot x.1 = false) :=
  ThriftVerif.Proto.cli_writes_imply_all_ok cwd tr out mods plugs ord h

/-- Non-vacuity: a plan with one module and one plugin that writes two files. -/
example : writesOf (generatePlan "/r".toList "/o".toList [⟨"/r/a.thrift".toList, some [1]⟩]
    [some [("p/x.go".toList, [2])]] [0]) =
    [("/o/a/a.go".toList, [1]), ("/o/p/x.go".toList, [2])] := by decide

/-- … and one failing plugin among two stops everything. -/
example : generatePlan "/r".toList "/o".toList [⟨"/r/a.thrift".toList, some [1]⟩]
    [some [("p/x.go".toList, [2])], none] [0, 1] = .error .pluginFailed := by decide

/-! ### 2. conflicts between raw paths are detected -/

/-- (a) Two plugins return the same path: an error under EVERY completion order (stated for
every order that contains both indices; `conflict_detected` specialises to permutations). -/
theorem conflict_detected_plugins_mem (root out : Str) (mods plugs) (ord : List Nat)
    (i j : Nat) (fi fj : Files) (p : Str)
    (hi : plugs[i]? = some (some fi)) (hj : plugs[j]? = some (some fj)) (hij : i ≠ j)
    (hio : i ∈ ord) (hjo : j ∈ ord)
    (hpi : hasKey fi p = true) (hpj : hasKey fj p = true) :
    ∃ e, generatePlan root out mods plugs ord = .error e :=
  ThriftVerif.Proto.conflict_detected_plugins_mem root out mods plugs ord i j fi fj p hi hj hij hio hjo hpi hpj

/-- The same raw path from two sources is an error: (a) two plugins, under every permutation
of the completion order; (b) a plugin and the core generator; (c) two modules. -/
theorem conflict_detected (root out : Str) (mods : List ModIn) (plugs : List (Option Files))
    (ord : List Nat) (p : Str) :
    (∀ (i j : Nat) (fi fj : Files), plugs[i]? = some (some fi) → plugs[j]? = some (some fj) → i ≠ j →
      hasKey fi p = true → hasKey fj p = true → ord.Perm (List.range plugs.length) →
      ∃ e, generatePlan root out mods plugs ord = .error e) ∧
    (∀ (m : ModIn) (i : Nat) (fi : Files), m ∈ mods → modulePath root m.thriftPath = some p →
      plugs[i]? = some (some fi) → hasKey fi p = true → ord.Perm (List.range plugs.length) →
      ∃ e, generatePlan root out mods plugs ord = .error e) ∧
    (∀ (i j : Nat) (mi mj : ModIn), mods[i]? = some mi → mods[j]? = some mj → i ≠ j →
      modulePath root mi.thriftPath = some p → modulePath root mj.thriftPath = some p →
      ∃ e, generatePlan root out mods plugs ord = .error e) :=
  ⟨fun i j fi fj hi hj hij hpi hpj hord =>
      conflict_detected_plugins root out mods plugs ord i j fi fj p hi hj hij hpi hpj hord,
   fun m i fi hm hmp hi hpi hord =>
      conflict_detected_core root out mods plugs ord m i fi p hm hmp hi hpi hord,
   fun i j mi mj hi hj hij hpi hpj =>
      conflict_detected_modules root out mods plugs ord i j mi mj p hi hj hij hpi hpj⟩

/-- Non-vacuity: each of the three conflicts, concretely (both orders for the plugins). -/
example :
    generatePlan "/r".toList "/o".toList [] [some [("x.go".toList, [1])], some [("x.go".toList, [2])]] [0, 1]
      = .error .pluginConflict ∧
    generatePlan "/r".toList "/o".toList [] [some [("x.go".toList, [1])], some [("x.go".toList, [2])]] [1, 0]
      = .error .pluginConflict ∧
    generatePlan "/r".toList "/o".toList [⟨"/r/a.thrift".toList, some [1]⟩] [some [("a/a.go".toList, [2])]] [0]
      = .error .mergeConflict ∧
    generatePlan "/r".toList "/o".toList [⟨"/r/a.thrift".toList, some [1]⟩, ⟨"/r/a/.thrift".toList, some [2]⟩] [] []
      = .error .coreConflict := by decide

/-! ### 3. … but only between RAW paths (finding D42) -/

/-- NEGATION witness, D42: conflicts are detected on the strings the plugins return, files are
written at `filepath.Join(out, path)`. Two plugins returning `x.go` and `./x.go` are both
accepted and the plan holds two different contents for the one file `/o/x.go`. -/
theorem conflict_after_clean_undetected :
    ∃ ws, generatePlan "/r".toList "/o".toList []
        [some [("x.go".toList, [1])], some [("./x.go".toList, [2])]] [0, 1] = .ok ws ∧
      ∃ a ∈ ws, ∃ b ∈ ws, a.1 = b.1 ∧ a.2 ≠ b.2 :=
  ⟨_, conflict_after_clean_undetected_witness, _, List.mem_cons_self, _,
    List.mem_cons_of_mem _ List.mem_cons_self, rfl, by decide⟩

/-- The same between the core generator and a plugin (`a/a.go` vs `a//a.go`). -/
theorem conflict_after_clean_core :
    ∃ ws, generatePlan "/r".toList "/o".toList [⟨"/r/a.thrift".toList, some [1]⟩]
        [some [("a//a.go".toList, [2])]] [0] = .ok ws ∧
      ∃ a ∈ ws, ∃ b ∈ ws, a.1 = b.1 ∧ a.2 ≠ b.2 :=
  ⟨_, conflict_after_clean_undetected_core_witness, _, List.mem_cons_self, _,
    List.mem_cons_of_mem _ List.mem_cons_self, rfl, by decide⟩

/-! ### 4. lexical confinement -/

/-- For an absolute output directory, `Join(out, p)` is `Clean(out)` or lies beneath it for EVERY
`p` without a ".." component: absolute `p`, repeated separators, "." components, trailing
slashes and the empty path included. -/
theorem join_confined (out p : Str) (ho : isAbs out = true)
    (hp : ∀ c ∈ splitSlash p, c ≠ dotdot) : within (clean out) (join2 out p) = true :=
  ThriftVerif.Proto.join_confined out p ho hp

/-- What the plugin check `strings.Contains(path, "..")` buys. -/
theorem join_confined_of_contains (out p : Str) (ho : isAbs out = true)
    (hp : containsDotDot p = false) : within (clean out) (join2 out p) = true :=
  ThriftVerif.Proto.join_confined_of_contains out p ho hp

/-- Non-vacuity: an absolute `p` with junk in it, joined below an unclean `out`. -/
example : containsDotDot "//a/.//b/".toList = false ∧
    join2 "/o/x/../y/".toList "//a/.//b/".toList = "/o/y/a/b".toList ∧
    clean "/o/x/../y/".toList = "/o/y".toList := by decide

/-- … and the hypothesis matters: -/
example : within (clean "/o".toList) (join2 "/o".toList "../x".toList) = false := by decide

/-! ### 5. the planned writes are confined -/

/-- Every planned write is inside the output directory: plugin entries because of the ".."
check, core entries provided no module path has a ".." component (see 6 and 7). -/
theorem plan_confined (root out : Str) (mods plugs ord) (ws : Files)
    (h : generatePlan root out mods plugs ord = .ok ws) (ho : isAbs out = true)
    (hcore : ∀ m ∈ mods, ∀ p, modulePath root m.thriftPath = some p →
      ∀ c ∈ splitSlash p, c ≠ dotdot) :
    ∀ w ∈ ws, within (clean out) w.1 = true :=
  ThriftVerif.Proto.plan_confined root out mods plugs ord ws h ho hcore

/-- Without any hypothesis on the modules: an entry is confined or it is a core entry. -/
theorem plan_plugin_entries_confined (root out : Str) (mods plugs ord) (ws : Files)
    (h : generatePlan root out mods plugs ord = .ok ws) (ho : isAbs out = true) :
    ∀ w ∈ ws, within (clean out) w.1 = true ∨
      ∃ m ∈ mods, ∃ p, modulePath root m.thriftPath = some p ∧ w.1 = join2 out p :=
  ThriftVerif.Proto.plan_plugin_entries_confined root out mods plugs ord ws h ho

/-- The command line makes the output directory absolute itself. -/
theorem cli_confined (cwd : Str) (tr : Option Str) (out : Str) (mods plugs ord) (ws : Files)
    (h : cliPlan cwd tr out mods plugs ord = .ok ws) (hcwd : isAbs cwd = true)
    (hcore : ∀ root, cliRoot cwd tr mods = some root → ∀ m ∈ mods, ∀ p,
      modulePath root m.thriftPath = some p → ∀ c ∈ splitSlash p, c ≠ dotdot) :
    ∀ w ∈ ws, within (clean (absPath cwd out)) w.1 = true :=
  ThriftVerif.Proto.cli_confined cwd tr out mods plugs ord ws h hcwd hcore

/-- Non-vacuity: a plugin path with ".." is refused, even a harmless one. -/
example : generatePlan "/r".toList "/o".toList [] [some [("a..b/x.go".toList, [2])]] [0]
    = .error .dotdot := by decide

/-! ### 6. the core generator can leave the output directory (finding D34) -/

/-- NEGATION witness, D34 (confirmed on the binary: `thriftrw --out outer/out r/...thrift` writes
`outer/...go`): for the file `/r/...thrift` the common ancestor is `/r`, the package path is
"..", the Go file is planned at `../...go`, which is not within `/o`; the whole command line
plans the write `/...go`. -/
theorem core_path_escapes_dotdot_thrift :
    findCommonAncestor ["/r/...thrift".toList] = some "/r".toList ∧
    modulePath "/r".toList "/r/...thrift".toList = some "../...go".toList ∧
    within (clean "/o".toList) (join2 "/o".toList "../...go".toList) = false ∧
    cliPlan "/w".toList none "/o".toList [⟨"/r/...thrift".toList, some [7]⟩] [] []
      = .ok [("/...go".toList, [7])] :=
  core_path_escapes_dotdot_thrift_witness

/-! ### 7. where core paths come from -/

/-- (i) `generateModule`: the Go file of a Thrift file is `<pkg>/<base pkg>.go` with `pkg` the
path of the file minus ".thrift" relative to the Thrift root. -/
theorem core_paths_from_root_def (root f p : Str) :
    modulePath root f = some p ↔
      ∃ pkg, rel root (trimSuffix f thriftSuffix) = some pkg ∧ p = join2 pkg (base pkg ++ goSuffix) :=
  modulePath_iff root f p

/-- (ii) a package path without ".." component gives a file path without one, which is
therefore confined to every absolute output directory. -/
theorem core_paths_from_root_confined (out pkg : Str) (ho : isAbs out = true)
    (h : ∀ c ∈ splitSlash pkg, c ≠ dotdot) :
    (∀ c ∈ splitSlash (join2 pkg (base pkg ++ goSuffix)), c ≠ dotdot) ∧
    within (clean out) (join2 out (join2 pkg (base pkg ++ goSuffix))) = true :=
  ⟨core_path_no_dotdot pkg h, core_path_confined out pkg ho h⟩

/-- (iii-a) `Rel` for a cleaned absolute root and a target that extends it by `rest` (any
string without ".." component — empty and "." components allowed): the remaining
components joined by '/', or "." if there are none. -/
theorem core_paths_from_root_rel (root rest : Str) (ha : isAbs root = true) (hc : clean root = root)
    (hr : ∀ c ∈ splitSlash rest, c ≠ dotdot) :
    rel root (root ++ '/' :: rest) =
      some (if comps rest = [] then dot else joinSlash (comps rest)) :=
  rel_extends root rest ha hc hr

/-- (iii-b) Hence a Thrift file `root/rest.thrift` — `rest` = directories below the root and
the base name minus ".thrift", none of them ".." — is mapped to a path without ".."
component, inside every absolute output directory. `rest = ".."` is exactly D34. -/
theorem core_paths_from_root_extends (root rest : Str) (ha : isAbs root = true)
    (hc : clean root = root) (hr : ∀ c ∈ splitSlash rest, c ≠ dotdot) :
    ∃ p, modulePath root (root ++ '/' :: rest ++ thriftSuffix) = some p ∧
      (∀ c ∈ splitSlash p, c ≠ dotdot) ∧
      ∀ out, isAbs out = true → within (clean out) (join2 out p) = true :=
  core_path_of_extends root rest ha hc hr

/-- (iii-c) From what main.go establishes with `--thrift-root`: a cleaned Thrift file that
`verifyAncestry` accepts below a cleaned absolute root, that is not the root itself and whose
last component minus ".thrift" is not "..", goes to a path without ".." component, inside
every absolute output directory. -/
theorem core_paths_from_root_ancestry (root f : Str) (ha : isAbs root = true) (hcr : clean root = root)
    (hcf : clean f = f) (hne : f ≠ root) (hanc : verifyAncestry root [f] = true)
    (hlast : NotDotDotName f) :
    ∃ p, modulePath root f = some p ∧ (∀ c ∈ splitSlash p, c ≠ dotdot) ∧
      ∀ out, isAbs out = true → within (clean out) (join2 out p) = true :=
  core_path_of_ancestry root f ha hcr hcf hne hanc hlast

/-- (iii-d) … and without `--thrift-root`: the same for every module when the root is the
`findCommonAncestor` of cleaned absolute module paths. -/
theorem core_paths_common_ancestor (fs : List Str) (root f : Str)
    (hfs : ∀ g ∈ fs, CleanAbs g) (h : findCommonAncestor fs = some root) (hf : f ∈ fs)
    (hne : f ≠ root) (hlast : NotDotDotName f) :
    ∃ p, modulePath root f = some p ∧ (∀ c ∈ splitSlash p, c ≠ dotdot) ∧
      ∀ out, isAbs out = true → within (clean out) (join2 out p) = true :=
  core_path_of_common_ancestor fs root f hfs h hf hne hlast

/-- End to end (5 + 7): cleaned absolute module paths, none of them the Thrift root itself,
none called "...thrift" — then EVERY planned write of the command line, core and plugin, with
or without `--thrift-root`, under any completion order, is inside the output directory.
D34 shows that the base-name hypothesis cannot be dropped. -/
theorem cli_confined_clean_mods (cwd : Str) (tr : Option Str) (out : Str) (mods plugs ord) (ws : Files)
    (h : cliPlan cwd tr out mods plugs ord = .ok ws) (hcwd : isAbs cwd = true)
    (hmods : ∀ m ∈ mods, CleanAbs m.thriftPath ∧ NotDotDotName m.thriftPath)
    (hroot : ∀ m ∈ mods, cliRoot cwd tr mods ≠ some m.thriftPath) :
    ∀ w ∈ ws, within (clean (absPath cwd out)) w.1 = true :=
  ThriftVerif.Proto.cli_confined_clean_mods cwd tr out mods plugs ord ws h hcwd hmods hroot

/-- Non-vacuity of the end-to-end hypotheses (two modules, no `--thrift-root`, one plugin). -/
example :
    (∀ m ∈ [(⟨"/r/a/x.thrift".toList, some [1]⟩ : ModIn), ⟨"/r/b/y.thrift".toList, some [2]⟩],
      (isAbs m.thriftPath = true ∧ clean m.thriftPath = m.thriftPath) ∧
      (splitSlash (trimSuffix m.thriftPath thriftSuffix)).getLast? ≠ some dotdot) ∧
    cliRoot "/w".toList none [⟨"/r/a/x.thrift".toList, some [1]⟩, ⟨"/r/b/y.thrift".toList, some [2]⟩]
      = some "/r".toList ∧
    cliPlan "/w".toList none "o".toList
      [⟨"/r/a/x.thrift".toList, some [1]⟩, ⟨"/r/b/y.thrift".toList, some [2]⟩]
      [some [("p/z.go".toList, [3])]] [0]
      = .ok [("/w/o/a/x/x.go".toList, [1]), ("/w/o/b/y/y.go".toList, [2]), ("/w/o/p/z.go".toList, [3])] := by
  decide

/-- The remaining hypothesis `file ≠ root` is not idle either (a "root" that is a `.thrift` path): -/
example : verifyAncestry "/r.thrift".toList ["/r.thrift".toList] = true ∧
    modulePath "/r.thrift".toList "/r.thrift".toList = some "../r/r.go".toList := by decide

/-- Non-vacuity of (iii): root `/r`, file `/r/a//b/./c.thrift`. -/
example : isAbs "/r".toList = true ∧ clean "/r".toList = "/r".toList ∧
    (∀ c ∈ splitSlash "a//b/./c".toList, c ≠ dotdot) ∧
    modulePath "/r".toList ("/r".toList ++ '/' :: "a//b/./c".toList ++ thriftSuffix)
      = some "a/b/c/c.go".toList := by decide

/-! ### 8. ancestry -/

/-- `verifyAncestry` accepts only files whose path relative to the root exists and does not
start with "..". -/
theorem verifyAncestry_sound (root : Str) (fs : List Str) (h : verifyAncestry root fs = true) :
    ∀ f ∈ fs, ∃ q, rel root f = some q ∧ hasPrefix dotdot q = false :=
  ThriftVerif.Proto.verifyAncestry_sound root fs h

/-- A module outside the given `--thrift-root` stops the command before any plugin runs. -/
theorem cliPlan_rejects_outside_root (cwd r out : Str) (mods plugs ord)
    (h : verifyAncestry (absPath cwd r) (mods.map (·.thriftPath)) = false) :
    cliPlan cwd (some r) out mods plugs ord = .error .moduleFailed :=
  ThriftVerif.Proto.cliPlan_rejects_outside_root cwd r out mods plugs ord h

/-- Concretely: `/s/a.thrift` is not below `/r`; `/r/a.thrift` is below `../r` seen from `/w`. -/
theorem ancestry_rejects_example :
    cliPlan "/w".toList (some "/r".toList) "/o".toList [⟨"/s/a.thrift".toList, some [1]⟩] [] []
      = .error .moduleFailed ∧
    cliPlan "/w".toList (some "../r".toList) "o".toList [⟨"/r/a.thrift".toList, some [1]⟩] [] []
      = .ok [("/w/o/a/a.go".toList, [1])] :=
  ancestry_examples

/-- `findCommonAncestor`: the deepest common directory; an error when that is "/" ("no
common ancestor") or when a path is relative. -/
theorem findCommonAncestor_example :
    findCommonAncestor ["/r/a/x.thrift".toList, "/r/b/y.thrift".toList] = some "/r".toList ∧
    findCommonAncestor ["/a/x.thrift".toList, "/b/y.thrift".toList] = none ∧
    findCommonAncestor ["/a/x.thrift".toList, "b/y.thrift".toList] = none :=
  findCommonAncestor_examples

/-- With an explicit root the D34 file is refused (its relative path "...thrift" starts with ".."). -/
theorem dotdot_thrift_explicit_root :
    cliPlan "/w".toList (some "/r".toList) "/o".toList [⟨"/r/...thrift".toList, some [7]⟩] [] []
      = .error .moduleFailed :=
  ThriftVerif.Proto.dotdot_thrift_rejected_with_explicit_root

/-! ### 9. the write loop is not atomic (finding D33) -/

/-- NEGATION witness, D33: a plan that succeeded (`main/main.go` from one plugin, `main` from
another — different keys, different cleaned paths) fails in the write loop AFTER the first
file was written; the file stays. -/
theorem write_loop_not_atomic :
    generatePlan "/r".toList "/o".toList []
        [some [("main/main.go".toList, [1])], some [("main".toList, [2])]] [0, 1]
      = .ok [("/o/main/main.go".toList, [1]), ("/o/main".toList, [2])] ∧
    ∃ fs, writeLoop ⟨[], []⟩ [("/o/main/main.go".toList, [1]), ("/o/main".toList, [2])] = (fs, false) ∧
      fs.files ≠ [] :=
  ⟨write_loop_not_atomic_plan, _, write_loop_not_atomic_witness, by decide⟩

/-- The positive side: on an empty output tree the loop writes the whole plan, whatever the
iteration order, if the write paths (cleaned, absolute, not "/") are pairwise different and
none is a directory prefix of another (`PrefixFree a b`: `a ≠ b`, neither `a/` a prefix of `b`
nor `b/` of `a`). -/
theorem write_loop_complete (ws : Files)
    (hclean : ∀ a ∈ ws, CleanAbs a.1 ∧ a.1 ≠ ['/'])
    (hpw : ws.Pairwise (fun a b => PrefixFree a.1 b.1)) :
    ∃ fs', writeLoop ⟨[], []⟩ ws = (fs', true) ∧ fs'.files = ws :=
  writeLoop_complete_prefixFree ws hclean hpw

/-- … in particular for a successful plan (its paths are cleaned and absolute by construction).
D42 violates `a ≠ b`, D33 violates prefix-freeness. -/
theorem plan_write_loop_complete (root out : Str) (mods plugs ord) (ws : Files)
    (h : generatePlan root out mods plugs ord = .ok ws) (ho : isAbs out = true)
    (hroot : ∀ w ∈ ws, w.1 ≠ ['/'])
    (hpw : ws.Pairwise (fun a b => PrefixFree a.1 b.1)) :
    ∃ fs', writeLoop ⟨[], []⟩ ws = (fs', true) ∧ fs'.files = ws :=
  plan_writeLoop_complete root out mods plugs ord ws h ho hroot hpw

/-- Non-vacuity: three files in two directories are prefix-free; the D33 plan is not. -/
example :
    [("/o/a/a.go".toList, ([1] : Content)), ("/o/a/b/c.go".toList, [2]), ("/o/d.go".toList, [3])].Pairwise
      (fun a b => PrefixFree a.1 b.1) ∧
    (∀ a ∈ [("/o/a/a.go".toList, ([1] : Content)), ("/o/a/b/c.go".toList, [2]), ("/o/d.go".toList, [3])],
      (isAbs a.1 = true ∧ clean a.1 = a.1) ∧ a.1 ≠ ['/']) ∧
    needDirs "/o/a/b/c.go".toList = ["/o".toList, "/o/a".toList, "/o/a/b".toList] ∧
    ¬ PrefixFree "/o/main/main.go".toList "/o/main".toList := by decide

end ThriftVerif.Properties.C17
