/-
C17 — code generation writes only inside the output directory, all-or-nothing, and
detects conflicting outputs.

Property theorems only. Models: M-Proto `Path.lean` (lexical `path/filepath`) and `Plan.lean`
(gen/generate.go `Generate`, internal/plugin `MultiServiceGenerator.Generate`, main.go root
handling, the write loop). Findings D42 (conflicts compared on raw strings) and D34 (a module
called "...thrift" left the output directory) are repaired in the code and in the model: their
former negation witnesses are regression theorems here, and the positive properties hold
without side conditions. D33 (a plan whose paths clash file-vs-directory, or name the output
directory itself, was accepted and failed half-way through the write loop) is repaired too:
its witness is a regression theorem, and an accepted plan is now written completely on every
output directory that is not in the way (§9). What remains outside the statement is an output
directory that IS in the way (an OS-level failure of a write).
-/
import ThriftVerif.Proto.PlanProofs3
import ThriftVerif.Proto.PlanProofs4
import ThriftVerif.Proto.PlanProofs7
import ThriftVerif.Proto.PlanProofsOF

namespace ThriftVerif.Properties.C17
open ThriftVerif.Proto

/-! ### 1. all-or-nothing -/

/-- A failed plan writes nothing. -/
theorem plan_all_or_nothing (root out : Str) (mods plugs ord) (e : PlanErr)
    (h : generatePlan root out mods plugs ord = .error e) :
    writesOf (generatePlan root out mods plugs ord) = [] :=
  ThriftVerif.Proto.plan_all_or_nothing root out mods plugs ord e h

/-- Substantive form: if anything at all is written, EVERY module was generated and mapped
to a path and EVERY plugin answered, without a ".." in any of its paths, beforehand. -/
theorem plan_writes_imply_all_ok (root out : Str) (mods plugs ord)
    (h : writesOf (generatePlan root out mods plugs ord) ≠ []) :
    (∀ m ∈ mods, m.result.isSome = true ∧ (modulePath root m.thriftPath).isSome = true) ∧
    (∀ p ∈ plugs, ∃ fs, p = some fs ∧ ∀ x ∈ fs, containsDotDot x.1 = false) :=
  ThriftVerif.Proto.plan_writes_imply_all_ok root out mods plugs ord h

/-- The same for the command line (`cliRoot`: the given and verified `--thrift-root`, or the
common ancestor of all modules). -/
theorem cli_all_or_nothing (cwd : Str) (tr : Option Str) (out : Str) (mods plugs ord) (e : PlanErr)
    (h : cliPlan cwd tr out mods plugs ord = .error e) :
    writesOf (cliPlan cwd tr out mods plugs ord) = [] :=
  ThriftVerif.Proto.cli_all_or_nothing cwd tr out mods plugs ord e h

theorem cli_writes_imply_all_ok (cwd : Str) (tr : Option Str) (out : Str) (mods plugs ord)
    (h : writesOf (cliPlan cwd tr out mods plugs ord) ≠ []) :
    ∃ root, cliRoot cwd tr mods = some root ∧
      (∀ m ∈ mods, m.result.isSome = true ∧ (modulePath root m.thriftPath).isSome = true) ∧
      (∀ p ∈ plugs, ∃ fs, p = some fs ∧ ∀ x ∈ fs, containsDotDot x.1 = false) :=
  ThriftVerif.Proto.cli_writes_imply_all_ok cwd tr out mods plugs ord h

/-- Non-vacuity: a plan with one module and one plugin that writes two files. -/
example : writesOf (generatePlan "/r".toList "/o".toList [⟨"/r/a.thrift".toList, some [1]⟩]
    [some [("p/x.go".toList, [2])]] [0]) =
    [("/o/a/a.go".toList, [1]), ("/o/p/x.go".toList, [2])] := by decide

/-- … and one failing plugin among two stops everything. -/
example : generatePlan "/r".toList "/o".toList [⟨"/r/a.thrift".toList, some [1]⟩]
    [some [("p/x.go".toList, [2])], none] [0, 1] = .error .pluginFailed := by decide

/-! ### 2. conflicting outputs are detected — compared as the files that would be written -/

/-- (a) Two plugins return paths that are the same file (equal `normKey`, e.g. `x.go` and
`./x.go`): an error under EVERY completion order that contains both plugins
(`conflict_detected` specialises to permutations). -/
theorem conflict_detected_plugins_mem (root out : Str) (mods plugs) (ord : List Nat)
    (i j : Nat) (fi fj : Files) (x y : Str × Content)
    (hi : plugs[i]? = some (some fi)) (hj : plugs[j]? = some (some fj)) (hij : i ≠ j)
    (hio : i ∈ ord) (hjo : j ∈ ord)
    (hx : x ∈ fi) (hy : y ∈ fj) (hxy : normKey x.1 = normKey y.1) :
    ∃ e, generatePlan root out mods plugs ord = .error e :=
  ThriftVerif.Proto.conflict_detected_plugins_mem root out mods plugs ord i j fi fj x y hi hj hij hio hjo hx hy hxy

/-- Two sources whose paths normalise to the same file are an error: (a) two plugins, under
every permutation of the completion order; (a') one plugin with two such entries; (b) a plugin
and the core generator; (c) two modules. -/
theorem conflict_detected (root out : Str) (mods : List ModIn) (plugs : List (Option Files))
    (ord : List Nat) :
    (∀ (i j : Nat) (fi fj : Files) (x y : Str × Content),
      plugs[i]? = some (some fi) → plugs[j]? = some (some fj) → i ≠ j →
      x ∈ fi → y ∈ fj → normKey x.1 = normKey y.1 → ord.Perm (List.range plugs.length) →
      ∃ e, generatePlan root out mods plugs ord = .error e) ∧
    (∀ (i : Nat) (fi : Files) (a b : Nat) (x y : Str × Content),
      plugs[i]? = some (some fi) → fi[a]? = some x → fi[b]? = some y → a ≠ b →
      normKey x.1 = normKey y.1 → ord.Perm (List.range plugs.length) →
      ∃ e, generatePlan root out mods plugs ord = .error e) ∧
    (∀ (m : ModIn) (i : Nat) (fi : Files) (p : Str) (x : Str × Content), m ∈ mods →
      modulePath root m.thriftPath = some p → plugs[i]? = some (some fi) → x ∈ fi →
      normKey x.1 = normKey p → ord.Perm (List.range plugs.length) →
      ∃ e, generatePlan root out mods plugs ord = .error e) ∧
    (∀ (i j : Nat) (mi mj : ModIn) (pi pj : Str), mods[i]? = some mi → mods[j]? = some mj → i ≠ j →
      modulePath root mi.thriftPath = some pi → modulePath root mj.thriftPath = some pj →
      normKey pi = normKey pj →
      ∃ e, generatePlan root out mods plugs ord = .error e) :=
  ⟨fun i j fi fj x y hi hj hij hx hy hxy hord =>
      conflict_detected_plugins root out mods plugs ord i j fi fj x y hi hj hij hx hy hxy hord,
   fun i fi a b x y hi hx hy hab hxy hord =>
      conflict_detected_plugin_self root out mods plugs ord i fi a b x y hi hx hy hab hxy hord,
   fun m i fi p x hm hmp hi hx hxp hord =>
      conflict_detected_core root out mods plugs ord m i fi p x hm hmp hi hx hxp hord,
   fun i j mi mj pi pj hi hj hij hpi hpj hpp =>
      conflict_detected_modules root out mods plugs ord i j mi mj pi pj hi hj hij hpi hpj hpp⟩

/-- `normKey` identifies exactly the spellings of one file below the output directory. -/
example : normKey "x.go".toList = "x.go".toList ∧ normKey "./x.go".toList = "x.go".toList ∧
    normKey "/x.go".toList = "x.go".toList ∧ normKey "a/../x.go".toList = "x.go".toList ∧
    normKey "a//b/".toList = "a/b".toList ∧ normKey [] = [] := by decide

/-- Non-vacuity: the same raw string from two sources, concretely (both orders for the plugins). -/
example :
    generatePlan "/r".toList "/o".toList [] [some [("x.go".toList, [1])], some [("x.go".toList, [2])]] [0, 1]
      = .error .pluginConflict ∧
    generatePlan "/r".toList "/o".toList [] [some [("x.go".toList, [1])], some [("x.go".toList, [2])]] [1, 0]
      = .error .pluginConflict ∧
    generatePlan "/r".toList "/o".toList [⟨"/r/a.thrift".toList, some [1]⟩] [some [("a/a.go".toList, [2])]] [0]
      = .error .mergeConflict ∧
    generatePlan "/r".toList "/o".toList [⟨"/r/a.thrift".toList, some [1]⟩, ⟨"/r/a/.thrift".toList, some [2]⟩] [] []
      = .error .coreConflict := by decide

/-! ### 3. regression for finding D42 (repaired) -/

/-- REGRESSION, D42: two plugins returning `x.go` and `./x.go` used to be accepted, with two
contents planned for `/o/x.go`. Now the plan is refused in either completion order. -/
theorem conflict_after_clean_detected :
    generatePlan "/r".toList "/o".toList []
        [some [("x.go".toList, [1])], some [("./x.go".toList, [2])]] [0, 1]
      = .error .pluginConflict ∧
    generatePlan "/r".toList "/o".toList []
        [some [("x.go".toList, [1])], some [("./x.go".toList, [2])]] [1, 0]
      = .error .pluginConflict :=
  conflict_after_clean_detected_witness

/-- REGRESSION, D42: the same between the core generator and a plugin (`a/a.go` vs `a//a.go`),
and for one plugin that returns one file under two spellings. -/
theorem conflict_after_clean_detected_core :
    generatePlan "/r".toList "/o".toList [⟨"/r/a.thrift".toList, some [1]⟩]
        [some [("a//a.go".toList, [2])]] [0]
      = .error .mergeConflict ∧
    generatePlan "/r".toList "/o".toList []
        [some [("x.go".toList, [1]), ("./x.go".toList, [2])]] [0]
      = .error .pluginConflict :=
  conflict_after_clean_detected_core_witness

/-- The positive form: no file is planned twice — the write paths of a successful plan are
pairwise different (absolute output directory; nothing else assumed). -/
theorem plan_writes_distinct (root out : Str) (mods plugs ord) (ws : Files)
    (h : generatePlan root out mods plugs ord = .ok ws) (ho : isAbs out = true) :
    (ws.map (·.1)).Nodup :=
  ThriftVerif.Proto.plan_writes_distinct root out mods plugs ord ws h ho

theorem cli_writes_distinct (cwd : Str) (tr : Option Str) (out : Str) (mods plugs ord) (ws : Files)
    (h : cliPlan cwd tr out mods plugs ord = .ok ws) (hcwd : isAbs cwd = true) :
    (ws.map (·.1)).Nodup :=
  ThriftVerif.Proto.cli_writes_distinct cwd tr out mods plugs ord ws h hcwd

/-- What the proof rests on: different normalised keys are written to different files. -/
theorem join_injective_on_normalised_keys (out p q : Str) (ho : isAbs out = true)
    (h : join2 out (normKey p) = join2 out (normKey q)) : normKey p = normKey q :=
  join2_normKey_inj out p q ho h

/-! ### 4. lexical confinement -/

/-- For an absolute output directory, `Join(out, p)` is `Clean(out)` or lies beneath it for EVERY
`p` without a ".." component: absolute `p`, repeated separators, "." components, trailing
slashes and the empty path included. -/
theorem join_confined (out p : Str) (ho : isAbs out = true)
    (hp : ∀ c ∈ splitSlash p, c ≠ dotdot) : within (clean out) (join2 out p) = true :=
  ThriftVerif.Proto.join_confined out p ho hp

/-- What the plugin check `strings.Contains(path, "..")` buys. -/
theorem join_confined_of_contains (out p : Str) (ho : isAbs out = true)
    (hp : containsDotDot p = false) : within (clean out) (join2 out p) = true :=
  ThriftVerif.Proto.join_confined_of_contains out p ho hp

/-- Non-vacuity: an absolute `p` with junk in it, joined below an unclean `out`. -/
example : containsDotDot "//a/.//b/".toList = false ∧
    join2 "/o/x/../y/".toList "//a/.//b/".toList = "/o/y/a/b".toList ∧
    clean "/o/x/../y/".toList = "/o/y".toList := by decide

/-- … and the hypothesis matters: -/
example : within (clean "/o".toList) (join2 "/o".toList "../x".toList) = false := by decide

/-! ### 5. the planned writes are confined -/

/-- Every planned write is inside the (absolute) output directory. No side condition: the keys
of the plan are normalised, and a normalised key has no ".." component. -/
theorem plan_confined (root out : Str) (mods plugs ord) (ws : Files)
    (h : generatePlan root out mods plugs ord = .ok ws) (ho : isAbs out = true) :
    ∀ w ∈ ws, within (clean out) w.1 = true :=
  ThriftVerif.Proto.plan_confined root out mods plugs ord ws h ho

/-- The command line makes the output directory absolute itself: an absolute working directory
is all that is needed. -/
theorem cli_confined (cwd : Str) (tr : Option Str) (out : Str) (mods plugs ord) (ws : Files)
    (h : cliPlan cwd tr out mods plugs ord = .ok ws) (hcwd : isAbs cwd = true) :
    ∀ w ∈ ws, within (clean (absPath cwd out)) w.1 = true :=
  ThriftVerif.Proto.cli_confined cwd tr out mods plugs ord ws h hcwd

/-- Normalising the keys does not move any file. For an absolute Thrift root every planned
write is at `Join(out, p)` for the RAW path `p` of a module or of a plugin answer, and that raw
path has no ".." component (plugins: the `Contains("..")` check; core: `modulePath_no_dotdot`). -/
theorem plan_writes_at_raw_join (root out : Str) (mods plugs ord) (ws : Files)
    (h : generatePlan root out mods plugs ord = .ok ws) (ho : isAbs out = true)
    (hr : isAbs root = true) :
    ∀ w ∈ ws, ∃ p, w.1 = join2 out p ∧ (∀ c ∈ splitSlash p, c ≠ dotdot) ∧
      ((∃ m ∈ mods, modulePath root m.thriftPath = some p) ∨
       (∃ f, some f ∈ plugs ∧ ∃ x ∈ f, x.1 = p ∧ x.2 = w.2)) :=
  ThriftVerif.Proto.plan_writes_at_raw_join root out mods plugs ord ws h ho hr

/-- On the command line the root is absolute by itself (`--thrift-root` made absolute, or the
common ancestor of absolute module paths). -/
theorem cliRoot_isAbs (cwd : Str) (tr : Option Str) (mods : List ModIn) (root : Str)
    (hcwd : isAbs cwd = true) (hm : mods ≠ []) (h : cliRoot cwd tr mods = some root) :
    isAbs root = true :=
  ThriftVerif.Proto.cliRoot_isAbs cwd tr mods root hcwd hm h

theorem cli_writes_at_raw_join (cwd : Str) (tr : Option Str) (out : Str) (mods plugs ord) (ws : Files)
    (h : cliPlan cwd tr out mods plugs ord = .ok ws) (hcwd : isAbs cwd = true) :
    ∀ w ∈ ws, ∃ p, w.1 = join2 (absPath cwd out) p ∧ (∀ c ∈ splitSlash p, c ≠ dotdot) :=
  ThriftVerif.Proto.cli_writes_at_raw_join cwd tr out mods plugs ord ws h hcwd

/-- Non-vacuity: a plugin path with ".." is refused, even a harmless one. -/
example : generatePlan "/r".toList "/o".toList [] [some [("a..b/x.go".toList, [2])]] [0]
    = .error .dotdot := by decide

/-! ### 5b. `--output-file` -/

/-- **Whatever file name is given with `--output-file`** (main.go checks only its `.go`
extension: any number of `..`, an absolute name, `./` …), every write of the run is inside the
output directory: the single generated file is collected under `normKey (Join(pkg, FILENAME))`. -/
theorem cli_output_file_confined (cwd : Str) (tr : Option Str) (out ofile : Str) (mods plugs ord) (ws : Files)
    (h : cliPlanOutputFile cwd tr out ofile mods plugs ord = .ok ws) (hcwd : isAbs cwd = true) :
    ∀ w ∈ ws, within (clean (absPath cwd out)) w.1 = true :=
  ThriftVerif.Proto.cli_output_file_confined cwd tr out ofile mods plugs ord ws h hcwd

/-- … and a failed run under `--output-file` writes nothing. -/
theorem cli_output_file_all_or_nothing (cwd : Str) (tr : Option Str) (out ofile : Str) (mods plugs ord) (e : PlanErr)
    (h : cliPlanOutputFile cwd tr out ofile mods plugs ord = .error e) :
    writesOf (cliPlanOutputFile cwd tr out ofile mods plugs ord) = [] :=
  ThriftVerif.Proto.cli_output_file_all_or_nothing cwd tr out ofile mods plugs ord e h

/-- Non-vacuity: `--output-file ../../../x.go` for `/s/proj/a/main.thrift` (root `/s/proj`, package
`a/main`) lands at `<out>/x.go`; an included module is not generated. -/
example : cliPlanOutputFile "/s/work".toList none "/s/out".toList "../../../x.go".toList
    [⟨"/s/proj/a/main.thrift".toList, some [1]⟩, ⟨"/s/proj/inc.thrift".toList, some [2]⟩] [] [] =
    .ok [("/s/out/x.go".toList, [1])] := by decide +kernel
example : cliPlanOutputFile "/s/work".toList none "/s/out".toList "all.go".toList
    [⟨"/s/proj/a/main.thrift".toList, some [1]⟩, ⟨"/s/proj/inc.thrift".toList, some [2]⟩] [] [] =
    .ok [("/s/out/a/main/all.go".toList, [1])] := by decide +kernel

/-! ### 6. regression for finding D34 (repaired) -/

/-- REGRESSION, D34: for the file `/r/...thrift` the common ancestor is `/r` and the package
path would be ".."; it used to be planned at `../...go`, outside the output directory. Now
`modulePath` refuses and the command line fails before anything is planned. -/
theorem dotdot_thrift_refused :
    findCommonAncestor ["/r/...thrift".toList] = some "/r".toList ∧
    rel "/r".toList (trimSuffix "/r/...thrift".toList thriftSuffix) = some dotdot ∧
    modulePath "/r".toList "/r/...thrift".toList = none ∧
    cliPlan "/w".toList none "/o".toList [⟨"/r/...thrift".toList, some [7]⟩] [] []
      = .error .moduleFailed :=
  dotdot_thrift_refused_witness

/-- The positive form: for an absolute Thrift root, a path that `modulePath` yields has no
".." component — for EVERY file (relative, unclean, any name). A `Rel` result from an
absolute base has its ".." elements only in front, and `escapesRoot` excludes a leading one. -/
theorem modulePath_no_dotdot (root file p : Str) (ha : isAbs root = true)
    (h : modulePath root file = some p) : ∀ c ∈ splitSlash p, c ≠ dotdot :=
  modulePath_abs_no_dotdot root file p ha h

/-- Non-vacuity; and two refusals under a relative root (the theorem is stated for absolute
roots, which is what the command line always provides — `cliRoot_isAbs`). -/
example : modulePath "/r".toList "/r/a/b.thrift".toList = some "a/b/b.go".toList ∧
    modulePath "../r".toList "../s/x/a.thrift".toList = none ∧
    modulePath "r".toList "../a.thrift".toList = none := by decide

/-! ### 7. where core paths come from; no false refusals -/

/-- (i) `generateModule`: the Go file of a Thrift file is `<pkg>/<base pkg>.go` with `pkg` the
path of the file minus ".thrift" relative to the Thrift root, unless `pkg` leaves the root. -/
theorem core_paths_from_root_def (root f p : Str) :
    modulePath root f = some p ↔
      ∃ pkg, rel root (trimSuffix f thriftSuffix) = some pkg ∧ escapesRoot pkg = false ∧
        p = join2 pkg (base pkg ++ goSuffix) :=
  modulePath_iff root f p

/-- (ii) a package path without ".." component is not refused and gives a file path without
one, which is therefore confined to every absolute output directory. -/
theorem core_paths_from_root_confined (out pkg : Str) (ho : isAbs out = true)
    (h : ∀ c ∈ splitSlash pkg, c ≠ dotdot) :
    escapesRoot pkg = false ∧
    (∀ c ∈ splitSlash (join2 pkg (base pkg ++ goSuffix)), c ≠ dotdot) ∧
    within (clean out) (join2 out (join2 pkg (base pkg ++ goSuffix))) = true :=
  ⟨escapesRoot_false_of_no_dotdot pkg h, core_path_no_dotdot pkg h, core_path_confined out pkg ho h⟩

/-- (iii-a) `Rel` for a cleaned absolute root and a target that extends it by `rest` (any
string without ".." component — empty and "." components allowed): the remaining
components joined by '/', or "." if there are none. -/
theorem core_paths_from_root_rel (root rest : Str) (ha : isAbs root = true) (hc : clean root = root)
    (hr : ∀ c ∈ splitSlash rest, c ≠ dotdot) :
    rel root (root ++ '/' :: rest) =
      some (if comps rest = [] then dot else joinSlash (comps rest)) :=
  rel_extends root rest ha hc hr

/-- (iii-b) Hence a Thrift file `root/rest.thrift` — `rest` = directories below the root and
the base name minus ".thrift", none of them ".." — is ACCEPTED and mapped to a path without
".." component, inside every absolute output directory. -/
theorem core_paths_from_root_extends (root rest : Str) (ha : isAbs root = true)
    (hc : clean root = root) (hr : ∀ c ∈ splitSlash rest, c ≠ dotdot) :
    ∃ p, modulePath root (root ++ '/' :: rest ++ thriftSuffix) = some p ∧
      (∀ c ∈ splitSlash p, c ≠ dotdot) ∧
      ∀ out, isAbs out = true → within (clean out) (join2 out p) = true :=
  core_path_of_extends root rest ha hc hr

/-- (iii-c) With `--thrift-root`: a cleaned Thrift file that `verifyAncestry` accepts below a
cleaned absolute root, that is not the root itself and whose last component minus ".thrift"
is not "..", is accepted by `modulePath`. -/
theorem core_paths_from_root_ancestry (root f : Str) (ha : isAbs root = true) (hcr : clean root = root)
    (hcf : clean f = f) (hne : f ≠ root) (hanc : verifyAncestry root [f] = true)
    (hlast : NotDotDotName f) :
    ∃ p, modulePath root f = some p ∧ (∀ c ∈ splitSlash p, c ≠ dotdot) ∧
      ∀ out, isAbs out = true → within (clean out) (join2 out p) = true :=
  core_path_of_ancestry root f ha hcr hcf hne hanc hlast

/-- (iii-d) … and without `--thrift-root`: the same when the root is the `findCommonAncestor`
of the module paths. -/
theorem core_paths_from_root_common_ancestor (fs : List Str) (root f : Str)
    (hfc : CleanAbs f) (h : findCommonAncestor fs = some root) (hf : f ∈ fs)
    (hne : f ≠ root) (hlast : NotDotDotName f) :
    ∃ p, modulePath root f = some p ∧ (∀ c ∈ splitSlash p, c ≠ dotdot) ∧
      ∀ out, isAbs out = true → within (clean out) (join2 out p) = true :=
  core_path_of_common_ancestor fs root f hfc h hf hne hlast

/-- No false refusals on the command line: cleaned absolute module paths, none of them the
Thrift root itself, none called "...thrift" — every module gets its path, with or without
`--thrift-root`. (Both exclusions are genuine: see `dotdot_thrift_refused` and the example below.) -/
theorem cli_modules_accepted (cwd : Str) (tr : Option Str) (mods : List ModIn)
    (hcwd : isAbs cwd = true)
    (hmods : ∀ m ∈ mods, CleanAbs m.thriftPath ∧ NotDotDotName m.thriftPath)
    (hroot : ∀ m ∈ mods, cliRoot cwd tr mods ≠ some m.thriftPath) :
    ∀ root, cliRoot cwd tr mods = some root → ∀ m ∈ mods,
      (modulePath root m.thriftPath).isSome = true :=
  ThriftVerif.Proto.cli_modules_accepted cwd tr mods hcwd hmods hroot

/-- Non-vacuity of (iii): root `/r`, file `/r/a//b/./c.thrift`. -/
example : isAbs "/r".toList = true ∧ clean "/r".toList = "/r".toList ∧
    (∀ c ∈ splitSlash "a//b/./c".toList, c ≠ dotdot) ∧
    modulePath "/r".toList ("/r".toList ++ '/' :: "a//b/./c".toList ++ thriftSuffix)
      = some "a/b/c/c.go".toList := by decide

/-- Non-vacuity of the command-line hypotheses (two modules, no `--thrift-root`, one plugin). -/
example :
    (∀ m ∈ [(⟨"/r/a/x.thrift".toList, some [1]⟩ : ModIn), ⟨"/r/b/y.thrift".toList, some [2]⟩],
      (isAbs m.thriftPath = true ∧ clean m.thriftPath = m.thriftPath) ∧
      (splitSlash (trimSuffix m.thriftPath thriftSuffix)).getLast? ≠ some dotdot) ∧
    cliRoot "/w".toList none [⟨"/r/a/x.thrift".toList, some [1]⟩, ⟨"/r/b/y.thrift".toList, some [2]⟩]
      = some "/r".toList ∧
    cliPlan "/w".toList none "o".toList
      [⟨"/r/a/x.thrift".toList, some [1]⟩, ⟨"/r/b/y.thrift".toList, some [2]⟩]
      [some [("p/z.go".toList, [3])]] [0]
      = .ok [("/w/o/a/x/x.go".toList, [1]), ("/w/o/b/y/y.go".toList, [2]), ("/w/o/p/z.go".toList, [3])] := by
  decide

/-- A "root" that is itself the `.thrift` file: accepted by `verifyAncestry`, its package path
is `../r`, which the repaired `modulePath` refuses (it used to yield `../r/r.go`). -/
example : verifyAncestry "/r.thrift".toList ["/r.thrift".toList] = true ∧
    modulePath "/r.thrift".toList "/r.thrift".toList = none := by decide

/-! ### 8. ancestry -/

/-- `verifyAncestry` accepts only files whose path relative to the root exists and does not
start with "..". -/
theorem verifyAncestry_sound (root : Str) (fs : List Str) (h : verifyAncestry root fs = true) :
    ∀ f ∈ fs, ∃ q, rel root f = some q ∧ hasPrefix dotdot q = false :=
  ThriftVerif.Proto.verifyAncestry_sound root fs h

/-- A module outside the given `--thrift-root` stops the command before any plugin runs. -/
theorem cliPlan_rejects_outside_root (cwd r out : Str) (mods plugs ord)
    (h : verifyAncestry (absPath cwd r) (mods.map (·.thriftPath)) = false) :
    cliPlan cwd (some r) out mods plugs ord = .error .moduleFailed :=
  ThriftVerif.Proto.cliPlan_rejects_outside_root cwd r out mods plugs ord h

/-- Concretely: `/s/a.thrift` is not below `/r`; `/r/a.thrift` is below `../r` seen from `/w`. -/
theorem ancestry_rejects_example :
    cliPlan "/w".toList (some "/r".toList) "/o".toList [⟨"/s/a.thrift".toList, some [1]⟩] [] []
      = .error .moduleFailed ∧
    cliPlan "/w".toList (some "../r".toList) "o".toList [⟨"/r/a.thrift".toList, some [1]⟩] [] []
      = .ok [("/w/o/a/a.go".toList, [1])] :=
  ancestry_examples

/-- `findCommonAncestor`: the deepest common directory; an error when that is "/" ("no
common ancestor") or when a path is relative. -/
theorem findCommonAncestor_example :
    findCommonAncestor ["/r/a/x.thrift".toList, "/r/b/y.thrift".toList] = some "/r".toList ∧
    findCommonAncestor ["/a/x.thrift".toList, "/b/y.thrift".toList] = none ∧
    findCommonAncestor ["/a/x.thrift".toList, "b/y.thrift".toList] = none :=
  findCommonAncestor_examples

/-- With an explicit root the "...thrift" file was and is refused (its relative path starts
with ".."); a root that is itself a `.thrift` path is refused by the repaired `modulePath`. -/
theorem dotdot_thrift_rejected_with_explicit_root :
    cliPlan "/w".toList (some "/r".toList) "/o".toList [⟨"/r/...thrift".toList, some [7]⟩] [] []
      = .error .moduleFailed ∧
    modulePath "/r.thrift".toList "/r.thrift".toList = none :=
  ThriftVerif.Proto.dotdot_thrift_rejected_with_explicit_root

/-! ### 9. no file-vs-directory clash reaches the write loop (finding D33, repaired) -/

/-- REGRESSION, D33: `main/main.go` from one plugin and `main` from another — different keys,
different cleaned paths — used to be accepted and then failed in the write loop AFTER the
first file was written. Now the plan is refused, in either completion order; so is a plugin
file `main` beside the core file `main/main.go`, a plugin file below that core file, and one
plugin returning `a` and `a/b.go`. -/
theorem file_vs_directory_refused :
    generatePlan "/r".toList "/o".toList []
        [some [("main/main.go".toList, [1])], some [("main".toList, [2])]] [0, 1]
      = .error .fileVsDir ∧
    generatePlan "/r".toList "/o".toList []
        [some [("main/main.go".toList, [1])], some [("main".toList, [2])]] [1, 0]
      = .error .fileVsDir ∧
    generatePlan "/r".toList "/o".toList [⟨"/r/main.thrift".toList, some [1]⟩]
        [some [("main".toList, [2])]] [0]
      = .error .fileVsDir ∧
    generatePlan "/r".toList "/o".toList [⟨"/r/main.thrift".toList, some [1]⟩]
        [some [("main/main.go/x".toList, [2])]] [0]
      = .error .fileVsDir ∧
    generatePlan "/r".toList "/o".toList []
        [some [("a".toList, [1]), ("a/b.go".toList, [2])]] [0]
      = .error .fileVsDir :=
  file_vs_directory_refused_witness

/-- REGRESSION, D33: a plugin path that denotes the output directory itself ("", ".", "./",
"/") is refused (and reported in preference to a file-vs-directory clash). -/
theorem output_directory_refused :
    generatePlan "/r".toList "/o".toList [] [some [([], [1])]] [0] = .error .outDirItself ∧
    generatePlan "/r".toList "/o".toList [] [some [(".".toList, [1])]] [0] = .error .outDirItself ∧
    generatePlan "/r".toList "/o".toList [] [some [("./".toList, [1])]] [0] = .error .outDirItself ∧
    generatePlan "/r".toList "/o".toList [] [some [("/".toList, [1])]] [0] = .error .outDirItself ∧
    generatePlan "/r".toList "/o".toList []
        [some [("a/b".toList, [1]), ("a".toList, [2]), ([], [3])]] [0] = .error .outDirItself :=
  output_directory_refused_witness

/-- The check refuses exactly that: the empty key, or a key that is a proper directory prefix
(`isDirOf d p`: `d ++ "/"` is a prefix of `p`) of another. -/
theorem path_check_exact (fs : Files) :
    checkPaths fs = none ↔
      (hasKey fs [] = false ∧ ∀ x ∈ fs, ∀ y ∈ fs, isDirOf y.1 x.1 = false) :=
  checkPaths_none_iff fs

/-- Non-vacuity: names that merely resemble each other are accepted. -/
example :
    generatePlan "/r".toList "/o".toList [⟨"/r/main.thrift".toList, some [1]⟩]
        [some [("main-x".toList, [2]), ("mai".toList, [3]), ("main/main.gox".toList, [4])]] [0]
      = .ok [("/o/main/main.go".toList, [1]), ("/o/main-x".toList, [2]), ("/o/mai".toList, [3]),
          ("/o/main/main.gox".toList, [4])] :=
  near_clashes_accepted_witness

/-- The positive form: the write paths of an accepted plan are pairwise prefix-free
(`PrefixFree a b`: `a ≠ b`, neither `a/` a prefix of `b` nor `b/` of `a`), and none is "/" or
the output directory itself. Absolute output directory; nothing else assumed. -/
theorem plan_paths_prefix_free (root out : Str) (mods plugs ord) (ws : Files)
    (h : generatePlan root out mods plugs ord = .ok ws) (ho : isAbs out = true) :
    ws.Pairwise (fun a b => PrefixFree a.1 b.1) ∧
    ∀ w ∈ ws, w.1 ≠ ['/'] ∧ w.1 ≠ clean out :=
  plan_paths_prefixFree root out mods plugs ord ws h ho

theorem cli_paths_prefix_free (cwd : Str) (tr : Option Str) (out : Str) (mods plugs ord) (ws : Files)
    (h : cliPlan cwd tr out mods plugs ord = .ok ws) (hcwd : isAbs cwd = true) :
    ws.Pairwise (fun a b => PrefixFree a.1 b.1) ∧
    ∀ w ∈ ws, w.1 ≠ ['/'] ∧ w.1 ≠ clean (absPath cwd out) :=
  cli_paths_prefixFree cwd tr out mods plugs ord ws h hcwd

/-- The write loop over the file-system model, for ANY list of writes whose paths are cleaned,
absolute, not "/" and pairwise prefix-free, started on a file system `fs` that is not in the
way — `NotInTheWay fs ws`, exactly:
  * no regular file of `fs` is one of the directories `MkdirAll(Dir(p))` has to provide for a
    planned `p` (`needDirs p`: the proper ancestors of `p` below "/"), and
  * no directory of `fs` is a planned path
(a regular file AT a planned path is allowed: it is replaced) —
writes everything, whatever the iteration order. Afterwards the regular files are the old ones
that were not overwritten, followed by the plan. -/
theorem write_loop_complete (fs : FS) (ws : Files)
    (hclean : ∀ a ∈ ws, CleanAbs a.1 ∧ a.1 ≠ ['/'])
    (hpw : ws.Pairwise (fun a b => PrefixFree a.1 b.1))
    (hfs : NotInTheWay fs ws) :
    ∃ fs', writeLoop fs ws = (fs', true) ∧
      fs'.files = fs.files.filter (fun x => !hasKey ws x.1) ++ ws :=
  writeLoop_complete_prefixFree_on fs ws hclean hpw hfs

/-- `NotInTheWay` spelled out, and its two obvious instances: the empty output tree; a tree
whose regular files are not "/" nor a proper directory prefix of a planned path and whose
directories are not planned paths. -/
theorem not_in_the_way_def (fs : FS) (ws : Files) :
    NotInTheWay fs ws ↔
      ((∀ q, fs.isFile q = true → ∀ w ∈ ws, q ∉ needDirs w.1) ∧
       (∀ d ∈ fs.dirs, ∀ w ∈ ws, d ≠ w.1)) := Iff.rfl

theorem not_in_the_way_empty (ws : Files) : NotInTheWay ⟨[], []⟩ ws := notInTheWay_empty ws

theorem not_in_the_way_of_prefix (fs : FS) (ws : Files)
    (hclean : ∀ a ∈ ws, CleanAbs a.1 ∧ a.1 ≠ ['/'])
    (hf : ∀ q, fs.isFile q = true → q ≠ ['/'] ∧ ∀ w ∈ ws, hasPrefix (q ++ ['/']) w.1 = false)
    (hd : ∀ d ∈ fs.dirs, ∀ w ∈ ws, d ≠ w.1) : NotInTheWay fs ws :=
  notInTheWay_of_prefix fs ws hclean hf hd

/-- The hypothesis is exact: on a file system that IS in the way the loop fails — for any
list of writes. -/
theorem write_loop_needs_clear_way (fs : FS) (ws : Files) (h : (writeLoop fs ws).2 = true) :
    NotInTheWay fs ws :=
  writeLoop_ok_notInTheWay fs ws h

/-- **The repaired D33, positively.** For EVERY accepted plan (absolute output directory,
nothing else assumed) and every initial file system `fs`: the write loop succeeds iff `fs` is
not in the way of the plan; and then it writes the whole plan — the regular files afterwards
are the old ones that were not overwritten, followed by the plan. In particular
(`not_in_the_way_empty`) it succeeds on an empty output tree: no accepted plan can make the
write loop fail by itself any more. -/
theorem plan_write_loop_complete (root out : Str) (mods plugs ord) (ws : Files)
    (h : generatePlan root out mods plugs ord = .ok ws) (ho : isAbs out = true) (fs : FS) :
    ((writeLoop fs ws).2 = true ↔ NotInTheWay fs ws) ∧
    (NotInTheWay fs ws → ∃ fs', writeLoop fs ws = (fs', true) ∧
      fs'.files = fs.files.filter (fun x => !hasKey ws x.1) ++ ws) :=
  plan_writeLoop_complete root out mods plugs ord ws h ho fs

theorem cli_write_loop_complete (cwd : Str) (tr : Option Str) (out : Str) (mods plugs ord) (ws : Files)
    (h : cliPlan cwd tr out mods plugs ord = .ok ws) (hcwd : isAbs cwd = true) (fs : FS) :
    ((writeLoop fs ws).2 = true ↔ NotInTheWay fs ws) ∧
    (NotInTheWay fs ws → ∃ fs', writeLoop fs ws = (fs', true) ∧
      fs'.files = fs.files.filter (fun x => !hasKey ws x.1) ++ ws) :=
  cli_writeLoop_complete cwd tr out mods plugs ord ws h hcwd fs

/-- … on the empty output tree, in one line. -/
theorem plan_write_loop_complete_empty (root out : Str) (mods plugs ord) (ws : Files)
    (h : generatePlan root out mods plugs ord = .ok ws) (ho : isAbs out = true) :
    ∃ fs', writeLoop ⟨[], []⟩ ws = (fs', true) ∧ fs'.files = ws := by
  obtain ⟨fs', h1, h2⟩ :=
    (plan_write_loop_complete root out mods plugs ord ws h ho ⟨[], []⟩).2 (not_in_the_way_empty ws)
  exact ⟨fs', h1, by simpa using h2⟩

/-- Non-vacuity: an accepted plan and an output directory that holds another file, a stale
`a.go` and the directory `main` already — not in the way (shown here through the converse:
the loop succeeds); everything is written and `a.go` replaced. -/
example :
    generatePlan "/r".toList "/o".toList []
        [some [("a.go".toList, [1]), ("main/x.go".toList, [2])]] [0]
      = .ok [("/o/a.go".toList, [1]), ("/o/main/x.go".toList, [2])] ∧
    NotInTheWay
      ⟨[("/o/existing.txt".toList, [9]), ("/o/a.go".toList, [7])], ["/o".toList, "/o/main".toList]⟩
      [("/o/a.go".toList, [1]), ("/o/main/x.go".toList, [2])] ∧
    writeLoop ⟨[("/o/existing.txt".toList, [9]), ("/o/a.go".toList, [7])], ["/o".toList, "/o/main".toList]⟩
        [("/o/a.go".toList, [1]), ("/o/main/x.go".toList, [2])]
      = (⟨[("/o/existing.txt".toList, [9]), ("/o/a.go".toList, [1]), ("/o/main/x.go".toList, [2])],
          ["/o".toList, "/o/main".toList]⟩, true) :=
  ⟨write_loop_blocked_witness.1,
   write_loop_needs_clear_way _ _ (by rw [write_loop_existing_witness]),
   write_loop_existing_witness⟩

/-- Non-vacuity of `write_loop_complete`'s hypotheses: three files in two directories are
prefix-free, cleaned, absolute; the old D33 pair is not prefix-free. -/
example :
    [("/o/a/a.go".toList, ([1] : Content)), ("/o/a/b/c.go".toList, [2]), ("/o/d.go".toList, [3])].Pairwise
      (fun a b => PrefixFree a.1 b.1) ∧
    (∀ a ∈ [("/o/a/a.go".toList, ([1] : Content)), ("/o/a/b/c.go".toList, [2]), ("/o/d.go".toList, [3])],
      (isAbs a.1 = true ∧ clean a.1 = a.1) ∧ a.1 ≠ ['/']) ∧
    needDirs "/o/a/b/c.go".toList = ["/o".toList, "/o/a".toList, "/o/a/b".toList] ∧
    ¬ PrefixFree "/o/main/main.go".toList "/o/main".toList := by decide

/-! ### 10. what remains: the write loop by itself is not atomic -/

/-- The write loop stops at the first failing write and keeps what it wrote. (a) Given two
writes that clash — which no accepted plan contains any more (`plan_paths_prefix_free`) — it
fails after the first file. (b) NEGATION witness for atomicity under OS-level failures, which
C17 does not claim: an ACCEPTED plan on an output directory that is in the way (a regular file
`main` where the plan needs a directory) fails after `a.go` was written. -/
theorem write_loop_not_atomic :
    (∃ fs, writeLoop ⟨[], []⟩ [("/o/main/main.go".toList, [1]), ("/o/main".toList, [2])] = (fs, false) ∧
      fs.files ≠ []) ∧
    (generatePlan "/r".toList "/o".toList []
        [some [("a.go".toList, [1]), ("main/x.go".toList, [2])]] [0]
      = .ok [("/o/a.go".toList, [1]), ("/o/main/x.go".toList, [2])] ∧
     ∃ fs, writeLoop ⟨[("/o/main".toList, [9])], ["/o".toList]⟩
        [("/o/a.go".toList, [1]), ("/o/main/x.go".toList, [2])] = (fs, false) ∧
      fs.files ≠ [("/o/main".toList, [9])]) :=
  ⟨⟨_, write_loop_not_atomic_witness, by decide⟩,
   write_loop_blocked_witness.1, _, write_loop_blocked_witness.2, by decide⟩

end ThriftVerif.Properties.C17
