/-
C05 — Schema evolution: unknown/retyped fields ignored, required fields enforced.

Property theorems only. Model: M-Schema. "Mistyped" is at field-header level (wire type of
the field ≠ declared wire type); an element-type mismatch INSIDE a container of the right wire
type yields nil on both paths (modelled; reported separately by the harness).
-/
import ThriftVerif.Schema.EvolveProofs
import ThriftVerif.Schema.StreamProofs
import ThriftVerif.Schema.LazyRefine

namespace ThriftVerif.Properties.C05
open ThriftVerif.Wire ThriftVerif.Schema

/-- Value path: a field whose id is unknown, or whose wire type is not the declared one, is
ignored — whatever its value (any type, size, nesting depth) and wherever it stands. -/
theorem unknown_field_ignored (env : Env) (fuel : Nat) (n : String) (sd : StructDef)
    (hsd : env.find n = some sd) (fs₁ fs₂ : List (UInt16 × WValue)) (id : UInt16) (w : WValue)
    (h : Foreign sd.fields id w) :
    fromWire env (fuel + 1) (.struct n) (.struct (fs₁ ++ (id, w) :: fs₂)) =
    fromWire env (fuel + 1) (.struct n) (.struct (fs₁ ++ fs₂)) :=
  fromWire_unknown_field_ignored env fuel n sd hsd fs₁ fs₂ id w h

/-- Streaming path, on bytes: if the message without the foreign field is accepted by the value
path, then the message WITH the foreign field inserted (at any field boundary) is accepted by the
streaming path with the same result — the skipped field does not affect how the remaining
fields decode. -/
theorem unknown_field_ignored_stream (env : Env) (fuel : Nat) (n : String) (sd : StructDef)
    (hsd : env.find n = some sd) (fs₁ fs₂ : List (UInt16 × WValue)) (id : UInt16) (w : WValue)
    (h : Foreign sd.fields id w) (hwt : (WValue.struct (fs₁ ++ (id, w) :: fs₂)).wt = true)
    (rest : Bytes) (g : GVal)
    (hok : fromWire env (fuel + 1) (.struct n) (.struct (fs₁ ++ fs₂)) = .ok g) :
    decodeS env (fuel + 1) (.struct n) (enc (.struct (fs₁ ++ (id, w) :: fs₂)) ++ rest) = .ok (g, rest) := by
  apply decodeS_of_fromWire env (fuel + 1) (.struct n) _ rest g hwt rfl
  rw [fromWire_unknown_field_ignored env fuel n sd hsd fs₁ fs₂ id w h]
  exact hok

/-- The value path as it really runs (lazy `Decode`, then `FromWire`), on bytes: the message with
the foreign field inserted decodes to the same value as the message without it — the foreign
field's value, whatever it contains, is validated by the seeking skip and never looked at again. -/
theorem unknown_field_ignored_lazy (env : Env) (fuel : Nat) (n : String) (sd : StructDef)
    (hsd : env.find n = some sd) (fs₁ fs₂ : List (UInt16 × WValue)) (id : UInt16) (w : WValue)
    (h : Foreign sd.fields id w) (hwt : (WValue.struct (fs₁ ++ (id, w) :: fs₂)).wt = true)
    (rest : Bytes) (g : GVal)
    (hok : fromWire env (fuel + 1) (.struct n) (.struct (fs₁ ++ fs₂)) = .ok g) :
    valuePath env (fuel + 1) (.struct n) (enc (.struct (fs₁ ++ (id, w) :: fs₂)) ++ rest) = .ok (g, (rest, 0)) := by
  apply lazy_refines_strict env (fuel + 1) (.struct n) _ (.struct (fs₁ ++ (id, w) :: fs₂)) rest g
  · exact dec_enc (.struct (fs₁ ++ (id, w) :: fs₂)) rest _ hwt (size_le_fuelFor _ rest)
  · rw [fromWire_unknown_field_ignored env fuel n sd hsd fs₁ fs₂ id w h]
    exact hok

/-- Boolean form of `Foreign`. -/
def isForeign (fields : List Field) (p : UInt16 × WValue) : Bool :=
  (fields.find? (fun f => f.id == p.1 && f.ty.code == p.2.tcode)).isNone

theorem isForeign_iff (fields : List Field) (id : UInt16) (w : WValue) :
    isForeign fields (id, w) = true ↔ Foreign fields id w := by
  simp [isForeign, Foreign]

/-- Any number of foreign fields, anywhere in the message: deleting every field that is unknown or
retyped (after any prefix `pre`) does not change what the value path returns — success, value or
error alike. -/
theorem all_foreign_fields_ignored (env : Env) (fuel : Nat) (n : String) (sd : StructDef)
    (hsd : env.find n = some sd) (pre ws : List (UInt16 × WValue)) :
    fromWire env (fuel + 1) (.struct n) (.struct (pre ++ ws)) =
    fromWire env (fuel + 1) (.struct n) (.struct (pre ++ ws.filter (fun p => !isForeign sd.fields p))) := by
  induction ws generalizing pre with
  | nil => simp
  | cons p ws ih =>
    obtain ⟨id, w⟩ := p
    cases hf : isForeign sd.fields (id, w)
    · have : pre ++ (id, w) :: ws = (pre ++ [(id, w)]) ++ ws := by simp
      rw [List.filter_cons_of_pos (by simp [hf]), this, ih (pre ++ [(id, w)])]
      simp
    · rw [List.filter_cons_of_neg (by simp [hf]),
          unknown_field_ignored env fuel n sd hsd pre ws id w ((isForeign_iff _ _ _).1 hf)]
      exact ih pre

/-- So the result is a function of the known, correctly typed fields alone: a writer with a newer
or older schema may add, drop or retype any number of other fields. -/
theorem only_known_fields_matter (env : Env) (fuel : Nat) (n : String) (sd : StructDef)
    (hsd : env.find n = some sd) (ws : List (UInt16 × WValue)) :
    fromWire env (fuel + 1) (.struct n) (.struct ws) =
    fromWire env (fuel + 1) (.struct n) (.struct (ws.filter (fun p => !isForeign sd.fields p))) := by
  simpa using all_foreign_fields_ignored env fuel n sd hsd [] ws

/-- Absent fields: an optional field without default stays unset, one with a default takes
it, and a required field without default makes decoding fail. -/
theorem absent_field (f : Field) (fs : List Field) (ss : FState) :
    finishFields (f :: fs) ((.nil, false) :: ss) =
      match f.dflt with
      | some d => (match finishFields fs ss with | .error e => .error e | .ok rest => .ok (d :: rest))
      | none => if f.req then .error .bad else
          (match finishFields fs ss with | .error e => .error e | .ok rest => .ok (.nil :: rest)) :=
  finishFields_absent f fs ss

/-- Decoding a struct fails if and only if a nested value fails, or a required field without
default was not received with its declared wire type, or the union arity rule is violated. -/
theorem fails_iff (env : Env) (fuel : Nat) (n : String) (sd : StructDef)
    (hsd : env.find n = some sd) (wfs : List (UInt16 × WValue)) :
    (∃ e, fromWire env (fuel + 1) (.struct n) (.struct wfs) = .error e) ↔
      (∃ e, fromWireFields (fromWire env fuel) sd.fields wfs (initState sd.fields) = .error e) ∨
      (∃ st, fromWireFields (fromWire env fuel) sd.fields wfs (initState sd.fields) = .ok st ∧
        ((∃ e, finishFields sd.fields st = .error e) ∨
         (∃ gs, finishFields sd.fields st = .ok gs ∧ arityOkS sd (countSet gs) = false))) :=
  fromWire_struct_fails_iff env fuel n sd hsd wfs

/-- … where the post-loop pass fails exactly when some required field without default was never
set (a field is set only by a wire field with the same id AND the declared wire type). -/
theorem required_missing_iff (fields : List Field) (st : FState) (hl : st.length = fields.length) :
    (∃ e, finishFields fields st = .error e) ↔
      ∃ (i : Nat) (f : Field) (s : GVal × Bool), fields[i]? = some f ∧ st[i]? = some s ∧
        f.dflt = none ∧ f.req = true ∧ s.2 = false :=
  finishFields_error_iff fields st hl

/-- Non-vacuity: id 9 is foreign to S; id 1 with a string value is foreign (retyped) too. -/
example : Foreign [⟨1, "A", "a", true, false, false, none, .i32⟩] 9 (.bool true) ∧
    Foreign [⟨1, "A", "a", true, false, false, none, .i32⟩] 1 (.binary [65]) := by
  constructor <;> (unfold Foreign; rfl)

end ThriftVerif.Properties.C05
