/-
C03 — Decoders are total and canonical on arbitrary bytes.

Property theorems only. Model: M-Wire. Termination of the model decoders is
by construction (Lean accepts them as total functions); `decode_total` adds that
the fuel the drivers use is never exhausted, so the verdict is always a value or a
decode error. Runtime behaviour the model cannot exhibit (Go stack depth, panics in
library code) is observed by the correspondence harness on the implementation.
-/
import ThriftVerif.Wire.LazyProofs
import ThriftVerif.Wire.EnvelopeProofs
import ThriftVerif.Schema.LazyAgree
import ThriftVerif.Schema.LazyTotal

namespace ThriftVerif.Properties.C03
open ThriftVerif.Wire

/-- The strict (streaming) decoder returns a value or a decode error on EVERY byte string
and EVERY requested type byte — the model's fuel never runs out. -/
theorem decode_total (t : UInt8) (bs : Bytes) : decode t bs ≠ .error .fuel :=
  ThriftVerif.Wire.decode_total t bs

/-- Totality of `Skip` (`StreamReader.Skip`, both discard strategies: `io.CopyN` into
`io.Discard`, and the unchecked `Seek`): on every type byte and every byte string the model
returns a position or `bad`, never "out of fuel" — every recursive call follows at least one
byte that was really read. -/
theorem skip_total (seek : Bool) (t : UInt8) (bs : Bytes) : skipTop seek t bs ≠ .error .fuel :=
  ThriftVerif.Wire.skip_total seek t bs

/-- Totality of the random-access decoder as `binary.Decode` runs it (containers validated by
the seeking skip, nothing forced) … -/
theorem lazy_decode_total (t : UInt8) (bs : Bytes) :
    ThriftVerif.Schema.decL (fuelFor bs) t (bs, 0) ≠ .error .fuel :=
  ThriftVerif.Schema.decL_total t bs

/-- … and with every lazy container forced (`ForEach` re-reading the items). -/
theorem lazy_forced_decode_total (t : UInt8) (bs : Bytes) : decodeLazyForced t bs ≠ .error .fuel :=
  decodeLazyForced_total t bs

/-- Canonical form (streaming reader): whenever decoding succeeds, re-encoding the value
reproduces exactly the consumed prefix, and the value has the requested type. -/
theorem stream_canonical (t : UInt8) (bs : Bytes) (v : WValue) (rest : Bytes)
    (h : decode t bs = .ok (v, rest)) : enc v ++ rest = bs ∧ v.tcode = t ∧ v.wt = true :=
  dec_canonical h

/-- Canonical form (random-access decoder, every lazy container forced): success never
ends beyond the input (despite the unchecked seeks), and re-encoding reproduces the
consumed prefix. -/
theorem lazy_canonical (t : UInt8) (bs : Bytes) (v : WValue) (s : St)
    (h : decodeLazyForced t bs = .ok (v, s)) : s.2 = 0 ∧ enc v ++ s.1 = bs ∧ v.tcode = t := by
  obtain ⟨h1, h2⟩ := (lazyToStrictAt _).1 t bs v s h
  exact ⟨h2, (dec_canonical h1).1, (dec_canonical h1).2.1⟩

/-- Exact characterisation of what the reader accepts: decoding as type `t` succeeds with `(v, rest)`
precisely when `v` is a well-typed value of that type and the input is its encoding followed by
`rest`. Nothing else is accepted, and nothing of that shape is refused. -/
theorem decode_accepts_exactly_encodings (t : UInt8) (bs : Bytes) (v : WValue) (rest : Bytes) :
    decode t bs = .ok (v, rest) ↔ (v.wt = true ∧ v.tcode = t ∧ bs = enc v ++ rest) := by
  constructor
  · intro h
    obtain ⟨h1, h2, h3⟩ := stream_canonical t bs v rest h
    exact ⟨h3, h2, h1.symm⟩
  · rintro ⟨h1, h2, h3⟩
    subst h2 h3
    exact dec_enc v rest _ h1 (size_le_fuelFor v rest)

/-- A successful decode does not depend on what follows the value: appending bytes to the input
changes only the remainder. -/
theorem decode_ignores_what_follows (t : UInt8) (bs more : Bytes) (v : WValue) (rest : Bytes)
    (h : decode t bs = .ok (v, rest)) : decode t (bs ++ more) = .ok (v, rest ++ more) := by
  obtain ⟨h1, h2, h3⟩ := (decode_accepts_exactly_encodings t bs v rest).1 h
  refine (decode_accepts_exactly_encodings t _ v _).2 ⟨h1, h2, ?_⟩
  rw [h3, List.append_assoc]

/-- The two reader kinds succeed on exactly the same inputs, with the same value and the
same consumed length. -/
theorem readers_agree (t : UInt8) (bs : Bytes) (v : WValue) (rest : Bytes) :
    decodeLazyForced t bs = .ok (v, (rest, 0)) ↔ decode t bs = .ok (v, rest) :=
  decF_ok_iff_dec _ t bs v rest

/-- Skipping: whenever decoding succeeds, skipping a value of that type from the same
position succeeds and consumes exactly the same number of bytes — for the seeking
discard (unchecked `Seek`) and the streaming discard (`io.CopyN`) alike. -/
theorem skip_of_decode (seek : Bool) (t : UInt8) (bs : Bytes) (v : WValue) (rest : Bytes)
    (h : decode t bs = .ok (v, rest)) : skipTop seek t bs = .ok (rest, 0) := by
  obtain ⟨h1, h2, h3⟩ := dec_canonical h
  subst h1 h2
  exact skip_enc seek v rest _ h3 (size_le_fuelFor v rest)

/-- The same for an UNFORCED random-access decode (`reader.ReadValue`: containers only validated by
a seeking skip): it ends exactly where any successful seeking `Skip` of that type from the same
position ends — whatever fuel the model runs either with — and leaves a well-formed position. -/
theorem lazy_decode_ends_where_skip_ends (f f' : Nat) (t : UInt8) (bs : Bytes) (lv : ThriftVerif.Schema.LVal)
    (s' s'' : St) (h1 : ThriftVerif.Schema.decL f t (bs, 0) = .ok (lv, s'))
    (h2 : skip true f' t (bs, 0) = .ok s'') : s'' = s' ∧ WFSt s' :=
  ⟨ThriftVerif.Schema.decL_skip_agree (wf_zero bs) h1 h2, ThriftVerif.Schema.decL_wf (wf_zero bs) h1⟩

/-- Two successful skips agree whatever fuel the model ran with (the result is a function of the input). -/
theorem skip_result_fuel_independent (seek : Bool) (f1 f2 : Nat) (t : UInt8) (s a b : St)
    (h1 : skip seek f1 t s = .ok a) (h2 : skip seek f2 t s = .ok b) : a = b :=
  skip_agree h1 h2

/-- Read segmentation: `io.ReadFull` returns the same bytes and leaves the same remaining
stream however the input is chunked (every StreamReader primitive reads through it). -/
theorem read_segmentation_irrelevant (n : Nat) (cs : Chunks) :
    (readFull n cs).1 = cs.flatten.take n ∧ (readFull n cs).2.flatten = cs.flatten.drop n :=
  ⟨readFull_fst n cs, readFull_snd n cs⟩

/-- Strictness is what makes the form canonical: a bool byte other than 0/1 is rejected. -/
theorem bool_strict (b : UInt8) (rest : Bytes) (h0 : b ≠ 0) (h1 : b ≠ 1) :
    decode 2 (b :: rest) = .error .bad := by
  simp [decode, fuelFor, dec, TType.ofByte, h0, h1]

/-- … and negative lengths / counts are rejected. -/
theorem negative_length_rejected (t : UInt8) (n : Nat) (rest : Bytes) (ht : t = 11)
    (hn : 2 ^ 31 ≤ n) (hn' : n < 2 ^ 32) : decode t (beN 4 n ++ rest) = .error .bad := by
  subst ht
  have : rdLen (beN 4 n ++ rest) = none := by
    unfold rdLen; rw [rdN_beN]
    have : n % 256 ^ 4 = n := Nat.mod_eq_of_lt (by omega)
    simp [this]; omega
  simp [decode, fuelFor, dec, TType.ofByte, this]

/-- Non-vacuity: a successful decode with trailing bytes, and a list whose declared count
(2^31-1 four-byte elements) lies far beyond the input: the seeking skip "succeeds" past
the end, yet forcing fails, so no truncated input is accepted. -/
example : ∃ v, decode 15 [8, 0, 0, 0, 1, 0, 0, 0, 5, 0xAA] = .ok (v, [0xAA]) := ⟨.list 8 [.i32 5], by rfl⟩
example : (skipTop true 15 [8, 0x7f, 0xff, 0xff, 0xff]).toBool = true ∧
    (decodeLazyForced 15 [8, 0x7f, 0xff, 0xff, 0xff]).toBool = false ∧
    (skipTop false 15 [8, 0x7f, 0xff, 0xff, 0xff]).toBool = false := by decide

end ThriftVerif.Properties.C03
