/-
C04 — Value-based and streaming paths of generated code agree on every input.

Property theorems only. Model: M-Schema (`toWire`/`encodeS`, `fromWire`/`decodeS` mirror the
four generated methods and their container helpers as the templates structure them) on top
of M-Wire (`dec` = decode to a wire value with everything forced; `skip`).
Read segmentation: every StreamReader primitive reads through `io.ReadFull`/`io.CopyN`
(C03.read_segmentation_irrelevant), so the streaming decoder is modelled on the joined bytes;
whole-decoder independence of chunking is observed by the harness under random segmentation.
-/
import ThriftVerif.Schema.StreamProofs
import ThriftVerif.Schema.EncodeProofs
import ThriftVerif.Schema.LazyRefine
import ThriftVerif.Schema.LazyStream

namespace ThriftVerif.Properties.C04
open ThriftVerif.Wire ThriftVerif.Schema

/-- Every input accepted by the value-based path (decode to a wire value, then `FromWire`) is
accepted by the streaming path (`Decode`), with an equal result and the same consumed length —
for every schema, every (struct, container, typedef, enum, primitive) type and every byte string. -/
theorem stream_accepts_what_value_path_accepts (env : Env) (fuel f : Nat) (t : Ty) (bs : Bytes)
    (w : WValue) (rest : Bytes) (g : GVal)
    (hd : dec f t.code bs = .ok (w, rest)) (hf : fromWire env fuel t w = .ok g) :
    decodeS env fuel t bs = .ok (g, rest) :=
  ThriftVerif.Schema.stream_accepts_what_value_path_accepts env fuel f t bs w rest g hd hf

/-- The two deserialisers never produce different values. -/
theorem paths_never_differ (env : Env) (fuel f : Nat) (t : Ty) (bs : Bytes)
    (w : WValue) (rest rest' : Bytes) (g g' : GVal)
    (hd : dec f t.code bs = .ok (w, rest)) (hf : fromWire env fuel t w = .ok g)
    (hs : decodeS env fuel t bs = .ok (g', rest')) : g' = g ∧ rest' = rest :=
  ThriftVerif.Schema.paths_never_differ env fuel f t bs w rest rest' g g' hd hf hs

/-- The value path as it really runs — `binary.Decode` hands back LAZY containers (validated
by a seeking skip, re-read when forced) and generated `FromWire` forces only the containers
whose element types match — accepts every input the strict reading accepts, with the same
value and the same consumed length, for every schema, type and byte string. -/
theorem real_value_path_accepts_strict (env : Env) (fuel : Nat) (t : Ty) (bs : Bytes)
    (w : WValue) (rest : Bytes) (g : GVal)
    (hd : decode t.code bs = .ok (w, rest)) (hf : fromWire env fuel t w = .ok g) :
    valuePath env fuel t bs = .ok (g, (rest, 0)) :=
  lazy_refines_strict env fuel t bs w rest g hd hf

/-- On every input that is a valid encoding for the schema (the strict reading succeeds), the
two real paths — lazy `Decode` + `FromWire`, and streaming `Decode` — both succeed, with the
same value and the same consumed length. -/
theorem real_paths_agree_on_valid_input (env : Env) (fuel : Nat) (t : Ty) (bs : Bytes)
    (w : WValue) (rest : Bytes) (g : GVal)
    (hd : decode t.code bs = .ok (w, rest)) (hf : fromWire env fuel t w = .ok g) :
    valuePath env fuel t bs = .ok (g, (rest, 0)) ∧ decodeS env fuel t bs = .ok (g, rest) :=
  ⟨lazy_refines_strict env fuel t bs w rest g hd hf,
   ThriftVerif.Schema.stream_accepts_what_value_path_accepts env fuel _ t bs w rest g hd hf⟩

/-- On EVERY byte string — valid encoding or not — the two real paths never return different
values and never end at different places: whenever lazy `Decode` + `FromWire` and the streaming
`Decode` both succeed, the values are equal and the same bytes were consumed. (Which of the two
accepts an invalid input may differ: see the two permissiveness witnesses.) -/
theorem real_paths_never_differ (env : Env) (fuel : Nat) (t : Ty) (bs : Bytes) (g g' : GVal) (s1 : St)
    (r' : Bytes) (h1 : valuePath env fuel t bs = .ok (g, s1)) (h2 : decodeS env fuel t bs = .ok (g', r')) :
    g = g' ∧ s1 = (r', 0) :=
  ThriftVerif.Schema.real_paths_never_differ env fuel t bs g g' s1 r' h1 h2

/-- Non-vacuity of `real_paths_never_differ` on an input that is NOT a valid encoding for the
schema: a list field whose element type does not match (so it is never forced) and an unknown
field — both real paths succeed (and, by the theorem, agree). -/
example :
    let env : Env := { structs := [⟨"S", .struct,
      [⟨1, "A", "a", true, false, false, none, .i32⟩,
       ⟨3, "C", "c", false, false, false, none, .list .string⟩]⟩] }
    let bs : Bytes := [8, 0, 1, 0, 0, 0, 5, 15, 0, 3, 8, 0, 0, 0, 1, 0, 0, 0, 9, 11, 0, 77, 0, 0, 0, 1, 65, 0]
    (valuePath env 50 (.struct "S") bs).toBool = true ∧ (decodeS env 50 (.struct "S") bs).toBool = true := by
  decide

/-- Outside the valid encodings the real value path is more permissive than the streaming path
(finding D22's mechanism): a list whose declared element type does not match is never forced,
and its extent was "validated" by an unchecked seek — five announced i32 items that are not
there are accepted by the value path and rejected by the streaming path. -/
theorem real_value_path_more_permissive_witness :
    let env : Env := { structs := [] }
    (valuePath env 10 (.list .i64) [8, 0, 0, 0, 5]).toBool = true ∧
    (decodeS env 10 (.list .i64) [8, 0, 0, 0, 5]).toBool = false := by
  decide

/-- The streaming path is strictly more permissive in one documented way: a skipped (unknown)
field is not validated. Witness: an unknown bool field holding the byte 2 — the value path
rejects the message while the streaming path skips the field. -/
theorem stream_more_permissive_witness :
    let env : Env := { structs := [⟨"S", .struct, [⟨1, "A", "a", false, false, false, none, .i32⟩]⟩] }
    (dec 100 12 [2, 0, 9, 2, 0]).toBool = false ∧
    (decodeS env 100 (.struct "S") [2, 0, 9, 2, 0]).toBool = true := by
  decide

/-- For every Go value, the streaming serialiser performs exactly the stream.Writer calls
that `Writer.WriteValue` performs on the result of `ToWire`, and fails exactly when `ToWire`
fails (required field unset, union arity, nil element) … -/
theorem encode_is_writevalue_of_towire (env : Env) (hwf : WFEnv env) (fuel : Nat) (t : Ty) (g : GVal) :
    encodeS env fuel t g = liftOps (toWire env fuel t g) :=
  encodeS_eq_toWire env hwf fuel t g

/-- … so both serialisers either both fail or produce the same bytes (hence encodings that
decode to equal values). -/
theorem serialisers_agree (env : Env) (hwf : WFEnv env) (fuel : Nat) (t : Ty) (g : GVal) :
    (match encodeS env fuel t g with | .ok ops => some (runOps ops) | .error _ => none) =
    (match toWire env fuel t g with | .ok w => some (enc w) | .error _ => none) :=
  encode_bytes_agree env hwf fuel t g

/-- Non-vacuity: a struct with a required field, a defaulted field, a list field with a
mistyped element type and an unknown field — value path and streaming path both succeed. -/
example :
    let env : Env := { structs := [⟨"S", .struct,
      [⟨1, "A", "a", true, false, false, none, .i32⟩,
       ⟨2, "B", "b", false, false, false, some (.i32 7), .i32⟩,
       ⟨3, "C", "c", false, false, false, none, .list .string⟩]⟩] }
    let bs : Bytes := [8, 0, 1, 0, 0, 0, 5, 15, 0, 3, 8, 0, 0, 0, 1, 0, 0, 0, 9, 11, 0, 77, 0, 0, 0, 1, 65, 0]
    (match dec 200 12 bs with
     | .ok (w, _) => (fromWire env 50 (.struct "S") w).toBool
     | .error _ => false) = true ∧ (decodeS env 50 (.struct "S") bs).toBool = true := by
  decide

example : WFEnv { structs := [⟨"U", .union, [⟨1, "A", "a", false, false, false, none, .i32⟩]⟩] } := by
  intro n sd h
  simp [Env.find] at h
  obtain ⟨_, rfl⟩ := h
  intro _ f hf
  simp at hf; subst hf; exact ⟨rfl, rfl⟩

end ThriftVerif.Properties.C04
