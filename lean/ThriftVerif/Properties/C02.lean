/-
C02 — Binary protocol round-trips every wire value byte-exactly per the Thrift spec.

Property theorems only (helper lemmas live in ThriftVerif/Wire/*). Model: M-Wire.
`enc` is the declarative statement of the format; `opsOfValue`/`runOps` is the
writer as the code structures it (Writer.WriteValue driving StreamWriter calls —
the same calls generated `Encode` methods make); `decode` is a reader built from
the StreamReader primitives; `decodeLazyForced` is the random-access decoder
(validate containers by skipping, materialise on demand) with everything forced.
-/
import ThriftVerif.Wire.Writer
import ThriftVerif.Wire.LazyProofs

namespace ThriftVerif.Properties.C02
open ThriftVerif.Wire

/-- The writer, and the stream writer driven by the corresponding call sequence, emit
exactly the bytes the format prescribes — for every value. -/
theorem writer_emits_spec (v : WValue) : runOps (opsOfValue v) = enc v :=
  runOps_opsOfValue v

/-- The format itself, clause by clause (big-endian fixed-width scalars, length-prefixed
binaries, typed and counted container headers, type+id field headers, stop byte). -/
theorem format_scalars (b : Bool) (x8 : UInt8) (x16 : UInt16) (x32 : UInt32) (x64 d : UInt64) :
    enc (.bool b) = [if b then 1 else 0] ∧ enc (.i8 x8) = [x8] ∧
    enc (.i16 x16) = beN 2 x16.toNat ∧ enc (.i32 x32) = beN 4 x32.toNat ∧
    enc (.i64 x64) = beN 8 x64.toNat ∧ enc (.double d) = beN 8 d.toNat := by
  simp [enc]

theorem format_big_endian (k n : Nat) : deN (beN k n) = n % 256 ^ k ∧ (beN k n).length = k :=
  ⟨deN_beN k n, beN_length k n⟩

theorem format_binary (bs : Bytes) : enc (.binary bs) = beN 4 bs.length ++ bs := by simp [enc]

theorem format_containers (kt vt et : UInt8) (is : List (WValue × WValue)) (vs : List WValue) :
    enc (.map kt vt is) = kt :: vt :: (beN 4 is.length ++ encItems is) ∧
    enc (.set et vs) = et :: (beN 4 vs.length ++ encList vs) ∧
    enc (.list et vs) = et :: (beN 4 vs.length ++ encList vs) := by
  simp [enc]

theorem format_struct (id : UInt16) (v : WValue) (fs : List (UInt16 × WValue)) :
    enc (.struct []) = [0] ∧
    enc (.struct ((id, v) :: fs)) = v.tcode :: (beN 2 id.toNat ++ (enc v ++ enc (.struct fs))) := by
  simp [enc, encFields]

/-- Streaming reader: decoding the encoding of any well-typed value returns that value
(bit-for-bit: scalars and doubles are bit patterns, binaries byte lists, containers
ordered lists) and leaves exactly the bytes that followed it. -/
theorem stream_decode_encode (v : WValue) (rest : Bytes) (h : v.wt = true) :
    decode v.tcode (enc v ++ rest) = .ok (v, rest) :=
  dec_enc v rest _ h (size_le_fuelFor v rest)

/-- Random-access decoder with every lazy container forced: same. -/
theorem lazy_decode_encode (v : WValue) (rest : Bytes) (h : v.wt = true) :
    decodeLazyForced v.tcode (enc v ++ rest) = .ok (v, (rest, 0)) :=
  (strictToLazyAt _).1 _ _ _ _ (dec_enc v rest _ h (size_le_fuelFor v rest))

/-- The encoding is prefix-free within a type: if the bytes of one well-typed value followed by
anything equal the bytes of another of the same type followed by anything, the two values and
the two remainders coincide. So a reader never has a choice where a value ends, no valid
encoding is a proper prefix of another, and two different values never share their bytes. -/
theorem encoding_prefix_free (v w : WValue) (r s : Bytes) (hv : v.wt = true) (hw : w.wt = true)
    (ht : v.tcode = w.tcode) (h : enc v ++ r = enc w ++ s) : v = w ∧ r = s := by
  have h1 := stream_decode_encode v r hv
  have h2 := stream_decode_encode w s hw
  rw [h, ht, h2] at h1
  injection h1 with h1
  injection h1 with h1 h3
  exact ⟨h1.symm, h3.symm⟩

/-- Encoding is injective on well-typed values of one type. -/
theorem encoding_injective (v w : WValue) (hv : v.wt = true) (hw : w.wt = true)
    (ht : v.tcode = w.tcode) (h : enc v = enc w) : v = w :=
  (encoding_prefix_free v w [] [] hv hw ht (by simpa using h)).1

/-- No valid encoding is a proper prefix of another of the same type. -/
theorem encoding_no_proper_prefix (v w : WValue) (s : Bytes) (hv : v.wt = true) (hw : w.wt = true)
    (ht : v.tcode = w.tcode) (h : enc v = enc w ++ s) : s = [] :=
  ((encoding_prefix_free v w [] s hv hw ht (by simpa using h)).2).symm

/-- The same-type hypothesis is needed: a bool `true` and a byte `1` are different values with
the same bytes. -/
example : enc (.bool true) = enc (.i8 1) ∧ (WValue.bool true) ≠ .i8 1 :=
  ⟨by simp [enc], nofun⟩

/-- Non-vacuity: a nested value with a negative field id, a NaN, an empty container with
an arbitrary element-type byte and a map satisfies the hypothesis. -/
example : (WValue.struct [(0xFFFF, .list 13 [.map 11 4 [(.binary [1, 2], .double 0x7ff8000000000001)]]),
    (7, .set 0x55 [])]).wt = true := by decide

end ThriftVerif.Properties.C02
