/-
C13 — Decoding cost is bounded by the size of the input (proof, partial).

Property theorems only. Model: M-Wire Cost.lean — the allocation that is *driven by declared
lengths* (`make` sizes and buffer growth), following the control flow of the decoders. What the
model cannot exhibit: the Go allocator's real footprint and wall time; the harness measures
`runtime.MemStats.TotalAlloc` on the implementation against the model's prediction.
`lazy_counts_le_input` covers the random-access decoder WITHOUT forcing: every lazy container of a
successfully decoded struct message declares at most N elements, which is what bounds the pre-sizing
in generated `FromWire` (`make(T, 0, l.Size())`).
The generated streaming decoders violate the property (finding D3, known): `gen_prealloc_unbounded`.
-/
import ThriftVerif.Wire.CostProofs
import ThriftVerif.Wire.Totality
import ThriftVerif.Schema.LazyExtent

namespace ThriftVerif.Properties.C13
open ThriftVerif.Wire

/-- Streaming reader, any requested type, EVERY input: length-driven allocation ≤ 5·N + 1 MiB + 1 KiB,
no matter what lengths or counts the message declares. -/
theorem stream_alloc_bound (t : UInt8) (bs : Bytes) :
    streamAlloc t bs ≤ 5 * bs.length + bytesAllocThreshold + 1024 :=
  ThriftVerif.Wire.stream_alloc_bound t bs

/-- Envelope header (both framings, after the D2 repair): same bound. -/
theorem envelope_alloc_bound (bs : Bytes) :
    envelopeAlloc bs ≤ 5 * bs.length + bytesAllocThreshold + 1024 :=
  ThriftVerif.Wire.envelope_alloc_bound bs

/-- Framed transport reader: ≤ 5·N + 10 MiB + 1 KiB. -/
theorem frame_alloc_bound (bs : Bytes) : frameAlloc bs ≤ 5 * bs.length + fastPathFrameSize + 1024 :=
  ThriftVerif.Wire.frame_alloc_bound bs

/-- The same for every threshold (the harness lowers it to reach the copying path with short inputs). -/
theorem frame_alloc_bound_any_threshold (thr : Nat) (bs : Bytes) :
    frameAllocT thr bs ≤ 5 * bs.length + thr + 1024 :=
  ThriftVerif.Wire.frame_alloc_boundT thr bs

/-- Work: the strict decoder's recursion never exceeds `3·N + 3` nested steps on any input
(each step consumes a byte or stops) — the fuel bound of C03.decode_total. -/
theorem steps_linear (t : UInt8) (bs : Bytes) : decode t bs ≠ .error .fuel ∧ fuelFor bs = 3 * bs.length + 3 :=
  ⟨decode_total t bs, rfl⟩

/-- What a successful decode returns is never larger than what it read: the encoding of the value
and the untouched remainder together are exactly as long as the input, so the memory a decoded
value stands for is bounded by the bytes consumed. -/
theorem decoded_value_no_larger_than_input (t : UInt8) (bs : Bytes) (v : WValue) (rest : Bytes)
    (h : decode t bs = .ok (v, rest)) : (enc v).length + rest.length = bs.length := by
  have := (dec_canonical h).1
  rw [← this, List.length_append]

/-- A successful decode never yields a container with more elements than input bytes. -/
theorem decoded_list_count_le_input (f : Nat) (bs : Bytes) (et : UInt8) (items : List WValue) (rest : Bytes)
    (h : dec f 15 bs = .ok (.list et items, rest)) : items.length ≤ bs.length := by
  obtain ⟨h1, _, h3⟩ := dec_canonical h
  have hb : ∀ vs : List WValue, vs.length ≤ (encList vs).length := by
    intro vs
    induction vs with
    | nil => simp
    | cons v vs ih => have := enc_length_pos v; simp [encList]; omega
  have := hb items
  rw [← h1]; simp [enc]; omega

/-- Random-access decoder, unforced: if decoding a struct message succeeds, every lazy container in
it (at any depth of eagerly decoded structs) declares at most N elements — whatever the message
declares, because the struct's stop byte is read after every unchecked seek. -/
theorem lazy_counts_le_input (f : Nat) (bs : Bytes) (lv : ThriftVerif.Schema.LVal) (s' : St)
    (h : ThriftVerif.Schema.decL f TType.struct.code (bs, 0) = .ok (lv, s')) :
    ∀ c ∈ ThriftVerif.Schema.lazyCounts lv, c ≤ bs.length :=
  ThriftVerif.Schema.lazy_counts_le_input f bs lv s' h

/-- Finding D2 (repaired in /repo): the original legacy-envelope name read allocated the declared
length — 5 input bytes could demand 2 GiB; after the repair the same input costs ≤ 1028 bytes. -/
theorem legacy_name_alloc_unbounded_before_fix :
    envelopeAllocOld [0x7f, 0xff, 0xff, 0xff, 0] = 2 ^ 31 - 1 ∧
    envelopeAlloc [0x7f, 0xff, 0xff, 0xff, 0] ≤ 1028 :=
  ThriftVerif.Wire.legacy_name_alloc_unbounded_before_fix

/-- Finding D3 (known, recorded): generated `Decode` helpers pre-size containers from the header
count before reading any element — unbounded in N. -/
theorem gen_prealloc_unbounded (elemSize : Nat) :
    genPreallocList elemSize [10, 0x7f, 0xff, 0xff, 0xff] = (2 ^ 31 - 1) * elemSize :=
  ThriftVerif.Wire.gen_prealloc_unbounded elemSize

/-- Non-vacuity: a 9-byte struct whose binary field declares 1 MiB: the model predicts exactly
1 MiB (the threshold), and declaring 1 MiB + 1 makes the prediction drop to the copied bytes. -/
example : streamAlloc 12 [11, 0, 1, 0, 0x10, 0, 0, 65, 0] = 1048576 ∧
    streamAlloc 12 [11, 0, 1, 0, 0x10, 0, 1, 65, 0] = 4 * 2 + 1024 := by decide

end ThriftVerif.Properties.C13
