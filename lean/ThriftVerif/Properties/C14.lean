/-
C14 — Equality on generated and wire values is a sound equivalence.

Property theorems only. Model: M-Schema `equalsG` (generated Equals / EqualsPtr and the per-container
helpers, incl. the one-directional membership loops) and `wireEq` (wire.ValuesAreEqual).
`decodedV` = "value obtained by decoding": no NaN, Go-map-backed sets/maps with pairwise different
keys, slice-backed sets / key-value slices with pairwise non-Equals elements / keys, defaults filled.
Proved: Equals is reflexive, symmetric and transitive on decoded values, for every schema and type
(hence order-insensitive for sets and maps — any permutation of a decoded value's set elements / map
entries is Equals to it — and order-sensitive for lists by `list_order_sensitive`); total (never
"panics": the model is a total function, nil receivers/arguments included).
Proved as well: x.Equals(y) holds exactly when wire.ValuesAreEqual(x.ToWire(), y.ToWire()) holds, for every
schema with pairwise different field ids, every type and every two decoded values (`equals_iff_wire_equal`;
induction over types, with the pigeonhole lemma for the one-directional loops on both sides, "last entry
wins" of the hashable-key map loop, and the field-map comparison of structs).
Proved at wire level, for ARBITRARY wire values (`wclean`: no NaN, no repeated set items or map keys; structs
may repeat field identifiers): `wire.ValuesAreEqual` is an equivalence relation (`wire_equal_refl/symm/trans`)
and holds exactly when an independent statement of "the same logical value" holds (`wire_equal_iff_same_logical_value`;
`specEq` tests no lengths or counts and looks both ways). The Go harness has its own comparison as well.
The two halves are joined by `towire_image_clean` (every `ToWire` image of a value in decoded form is `wclean`
at the same fuel): `equals_iff_same_logical_value` is the property's chain in one statement — x.Equals(y) ⇔
wire.ValuesAreEqual(x.ToWire(), y.ToWire()) ⇔ the independent comparison of the two logical values.
-/
import ThriftVerif.Schema.EqualsProofs
import ThriftVerif.Schema.EqWireProofs
import ThriftVerif.Schema.WireEquivProofs
import ThriftVerif.Schema.ToWireClean

namespace ThriftVerif.Properties.C14
open ThriftVerif.Wire ThriftVerif.Schema

/-- Reflexive on decoded values. -/
theorem equals_refl (env : Env) (fuel : Nat) (t : Ty) (x : GVal) (hx : decodedV env fuel t x = true) :
    equalsG env fuel t x x = true :=
  (equalsG_equivOn env fuel t).refl x hx

/-- Symmetric on decoded values — although the generated set/map helpers only loop one way
(needs duplicate-freeness: see `slice_set_not_symm_with_dups`). -/
theorem equals_symm (env : Env) (fuel : Nat) (t : Ty) (x y : GVal)
    (hx : decodedV env fuel t x = true) (hy : decodedV env fuel t y = true)
    (h : equalsG env fuel t x y = true) : equalsG env fuel t y x = true :=
  (equalsG_equivOn env fuel t).symm x y hx hy h

/-- Transitive on decoded values. -/
theorem equals_trans (env : Env) (fuel : Nat) (t : Ty) (x y z : GVal)
    (hx : decodedV env fuel t x = true) (hy : decodedV env fuel t y = true)
    (hz : decodedV env fuel t z = true)
    (h1 : equalsG env fuel t x y = true) (h2 : equalsG env fuel t y z = true) :
    equalsG env fuel t x z = true :=
  (equalsG_equivOn env fuel t).trans x y z hx hy hz h1 h2

/-- The pigeonhole core: a one-directional containment between two duplicate-free lists of equal
length is a bijection up to the element relation (why the generated one-way loops are correct). -/
theorem set_containment_lemma {α : Type} (D : α → Prop) (r : α → α → Bool) (he : EquivOn D r)
    (as bs : List α) (hDa : ∀ a ∈ as, D a) (hDb : ∀ b ∈ bs, D b)
    (hna : pairwiseNot r as = true) (hnb : pairwiseNot r bs = true) (hl : as.length = bs.length)
    (h : ∀ a ∈ as, ∃ b ∈ bs, r a b = true) : ∀ b ∈ bs, ∃ a ∈ as, r a b = true :=
  surj_of_inj D r he as bs hDa hDb hna hnb hl h

/-- Why the duplicate-free hypothesis is needed: with duplicates the slice-set comparison is not symmetric. -/
theorem slice_set_not_symm_with_dups :
    equalsG {} 5 (.sset .i32) (.set false [.i32 1, .i32 1]) (.set false [.i32 1, .i32 2]) = true ∧
    equalsG {} 5 (.sset .i32) (.set false [.i32 1, .i32 2]) (.set false [.i32 1, .i32 1]) = false := by
  decide

/-- Structs that repeat a field identifier (the decoder accepts them; the last entry wins) are
compared through their field maps, the same both ways round. Before the repair of finding D87 the first
comparison held and the second did not. -/
theorem repeated_field_ids :
    wireEq 3 (.struct [(1, .i32 7), (1, .i32 7)]) (.struct [(1, .i32 7), (2, .i32 9)]) = false ∧
    wireEq 3 (.struct [(1, .i32 7), (2, .i32 9)]) (.struct [(1, .i32 7), (1, .i32 7)]) = false ∧
    wireEq 3 (.struct [(1, .i32 9), (1, .i32 7)]) (.struct [(1, .i32 7)]) = true ∧
    wireEq 3 (.struct [(1, .i32 7)]) (.struct [(1, .i32 9), (1, .i32 7)]) = true := by
  decide

/-- `wire.ValuesAreEqual` is reflexive on every wire value without NaN, repeated set items or repeated map keys. -/
theorem wire_equal_refl (fuel : Nat) (x : WValue) (hx : wclean fuel x = true) : wireEq fuel x x = true :=
  (wireEq_equivOn fuel).refl x hx

/-- … symmetric — although the set and map loops look one way only and the struct case compares the number
of different identifiers and one direction (before the repair of D87: the lengths of the field lists, and
symmetry failed: `old_struct_rule_not_symmetric`). -/
theorem wire_equal_symm (fuel : Nat) (x y : WValue) (hx : wclean fuel x = true) (hy : wclean fuel y = true)
    (h : wireEq fuel x y = true) : wireEq fuel y x = true :=
  (wireEq_equivOn fuel).symm x y hx hy h

/-- … and transitive. -/
theorem wire_equal_trans (fuel : Nat) (x y z : WValue)
    (hx : wclean fuel x = true) (hy : wclean fuel y = true) (hz : wclean fuel z = true)
    (h1 : wireEq fuel x y = true) (h2 : wireEq fuel y z = true) : wireEq fuel x z = true :=
  (wireEq_equivOn fuel).trans x y z hx hy hz h1 h2

/-- `wire.ValuesAreEqual` holds exactly when the independent structural comparison of the two logical
values says so (`specEq`: lists item by item, sets and maps with every item / entry of either side present
on the other, structs with every identifier of either side denoting related fields; no hashing, no length
or count tests). -/
theorem wire_equal_iff_same_logical_value (fuel : Nat) (x y : WValue)
    (hx : wclean fuel x = true) (hy : wclean fuel y = true) :
    wireEq fuel x y = true ↔ specEq fuel x y = true := by
  rw [wireEq_eq_specEq fuel x y hx hy]

/-- What generated code serialises is a clean wire value: no NaN, no set with two equal items, no map with two
equal keys — for every schema with pairwise different field identifiers, every type, every value in decoded form. -/
theorem towire_image_clean (env : Env) (hids : WFIds env) (fuel : Nat) (t : Ty) (g : GVal) (w : WValue)
    (hg : decodedV env fuel t g = true) (hw : toWire env fuel t g = .ok w) : wclean fuel w = true :=
  toWire_clean env hids fuel t g w hg hw

/-- **The property's chain in one statement**: on values in decoded form, `x.Equals(y)` holds exactly when
`wire.ValuesAreEqual` holds of the two wire forms, and that exactly when the independent structural
comparison of the two logical values (`specEq`) says so. -/
theorem equals_iff_same_logical_value (env : Env) (hids : WFIds env) (fuel : Nat) (t : Ty) (x y : GVal)
    (wx wy : WValue) (hx : decodedV env fuel t x = true) (hy : decodedV env fuel t y = true)
    (hwx : toWire env fuel t x = .ok wx) (hwy : toWire env fuel t y = .ok wy) :
    (equalsG env fuel t x y = true ↔ wireEq fuel wx wy = true) ∧
    (wireEq fuel wx wy = true ↔ specEq fuel wx wy = true) := by
  refine ⟨by rw [equals_eq_wireEq env hids fuel t x y wx wy hx hy hwx hwy], ?_⟩
  rw [wireEq_eq_specEq fuel wx wy (toWire_clean env hids fuel t x wx hx hwx)
    (toWire_clean env hids fuel t y wy hy hwy)]

/-- Non-vacuity: a struct that repeats an identifier, holding a set, a map with struct keys and a list, is
`wclean`; it is equal to a permuted re-arrangement of itself and different from a perturbed one — both
sides of the equivalence computed. -/
example :
    let a : WValue := .struct [(1, .i32 9), (2, .set 8 [.i32 1, .i32 2]), (1, .i32 7),
      (3, .map 12 4 [(.struct [(1, .i32 1)], .double 0), (.struct [(1, .i32 2)], .double 0x8000000000000000)]),
      (4, .list 11 [.binary [1], .binary []])]
    let b : WValue := .struct [(4, .list 11 [.binary [1], .binary []]), (1, .i32 7),
      (3, .map 12 4 [(.struct [(1, .i32 2)], .double 0), (.struct [(1, .i32 1)], .double 0)]),
      (2, .set 8 [.i32 2, .i32 1])]
    let c : WValue := .struct [(4, .list 11 [.binary [], .binary [1]]), (1, .i32 7),
      (3, .map 12 4 [(.struct [(1, .i32 2)], .double 0), (.struct [(1, .i32 1)], .double 0)]),
      (2, .set 8 [.i32 2, .i32 1])]
    wclean 4 a = true ∧ wclean 4 b = true ∧ wclean 4 c = true ∧
      wireEq 4 a b = true ∧ specEq 4 a b = true ∧ wireEq 4 b a = true ∧
      wireEq 4 a c = false ∧ specEq 4 a c = false := by
  decide

/-- The struct rule before the repair of finding D87 (`len(Fields)` compared, then the left field map
against the right one) is not symmetric: the reason `wire_equal_symm` needs the number of different
identifiers. -/
theorem old_struct_rule_not_symmetric :
    let old (fa fb : List (UInt16 × WValue)) : Bool :=
      fa.length == fb.length && fa.all fun f =>
        match lookupLast f.1 fa, lookupLast f.1 fb with
        | some lv, some rv => wireEq 2 lv rv
        | _, _ => false
    old [(1, .i32 7), (1, .i32 7)] [(1, .i32 7), (2, .i32 9)] = true ∧
    old [(1, .i32 7), (2, .i32 9)] [(1, .i32 7), (1, .i32 7)] = false := by
  decide

/-- Lists are order-sensitive, sets are not. -/
theorem list_order_sensitive :
    equalsG {} 5 (.list .i32) (.list [.i32 1, .i32 2]) (.list [.i32 2, .i32 1]) = false ∧
    equalsG {} 5 (.set .i32) (.set true [.i32 1, .i32 2]) (.set true [.i32 2, .i32 1]) = true ∧
    equalsG {} 5 (.map (.list .i8) .bool) (.map false [(.list [.i8 1], .bool true), (.list [], .bool false)])
      (.map false [(.list [], .bool false), (.list [.i8 1], .bool true)]) = true := by
  decide

/-- `x.Equals(y)` holds exactly when the wire forms of x and y are equal under wire-value
equality (`wire.ValuesAreEqual`) — for every schema whose structs have pairwise different field
identifiers, every type, and every two values in decoded form. -/
theorem equals_iff_wire_equal (env : Env) (hids : WFIds env) (fuel : Nat) (t : Ty) (x y : GVal) (wx wy : WValue)
    (hx : decodedV env fuel t x = true) (hy : decodedV env fuel t y = true)
    (hwx : toWire env fuel t x = .ok wx) (hwy : toWire env fuel t y = .ok wy) :
    equalsG env fuel t x y = true ↔ wireEq fuel wx wy = true := by
  rw [equals_eq_wireEq env hids fuel t x y wx wy hx hy hwx hwy]

/-- Non-vacuity of `equals_iff_wire_equal`: two decoded structs with an optional field unset on one
side, a slice-backed set in different orders and a map — both sides of the equivalence computed. -/
example :
    let env : Env := { structs := [⟨"S", .struct,
      [⟨1, "A", "a", true, false, false, none, .i32⟩,
       ⟨2, "B", "b", false, false, false, none, .sset .string⟩,
       ⟨3, "C", "c", false, false, false, none, .map .i8 .bool⟩]⟩] }
    let x := GVal.struct [.i32 5, .set false [.str [65], .str [66]], .map true [(.i8 1, .bool true), (.i8 2, .bool false)]]
    let y := GVal.struct [.i32 5, .set false [.str [66], .str [65]], .map true [(.i8 2, .bool false), (.i8 1, .bool true)]]
    let z := GVal.struct [.i32 5, .set false [.str [66], .str [65]], .nil]
    decodedV env 5 (.struct "S") x = true ∧ decodedV env 5 (.struct "S") y = true ∧
    decodedV env 5 (.struct "S") z = true ∧
    equalsG env 5 (.struct "S") x y = true ∧ equalsG env 5 (.struct "S") x z = false ∧
    (match toWire env 5 (.struct "S") x, toWire env 5 (.struct "S") y, toWire env 5 (.struct "S") z with
     | .ok wx, .ok wy, .ok wz => wireEq 5 wx wy && !wireEq 5 wx wz
     | _, _, _ => false) = true := by
  decide

/-- nil receivers and arguments are handled (struct pointers). -/
theorem nil_handling (env : Env) (fuel : Nat) (n : String) (gs : List GVal) :
    equalsG env (fuel + 1) (.struct n) .nil .nil = true ∧
    equalsG env (fuel + 1) (.struct n) .nil (.struct gs) = false ∧
    equalsG env (fuel + 1) (.struct n) (.struct gs) .nil = false := by
  simp [equalsG, Ty.root]

/-- Non-vacuity: a decoded value with an unhashable-key map and a slice-backed set. -/
example : decodedV {} 10 (.map (.list .i8) (.sset .string))
    (.map false [(.list [.i8 1], .set false [.str [65], .str [66]]), (.list [], .set false [])]) = true := by
  decide

end ThriftVerif.Properties.C14
