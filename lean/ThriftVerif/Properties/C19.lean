/-
C19 — Service codegen: plugin type descriptions and response helpers are faithful.

Property theorems only. Model: M-Schema GoType.lean (`typeReference`/`typeReferencePtr`/`typeName`
= the core generator's field types; `buildType` = the description sent to plugins; `formatType` =
plugin.FormatType) and Service.lean (response helpers over an abstract result struct).
Request self-consistency (ids resolve, parent chains acyclic, roots = generated services, names /
import paths / directories) is checked by the harness on the captured request; import aliasing is
outside the model (named types are compared as their schema token).
-/
import ThriftVerif.Schema.GoTypeProofs
import ThriftVerif.Schema.Service

namespace ThriftVerif.Properties.C19
open ThriftVerif.Schema

/-- For EVERY type shape (primitives, enums, binary, nested containers, unhashable keys,
slice-annotated sets, typedefs of each of those, structs) and both requiredness rules, the Go type
obtained by formatting the description sent to plugins is identical to the type the core
generator gives the corresponding field of the args/result struct. -/
theorem format_build_eq_core (t : Ty) (req : Bool) : formatType (buildType t req) = goType t req :=
  ThriftVerif.Schema.format_build_eq_core t req

/-- … and for the return value: the response helpers take/return `typeReference` of the return type. -/
theorem format_build_return (t : Ty) : formatType (buildType t true) = typeReference t :=
  format_build_req t

/-- Response helpers: a (non-nil) return value maps to the result struct and back without loss … -/
theorem wrap_unwrap_ok (sh : ResultShape) (v : GVal) (hr : sh.hasReturn = true) (hv : v.isNil = false) :
    (wrapResponse sh (.ok v)).bind (unwrapResponse sh) = some (.ok v) :=
  ThriftVerif.Schema.wrap_unwrap_ok sh v hr hv

theorem wrap_unwrap_void (sh : ResultShape) (hr : sh.hasReturn = false) :
    (wrapResponse sh .void).bind (unwrapResponse sh) = some .void :=
  ThriftVerif.Schema.wrap_unwrap_void sh hr

/-- … so does any declared exception … -/
theorem wrap_unwrap_exc (sh : ResultShape) (i : Nat) (v : GVal) (hi : i < sh.nExc) (hv : v.isNil = false) :
    (wrapResponse sh (.exc i v)).bind (unwrapResponse sh) = some (.exc i v) :=
  ThriftVerif.Schema.wrap_unwrap_exc sh i v hi hv

/-- … and errors the function does not declare are refused. -/
theorem wrap_rejects_undeclared (sh : ResultShape) : wrapResponse sh .other = none ∧
    (∀ i v, sh.nExc ≤ i → wrapResponse sh (.exc i v) = none) :=
  ThriftVerif.Schema.wrap_rejects_undeclared sh

/-- The three round trips as one statement: whatever `WrapResponse` accepts (other than the recorded
nil-return boundary), `UnwrapResponse` maps back to exactly the response that was wrapped — so no
two different responses share a result struct. -/
theorem unwrap_inverts_wrap (sh : ResultShape) (r : Resp) (rv : ResultVal)
    (hw : wrapResponse sh r = some rv) (hnil : ∀ v, r = .ok v → v.isNil = false) :
    unwrapResponse sh rv = some r := by
  cases r with
  | ok v =>
    have hr : sh.hasReturn = true := by
      cases h : sh.hasReturn <;> simp [wrapResponse, h] at hw ⊢
    have := wrap_unwrap_ok sh v hr (hnil v rfl)
    rw [hw] at this; simpa using this
  | void =>
    have hr : sh.hasReturn = false := by
      cases h : sh.hasReturn <;> simp [wrapResponse, h] at hw ⊢
    have := wrap_unwrap_void sh hr
    rw [hw] at this; simpa using this
  | exc i v =>
    have hi : i < sh.nExc := by
      by_cases h : i < sh.nExc
      · exact h
      · simp [wrapResponse, h] at hw
    have hv : v.isNil = false := by
      cases h : v.isNil
      · rfl
      · simp [wrapResponse, hi, h] at hw
    have := wrap_unwrap_exc sh i v hi hv
    rw [hw] at this; simpa using this
  | other => simp [wrapResponse] at hw

theorem wrap_injective (sh : ResultShape) (r r' : Resp) (rv : ResultVal)
    (hw : wrapResponse sh r = some rv) (hw' : wrapResponse sh r' = some rv)
    (hnil : ∀ v, r = .ok v → v.isNil = false) (hnil' : ∀ v, r' = .ok v → v.isNil = false) : r = r' := by
  have h1 := unwrap_inverts_wrap sh r rv hw hnil
  have h2 := unwrap_inverts_wrap sh r' rv hw' hnil'
  rw [h1] at h2
  exact Option.some.inj h2
/-- Boundary (recorded): a nil slice/map/struct return value cannot be unwrapped. -/
theorem wrap_nil_return (sh : ResultShape) (hr : sh.hasReturn = true) :
    (wrapResponse sh (.ok .nil)).bind (unwrapResponse sh) = none :=
  ThriftVerif.Schema.wrap_nil_return sh hr

/-- Non-vacuity / samples: an optional typedef of a slice-set of enums nested in an
unhashable-key map. -/
example : goType (.map (.list .string) (.typedef "a.T" (.sset (.enum "a.E")))) false =
    "[]struct{Key []string; Value a.T}" := by decide
example : goType (.typedef "a.T" (.sset (.enum "a.E"))) false = "a.T" ∧
    goType (.typedef "a.U" .i32) false = "*a.U" ∧ goType (.typedef "a.S" (.struct "a.X")) true = "*a.S" ∧
    goType (.sset .i64) true = "[]int64" ∧ goType (.set .i64) true = "map[int64]struct{}" := by decide

end ThriftVerif.Properties.C19
