/-
C18 — concurrency: pooled objects are exclusively owned and handed out clean, `Send`
pairs every response with its request, and the plugin answers are merged to the same
outcome in every completion order.

Property theorems only. Model: M-Proto, Conc.lean (abstract interleaving semantics; a
schedule is a list of moves and every theorem quantifies over ALL schedules, all pool
choices, all inputs, any number of threads) and Plan.lean (`mergePlugins`, `pickOrder`).
Proofs: ConcProofs*.lean (invariant for the initial state, preserved by every move).
-/
import ThriftVerif.Proto.ConcProofs

namespace ThriftVerif.Properties.C18
open ThriftVerif.Proto ThriftVerif.Proto.Conc

/-! ### pool ownership -/

/-- In every reachable state of `K` well-formed operations (`get; use*; finish; reset; put`)
the pool invariant `PInv` holds: no object is held twice, a held object is not pooled, every
pooled object is clean, ids in use are allocated, every thread is at a consistent point of
its program (its object contains exactly the inputs it has consumed so far). -/
theorem exclusive_ownership (inputs : Nat → List Nat) (K : Nat) (sched : List (Nat × Nat)) :
    PInv inputs K (prun (pinit (fun _ => true) inputs K) sched) :=
  Conc.exclusive_ownership inputs K sched

/-- … the ownership facts spelled out over the state. -/
theorem exclusive_ownership_facts (inputs : Nat → List Nat) (K : Nat) (sched : List (Nat × Nat)) :
    let s := prun (pinit (fun _ => true) inputs K) sched
    (∀ i j o, (s.th i).held = some o → (s.th j).held = some o → i = j) ∧
    (∀ i o, (s.th i).held = some o → s.inPool o = false) ∧
    (∀ o, s.inPool o = true → s.heap o = []) ∧
    (∀ i o, (s.th i).held = some o → o < s.fresh) ∧
    (∀ o, s.inPool o = true → o < s.fresh) :=
  Conc.exclusive_ownership_facts inputs K sched

/-- An operation run alone returns exactly its input (so `sequential` is not vacuous). -/
theorem sequential_eq (xs : List Nat) : sequential xs = some xs :=
  Conc.sequential_eq xs

/-- Isolation: whatever the interleaving and whatever the pool hands out, a delivered
result is the sequential result, and a completed operation has delivered it. -/
theorem isolation (inputs : Nat → List Nat) (K : Nat) (sched : List (Nat × Nat)) :
    let s := prun (pinit (fun _ => true) inputs K) sched
    (∀ i, (s.th i).result = none ∨ (s.th i).result = sequential (inputs i)) ∧
    (∀ i, (s.th i).todo = [] → i < K → (s.th i).result = sequential (inputs i)) :=
  Conc.isolation inputs K sched

/-- The reset before `Put` is necessary: with one operation that puts without resetting,
a *well-formed* operation that completes delivers something else than its sequential result. -/
theorem no_reset_breaks_isolation :
    ∃ (wf : Nat → Bool) (inputs : Nat → List Nat) (K : Nat) (sched : List (Nat × Nat)) (i : Nat),
      (∃ j, wf j = false) ∧ wf i = true ∧ i < K ∧
      ((prun (pinit wf inputs K) sched).th i).todo = [] ∧
      ((prun (pinit wf inputs K) sched).th i).result ≠ sequential (inputs i) :=
  Conc.no_reset_breaks_isolation

/-- Non-vacuity: two interleaved operations, the second one re-using the object the first
one has returned (`get` with pick 0 finds it pooled); both complete with their own input,
one object was allocated and it is back in the pool. -/
example :
    let s := prun (pinit (fun _ => true) (fun i => if i = 0 then [7, 8] else [9]) 2)
      [(0, 5), (1, 0), (0, 0), (0, 0), (1, 0), (0, 0), (0, 0), (0, 0), (1, 0), (1, 0), (1, 0),
       (0, 0), (0, 1), (0, 1), (0, 1), (0, 1)]
    (s.th 0).todo = [] ∧ (s.th 1).todo = [] ∧ (s.th 0).result = some [7, 8] ∧
    (s.th 1).result = some [9] ∧ s.fresh = 2 ∧ s.inPool 0 = true ∧ s.inPool 1 = true := by
  decide

/-- Non-vacuity: a state in the middle of an interleaving in which both threads hold an
object at the same time (so exclusivity says something): the objects differ. -/
example :
    let s := prun (pinit (fun _ => true) (fun i => [i]) 2) [(0, 0), (1, 0), (0, 0)]
    (s.th 0).held = some 0 ∧ (s.th 1).held = some 1 ∧ s.heap 0 = [0] := by
  decide

/-! ### lock pairing -/

/-- `Send` with the lock held from write to read: under every interleaving of `K` senders
and the FIFO server, a response that a sender has read is the answer to its own request,
and a sender that has completed has read one. -/
theorem send_paired (payloads : Nat → Nat) (K : Nat) (sched : List Nat) :
    let s := lrun K (linit true payloads K) sched
    (∀ i, i < K → (s.sd i).got = none ∨ (s.sd i).got = some (echo (payloads i))) ∧
    (∀ i, (s.sd i).todo = [] → i < K → (s.sd i).got = some (echo (payloads i))) :=
  Conc.send_paired payloads K sched

/-- The lock must span write and read: the client that releases it in between can read
another sender's response. -/
theorem send_unpaired_without_lock :
    ∃ (payloads : Nat → Nat) (K : Nat) (sched : List Nat) (i j : Nat),
      i < K ∧ j < K ∧ payloads i ≠ payloads j ∧
      ((lrun K (linit false payloads K) sched).sd i).got = some (echo (payloads j)) ∧
      ((lrun K (linit false payloads K) sched).sd i).got ≠ some (echo (payloads i)) :=
  Conc.send_unpaired_without_lock

/-- Non-vacuity: two senders contending (sender 1 is blocked twice on the lock, sender 0 is
blocked once on the empty response queue; move 2 is the server); both complete with their
own answers. -/
example :
    let s := lrun 2 (linit true (fun i => i + 10) 2) [0, 1, 0, 0, 1, 2, 0, 0, 1, 1, 2, 1, 1]
    (s.sd 0).todo = [] ∧ (s.sd 1).todo = [] ∧ (s.sd 0).got = some 10 ∧ (s.sd 1).got = some 11 ∧
    s.lock = none := by
  decide

/-! ### merge under the mutex -/

/-- In whatever order the plugins complete, if all returned paths are distinct the merge
succeeds and the merged map is a permutation of all answers (nothing lost, nothing
invented, the same set for every order). -/
theorem merge_no_loss (fs : List Files) (ord : List Nat)
    (hord : ord.Perm (List.range fs.length)) (hnd : ((fs.flatten).map (·.1)).Nodup) :
    ∃ m, mergePlugins [] (pickOrder fs ord) = some m ∧ m.Perm fs.flatten :=
  ThriftVerif.Proto.merge_no_loss fs ord hord hnd

/-- A path returned twice is reported as a conflict in every completion order. -/
theorem merge_conflict_any_order (fs : List Files) (ord : List Nat)
    (hord : ord.Perm (List.range fs.length)) (hnd : ¬ ((fs.flatten).map (·.1)).Nodup) :
    mergePlugins [] (pickOrder fs ord) = none :=
  ThriftVerif.Proto.merge_conflict_any_order fs ord hord hnd

/-- Non-vacuity: three plugins completing in the order 2, 0, 1 with distinct paths … -/
example :
    let fs : List Files := [[(['a'], [1]), (['b'], [2])], [], [(['c'], [3])]]
    [2, 0, 1].Perm (List.range fs.length) ∧ ((fs.flatten).map (·.1)).Nodup ∧
    mergePlugins [] (pickOrder fs [2, 0, 1]) = some [(['c'], [3]), (['a'], [1]), (['b'], [2])] := by
  decide

/-- … and with a path returned by two of them. -/
example :
    let fs : List Files := [[(['a'], [1]), (['b'], [2])], [], [(['a'], [3])]]
    [2, 0, 1].Perm (List.range fs.length) ∧ ¬ ((fs.flatten).map (·.1)).Nodup ∧
    mergePlugins [] (pickOrder fs [2, 0, 1]) = none := by
  decide

end ThriftVerif.Properties.C18
