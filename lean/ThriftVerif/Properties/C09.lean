/-
C09 — Accepted programs are well-formed: no silent numeric wrap-around.

Property theorems only. Model: M-Compile (`gather`, `castInt`, the stateful linker).
The pinned compiler violates the property at four places (D6–D9); the model reproduces
them, so for each clause this file holds (a) the theorem under exactly the hypothesis that
excludes the defect (`…_partial`: what is missing is the range check the code does not
perform) and (b) the negation, proved by evaluating the model on the witness input.
-/
import ThriftVerif.Compile.GatherProofs
import ThriftVerif.Compile.Witness

namespace ThriftVerif.Properties.C09
open ThriftVerif.Compile

theorem getD_map_default {α β : Type} (f : α → β) (d : α) :
    ∀ (l : List α) (i : Nat), (l.map f).getD i (f d) = f (l.getD i d)
  | [], i => by simp
  | a :: l, 0 => by simp
  | a :: l, i + 1 => by simp

/-- A successful compilation went through `gather`, and every reachable file was gathered into
the module with its index. -/
theorem compiled_module {fuel : Nat} {o : Orders} {src : Program} {c : Compiled} {i : Nat}
    (hc : compile fuel o src = .ok c) (hr : i ∈ reachable src) :
    gatherFile src.strict (src.files.getD i .bad) = some (modAt c.prog i) := by
  unfold compile compileWith at hc
  split at hc
  · cases hc
  · rename_i p hg
    have hp : c.prog = p := by
      split at hc
      · cases hc; rfl
      · cases hc
      · cases hc
    unfold gather at hg
    split at hg
    · rename_i hall
      cases hg
      have hi := List.all_eq_true.1 hall i hr
      rw [hp]
      unfold modAt
      have key := getD_map_default (fun f => (gatherFile src.strict f).getD Mod.empty) File.bad src.files i
      have hb : (gatherFile src.strict File.bad).getD Mod.empty = Mod.empty := by simp [gatherFile]
      simp only [hb] at key
      rw [key]
      cases hgf : gatherFile src.strict (src.files.getD i File.bad) with
      | none => rw [hgf] at hi; cases hi
      | some m => simp
    · cases hg

theorem structOpts_allowNeg (strict : Bool) (k : SKind) : (structOpts strict k).allowNeg = !strict := by
  cases k <;> rfl

/-- **Field identifiers are exact (partial: hypothesis `hlow`).** In every successfully
compiled program, every field of every struct/union/exception of a reachable file carries
the identifier the source designates (explicit, or the next auto-assigned negative one in
non-strict mode), that identifier lies in the int16 range, and identifiers and names are
unique within the struct — provided no designated identifier is below −32768. The code
lacks that lower-bound check in non-strict mode (D8, `field_wrap`); with the check the
hypothesis disappears. -/
theorem field_id_exact_partial {fuel : Nat} {o : Orders} {src : Program} {c : Compiled} {i : Nat}
    {incs : List Include} {defs : List Def} {k : SKind} {n : Name} {fields : List Field}
    (hc : compile fuel o src = .ok c) (hr : i ∈ reachable src)
    (hf : src.files.getD i .bad = .ok incs defs) (hd : Def.struct k n fields ∈ defs)
    (hlow : ∀ s ∈ srcIds (!src.strict) (-1) fields, -32768 ≤ s) :
    ∃ gs, lookupType c.prog i n = some (.struct k gs) ∧
      gs.map (·.id) = srcIds (!src.strict) (-1) fields ∧ (∀ g ∈ gs, inRange 16 g.id) ∧
      (gs.map (·.id)).Nodup ∧ (gs.map (·.name)).Nodup := by
  have hm := compiled_module hc hr
  rw [hf] at hm
  obtain ⟨gs, hgs, hl⟩ := (gatherFile_lookup _ _ _ _ hm).1 k n fields hd
  have ha := structOpts_allowNeg src.strict k
  obtain ⟨h1, h2⟩ := compileFields_ids_exact _ fields gs hgs (by rw [ha]; exact hlow)
  obtain ⟨h3, h4⟩ := compileFields_nodup _ fields gs hgs
  rw [ha] at h1
  exact ⟨gs, hl, h1, h2, h3, h4⟩

/-- **Field identifiers are exact in strict mode (no hypothesis).** There the code's own check
(`src.ID < 1 || src.ID > math.MaxInt16`) suffices: identifiers equal the source's and lie in
1..32767. -/
theorem field_id_exact_strict {fuel : Nat} {o : Orders} {src : Program} {c : Compiled} {i : Nat}
    {incs : List Include} {defs : List Def} {k : SKind} {n : Name} {fields : List Field}
    (hs : src.strict = true)
    (hc : compile fuel o src = .ok c) (hr : i ∈ reachable src)
    (hf : src.files.getD i .bad = .ok incs defs) (hd : Def.struct k n fields ∈ defs) :
    ∃ gs, lookupType c.prog i n = some (.struct k gs) ∧
      gs.map (·.id) = srcIds false (-1) fields ∧ (∀ g ∈ gs, 1 ≤ g.id ∧ g.id ≤ 32767) := by
  have hm := compiled_module hc hr
  rw [hf] at hm
  obtain ⟨gs, hgs, hl⟩ := (gatherFile_lookup _ _ _ _ hm).1 k n fields hd
  have ha : (structOpts src.strict k).allowNeg = false := by rw [structOpts_allowNeg, hs]; rfl
  obtain ⟨h1, h2⟩ := compileFields_ids_exact_strict _ fields gs ha hgs
  exact ⟨gs, hl, h1, h2⟩

/-- **Negation on the pinned tree (D8).** Non-strict `struct S {-40000: optional i32 x}` is
accepted and the field gets identifier 25536. -/
theorem field_wrap : ∃ c, compile 100 [] progD8 = .ok c ∧ fieldIdsOf c 0 (nm "S") = some [25536] ∧
    srcIds (!progD8.strict) (-1) [⟨some (-40000), nm "x", .optional, .base 0 .i32, none⟩] = [-40000] := by
  have h : ((compile 100 [] progD8).toOption.map fun c => fieldIdsOf c 0 (nm "S")) = some (some [25536]) := by decide +kernel
  cases hc : compile 100 [] progD8 with
  | ok c => simp [hc, Res.toOption] at h; exact ⟨c, rfl, h, by decide⟩
  | err => simp [hc, Res.toOption] at h
  | fuel => simp [hc, Res.toOption] at h

/-- **Enum values are exact (partial: hypothesis `hfit`).** Item values equal the source's
(explicit, or previous + 1 starting at 0) and item names are unique case-insensitively —
provided every designated value lies in the int32 range. The code converts with `int32(value)`
at its `TODO bounds check for value` (D7, `enum_wrap`). -/
theorem enum_value_exact_partial {fuel : Nat} {o : Orders} {src : Program} {c : Compiled} {i : Nat}
    {incs : List Include} {defs : List Def} {n : Name} {items : List (Name × Option Int)}
    (hc : compile fuel o src = .ok c) (hr : i ∈ reachable src)
    (hf : src.files.getD i .bad = .ok incs defs) (hd : Def.enum n items ∈ defs)
    (hfit : ∀ v ∈ srcEnumValues (-1) items, inRange 32 v) :
    ∃ is, lookupType c.prog i n = some (.enum is) ∧
      is.map (·.2) = srcEnumValues (-1) items ∧ is.map (·.1) = items.map (·.1) ∧
      (is.map (fun it => toLower it.1)).Nodup := by
  have hm := compiled_module hc hr
  rw [hf] at hm
  obtain ⟨is, his, hl⟩ := (gatherFile_lookup _ _ _ _ hm).2 n items hd
  obtain ⟨h1, h2⟩ := compileEnum_values_exact items is his hfit
  exact ⟨is, hl, h1, h2, compileEnum_names_nodup items is his⟩

/-- **Negation on the pinned tree (D7).** `enum E {A = 4294967296}` is accepted with `A = 0`. -/
theorem enum_wrap : ∃ c, compile 100 [] progD7 = .ok c ∧ enumItemsOf c 0 (nm "E") = some [(nm "A", 0)] := by
  have h : ((compile 100 [] progD7).toOption.map fun c => enumItemsOf c 0 (nm "E")) = some (some [(nm "A", 0)]) := by decide +kernel
  cases hc : compile 100 [] progD7 with
  | ok c => simp [hc, Res.toOption] at h; exact ⟨c, rfl, h⟩
  | err => simp [hc, Res.toOption] at h
  | fuel => simp [hc, Res.toOption] at h

/-- **Integer constants are exact.** Linking an integer literal at a type whose root is an
integer type returns that very literal and changes nothing else: no truncation, whatever
the literal (`ConstantInt.Link` converts nothing for i8…i64). -/
theorem const_int_exact {fuel : Nat} {p : GProg} {m : Nat} {n : Int} {t : LType} {σ σ' : St} {v : CV}
    {bits : Nat} (hk : rootKind p (rootIn p σ t) = .int bits)
    (h : linkVal fuel p m (.int n) t σ = .ok (σ', v)) : v = .int n ∧ σ' = σ := by
  cases fuel with
  | zero => simp [linkVal] at h
  | succ f =>
    simp only [linkVal, hk, castInt] at h
    cases h
    exact ⟨rfl, rfl⟩

/-- **Integer constants lie in the range of their type (partial: hypothesis `hfit`).**
Exactness is unconditional (`const_int_exact`); that the value fits the declared type holds
exactly when the literal does — the code performs no range check (`TODO bounds checks?`,
D9, `i8_unchecked`), so out-of-range literals are accepted unchanged instead of rejected. -/
theorem const_in_range_partial {fuel : Nat} {p : GProg} {m : Nat} {n : Int} {t : LType} {σ σ' : St} {v : CV}
    {bits : Nat} (hk : rootKind p (rootIn p σ t) = .int bits) (hfit : inRange bits n)
    (h : linkVal fuel p m (.int n) t σ = .ok (σ', v)) : ∃ x, v = .int x ∧ x = n ∧ inRange bits x :=
  ⟨n, (const_int_exact hk h).1, rfl, hfit⟩

/-- **Negation on the pinned tree (D9).** `const i8 x = 1000` is accepted; the linked value is 1000. -/
theorem i8_unchecked : ∃ c, compile 100 [] progD9 = .ok c ∧ constIntOf c 0 (nm "x") = some 1000 ∧
    ¬ inRange 8 1000 := by
  have h : ((compile 100 [] progD9).toOption.map fun c => constIntOf c 0 (nm "x")) = some (some 1000) := by decide +kernel
  cases hc : compile 100 [] progD9 with
  | ok c => simp [hc, Res.toOption] at h; exact ⟨c, rfl, h, by decide⟩
  | err => simp [hc, Res.toOption] at h
  | fuel => simp [hc, Res.toOption] at h

/-- **Enum-typed integer constants are exact (partial: hypothesis `hfit`).** An integer used
at an enum type denotes the item with exactly that value — provided the integer lies in the
int32 range; the code compares with `int32(c)` (`enum_cast_wraps`). -/
theorem enum_const_exact_partial {em : Nat} {en item : Name} {items : List (Name × Int)} {n v : Int}
    (hfit : inRange 32 n)
    (h : castInt (.enum em en items) n = some (.eref em en item v)) : v = n := by
  unfold castInt at h
  simp only at h
  split at h
  · rename_i it x hfind
    rw [wrap32_of_inRange hfit] at hfind
    have hv : x = v := by cases h; rfl
    subst hv
    have : ∀ (l : List (Name × Int)), findItemByValue n l = some (it, x) → x = n := by
      intro l
      induction l with
      | nil => intro h; cases h
      | cons a rest ih =>
        intro h
        obtain ⟨a1, a2⟩ := a
        unfold findItemByValue at h
        split at h
        · cases h; assumption
        · exact ih h
    exact this items hfind
  · cases h

/-- **Negation on the pinned tree (D9, enum lookup).** `enum E {A = 1}  const E x = 4294967297`
is accepted as the item `A = 1`. -/
theorem enum_cast_wraps : ∃ c, compile 100 [] progD9enum = .ok c ∧ constIsItem c 0 (nm "x") (nm "A") 1 = true := by
  have h : ((compile 100 [] progD9enum).toOption.map fun c => constIsItem c 0 (nm "x") (nm "A") 1) = some true := by decide +kernel
  cases hc : compile 100 [] progD9enum with
  | ok c => simp [hc, Res.toOption] at h; exact ⟨c, rfl, h⟩
  | err => simp [hc, Res.toOption] at h
  | fuel => simp [hc, Res.toOption] at h

/-- **Function names are unique within a service, case-insensitively** (every accepted
service went through `gatherFuncs`). -/
theorem function_names_unique (fs : List Func) (gs : List GFunc) (h : gatherFuncs fs [] = some gs) :
    (gs.map (fun g => toLower g.name)).Nodup :=
  (gatherFuncs_nodup fs [] gs h).1

/-- **Negation on the pinned tree (D6): a constant defined as itself is accepted.**
`const i32 a = a` compiles; the linked value of `a` is a reference to `a`. -/
theorem self_const_accepted : ∃ c, compile 100 [] progD6 = .ok c ∧ constIsRefTo c 0 (nm "a") (nm "a") = true := by
  have h : ((compile 100 [] progD6).toOption.map fun c => constIsRefTo c 0 (nm "a") (nm "a")) = some true := by decide +kernel
  cases hc : compile 100 [] progD6 with
  | ok c => simp [hc, Res.toOption] at h; exact ⟨c, rfl, h⟩
  | err => simp [hc, Res.toOption] at h
  | fuel => simp [hc, Res.toOption] at h

/-- **Negation on the pinned tree (D5, length 1): a service that extends itself is accepted.** -/
theorem self_service_accepted : ∃ c, compile 100 [] progD5self = .ok c ∧
    alookup (0, nm "A") c.st.vpar = some (0, nm "A") := by
  have h : ((compile 100 [] progD5self).toOption.map fun c => alookup (0, nm "A") c.st.vpar) = some (some (0, nm "A")) := by decide +kernel
  cases hc : compile 100 [] progD5self with
  | ok c => simp [hc, Res.toOption] at h; exact ⟨c, rfl, h⟩
  | err => simp [hc, Res.toOption] at h
  | fuel => simp [hc, Res.toOption] at h

/-! Non-vacuity: a program to which the exactness theorems apply with all hypotheses true
(auto-assigned negative identifiers, implicit enum values, boundary constants). -/
def sample : Program := oneFileProg false [
  .struct .struct (nm "S") [⟨none, nm "a", .unspecified, .base 0 .i32, none⟩,
                            ⟨some (-32767), nm "b", .optional, .base 1 .i16, some (.int (-32768))⟩,
                            ⟨none, nm "c", .optional, .base 2 .i8, some (.int 127)⟩,
                            ⟨some 32767, nm "d", .required, .base 3 .i64, none⟩],
  .enum (nm "E") [(nm "A", some (-2147483648)), (nm "B", none), (nm "C", some 2147483646), (nm "D", none)]]

example : ((compile 100 [] sample).toOption.map fun c => (fieldIdsOf c 0 (nm "S"), enumItemsOf c 0 (nm "E"))) =
    some (some [-1, -32767, -32768, 32767],
          some [(nm "A", -2147483648), (nm "B", -2147483647), (nm "C", 2147483646), (nm "D", 2147483647)]) := by
  decide +kernel
example : ∀ s ∈ srcIds (!sample.strict) (-1)
    [⟨none, nm "a", .unspecified, .base 0 .i32, none⟩, ⟨some (-32767), nm "b", .optional, .base 1 .i16, some (.int (-32768))⟩,
     ⟨none, nm "c", .optional, .base 2 .i8, some (.int 127)⟩, ⟨some 32767, nm "d", .required, .base 3 .i64, none⟩],
    -32768 ≤ s := by decide +kernel

end ThriftVerif.Properties.C09
