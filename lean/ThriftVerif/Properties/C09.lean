/-
C09 — Accepted programs are well-formed: no silent numeric wrap-around.

Property theorems only. Model: M-Compile (`gather`, `castInt`, the stateful linker), following
the repaired compiler: the bounds checks for field identifiers (both ends), enum values and
integer constants, and the in-progress detection for constants and services are in place
(findings D5–D9, repaired). Every clause is proved at full strength; the former failing
inputs are regression witnesses: each is rejected, for every fuel.
-/
import ThriftVerif.Compile.GatherProofs
import ThriftVerif.Compile.DupField
import ThriftVerif.Compile.RepairedProofs

namespace ThriftVerif.Properties.C09
open ThriftVerif.Compile

theorem getD_map_default {α β : Type} (f : α → β) (d : α) :
    ∀ (l : List α) (i : Nat), (l.map f).getD i (f d) = f (l.getD i d)
  | [], i => by simp
  | a :: l, 0 => by simp
  | a :: l, i + 1 => by simp

/-- A successful compilation went through `gather`, and every reachable file was gathered into
the module with its index. -/
theorem compiled_module {fuel : Nat} {o : Orders} {src : Program} {c : Compiled} {i : Nat}
    (hc : compile fuel o src = .ok c) (hr : i ∈ reachable src) :
    gatherFile src.strict (src.files.getD i .bad) = some (modAt c.prog i) := by
  unfold compile compileWith at hc
  split at hc
  · cases hc
  · rename_i p hg
    have hp : c.prog = p := by
      split at hc
      · cases hc; rfl
      · cases hc
      · cases hc
    unfold gather at hg
    split at hg
    · rename_i hall
      cases hg
      have hi := List.all_eq_true.1 hall i hr
      rw [hp]
      unfold modAt
      have key := getD_map_default (fun f => (gatherFile src.strict f).getD Mod.empty) File.bad src.files i
      have hb : (gatherFile src.strict File.bad).getD Mod.empty = Mod.empty := by simp [gatherFile]
      simp only [hb] at key
      rw [key]
      cases hgf : gatherFile src.strict (src.files.getD i File.bad) with
      | none => rw [hgf] at hi; cases hi
      | some m => simp
    · cases hg

theorem structOpts_allowNeg (strict : Bool) (k : SKind) : (structOpts strict k).allowNeg = !strict := by
  cases k <;> rfl

/-- **Field identifiers are exact.** In every successfully compiled program, every field of
every struct/union/exception of a reachable file carries the identifier the source designates
(explicit, or the next auto-assigned negative one in non-strict mode), that identifier lies
in the int16 range, and identifiers and names are unique within the struct. -/
theorem field_id_exact {fuel : Nat} {o : Orders} {src : Program} {c : Compiled} {i : Nat}
    {incs : List Include} {defs : List Def} {k : SKind} {n : Name} {fields : List Field}
    (hc : compile fuel o src = .ok c) (hr : i ∈ reachable src)
    (hf : src.files.getD i .bad = .ok incs defs) (hd : Def.struct k n fields ∈ defs) :
    ∃ gs, lookupType c.prog i n = some (.struct k gs) ∧
      gs.map (·.id) = srcIds (!src.strict) (-1) fields ∧ (∀ g ∈ gs, inRange 16 g.id) ∧
      (gs.map (·.id)).Nodup ∧ (gs.map (·.name)).Nodup := by
  have hm := compiled_module hc hr
  rw [hf] at hm
  obtain ⟨gs, hgs, hl⟩ := (gatherFile_lookup _ _ _ _ hm).1 k n fields hd
  have ha := structOpts_allowNeg src.strict k
  obtain ⟨h1, h2⟩ := compileFields_ids_exact _ fields gs hgs
  obtain ⟨h3, h4⟩ := compileFields_nodup _ fields gs hgs
  rw [ha] at h1
  exact ⟨gs, hl, h1, h2, h3, h4⟩

/-- **In strict mode field identifiers lie in 1..32767.** -/
theorem field_id_exact_strict {fuel : Nat} {o : Orders} {src : Program} {c : Compiled} {i : Nat}
    {incs : List Include} {defs : List Def} {k : SKind} {n : Name} {fields : List Field}
    (hs : src.strict = true)
    (hc : compile fuel o src = .ok c) (hr : i ∈ reachable src)
    (hf : src.files.getD i .bad = .ok incs defs) (hd : Def.struct k n fields ∈ defs) :
    ∃ gs, lookupType c.prog i n = some (.struct k gs) ∧
      gs.map (·.id) = srcIds false (-1) fields ∧ (∀ g ∈ gs, 1 ≤ g.id ∧ g.id ≤ 32767) := by
  have hm := compiled_module hc hr
  rw [hf] at hm
  obtain ⟨gs, hgs, hl⟩ := (gatherFile_lookup _ _ _ _ hm).1 k n fields hd
  have ha : (structOpts src.strict k).allowNeg = false := by rw [structOpts_allowNeg, hs]; rfl
  obtain ⟨h1, h2⟩ := compileFields_ids_exact_strict _ fields gs ha hgs
  exact ⟨gs, hl, h1, h2⟩

/-- **Regression witness (D8, repaired).** Non-strict `struct S {-40000: optional i32 x}`, which
used to compile to field id 25536, is rejected. -/
theorem field_wrap_rejected :
    (∀ fuel, 30 ≤ fuel → compile fuel [] progD8 = .err) ∧ (∀ fuel, (compile fuel [] progD8).isOk = false) :=
  rejected_of_err err_D8

/-- **Enum values are exact.** Item values equal the source's (explicit, or previous + 1
starting at 0), lie in the int32 range, and item names are unique case-insensitively. -/
theorem enum_value_exact {fuel : Nat} {o : Orders} {src : Program} {c : Compiled} {i : Nat}
    {incs : List Include} {defs : List Def} {n : Name} {items : List (Name × Option Int)}
    (hc : compile fuel o src = .ok c) (hr : i ∈ reachable src)
    (hf : src.files.getD i .bad = .ok incs defs) (hd : Def.enum n items ∈ defs) :
    ∃ is, lookupType c.prog i n = some (.enum is) ∧
      is.map (·.2) = srcEnumValues (-1) items ∧ is.map (·.1) = items.map (·.1) ∧
      (∀ v ∈ is.map (·.2), inRange 32 v) ∧
      (is.map (fun it => toLower it.1)).Nodup := by
  have hm := compiled_module hc hr
  rw [hf] at hm
  obtain ⟨is, his, hl⟩ := (gatherFile_lookup _ _ _ _ hm).2 n items hd
  obtain ⟨h1, h2, h3⟩ := compileEnum_values_exact items is his
  exact ⟨is, hl, h1, h2, by rw [h1]; exact h3, compileEnum_names_nodup items is his⟩

/-- **Regression witness (D7, repaired).** `enum E {A = 4294967296}`, which used to compile to
`A = 0`, is rejected. -/
theorem enum_wrap_rejected :
    (∀ fuel, 30 ≤ fuel → compile fuel [] progD7 = .err) ∧ (∀ fuel, (compile fuel [] progD7).isOk = false) :=
  rejected_of_err err_D7

/-- **Boundary of the implicit values (seeded change C09-64).** An item without a value after
`A = 2147483647` would be 2^31 and is refused; one step below, and at the lower end, the implicit
value is the previous one plus one. -/
theorem implicit_enum_value_past_int32_rejected :
    compileEnum [(nm "A", some 2147483647), (nm "B", none)] = none ∧
    compileEnum [(nm "A", some 2147483646), (nm "B", none)] = some [(nm "A", 2147483646), (nm "B", 2147483647)] ∧
    compileEnum [(nm "A", some (-2147483648)), (nm "B", none)] = some [(nm "A", -2147483648), (nm "B", -2147483647)] := by
  decide

/-- **Integer constants are exact and in range.** Linking an integer literal at a type whose
root is an integer type of `bits` bits succeeds only if the literal lies in that type's range,
returns that very literal, and changes nothing else — for constants, defaults, and elements of
list/set/map/struct literals alike (they all go through `linkVal`). -/
theorem const_in_range {fuel : Nat} {p : GProg} {m : Nat} {n : Int} {t : LType} {σ σ' : St} {v : CV}
    {bits : Nat} (hk : rootKind p (rootIn p σ t) = .int bits)
    (h : linkVal fuel p m (.int n) t σ = .ok (σ', v)) : v = .int n ∧ inRange bits n ∧ σ' = σ := by
  cases fuel with
  | zero => simp [linkVal] at h
  | succ f =>
    simp only [linkVal, hk, castInt] at h
    by_cases hr : inRange bits n
    · simp only [hr, if_true] at h
      cases h
      exact ⟨rfl, hr, rfl⟩
    · simp only [hr, if_false] at h
      cases h

/-- **Regression witness (D9, repaired).** `const i8 x = 1000` is rejected. -/
theorem i8_out_of_range_rejected :
    (∀ fuel, 30 ≤ fuel → compile fuel [] progD9 = .err) ∧ (∀ fuel, (compile fuel [] progD9).isOk = false) ∧
    ¬ inRange 8 1000 :=
  ⟨(rejected_of_err err_D9).1, (rejected_of_err err_D9).2, by decide⟩

/-- **A struct literal that gives one field twice is refused** (finding D95, repaired): `buildConstantStruct`
accepts a literal only if its keys are pairwise different, so no value written for a field can be dropped
unchecked; the witness `struct S {1: optional i8 x}  const S c = {"x": 1000, "x": 1}` — which compiled,
with x = 1 and the 1000 never looked at — is rejected with every fuel from 30 on. -/
theorem struct_literal_field_twice_rejected :
    (∀ kvs : List (CV × CV), ¬ (litKeys kvs).Nodup → buildStruct kvs [] = none) ∧
    (∀ (kvs : List (CV × CV)) (fs : List (Name × CV)), buildStruct kvs [] = some fs →
      (litKeys kvs).Nodup ∧ (litKeys kvs).length = kvs.length) ∧
    (∀ fuel, 30 ≤ fuel → compile fuel [] progD95 = .err) :=
  ⟨buildStruct_dup_rejected, fun kvs fs h => ⟨(buildStruct_some kvs [] fs h).1, (buildStruct_some kvs [] fs h).2.2⟩,
    (rejected_of_err err_D95).1⟩

/-- **Enum-typed integer constants are exact.** An integer used at an enum type denotes the item
with exactly that value (no comparison modulo 2^32). -/
theorem enum_const_exact {em : Nat} {en item : Name} {items : List (Name × Int)} {n v : Int}
    (h : castInt (.enum em en items) n = some (.eref em en item v)) : v = n := by
  unfold castInt at h
  simp only at h
  split at h
  · rename_i it x hfind
    have hv : x = v := by cases h; rfl
    subst hv
    have : ∀ (l : List (Name × Int)), findItemByValue n l = some (it, x) → x = n := by
      intro l
      induction l with
      | nil => intro h; cases h
      | cons a rest ih =>
        intro h
        obtain ⟨a1, a2⟩ := a
        unfold findItemByValue at h
        split at h
        · cases h; assumption
        · exact ih h
    exact this items hfind
  · cases h

/-- **Regression witness (D9, enum lookup, repaired).** `enum E {A = 1}  const E x = 4294967297`
is rejected. -/
theorem enum_cast_wrap_rejected :
    (∀ fuel, 30 ≤ fuel → compile fuel [] progD9enum = .err) ∧
    (∀ fuel, (compile fuel [] progD9enum).isOk = false) :=
  rejected_of_err err_D9enum

/-- **Function names are unique within a service, case-insensitively** (every accepted
service went through `gatherFuncs`). -/
theorem function_names_unique (fs : List Func) (gs : List GFunc) (h : gatherFuncs fs [] = some gs) :
    (gs.map (fun g => toLower g.name)).Nodup :=
  (gatherFuncs_nodup fs [] gs h).1

/-- **Regression witnesses (D6, D4, repaired): no constant is defined in terms of itself.**
`const i32 a = a`, `const list<i32> c = c`, a constant that contains itself through a struct
default, and cycles of two constants (over anonymous and over named types) are rejected.
*Witnesses only*: the general statement (no accepted program has a constant whose value
leads back to itself) is not proved; the harness plants such cycles in its main streams. -/
theorem self_const_rejected :
    (∀ fuel, (compile fuel [] progD6).isOk = false) ∧ (∀ fuel, (compile fuel [] progD6list).isOk = false) ∧
    (∀ fuel, (compile fuel [] progD6default).isOk = false) ∧ (∀ fuel, (compile fuel [] progD4).isOk = false) ∧
    (∀ fuel, (compile fuel [] progD4named).isOk = false) :=
  ⟨(rejected_of_err err_D6).2, (rejected_of_err err_D6list).2, (rejected_of_err err_D6default).2,
   (rejected_of_err err_D4).2, (rejected_of_err err_D4named).2⟩

/-- **Regression witnesses (D5, repaired): no service inherits from itself.** `service A extends A {}`
and `service A extends B {}  service B extends A {}` are rejected. *Witnesses only*, as above. -/
theorem self_service_rejected :
    (∀ fuel, (compile fuel [] progD5self).isOk = false) ∧ (∀ fuel, (compile fuel [] progD5).isOk = false) :=
  ⟨(rejected_of_err err_D5self).2, (rejected_of_err err_D5).2⟩

/-! Non-vacuity: a program to which the exactness theorems apply with all hypotheses true
(auto-assigned negative identifiers, implicit enum values, boundary constants). -/
def sample : Program := oneFileProg false [
  .struct .struct (nm "S") [⟨none, nm "a", .unspecified, .base 0 .i32, none⟩,
                            ⟨some (-32767), nm "b", .optional, .base 1 .i16, some (.int (-32768))⟩,
                            ⟨none, nm "c", .optional, .base 2 .i8, some (.int 127)⟩,
                            ⟨some 32767, nm "d", .required, .base 3 .i64, none⟩],
  .enum (nm "E") [(nm "A", some (-2147483648)), (nm "B", none), (nm "C", some 2147483646), (nm "D", none)]]

example : ((compile 100 [] sample).toOption.map fun c => (fieldIdsOf c 0 (nm "S"), enumItemsOf c 0 (nm "E"))) =
    some (some [-1, -32767, -32768, 32767],
          some [(nm "A", -2147483648), (nm "B", -2147483647), (nm "C", 2147483646), (nm "D", 2147483647)]) := by
  decide +kernel
example : ∀ s ∈ srcIds (!sample.strict) (-1)
    [⟨none, nm "a", .unspecified, .base 0 .i32, none⟩, ⟨some (-32767), nm "b", .optional, .base 1 .i16, some (.int (-32768))⟩,
     ⟨none, nm "c", .optional, .base 2 .i8, some (.int 127)⟩, ⟨some 32767, nm "d", .required, .base 3 .i64, none⟩],
    -32768 ≤ s := by decide +kernel

end ThriftVerif.Properties.C09
