/-
C06 — Valid programs are accepted; every accepted program yields Go that compiles (proof, partial).

Property theorems only. Model: M-Gen Naming.lean — the name mapping (`goCase`, `constantName`,
`MangleType`) and the reservation rule. Proved: the generator's accept/reject rule on a package's
top-level Go names is exactly clash-freeness; the words `goCase` works on contain no underscore;
the helper-name mangler is injective on names without underscores other than List/Set/Map;
witnesses that the name mapping is not injective (so clashing programs exist and must be rejected)
and that the helper-name mangler collides (findings D15/D24: accepted programs whose Go does not
compile). What no Lean model can express — that the emitted text is valid Go — is the harness
oracle: `go build ./... && go vet ./...` of every accepted program's output against the working
tree's runtime, under every CLI option set; acceptance of clash-free well-formed programs is
checked against the harness's own conservative NoGoClash predicate.
-/
import ThriftVerif.Gen.NamingProofs
import ThriftVerif.Gen.MangleInj

namespace ThriftVerif.Properties.C06
open ThriftVerif.Gen

/-- Accept/reject rule: a set of top-level Go names is accepted iff it is clash-free. -/
theorem accept_iff_noclash (names : List Ident) : (reserveAll [] names).isSome = true ↔ names.Nodup :=
  ThriftVerif.Gen.accept_iff_noclash names

/-- … also relative to names already reserved (imports, helpers declared earlier). -/
theorem reserve_iff (taken names : List Ident) :
    (reserveAll taken names).isSome = true ↔ (∀ n ∈ names, n ∉ taken) ∧ names.Nodup :=
  reserveAll_isSome_iff taken names

/-- `goCase` splits at underscores: none of the words it capitalises contains one. -/
theorem words_have_no_underscore (s : Ident) : ∀ w ∈ splitUnderscore s, '_' ∉ w :=
  splitUnderscore_no_underscore s

/-- The mapping is not injective: distinct Thrift names collide in Go (must be rejected — and are,
by `accept_iff_noclash`). -/
theorem goCase_collisions :
    goCase "foo_bar".toList = goCase "fooBar".toList ∧
    goCase "user_id".toList = goCase "UserID".toList ∧
    goCase "FOO_BAR".toList = "FooBar".toList ∧ goCase "FOO".toList = "FOO".toList ∧
    goCase "http_url".toList = "HTTPURL".toList :=
  ThriftVerif.Gen.goCase_collisions

/-- Findings D15/D24 (known): the helper-name mangler is not injective, so some programs the
generator accepts do not compile. -/
theorem mangle_collision :
    mangle (.map (.named "List".toList) (.list (.named "A".toList))) =
      mangle (.map (.list (.named "List".toList)) (.named "A".toList)) ∧
    mangle (.list (.named (goCase "Double".toList))) = mangle (.list (.named (goCase "double".toList))) :=
  ThriftVerif.Gen.mangle_collision

/-- **The helper-name mangler is injective on plain names.** Two container types whose names contain no
underscore and are none of the words the mangler itself writes (`List`, `Set`, `Map`) get different
helper names unless they are the same type — whatever their shape and depth (a mangled name is a prefix
code over its underscore-separated words: `mangle_prefix_free`). So the collisions of findings D15/D24
(`mangle_collision`) need exactly what this excludes: a user type called `List`, or two Thrift types that
are given one Go name to begin with. -/
theorem mangle_injective_on_plain_names (a b : MType) (ha : a.Plain) (hb : b.Plain)
    (h : mangle a = mangle b) : a = b :=
  mangle_injective_on_plain a b ha hb h

/-- … and the names the generator makes are plain: `goCase` never yields an underscore
(`goCase_no_us`), so among types whose names are `goCase`d Thrift names only a type called `List`, `Set` or
`Map` can make two different container types share a helper name. -/
theorem mangle_injective_on_generated_names (a b : MType) (ha : a.GoNamed) (hb : b.GoNamed)
    (h : mangle a = mangle b) : a = b :=
  mangle_injective_on_go_names a b ha hb h

/-- `goCase` and `constantName` never yield an underscore. -/
theorem go_names_have_no_underscore (s : Ident) : '_' ∉ goCase s ∧ '_' ∉ constantName s :=
  ⟨goCase_no_us s, constantName_no_us s⟩

/-- non-vacuity: deep plain types are covered, and the D15 witness is excluded by its name `List` alone -/
example : (MType.map (.named "Foo".toList) (.list (.set (.named "I64".toList) true))).Plain ∧
    ¬ (MType.map (.named "List".toList) (.list (.named "A".toList))).Plain := by
  refine ⟨?_, ?_⟩
  · simp [MType.Plain, PlainName]
  · simp [MType.Plain, PlainName]

/-- Non-vacuity: a clash-free name list is accepted, a clashing one (after `goCase`) rejected. -/
example : (reserveAll [] ["Foo".toList, "Bar".toList]).isSome = true ∧
    (reserveAll [] [goCase "foo_bar".toList, goCase "fooBar".toList]).isSome = false := by decide

end ThriftVerif.Properties.C06
