/-
C08 — Compiler and generator terminate with a result or an error on every input.

Property theorems only. Model: M-Compile. The linker and the generator's recursions over the
compiled graph are indexed by `fuel` = nesting depth of calls; `Res.fuel` ≙ Go stack overflow.
The pinned code does NOT terminate on four input shapes; for each the model's fuel is
exhausted for EVERY fuel (proved below), which is the finding. The syntactic part (the parser
returns a program or errors) is C11's model; the runtime part (no panic in library code) is
observed by the harness in child processes.
-/
import ThriftVerif.Compile.DivergeProofs
import ThriftVerif.Compile.TotalProofs

namespace ThriftVerif.Properties.C08
open ThriftVerif.Compile

/-- **Verdicts other than "diverges" do not depend on the fuel.** If `compile` answers ok/err
with some fuel it gives the same answer with any larger fuel: the only fuel-relative verdict
is exhaustion. -/
theorem verdict_fuel_independent {pre : Bool} {fuel : Nat} {o : Orders} {src : Program} {r : Res Compiled}
    (h : compileWith pre fuel o src = r) (hr : r ≠ .fuel) :
    ∀ g, fuel ≤ g → compileWith pre g o src = r :=
  compileWith_mono h hr

/-- **Totality (partial): programs without constants and defaults.** With an explicit measure
— `linkBound p = (#named types + #services + 2) · (total size of all definition bodies and
signatures + 2) + 4`: every `Link` call either descends into a strictly smaller part of one
definition or flags a definition never flagged before —
the linker terminates under every visit order: include cycles, typedef cycles (reported as
errors by `findTypeCycles`), struct nesting and recursion, service inheritance (also cyclic).
*Partial*: constants and default values are excluded (`TypesOnly`); for them termination needs
NoConstCycle ∧ NoStructDefaultCycle and fails without (D4, D40 below). -/
theorem compile_total_partial {pre : Bool} {o : Orders} {src : Program} {p : GProg}
    (hg : gather src = some p) (ht : TypesOnly p) :
    ∀ fuel, linkBound p ≤ fuel → compileWith pre fuel o src ≠ .fuel :=
  compileWith_total_typesOnly hg ht

/-- **Non-termination witness (D4).** `const i32 a = b  const i32 b = a`: `compile.Compile` does
not return, whatever the stack size. -/
theorem const_cycle_diverges : ∀ fuel, compile fuel [] progD4 = .fuel :=
  diverges_D4

/-- **Non-termination witness (D40).** `struct S {1: optional S f = {}}`: `compile.Compile` does
not return. -/
theorem recursive_struct_default_diverges : ∀ fuel, compile fuel [] progD40 = .fuel :=
  diverges_D40

/-- **Non-termination witness (D5).** `service A extends B {}  service B extends A {}` compiles,
and the generator's `addService` recursion on the result does not return. -/
theorem service_cycle_diverges :
    ∃ c, compile 100 [] progD5 = .ok c ∧ ∀ fuel, genServices fuel c = .fuel :=
  ⟨cD5, compile_D5, gen_diverges_D5⟩

/-- **Non-termination witness (D6 at a container type).** `const list<i32> c = c` compiles (a
constant defined as itself is accepted), and the generator's `ConstantValue` recursion does
not return. -/
theorem self_constant_generator_diverges :
    ∃ c, compile 100 [] progD6list = .ok c ∧ ∀ fuel, genServices fuel c = .fuel :=
  ⟨cD6list, compile_D6list, gen_diverges_D6list⟩

/-! Non-vacuity of the total part: a typedef cycle is an error, an include loop with a
recursive struct and a cyclic service pair compile — all without constants. -/
def typedefCycle : Program := oneFileProg true [.typedef (nm "A") (.ref (nm "B")), .typedef (nm "B") (.list 0 (.ref (nm "A")))]
def includeLoop : Program := ⟨true, [
  .ok [⟨false, nm "b", some 1⟩] [.struct .struct (nm "S") [⟨some 1, nm "f", .optional, .ref (nm "b.S"), none⟩],
    .service (nm "V") (some (nm "b.W")) []],
  .ok [⟨false, nm "a", some 0⟩] [.struct .struct (nm "S") [⟨some 1, nm "f", .optional, .ref (nm "a.S"), none⟩],
    .service (nm "W") (some (nm "a.V")) []]]⟩

example : (gather typedefCycle).map (fun p => (decide (TypesOnly p), linkBound p)) = some (true, 48) := by decide +kernel
example : (match compile 48 [] typedefCycle with | .err => true | _ => false) = true := by decide +kernel
example : (gather includeLoop).map (fun p => (decide (TypesOnly p), linkBound p)) = some (true, 148) := by decide +kernel
example : (compile 148 [] includeLoop).isOk = true := by decide +kernel

end ThriftVerif.Properties.C08
