/-
C08 — Compiler and generator terminate with a result or an error on every input.

Property theorems only. Model: M-Compile. The linker and the generator's recursions over the
compiled graph are indexed by `fuel` = nesting depth of calls; `Res.fuel` ≙ Go stack overflow.
The five input shapes on which the code did not terminate (findings D4, D5, D6, D40, D74) are
repaired; the model follows the repaired code and the former witnesses are regression inputs
that now end in an error (`former_divergence_rejected`). The syntactic part (the parser
returns a program or errors) is C11's model; the runtime part (no panic in library code) is
observed by the harness in child processes.
-/
import ThriftVerif.Compile.RepairedProofs
import ThriftVerif.Compile.ConstTotalPlain
import ThriftVerif.Compile.ConstTotalDCLift
import ThriftVerif.Compile.CycleMemo

namespace ThriftVerif.Properties.C08
open ThriftVerif.Compile

/-- **Verdicts other than "diverges" do not depend on the fuel.** If `compile` answers ok/err
with some fuel it gives the same answer with any larger fuel: the only fuel-relative verdict
is exhaustion. -/
theorem verdict_fuel_independent {pre : Bool} {fuel : Nat} {o : Orders} {src : Program} {r : Res Compiled}
    (h : compileWith pre fuel o src = r) (hr : r ≠ .fuel) :
    ∀ g, fuel ≤ g → compileWith pre g o src = r :=
  compileWith_mono h hr

/-- **Totality (partial): programs without constants and defaults.** With an explicit measure
— `linkBound p = (#named types + #services + 2) · (total size of all definition bodies and
signatures + 2) + 4`: every `Link` call either descends into a strictly smaller part of one
definition or flags a definition never flagged before —
the linker terminates under every visit order: include cycles, typedef cycles (reported as
errors by `findTypeCycles`), struct nesting and recursion, service inheritance (also cyclic).
*Partial*: constants and default values are excluded (`TypesOnly`); `compile_total_plain_values`
below covers programs with constants and defaults (without an explicit bound). -/
theorem compile_total_partial {pre : Bool} {o : Orders} {src : Program} {p : GProg}
    (hg : gather src = some p) (ht : TypesOnly p) :
    ∀ fuel, linkBound p ≤ fuel → compileWith pre fuel o src ≠ .fuel :=
  compileWith_total_typesOnly hg ht

/-- **Totality with constants (partial): programs whose constant values and default values are
plain** — scalars, references to constants and enum items, list literals; no map or struct
literal. For every visit order the compiler answers (a module or an error) with some fuel, and
with every larger fuel. Inside this class: constants defined through other constants in chains
and cycles of any length and across modules, constants cast to other types, struct types whose
field defaults refer to constants — i.e. all of D4, D6 and D74. The proof is a lexicographic
induction (definitions not yet entered, constants not being linked or cast, size of the
argument) over the linker's mutual block from *every* state whose stored values have no struct
node (`clauses_all`), lifted through services, modules and the walk. No bound is computed.
*Partial*: map and struct literals (`{…}`) in constants or defaults are excluded — with them a
missing struct field is completed from the stored default of that field, a value that is not a
part of the literal being linked; bounding that needs an invariant on stored struct values that
is not proved. D40's class (`struct S {1: optional S f = {}}`) is covered by its witness only. -/
theorem compile_total_plain_values {pre : Bool} {o : Orders} {src : Program} {p : GProg}
    (hg : gather src = some p) (hp : PlainValues p) :
    ∃ fuel, ∀ g, fuel ≤ g → compileWith pre g o src ≠ .fuel :=
  compileWith_total_plainValues hg hp

/-- **Totality with constants (partial): programs whose DEFAULT values are closed.** The constants
of the program are unrestricted — map and struct literals, references to other constants in
chains and cycles of any length and across modules, casts to other types. What is required is that
no default value (of a struct field or a function parameter) contains a struct / map literal or a
reference to a constant — scalars, enum items and list literals of those are allowed — and that
the field names of a struct are pairwise different (which `compileFields` guarantees: `gather`
rejects duplicates). For every visit order the compiler then answers with some fuel, and with
every larger fuel. The completion of a struct literal from the defaults of its struct — the step
that is not a descent into the literal — only ever links values that touch no constant, which
leaves the state alone (`DC.nrStep`, `DC.sfields_of`). *Partial*: defaults that are struct
literals (`= {}`: D40's class, the half-linked territory of D10 / D21 / D50) or constants
(`= SOME_CONST`, covered by `compile_total_plain_values` when no map literal occurs) are outside
this statement; a program with both kinds at once is covered by neither theorem. -/
theorem compile_total_closed_defaults {pre : Bool} {o : Orders} {src : Program} {p : GProg}
    (hg : gather src = some p) (hp : DC.DefaultsClosed p) :
    ∃ fuel, ∀ g, fuel ≤ g → compileWith pre g o src ≠ .fuel :=
  DC.compileWith_total_defaultsClosed hg hp

/-- The typedef cycle search as it runs since the repair of finding D85 (`visitCycleM`: a shared memo of
the types under which nothing leads back) gives the verdict of the plain search (`visitCycle`, exponential
on shared typedefs) on the two witnesses: no cycle in `typedef map<T1,T1> T0 … typedef i32 T4`, a cycle in
`typedef map<B,B> A  typedef list<A> B`; and the compiler accepts the first and rejects the second. (Tests of
the definitions; that the two searches agree on every program is `cycle_search_memo_agrees` below.) -/
theorem cycle_search_witnesses :
    ((gather progD85).map fun p =>
      (visitCycle p (cycleFuel p) [] (.named 0 (nm "T0")), (visitCycleM p (cycleFuel p) [] [] (.named 0 (nm "T0"))).1,
        moduleHasCycle p 0)) = some (false, false, false) ∧
    ((gather progTypedefCycle).map fun p =>
      (visitCycle p (cycleFuel p) [] (.named 0 (nm "A")), (visitCycleM p (cycleFuel p) [] [] (.named 0 (nm "A"))).1,
        moduleHasCycle p 0)) = some (true, true, true) ∧
    (compile 100 [] progD85).toOption.isSome = true ∧
    (compile 100 [] progTypedefCycle).toOption.isSome = false := by
  refine ⟨?_, ?_, ?_, ?_⟩ <;> decide +kernel

/-- **The typedef cycle search of the code (shared memo, repair D85) gives the verdict of the plain search,
on every program and every named type.** `visitCycleM` records the typedefs under which it found nothing and
does not search them again, whatever chain it meets them under later; `visitCycle` searches everything
again. The memo is sound because it is only consulted under a chain every member of which leads to the
type at hand, and a recorded typedef has a finite unfolding: if it led back into the chain it would lie
below itself (`visitCycleM_false`, `fin_no_self`). An error of the memoised search is an error of the
plain one with the same fuel for any memo (`visitCycleM_true`). -/
theorem cycle_search_memo_agrees (p : GProg) (m : Nat) (n : Name) :
    (visitCycleM p (cycleFuel p) [] [] (.named m n)).1 = visitCycle p (cycleFuel p) [] (.named m n) :=
  memo_verdict_cycleFuel p m n

/-- **The fuel of the cycle search is enough: its error is never for lack of fuel.** `cycleFuel` = the
summed depth of all typedef targets + 2; a chain cannot meet a typedef twice without an error, so
what the search clears with any fuel it clears with this one (`visitCycle_fuel_enough`). -/
theorem cycle_verdict_fuel_independent (p : GProg) (m : Nat) (n : Name) :
    (visitCycle p (cycleFuel p) [] (.named m n) = true → ∀ f, visitCycle p f [] (.named m n) = true) ∧
    (∀ f, visitCycle p f [] (.named m n) = false → visitCycle p (cycleFuel p) [] (.named m n) = false) :=
  ⟨cycleFuel_adequate p m n, fun f h => by
    cases hv : visitCycle p (cycleFuel p) [] (.named m n) with
    | false => rfl
    | true => rw [cycleFuel_adequate p m n hv f] at h; cases h⟩

/-- **"No typedef cycle", declaratively.** The search clears a named type exactly when the unfolding of
the type — typedefs replaced by their targets, through containers — is a finite tree in which every
typedef resolves (`fin p h t`: finished within depth `h`). -/
theorem no_cycle_iff_finite_unfolding (p : GProg) (m : Nat) (n : Name) :
    visitCycle p (cycleFuel p) [] (.named m n) = false ↔ ∃ h, fin p h (.named m n) = true :=
  visitCycle_false_iff_fin p m n

/-- **What `compileWith` consults (`moduleHasCycle`, tied to the code through the compile driver) is the
plain search over the typedefs of the module**, hence by `no_cycle_iff_finite_unfolding`: a module is
rejected for a typedef cycle exactly when one of its typedefs has no finite unfolding. -/
theorem module_cycle_check_spec (p : GProg) (m : Nat) :
    moduleHasCycle p m = true ↔
      ∃ n d, (n, d) ∈ (modAt p m).types ∧ (∃ t, d = .typedef t) ∧ ¬ ∃ h, fin p h (.named m n) = true := by
  rw [moduleHasCycle_plain, List.any_eq_true]
  constructor
  · rintro ⟨⟨n, d⟩, hmem, hv⟩
    cases d with
    | typedef t =>
      refine ⟨n, _, hmem, ⟨t, rfl⟩, ?_⟩
      rw [← no_cycle_iff_finite_unfolding]
      simpa using hv
    | _ => simp at hv
  · rintro ⟨n, d, hmem, ⟨t, rfl⟩, hno⟩
    refine ⟨(n, .typedef t), hmem, ?_⟩
    rw [← no_cycle_iff_finite_unfolding] at hno
    simpa using hno

/-- non-vacuity: the two witnesses sit on either side of the characterisation -/
example : ((gather progD85).map fun p => fin p 12 (.named 0 (nm "T0"))) = some true ∧
    ((gather progTypedefCycle).map fun p => moduleHasCycle p 0) = some true := by
  refine ⟨?_, ?_⟩ <;> decide +kernel

/-- **Regression witnesses (D4, D6, D40, D5, D74 — repaired): the former non-terminating inputs end
in an error.** On `const i32 a = b  const i32 b = a`, `const list<i32> c = c` (and the same
through a struct default), `struct S {1: optional S f = {}}` and
`service A extends B {}  service B extends A {}`, and the two-file program of D74 (two constants
defined as each other whose struct types carry defaults referring to the other, reached from an
including file before those types are linked — found while attempting the totality proof for
programs with constants: the cast of a referenced constant's value was not covered by the
in-progress flag) the linker used to recurse without bound (or
compile, after which the generator did). With the in-progress flags of the repaired code each
is rejected by every fuel from 30 on, and never accepted — so the generator is not reached. -/
theorem former_divergence_rejected :
    (∀ fuel, 30 ≤ fuel → compile fuel [] progD4 = .err) ∧
    (∀ fuel, 30 ≤ fuel → compile fuel [] progD6list = .err) ∧
    (∀ fuel, 30 ≤ fuel → compile fuel [] progD6default = .err) ∧
    (∀ fuel, 30 ≤ fuel → compile fuel [] progD40 = .err) ∧
    (∀ fuel, 30 ≤ fuel → compile fuel [] progD5 = .err) ∧
    (∀ fuel, 30 ≤ fuel → compile fuel [] progD74 = .err) ∧
    (∀ fuel, (compile fuel [] progD5).isOk = false) ∧ (∀ fuel, (compile fuel [] progD6list).isOk = false) :=
  ⟨(rejected_of_err err_D4).1, (rejected_of_err err_D6list).1, (rejected_of_err err_D6default).1,
   (rejected_of_err err_D40).1, (rejected_of_err err_D5).1, (rejected_of_err err_D74).1, (rejected_of_err err_D5).2,
   (rejected_of_err err_D6list).2⟩

/-! Non-vacuity of the total part: a typedef cycle is an error, an include loop with a
recursive struct and a service inheriting across the loop compile — all without constants. -/
def typedefCycle : Program := oneFileProg true [.typedef (nm "A") (.ref (nm "B")), .typedef (nm "B") (.list 0 (.ref (nm "A")))]
def includeLoop : Program := ⟨true, [
  .ok [⟨false, nm "b", some 1⟩] [.struct .struct (nm "S") [⟨some 1, nm "f", .optional, .ref (nm "b.S"), none⟩],
    .service (nm "V") (some (nm "b.W")) []],
  .ok [⟨false, nm "a", some 0⟩] [.struct .struct (nm "S") [⟨some 1, nm "f", .optional, .ref (nm "a.S"), none⟩],
    .service (nm "W") none []]]⟩

example : (gather typedefCycle).map (fun p => (decide (TypesOnly p), linkBound p)) = some (true, 48) := by decide +kernel
example : (match compile 48 [] typedefCycle with | .err => true | _ => false) = true := by decide +kernel
example : (gather includeLoop).map (fun p => (decide (TypesOnly p), linkBound p)) = some (true, 130) := by decide +kernel
example : (compile 130 [] includeLoop).isOk = true := by decide +kernel

/-! Non-vacuity of `compile_total_plain_values`: the witnesses of D4, D6 (list) and D74 are in the
class (and are rejected); so is an accepted program with a chain of constants, a cast and a
default that refers to a constant. -/
def constChain : Program := oneFileProg true [
  .typedef (nm "N") (.base 0 .i64),
  .const (nm "a") (.base 0 .i32) (.int 7),
  .const (nm "b") (.ref (nm "N")) (.uref (nm "a")),
  .const (nm "c") (.list 0 (.ref (nm "N"))) (.list [.uref (nm "a"), .uref (nm "b"), .int 1]),
  .struct .struct (nm "S") [⟨some 1, nm "f", .optional, .base 1 .i64, some (.uref (nm "b"))⟩]]

example : (gather progD4).map (fun p => decide (PlainValues p)) = some true := by decide +kernel
example : (gather progD6list).map (fun p => decide (PlainValues p)) = some true := by decide +kernel
example : (gather progD74).map (fun p => decide (PlainValues p)) = some true := by decide +kernel
example : (gather constChain).map (fun p => decide (PlainValues p)) = some true := by decide +kernel
example : (compile 40 [] constChain).isOk = true := by decide +kernel
example : (gather progD40).map (fun p => decide (PlainValues p)) = some false := by decide +kernel

/-! Non-vacuity of `compile_total_closed_defaults`: a program with struct and map constants, a
constant cast to another struct type, an enum default and a list default — accepted; a constant
cycle through struct literals — in the class, rejected; D74 (defaults that refer to constants)
and D40 (a struct-literal default) — outside the class. -/
def structConsts : Program := oneFileProg true [
  .enum (nm "Color") [(nm "RED", some 1), (nm "BLUE", some 2)],
  .struct .struct (nm "P") [⟨some 1, nm "x", .optional, .base 0 .i32, some (.int 7)⟩,
                            ⟨some 2, nm "c", .optional, .ref (nm "Color"), some (.uref (nm "Color.RED"))⟩,
                            ⟨some 3, nm "l", .optional, .list 0 (.base 1 .i64), some (.list [.int 1, .int 2])⟩],
  .struct .struct (nm "Q") [⟨some 1, nm "x", .optional, .base 2 .i32, none⟩, ⟨some 2, nm "p", .optional, .ref (nm "P"), none⟩],
  .const (nm "p0") (.ref (nm "P")) (.map [(.str (nm "x"), .int 3)]),
  .const (nm "q0") (.ref (nm "Q")) (.map [(.str (nm "x"), .int 4), (.str (nm "p"), .uref (nm "p0"))]),
  .const (nm "q1") (.ref (nm "Q")) (.uref (nm "p0")),
  .const (nm "m0") (.map 0 (.base 3 .string) (.ref (nm "P"))) (.map [(.str (nm "k"), .uref (nm "p0")), (.str (nm "e"), .map [])])]

def structCycle : Program := oneFileProg true [
  .struct .struct (nm "N") [⟨some 1, nm "v", .required, .base 0 .i32, none⟩, ⟨some 2, nm "t", .optional, .ref (nm "N"), none⟩],
  .const (nm "a") (.ref (nm "N")) (.map [(.str (nm "v"), .int 1), (.str (nm "t"), .uref (nm "b"))]),
  .const (nm "b") (.ref (nm "N")) (.map [(.str (nm "v"), .int 2), (.str (nm "t"), .uref (nm "a"))])]

example : (gather structConsts).map (fun p => decide (DC.DefaultsClosed p)) = some true := by decide +kernel
example : (compile 60 [] structConsts).isOk = true := by decide +kernel
example : (gather structCycle).map (fun p => decide (DC.DefaultsClosed p)) = some true := by decide +kernel
example : (match compile 60 [] structCycle with | .err => true | _ => false) = true := by decide +kernel
example : (gather progD74).map (fun p => decide (DC.DefaultsClosed p)) = some false := by decide +kernel
example : (gather progD40).map (fun p => decide (DC.DefaultsClosed p)) = some false := by decide +kernel
example : (gather structConsts).map (fun p => decide (PlainValues p)) = some false := by decide +kernel

end ThriftVerif.Properties.C08
