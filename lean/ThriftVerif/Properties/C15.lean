/-
C15 — Redacted and no-log fields never leak into strings, errors or logs.

Property theorems only. Model: M-Schema `visible env zap fuel t g` = the labels and leaf
values that the rendering of `g` (String()/Error() when zap = false, MarshalLogObject when
zap = true) may show; `eraseRedacted` replaces the content of every go.redact field (and for
zap every go.nolog field) by a constant, keeping only set/unset. fmt/zap formatting itself is
not modelled; the harness scans the real output for the markers and labels.
-/
import ThriftVerif.Schema.VisibleProofs

namespace ThriftVerif.Properties.C15
open ThriftVerif.Wire ThriftVerif.Schema

/-- Non-interference: the shown text is a function of the value with every redacted field's
content erased — whatever the value and however deeply the struct is nested inside other
structs, typedefs or containers. -/
theorem noninterference (env : Env) (zap : Bool) (fuel : Nat) (t : Ty) (g₁ g₂ : GVal)
    (h : eraseRedacted env zap fuel t g₁ = eraseRedacted env zap fuel t g₂) :
    visible env zap fuel t g₁ = visible env zap fuel t g₂ :=
  ThriftVerif.Schema.noninterference env zap fuel t g₁ g₂ h

/-- A set redacted field contributes only the redaction marker. -/
theorem redacted_shows_marker_only (vis : Ty → GVal → List String) (zap : Bool) (f : Field)
    (fs : List Field) (g : GVal) (gs : List GVal) (hset : g.isNil = false) (hr : f.redact = true)
    (hl : (zap && f.nolog) = false) :
    visibleFields vis zap (f :: fs) (g :: gs) =
      ("RED:" ++ (if zap then f.label else f.goName)) :: visibleFields vis zap fs gs :=
  ThriftVerif.Schema.redacted_shows_marker_only vis zap f fs g gs hset hr hl

/-- go.nolog fields never appear in zap output. -/
theorem nolog_absent (vis : Ty → GVal → List String) (f : Field) (fs : List Field)
    (g : GVal) (gs : List GVal) (hl : f.nolog = true) :
    visibleFields vis true (f :: fs) (g :: gs) = visibleFields vis true fs gs :=
  ThriftVerif.Schema.nolog_absent vis f fs g gs hl

/-- The content of a set redacted field is irrelevant to what is shown: replacing it by any other
set value leaves the shown tokens of the struct unchanged — in String()/Error() and in zap output,
whether or not the field is also go.nolog. -/
theorem redacted_content_irrelevant (vis : Ty → GVal → List String) (zap : Bool) (f : Field)
    (fs : List Field) (g g' : GVal) (gs : List GVal) (hset : g.isNil = false) (hset' : g'.isNil = false)
    (hr : f.redact = true) :
    visibleFields vis zap (f :: fs) (g :: gs) = visibleFields vis zap (f :: fs) (g' :: gs) := by
  cases hl : (zap && f.nolog)
  · rw [redacted_shows_marker_only vis zap f fs g gs hset hr hl,
        redacted_shows_marker_only vis zap f fs g' gs hset' hr hl]
  · simp only [Bool.and_eq_true] at hl
    obtain ⟨hz, hn⟩ := hl
    subst hz
    rw [nolog_absent vis f fs g gs hn, nolog_absent vis f fs g' gs hn]

/-- A go.nolog field — set or unset, whatever it holds — makes no difference to zap output. -/
theorem nolog_content_irrelevant (vis : Ty → GVal → List String) (f : Field) (fs : List Field)
    (g g' : GVal) (gs : List GVal) (hl : f.nolog = true) :
    visibleFields vis true (f :: fs) (g :: gs) = visibleFields vis true (f :: fs) (g' :: gs) := by
  rw [nolog_absent vis f fs g gs hl, nolog_absent vis f fs g' gs hl]

/-- Every other set field does appear, under its name/label. -/
theorem others_present (vis : Ty → GVal → List String) (zap : Bool) (f : Field) (fs : List Field)
    (g : GVal) (gs : List GVal) (hset : g.isNil = false) (hr : f.redact = false)
    (hl : (zap && f.nolog) = false) :
    ("L:" ++ (if zap then f.label else f.goName)) ∈ visibleFields vis zap (f :: fs) (g :: gs) :=
  ThriftVerif.Schema.others_present vis zap f fs g gs hset hr hl

/-- Non-vacuity: two values differing only in a redacted string nested in a list of structs
show the same tokens, and the marker of the redacted leaf is not among the shown tokens. -/
example :
    let env : Env := { structs := [⟨"S", .struct,
      [⟨1, "Secret", "secret", false, true, false, none, .string⟩,
       ⟨2, "Name", "name", true, false, false, none, .string⟩]⟩] }
    let t : Ty := .list (.struct "S")
    let g₁ : GVal := .list [.struct [.str [0x6d, 0x6b, 0x31], .str [0x6d, 0x6b, 0x32]]]
    let g₂ : GVal := .list [.struct [.str [0x6d, 0x6b, 0x39], .str [0x6d, 0x6b, 0x32]]]
    visible env false 10 t g₁ = visible env false 10 t g₂ ∧
    visible env false 10 t g₁ = ["RED:Secret", "L:Name", "V:mk2"] := by
  decide

end ThriftVerif.Properties.C15
