/-
C16 — plugin protocol: the handshake gates generation, every plugin is told goodbye once
and shut down, the exit status reports plugin failures, frames survive any segmentation,
and a plugin built with the plugin library plays its part.

Property theorems only. Model: M-Proto — Frame.lean (`frame`, `readFrameT` over `Chunks`),
Host.lean (the host automaton `run` over adversarial plugin scripts: for each request a
plugin may write ARBITRARY bytes in ARBITRARY chunks and may exit), Server.lean (`serve`, the
model of plugin.Main). `Flags`-quantified statements hold for one plugin whatever the other
plugins do; the `run` statements are their instances for the flags the run computes.

Level: proof, partial. Proved: everything below, for all scripts / byte streams /
segmentations / completion orders. Not provable here (observed by the correspondence harness
on the real binary): os/exec, pipes, process exit and reaping, goroutine scheduling.
A plugin that stays alive without completing a reply blocks the host for ever (`Verdict.hang`,
outside the property's fault list); statements about shutdown assume a run that does not hang.
-/
import ThriftVerif.Proto.FrameProofs
import ThriftVerif.Proto.HostProofs3
import ThriftVerif.Proto.ServerProofs
import ThriftVerif.Proto.HostWitness

namespace ThriftVerif.Properties.C16
open ThriftVerif.Wire ThriftVerif.Proto

/-! ### frames -/

/-- Frames are delivered intact and in order under ANY segmentation of the pipe, for any
fast-path threshold (so for both the `io.ReadFull` and the `io.CopyN` path). -/
theorem frames_roundtrip (thr : Nat) (msgs : List Bytes) (hm : ∀ m ∈ msgs, m.length < 2 ^ 32)
    (cs : Chunks) (hcs : cs.flatten = frames msgs) : readFramesT thr cs = (msgs, true) :=
  ThriftVerif.Proto.frames_roundtrip thr msgs hm cs hcs

/-- … in particular for what `frame.Writer` writes, re-segmented arbitrarily. -/
theorem write_read_roundtrip (thr : Nat) (msgs : List Bytes) (hm : ∀ m ∈ msgs, m.length < 2 ^ 32)
    (cs : Chunks) (hcs : cs.flatten = ((msgs.map writeFrame).flatten).flatten) :
    readFramesT thr cs = (msgs, true) :=
  ThriftVerif.Proto.write_read_roundtrip thr msgs hm cs hcs

/-- Never a wrong message: whatever the reader delivers is literally framed at the front of
the stream. -/
theorem frame_never_wrong (thr : Nat) (cs : Chunks) (m : Bytes) (rest : Chunks)
    (h : readFrameT thr cs = .ok m rest) : cs.flatten = frame m ++ rest.flatten ∧ m.length < 2 ^ 32 :=
  readFrameT_sound thr cs m rest h

/-- A stream that ends inside a frame — truncated at any byte offset, or with a prefix that
announces more than follows — yields an error, never a message. -/
theorem truncated_or_oversized_is_error (thr : Nat) (cs : Chunks) (m : Bytes) (k : Nat)
    (hm : m.length < 2 ^ 32) (hk : k < (frame m).length) (hcs : cs.flatten = (frame m).take k) :
    ∀ m' rest, readFrameT thr cs ≠ .ok m' rest :=
  readFrameT_incomplete thr cs m k hm hk hcs

/-- Non-vacuity: two messages (one empty) read from 1-byte chunks with empty reads between. -/
example : readFrames [[0], [], [0], [0], [2], [0x61], [], [0x62], [0, 0, 0], [0]] = ([[0x61, 0x62], []], true) := by
  decide

/-! ### the host automaton -/

/-- **generate_after_handshake**: whatever the plugins do, a generate request is sent to a
plugin only after its handshake reply decoded to a response carrying the expected name, the
host's API version and the SERVICE_GENERATOR feature; the successful handshake exchange is the
immediate prefix of the host's history for that plugin. -/
theorem generate_after_handshake (g : Flags) (p : Plugin)
    (h : HEvent.send .generate ∈ (finish g p).h) :
    ∃ x, (hsPhase p).hsResp = some x ∧ handshakeAccepts p x = true ∧ hasServiceGenerator x = true ∧
      ∃ tail, (finish g p).h =
        [.start, .send .handshake, .recvOk .handshake, .send .generate] ++ tail :=
  finish_generate_after_handshake g p h

/-- what `handshakeAccepts` / `hasServiceGenerator` mean. -/
theorem handshake_checks (p : Plugin) (x : HsResp) :
    (handshakeAccepts p x = true ↔ x.name = p.name ∧ x.version.toNat = apiVersion) ∧
    (hasServiceGenerator x = true ↔ ∃ f ∈ x.features, f.toNat = featureServiceGenerator) := by
  simp [handshakeAccepts, hasServiceGenerator]

/-- **goodbye_once**: in a run that terminates, the host sends exactly one goodbye to each
plugin whose handshake succeeded and none to the others. -/
theorem goodbye_once (c : Cfg) (h : (run c).exit ≠ .hang) (p : Plugin) (hp : p ∈ c.plugins) :
    goodbyes (finish (flagsOf c) p).h = if (hsPhase p).hsOk then 1 else 0 :=
  finish_goodbye_once _ p (flagsOK_of_not_hang c h p hp)

/-- **all_closed**: in a run that terminates, every plugin that was started has its pipes closed
and is waited for — exactly once each, as the last two things the host does to it. -/
theorem all_closed (c : Cfg) (h : (run c).exit ≠ .hang) (p : Plugin) (hp : p ∈ c.plugins) :
    closes (finish (flagsOf c) p).h = 1 ∧ waits (finish (flagsOf c) p).h = 1 ∧
    (∃ pre, (finish (flagsOf c) p).h = pre ++ [.closePipes, .wait]) ∧
    (finish (flagsOf c) p).h.head? = some .start :=
  finish_all_closed _ p (flagsOK_of_not_hang c h p hp) ((not_hang c h).2.2 p hp)

/-- the records of a run are the per-plugin histories under the run's own flags. -/
theorem run_records (c : Cfg) : (run c).recs = c.plugins.map (finish (flagsOf c)) := rfl

/-- **exit_fail_iff**: a terminating run exits with failure iff the core generator failed, two
sources produced the same path, or some plugin failed (handshake rejected, an exchange ended in
an error, a ".." path, a non-zero exit status). -/
theorem exit_fail_iff (c : Cfg) (h : (run c).exit ≠ .hang) :
    (run c).exit = .fail ↔
      (c.coreOk = false ∨ (run c).conflict = true ∨
        ∃ p ∈ c.plugins, PluginFailed p (finish (flagsOf c) p)) :=
  run_exit_fail_iff c h

/-- **naming**: in a terminating run the error output names a plugin if and only if that
plugin failed — at the handshake, at generate, with a ".." path, at goodbye, or by its exit
status (together with `exit_fail_iff`: failure *naming* the plugin iff the plugin failed). -/
theorem exit_names_plugin (c : Cfg) (h : (run c).exit ≠ .hang) (p : Plugin) (hp : p ∈ c.plugins) :
    namedIn (finish (flagsOf c) p) = true ↔ PluginFailed p (finish (flagsOf c) p) :=
  shape_named p _ (finish_shape _ p (flagsOK_of_not_hang c h p hp) ((not_hang c h).2.2 p hp))

/-- what each reported error means in terms of the host's history with that plugin. -/
theorem error_meaning (c : Cfg) (h : (run c).exit ≠ .hang) (p : Plugin) (hp : p ∈ c.plugins) :
    let r := finish (flagsOf c) p
    (ErrKind.handshake ∈ r.errs ↔ r.hsOk = false) ∧
    (ErrKind.generate ∈ r.errs ↔ HEvent.recvErr .generate ∈ r.h) ∧
    (ErrKind.goodbye ∈ r.errs ↔ HEvent.recvErr .goodbye ∈ r.h) ∧
    (ErrKind.exitStatus ∈ r.errs ↔ p.exitCode ≠ 0) ∧
    (ErrKind.dotdot ∈ r.errs → HEvent.recvOk .generate ∈ r.h) :=
  shape_errs p _ (finish_shape _ p (flagsOK_of_not_hang c h p hp) ((not_hang c h).2.2 p hp))

/-- Regression case of finding D41 (fixed in /repo: `transportHandle.Close` now wraps the goodbye
error with the plugin's name): plugin `b` fails only at goodbye; the run exits with failure after
the files were written and the error output names `b`, and only `b`. -/
theorem goodbye_failure_named :
    (run cfgD41).exit = .fail ∧ (run cfgD41).wrote.isSome = true ∧
    (run cfgD41).recs.map (·.errs) = [[], [.goodbye]] ∧
    (run cfgD41).recs.map namedIn = [false, true] :=
  goodbye_failure_named_run

/-- **completion order**: the per-plugin histories and the exit verdict are the same for every
order in which the concurrent calls complete. -/
theorem order_irrelevant (c : Cfg) (o1 o2 : List Nat)
    (h1 : o1.Perm (List.range c.plugins.length)) (h2 : o2.Perm (List.range c.plugins.length)) :
    (run { c with ord := o1 }).recs = (run { c with ord := o2 }).recs ∧
    (run { c with ord := o1 }).exit = (run { c with ord := o2 }).exit :=
  run_order_irrelevant c o1 o2 h1 h2

/-- Non-vacuity: a concrete conforming two-plugin run (one plugin answering its handshake in
1-byte writes), with the plugins' views and the host's histories. -/
example :
    (run cfgOK).exit = .ok ∧
    (run cfgOK).recs.map (·.st.view) =
      [[.start, .req .handshake, .req .generate, .req .goodbye, .eof, .exit],
       [.start, .req .handshake, .req .goodbye, .eof, .exit]] :=
  ⟨conforming_run.1, conforming_run.2.2.1⟩

/-! ### the plugin library -/

/-- **conforming plugin**: a plugin built with the library answers the host's session —
handshake, any number of generate requests, goodbye — in order, under ANY segmentation of its
input, and stops right after the goodbye reply (whatever follows is not read). -/
theorem conforming_plugin (i : Impl) (hsg : i.hasSG = true) (bodies : List WValue)
    (answers : List (Option Files)) (hlen : answers.length = bodies.length)
    (hb : ∀ b ∈ bodies, GenBodyOK b) (junk : Bytes) (cs : Chunks)
    (hcs : cs.flatten = frames (encEnvStrict hsReq :: genSession bodies) ++ junk) :
    serve i (answers.map .files) cs =
      (⟨methodName .handshake, 1, .reply (handshakeResult i)⟩ ::
        (answers.map (fun a => ⟨methodName .generate, 1, .genReply a⟩) ++
          [⟨methodName .goodbye, 1, .reply (.struct [])⟩]), .goodbye) :=
  ThriftVerif.Proto.conforming_plugin i hsg bodies answers hlen hb junk cs hcs

/-- … and the host's handshake logic accepts the library's answer (any segmentation), seeing
the service-generator feature exactly when the plugin has a generator. -/
theorem host_accepts_library_handshake (i : Impl) (p : Plugin) (hname : p.name = i.name)
    (hstart : p.exitAtStart = false) (hn : i.name.length < 2 ^ 31) (hv : i.libVersion.length < 2 ^ 31)
    (hsz : (hsAnswerBytes i).length < 2 ^ 32) (hout : p.hs.out.flatten = frame (hsAnswerBytes i)) :
    (hsPhase p).hsOk = true ∧
    (hsPhase p).hsResp = some ⟨i.name, UInt32.ofNat apiVersion,
      if i.hasSG then [UInt32.ofNat featureServiceGenerator] else []⟩ ∧
    wantsGenerate (hsPhase p) = i.hasSG :=
  ThriftVerif.Proto.host_accepts_library_handshake i p hname hstart hn hv hsz hout

/-- Non-vacuity: a generate request body that meets `GenBodyOK`. -/
example : GenBodyOK (.struct [(1, .struct [(4, .binary [0x78])])]) :=
  ⟨rfl, by decide, by decide⟩

end ThriftVerif.Properties.C16
