/-
C12 — RPC envelopes: framing is detected, echoed, and round-trips exactly.

Property theorems only. Model: M-Wire (Envelope.lean). `decodeRequest` is the
random-access request API, `readRequest true` the streaming one (with the two-byte
peek done by `io.ReadFull`; `readRequest false` is the pre-repair single `Read`).
-/
import ThriftVerif.Wire.EnvelopeProofs
import ThriftVerif.Proto.Mux

namespace ThriftVerif.Properties.C12
open ThriftVerif.Wire

/-- Versioned envelopes round-trip exactly: every name (any bytes, < 2^31), every
message type 0..127, every sequence id, every struct body. -/
theorem envelope_roundtrip_strict (e : Envelope) (h : EnvOK e) :
    decEnvelope (encEnvStrict e) = .ok e :=
  ThriftVerif.Wire.envelope_roundtrip_strict e h

/-- Legacy envelopes round-trip exactly for every non-empty name. -/
theorem envelope_roundtrip_legacy (e : Envelope) (h : EnvOK e) (hn : 0 < e.name.length) :
    decEnvelope (encEnvLegacy e) = .ok e :=
  ThriftVerif.Wire.envelope_roundtrip_legacy e h hn

/-- Framing detection is unambiguous: bytes that are the versioned form of one acceptable
envelope and the legacy form of another (non-empty name) would have to carry the same envelope,
so a reader that sniffs the framing can never turn one message into a different one. Each form
on its own is injective as well: the bytes determine name, type, sequence id and body. -/
theorem framings_never_confused (e e' : Envelope) (h : EnvOK e) (h' : EnvOK e')
    (hn : 0 < e'.name.length) (hb : encEnvStrict e = encEnvLegacy e') : e = e' := by
  have h1 := envelope_roundtrip_strict e h
  have h2 := envelope_roundtrip_legacy e' h' hn
  rw [hb, h2] at h1
  injection h1 with h1
  exact h1.symm

theorem strict_envelope_injective (e e' : Envelope) (h : EnvOK e) (h' : EnvOK e')
    (hb : encEnvStrict e = encEnvStrict e') : e = e' := by
  have h1 := envelope_roundtrip_strict e h
  have h2 := envelope_roundtrip_strict e' h'
  rw [hb, h2] at h1
  injection h1 with h1
  exact h1.symm

theorem legacy_envelope_injective (e e' : Envelope) (h : EnvOK e) (h' : EnvOK e')
    (hn : 0 < e.name.length) (hn' : 0 < e'.name.length)
    (hb : encEnvLegacy e = encEnvLegacy e') : e = e' := by
  have h1 := envelope_roundtrip_legacy e h hn
  have h2 := envelope_roundtrip_legacy e' h' hn'
  rw [hb, h2] at h1
  injection h1 with h1
  exact h1.symm

/-- Boundary of the legacy form (why the name quantifier starts at 1 byte). -/
theorem legacy_empty_name_rejected (e : Envelope) (hn : e.name = []) :
    decEnvelope (encEnvLegacy e) = .error .bad :=
  ThriftVerif.Wire.legacy_empty_name_rejected e hn

/-- A server accepts the versioned framing, decodes the same body and remembers framing,
name and sequence id. -/
theorem request_strict (e : Envelope) (h : EnvOK e) :
    decodeRequest e.etype (encEnvStrict e) = .ok (e.value, ⟨.strict, e.name, e.seqid⟩) :=
  decodeRequest_strict e h

/-- … the legacy framing (names of 1..2^24-1 bytes) … -/
theorem request_legacy (e : Envelope) (h : EnvOK e) (hn : 0 < e.name.length)
    (hn' : e.name.length < 2 ^ 24) :
    decodeRequest e.etype (encEnvLegacy e) = .ok (e.value, ⟨.legacy, e.name, e.seqid⟩) :=
  decodeRequest_legacy e h hn hn'

/-- … and rejects an envelope of the wrong message type in either framing. -/
theorem request_wrong_type (e : Envelope) (h : EnvOK e) (et : UInt8) (hne : e.etype ≠ et) :
    decodeRequest et (encEnvStrict e) = .error .bad ∧
    (0 < e.name.length → e.name.length < 2 ^ 24 → decodeRequest et (encEnvLegacy e) = .error .bad) :=
  ⟨decodeRequest_wrong_type_strict e h et hne,
   fun hn hn' => decodeRequest_wrong_type_legacy e h hn hn' et hne⟩

/-- The reply is written in the request's framing and echoes its name and sequence id. -/
theorem response_echo (name : Bytes) (sq : UInt32) (v : WValue) (t : UInt8)
    (h : EnvOK ⟨name, t, sq, v⟩) :
    decEnvelope (encodeResponse ⟨.strict, name, sq⟩ v t) = .ok ⟨name, t, sq, v⟩ ∧
    (0 < name.length → decEnvelope (encodeResponse ⟨.legacy, name, sq⟩ v t) = .ok ⟨name, t, sq, v⟩) ∧
    encodeResponse ⟨.bare, name, sq⟩ v t = enc v :=
  ⟨response_echo_strict name sq v t h, response_echo_legacy name sq v t h, rfl⟩

/-- The streaming request API accepts every input the random-access API accepts, with the
same body and reply framing, under EVERY segmentation of the byte stream into reads. -/
theorem apis_agree (et : UInt8) (cs : Chunks) (x : WValue × Responder)
    (h : decodeRequest et cs.flatten = .ok x) : readRequest true et cs = .ok x :=
  ThriftVerif.Wire.apis_agree et cs x h

/-- Why the peek must be `io.ReadFull` (finding D1, repaired): with a single `Read` a
valid request whose first read returns one byte is rejected. -/
theorem single_read_peek_breaks_agreement :
    (decodeRequest 1 [0x80, 1, 0, 1, 0, 0, 0, 1, 0x61, 0, 0, 0, 7, 0]).toBool = true ∧
    (readRequest false 1 [[0x80], [1, 0, 1, 0, 0, 0, 1, 0x61, 0, 0, 0, 7, 0]]).toBool = false ∧
    (readRequest true 1 [[0x80], [1, 0, 1, 0, 0, 0, 1, 0x61, 0, 0, 0, 7, 0]]).toBool = true :=
  readRequest_single_read_counterexample

/-- Non-vacuity: a concrete envelope with a non-UTF8 multiplexed-style name meets `EnvOK`. -/
example : EnvOK ⟨[0x53, 0x3a, 0xff, 0x00], 1, 0x80000000, .struct [(1, .bool true)]⟩ :=
  ⟨rfl, by decide, by decide, by decide⟩

/-! ### ':'-multiplexed names (internal/multiplex) -/

/-- A multiplexing client for service `svc` (no colon in it) sends `svc:method`; the multiplexing handler
cuts at the first colon: the service is handed exactly the method — any bytes, further colons included. -/
theorem multiplexed_method_intact (svc m : Bytes) (h : (0x3a : UInt8) ∉ svc) :
    ThriftVerif.Proto.splitColon (ThriftVerif.Proto.muxName svc m) = some (svc, m) :=
  ThriftVerif.Proto.splitColon_mux svc m h

/-- A name is refused as not multiplexed exactly when it has no colon at all. -/
theorem unmultiplexed_iff_no_colon (n : Bytes) :
    ThriftVerif.Proto.splitColon n = none ↔ (0x3a : UInt8) ∉ n :=
  ThriftVerif.Proto.splitColon_none_iff n

/-- The cut is at the FIRST colon: the two parts put the name back together and the service part has none. -/
theorem multiplex_cut_at_first_colon (n svc m : Bytes) (h : ThriftVerif.Proto.splitColon n = some (svc, m)) :
    n = ThriftVerif.Proto.muxName svc m ∧ (0x3a : UInt8) ∉ svc :=
  ThriftVerif.Proto.splitColon_some n svc m h

/-- Non-vacuity: `Svc:a:b\xff` reaches service `Svc` as method `a:b\xff`. -/
example : ThriftVerif.Proto.splitColon [0x53, 0x76, 0x63, 0x3a, 0x61, 0x3a, 0x62, 0xff] =
    some ([0x53, 0x76, 0x63], [0x61, 0x3a, 0x62, 0xff]) := by decide

end ThriftVerif.Properties.C12
