/-
C07 — References resolve to the right definitions, independent of ordering.

Property theorems only. Model: M-Compile — the stateful linker (`Link.lean`, following the
Go code, every map iteration an explicit visit order) and the declarative resolution spec
(`Spec.lean`: `resolveType`, `resolveConst`, `resolveService`, `IsRoot`/`rootOf`, `castConst`).

What is proved for ALL programs, ALL visit orders, ALL fuel: the linker binds every type
reference as the spec designates (`link_binds_spec`) and every root it stores is the
declarative root (`link_refines_spec_partial`). What the pinned code gets wrong is
reproduced by the model and proved by evaluation: D10 (`link_order_dependent`) and D50
(`acceptance_order_dependent`); D17 is repaired (`enum_item_cast` is its regression witness).
-/
import ThriftVerif.Compile.LinkProofs
import ThriftVerif.Compile.RepairedProofs

namespace ThriftVerif.Properties.C07
open ThriftVerif.Compile

/-! ### the scoping rules (declarative spec) -/

/-- A name defined in the file itself, bare or dotted, binds to that definition: local
dotted names shadow include-qualified ones. -/
theorem bare_name_binds_in_same_file {p : GProg} {m : Nat} {n : Name} {d : TDef}
    (h : lookupType p m n = some d) : resolveType p m n = some (m, n) :=
  resolveType_local h

/-- `inc.name` (no local definition of that dotted name) binds to what `name` denotes in the
file included as `inc`. -/
theorem qualified_name_binds_in_included_file {p : GProg} {m m' : Nat} {n inc rest : Name}
    (hl : lookupType p m n = none) (hs : splitInclude n = some (inc, rest))
    (hi : lookupInclude p m inc = some m') : resolveType p m n = resolveType p m' rest :=
  resolveType_include hl hs hi

/-- Unknown names bind to nothing (and what `resolveType` answers always exists). -/
theorem unknown_names_unbound {p : GProg} {m : Nat} {n : Name} :
    (lookupType p m n = none → splitInclude n = none → resolveType p m n = none) ∧
    (∀ k, resolveType p m n = some k → ∃ d, lookupType p k.1 k.2 = some d) :=
  ⟨resolveType_unknown, fun _ h => resolveType_defined h⟩

/-- A file reached through several include paths is one module: the binding of `inc.name`
depends only on which file `inc` denotes. -/
theorem shared_include_is_one_module {p : GProg} {m₁ m₂ k : Nat} {n₁ n₂ i₁ i₂ rest : Name}
    (hl₁ : lookupType p m₁ n₁ = none) (hs₁ : splitInclude n₁ = some (i₁, rest))
    (hi₁ : lookupInclude p m₁ i₁ = some k)
    (hl₂ : lookupType p m₂ n₂ = none) (hs₂ : splitInclude n₂ = some (i₂, rest))
    (hi₂ : lookupInclude p m₂ i₂ = some k) :
    resolveType p m₁ n₁ = resolveType p m₂ n₂ :=
  resolveType_shared_module hl₁ hs₁ hi₁ hl₂ hs₂ hi₂

/-- Constants: a constant of that (possibly dotted) name in the file wins; `Enum.Item` is the
item of the local enum. Services: a local service wins. -/
theorem constant_and_service_scoping {p : GProg} {m : Nat} {n : Name} :
    (∀ c, lookupConst p m n = some c → resolveConst p m n = some (.const m n)) ∧
    (∀ e item items v, lookupConst p m n = none → splitInclude n = some (e, item) →
      lookupType p m e = some (.enum items) → alookup item items = some v →
      resolveConst p m n = some (.item m e item v)) ∧
    (∀ s, lookupService p m n = some s → resolveService p m n = some (m, n)) :=
  ⟨fun _ h => resolveConst_local h, fun _ _ _ _ hl hs he hv => resolveConst_enum_item hl hs he hv,
   fun _ h => resolveService_local h⟩

/-- The root of a type is unique, is never a typedef, and is what the executable `rootOf`
answers (the ultimate non-typedef target). -/
theorem root_is_ultimate_target {p : GProg} {t r : LType} :
    (IsRoot p t r → ∀ r', IsRoot p t r' → r = r') ∧
    (IsRoot p t r → ∀ m n target, r = .named m n → lookupType p m n ≠ some (.typedef target)) ∧
    (rootOf p t = some r → IsRoot p t r) :=
  ⟨fun h _ h' => h.functional h', fun h => h.not_typedef, rootOf_sound⟩

/-- Permuting the definitions of a file changes no binding: lookups in a map with unique keys
do not depend on the order of entries, and resolution sees the program only through lookups. -/
theorem definition_order_irrelevant :
    (∀ {α β : Type} [DecidableEq α] {l₁ l₂ : List (α × β)}, l₁.Perm l₂ → (l₁.map (·.1)).Nodup →
      ∀ k, alookup k l₁ = alookup k l₂) ∧
    (∀ {p q : GProg}, (∀ m n, lookupType p m n = lookupType q m n) →
      (∀ m n, lookupInclude p m n = lookupInclude q m n) → ∀ m n, resolveType p m n = resolveType q m n) :=
  ⟨fun hp hn k => alookup_perm hp hn k, fun ht hi => resolveType_congr ht hi⟩

/-! ### the stateful linker against the spec -/

/-- **Every type reference is bound as the spec designates**: the spec object `Type.Link`
returns for a type written in module `m` is `resolveExpr`'s answer — in any state, i.e.
whatever has been linked before and in whatever order. -/
theorem link_binds_spec (p : GProg) (fuel m : Nat) (e : TExpr) (σ σ' : St) (lt : LType)
    (h : linkTy fuel p m e σ = .ok (σ', lt)) : resolveExpr p m e = some lt :=
  linkTy_resolves p fuel m e σ σ' lt h

/-- **The linker refines the spec, for every visit order (partial).** After a successful
`compile.Compile` / `CompileWithLinkOrder` under ANY visit orders `o` (and any fuel), every
typedef root the linker has stored is the declarative root. *Partial*: a typedef can also be
left with a nil root — only by re-entrant linking (D10, `link_order_dependent`) — and nothing
is claimed about such a typedef; the linked *values* of constants and defaults are tied to
`castConst` by the correspondence harness (every generated program, every order) and not by
a proof, which would need the static NoConstCycle argument that no constant is read while it
is being linked (the ghost flag `St.reent` marks exactly those reads). Since the repair of D10 a stored nil is no
longer what callers see: `root_answer_refines_spec`. -/
theorem link_refines_spec_partial {pre : Bool} {fuel : Nat} {o : Orders} {src : Program} {c : Compiled}
    (h : compileWith pre fuel o src = .ok c) :
    ∀ m n r, alookup (m, n) c.st.root = some (some r) → IsRoot c.prog (.named m n) r :=
  compile_roots_sound h

/-- **What `RootTypeSpec` answers refines the spec, for every visit order** (the observable form of
the previous theorem, since the repair of finding D10): after a successful compilation under any
visit orders, whatever `RootTypeSpec` answers for a type — the stored root, or for a typedef whose root
was pending the end of the chain of targets — is its declarative root. What remains partial: it may
still answer nil (typedefs that refer to each other directly are rejected by the cycle check; a
typedef of a module that was never linked has no root). -/
theorem root_answer_refines_spec {pre : Bool} {fuel : Nat} {o : Orders} {src : Program} {c : Compiled}
    (h : compileWith pre fuel o src = .ok c) :
    ∀ t r, rootIn c.prog c.st t = some r → IsRoot c.prog t r :=
  fun _ _ hr => rootIn_sound (compile_roots_sound h) hr

/-- **Parent services are bound as the spec designates, for every visit order.** After a
successful compilation every stored `ServiceSpec.Parent` is the service the declared parent
name resolves to (a service of that name in the same file, else the include-qualified one). -/
theorem link_parents_spec {pre : Bool} {fuel : Nat} {o : Orders} {src : Program} {c : Compiled}
    (h : compileWith pre fuel o src = .ok c) :
    ∀ m n pk, alookup (m, n) c.st.vpar = some pk →
      ∃ s pname, lookupService c.prog m n = some s ∧ s.parent = some pname ∧
        resolveService c.prog m pname = some pk :=
  compile_parents_sound h

theorem compileWith_prog {pre : Bool} {fuel : Nat} {o : Orders} {src : Program} {c : Compiled}
    (h : compileWith pre fuel o src = .ok c) : gather src = some c.prog := by
  unfold compileWith at h
  split at h
  · cases h
  · rename_i p hg
    split at h
    · cases h; exact hg
    · cases h
    · cases h

/-- **Order independence of roots (partial).** Two successful compilations of the same source
under any two visit orders (hook or not, any fuel) agree on every typedef root that both
have computed. *Partial* for the same reason: one of them may have left nil (D10). -/
theorem roots_order_independent_partial {pre₁ pre₂ : Bool} {f₁ f₂ : Nat} {o₁ o₂ : Orders} {src : Program}
    {c₁ c₂ : Compiled} (h₁ : compileWith pre₁ f₁ o₁ src = .ok c₁) (h₂ : compileWith pre₂ f₂ o₂ src = .ok c₂)
    {m : Nat} {n : Name} {r₁ r₂ : LType}
    (hr₁ : alookup (m, n) c₁.st.root = some (some r₁)) (hr₂ : alookup (m, n) c₂.st.root = some (some r₂)) :
    r₁ = r₂ := by
  have hp : c₁.prog = c₂.prog := by
    have a := compileWith_prog h₁
    have b := compileWith_prog h₂
    rw [a] at b
    exact Option.some.inj b
  have i₁ := compile_roots_sound h₁ m n r₁ hr₁
  have i₂ := compile_roots_sound h₂ m n r₂ hr₂
  rw [hp] at i₁
  exact i₁.functional i₂

/-- **Order independence of what `RootTypeSpec` answers.** Two successful compilations of the same
source under any two visit orders agree on the root of every type for which both answer. (For the
witness of D10 both answer, and the same: `link_order_dependent`.) -/
theorem root_answers_order_independent {pre₁ pre₂ : Bool} {f₁ f₂ : Nat} {o₁ o₂ : Orders} {src : Program}
    {c₁ c₂ : Compiled} (h₁ : compileWith pre₁ f₁ o₁ src = .ok c₁) (h₂ : compileWith pre₂ f₂ o₂ src = .ok c₂)
    {t r₁ r₂ : LType}
    (hr₁ : rootIn c₁.prog c₁.st t = some r₁) (hr₂ : rootIn c₂.prog c₂.st t = some r₂) : r₁ = r₂ := by
  have hp : c₁.prog = c₂.prog := by
    have a := compileWith_prog h₁
    have b := compileWith_prog h₂
    rw [a] at b
    exact Option.some.inj b
  have i₁ := root_answer_refines_spec h₁ t r₁ hr₁
  have i₂ := root_answer_refines_spec h₂ t r₂ hr₂
  rw [hp] at i₁
  exact i₁.functional i₂

/-- **The witness of finding D10 (repaired): the stored field still depends on the link order, what
`RootTypeSpec` answers does not.** `typedef B A  typedef C B  struct C {1: optional A a}`: in
declaration order `A.root` is the struct `C`; when `B` is linked first, `A.root` is left nil (and
`rootPending` is set) — and `RootTypeSpec(A)` follows the targets and answers `C` in both orders.
Before the repair it answered nil in the second order, and code generation failed on it. -/
theorem link_order_dependent :
    (compile 100 [] progD10).toOption.map (fun c => rootOfTypedef c 0 (nm "A")) =
      some (some (some (.named 0 (nm "C")))) ∧
    (compile 100 [{ types := [nm "B"] }] progD10).toOption.map (fun c => rootOfTypedef c 0 (nm "A")) =
      some (some none) ∧
    (compile 100 [] progD10).toOption.map (fun c => rootSeenOfTypedef c 0 (nm "A")) =
      some (some (.named 0 (nm "C"))) ∧
    (compile 100 [{ types := [nm "B"] }] progD10).toOption.map (fun c => rootSeenOfTypedef c 0 (nm "A")) =
      some (some (.named 0 (nm "C"))) := by
  refine ⟨?_, ?_, ?_, ?_⟩ <;> decide +kernel

/-- **Negation on the pinned tree (D50): whether the program is accepted depends on the link
order.** `struct S {1: optional T t; 2: optional E e = 1}  struct T {1: optional S s = {}}
enum E {X = 1}` is rejected when `S` is linked first and accepted when `T` is. -/
theorem acceptance_order_dependent :
    (compile 100 [{ types := [nm "S"] }] progD50).isOk = false ∧
    (compile 100 [{ types := [nm "T"] }] progD50).isOk = true := by
  constructor <;> rfl

/-- **Regression witness (D17, repaired): an enum item is cast to the declared type.**
`enum Color {RED = 1}  const string s = Color.RED` is rejected (and so is the same item used
at `i32`): `constantReference.Link` now sends the item through `EnumItemReference.Link`. -/
theorem enum_item_cast :
    (∀ fuel, 30 ≤ fuel → compile fuel [] progD17 = .err) ∧ (∀ fuel, (compile fuel [] progD17).isOk = false) :=
  rejected_of_err err_D17

/-! Non-vacuity: a two-file program with an include-qualified reference, a local dotted name
shadowing it, and a typedef chain; all orders agree and the roots are the spec's. -/
def sample : Program := ⟨true, [
  .ok [⟨false, nm "b", some 1⟩] [
    .typedef (nm "X") (.ref (nm "b.T")),            -- bound locally: `b.T` is defined below
    .typedef (nm "Y") (.ref (nm "b.U")),            -- bound in b.thrift
    .struct .struct (nm "b.T") []],
  .ok [] [.typedef (nm "T") (.base 0 .i32), .typedef (nm "U") (.ref (nm "T"))]]⟩

example : (gather sample).map (fun p => (resolveType p 0 (nm "b.T"), resolveType p 0 (nm "b.U"))) =
    some (some (0, nm "b.T"), some (1, nm "U")) := by decide +kernel
example : (compile 100 [] sample).toOption.map (fun c => (rootOfTypedef c 0 (nm "X"), rootOfTypedef c 0 (nm "Y"))) =
    some (some (some (.named 0 (nm "b.T"))), some (some (.base 0 .i32))) := by decide +kernel
example : (compile 100 [{ types := [nm "b.T", nm "Y", nm "X"] }, { types := [nm "U"] }] sample).toOption.map
      (fun c => (rootOfTypedef c 0 (nm "X"), rootOfTypedef c 0 (nm "Y"))) =
    some (some (some (.named 0 (nm "b.T"))), some (some (.base 0 .i32))) := by decide +kernel

end ThriftVerif.Properties.C07
