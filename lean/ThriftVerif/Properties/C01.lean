/-
C01 — Generated types serialize and deserialize exactly per the Thrift schema.

Property theorems only. Model: M-Schema. `toWire`/`encodeS`/`fromWire`/`decodeS` mirror the four
generated methods as the templates structure them; `enc`/`dec` (M-Wire) are the binary format and
its strict decoder — the "reference codec" on the wire side. `decodedV` is the decidable predicate
"value in decoded form" (valid per schema, defaults filled, no NaN, distinct set/map keys).
The *independent schema-driven reference codec* of the property statement lives in the harness
(Go, sharing no code with thriftrw); it judges the implementation directly on every generated input.
Partial: invariance of the deserialisers under permutation of a reference encoding's STRUCT
FIELDS is proved (`field_order_irrelevant`, all three deserialisation paths), and so is invariance
under permutation of the items of a SET and of the entries of a MAP (`set_order_irrelevant`,
`map_order_irrelevant`: the results are `Equals`, for both Go representations); on bytes these
two are exercised by the harness (the theorems are about `FromWire` on wire values); constants are checked by the harness against its own cast
of the IDL literal (no theorem).
-/
import ThriftVerif.Schema.WtProofs
import ThriftVerif.Schema.InvalidProofs
import ThriftVerif.Schema.PermProofs
import ThriftVerif.Schema.PermSets
import ThriftVerif.Schema.PermMaps
import ThriftVerif.Schema.LazyRefine

namespace ThriftVerif.Properties.C01
open ThriftVerif.Wire ThriftVerif.Schema

/-- For every schema (struct-like kinds well-formed, field ids distinct), every type and every
value in decoded form: both serialisers emit exactly the binary encoding of `ToWire`'s wire value;
the wire-level reference decoder reads that encoding back to the same wire value; and both
deserialisers (value path and streaming path) return the original Go value. -/
theorem roundtrip_all_paths_partial (env : Env) (hwf : WFEnv env) (hids : WFIds env) (fuel : Nat) (t : Ty)
    (g : GVal) (w : WValue) (rest : Bytes)
    (hdec : decodedV env fuel t g = true) (htw : toWire env fuel t g = .ok w) :
    encodeS env fuel t g = .ok (opsOfValue w) ∧
    runOps (opsOfValue w) = enc w ∧
    dec (fuelFor (enc w ++ rest)) t.code (enc w ++ rest) = .ok (w, rest) ∧
    fromWire env fuel t w = .ok g ∧
    decodeS env fuel t (enc w ++ rest) = .ok (g, rest) :=
  roundtrip_all_paths env hwf hids fuel t g w rest hdec htw

/-- Serialisation loses nothing: two values in decoded form whose serialised bytes coincide are the
same value — for every schema, type and pair of values. -/
theorem serialisation_injective (env : Env) (hwf : WFEnv env) (hids : WFIds env) (fuel : Nat) (t : Ty)
    (g₁ g₂ : GVal) (w₁ w₂ : WValue)
    (hd₁ : decodedV env fuel t g₁ = true) (hd₂ : decodedV env fuel t g₂ = true)
    (h₁ : toWire env fuel t g₁ = .ok w₁) (h₂ : toWire env fuel t g₂ = .ok w₂)
    (hb : enc w₁ = enc w₂) : g₁ = g₂ := by
  have r₁ := (roundtrip_all_paths_partial env hwf hids fuel t g₁ w₁ [] hd₁ h₁).2.2.2.2
  have r₂ := (roundtrip_all_paths_partial env hwf hids fuel t g₂ w₂ [] hd₂ h₂).2.2.2.2
  rw [hb, r₂] at r₁
  injection r₁ with r₁
  injection r₁ with r₁ _
  exact r₁.symm

/-- A reference encoding may list the fields of a struct in any order: for wire structs whose field
identifiers are pairwise different, `FromWire` returns the same value for every permutation of the
fields — and so do the streaming `Decode` and the lazy value path on the permuted encoding. -/
theorem field_order_irrelevant (env : Env) (fuel : Nat) (n : String)
    (l1 l2 : List (UInt16 × WValue)) (hp : l1.Perm l2)
    (hd : l1.Pairwise (fun a b => a.1 ≠ b.1)) (hwt : (WValue.struct l2).wt = true)
    (g : GVal) (rest : Bytes)
    (h : fromWire env fuel (.struct n) (.struct l1) = .ok g) :
    fromWire env fuel (.struct n) (.struct l2) = .ok g ∧
    decodeS env fuel (.struct n) (enc (.struct l2) ++ rest) = .ok (g, rest) ∧
    valuePath env fuel (.struct n) (enc (.struct l2) ++ rest) = .ok (g, (rest, 0)) := by
  have h2 := fromWire_struct_field_order env fuel n hp hd g h
  have hdec : decode (Ty.struct n).code (enc (.struct l2) ++ rest) = .ok (.struct l2, rest) :=
    dec_enc (.struct l2) rest _ hwt (size_le_fuelFor _ rest)
  exact ⟨h2,
    ThriftVerif.Schema.stream_accepts_what_value_path_accepts env fuel _ (.struct n) _ _ rest g hdec h2,
    lazy_refines_strict env fuel (.struct n) _ _ rest g hdec h2⟩

/-- Non-vacuity: two fields, swapped. -/
example : [((1 : UInt16), WValue.i32 5), (2, WValue.bool true)].Perm [(2, WValue.bool true), (1, WValue.i32 5)] ∧
    [((1 : UInt16), WValue.i32 5), (2, WValue.bool true)].Pairwise (fun a b => a.1 ≠ b.1) :=
  ⟨List.Perm.swap _ _ _, by decide⟩

/-- A reference encoding may list the items of a set in any order: `FromWire` returns `Equals`-equal
values for every permutation of a wire set's items (items converting to pairwise different decoded
values; the result in decoded form) — for Go-map-backed and slice-backed sets alike. -/
theorem set_order_irrelevant (env : Env) (fuel : Nat) (e : Ty) (et : UInt8) (ws ws' : List WValue)
    (hp : ws.Perm ws') (g : GVal)
    (h : fromWire env (fuel + 1) (.set e) (.set et ws) = .ok g)
    (hdec : decodedV env (fuel + 1) (.set e) g = true ∨ g = .nil)
    (hnd : ∀ gs, mapRes (fromWire env fuel e) ws = .ok gs → e.isPrim = true → pairwiseNot keyEq gs = true) :
    ∃ g', fromWire env (fuel + 1) (.set e) (.set et ws') = .ok g' ∧
      equalsG env (fuel + 1) (.set e) g g' = true :=
  fromWire_set_order env fuel e et ws ws' hp g h hdec hnd

/-- … and the entries of a map in any order: `FromWire` returns `Equals`-equal values for every
permutation of a wire map's entries (keys converting to pairwise different decoded values) — for
Go maps and for key-value slices (unhashable keys) alike. -/
theorem map_order_irrelevant (env : Env) (fuel : Nat) (k v : Ty) (kt vt : UInt8)
    (ws ws' : List (WValue × WValue)) (hp : ws.Perm ws') (g : GVal)
    (h : fromWire env (fuel + 1) (.map k v) (.map kt vt ws) = .ok g)
    (hdec : decodedV env (fuel + 1) (.map k v) g = true ∨ g = .nil)
    (hnd : ∀ kvs, mapRes2 (fromWire env fuel k) (fromWire env fuel v) ws = .ok kvs → k.isPrim = true →
      pairwiseNot keyEq (kvs.map (·.1)) = true) :
    ∃ g', fromWire env (fuel + 1) (.map k v) (.map kt vt ws') = .ok g' ∧
      equalsG env (fuel + 1) (.map k v) g g' = true :=
  fromWire_map_order env fuel k v kt vt ws ws' hp g h hdec hnd

/-- Non-vacuity: a set of three strings in two orders. -/
example :
    let ws := [WValue.binary [65], .binary [66], .binary [67]]
    let ws' := [WValue.binary [66], .binary [65], .binary [67]]
    ws'.Perm ws ∧
    (match fromWire {} 3 (.set .string) (.set 11 ws), fromWire {} 3 (.set .string) (.set 11 ws') with
     | .ok g, .ok g' => decodedV {} 3 (.set .string) g && equalsG {} 3 (.set .string) g g'
     | _, _ => false) = true :=
  ⟨List.Perm.swap _ _ _, by decide⟩

/-- What the serialisers emit is well-typed Thrift (every container element has the declared
element type, every length fits 31 bits) with the declared wire type. -/
theorem serialised_is_well_typed (env : Env) (fuel : Nat) (t : Ty) (g : GVal) (w : WValue)
    (hdec : decodedV env fuel t g = true) (htw : toWire env fuel t g = .ok w) :
    w.wt = true ∧ w.tcode = t.code :=
  ⟨toWire_wt env fuel t g w hdec htw, toWire_tcode env fuel t g w htw⟩

/-- Schema-violating values are errors, not encodings — required field unset … -/
theorem required_unset_rejected (tw : Ty → GVal → Res WValue) (en : Ty → GVal → Res (List WriteOp))
    (f : Field) (fs : List Field) (gs : List GVal)
    (hr : f.req = true) (hp : f.ty.isPrim = false) (hl : f.ty.isList = false) :
    toWireFields tw (f :: fs) (.nil :: gs) = .error .bad ∧
    encodeFields en (f :: fs) (.nil :: gs) = .error .bad :=
  ThriftVerif.Schema.required_unset_rejected tw en f fs gs hr hp hl

/-- … union (with at least one declared field — the generated check is omitted for an empty
union) without exactly one member … -/
theorem union_arity_rejected (env : Env) (hwf : WFEnv env) (fuel : Nat) (n : String) (sd : StructDef)
    (gs : List GVal) (ws : List (UInt16 × WValue)) (hfind : env.find n = some sd)
    (hk : sd.kind.arity = some true) (hnonempty : sd.fields.isEmpty = false)
    (hws : toWireFields (toWire env fuel) sd.fields gs = .ok ws) (hne : ws.length ≠ 1) :
    toWire env (fuel + 1) (.struct n) (.struct gs) = .error .bad ∧
    encodeS env (fuel + 1) (.struct n) (.struct gs) = .error .bad :=
  ThriftVerif.Schema.union_arity_rejected env hwf fuel n sd gs ws hfind hk hnonempty hws hne

/-- … nil element inside a container of reference-typed elements (both serialisers). -/
theorem nil_element_rejected (env : Env) (hwf : WFEnv env) (fuel : Nat) (e : Ty) (xs : List GVal)
    (hp : e.isPrim = false) (hx : GVal.nil ∈ xs) :
    (∃ er, toWire env (fuel + 1) (.list e) (.list xs) = .error er) ∧
    (∃ er, encodeS env (fuel + 1) (.list e) (.list xs) = .error er) :=
  ⟨ThriftVerif.Schema.nil_element_rejected env fuel e xs hp hx,
   nil_element_rejected_stream env hwf fuel e xs hp hx⟩

/-- Accessors: an unset optional field reads as its declared default, else the zero value … -/
theorem accessor_unset (sd : StructDef) (idx : Nat) (f : Field) (gs : List GVal)
    (hf : sd.fields[idx]? = some f) (hreq : f.req = false) (hnil : (gs.getD idx .nil).isNil = true) :
    getField sd idx (.struct gs) = some (match f.dflt with | some d => d | none => zeroOf f.ty) :=
  ThriftVerif.Schema.accessor_unset sd idx f gs hf hreq hnil

/-- … a set field as its value; the default constructor holds exactly the declared defaults. -/
theorem accessor_set (sd : StructDef) (idx : Nat) (f : Field) (gs : List GVal)
    (hf : sd.fields[idx]? = some f) (hreq : f.req = false) (hnil : (gs.getD idx .nil).isNil = false) :
    getField sd idx (.struct gs) = some (gs.getD idx .nil) :=
  ThriftVerif.Schema.accessor_set sd idx f gs hf hreq hnil

theorem default_ctor_fields (sd : StructDef) (h : sd.fields.any (·.dflt.isSome) = true) :
    defaultCtor sd = some (.struct (sd.fields.map fun f =>
      f.dflt.getD (if f.req && f.ty.isPrim then zeroOf f.ty else .nil))) :=
  ThriftVerif.Schema.default_ctor_fields sd h

/-- Non-vacuity: a struct with a required i32, a defaulted optional, an absent optional, a
hashable set and an unhashable-key map is in decoded form and serialises. -/
example :
    let env : Env := { structs := [⟨"S", .struct,
      [⟨1, "A", "a", true, false, false, none, .i32⟩,
       ⟨2, "B", "b", false, false, false, some (.i32 7), .i32⟩,
       ⟨3, "C", "c", false, false, false, none, .string⟩,
       ⟨4, "D", "d", false, false, false, none, .set .i64⟩,
       ⟨5, "E", "e", false, false, false, none, .map (.list .i8) .bool⟩]⟩] }
    let g : GVal := .struct [.i32 5, .i32 7, .nil, .set true [.i64 3, .i64 9],
      .map false [(.list [.i8 1], .bool true)]]
    decodedV env 10 (.struct "S") g = true ∧ (toWire env 10 (.struct "S") g).toBool = true := by
  decide

end ThriftVerif.Properties.C01
