/-
C11 — Parser is total and returns a faithful AST with true positions.

Property theorems only. Model: M-Idl (lean/ThriftVerif/Idl): `unquoteSingle/unquoteDouble`
(quote.go), `parseDocstring` (docstring.go), the scanner `lexAll` (lex.rl), the parser `parse`
(thrift.y as goyacc runs it, with `idl.Info.Pos`), `walk` (ast/walk.go). The model follows the
code that exists, so where the code does not do what the property says the full-strength statement
is false of the model; then the `_partial` theorem carries exactly the hypothesis that excludes the
defect and a witness theorem proves the negation of the full statement:

  D18  keyword + newline: position after the newline   D19  constant after `=`/`:` gets that position
  D20  service parent gets the position of `extends`   D61  Info.Pos of a scalar constant = last equal value
  D62  `/**/ … */` swallowed as a docstring            D63  end-of-input error after blanks: column ≤ 0

Repaired in /repo and therefore stated at full strength here (witnesses stay in corpus/C11):
  D16/D66 (b668604)  literals are unquoted one escape sequence at a time
  D65     (587ec42)  raw bytes that are not well-formed UTF-8 are kept

Level: proof, partial. What the theorems do NOT cover (observed by the correspondence harness on
the implementation instead): a general statement that every node position is the true position of
its first token outside D18/D19/D20/D61/D62 (only the token-level theorem `tok_pos_partial` and
the witnesses are proved; the parser-level statement is checked on generated documents);
the grammar-level print/parse round trip (the token-sequence round trip is proved for all token
kinds but doubles, hex integers and '…' literals); Go panics and `strconv.ParseFloat`.
-/
import ThriftVerif.Idl.QuoteProofs
import ThriftVerif.Idl.NumberProofs
import ThriftVerif.Idl.ParserProofs
import ThriftVerif.Idl.FuelProofs
import ThriftVerif.Idl.WalkProofs
import ThriftVerif.Idl.TokenProofs
import ThriftVerif.Idl.RoundTripProofs
import ThriftVerif.Idl.Observe

namespace ThriftVerif.Properties.C11
open ThriftVerif.Idl

/-! ### (a) program xor a non-empty list of errors, positioned on lines of the document -/

/-- `parse` is a total function and its result is EITHER a program OR a list of errors that is
non-empty by its type (`Errors` has a first element) — never both, never neither. The third
constructor of `ParseResult`, the model parser's `outOfFuel`, is impossible: the fuel
(2 · tokens + 2) always suffices (`parse_ne_outOfFuel`: every shift shortens the remaining token
list, every recursive call follows a shift, a nested constant costs two units per bracket). -/
theorem parse_outcome (s : Bytes) :
    (∃ p, parse s = .program p) ∨ (∃ e, parse s = .errors e ∧ e.toList ≠ []) := by
  cases h : parse s with
  | program p => exact Or.inl ⟨p, rfl⟩
  | errors e => exact Or.inr ⟨e, rfl, by simp [Errors.toList]⟩
  | outOfFuel => exact absurd h (parse_ne_outOfFuel s)

/-- Every reported error lies on a line of the document: 1 ≤ line ≤ (number of `\n`) + 1. -/
theorem error_lines_in_doc (s : Bytes) (e : Errors) (h : parse s = .errors e) :
    ∀ p ∈ e.toList, (1 : Int) ≤ p.line ∧ p.line ≤ 1 + (countNL s : Int) :=
  parse_error_lines s e h

/-- … but NOT always at a column of that line (D63): a document that ends after a newline inside
an open struct reports `2:-10`; so "errors are positioned inside the document" is false of the
current code, and `error_lines_in_doc` is the part that holds. -/
theorem error_column_outside_doc_D63 :
    (parse b!"struct A {\n").errorList = [⟨2, -10⟩] := by decide

example : (parse b!"struct A {").errorList = [⟨1, 10⟩] := by decide
example : (parse b!"struct A {}").isProgram = true := by decide

/-! ### (b) literals: quote / unquote -/

/-- `strconv.Unquote` undoes the `"`-printer on EVERY byte string (all escapes the printer uses:
`\\ \" \n \t \r \xHH`). -/
theorem strconv_unquote_quote (s : Bytes) : strconvUnquote (quoteDouble s) = some s :=
  strconvUnquote_quoteDouble s

/-- `UnquoteDoubleQuoted ∘ quoteDouble = id` for EVERY byte string (full strength since the
repair of D16: the literal is rewritten one escape sequence at a time). -/
theorem unquote_quote_double (s : Bytes) : unquoteDouble (quoteDouble s) = some s :=
  unquoteDouble_quoteDouble s

/-- `UnquoteSingleQuoted ∘ quoteSingle = id` for EVERY byte string. -/
theorem unquote_quote_single (s : Bytes) : unquoteSingle (quoteSingle s) = some s :=
  unquoteSingle_quoteSingle s

/-- … and likewise for the printers that escape both quote characters. -/
theorem unquote_quote_double_safe (s : Bytes) : unquoteDouble (quoteDoubleSafe s) = some s :=
  unquoteDouble_quoteDoubleSafe s

theorem unquote_quote_single_safe (s : Bytes) : unquoteSingle (quoteSingleSafe s) = some s :=
  unquoteSingle_quoteSingleSafe s

/-- The former witnesses now read correctly. D16: `"a\\'b"` and `'a\\"b'` (escaped backslash
before the other quote) are the 4-byte strings `a\'b` / `a\"b`. D66: inside '…' a quote written
numerically is that quote. D65: a raw byte 0xFF stays 0xFF. -/
theorem unquote_repaired_D16_D66_D65 :
    unquoteDouble b!"\"a\\\\'b\"" = some b!"a\\'b" ∧ unquoteSingle b!"'a\\\\\"b'" = some b!"a\\\"b" ∧
    unquoteSingle b!"'\\x27'" = some b!"'" ∧ unquoteSingle b!"'\\042'" = some b!"\"" ∧
    unquoteDouble [34, 0xff, 34] = some [0xff] ∧ unquoteSingle [39, 0xc3, 0xa9, 0xc3, 39] = some [0xc3, 0xa9, 0xc3] := by
  decide

example : quoteDouble b!"a\\'b" = b!"\"a\\\\'b\"" ∧ quoteSingle b!"it's" = b!"'it\\'s'" := by decide

/-! ### (c) token positions -/

/-- Scanner bookkeeping is right: a token carries its TRUE position — line = 1 + number of `\n`
before it, column = 1 + bytes since the last of them — PARTIAL: provided no earlier `\n` was
consumed without the `newline` action (`dirty`; only a docstring starting `/**/` does that, D62)
and the token's own chunk (for a keyword: the word and the blanks it absorbs) contains no `\n`
(a keyword directly followed by a newline is D18). -/
theorem tok_pos_partial (s : Bytes) (t : LTok) (ht : t ∈ lexAll s) (hk : t.tok ≠ .eof)
    (hclean : t.dirty = false)
    (hchunk : countNL ((s.drop t.off).take (t.stop - t.off)) = 0) :
    t.pos = lineCol s t.off :=
  (lexAll_good s t ht).2 hk hclean hchunk

/-- The same with a hypothesis on the INPUT only: in a document that contains neither `/**/`
(the D62 shape) nor a backslash directly followed by a newline, every token whose chunk has no
newline (i.e. every token except a keyword directly followed by a newline, D18) carries its true
position. -/
theorem tok_pos_input_partial (s : Bytes) (h1 : ¬ HasEmptyComment s) (h2 : ¬ HasEscapedNewline s)
    (t : LTok) (ht : t ∈ lexAll s) (hk : t.tok ≠ .eof)
    (hchunk : countNL ((s.drop t.off).take (t.stop - t.off)) = 0) :
    t.pos = lineCol s t.off :=
  (lexAll_good s t ht).2 hk (lexAll_clean s h1 h2 t ht) hchunk

/-- Every position the scanner hands out (hence every node and error position) has
1 ≤ line ≤ (number of `\n`) + 1, D18/D62 or not. -/
theorem tok_lines_in_doc (s : Bytes) (t : LTok) (ht : t ∈ lexAll s) :
    (1 : Int) ≤ t.pos.line ∧ t.pos.line ≤ 1 + (countNL s : Int) :=
  (lexAll_good s t ht).1

/-- D18: `typedef⏎ i32 X` — the keyword at 1:1 is reported at 2:-7. -/
theorem keyword_newline_pos_wrong_D18 :
    ((lexAll b!"typedef\n i32 X").map (·.pos)).head? = some ⟨2, -7⟩ ∧
    lineCol b!"typedef\n i32 X" 0 = ⟨1, 1⟩ ∧
    ((parse b!"typedef\n i32 X").defs.map Definition.pos) = [⟨2, -7⟩] := by decide

/-- D18, second effect: the newline absorbed by the keyword counts against the docstring. -/
theorem keyword_newline_drops_doc_D18 :
    (parse b!"/** doc */\nstruct Foo {}").defs.map Definition.doc = [b!"doc"] ∧
    (parse b!"/** doc */\nstruct\nFoo {}").defs.map Definition.doc = [[]] := by decide

/-- D62: in `/**/ a⏎ b */ struct B {}` the text after `/**/` up to the next `*/` becomes a
docstring; its newline is not counted, so `struct` (really at 2:7) is reported at 1:15 — and in
`/**/ struct A {} /* c */ struct B {}` a whole definition disappears. -/
theorem empty_comment_swallows_D62 :
    (parse b!"/**/ a \n b */ struct B {}").defs.map Definition.pos = [⟨1, 15⟩] ∧
    lineCol b!"/**/ a \n b */ struct B {}" 14 = ⟨2, 7⟩ ∧
    (parse b!"/**/ struct A {} /* c */ struct B {}").defs.map Definition.name = [b!"B"] := by decide

example : ((lexAll b!"struct  Foo {\n  1: i32 x }").map fun t => (t.tok, t.dirty, t.off, t.stop, t.pos))[5]? =
    some (.kw .i32, false, 19, 23, ⟨2, 6⟩) ∧ lineCol b!"struct  Foo {\n  1: i32 x }" 19 = ⟨2, 6⟩ := by decide

/-! ### node positions: the three characterised deviations (negations of "every node position is
the true position of its first token") -/

/-- D19: a constant value directly after `=` gets the position of the `=`: in
`const i32 x = 5` the `5` is at 1:15, reported 1:13; a list item is right. -/
theorem const_after_eq_pos_D19 :
    (parse b!"const i32 x = 5").constValuePositions = [⟨1, 13⟩] ∧
    (parse b!"const list<i32> x = [7]").constValuePositions = [⟨1, 19⟩] := by decide

/-- D20: `service A extends B {}` — `B` is at 1:19, its reference is reported at 1:11 (`extends`). -/
theorem service_parent_pos_D20 :
    (parse b!"service A extends B {}").parentPositions = [⟨1, 11⟩] := by decide

/-- D61: `idl.Info.Pos` of a scalar constant is looked up by VALUE: both `5`s report the position
recorded last. -/
theorem equal_constants_pos_D61 :
    (parse b!"const i32 a = 5 const i32 b = 5").constValuePositions = [⟨1, 29⟩, ⟨1, 29⟩] ∧
    (parse b!"const i32 a = 5 const i32 b = 6").constValuePositions = [⟨1, 13⟩, ⟨1, 29⟩] := by decide

/-! ### (d) walk -/

/-- `ast.Walk` is the pre-order traversal of the tree: the node itself with the parent the stack
says, then the walks of its children (all of them, in order) with the node pushed. -/
theorem walk_unfold (ss : List Node) (n : Node) :
    walkFrom ss n = (n, parentOf ss) :: (children n).flatMap (walkFrom (ss ++ [n])) :=
  walkFrom_unfold ss n

/-- The visitor is told the true parent: the root is visited first with no parent, and every
other visit `(c, p)` has `p = some q` with `c` a child of `q`. -/
theorem walk_true_parent (n : Node) :
    (walk n).head? = some (n, none) ∧
    ∀ v ∈ walk n, v = (n, none) ∨ ∃ q, v.2 = some q ∧ v.1 ∈ children q := by
  constructor
  · rw [walk, walkFrom_unfold]; rfl
  · intro v hv
    exact walkFrom_parents _ [] n (Nat.le_refl _) v hv

/-- Every node exactly once: the number of visits is the number of nodes of the program
(counted on the data type, annotations of every node type included). -/
theorem walk_visits_each_node_once (p : Program) : (walk (.program p)).length = sizeProgram p :=
  walkProgram_length p

example : ((walk (.program ((parse b!"struct S { 1: list<i32> (a) xs = [1] (b = 'c') }").defs |> fun ds => ⟨[], ds⟩))).length) = 9 := by
  decide

/-! ### (e) integer literals -/

/-- every int64 written in decimal is read back by the INTCONSTANT action. -/
theorem lexInt_show (i : Int) (lo : -(2 ^ 63 : Int) ≤ i) (hi : i < 2 ^ 63) :
    lexInt (showInt i) = some i :=
  lexInt_showInt i lo hi

/-- … with an explicit `+`, and in `0x` hex; anything from 2^63 up is rejected. -/
theorem lexInt_forms (n : Nat) :
    lexInt (43 :: showNat n) = (if n < 2 ^ 63 then some (n : Int) else none) ∧
    lexInt (showHex n) = (if n < 2 ^ 63 then some (n : Int) else none) ∧
    lexInt (showNat n) = (if n < 2 ^ 63 then some (n : Int) else none) := by
  refine ⟨?_, lexInt_showHex n, lexInt_showNat n⟩
  rw [lexInt_plus, (showNat_spec n).2.2]

example : showInt (-9223372036854775808) = b!"-9223372036854775808" ∧ showHex 255 = b!"0xff" ∧
    lexInt b!"9223372036854775808" = none ∧ lexInt b!"0x7fffffffffffffff" = some 9223372036854775807 := by
  decide

/-! ### (f) print / scan round trip

Proved: the token-sequence round trip for the layout grammar. Missing (PARTIAL): printed doubles,
hex integers and '…' literals as token kinds of that theorem (their single-token facts are
`lexInt_forms`, `unquote_quote_single`); the grammar-level round trip `parse (print ast) = ast`,
which the harness exercises on generated documents (parse(render(ast)) against the printer's tree). -/

/-- Token-sequence round trip. Take any sequence of printed tokens — symbols, identifiers (whatever
the identifier pattern matches entirely and is neither keyword nor reserved word), keywords, int64
in decimal, double-quoted literals of arbitrary bytes — each preceded by any layout from the layout
grammar: blanks, newlines, `#…⏎` and `//…⏎` comments, `/*…*/` comments and docstrings (non-empty
body without `*/`); a word-like token must be followed by a byte that cannot continue it, which
any non-empty layout guarantees. Scanning the rendering yields exactly those tokens, in order, then
end of input — no error, nothing swallowed, whatever the layout. PARTIAL in the token kinds only
(no doubles, hex integers, '…' literals). -/
theorem token_roundtrip_partial (items : List (List SepItem × PTok)) (fin : List SepItem)
    (h : layoutOk items fin = true) :
    (lexAll (render items fin)).map (·.tok) = items.map (fun x => x.2.tok) ++ [.eof] :=
  lexAll_render items fin h

example :
    let items : List (List SepItem × PTok) :=
      [([.block b!"* doc ", .blank 10], .kw .struct), ([.blank 32], .ident b!"S"), ([], .sym 123),
       ([.hash b!" c", .blank 9], .int (-5)), ([], .sym 58), ([.slashes b!"x"], .lit b!"a\\'b"), ([], .sym 125)]
    layoutOk items [.blank 10] = true ∧
    render items [.blank 10] = b!"/** doc */\nstruct S{# c\n\t-5://x\n\"a\\\\'b\"}\n" := by
  decide

/-- The scanner reads back every literal the natural `"`-printer writes as that LITERAL token,
and stops at the closing quote whatever follows. -/
theorem lex_literal_token (s rest : Bytes) :
    tokenRes 34 (quoteBody 34 false s ++ 34 :: rest) =
      .tok (.lit s) ((quoteBody 34 false s).length + 2) 0 :=
  tokenRes_quoteDouble s rest

/-- The scanner reads back every non-negative int64 printed in decimal as that INTCONSTANT, when
the next byte cannot continue a number (not a digit, `.`, `e`, `E`, `x`). -/
theorem lex_int_token (n : Nat) (rest : Bytes) (hn : n < 2 ^ 63) (hstop : numberStop rest = true) :
    numberRes (showNat n ++ rest) 0 = .tok (.int n) (showNat n).length (showNat n).length :=
  numberRes_showNat n rest hn hstop

example : numberStop b!" ;" = true ∧ numberStop b!"e5" = false ∧
    ((lexAll b!"42 \"a\\\\b\"").map (·.tok)) = [.int 42, .lit b!"a\\b", .eof] := by decide

end ThriftVerif.Properties.C11
