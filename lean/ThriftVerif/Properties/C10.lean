/-
C10 — Code generation is deterministic (proof, partial).

Property theorems only. Model: M-Gen Order.lean — a Go map is the list of its entries in an
arbitrary order; the generator's three ways of consuming a map (sort the keys, fold an
insertion-with-conflict, independent writes) are order-independent. The sites where the real
generator ranges over a map are pinned by Facts/ExpectSites.sites_classified (regenerated on every
run with go/types), compile/'s by Facts/ExpectCompile. What the model cannot exhibit — Go's actual
map iteration, text/template's own key ordering, os.WriteFile — is observed: the harness generates
each program N times in fresh processes and under permuted link orders and compares file hashes.
The linker's order dependence (findings D10, D21) is C07's subject and a known finding here.
-/
import ThriftVerif.Gen.Order

namespace ThriftVerif.Properties.C10
open ThriftVerif.Gen

/-- Sorted-key iteration: for EVERY iteration order of the map (every permutation of its
entries) the rendered output is the same. -/
theorem sorted_iteration_order_irrelevant {α β : Type} (le : α → α → Bool) (ho : KeyOrder le)
    (render : α × β → List String) (l₁ l₂ : List (α × β))
    (hp : l₁.Perm l₂) (hd : KeysDistinct l₁) :
    renderSorted le render l₁ = renderSorted le render l₂ :=
  renderSorted_order_irrelevant le ho render l₁ l₂ hp hd

/-- File merging (core generator + plugins): success/failure does not depend on the order … -/
theorem merge_conflict_order_irrelevant {α β : Type} [DecidableEq α] (dest s₁ s₂ : List (α × β))
    (hp : s₁.Perm s₂) : mergeConflict dest s₁ = mergeConflict dest s₂ :=
  mergeConflict_order_irrelevant dest s₁ s₂ hp

/-- … and neither does the resulting set of files. -/
theorem merge_result_order_irrelevant {α β : Type} (dest s₁ s₂ : List (α × β)) (hp : s₁.Perm s₂) :
    ∀ e, e ∈ s₁ ++ dest ↔ e ∈ s₂ ++ dest :=
  ThriftVerif.Gen.merge_result_order_irrelevant dest s₁ s₂ hp

/-- Non-vacuity: the usual order on Nat is a `KeyOrder`; two iteration orders of one map render alike. -/
example : KeyOrder (fun a b : Nat => decide (a ≤ b)) :=
  ⟨fun a b c h1 h2 => by simp at *; omega, fun a b => by simp; omega, fun a b h1 h2 => by simp at *; omega⟩
example : ([(3, "c"), (1, "a")] ++ [(2, "b")] : List (Nat × String)).Perm ([(2, "b")] ++ [(3, "c"), (1, "a")]) ∧
    KeysDistinct ([(3, "c"), (1, "a")] ++ [(2, "b")] : List (Nat × String)) :=
  ⟨List.perm_append_comm, by simp [KeysDistinct]⟩

end ThriftVerif.Properties.C10
