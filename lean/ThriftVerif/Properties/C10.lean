/-
C10 — Code generation is deterministic (proof, partial).

Property theorems only. Model: M-Gen Order.lean — a Go map is the list of its entries in an
arbitrary order; the generator's three ways of consuming a map (sort the keys, fold an
insertion-with-conflict, independent writes) are order-independent. The sites where the real
generator ranges over a map are pinned by Facts/ExpectSites.sites_classified (regenerated on every
run with go/types), compile/'s by Facts/ExpectCompile. What the model cannot exhibit — Go's actual
map iteration, text/template's own key ordering, os.WriteFile — is observed: the harness generates
each program N times in fresh processes and under permuted link orders and compares file hashes.
The order of the walk over the include graph (finding D93, repaired) is Gen/WalkOrder.lean, tied to the
code by the fact walk_order_fixed. The linker's order dependence (finding D21) is C07's subject and a known finding here.
-/
import ThriftVerif.Gen.Order
import ThriftVerif.Gen.WalkOrder

namespace ThriftVerif.Properties.C10
open ThriftVerif.Gen

/-- Sorted-key iteration: for EVERY iteration order of the map (every permutation of its
entries) the rendered output is the same. -/
theorem sorted_iteration_order_irrelevant {α β : Type} (le : α → α → Bool) (ho : KeyOrder le)
    (render : α × β → List String) (l₁ l₂ : List (α × β))
    (hp : l₁.Perm l₂) (hd : KeysDistinct l₁) :
    renderSorted le render l₁ = renderSorted le render l₂ :=
  renderSorted_order_irrelevant le ho render l₁ l₂ hp hd

/-- File merging (core generator + plugins): success/failure does not depend on the order … -/
theorem merge_conflict_order_irrelevant {α β : Type} [DecidableEq α] (dest s₁ s₂ : List (α × β))
    (hp : s₁.Perm s₂) : mergeConflict dest s₁ = mergeConflict dest s₂ :=
  mergeConflict_order_irrelevant dest s₁ s₂ hp

/-- … and neither does the resulting set of files. -/
theorem merge_result_order_irrelevant {α β : Type} (dest s₁ s₂ : List (α × β)) (hp : s₁.Perm s₂) :
    ∀ e, e ∈ s₁ ++ dest ↔ e ∈ s₂ ++ dest :=
  ThriftVerif.Gen.merge_result_order_irrelevant dest s₁ s₂ hp

/-- **The walk over the include graph does not depend on map iteration.** `Module.Walk` (since the
repair of finding D93) appends the includes of a module in the order of their names; for every pair of
iteration orders of every `Includes` map the modules are visited in the same order — and so are numbered
alike by the plugin request builder. -/
theorem walk_order_irrelevant {α : Type} (le : α → α → Bool) (ho : KeyOrder le) (incl₁ incl₂ : Nat → List (α × Nat))
    (hp : ∀ m, (incl₁ m).Perm (incl₂ m)) (hd : ∀ m, KeysDistinct (incl₁ m)) (fuel : Nat) (q visited : List Nat) :
    walkSorted le incl₁ fuel q visited = walkSorted le incl₂ fuel q visited :=
  walkSorted_order_irrelevant le ho incl₁ incl₂ hp hd fuel q visited

/-- **The root services of the plugin request are the same LIST, order included**, for every iteration
order of the `Includes` and `Services` maps (the property allows the numbering of ids to differ between
runs, nothing else). -/
theorem root_services_order_irrelevant {α : Type} (le : α → α → Bool) (ho : KeyOrder le)
    (incl₁ incl₂ : Nat → List (α × Nat)) (svcs₁ svcs₂ : Nat → List (α × Unit))
    (hp : ∀ m, (incl₁ m).Perm (incl₂ m)) (hd : ∀ m, KeysDistinct (incl₁ m))
    (hps : ∀ m, (svcs₁ m).Perm (svcs₂ m)) (hds : ∀ m, KeysDistinct (svcs₁ m)) (fuel root : Nat) :
    rootServices le incl₁ svcs₁ fuel root = rootServices le incl₂ svcs₂ fuel root :=
  rootServices_order_irrelevant le ho incl₁ incl₂ svcs₁ svcs₂ hp hd hps hds fuel root

theorem natKeyOrder : KeyOrder (fun a b : Nat => decide (a ≤ b)) :=
  ⟨fun a b c h1 h2 => by simp at *; omega, fun a b => by simp; omega, fun a b h1 h2 => by simp at *; omega⟩

/-- **Witness (D93, repaired): the walk as it was depended on the iteration order.** A root that includes
`a ↦ 1` and `b ↦ 2`: yielded as a, b the modules are visited 0, 1, 2; yielded as b, a they are visited
0, 2, 1 — the same map. The repaired walk visits them in one order for both (by the theorem above, whose
hypotheses this instance meets). -/
theorem old_walk_order_dependent :
    let i₁ : Nat → List (Nat × Nat) := fun m => if m = 0 then [(10, 1), (20, 2)] else []
    let i₂ : Nat → List (Nat × Nat) := fun m => if m = 0 then [(20, 2), (10, 1)] else []
    (∀ m, (i₁ m).Perm (i₂ m)) ∧ (∀ m, KeysDistinct (i₁ m)) ∧
    walkUnsorted i₁ 5 [0] [] = [0, 1, 2] ∧ walkUnsorted i₂ 5 [0] [] = [0, 2, 1] ∧
    walkSorted (fun a b => decide (a ≤ b)) i₁ 5 [0] [] = walkSorted (fun a b => decide (a ≤ b)) i₂ 5 [0] [] := by
  intro i₁ i₂
  have hp : ∀ m, (i₁ m).Perm (i₂ m) := by
    intro m
    by_cases h : m = 0
    · simp only [i₁, i₂, h, if_true]; exact List.Perm.swap _ _ _
    · simp [i₁, i₂, h]
  have hd : ∀ m, KeysDistinct (i₁ m) := by
    intro m
    by_cases h : m = 0
    · simp [i₁, h, KeysDistinct]
    · simp [i₁, h, KeysDistinct]
  exact ⟨hp, hd, by decide, by decide, walkSorted_order_irrelevant _ natKeyOrder i₁ i₂ hp hd 5 [0] []⟩

/-- Non-vacuity: the usual order on Nat is a `KeyOrder`; two iteration orders of one map render alike. -/
example : KeyOrder (fun a b : Nat => decide (a ≤ b)) := natKeyOrder
example : ([(3, "c"), (1, "a")] ++ [(2, "b")] : List (Nat × String)).Perm ([(2, "b")] ++ [(3, "c"), (1, "a")]) ∧
    KeysDistinct ([(3, "c"), (1, "a")] ++ [(2, "b")] : List (Nat × String)) :=
  ⟨List.perm_append_comm, by simp [KeysDistinct]⟩

end ThriftVerif.Properties.C10
