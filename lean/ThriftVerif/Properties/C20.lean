/-
C20 — thriftbreak flags exactly the documented breaking changes.

Property theorems only. Model: M-Break (`ThriftVerif/Break/Model.lean`): `compareModules`
≙ compare.Pass.CompareModules on summaries of two compiled modules, `run` ≙ the loop of
git.Compare over the changed-file list + main.go's exit status. "required" is thriftrw's
effective requiredness (`FieldSpec.Required`: declared required and no default).

Three behaviours of the current code keep clauses of the property from holding at full
strength; the model reproduces them, each has a `…_counterexample` proved on a concrete
witness and the clause is stated as `…_partial` under exactly the excluding hypothesis:

  D30  a commit for which go-git reports a *rename* (or pairs an unrelated deleted file with
       an added one) makes git.Compare compile the old path in the new tree: the run aborts,
       exit 1, nothing printed (`NoAbort` excludes it) — affects every `…_flagged` clause and
       `exit_nonzero_iff_nonempty`;
  D31  "deleting service" / "removing method" diagnostics carry only the base name of the
       file (`c.file = [x]`, a file in the repository root, excludes it);
  D32  is about `Type.ThriftName()` (x.Foo and y.Foo have the same name); the model works on
       ThriftNames, so it is outside these theorems and is observed by the harness oracle.
-/
import ThriftVerif.Break.FlagProofs
import ThriftVerif.Break.SilentProofs
import ThriftVerif.Break.OrderProofs

namespace ThriftVerif.Properties.C20
open ThriftVerif.Break

variable {o : Path → Orders} {old new : Tree} {cs : List Change} {c : Change} {frm to : Module}

/-! ### every documented breaking edit is flagged -/

/-- A service of a changed (or deleted) file that is absent from the version it is compared with is
reported, for that file. PARTIAL: only when the run is not aborted (D30) and the file lies in the
repository root (D31); `removed_service_flagged_basename` says what is reported otherwise. -/
theorem removed_service_flagged_partial (hna : NoAbort old new cs) (hc : c ∈ cs)
    (hfrm : lookupModule old c.file = some frm) (hto : toModule new c = some to)
    {n : String} {s : Service} (hn : n ∈ (o c.file).services) (hs : lookupSvc frm.services n = some s)
    (hgone : lookupSvc to.services n = none) {x : String} (hroot : c.file = [x]) :
    ∃ ds, run o old new cs = some ds ∧ Diag.deletedService c.file n ∈ ds := by
  have hd := compareModules_deletedService (o := o c.file) hn hs hgone
  rw [(lookupModule_some hfrm).2, hroot, baseName_root, ← hroot] at hd
  exact run_reports hna hc hfrm hto hd

/-- … in general the diagnostic names the base name of the file. -/
theorem removed_service_flagged_basename (hna : NoAbort old new cs) (hc : c ∈ cs)
    (hfrm : lookupModule old c.file = some frm) (hto : toModule new c = some to)
    {n : String} {s : Service} (hn : n ∈ (o c.file).services) (hs : lookupSvc frm.services n = some s)
    (hgone : lookupSvc to.services n = none) :
    ∃ ds, run o old new cs = some ds ∧ Diag.deletedService (baseName c.file) n ∈ ds := by
  have hd := compareModules_deletedService (o := o c.file) hn hs hgone
  rw [(lookupModule_some hfrm).2] at hd
  exact run_reports hna hc hfrm hto hd

/-- A function of a surviving service that is absent from the new version is reported, for that
file. PARTIAL: as `removed_service_flagged_partial` (D30, D31). -/
theorem removed_method_flagged_partial (hna : NoAbort old new cs) (hc : c ∈ cs)
    (hfrm : lookupModule old c.file = some frm) (hto : toModule new c = some to)
    {n fn : String} {s t : Service} (hn : n ∈ (o c.file).services) (hs : lookupSvc frm.services n = some s)
    (ht : lookupSvc to.services n = some t) (hfn : fn ∈ s.functions) (hord : fn ∈ (o c.file).functions n)
    (hgone : fn ∉ t.functions) {x : String} (hroot : c.file = [x]) :
    ∃ ds, run o old new cs = some ds ∧ Diag.removedMethod c.file n fn ∈ ds := by
  have hd := compareModules_removedMethod (o := o c.file) hn hs ht hfn hord hgone
  rw [(lookupModule_some hfrm).2, hroot, baseName_root, ← hroot] at hd
  exact run_reports hna hc hfrm hto hd

theorem removed_method_flagged_basename (hna : NoAbort old new cs) (hc : c ∈ cs)
    (hfrm : lookupModule old c.file = some frm) (hto : toModule new c = some to)
    {n fn : String} {s t : Service} (hn : n ∈ (o c.file).services) (hs : lookupSvc frm.services n = some s)
    (ht : lookupSvc to.services n = some t) (hfn : fn ∈ s.functions) (hord : fn ∈ (o c.file).functions n)
    (hgone : fn ∉ t.functions) :
    ∃ ds, run o old new cs = some ds ∧ Diag.removedMethod (baseName c.file) n fn ∈ ds := by
  have hd := compareModules_removedMethod (o := o c.file) hn hs ht hfn hord hgone
  rw [(lookupModule_some hfrm).2] at hd
  exact run_reports hna hc hfrm hto hd

/-- A field of the new version of an existing struct whose id is new and which is (effectively)
required is reported, with the file's path. PARTIAL: only when the run is not aborted (D30). -/
theorem added_required_flagged_partial (hna : NoAbort old new cs) (hc : c ∈ cs)
    (hfrm : lookupModule old c.file = some frm) (hto : toModule new c = some to)
    {n : String} {s t : Struct} {x : Field} (hn : n ∈ (o c.file).types)
    (hs : lookupStruct frm.structs n = some s) (ht : lookupStruct to.structs n = some t)
    (hx : x ∈ t.fields) (hreq : x.required = true) (hnew : ∀ f ∈ s.fields, f.id ≠ x.id) :
    ∃ ds, run o old new cs = some ds ∧ Diag.addedRequired c.file n x.name ∈ ds := by
  have hd := compareModules_addedRequired (o := o c.file) hn hs ht hx hreq hnew
  rw [(lookupModule_some hfrm).2] at hd
  exact run_reports hna hc hfrm hto hd

/-- (`optional_to_required_flagged`; the name is abbreviated so that `#print axioms` output stays on
one line for bin/check's parser.) A field (same id) that was effectively optional and is
effectively required is reported. PARTIAL: only when the run is not aborted (D30). -/
theorem opt_to_required_flagged_partial (hna : NoAbort old new cs) (hc : c ∈ cs)
    (hfrm : lookupModule old c.file = some frm) (hto : toModule new c = some to)
    {n : String} {s t : Struct} {f x : Field} (hn : n ∈ (o c.file).types)
    (hs : lookupStruct frm.structs n = some s) (ht : lookupStruct to.structs n = some t) (hwf : s.wf)
    (hf : f ∈ s.fields) (hx : x ∈ t.fields) (hid : f.id = x.id)
    (hopt : f.required = false) (hreq : x.required = true) :
    ∃ ds, run o old new cs = some ds ∧ Diag.optToRequired c.file n x.name ∈ ds := by
  have hd := compareModules_optToRequired (o := o c.file) hn hs ht hwf hf hx hid hopt hreq
  rw [(lookupModule_some hfrm).2] at hd
  exact run_reports hna hc hfrm hto hd

/-- A field (same id) whose type's ThriftName changed is reported, with both names.
PARTIAL: only when the run is not aborted (D30). -/
theorem type_name_change_flagged_partial (hna : NoAbort old new cs) (hc : c ∈ cs)
    (hfrm : lookupModule old c.file = some frm) (hto : toModule new c = some to)
    {n : String} {s t : Struct} {f x : Field} (hn : n ∈ (o c.file).types)
    (hs : lookupStruct frm.structs n = some s) (ht : lookupStruct to.structs n = some t) (hwf : s.wf)
    (hf : f ∈ s.fields) (hx : x ∈ t.fields) (hid : f.id = x.id) (hty : f.type ≠ x.type) :
    ∃ ds, run o old new cs = some ds ∧ Diag.typeChanged c.file n x.name f.type x.type ∈ ds := by
  have hd := compareModules_typeChanged (o := o c.file) hn hs ht hwf hf hx hid hty
  rw [(lookupModule_some hfrm).2] at hd
  exact run_reports hna hc hfrm hto hd

/-! ### witnesses -/

def wOrders : Path → Orders := fun _ => ⟨["Gone", "Svc"], ["S"], fun _ => ["m2", "m1"]⟩
def wS : Struct := ⟨"S", [⟨1, "a", false, "string"⟩, ⟨2, "b", false, "i32"⟩]⟩
def wS' : Struct := ⟨"S", [⟨1, "a", true, "string"⟩, ⟨2, "b", false, "i64"⟩, ⟨4, "n", true, "i32"⟩, ⟨5, "d", false, "i32"⟩]⟩
def wOld (p : Path) : Module := { path := p, services := [⟨"Svc", ["m1", "m2"]⟩, ⟨"Gone", []⟩], structs := [wS] }
def wNew (p : Path) : Module := { path := p, services := [⟨"Svc", ["m1"]⟩], structs := [wS'] }

/-- Non-vacuity: in the repository root all five diagnostics appear, attributed to the file. -/
example : run wOrders [wOld ["a.thrift"]] [wNew ["a.thrift"]] [⟨["a.thrift"], .modify⟩] =
    some [.deletedService ["a.thrift"] "Gone", .removedMethod ["a.thrift"] "Svc" "m2",
          .optToRequired ["a.thrift"] "S" "a", .typeChanged ["a.thrift"] "S" "b" "i32" "i64",
          .addedRequired ["a.thrift"] "S" "n"] := by decide

/-- D31: for a file in a sub-directory the full-strength attribution clause fails: the deleted
service and the removed method are reported for `a.thrift`, not for `sub/a.thrift` (while the
struct diagnostics of the same run carry `sub/a.thrift`). -/
theorem removed_service_flagged_counterexample :
    let r := run wOrders [wOld ["sub", "a.thrift"]] [wNew ["sub", "a.thrift"]] [⟨["sub", "a.thrift"], .modify⟩]
    Diag.deletedService ["sub", "a.thrift"] "Gone" ∉ printed r ∧
    Diag.deletedService ["a.thrift"] "Gone" ∈ printed r ∧
    Diag.addedRequired ["sub", "a.thrift"] "S" "n" ∈ printed r := by decide

theorem removed_method_flagged_counterexample :
    let r := run wOrders [wOld ["sub", "a.thrift"]] [wNew ["sub", "a.thrift"]] [⟨["sub", "a.thrift"], .modify⟩]
    Diag.removedMethod ["sub", "a.thrift"] "Svc" "m2" ∉ printed r ∧
    Diag.removedMethod ["a.thrift"] "Svc" "m2" ∈ printed r := by decide

/-- D30: `a.thrift` loses a service, a method and gains required fields, `z.thrift` is renamed to
`y.thrift` in the same commit (change `modify z.thrift`, as go-git reports it): the run aborts,
nothing at all is reported, and the exit status is 1. -/
theorem flagged_counterexample_rename :
    let r := run wOrders [wOld ["a.thrift"], wOld ["z.thrift"]] [wNew ["a.thrift"], wOld ["y.thrift"]]
      [⟨["a.thrift"], .modify⟩, ⟨["z.thrift"], .modify⟩]
    r = none ∧ printed r = [] ∧ exitCode r = 1 := by decide

/-! ### compatible versions are silent -/

/-- Identical versions of a file produce no diagnostic, for every visit order. -/
theorem identical_silent (ord : Orders) (m : Module) (hwf : m.wf) : compareModules ord m m = [] :=
  compareModules_self hwf.2.2

/-- … and a commit that only touches comments / spacing of any number of files prints nothing
and succeeds. -/
theorem identical_silent_run {t : Tree} (hwf : ∀ m ∈ t, m.wf)
    (hmod : ∀ c ∈ cs, c.action = .modify ∧ (lookupModule t c.file).isSome = true) :
    run o t t cs = some [] ∧ exitCode (run o t t cs) = 0 := by
  have := run_identical (o := o) (fun m hm => (hwf m hm).2.2) hmod
  rw [this]; exact ⟨rfl, rfl⟩

example : compareModules (wOrders []) (wOld ["a.thrift"]) (wOld ["a.thrift"]) = [] := by decide

/-- Additive edits, in any combination (and together with removals of fields / structs): if every
old service keeps its functions and every surviving struct has only unchanged old fields and
optional fields with new ids, nothing is reported. -/
theorem additive_silent (ord : Orders) (frm to : Module) (hwf : frm.wf) (h : Extends frm to) :
    compareModules ord frm to = [] := compareModules_extends hwf.2.2 h

theorem additive_silent_optional_field (ord : Orders) (m : Module) (hwf : m.wf) (sn : String) (x : Field)
    (hopt : x.required = false) (hnew : ∀ s ∈ m.structs, s.name = sn → ∀ f ∈ s.fields, f.id ≠ x.id) :
    compareModules ord m (addField m sn x) = [] :=
  compareModules_extends hwf.2.2 (extends_addField hopt hnew)

theorem additive_silent_method (ord : Orders) (m : Module) (hwf : m.wf) (svc fn : String) :
    compareModules ord m (addMethod m svc fn) = [] := compareModules_extends hwf.2.2 extends_addMethod

theorem additive_silent_service (ord : Orders) (m : Module) (hwf : m.wf) (s : Service) :
    compareModules ord m (addService m s) = [] := compareModules_extends hwf.2.2 extends_addService

/-- a new struct / union / exception (required fields included) -/
theorem additive_silent_type (ord : Orders) (m : Module) (hwf : m.wf) (s : Struct) :
    compareModules ord m (addStruct m s) = [] := compareModules_extends hwf.2.2 extends_addStruct

/-- a new enum / typedef -/
theorem additive_silent_other_type (ord : Orders) (m : Module) (hwf : m.wf) (n : String) :
    compareModules ord m (addOtherType m n) = [] := compareModules_self (m := m) hwf.2.2

theorem additive_silent_constant (ord : Orders) (m : Module) (hwf : m.wf) (n : String) :
    compareModules ord m (addConstant m n) = [] := compareModules_self (m := m) hwf.2.2

/-- a new file: it is not in the change list, and the run is the same with or without it -/
theorem additive_silent_file (m : Module) (hnot : ∀ c ∈ cs, c.file ≠ m.path) :
    run o old (new ++ [m]) cs = run o old new cs := run_addFile hnot

example : compareModules (wOrders []) (wOld ["a.thrift"])
    (addStruct (addService (addMethod (addField (wOld ["a.thrift"]) "S" ⟨9, "z", false, "St"⟩) "Svc" "m9")
      ⟨"New", ["x"]⟩) ⟨"T", [⟨1, "r", true, "i32"⟩]⟩) = [] := by decide
example : (addField (wOld ["a.thrift"]) "S" ⟨9, "z", false, "St"⟩).structs =
    [⟨"S", [⟨1, "a", false, "string"⟩, ⟨2, "b", false, "i32"⟩, ⟨9, "z", false, "St"⟩]⟩] := by decide

/-! ### order independence -/

/-- The diagnostics of a file pair are the same multiset for every visit order of the three maps
compare.go ranges over and every order of the definitions in the two module summaries. -/
theorem order_independent {ord ord' : Orders} {frm frm' to to' : Module} (ho : ord.Equiv ord')
    (hf : frm.Equiv frm') (ht : to.Equiv to') (hfn : NodupNames frm) (htn : NodupNames to) :
    (compareModules ord frm to).Perm (compareModules ord' frm' to') :=
  compareModules_perm ho hf ht hfn htn

/-- … in particular the diagnostic *set* is the same. -/
theorem order_independent_set {ord ord' : Orders} {frm frm' to to' : Module} (ho : ord.Equiv ord')
    (hf : frm.Equiv frm') (ht : to.Equiv to') (hfn : NodupNames frm) (htn : NodupNames to) (d : Diag) :
    d ∈ compareModules ord frm to ↔ d ∈ compareModules ord' frm' to' :=
  (compareModules_perm ho hf ht hfn htn).mem_iff

/-- … and so is the order of fields inside the two versions of a struct. -/
theorem order_independent_fields {file : Path} {sn : String} {fromFs fromFs' toFs toFs' : List Field}
    (hf : fromFs.Perm fromFs') (hnd : (fromFs.map (·.id)).Nodup) (ht : toFs.Perm toFs') :
    (compareFields file sn fromFs toFs).Perm (compareFields file sn fromFs' toFs') :=
  compareFields_perm hf hnd ht

/-- The whole run: permuting the change list, the files of either tree and every visit order
changes neither whether the run aborts nor the multiset of printed diagnostics. -/
theorem order_independent_run {o' : Path → Orders} {old' new' : Tree} {cs' : List Change}
    (ho : ∀ p, (o p).Equiv (o' p)) (hold : old.Perm old') (hnew : new.Perm new') (hcs : cs.Perm cs')
    (holdn : (old.map (·.path)).Nodup) (hnewn : (new.map (·.path)).Nodup)
    (holdw : ∀ m ∈ old, NodupNames m) (hneww : ∀ m ∈ new, NodupNames m) :
    ResPerm (run o old new cs) (run o' old' new' cs') :=
  run_perm ho hold hnew hcs holdn hnewn holdw hneww

example : compareModules ⟨["Svc", "Gone"], ["S"], fun _ => ["m1", "m2"]⟩ (wOld ["a.thrift"]) (wNew ["a.thrift"]) ≠
    compareModules (wOrders []) (wOld ["a.thrift"]) (wNew ["a.thrift"]) := by decide

/-! ### exit status -/

/-- thriftbreak exits non-zero exactly when it printed at least one diagnostic.
PARTIAL: only when the run is not aborted (D30). -/
theorem exit_nonzero_iff_nonempty_partial (hna : NoAbort old new cs) :
    exitCode (run o old new cs) ≠ 0 ↔ printed (run o old new cs) ≠ [] := by
  rw [run_of_noAbort hna]
  cases cs.flatMap (fileDiags o old new) <;> simp [exitCode, printed]

/-- D30: a commit that only renames a file exits 1 having printed nothing. -/
theorem exit_nonzero_iff_nonempty_counterexample :
    let r := run wOrders [wOld ["z.thrift"]] [wOld ["y.thrift"]] [⟨["z.thrift"], .modify⟩]
    exitCode r ≠ 0 ∧ printed r = [] := by decide

/-- The run aborts exactly when some compile of the loop fails. -/
theorem aborts_iff : run o old new cs = none ↔ ¬ NoAbort old new cs := by
  constructor
  · intro h hna; rw [run_of_noAbort hna] at h; exact absurd h (by simp)
  · exact run_none_of_abort

end ThriftVerif.Properties.C20
