/-
C20 — thriftbreak flags exactly the documented breaking changes.

Property theorems only. Model: M-Break (`ThriftVerif/Break/Model.lean`): `compareModules`
≙ compare.Pass.CompareModules on summaries of two compiled modules, `thriftbreak` ≙
findChangedThrift's conversion of go-git's tree diff + the loop of git.Compare + main.go's exit
status. "required" is thriftrw's effective requiredness (`FieldSpec.Required`: declared required
and no default).

`Snapshot old new diff` is the input domain of the property — the diff is a diff of two committed
trees whose .thrift files compile — not a restriction.

History of the clauses that did not hold of the code as found:
  D30  (fixed, /repo 623e258) a rename — or an unrelated deleted file go-git pairs with an added
       one — was compiled under its old path in the new tree: the run aborted, exit 1, nothing
       printed. `changeOf` now models the repaired conversion (the old path was deleted);
       `never_aborts` and `rename_reported_as_deletion` are the regression theorems;
  D35  (fixed, /repo 6601ea9) "removing method" carried only the base name of the file;
  D31  (known; pinned by internal/git/git_test.go) "deleting service" still carries only the base
       name: `removed_service_flagged_partial` holds for files in the repository root,
       `removed_service_flagged_basename` says what is reported otherwise, with a counterexample;
  D32  (known) is about `Type.ThriftName()` (x.Foo and y.Foo have the same name); the model works
       on ThriftNames, so it is outside these theorems and is observed by the harness oracle.
-/
import ThriftVerif.Break.FlagProofs
import ThriftVerif.Break.SilentProofs
import ThriftVerif.Break.OrderProofs

namespace ThriftVerif.Properties.C20
open ThriftVerif.Break

variable {o : Path → Orders} {old new : Tree} {diff : List DiffEntry} {e : DiffEntry} {frm to : Module}

/-! ### every documented breaking edit is flagged

In each clause `e` is an entry of the tree diff (a changed, deleted or renamed file), `frm` the old
version of that file and `to` what it is compared with (`toModule`: the new version of a file that
kept its name, the empty module for a deleted or renamed one). -/

/-- A service of the old version that is absent from the compared version is reported, for that
file. PARTIAL (D31): only for a file in the repository root; see the `_basename` version. -/
theorem removed_service_flagged_partial (hsn : Snapshot old new diff) (he : e ∈ diff)
    (hfrm : lookupModule old e.src = some frm) (hto : toModule new (changeOf e) = some to)
    {n : String} {s : Service} (hn : n ∈ (o e.src).services) (hs : lookupSvc frm.services n = some s)
    (hgone : lookupSvc to.services n = none) {x : String} (hroot : e.src = [x]) :
    ∃ ds, thriftbreak o old new diff = some ds ∧ Diag.deletedService e.src n ∈ ds := by
  have hd := compareModules_deletedService (o := o e.src) hn hs hgone
  rw [(lookupModule_some hfrm).2, hroot, baseName_root, ← hroot] at hd
  exact thriftbreak_reports hsn he hfrm hto hd

/-- … in general the diagnostic names the base name of the file. -/
theorem removed_service_flagged_basename (hsn : Snapshot old new diff) (he : e ∈ diff)
    (hfrm : lookupModule old e.src = some frm) (hto : toModule new (changeOf e) = some to)
    {n : String} {s : Service} (hn : n ∈ (o e.src).services) (hs : lookupSvc frm.services n = some s)
    (hgone : lookupSvc to.services n = none) :
    ∃ ds, thriftbreak o old new diff = some ds ∧ Diag.deletedService (baseName e.src) n ∈ ds := by
  have hd := compareModules_deletedService (o := o e.src) hn hs hgone
  rw [(lookupModule_some hfrm).2] at hd
  exact thriftbreak_reports hsn he hfrm hto hd

/-- A function of a surviving service that is absent from the new version is reported, with the
file's path. -/
theorem removed_method_flagged (hsn : Snapshot old new diff) (he : e ∈ diff)
    (hfrm : lookupModule old e.src = some frm) (hto : toModule new (changeOf e) = some to)
    {n fn : String} {s t : Service} (hn : n ∈ (o e.src).services) (hs : lookupSvc frm.services n = some s)
    (ht : lookupSvc to.services n = some t) (hfn : fn ∈ s.functions) (hord : fn ∈ (o e.src).functions n)
    (hgone : fn ∉ t.functions) :
    ∃ ds, thriftbreak o old new diff = some ds ∧ Diag.removedMethod e.src n fn ∈ ds := by
  have hd := compareModules_removedMethod (o := o e.src) hn hs ht hfn hord hgone
  rw [(lookupModule_some hfrm).2] at hd
  exact thriftbreak_reports hsn he hfrm hto hd

/-- A field of the new version of an existing struct whose id is new and which is (effectively)
required is reported, with the file's path. -/
theorem added_required_flagged (hsn : Snapshot old new diff) (he : e ∈ diff)
    (hfrm : lookupModule old e.src = some frm) (hto : toModule new (changeOf e) = some to)
    {n : String} {s t : Struct} {x : Field} (hn : n ∈ (o e.src).types)
    (hs : lookupStruct frm.structs n = some s) (ht : lookupStruct to.structs n = some t)
    (hx : x ∈ t.fields) (hreq : x.required = true) (hnew : ∀ f ∈ s.fields, f.id ≠ x.id) :
    ∃ ds, thriftbreak o old new diff = some ds ∧ Diag.addedRequired e.src n x.name ∈ ds := by
  have hd := compareModules_addedRequired (o := o e.src) hn hs ht hx hreq hnew
  rw [(lookupModule_some hfrm).2] at hd
  exact thriftbreak_reports hsn he hfrm hto hd

/-- A field (same id) that was effectively optional and is effectively required is reported. -/
theorem optional_to_required_flagged (hsn : Snapshot old new diff) (he : e ∈ diff)
    (hfrm : lookupModule old e.src = some frm) (hto : toModule new (changeOf e) = some to)
    {n : String} {s t : Struct} {f x : Field} (hn : n ∈ (o e.src).types)
    (hs : lookupStruct frm.structs n = some s) (ht : lookupStruct to.structs n = some t) (hwf : s.wf)
    (hf : f ∈ s.fields) (hx : x ∈ t.fields) (hid : f.id = x.id)
    (hopt : f.required = false) (hreq : x.required = true) :
    ∃ ds, thriftbreak o old new diff = some ds ∧ Diag.optToRequired e.src n x.name ∈ ds := by
  have hd := compareModules_optToRequired (o := o e.src) hn hs ht hwf hf hx hid hopt hreq
  rw [(lookupModule_some hfrm).2] at hd
  exact thriftbreak_reports hsn he hfrm hto hd

/-- A field (same id) whose type's ThriftName changed is reported, with both names. -/
theorem type_name_change_flagged (hsn : Snapshot old new diff) (he : e ∈ diff)
    (hfrm : lookupModule old e.src = some frm) (hto : toModule new (changeOf e) = some to)
    {n : String} {s t : Struct} {f x : Field} (hn : n ∈ (o e.src).types)
    (hs : lookupStruct frm.structs n = some s) (ht : lookupStruct to.structs n = some t) (hwf : s.wf)
    (hf : f ∈ s.fields) (hx : x ∈ t.fields) (hid : f.id = x.id) (hty : f.type ≠ x.type) :
    ∃ ds, thriftbreak o old new diff = some ds ∧ Diag.typeChanged e.src n x.name f.type x.type ∈ ds := by
  have hd := compareModules_typeChanged (o := o e.src) hn hs ht hwf hf hx hid hty
  rw [(lookupModule_some hfrm).2] at hd
  exact thriftbreak_reports hsn he hfrm hto hd

/-! ### witnesses -/

def wOrders : Path → Orders := fun _ => ⟨["Gone", "Svc"], ["S"], fun _ => ["m2", "m1"]⟩
def wS : Struct := ⟨"S", [⟨1, "a", false, "string"⟩, ⟨2, "b", false, "i32"⟩]⟩
def wS' : Struct := ⟨"S", [⟨1, "a", true, "string"⟩, ⟨2, "b", false, "i64"⟩, ⟨4, "n", true, "i32"⟩, ⟨5, "d", false, "i32"⟩]⟩
def wOld (p : Path) : Module := { path := p, services := [⟨"Svc", ["m1", "m2"]⟩, ⟨"Gone", []⟩], structs := [wS] }
def wNew (p : Path) : Module := { path := p, services := [⟨"Svc", ["m1"]⟩], structs := [wS'] }

/-- Non-vacuity: in the repository root all five diagnostics appear, attributed to the file. -/
example : thriftbreak wOrders [wOld ["a.thrift"]] [wNew ["a.thrift"]] [⟨["a.thrift"], some ["a.thrift"]⟩] =
    some [.deletedService ["a.thrift"] "Gone", .removedMethod ["a.thrift"] "Svc" "m2",
          .optToRequired ["a.thrift"] "S" "a", .typeChanged ["a.thrift"] "S" "b" "i32" "i64",
          .addedRequired ["a.thrift"] "S" "n"] := by decide

/-- D31 (service half, known): for a file in a sub-directory the deleted service is reported for
`a.thrift`, not for `sub/a.thrift`, while the removed method and the struct diagnostics of the
same run carry `sub/a.thrift`. -/
theorem removed_service_flagged_counterexample :
    let r := thriftbreak wOrders [wOld ["sub", "a.thrift"]] [wNew ["sub", "a.thrift"]]
      [⟨["sub", "a.thrift"], some ["sub", "a.thrift"]⟩]
    Diag.deletedService ["sub", "a.thrift"] "Gone" ∉ printed r ∧
    Diag.deletedService ["a.thrift"] "Gone" ∈ printed r ∧
    Diag.removedMethod ["sub", "a.thrift"] "Svc" "m2" ∈ printed r ∧
    Diag.addedRequired ["sub", "a.thrift"] "S" "n" ∈ printed r := by decide

/-- D30 regression witness: `a.thrift` loses a service, a method and gains required fields,
`z.thrift` is renamed to `y.thrift` in the same commit: the diagnostics of `a.thrift` are all
printed and the services of the old path `z.thrift` are reported as deleted. -/
theorem rename_reported_as_deletion :
    thriftbreak wOrders [wOld ["a.thrift"], wOld ["z.thrift"]] [wNew ["a.thrift"], wOld ["y.thrift"]]
      [⟨["a.thrift"], some ["a.thrift"]⟩, ⟨["z.thrift"], some ["y.thrift"]⟩] =
    some [.deletedService ["a.thrift"] "Gone", .removedMethod ["a.thrift"] "Svc" "m2",
          .optToRequired ["a.thrift"] "S" "a", .typeChanged ["a.thrift"] "S" "b" "i32" "i64",
          .addedRequired ["a.thrift"] "S" "n",
          .deletedService ["z.thrift"] "Gone", .deletedService ["z.thrift"] "Svc"] := by decide

/-- Which added file go-git pairs a vanished file with (or none at all) is irrelevant. -/
theorem pairing_irrelevant (p q : Path) (h : q ≠ p) : changeOf ⟨p, some q⟩ = changeOf ⟨p, none⟩ := by
  simp [changeOf, h]

/-- On real inputs the run is never aborted. -/
theorem never_aborts (hsn : Snapshot old new diff) : (thriftbreak o old new diff).isSome = true :=
  run_some_iff_noAbort.2 (noAbort_of_snapshot hsn)

/-! ### compatible versions are silent -/

/-- Identical versions of a file produce no diagnostic, for every visit order. -/
theorem identical_silent (ord : Orders) (m : Module) (hwf : m.wf) : compareModules ord m m = [] :=
  compareModules_self hwf.2.2

/-- … and a commit that only touches comments / spacing of any number of files prints nothing
and succeeds. -/
theorem identical_silent_run {t : Tree} (hwf : ∀ m ∈ t, m.wf)
    (hmod : ∀ e ∈ diff, e.dst = some e.src ∧ (lookupModule t e.src).isSome = true) :
    thriftbreak o t t diff = some [] ∧ exitCode (thriftbreak o t t diff) = 0 := by
  have : thriftbreak o t t diff = some [] := by
    apply run_identical (o := o) (fun m hm => (hwf m hm).2.2)
    intro c hc
    obtain ⟨e, he, rfl⟩ := List.mem_map.1 hc
    obtain ⟨hd, hs⟩ := hmod e he
    simp [changeOf, hd, hs]
  rw [this]; exact ⟨rfl, rfl⟩

example : compareModules (wOrders []) (wOld ["a.thrift"]) (wOld ["a.thrift"]) = [] := by decide

/-- Additive edits, in any combination (and together with removals of fields / structs): if every
old service keeps its functions and every surviving struct has only unchanged old fields and
optional fields with new ids, nothing is reported. -/
theorem additive_silent (ord : Orders) (frm to : Module) (hwf : frm.wf) (h : Extends frm to) :
    compareModules ord frm to = [] := compareModules_extends hwf.2.2 h

theorem additive_silent_optional_field (ord : Orders) (m : Module) (hwf : m.wf) (sn : String) (x : Field)
    (hopt : x.required = false) (hnew : ∀ s ∈ m.structs, s.name = sn → ∀ f ∈ s.fields, f.id ≠ x.id) :
    compareModules ord m (addField m sn x) = [] :=
  compareModules_extends hwf.2.2 (extends_addField hopt hnew)

theorem additive_silent_method (ord : Orders) (m : Module) (hwf : m.wf) (svc fn : String) :
    compareModules ord m (addMethod m svc fn) = [] := compareModules_extends hwf.2.2 extends_addMethod

theorem additive_silent_service (ord : Orders) (m : Module) (hwf : m.wf) (s : Service) :
    compareModules ord m (addService m s) = [] := compareModules_extends hwf.2.2 extends_addService

/-- a new struct / union / exception (required fields included) -/
theorem additive_silent_type (ord : Orders) (m : Module) (hwf : m.wf) (s : Struct) :
    compareModules ord m (addStruct m s) = [] := compareModules_extends hwf.2.2 extends_addStruct

/-- a new enum / typedef -/
theorem additive_silent_other_type (ord : Orders) (m : Module) (hwf : m.wf) (n : String) :
    compareModules ord m (addOtherType m n) = [] := compareModules_self (m := m) hwf.2.2

theorem additive_silent_constant (ord : Orders) (m : Module) (hwf : m.wf) (n : String) :
    compareModules ord m (addConstant m n) = [] := compareModules_self (m := m) hwf.2.2

/-- a new file: it is not in the change list, and the run is the same with or without it -/
theorem additive_silent_file (m : Module) (hnot : ∀ e ∈ diff, e.src ≠ m.path) :
    thriftbreak o old (new ++ [m]) diff = thriftbreak o old new diff := by
  apply run_addFile
  intro c hc
  obtain ⟨e, he, rfl⟩ := List.mem_map.1 hc
  rw [changeOf_file]; exact hnot e he

example : compareModules (wOrders []) (wOld ["a.thrift"])
    (addStruct (addService (addMethod (addField (wOld ["a.thrift"]) "S" ⟨9, "z", false, "St"⟩) "Svc" "m9")
      ⟨"New", ["x"]⟩) ⟨"T", [⟨1, "r", true, "i32"⟩]⟩) = [] := by decide
example : (addField (wOld ["a.thrift"]) "S" ⟨9, "z", false, "St"⟩).structs =
    [⟨"S", [⟨1, "a", false, "string"⟩, ⟨2, "b", false, "i32"⟩, ⟨9, "z", false, "St"⟩]⟩] := by decide

/-! ### order independence -/

/-- The diagnostics of a file pair are the same multiset for every visit order of the three maps
compare.go ranges over and every order of the definitions in the two module summaries. -/
theorem order_independent {ord ord' : Orders} {frm frm' to to' : Module} (ho : ord.Equiv ord')
    (hf : frm.Equiv frm') (ht : to.Equiv to') (hfn : NodupNames frm) (htn : NodupNames to) :
    (compareModules ord frm to).Perm (compareModules ord' frm' to') :=
  compareModules_perm ho hf ht hfn htn

/-- … in particular the diagnostic *set* is the same. -/
theorem order_independent_set {ord ord' : Orders} {frm frm' to to' : Module} (ho : ord.Equiv ord')
    (hf : frm.Equiv frm') (ht : to.Equiv to') (hfn : NodupNames frm) (htn : NodupNames to) (d : Diag) :
    d ∈ compareModules ord frm to ↔ d ∈ compareModules ord' frm' to' :=
  (compareModules_perm ho hf ht hfn htn).mem_iff

/-- … and so is the order of fields inside the two versions of a struct. -/
theorem order_independent_fields {file : Path} {sn : String} {fromFs fromFs' toFs toFs' : List Field}
    (hf : fromFs.Perm fromFs') (hnd : (fromFs.map (·.id)).Nodup) (ht : toFs.Perm toFs') :
    (compareFields file sn fromFs toFs).Perm (compareFields file sn fromFs' toFs') :=
  compareFields_perm hf hnd ht

/-- The whole run: permuting the tree diff, the files of either tree and every visit order changes
neither whether the run succeeds nor the multiset of printed diagnostics. -/
theorem order_independent_run {o' : Path → Orders} {old' new' : Tree} {diff' : List DiffEntry}
    (ho : ∀ p, (o p).Equiv (o' p)) (hold : old.Perm old') (hnew : new.Perm new') (hd : diff.Perm diff')
    (holdn : (old.map (·.path)).Nodup) (hnewn : (new.map (·.path)).Nodup)
    (holdw : ∀ m ∈ old, NodupNames m) (hneww : ∀ m ∈ new, NodupNames m) :
    ResPerm (thriftbreak o old new diff) (thriftbreak o' old' new' diff') :=
  run_perm ho hold hnew (hd.map changeOf) holdn hnewn holdw hneww

example : compareModules ⟨["Svc", "Gone"], ["S"], fun _ => ["m1", "m2"]⟩ (wOld ["a.thrift"]) (wNew ["a.thrift"]) ≠
    compareModules (wOrders []) (wOld ["a.thrift"]) (wNew ["a.thrift"]) := by decide

/-! ### exit status -/

/-- thriftbreak exits non-zero exactly when it printed at least one diagnostic. -/
theorem exit_nonzero_iff_nonempty (hsn : Snapshot old new diff) :
    exitCode (thriftbreak o old new diff) ≠ 0 ↔ printed (thriftbreak o old new diff) ≠ [] := by
  unfold thriftbreak
  rw [run_of_noAbort (noAbort_of_snapshot hsn)]
  cases (diff.map changeOf).flatMap (fileDiags o old new) <;> simp [exitCode, printed]

example : exitCode (thriftbreak wOrders [wOld ["z.thrift"]] [wOld ["y.thrift"]] [⟨["z.thrift"], some ["y.thrift"]⟩]) = 1 ∧
    exitCode (thriftbreak wOrders [wOld ["z.thrift"]] [wOld ["z.thrift"]] [⟨["z.thrift"], some ["z.thrift"]⟩]) = 0 := by decide

/-- The loop itself still aborts when a compile fails (a version that does not compile, outside
the property's domain): exactly then. -/
theorem aborts_iff {cs : List Change} : run o old new cs = none ↔ ¬ NoAbort old new cs := by
  constructor
  · intro h hna; rw [run_of_noAbort hna] at h; exact absurd h (by simp)
  · exact run_none_of_abort

end ThriftVerif.Properties.C20
