/-
Completeness of M-Break: each documented breaking edit yields its diagnostic, for one file
pair (`compareModules`) and for the whole run.
-/
import ThriftVerif.Break.Lemmas

namespace ThriftVerif.Break

/-! ### one file pair -/

theorem compareModules_deletedService {o : Orders} {frm to : Module} {n : String} {s : Service}
    (hn : n ∈ o.services) (hs : lookupSvc frm.services n = some s) (hgone : lookupSvc to.services n = none) :
    Diag.deletedService (baseName frm.path) n ∈ compareModules o frm to := by
  apply mem_compareModules_service hn hs
  have hname := (lookupSvc_some hs).2
  simp [compareService, hname, hgone]

theorem compareModules_removedMethod {o : Orders} {frm to : Module} {n fn : String} {s t : Service}
    (hn : n ∈ o.services) (hs : lookupSvc frm.services n = some s) (ht : lookupSvc to.services n = some t)
    (hfn : fn ∈ s.functions) (hord : fn ∈ o.functions n) (hgone : fn ∉ t.functions) :
    Diag.removedMethod frm.path n fn ∈ compareModules o frm to := by
  apply mem_compareModules_service hn hs
  have hname := (lookupSvc_some hs).2
  simp only [compareService, hname, ht, compareFunctions, List.mem_filterMap, List.mem_filter]
  refine ⟨fn, ⟨hord, by simpa using hfn⟩, ?_⟩
  simp [hgone]

theorem compareModules_addedRequired {o : Orders} {frm to : Module} {n : String} {s t : Struct} {x : Field}
    (hn : n ∈ o.types) (hs : lookupStruct frm.structs n = some s) (ht : lookupStruct to.structs n = some t)
    (hx : x ∈ t.fields) (hreq : x.required = true) (hnew : ∀ f ∈ s.fields, f.id ≠ x.id) :
    Diag.addedRequired frm.path n x.name ∈ compareModules o frm to := by
  apply mem_compareModules_struct hn hs
  have hname := (lookupStruct_some hs).2
  have htname := (lookupStruct_some ht).2
  simp only [compareStruct, hname, ht, compareFields, List.mem_flatMap]
  refine ⟨x, hx, ?_⟩
  simp [compareField, lookupField_none hnew, hreq, htname]

theorem compareModules_optToRequired {o : Orders} {frm to : Module} {n : String} {s t : Struct} {f x : Field}
    (hn : n ∈ o.types) (hs : lookupStruct frm.structs n = some s) (ht : lookupStruct to.structs n = some t)
    (hwf : s.wf) (hf : f ∈ s.fields) (hx : x ∈ t.fields) (hid : f.id = x.id)
    (hopt : f.required = false) (hreq : x.required = true) :
    Diag.optToRequired frm.path n x.name ∈ compareModules o frm to := by
  apply mem_compareModules_struct hn hs
  have hname := (lookupStruct_some hs).2
  have htname := (lookupStruct_some ht).2
  simp only [compareStruct, hname, ht, compareFields, List.mem_flatMap]
  refine ⟨x, hx, ?_⟩
  have hl : lookupField s.fields x.id = some f := hid ▸ lookupField_of_mem hwf hf
  simp [compareField, hl, hopt, hreq, htname]

theorem compareModules_typeChanged {o : Orders} {frm to : Module} {n : String} {s t : Struct} {f x : Field}
    (hn : n ∈ o.types) (hs : lookupStruct frm.structs n = some s) (ht : lookupStruct to.structs n = some t)
    (hwf : s.wf) (hf : f ∈ s.fields) (hx : x ∈ t.fields) (hid : f.id = x.id) (hty : f.type ≠ x.type) :
    Diag.typeChanged frm.path n x.name f.type x.type ∈ compareModules o frm to := by
  apply mem_compareModules_struct hn hs
  have hname := (lookupStruct_some hs).2
  have htname := (lookupStruct_some ht).2
  simp only [compareStruct, hname, ht, compareFields, List.mem_flatMap]
  refine ⟨x, hx, ?_⟩
  have hl : lookupField s.fields x.id = some f := hid ▸ lookupField_of_mem hwf hf
  simp [compareField, hl, hty, htname]

/-! ### the run: a diagnostic of a changed file is printed -/

theorem run_reports {o : Path → Orders} {old new : Tree} {cs : List Change} (hna : NoAbort old new cs)
    {c : Change} {frm to : Module} (hc : c ∈ cs) (hfrm : lookupModule old c.file = some frm)
    (hto : toModule new c = some to) {d : Diag} (hd : d ∈ compareModules (o c.file) frm to) :
    ∃ ds, run o old new cs = some ds ∧ d ∈ ds :=
  ⟨_, run_of_noAbort hna, (mem_run_iff (run_of_noAbort hna)).2 ⟨c, frm, to, hc, hfrm, hto, hd⟩⟩

/-- From the tree diff on: every diagnostic of the comparison of a changed / deleted / renamed
file's old version is printed. -/
theorem thriftbreak_reports {o : Path → Orders} {old new : Tree} {diff : List DiffEntry}
    (hs : Snapshot old new diff) {e : DiffEntry} {frm to : Module} (he : e ∈ diff)
    (hfrm : lookupModule old e.src = some frm) (hto : toModule new (changeOf e) = some to) {d : Diag}
    (hd : d ∈ compareModules (o e.src) frm to) : ∃ ds, thriftbreak o old new diff = some ds ∧ d ∈ ds := by
  unfold thriftbreak
  have hc : changeOf e ∈ diff.map changeOf := List.mem_map.2 ⟨e, he, rfl⟩
  have hf := changeOf_file e
  exact run_reports (noAbort_of_snapshot hs) hc (by rw [hf]; exact hfrm) hto (by rw [hf]; exact hd)

/-- A path of one component is its own base name (a file in the repository root). -/
theorem baseName_root (x : String) : baseName [x] = [x] := rfl

end ThriftVerif.Break
