/-
M-Break — executable model of what `thriftbreak` computes.

  * `compareModules`  ≙ `compare.Pass.CompareModules` (/repo/internal/compare/compare.go) on two
    *compiled-module summaries* (exactly what compare reads: service names and their function
    names; struct-like types with, per field, id / name / effective requiredness
    (`compile.FieldSpec.Required`, i.e. `required` *without* a default) / `Type.ThriftName()`;
    the module's path relative to the git directory);
  * `run`             ≙ the loop of `git.Compare` (/repo/internal/git/git.go) over the changed-file
    list that `findChangedThrift` produced, plus `cmd/thriftbreak/main.go`'s exit status.

Every Go map the code ranges over is an association list here, and the *order* in which
it is visited is an explicit parameter (`Orders`): `from.Services`, `from.Types`
(compare.go `CompareModules`) and `from.Functions` (compare.go `service`).
`Facts/ExpectBreak.lean` ties `orderSites` below to the `for … range <map>` sites factgen
finds in the working tree.

Quirks of the code that exists, reproduced on purpose:
  * the "deleting service" diagnostic carries only the *base name* of the file (`service` uses
    `filepath.Base(from.File)`, pinned by internal/git/git_test.go; known finding D31); "removing
    method" and the struct diagnostics carry the path relative to the git directory
    (the method half was repaired by /repo 6601ea9, finding D35);
  * a deleted struct (or a struct replaced by a non-struct of the same name) is silent;
  * added files are skipped (`from == nil`), deleted files are compared against an empty module,
    and so is the OLD path of a file go-git reports as renamed (`changeOf`; repaired by /repo
    623e258, finding D30 — before, the old path was compiled in the new tree and the run aborted);
  * a compile error of either version aborts the run (exit 1, nothing printed): `run … = none`.

Core-only (linked into / interpreted by the driver).
-/
namespace ThriftVerif.Break

/-- A path relative to the git directory, as its components (`["sub", "b.thrift"]`). -/
abbrev Path := List String

/-- `compile.FieldSpec` as far as compare reads it. -/
structure Field where
  id : Int
  name : String
  /-- `FieldSpec.Required`: declared `required` and no default value. -/
  required : Bool
  /-- `FieldSpec.Type.ThriftName()`. -/
  type : String
deriving DecidableEq, Repr

/-- `compile.StructSpec` (struct, union or exception). -/
structure Struct where
  name : String
  fields : List Field
deriving DecidableEq, Repr

/-- `compile.ServiceSpec`: name and the keys of `Functions`. -/
structure Service where
  name : String
  functions : List String
deriving DecidableEq, Repr

/-- `compile.Module` as far as compare reads it. `others` are the names of the non-struct
entries of `Types` (enums, typedefs); `constants` the keys of `Constants` (never read). -/
structure Module where
  path : Path
  services : List Service
  structs : List Struct
  others : List String := []
  constants : List String := []
deriving DecidableEq, Repr

/-- Visit orders of the three maps compare.go ranges over (for one file). -/
structure Orders where
  /-- `for name, fromService := range from.Services` -/
  services : List String
  /-- `for n, fromType := range from.Types` -/
  types : List String
  /-- `for n := range from.Functions`, per service name -/
  functions : String → List String

/-- (file, enclosing function, ranged expression) of every map range the model parameterises. -/
def orderSites : List (String × String × String) :=
  [("internal/compare/compare.go", "CompareModules", "from.Services"),
   ("internal/compare/compare.go", "CompareModules", "from.Types"),
   ("internal/compare/compare.go", "service", "from.Functions")]

inductive Diag where
  | deletedService (file : Path) (svc : String)
  | removedMethod (file : Path) (svc fn : String)
  | addedRequired (file : Path) (struct field : String)
  | optToRequired (file : Path) (struct field : String)
  | typeChanged (file : Path) (struct field fromT toT : String)
deriving DecidableEq, Repr

/-- Message templates of compare.go by diagnostic class (tied to the source by ExpectBreak). -/
def messageTemplates : List (String × String) :=
  [("requiredField", "changing an optional field %q in %q to required"),
   ("changedTypes", "changing type of field %q in struct %q from %q to %q"),
   ("structSpecs", "adding a required field %q to %q"),
   ("service", "deleting service %q"),
   ("function", "removing method %q in service %q")]

def Diag.file : Diag → Path
  | .deletedService f _ | .removedMethod f _ _ | .addedRequired f _ _
  | .optToRequired f _ _ | .typeChanged f _ _ _ _ => f

/-- `filepath.Base` of a relative path. -/
def baseName (p : Path) : Path :=
  match p.getLast? with
  | some x => [x]
  | none => []

def lookupSvc (ss : List Service) (n : String) : Option Service := ss.find? (fun s => s.name == n)
def lookupStruct (ss : List Struct) (n : String) : Option Struct := ss.find? (fun s => s.name == n)

/-- `fields[f.ID] = f` for every from-field, then `fields[id]`: the last one wins. -/
def lookupField (fs : List Field) (id : Int) : Option Field := (fs.filter (fun f => f.id == id)).getLast?

/-- compare.go `service`, second half + `function`. -/
def compareFunctions (file : Path) (svc : String) (order : List String) (fromFns toFns : List String) :
    List Diag :=
  (order.filter (fun n => fromFns.contains n)).filterMap fun n =>
    if toFns.contains n then none else some (.removedMethod file svc n)

/-- compare.go `service`. -/
def compareService (file : Path) (fnOrder : String → List String) (to : List Service) (s : Service) :
    List Diag :=
  match lookupSvc to s.name with
  | none => [.deletedService (baseName file) s.name]
  | some t => compareFunctions file s.name (fnOrder s.name) s.functions t.functions

/-- compare.go `requiredField` + `changedTypes` for a field present on both sides, or the
"adding a required field" branch of `structSpecs`. -/
def compareField (file : Path) (sname : String) (fromFs : List Field) (t : Field) : List Diag :=
  match lookupField fromFs t.id with
  | some f =>
    (if !f.required && t.required then [.optToRequired file sname t.name] else []) ++
    (if f.type ≠ t.type then [.typeChanged file sname t.name f.type t.type] else [])
  | none => if t.required then [.addedRequired file sname t.name] else []

/-- compare.go `structSpecs`. -/
def compareFields (file : Path) (sname : String) (fromFs toFs : List Field) : List Diag :=
  toFs.flatMap (compareField file sname fromFs)

/-- compare.go `typ` for a from-type that is a struct. -/
def compareStruct (file : Path) (to : List Struct) (s : Struct) : List Diag :=
  match lookupStruct to s.name with
  | none => []
  | some t => compareFields file t.name s.fields t.fields

/-- compare.go `CompareModules`. -/
def compareModules (o : Orders) (frm to : Module) : List Diag :=
  (o.services.filterMap (lookupSvc frm.services)).flatMap (compareService frm.path o.functions to.services) ++
  (o.types.filterMap (lookupStruct frm.structs)).flatMap (compareStruct frm.path to.structs)

/-! ### git.go: the driver loop -/

inductive Action where
  | modify | delete
deriving DecidableEq, Repr

/-- One entry of `findChangedThrift`'s result (added files never get there). -/
structure Change where
  file : Path
  action : Action
deriving DecidableEq, Repr

/-- A commit's tree: the compiled module of every .thrift file, by path. -/
abbrev Tree := List Module

def lookupModule (t : Tree) (p : Path) : Option Module := t.find? (fun m => m.path == p)

def emptyModule (p : Path) : Module := { path := p, services := [], structs := [] }

/-- The module git.Compare compares the old version with (`none` = compile error). -/
def toModule (new : Tree) (c : Change) : Option Module :=
  match c.action with
  | .modify => lookupModule new c.file
  | .delete => some (emptyModule c.file)

/-- `git.Compare`: `none` = a compile failed, the run is aborted and the lints are dropped. -/
def run (o : Path → Orders) (old new : Tree) : List Change → Option (List Diag)
  | [] => some []
  | c :: cs =>
    match toModule new c with
    | none => none
    | some to =>
      match lookupModule old c.file with
      | none => none
      | some frm =>
        match run o old new cs with
        | none => none
        | some ds => some (compareModules (o c.file) frm to ++ ds)

/-- One entry of go-git's HEAD~..HEAD tree diff that has a from-side .thrift file: its old
name and its new name (`none` = deleted; a name different from the old one = a rename, detected
or merely paired by go-git). Added files have no from-side and never get here. -/
structure DiffEntry where
  src : Path
  dst : Option Path
deriving DecidableEq, Repr

/-- `findChangedThrift`: a change is a `Modify` only when the file keeps its name; the old path of
a renamed file was deleted. -/
def changeOf (e : DiffEntry) : Change :=
  match e.dst with
  | some d => if d = e.src then ⟨e.src, .modify⟩ else ⟨e.src, .delete⟩
  | none => ⟨e.src, .delete⟩

/-- `git.Compare` from the tree diff on. -/
def thriftbreak (o : Path → Orders) (old new : Tree) (diff : List DiffEntry) : Option (List Diag) :=
  run o old new (diff.map changeOf)

/-- What main.go prints on stdout. -/
def printed : Option (List Diag) → List Diag
  | none => []
  | some ds => ds

/-- main.go: `log.Fatalf` (exit 1) on a compile error or when there is at least one lint. -/
def exitCode : Option (List Diag) → Nat
  | none => 1
  | some [] => 0
  | some (_ :: _) => 1

/-! ### well-formedness of summaries (what `compile` guarantees) -/

def Struct.wf (s : Struct) : Prop := (s.fields.map (·.id)).Nodup

def Module.wf (m : Module) : Prop :=
  (m.services.map (·.name)).Nodup ∧ (m.structs.map (·.name)).Nodup ∧ ∀ s ∈ m.structs, s.wf

/-- An order is admissible for a module when it enumerates each key exactly once. -/
def Orders.validFor (o : Orders) (m : Module) : Prop :=
  o.services.Perm (m.services.map (·.name)) ∧
  o.types.Perm (m.structs.map (·.name) ++ m.others) ∧
  ∀ s ∈ m.services, (o.functions s.name).Perm s.functions

/-- Executable versions used by the driver to refuse malformed ops. -/
def Module.wfB (m : Module) : Bool :=
  let nodup (xs : List String) : Bool := xs.eraseDups.length == xs.length
  nodup (m.services.map (·.name)) && nodup (m.structs.map (·.name) ++ m.others) &&
  m.structs.all (fun s => (s.fields.map (·.id)).eraseDups.length == s.fields.length) &&
  m.services.all (fun s => nodup s.functions)

def Orders.validForB (o : Orders) (m : Module) : Bool :=
  o.services.isPerm (m.services.map (·.name)) &&
  o.types.isPerm (m.structs.map (·.name) ++ m.others) &&
  m.services.all (fun s => (o.functions s.name).isPerm s.functions)

end ThriftVerif.Break
