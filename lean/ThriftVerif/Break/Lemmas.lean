/-
Basic lemmas about M-Break: keyed lookups, membership in `compareModules` / `run`.
-/
import ThriftVerif.Break.Model

namespace ThriftVerif.Break

/-! ### keyed lookup in an association list -/

theorem find?_key_some {α κ : Type} [BEq κ] [LawfulBEq κ] (key : α → κ) (k : κ) {l : List α} {a : α}
    (h : l.find? (fun x => key x == k) = some a) : a ∈ l ∧ key a = k := by
  refine ⟨List.mem_of_find?_eq_some h, ?_⟩
  have := List.find?_some h
  simpa using this

theorem find?_key_eq_some_iff {α κ : Type} [BEq κ] [LawfulBEq κ] (key : α → κ) (k : κ) {l : List α}
    (hnd : (l.map key).Nodup) {a : α} :
    l.find? (fun x => key x == k) = some a ↔ a ∈ l ∧ key a = k := by
  constructor
  · exact find?_key_some key k
  · induction l with
    | nil => intro h; exact absurd h.1 (by simp)
    | cons x xs ih =>
      intro ⟨hm, hk⟩
      simp only [List.map_cons, List.nodup_cons] at hnd
      by_cases hx : key x = k
      · have : a = x := by
          rcases List.mem_cons.1 hm with h | h
          · exact h
          · exact absurd (List.mem_map.2 ⟨a, h, by rw [hk, ← hx]⟩) hnd.1
        subst this
        simp [hx]
      · have hne : a ≠ x := by intro h; subst h; exact hx hk
        have hm' : a ∈ xs := by
          rcases List.mem_cons.1 hm with h | h
          · exact absurd h hne
          · exact h
        have hb : (key x == k) = false := by simpa using hx
        rw [List.find?_cons, hb]
        exact ih hnd.2 ⟨hm', hk⟩

theorem find?_key_perm {α κ : Type} [BEq κ] [LawfulBEq κ] (key : α → κ) (k : κ) {l l' : List α}
    (hp : l.Perm l') (hnd : (l.map key).Nodup) :
    l.find? (fun x => key x == k) = l'.find? (fun x => key x == k) := by
  have hnd' : (l'.map key).Nodup := (hp.map key).nodup_iff.1 hnd
  apply Option.ext
  intro a
  rw [find?_key_eq_some_iff key k hnd, find?_key_eq_some_iff key k hnd', hp.mem_iff]

theorem lookupSvc_some {ss : List Service} {n : String} {s : Service} (h : lookupSvc ss n = some s) :
    s ∈ ss ∧ s.name = n := find?_key_some Service.name n h

theorem lookupStruct_some {ss : List Struct} {n : String} {s : Struct} (h : lookupStruct ss n = some s) :
    s ∈ ss ∧ s.name = n := find?_key_some Struct.name n h

theorem lookupModule_some {t : Tree} {p : Path} {m : Module} (h : lookupModule t p = some m) :
    m ∈ t ∧ m.path = p := find?_key_some Module.path p h

/-- With unique field ids, the from-side lookup finds exactly the field with that id. -/
theorem lookupField_of_mem {fs : List Field} (hnd : (fs.map (·.id)).Nodup) {f : Field} (hf : f ∈ fs) :
    lookupField fs f.id = some f := by
  unfold lookupField
  induction fs with
  | nil => exact absurd hf (by simp)
  | cons x xs ih =>
    simp only [List.map_cons, List.nodup_cons] at hnd
    rcases List.mem_cons.1 hf with h | h
    · subst h
      have : xs.filter (fun g => g.id == f.id) = [] := by
        rw [List.filter_eq_nil_iff]
        intro g hg hgi
        exact hnd.1 (List.mem_map.2 ⟨g, hg, by simpa using hgi⟩)
      simp [this]
    · have hne : (x.id == f.id) = false := by
        have : x.id ≠ f.id := fun e => hnd.1 (List.mem_map.2 ⟨f, h, e.symm⟩)
        simpa using this
      rw [List.filter_cons, hne]
      exact ih hnd.2 h

theorem lookupField_none {fs : List Field} {id : Int} (h : ∀ f ∈ fs, f.id ≠ id) : lookupField fs id = none := by
  unfold lookupField
  have : fs.filter (fun g => g.id == id) = [] := by
    rw [List.filter_eq_nil_iff]
    intro g hg hgi
    exact h g hg (by simpa using hgi)
  simp [this]

theorem lookupField_some {fs : List Field} {id : Int} {f : Field} (h : lookupField fs id = some f) :
    f ∈ fs ∧ f.id = id := by
  unfold lookupField at h
  have hm := List.mem_of_getLast? h
  rw [List.mem_filter] at hm
  exact ⟨hm.1, by simpa using hm.2⟩

/-! ### membership in `compareModules` -/

theorem mem_compareModules_service {o : Orders} {frm to : Module} {n : String} {s : Service} {d : Diag}
    (hn : n ∈ o.services) (hs : lookupSvc frm.services n = some s)
    (hd : d ∈ compareService frm.path o.functions to.services s) : d ∈ compareModules o frm to := by
  unfold compareModules
  apply List.mem_append_left
  rw [List.mem_flatMap]
  exact ⟨s, List.mem_filterMap.2 ⟨n, hn, hs⟩, hd⟩

theorem mem_compareModules_struct {o : Orders} {frm to : Module} {n : String} {s : Struct} {d : Diag}
    (hn : n ∈ o.types) (hs : lookupStruct frm.structs n = some s)
    (hd : d ∈ compareStruct frm.path to.structs s) : d ∈ compareModules o frm to := by
  unfold compareModules
  apply List.mem_append_right
  rw [List.mem_flatMap]
  exact ⟨s, List.mem_filterMap.2 ⟨n, hn, hs⟩, hd⟩

/-- Every reported diagnostic comes from one visited service or one visited struct. -/
theorem mem_compareModules_iff {o : Orders} {frm to : Module} {d : Diag} :
    d ∈ compareModules o frm to ↔
      (∃ n s, n ∈ o.services ∧ lookupSvc frm.services n = some s ∧
        d ∈ compareService frm.path o.functions to.services s) ∨
      (∃ n s, n ∈ o.types ∧ lookupStruct frm.structs n = some s ∧
        d ∈ compareStruct frm.path to.structs s) := by
  unfold compareModules
  simp only [List.mem_append, List.mem_flatMap, List.mem_filterMap]
  constructor
  · rintro (⟨s, ⟨n, hn, hs⟩, hd⟩ | ⟨s, ⟨n, hn, hs⟩, hd⟩)
    · exact .inl ⟨n, s, hn, hs, hd⟩
    · exact .inr ⟨n, s, hn, hs, hd⟩
  · rintro (⟨n, s, hn, hs, hd⟩ | ⟨n, s, hn, hs, hd⟩)
    · exact .inl ⟨s, ⟨n, hn, hs⟩, hd⟩
    · exact .inr ⟨s, ⟨n, hn, hs⟩, hd⟩

/-! ### the run loop -/

/-- No compile of the loop fails: every changed file exists in the old tree and every
*modified* file exists in the new tree (false exactly when go-git reported a rename). -/
def NoAbort (old new : Tree) (cs : List Change) : Prop :=
  ∀ c ∈ cs, (toModule new c).isSome = true ∧ (lookupModule old c.file).isSome = true

/-- What one iteration of the loop adds. -/
def fileDiags (o : Path → Orders) (old new : Tree) (c : Change) : List Diag :=
  match toModule new c, lookupModule old c.file with
  | some to, some frm => compareModules (o c.file) frm to
  | _, _ => []

theorem run_of_noAbort {o : Path → Orders} {old new : Tree} {cs : List Change} (h : NoAbort old new cs) :
    run o old new cs = some (cs.flatMap (fileDiags o old new)) := by
  induction cs with
  | nil => rfl
  | cons c cs ih =>
    have hc := h c (List.mem_cons_self ..)
    have ih' := ih (fun c' hc' => h c' (List.mem_cons_of_mem _ hc'))
    obtain ⟨to, hto⟩ := Option.isSome_iff_exists.1 hc.1
    obtain ⟨frm, hfrm⟩ := Option.isSome_iff_exists.1 hc.2
    simp [run, hto, hfrm, ih', fileDiags, List.flatMap_cons]

theorem run_none_of_abort {o : Path → Orders} {old new : Tree} {cs : List Change} (h : ¬ NoAbort old new cs) :
    run o old new cs = none := by
  induction cs with
  | nil => exact absurd (fun c hc => absurd hc (by simp)) h
  | cons c cs ih =>
    unfold run
    cases hto : toModule new c with
    | none => rfl
    | some to =>
      cases hfrm : lookupModule old c.file with
      | none => rfl
      | some frm =>
        have : ¬ NoAbort old new cs := by
          intro hcs
          apply h
          intro c' hc'
          rcases List.mem_cons.1 hc' with e | e
          · subst e; simp [hto, hfrm]
          · exact hcs c' e
        simp [ih this]

theorem run_some_iff_noAbort {o : Path → Orders} {old new : Tree} {cs : List Change} :
    (run o old new cs).isSome = true ↔ NoAbort old new cs := by
  constructor
  · intro h
    apply Classical.byContradiction
    intro hn
    rw [run_none_of_abort hn] at h
    exact absurd h (by simp)
  · intro h
    rw [run_of_noAbort h]; rfl

/-- What a successful run prints: exactly the per-file comparisons of the changed files. -/
theorem mem_run_iff {o : Path → Orders} {old new : Tree} {cs : List Change} {ds : List Diag}
    (h : run o old new cs = some ds) {d : Diag} :
    d ∈ ds ↔ ∃ c frm to, c ∈ cs ∧ lookupModule old c.file = some frm ∧ toModule new c = some to ∧
      d ∈ compareModules (o c.file) frm to := by
  have hna : NoAbort old new cs := run_some_iff_noAbort.1 (by rw [h]; rfl)
  rw [run_of_noAbort hna] at h
  injection h with h
  subst h
  rw [List.mem_flatMap]
  constructor
  · rintro ⟨c, hc, hd⟩
    obtain ⟨to, hto⟩ := Option.isSome_iff_exists.1 (hna c hc).1
    obtain ⟨frm, hfrm⟩ := Option.isSome_iff_exists.1 (hna c hc).2
    simp only [fileDiags, hto, hfrm] at hd
    exact ⟨c, frm, to, hc, hfrm, hto, hd⟩
  · rintro ⟨c, frm, to, hc, hfrm, hto, hd⟩
    exact ⟨c, hc, by simp only [fileDiags, hto, hfrm]; exact hd⟩

/-! ### from the tree diff -/

/-- The diff is a diff of these two trees: the old name of every entry is a (compiling) file of
the old tree, the new name — if any — a (compiling) file of the new tree. This is the input
domain of the property ("two consecutive committed versions"), not a restriction. -/
def Snapshot (old new : Tree) (diff : List DiffEntry) : Prop :=
  ∀ e ∈ diff, (lookupModule old e.src).isSome = true ∧
    ∀ d, e.dst = some d → (lookupModule new d).isSome = true

theorem changeOf_file (e : DiffEntry) : (changeOf e).file = e.src := by
  unfold changeOf; split
  · split <;> rfl
  · rfl

/-- On real inputs no compile of the loop can fail: renames are deletions of the old path. -/
theorem noAbort_of_snapshot {old new : Tree} {diff : List DiffEntry} (h : Snapshot old new diff) :
    NoAbort old new (diff.map changeOf) := by
  intro c hc
  obtain ⟨e, he, rfl⟩ := List.mem_map.1 hc
  obtain ⟨hsrc, hdst⟩ := h e he
  refine ⟨?_, by rw [changeOf_file]; exact hsrc⟩
  unfold changeOf toModule
  cases hd : e.dst with
  | none => rfl
  | some d =>
    by_cases hds : d = e.src
    · simp only [hds, if_true]
      exact hds ▸ hdst d hd
    · simp [hds]

end ThriftVerif.Break
