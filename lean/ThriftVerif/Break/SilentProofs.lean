/-
Soundness of M-Break on compatible edits: identical versions and additive edits produce
no diagnostic.
-/
import ThriftVerif.Break.Lemmas

namespace ThriftVerif.Break

/-- `to` is a compatible extension of `frm`: every old service is still there with at least
its old functions; every old struct that still exists has, as fields, only unchanged old
fields and optional fields with new ids. (Things may also have been added anywhere, and
structs / fields may have been removed.) -/
def Extends (frm to : Module) : Prop :=
  (∀ n s, lookupSvc frm.services n = some s →
    ∃ t, lookupSvc to.services n = some t ∧ ∀ fn ∈ s.functions, fn ∈ t.functions) ∧
  (∀ n s t, lookupStruct frm.structs n = some s → lookupStruct to.structs n = some t →
    ∀ x ∈ t.fields, x ∈ s.fields ∨ (x.required = false ∧ ∀ f ∈ s.fields, f.id ≠ x.id))

theorem compareField_old {file : Path} {sn : String} {fs : List Field} (hnd : (fs.map (·.id)).Nodup)
    {x : Field} (hx : x ∈ fs) : compareField file sn fs x = [] := by
  simp [compareField, lookupField_of_mem hnd hx]

theorem compareField_newOptional {file : Path} {sn : String} {fs : List Field} {x : Field}
    (hopt : x.required = false) (hnew : ∀ f ∈ fs, f.id ≠ x.id) : compareField file sn fs x = [] := by
  simp [compareField, lookupField_none hnew, hopt]

theorem compareFunctions_subset {file : Path} {svc : String} {order fromFns toFns : List String}
    (h : ∀ fn ∈ fromFns, fn ∈ toFns) : compareFunctions file svc order fromFns toFns = [] := by
  unfold compareFunctions
  rw [List.filterMap_eq_nil_iff]
  intro a ha
  rw [List.mem_filter] at ha
  have : a ∈ toFns := h a (by simpa using ha.2)
  simp [this]

/-- Additive edits are silent. -/
theorem compareModules_extends {o : Orders} {frm to : Module}
    (hwf : ∀ s ∈ frm.structs, s.wf) (h : Extends frm to) : compareModules o frm to = [] := by
  unfold compareModules
  rw [List.append_eq_nil_iff]
  constructor
  · rw [List.flatMap_eq_nil_iff]
    intro s hs
    obtain ⟨n, _, hsn⟩ := List.mem_filterMap.1 hs
    have hname := (lookupSvc_some hsn).2
    obtain ⟨t, ht, hsub⟩ := h.1 n s hsn
    simp [compareService, hname, ht, compareFunctions_subset hsub]
  · rw [List.flatMap_eq_nil_iff]
    intro s hs
    obtain ⟨n, _, hsn⟩ := List.mem_filterMap.1 hs
    obtain ⟨hmem, hname⟩ := lookupStruct_some hsn
    unfold compareStruct
    rw [hname]
    cases ht : lookupStruct to.structs n with
    | none => rfl
    | some t =>
      simp only [compareFields]
      rw [List.flatMap_eq_nil_iff]
      intro x hx
      rcases h.2 n s t hsn ht x hx with hold | ⟨hopt, hnew⟩
      · exact compareField_old (hwf s hmem) hold
      · exact compareField_newOptional hopt hnew

theorem extends_refl (m : Module) : Extends m m :=
  ⟨fun _ s hs => ⟨s, hs, fun _ h => h⟩,
   fun _ s t hs ht x hx => by rw [hs] at ht; injection ht with ht; subst ht; exact .inl hx⟩

/-- Identical versions are silent, whatever the visit orders. -/
theorem compareModules_self {o : Orders} {m : Module} (hwf : ∀ s ∈ m.structs, s.wf) :
    compareModules o m m = [] := compareModules_extends hwf (extends_refl m)

/-! ### the additive edit kinds, as functions on summaries -/

/-- a new field at the end of struct `sn` -/
def addField (m : Module) (sn : String) (x : Field) : Module :=
  { m with structs := m.structs.map fun s => if s.name = sn then { s with fields := s.fields ++ [x] } else s }

/-- a new function at the end of service `svc` -/
def addMethod (m : Module) (svc fn : String) : Module :=
  { m with services := m.services.map fun s =>
      if s.name = svc then { s with functions := s.functions ++ [fn] } else s }

def addService (m : Module) (s : Service) : Module := { m with services := m.services ++ [s] }
def addStruct (m : Module) (s : Struct) : Module := { m with structs := m.structs ++ [s] }
/-- a new enum or typedef -/
def addOtherType (m : Module) (n : String) : Module := { m with others := m.others ++ [n] }
def addConstant (m : Module) (n : String) : Module := { m with constants := m.constants ++ [n] }

theorem find?_map_key {α : Type} (key : α → String) (g : α → α) (hg : ∀ a, key (g a) = key a) (n : String)
    (l : List α) : (l.map g).find? (fun a => key a == n) = (l.find? (fun a => key a == n)).map g := by
  induction l with
  | nil => rfl
  | cons a l ih =>
    simp only [List.map_cons, List.find?_cons, hg]
    cases key a == n <;> simp [ih]

theorem extends_addField {m : Module} {sn : String} {x : Field} (hopt : x.required = false)
    (hnew : ∀ s ∈ m.structs, s.name = sn → ∀ f ∈ s.fields, f.id ≠ x.id) : Extends m (addField m sn x) := by
  refine ⟨fun _ s hs => ⟨s, hs, fun _ h => h⟩, ?_⟩
  intro n s t hs ht y hy
  have hl : lookupStruct (addField m sn x).structs n =
      (lookupStruct m.structs n).map fun s => if s.name = sn then { s with fields := s.fields ++ [x] } else s := by
    unfold lookupStruct addField
    exact find?_map_key Struct.name _ (by intro a; split <;> rfl) n m.structs
  rw [hl, hs] at ht
  simp only [Option.map_some, Option.some.injEq] at ht
  subst ht
  split at hy
  · rename_i hsn
    simp only [List.mem_append, List.mem_singleton] at hy
    rcases hy with hy | hy
    · exact .inl hy
    · subst hy
      exact .inr ⟨hopt, hnew s (lookupStruct_some hs).1 hsn⟩
  · exact .inl hy

theorem extends_addMethod {m : Module} {svc fn : String} : Extends m (addMethod m svc fn) := by
  refine ⟨?_, fun _ s t hs ht x hx => by
    have : (addMethod m svc fn).structs = m.structs := rfl
    rw [this, hs] at ht; injection ht with ht; subst ht; exact .inl hx⟩
  intro n s hs
  have hl : lookupSvc (addMethod m svc fn).services n =
      (lookupSvc m.services n).map fun s =>
        if s.name = svc then { s with functions := s.functions ++ [fn] } else s := by
    unfold lookupSvc addMethod
    exact find?_map_key Service.name _ (by intro a; split <;> rfl) n m.services
  refine ⟨_, by rw [hl, hs]; rfl, ?_⟩
  intro f hf
  show f ∈ (if s.name = svc then ({ s with functions := s.functions ++ [fn] } : Service) else s).functions
  split
  · exact List.mem_append_left _ hf
  · exact hf

theorem extends_addService {m : Module} {s : Service} : Extends m (addService m s) := by
  refine ⟨?_, fun _ s' t hs ht x hx => by
    have : (addService m s).structs = m.structs := rfl
    rw [this, hs] at ht; injection ht with ht; subst ht; exact .inl hx⟩
  intro n s' hs
  refine ⟨s', ?_, fun _ h => h⟩
  unfold lookupSvc addService at *
  simp [List.find?_append, hs]

theorem extends_addStruct {m : Module} {s : Struct} : Extends m (addStruct m s) := by
  refine ⟨fun _ s' hs => ⟨s', hs, fun _ h => h⟩, ?_⟩
  intro n s' t hs ht x hx
  have : lookupStruct (addStruct m s).structs n = some s' := by
    unfold lookupStruct addStruct at *
    simp [List.find?_append, hs]
  rw [this] at ht; injection ht with ht; subst ht; exact .inl hx

/-! ### the run -/

/-- A run over files whose two versions have identical summaries prints nothing and succeeds
(e.g. a commit that only touches comments or spacing). -/
theorem run_identical {o : Path → Orders} {t : Tree} (hwf : ∀ m ∈ t, ∀ s ∈ m.structs, s.wf)
    {cs : List Change} (hmod : ∀ c ∈ cs, c.action = .modify ∧ (lookupModule t c.file).isSome = true) :
    run o t t cs = some [] := by
  have hna : NoAbort t t cs := fun c hc => by
    obtain ⟨ha, hs⟩ := hmod c hc
    simp [toModule, ha, hs]
  rw [run_of_noAbort hna]
  congr 1
  rw [List.flatMap_eq_nil_iff]
  intro c hc
  obtain ⟨ha, hs⟩ := hmod c hc
  obtain ⟨m, hm⟩ := Option.isSome_iff_exists.1 hs
  simp only [fileDiags, toModule, ha, hm]
  exact compareModules_self (hwf m (lookupModule_some hm).1)

/-- A file that exists only in the new tree (an added file never enters the change list,
`from == nil` in findChangedThrift) does not influence the run. -/
theorem run_addFile {o : Path → Orders} {old new : Tree} {m : Module} {cs : List Change}
    (hnot : ∀ c ∈ cs, c.file ≠ m.path) : run o old (new ++ [m]) cs = run o old new cs := by
  induction cs with
  | nil => rfl
  | cons c cs ih =>
    have hc : c.file ≠ m.path := hnot c (List.mem_cons_self ..)
    have hto : toModule (new ++ [m]) c = toModule new c := by
      unfold toModule
      cases c.action with
      | delete => rfl
      | modify =>
        have hb : (m.path == c.file) = false := by simpa using fun e => hc e.symm
        simp only [lookupModule, List.find?_append, List.find?_cons, hb, List.find?_nil, Option.or_none]
    unfold run
    rw [hto, ih (fun c' hc' => hnot c' (List.mem_cons_of_mem _ hc'))]

end ThriftVerif.Break
