/-
Order independence of M-Break: the multiset of diagnostics is invariant under permutation of
the three visit orders, of the definitions inside the module summaries, of the trees and of
the change list.
-/
import ThriftVerif.Break.Lemmas

namespace ThriftVerif.Break

theorem flatMap_perm_fun {α β : Type} {l : List α} {f g : α → List β} (h : ∀ a ∈ l, (f a).Perm (g a)) :
    (l.flatMap f).Perm (l.flatMap g) := by
  induction l with
  | nil => exact .refl _
  | cons a l ih =>
    simp only [List.flatMap_cons]
    exact (h a (List.mem_cons_self ..)).append (ih fun b hb => h b (List.mem_cons_of_mem _ hb))

theorem flatMap_perm {α β : Type} {l l' : List α} {f g : α → List β} (hl : l.Perm l')
    (h : ∀ a ∈ l, (f a).Perm (g a)) : (l.flatMap f).Perm (l'.flatMap g) :=
  (flatMap_perm_fun h).trans (hl.flatMap_right g)

theorem compareFunctions_perm {file : Path} {svc : String} {o o' fromFns toFns toFns' : List String}
    (ho : o.Perm o') (ht : ∀ fn, fn ∈ toFns ↔ fn ∈ toFns') :
    (compareFunctions file svc o fromFns toFns).Perm (compareFunctions file svc o' fromFns toFns') := by
  unfold compareFunctions
  have hf : (fun n => if toFns.contains n then none else some (Diag.removedMethod file svc n)) =
      (fun n => if toFns'.contains n then none else some (Diag.removedMethod file svc n)) := by
    funext n
    have : toFns.contains n = toFns'.contains n := by
      rw [Bool.eq_iff_iff]; simpa using ht n
    rw [this]
  rw [hf]
  exact (ho.filter _).filterMap _

/-- Two association lists that agree on every lookup. -/
def SameLookups (ss ss' : List Service) : Prop := ∀ n, lookupSvc ss n = lookupSvc ss' n

theorem lookupSvc_perm {ss ss' : List Service} (hp : ss.Perm ss') (hnd : (ss.map (·.name)).Nodup) (n : String) :
    lookupSvc ss n = lookupSvc ss' n := find?_key_perm Service.name n hp hnd

theorem lookupStruct_perm {ss ss' : List Struct} (hp : ss.Perm ss') (hnd : (ss.map (·.name)).Nodup) (n : String) :
    lookupStruct ss n = lookupStruct ss' n := find?_key_perm Struct.name n hp hnd

theorem lookupModule_perm {t t' : Tree} (hp : t.Perm t') (hnd : (t.map (·.path)).Nodup) (p : Path) :
    lookupModule t p = lookupModule t' p := find?_key_perm Module.path p hp hnd

/-- Permuting definitions of a summary: same path, services and structs permuted
(`others` / `constants` are never read). -/
structure Module.Equiv (m m' : Module) : Prop where
  path : m.path = m'.path
  services : m.services.Perm m'.services
  structs : m.structs.Perm m'.structs

structure Orders.Equiv (o o' : Orders) : Prop where
  services : o.services.Perm o'.services
  types : o.types.Perm o'.types
  functions : ∀ s, (o.functions s).Perm (o'.functions s)

def NodupNames (m : Module) : Prop := (m.services.map (·.name)).Nodup ∧ (m.structs.map (·.name)).Nodup

theorem compareModules_perm {o o' : Orders} {frm frm' to to' : Module} (ho : o.Equiv o')
    (hf : frm.Equiv frm') (ht : to.Equiv to') (hfn : NodupNames frm) (htn : NodupNames to) :
    (compareModules o frm to).Perm (compareModules o' frm' to') := by
  unfold compareModules
  apply List.Perm.append
  · have hfun : lookupSvc frm.services = lookupSvc frm'.services := funext (lookupSvc_perm hf.services hfn.1)
    rw [hfun]
    apply flatMap_perm (ho.services.filterMap _)
    intro s _
    unfold compareService
    rw [← lookupSvc_perm ht.services htn.1 s.name, ← hf.path]
    cases lookupSvc to.services s.name with
    | none => exact .refl _
    | some t => exact compareFunctions_perm (ho.functions s.name) (fun _ => Iff.rfl)
  · have hfun : lookupStruct frm.structs = lookupStruct frm'.structs := funext (lookupStruct_perm hf.structs hfn.2)
    rw [hfun]
    apply flatMap_perm (ho.types.filterMap _)
    intro s _
    unfold compareStruct
    rw [← lookupStruct_perm ht.structs htn.2 s.name, ← hf.path]

/-- Reordering the fields of the old and of the new version of a struct. -/
theorem compareFields_perm {file : Path} {sn : String} {fromFs fromFs' toFs toFs' : List Field}
    (hf : fromFs.Perm fromFs') (hnd : (fromFs.map (·.id)).Nodup) (ht : toFs.Perm toFs') :
    (compareFields file sn fromFs toFs).Perm (compareFields file sn fromFs' toFs') := by
  unfold compareFields
  apply flatMap_perm ht
  intro x _
  have hnd' : (fromFs'.map (·.id)).Nodup := (hf.map _).nodup_iff.1 hnd
  have : lookupField fromFs x.id = lookupField fromFs' x.id := by
    apply Option.ext
    intro f
    constructor
    · intro h
      obtain ⟨hm, hid⟩ := lookupField_some h
      exact hid ▸ lookupField_of_mem hnd' (hf.mem_iff.1 hm)
    · intro h
      obtain ⟨hm, hid⟩ := lookupField_some h
      exact hid ▸ lookupField_of_mem hnd (hf.mem_iff.2 hm)
  unfold compareField
  rw [this]

/-! ### the run -/

/-- Equality of run results up to the order of the printed diagnostics. -/
def ResPerm : Option (List Diag) → Option (List Diag) → Prop
  | none, none => True
  | some a, some b => a.Perm b
  | _, _ => False

theorem run_perm {o o' : Path → Orders} {old old' new new' : Tree} {cs cs' : List Change}
    (ho : ∀ p, (o p).Equiv (o' p)) (hold : old.Perm old') (hnew : new.Perm new') (hcs : cs.Perm cs')
    (holdn : (old.map (·.path)).Nodup) (hnewn : (new.map (·.path)).Nodup)
    (holdw : ∀ m ∈ old, NodupNames m) (hneww : ∀ m ∈ new, NodupNames m) :
    ResPerm (run o old new cs) (run o' old' new' cs') := by
  have hlo : ∀ p, lookupModule old p = lookupModule old' p := lookupModule_perm hold holdn
  have hln : ∀ p, lookupModule new p = lookupModule new' p := lookupModule_perm hnew hnewn
  have hto : ∀ c, toModule new c = toModule new' c := by
    intro c; unfold toModule; cases c.action <;> simp [hln]
  have hna : NoAbort old new cs ↔ NoAbort old' new' cs' := by
    unfold NoAbort
    constructor
    · intro h c hc; rw [← hto, ← hlo]; exact h c (hcs.mem_iff.2 hc)
    · intro h c hc; rw [hto, hlo]; exact h c (hcs.mem_iff.1 hc)
  by_cases h : NoAbort old new cs
  · rw [run_of_noAbort h, run_of_noAbort (hna.1 h)]
    show (cs.flatMap _).Perm (cs'.flatMap _)
    apply flatMap_perm hcs
    intro c hc
    unfold fileDiags
    rw [← hto, ← hlo]
    cases hto' : toModule new c with
    | none => exact .refl _
    | some to =>
      cases hfrm : lookupModule old c.file with
      | none => exact .refl _
      | some frm =>
        have hfw := holdw frm (lookupModule_some hfrm).1
        have htw : NodupNames to := by
          unfold toModule at hto'
          cases ha : c.action with
          | modify => rw [ha] at hto'; exact hneww to (lookupModule_some hto').1
          | delete =>
            rw [ha] at hto'
            injection hto' with e
            subst e
            exact ⟨List.nodup_nil, List.nodup_nil⟩
        exact compareModules_perm (ho c.file) ⟨rfl, .refl _, .refl _⟩ ⟨rfl, .refl _, .refl _⟩ hfw htw
  · rw [run_none_of_abort h, run_none_of_abort (fun h' => h (hna.2 h'))]
    trivial

end ThriftVerif.Break
