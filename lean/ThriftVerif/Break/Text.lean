/-
Line-protocol text for M-Break: parsing of module summaries / orders / change lists from
space-separated tokens, rendering of diagnostics. Names are opaque tokens (the harness
escapes every byte outside `[A-Za-z0-9_.<>,-]` as `%XX`); the model only compares them.
Core-only.
-/
import ThriftVerif.Break.Model

namespace ThriftVerif.Break

def pathOfString (s : String) : Path := (s.splitOn "/").filter (· ≠ "")
def pathToString (p : Path) : String := if p.isEmpty then "." else "/".intercalate p

def Diag.render : Diag → String
  | .deletedService f s => s!"DS|{pathToString f}|{s}"
  | .removedMethod f s m => s!"RM|{pathToString f}|{s}|{m}"
  | .addedRequired f s x => s!"AR|{pathToString f}|{s}|{x}"
  | .optToRequired f s x => s!"OR|{pathToString f}|{s}|{x}"
  | .typeChanged f s x a b => s!"TC|{pathToString f}|{s}|{x}|{a}|{b}"

/-- The diagnostic *set* in canonical form: rendered, sorted, duplicates removed. -/
def renderSet (ds : List Diag) : String :=
  let xs := ((ds.map Diag.render).mergeSort (fun a b => decide (a ≤ b))).eraseDups
  if xs.isEmpty then "-" else " ".intercalate xs

abbrev P (α : Type) := List String → Option (α × List String)

def pNat : P Nat
  | t :: ts => t.toNat?.map (·, ts)
  | [] => none

def pInt : P Int
  | t :: ts => t.toInt?.map (·, ts)
  | [] => none

def pTok : P String
  | t :: ts => some (t, ts)
  | [] => none

/-- `n` repetitions of a parser. -/
def pMany {α : Type} (p : P α) : Nat → P (List α)
  | 0, ts => some ([], ts)
  | n + 1, ts =>
    match p ts with
    | none => none
    | some (x, ts) =>
      match pMany p n ts with
      | none => none
      | some (xs, ts) => some (x :: xs, ts)

/-- `<count> item*` -/
def pList {α : Type} (p : P α) : P (List α) := fun ts =>
  match pNat ts with
  | none => none
  | some (n, ts) => pMany p n ts

def pField : P Field := fun ts =>
  match pInt ts with
  | none => none
  | some (id, ts) =>
    match ts with
    | name :: req :: ty :: ts =>
      if req = "1" then some (⟨id, name, true, ty⟩, ts)
      else if req = "0" then some (⟨id, name, false, ty⟩, ts) else none
    | _ => none

def pStruct : P Struct := fun ts =>
  match pTok ts with
  | none => none
  | some (name, ts) =>
    match pList pField ts with
    | none => none
    | some (fs, ts) => some (⟨name, fs⟩, ts)

def pService : P Service := fun ts =>
  match pTok ts with
  | none => none
  | some (name, ts) =>
    match pList pTok ts with
    | none => none
    | some (fns, ts) => some (⟨name, fns⟩, ts)

/-- `mod <path> <services> <structs> <others> <constants>` -/
def pModule : P Module
  | "mod" :: path :: ts =>
    match pList pService ts with
    | none => none
    | some (svcs, ts) =>
      match pList pStruct ts with
      | none => none
      | some (sts, ts) =>
        match pList pTok ts with
        | none => none
        | some (others, ts) =>
          match pList pTok ts with
          | none => none
          | some (consts, ts) => some (⟨pathOfString path, svcs, sts, others, consts⟩, ts)
  | _ => none

def pFnOrder : P (String × List String) := fun ts =>
  match pTok ts with
  | none => none
  | some (svc, ts) =>
    match pList pTok ts with
    | none => none
    | some (fns, ts) => some ((svc, fns), ts)

/-- `ord <service order> <type order> <per-service function orders>`; a service without an
entry gets the empty order (the driver then rejects the op through `validForB`). -/
def pOrders : P Orders
  | "ord" :: ts =>
    match pList pTok ts with
    | none => none
    | some (so, ts) =>
      match pList pTok ts with
      | none => none
      | some (to, ts) =>
        match pList pFnOrder ts with
        | none => none
        | some (fo, ts) => some (⟨so, to, fun s => (fo.lookup s).getD []⟩, ts)
  | _ => none

def pChange : P Change
  | "M" :: p :: ts => some (⟨pathOfString p, .modify⟩, ts)
  | "D" :: p :: ts => some (⟨pathOfString p, .delete⟩, ts)
  | _ => none

/-- `<old path> <new path | ->` -/
def pDiffEntry : P DiffEntry
  | s :: "-" :: ts => some (⟨pathOfString s, none⟩, ts)
  | s :: d :: ts => some (⟨pathOfString s, some (pathOfString d)⟩, ts)
  | _ => none

def pPathOrders : P (Path × Orders) := fun ts =>
  match pTok ts with
  | none => none
  | some (p, ts) =>
    match pOrders ts with
    | none => none
    | some (o, ts) => some ((pathOfString p, o), ts)

end ThriftVerif.Break
