import ThriftVerif.Gen.NamingProofs

/-!
The helper-name mangler is injective on types whose names cannot be taken for anything else inside a
mangled name: no underscore, and not one of the words `List`, `Set`, `Map` the mangler itself writes.
(The collisions of findings D15/D24 need exactly such names.)
-/
namespace ThriftVerif.Gen

/-- a name that cannot be mistaken for part of the mangler's own output -/
def PlainName (n : Ident) : Prop :=
  '_' ∉ n ∧ n ≠ ['L', 'i', 's', 't'] ∧ n ≠ ['S', 'e', 't'] ∧ n ≠ ['M', 'a', 'p']

def MType.Plain : MType → Prop
  | .named n => PlainName n
  | .list e => e.Plain
  | .set e _ => e.Plain
  | .map k v => k.Plain ∧ v.Plain

/-- what follows a mangled name inside a longer one: nothing, or an underscore and more -/
def Rest (r : Ident) : Prop := r = [] ∨ ∃ r', r = '_' :: r'

/-- the first word: up to the first underscore -/
def tok (s : Ident) : Ident := s.takeWhile (· ≠ '_')

theorem tok_cons_ne {c : Char} (hc : c ≠ '_') (s : Ident) : tok (c :: s) = c :: tok s := by
  simp [tok, hc]

theorem tok_cons_us (s : Ident) : tok ('_' :: s) = [] := by simp [tok]

theorem tok_plain {n r : Ident} (hn : '_' ∉ n) (hr : Rest r) : tok (n ++ r) = n := by
  induction n with
  | nil =>
    rcases hr with rfl | ⟨r', rfl⟩
    · rfl
    · exact tok_cons_us r'
  | cons c cs ih =>
    have hc : c ≠ '_' := fun h => hn (h ▸ List.mem_cons_self)
    have hcs : '_' ∉ cs := fun h => hn (List.mem_cons_of_mem _ h)
    rw [List.cons_append, tok_cons_ne hc, ih hcs]

theorem listPfx : "List_".toList = ['L', 'i', 's', 't', '_'] := by decide
theorem setPfx : "Set_".toList = ['S', 'e', 't', '_'] := by decide
theorem mapPfx : "Map_".toList = ['M', 'a', 'p', '_'] := by decide
theorem usPfx : "_".toList = ['_'] := by decide
theorem mapTypeSfx : "_mapType".toList = ['_', 'm', 'a', 'p', 'T', 'y', 'p', 'e'] := by decide
theorem sliceTypeSfx : "_sliceType".toList = ['_', 's', 'l', 'i', 'c', 'e', 'T', 'y', 'p', 'e'] := by decide

theorem mangle_list (e : MType) : mangle (.list e) = ['L', 'i', 's', 't', '_'] ++ mangle e := by
  simp [mangle, listPfx]

theorem mangle_set (e : MType) (m : Bool) :
    mangle (.set e m) = ['S', 'e', 't', '_'] ++ (mangle e ++
      (if m then ['_', 'm', 'a', 'p', 'T', 'y', 'p', 'e'] else ['_', 's', 'l', 'i', 'c', 'e', 'T', 'y', 'p', 'e'])) := by
  cases m <;> simp [mangle, setPfx, mapTypeSfx, sliceTypeSfx]

theorem mangle_map (k v : MType) :
    mangle (.map k v) = ['M', 'a', 'p', '_'] ++ (mangle k ++ ('_' :: mangle v)) := by
  simp [mangle, mapPfx, usPfx]

theorem tok_list (x : Ident) : tok (['L', 'i', 's', 't', '_'] ++ x) = ['L', 'i', 's', 't'] := by
  simp [tok, List.takeWhile]
theorem tok_set (x : Ident) : tok (['S', 'e', 't', '_'] ++ x) = ['S', 'e', 't'] := by
  simp [tok, List.takeWhile]
theorem tok_map (x : Ident) : tok (['M', 'a', 'p', '_'] ++ x) = ['M', 'a', 'p'] := by
  simp [tok, List.takeWhile]

/-- a mangled name followed by a rest determines the type and the rest -/
theorem mangle_prefix_free : ∀ (a b : MType) (r1 r2 : Ident), a.Plain → b.Plain → Rest r1 → Rest r2 →
    mangle a ++ r1 = mangle b ++ r2 → a = b ∧ r1 = r2
  | .named n, b, r1, r2, ha, hb, h1, h2, h => by
    have hn : tok (n ++ r1) = n := tok_plain ha.1 h1
    cases b with
    | named n' =>
      have hn' : tok (n' ++ r2) = n' := tok_plain hb.1 h2
      simp only [mangle] at h
      have : n = n' := by rw [← hn, ← hn', h]
      subst this
      exact ⟨rfl, List.append_cancel_left h⟩
    | list e =>
      rw [mangle_list, List.append_assoc] at h
      simp only [mangle] at h
      rw [h, tok_list] at hn
      exact absurd hn.symm ha.2.1
    | set e m =>
      rw [mangle_set, List.append_assoc] at h
      simp only [mangle] at h
      rw [h, tok_set] at hn
      exact absurd hn.symm ha.2.2.1
    | map k v =>
      rw [mangle_map, List.append_assoc] at h
      simp only [mangle] at h
      rw [h, tok_map] at hn
      exact absurd hn.symm ha.2.2.2
  | .list e, b, r1, r2, ha, hb, h1, h2, h => by
    rw [mangle_list, List.append_assoc] at h
    cases b with
    | named n' =>
      have hn' : tok (n' ++ r2) = n' := tok_plain hb.1 h2
      simp only [mangle] at h
      rw [← h, tok_list] at hn'
      exact absurd hn'.symm hb.2.1
    | list e' =>
      rw [mangle_list, List.append_assoc] at h
      obtain ⟨he, hr⟩ := mangle_prefix_free e e' r1 r2 ha hb h1 h2 (List.append_cancel_left h)
      exact ⟨by rw [he], hr⟩
    | set e' m => rw [mangle_set] at h; simp at h
    | map k v => rw [mangle_map] at h; simp at h
  | .set e m, b, r1, r2, ha, hb, h1, h2, h => by
    rw [mangle_set, List.append_assoc, List.append_assoc] at h
    cases b with
    | named n' =>
      have hn' : tok (n' ++ r2) = n' := tok_plain hb.1 h2
      simp only [mangle] at h
      rw [← h, tok_set] at hn'
      exact absurd hn'.symm hb.2.2.1
    | list e' => rw [mangle_list] at h; simp at h
    | set e' m' =>
      rw [mangle_set, List.append_assoc, List.append_assoc] at h
      have h' := List.append_cancel_left h
      have hrest : ∀ (m : Bool) (r : Ident), Rest ((if m then ['_', 'm', 'a', 'p', 'T', 'y', 'p', 'e'] else ['_', 's', 'l', 'i', 'c', 'e', 'T', 'y', 'p', 'e']) ++ r) := by
        intro m r; cases m <;> exact Or.inr ⟨_, rfl⟩
      obtain ⟨he, hr⟩ := mangle_prefix_free e e' _ _ ha hb (hrest m r1) (hrest m' r2) h'
      cases m <;> cases m' <;> simp at hr
      · exact ⟨by rw [he], hr⟩
      · exact ⟨by rw [he], hr⟩
    | map k v => rw [mangle_map] at h; simp at h
  | .map k v, b, r1, r2, ha, hb, h1, h2, h => by
    rw [mangle_map, List.append_assoc, List.append_assoc] at h
    cases b with
    | named n' =>
      have hn' : tok (n' ++ r2) = n' := tok_plain hb.1 h2
      simp only [mangle] at h
      rw [← h, tok_map] at hn'
      exact absurd hn'.symm hb.2.2.2
    | list e' => rw [mangle_list] at h; simp at h
    | set e' m' => rw [mangle_set] at h; simp at h
    | map k' v' =>
      rw [mangle_map, List.append_assoc, List.append_assoc] at h
      have h' := List.append_cancel_left h
      obtain ⟨hk, hr⟩ := mangle_prefix_free k k' _ _ ha.1 hb.1 (Or.inr ⟨_, rfl⟩) (Or.inr ⟨_, rfl⟩) h'
      simp only [List.cons.injEq, true_and] at hr
      obtain ⟨hv, hr'⟩ := mangle_prefix_free v v' r1 r2 ha.2 hb.2 h1 h2 hr
      exact ⟨by rw [hk, hv], hr'⟩

/-- **The mangler is injective on plain names.** -/
theorem mangle_injective_on_plain (a b : MType) (ha : a.Plain) (hb : b.Plain) (h : mangle a = mangle b) : a = b := by
  have := mangle_prefix_free a b [] [] ha hb (Or.inl rfl) (Or.inl rfl) (by simpa using h)
  exact this.1


/-! ## Go names made by `goCase` contain no underscore -/

theorem upper_range_ne_us : ∀ k : Fin 26, Char.ofNat (k.val + 65) ≠ '_' := by decide
theorem lower_range_ne_us : ∀ k : Fin 26, Char.ofNat (k.val + 97) ≠ '_' := by decide

theorem toUpperC_ne_us {c : Char} (h : c ≠ '_') : toUpperC c ≠ '_' := by
  unfold toUpperC
  split
  · rename_i hl
    simp only [isLowerC, Bool.and_eq_true, decide_eq_true_eq] at hl
    have h1 : 97 ≤ c.toNat := hl.1
    have h2 : c.toNat ≤ 122 := hl.2
    have := upper_range_ne_us ⟨c.toNat - 97, by omega⟩
    have e : c.toNat - 97 + 65 = c.toNat - 32 := by omega
    simp only [e] at this
    exact this
  · exact h

theorem toLowerC_ne_us {c : Char} (h : c ≠ '_') : toLowerC c ≠ '_' := by
  unfold toLowerC
  split
  · rename_i hl
    simp only [isUpperC, Bool.and_eq_true, decide_eq_true_eq] at hl
    have h1 : 65 ≤ c.toNat := hl.1
    have h2 : c.toNat ≤ 90 := hl.2
    have := lower_range_ne_us ⟨c.toNat - 65, by omega⟩
    have e : c.toNat - 65 + 97 = c.toNat + 32 := by omega
    simp only [e] at this
    exact this
  · exact h


theorem titleLower_no_us : ∀ (s : Ident) (b : Bool), '_' ∉ s → '_' ∉ titleLower b s
  | [], _, _ => by simp [titleLower]
  | c :: cs, b, h => by
    have hc : c ≠ '_' := fun e => h (e ▸ List.mem_cons_self)
    have hcs : '_' ∉ cs := fun e => h (List.mem_cons_of_mem _ e)
    have ih := titleLower_no_us cs (!(isLetterC c || isDigitC c || decide (c = '_'))) hcs
    simp only [titleLower, List.mem_cons, not_or]
    refine ⟨?_, ih⟩
    split
    · exact fun e => toUpperC_ne_us (toLowerC_ne_us hc) e.symm
    · exact fun e => toLowerC_ne_us hc e.symm

theorem map_toUpperC_no_us (s : Ident) (h : '_' ∉ s) : '_' ∉ s.map toUpperC := by
  intro hm
  obtain ⟨c, hc, e⟩ := List.mem_map.1 hm
  exact toUpperC_ne_us (fun e' => h (e' ▸ hc)) e

theorem pascalWord_no_us (b : Bool) (w : Ident) (h : '_' ∉ w) : '_' ∉ pascalWord b w := by
  cases w with
  | nil => simp [pascalWord]
  | cons c cs =>
    have hc : c ≠ '_' := fun e => h (e ▸ List.mem_cons_self)
    have hcs : '_' ∉ cs := fun e => h (List.mem_cons_of_mem _ e)
    simp only [pascalWord]
    split
    · exact map_toUpperC_no_us _ h
    · split
      · exact titleLower_no_us _ _ h
      · simp only [List.mem_cons, not_or]
        exact ⟨fun e => toUpperC_ne_us hc e.symm, hcs⟩

/-- a Go name made by `goCase` contains no underscore -/
theorem goCase_no_us (s : Ident) : '_' ∉ goCase s := by
  simp only [goCase, pascalCase]
  intro hm
  obtain ⟨l, hl, hin⟩ := List.mem_flatten.1 hm
  obtain ⟨w, hw, rfl⟩ := List.mem_map.1 hl
  exact pascalWord_no_us _ w (splitUnderscore_no_underscore s w hw) hin

theorem constantName_no_us (s : Ident) : '_' ∉ constantName s := by
  simp only [constantName, pascalCase]
  intro hm
  obtain ⟨l, hl, hin⟩ := List.mem_flatten.1 hm
  obtain ⟨w, hw, rfl⟩ := List.mem_map.1 hl
  exact pascalWord_no_us _ w (splitUnderscore_no_underscore s w hw) hin


/-- names as the generator makes them: `goCase` of a Thrift name, other than the mangler's own words -/
def MType.GoNamed : MType → Prop
  | .named n => (∃ s, n = goCase s) ∧ n ≠ ['L', 'i', 's', 't'] ∧ n ≠ ['S', 'e', 't'] ∧ n ≠ ['M', 'a', 'p']
  | .list e => e.GoNamed
  | .set e _ => e.GoNamed
  | .map k v => k.GoNamed ∧ v.GoNamed

theorem MType.GoNamed.plain (t : MType) (h : t.GoNamed) : t.Plain := by
  induction t with
  | named n =>
    obtain ⟨⟨s, hs⟩, h'⟩ := h
    exact ⟨hs ▸ goCase_no_us s, h'⟩
  | list e ih => exact ih h
  | set e m ih => exact ih h
  | map k v ihk ihv => exact ⟨ihk h.1, ihv h.2⟩

/-- **The mangler is injective on the names the generator makes**, apart from types called `List`, `Set`, `Map`. -/
theorem mangle_injective_on_go_names (a b : MType) (ha : a.GoNamed) (hb : b.GoNamed) (h : mangle a = mangle b) : a = b :=
  mangle_injective_on_plain a b (MType.GoNamed.plain a ha) (MType.GoNamed.plain b hb) h

end ThriftVerif.Gen
