import ThriftVerif.Gen.Order

/-!
M-Gen (C10): the order in which `Module.Walk` visits the modules — and with it the numbering of
modules and services and the ORDER of the root services in the request handed to plugins — does
not depend on the iteration order of the `Includes` maps, because the walk sorts the names of a
module's includes before it visits them (finding D93, repaired; the code's side of this is the
regenerated fact `walk_order_fixed`).
-/
namespace ThriftVerif.Gen

variable {α : Type}

/-- sorting the entries of a map by key gives one list, whatever order the map yields them in -/
theorem sortedEntries_order_irrelevant {β : Type} (le : α → α → Bool) (ho : KeyOrder le) (l₁ l₂ : List (α × β))
    (hp : l₁.Perm l₂) (hd : KeysDistinct l₁) :
    l₁.mergeSort (fun a b => le a.1 b.1) = l₂.mergeSort (fun a b => le a.1 b.1) := by
  have hs1 := List.pairwise_mergeSort (le := fun a b : α × β => le a.1 b.1)
    (fun a b c => ho.trans a.1 b.1 c.1) (fun a b => ho.total a.1 b.1) l₁
  have hs2 := List.pairwise_mergeSort (le := fun a b : α × β => le a.1 b.1)
    (fun a b c => ho.trans a.1 b.1 c.1) (fun a b => ho.total a.1 b.1) l₂
  have hperm : (l₁.mergeSort fun a b => le a.1 b.1).Perm (l₂.mergeSort fun a b => le a.1 b.1) :=
    (List.mergeSort_perm l₁ _).trans (hp.trans (List.mergeSort_perm l₂ _).symm)
  apply List.Perm.eq_of_pairwise (le := fun a b : α × β => le a.1 b.1 = true) _ hs1 hs2 hperm
  intro a b ha hb h1 h2
  have hk := ho.antisymm a.1 b.1 h1 h2
  have ha' : a ∈ l₁ := (List.mergeSort_perm l₁ _).subset ha
  have hb' : b ∈ l₁ := hp.symm.subset ((List.mergeSort_perm l₂ _).subset hb)
  exact entry_eq_of_key_eq hd ha' hb' hk

/-- `Module.Walk` (repaired): breadth first from a queue; the includes of a module (entries
`name ↦ module` of a Go map, given in the order the map happens to yield them) are appended in the
order of their names. `fuel` bounds the number of queue steps. -/
def walkSorted (le : α → α → Bool) (incl : Nat → List (α × Nat)) : Nat → List Nat → List Nat → List Nat
  | 0, _, _ => []
  | _ + 1, [], _ => []
  | f + 1, m :: q, visited =>
    if visited.contains m then walkSorted le incl f q visited
    else m :: walkSorted le incl f (q ++ ((incl m).mergeSort (fun a b => le a.1 b.1)).map (·.2)) (m :: visited)

/-- `Module.Walk` as it was: the includes are appended in the order the map yields them. -/
def walkUnsorted (incl : Nat → List (α × Nat)) : Nat → List Nat → List Nat → List Nat
  | 0, _, _ => []
  | _ + 1, [], _ => []
  | f + 1, m :: q, visited =>
    if visited.contains m then walkUnsorted incl f q visited
    else m :: walkUnsorted incl f (q ++ (incl m).map (·.2)) (m :: visited)

/-- **The walk does not depend on the iteration order of the `Includes` maps.** -/
theorem walkSorted_order_irrelevant (le : α → α → Bool) (ho : KeyOrder le) (incl₁ incl₂ : Nat → List (α × Nat))
    (hp : ∀ m, (incl₁ m).Perm (incl₂ m)) (hd : ∀ m, KeysDistinct (incl₁ m)) :
    ∀ (fuel : Nat) (q visited : List Nat), walkSorted le incl₁ fuel q visited = walkSorted le incl₂ fuel q visited
  | 0, _, _ => rfl
  | _ + 1, [], _ => rfl
  | f + 1, m :: q, visited => by
    simp only [walkSorted]
    rw [sortedEntries_order_irrelevant le ho (incl₁ m) (incl₂ m) (hp m) (hd m)]
    rw [walkSorted_order_irrelevant le ho incl₁ incl₂ hp hd f q visited,
      walkSorted_order_irrelevant le ho incl₁ incl₂ hp hd f _ (m :: visited)]

/-- the root services of the plugin request: the services of every visited module, each module's in the
order of their names (`sortStringKeys(m.Services)`), in walk order -/
def rootServices (le : α → α → Bool) (incl : Nat → List (α × Nat)) (svcs : Nat → List (α × Unit)) (fuel root : Nat) :
    List (Nat × α) :=
  (walkSorted le incl fuel [root] []).flatMap fun m => ((svcs m).mergeSort (fun a b => le a.1 b.1)).map fun s => (m, s.1)

/-- **The list of root services — order included — does not depend on the iteration order of the
`Includes` and `Services` maps.** -/
theorem rootServices_order_irrelevant (le : α → α → Bool) (ho : KeyOrder le)
    (incl₁ incl₂ : Nat → List (α × Nat)) (svcs₁ svcs₂ : Nat → List (α × Unit))
    (hp : ∀ m, (incl₁ m).Perm (incl₂ m)) (hd : ∀ m, KeysDistinct (incl₁ m))
    (hps : ∀ m, (svcs₁ m).Perm (svcs₂ m)) (hds : ∀ m, KeysDistinct (svcs₁ m)) (fuel root : Nat) :
    rootServices le incl₁ svcs₁ fuel root = rootServices le incl₂ svcs₂ fuel root := by
  unfold rootServices
  rw [walkSorted_order_irrelevant le ho incl₁ incl₂ hp hd fuel [root] []]
  congr 1
  funext m
  rw [sortedEntries_order_irrelevant le ho (svcs₁ m) (svcs₂ m) (hps m) (hds m)]

end ThriftVerif.Gen
