/-
M-Gen (C10): why generation does not depend on Go's map iteration order.

A Go map is modelled as the list of entries a `range` yields, in an ARBITRARY order (any
permutation of a key-distinct list). The generator either (a) sorts the keys before use
(`sortStringKeys`, `sort.Strings` after collecting), or (b) folds an insertion-with-conflict
operation over the entries (`mergeFiles`/`addFile`, the plugin merge), or (c) performs
independent writes (the write loop). (a) and (b) are proved order-independent here; the list of
sites where the code ranges over a map is pinned by Facts/ExpectSites.lean.

Core-only model, core-only proofs.
-/
namespace ThriftVerif.Gen

variable {α β : Type}

/-- `sortStringKeys`-then-iterate: sort entries by key with `le`, then render in that order. -/
def renderSorted (le : α → α → Bool) (render : α × β → List String) (entries : List (α × β)) : List String :=
  (entries.mergeSort (fun a b => le a.1 b.1)).flatMap render

/-- A total, transitive, antisymmetric order on keys. -/
structure KeyOrder (le : α → α → Bool) : Prop where
  trans : ∀ a b c, le a b = true → le b c = true → le a c = true
  total : ∀ a b, (le a b || le b a) = true
  antisymm : ∀ a b, le a b = true → le b a = true → a = b

/-- entries of a map: no key occurs twice. -/
def KeysDistinct (l : List (α × β)) : Prop := l.Pairwise (fun a b => a.1 ≠ b.1)

theorem entry_eq_of_key_eq {l : List (α × β)} (h : KeysDistinct l) {a b : α × β}
    (ha : a ∈ l) (hb : b ∈ l) (hk : a.1 = b.1) : a = b := by
  induction l with
  | nil => simp at ha
  | cons x xs ih =>
    simp only [KeysDistinct, List.pairwise_cons] at h
    simp only [List.mem_cons] at ha hb
    rcases ha with rfl | ha <;> rcases hb with rfl | hb
    · rfl
    · exact absurd hk (h.1 b hb)
    · exact absurd hk.symm (h.1 a ha)
    · exact ih h.2 ha hb

/-- C10 (a): the rendered output is the same for every iteration order of the map. -/
theorem renderSorted_order_irrelevant (le : α → α → Bool) (ho : KeyOrder le)
    (render : α × β → List String) (l₁ l₂ : List (α × β))
    (hp : l₁.Perm l₂) (hd : KeysDistinct l₁) :
    renderSorted le render l₁ = renderSorted le render l₂ := by
  unfold renderSorted
  have hs1 := List.pairwise_mergeSort (le := fun a b : α × β => le a.1 b.1)
    (fun a b c => ho.trans a.1 b.1 c.1) (fun a b => ho.total a.1 b.1) l₁
  have hs2 := List.pairwise_mergeSort (le := fun a b : α × β => le a.1 b.1)
    (fun a b c => ho.trans a.1 b.1 c.1) (fun a b => ho.total a.1 b.1) l₂
  have hperm : (l₁.mergeSort fun a b => le a.1 b.1).Perm (l₂.mergeSort fun a b => le a.1 b.1) :=
    (List.mergeSort_perm l₁ _).trans (hp.trans (List.mergeSort_perm l₂ _).symm)
  have : (l₁.mergeSort fun a b => le a.1 b.1) = (l₂.mergeSort fun a b => le a.1 b.1) := by
    apply List.Perm.eq_of_pairwise (le := fun a b : α × β => le a.1 b.1 = true) _ hs1 hs2 hperm
    intro a b ha hb h1 h2
    have hk := ho.antisymm a.1 b.1 h1 h2
    have ha' : a ∈ l₁ := (List.mergeSort_perm l₁ _).subset ha
    have hb' : b ∈ l₁ := hp.symm.subset ((List.mergeSort_perm l₂ _).subset hb)
    exact entry_eq_of_key_eq hd ha' hb' hk
  rw [this]

/-- `addFile`: insert unless the path is taken. `none` = "file generation conflict". -/
def addFile (dest : List (α × β)) (p : α) (c : β) [DecidableEq α] : Option (List (α × β)) :=
  if dest.any (fun e => e.1 = p) then none else some ((p, c) :: dest)

/-- `mergeFiles`, success/failure part: does any source path collide with the destination
(or with an earlier source path)? -/
def mergeConflict [DecidableEq α] (dest src : List (α × β)) : Bool :=
  src.any (fun e => dest.any (fun d => d.1 = e.1))

/-- C10 (b): whether a merge conflicts does not depend on the iteration order of the source map. -/
theorem mergeConflict_order_irrelevant [DecidableEq α] (dest s₁ s₂ : List (α × β)) (hp : s₁.Perm s₂) :
    mergeConflict dest s₁ = mergeConflict dest s₂ := by
  unfold mergeConflict
  rw [Bool.eq_iff_iff]
  simp only [List.any_eq_true]
  constructor
  · rintro ⟨e, he, h⟩; exact ⟨e, hp.subset he, h⟩
  · rintro ⟨e, he, h⟩; exact ⟨e, hp.symm.subset he, h⟩

/-- … and a conflict-free merge yields the same set of files for every order. -/
theorem merge_result_order_irrelevant (dest s₁ s₂ : List (α × β)) (hp : s₁.Perm s₂) :
    ∀ e, e ∈ s₁ ++ dest ↔ e ∈ s₂ ++ dest := by
  intro e
  simp only [List.mem_append]
  constructor
  · rintro (h | h)
    · exact Or.inl (hp.subset h)
    · exact Or.inr h
  · rintro (h | h)
    · exact Or.inl (hp.symm.subset h)
    · exact Or.inr h

end ThriftVerif.Gen
