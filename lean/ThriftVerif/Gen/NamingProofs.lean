/-
M-Gen proofs for C06: the accept/reject rule of name reservation, and witnesses for the
collisions the name mapping admits.
-/
import ThriftVerif.Gen.Naming

set_option linter.unusedSimpArgs false

namespace ThriftVerif.Gen

/-- reservation succeeds exactly when no name is already taken and the names are pairwise distinct. -/
theorem reserveAll_isSome_iff (taken names : List Ident) :
    (reserveAll taken names).isSome = true ↔ (∀ n ∈ names, n ∉ taken) ∧ names.Nodup := by
  induction names generalizing taken with
  | nil => simp [reserveAll]
  | cons n ns ih =>
    simp only [reserveAll]
    by_cases h : taken.contains n = true
    · simp only [h, if_true, Option.isSome_none, Bool.false_eq_true, false_iff]
      intro hc
      have := hc.1 n (by simp)
      simp only [List.contains_iff_mem] at h
      exact this h
    · have h' : n ∉ taken := by simpa [List.contains_iff_mem] using h
      simp only [h, Bool.false_eq_true, if_false, ih, List.nodup_cons, List.mem_cons]
      constructor
      · rintro ⟨h1, h2⟩
        refine ⟨?_, ?_, h2⟩
        · intro m hm
          rcases hm with rfl | hm
          · exact h'
          · intro hmt; exact h1 m hm (Or.inr hmt)
        · intro hn; exact h1 n hn (Or.inl rfl)
      · rintro ⟨h1, h2, h3⟩
        refine ⟨?_, h3⟩
        intro m hm hmt
        rcases hmt with rfl | hmt
        · exact h2 hm
        · exact h1 m (Or.inr hm) hmt

/-- C06 accept rule: a set of top-level Go names is accepted iff it is clash-free. -/
theorem accept_iff_noclash (names : List Ident) : (reserveAll [] names).isSome = true ↔ names.Nodup := by
  rw [reserveAll_isSome_iff]; simp

/-- the words of an identifier contain no underscore. -/
theorem splitUnderscore_no_underscore (s : Ident) : ∀ w ∈ splitUnderscore s, '_' ∉ w := by
  induction s with
  | nil => simp [splitUnderscore]
  | cons c cs ih =>
    simp only [splitUnderscore]
    by_cases hc : c = '_'
    · simp only [hc, if_true]
      intro x hx
      simp only [List.mem_cons] at hx
      rcases hx with rfl | hx
      · simp
      · exact ih x hx
    · simp only [hc, if_false]
      intro x hx
      simp only [List.mem_cons] at hx
      rcases hx with rfl | hx
      · simp only [List.mem_cons, not_or]
        refine ⟨fun e => hc e.symm, ?_⟩
        cases h : splitUnderscore cs with
        | nil => simp
        | cons w ws => rw [h] at ih; simpa using ih w (by simp)
      · exact ih x (List.mem_of_mem_tail hx)

/-- identifiers that differ only in `_` placement / case collide after `goCase` (so the
generator must — and does — reject such programs at name reservation). -/
theorem goCase_collisions :
    goCase "foo_bar".toList = goCase "fooBar".toList ∧
    goCase "user_id".toList = goCase "UserID".toList ∧
    goCase "FOO_BAR".toList = "FooBar".toList ∧ goCase "FOO".toList = "FOO".toList ∧
    goCase "http_url".toList = "HTTPURL".toList := by
  decide

/-- finding D15 / D24: the helper-name mangler is not injective once a user type's Go name equals
a mangler keyword or a primitive's mangled name: `map<List, list<A>>` vs `map<list<List>, A>`, and
`list<Double>` (user struct `Double`) vs `list<double>`. -/
theorem mangle_collision :
    mangle (.map (.named "List".toList) (.list (.named "A".toList))) =
      mangle (.map (.list (.named "List".toList)) (.named "A".toList)) ∧
    mangle (.list (.named (goCase "Double".toList))) = mangle (.list (.named (goCase "double".toList))) := by
  decide

end ThriftVerif.Gen
