/-
M-Gen (C06): how Thrift names become Go identifiers (gen/string.go `goCase`, `pascalCase`,
`constantName`; gen/mangle.go `MangleType`) and the rule by which the generator accepts or
rejects a set of top-level names (gen/generator.go `declare` → `Reserve`).
Identifiers are ASCII (the lexer admits [A-Za-z0-9_.]); they are modelled as `List Char`.

Core-only.
-/
namespace ThriftVerif.Gen

abbrev Ident := List Char

def isUpperC (c : Char) : Bool := 'A' ≤ c && c ≤ 'Z'
def isLowerC (c : Char) : Bool := 'a' ≤ c && c ≤ 'z'
def isLetterC (c : Char) : Bool := isUpperC c || isLowerC c
def toUpperC (c : Char) : Char := if isLowerC c then Char.ofNat (c.toNat - 32) else c
def toLowerC (c : Char) : Char := if isUpperC c then Char.ofNat (c.toNat + 32) else c

/-- `strings.Split(s, "_")`. -/
def splitUnderscore : Ident → List Ident
  | [] => [[]]
  | c :: cs =>
    let r := splitUnderscore cs
    if c = '_' then [] :: r else (c :: r.headD []) :: r.tail

/-- `isAllCaps`: every letter is upper case. -/
def isAllCaps (s : Ident) : Bool := s.all fun c => !isLetterC c || isUpperC c

def commonInitialisms : List String :=
  ["API", "ASCII", "CPU", "CSS", "DNS", "EOF", "GUID", "HTML", "HTTP", "HTTPS", "ID", "IP", "JSON", "LHS",
   "QPS", "RAM", "RHS", "RPC", "SLA", "SMTP", "SQL", "SSH", "TCP", "TLS", "TTL", "UDP", "UI", "UID", "URI",
   "URL", "UTF8", "UUID", "VM", "XML", "XSRF", "XSS"]

def isInitialism (s : Ident) : Bool := commonInitialisms.any fun i => i.toList == s

def isDigitC (c : Char) : Bool := '0' ≤ c && c ≤ '9'

/-- `strings.Title(strings.ToLower(s))`: lower-case everything, then upper-case every letter that
starts a word (ASCII: a word is a run of letters, digits and underscores). -/
def titleLower : Bool → Ident → Ident
  | _, [] => []
  | atStart, c :: cs =>
    let l := toLowerC c
    let isWordChar := isLetterC c || isDigitC c || c = '_'
    (if atStart then toUpperC l else l) :: titleLower (!isWordChar) cs

/-- one word of `pascalCase`. -/
def pascalWord (allowAllCaps : Bool) (chunk : Ident) : Ident :=
  match chunk with
  | [] => []
  | h :: t =>
    let up := chunk.map toUpperC
    if isInitialism up then up
    else if isAllCaps chunk && !allowAllCaps then titleLower true chunk
    else toUpperC h :: t

def pascalCase (allowAllCaps : Bool) (words : List Ident) : Ident :=
  (words.map (pascalWord allowAllCaps)).flatten

/-- `goCase`: a single word may stay ALLCAPS. -/
def goCase (s : Ident) : Ident :=
  let words := splitUnderscore s
  pascalCase (words.length == 1) words

/-- `constantName` (enum items): never keeps ALLCAPS. -/
def constantName (s : Ident) : Ident := pascalCase false (splitUnderscore s)

/-- type expressions as the mangler sees them. -/
inductive MType where
  | named (goCased : Ident)            -- base types and user types: `goCase(ThriftName)`
  | list (e : MType)
  | set (e : MType) (usesMap : Bool)
  | map (k v : MType)

/-- `MangleType` for the first occurrence of every named type (no `_N` suffix). -/
def mangle : MType → Ident
  | .named n => n
  | .list e => "List_".toList ++ mangle e
  | .set e m => "Set_".toList ++ mangle e ++ (if m then "_mapType".toList else "_sliceType".toList)
  | .map k v => "Map_".toList ++ mangle k ++ "_".toList ++ mangle v

/-- `Namespace.Reserve` folded over the top-level names of a package: `none` = "name already used". -/
def reserveAll : List Ident → List Ident → Option (List Ident)
  | taken, [] => some taken
  | taken, n :: ns => if taken.contains n then none else reserveAll (n :: taken) ns

end ThriftVerif.Gen
