/-
M-Compile, part 4: the **stateful linker**, following the Go code
(compile/compiler.go `link`, type.go, typedef.go, struct.go, field.go, container.go,
constant.go, constant_value.go, service.go, once.go, cycle.go, module.go `Walk`).

* Every `Link` method is a function on an explicit state `St` holding what the Go code
  mutates: the `linkOnce` flags, `TypedefSpec.root`, how far `FieldGroup.Link` has got in
  each struct, the linked defaults, `Constant.Type/Value`, `ServiceSpec.Parent`.
* Every map the Go code ranges over is visited in an explicit order (`Orders`).
* The recursion is indexed by `fuel` = nesting depth of `Link` calls (`Res.fuel` ≙ Go stack
  overflow): termination is a property to be established (C08), not built in. The in-progress
  flags `Constant.linkingValue`, `ServiceSpec.linking`, `FieldSpec.linkingDefault` cut the
  recursions that used not to end (findings D4, D5, D40, repaired).

Lookups (`scope.LookupType` …) read `Module.Types/Constants/Services/Includes`, which
`link` never changes (`m.Types[name] = typ.Link(m)` stores the same object back), so they
are read from the gathered program. Core-only.
-/
import ThriftVerif.Compile.Spec

namespace ThriftVerif.Compile

/-- result of a fuel-indexed computation -/
inductive Res (α : Type) where
  | ok (a : α)
  | err
  | fuel
  deriving Repr, Inhabited

/-! ### state -/

inductive FOwner where
  | strct (m : Nat) (n : Name)
  | args (m : Nat) (svc fn : Name)
  | excs (m : Nat) (svc fn : Name)
  deriving DecidableEq, Repr

structure St where
  tflag : List (Nat × Name) := []                      -- linkOnce of TypedefSpec / StructSpec
  root : List ((Nat × Name) × Option LType) := []      -- TypedefSpec.root once assigned (`none` = assigned nil)
  sdone : List ((Nat × Name) × Nat) := []              -- number of fields of a struct whose Type is linked
  sdflt : List ((Nat × Name × Nat) × CV) := []         -- linked Default of struct field i
  cflag : List (Nat × Name) := []                      -- linkOnce of Constant
  ctype : List (Nat × Name) := []                      -- Constant.Type has been replaced by the linked type
  cval : List ((Nat × Name) × CV) := []                -- Constant.Value has been replaced by the linked value
  vflag : List (Nat × Name) := []                      -- linkOnce of ServiceSpec
  vpar : List ((Nat × Name) × (Nat × Name)) := []      -- ServiceSpec.Parent
  fflag : List (Nat × Name × Name) := []               -- linkOnce of FunctionSpec
  fdflt : List ((Nat × Name × Name × Nat) × CV) := []  -- linked Default of argument i
  clink : List (Nat × Name) := []                      -- Constant.linkingValue is set
  dlink : List (Nat × Name × Nat) := []                -- FieldSpec.linkingDefault is set (struct field i)
  vlink : List (Nat × Name) := []                      -- ServiceSpec.linking is set
  reent : Bool := false  -- ghost: something still being linked was read (re-entrant use)
  deriving Repr, Inhabited

def St.init : St := {}

/-- `RootTypeSpec` of the typedef `(m, n)` in state `σ` (`none` is Go's nil). A typedef whose `Link` has not
finished has no root yet; one that was linked while its target was a typedef still being linked has a nil
root and `rootPending` set (stored `some none`): its root is worked out now, by following the targets as far
as they are typedefs in the same situation (since the repair of finding D10; before, nil stayed nil). The
fuel bounds the chain: typedefs that refer to each other directly have no root. -/
def lazyRoot (p : GProg) (σ : St) : Nat → Nat → Name → Option LType
  | 0, _, _ => none
  | f + 1, m, n =>
    match lookupType p m n with
    | some (.typedef target) =>
      match alookup (m, n) σ.root with
      | none => none
      | some (some r) => some r
      | some none =>
        match resolveExpr p m target with
        | some (.named m' n') =>
          match lookupType p m' n' with
          | some (.typedef _) => lazyRoot p σ f m' n'
          | _ => none
        | _ => none
    | _ => some (.named m n)

/-- more than the number of typedefs of the program: enough for every chain without repetition -/
def rootFuel (p : GProg) : Nat := (p.map (fun md => md.types.length)).sum + 1

/-- `RootTypeSpec(t)` in state `σ`; `none` is Go's nil. -/
def rootIn (p : GProg) (σ : St) : LType → Option LType
  | .named m n => lazyRoot p σ (rootFuel p) m n
  | t => some t

def St.sdoneOf (σ : St) (k : Nat × Name) : Nat := (alookup k σ.sdone).getD 0

/-- the type object currently stored in field `j` of struct `(sm, sn)` -/
def fieldTypeIn (p : GProg) (σ : St) (sm : Nat) (sn : Name) (j : Nat) (f : GField) : LType :=
  if j < σ.sdoneOf (sm, sn) then (resolveExpr p sm f.ty).getD f.ty.raw else f.ty.raw

/-- the `Constant.Type` object currently stored in constant `(cm, cn)` -/
def constTypeIn (p : GProg) (σ : St) (cm : Nat) (cn : Name) (c : GConst) : LType :=
  match c.ty with
  | .ref n => if σ.ctype.contains (cm, cn) then (resolveExpr p cm c.ty).getD (.uref n) else .uref n
  | e => (resolveExpr p cm e).getD e.raw

/-- `f.Type = <linked>` for field `i`: one more field of the struct has its type linked -/
def ownerMark (o : FOwner) (i : Nat) (σ : St) : St :=
  match o with
  | .strct sm sn => { σ with sdone := aset (sm, sn) (i + 1) σ.sdone }
  | _ => σ

/-- `f.linkingDefault = true` for field `i` (only struct fields are ever read back) -/
def ownerBeginDflt (o : FOwner) (i : Nat) (σ : St) : St :=
  match o with
  | .strct sm sn => { σ with dlink := (sm, sn, i) :: σ.dlink }
  | _ => σ

/-- `f.Default = <linked>; f.linkingDefault = false` for field `i` -/
def ownerSetDflt (o : FOwner) (i : Nat) (v : CV) (σ : St) : St :=
  match o with
  | .strct sm sn =>
    { σ with sdflt := aset (sm, sn, i) v σ.sdflt, dlink := σ.dlink.filter (fun k => k != (sm, sn, i)) }
  | .args am svc fn => { σ with fdflt := aset (am, svc, fn, i) v σ.fdflt }
  | .excs _ _ _ => σ

/-- `c.Value = <linked>; c.linkingValue = false` -/
def endConst (k : Nat × Name) (v : CV) (σ : St) : St :=
  { σ with cval := aset k v σ.cval, clink := σ.clink.filter (fun x => x != k) }

/-- the deferred `s.linking = false` of `ServiceSpec.Link` -/
def endService (k : Nat × Name) : Res St → Res St
  | .ok σ => .ok { σ with vlink := σ.vlink.filter (fun x => x != k) }
  | .err => .err
  | .fuel => .fuel

/-- `scalarKey` (compile/constant_value.go) on a linked value in state `σ`: a reference stands for
what `Target.Value` currently is — the linked value once the constant is complete, its source
expression before — through at most 64 references. -/
def scalarKey (p : GProg) (σ : St) : Nat → CV → Option SKey
  | _, .bool b => some (.b b)
  | _, .int n => some (.i n)
  | _, .dbl bits => dblKey bits
  | _, .str s => some (.s s)
  | _, .eref _ _ _ val => some (.i val)
  | 0, .cref _ _ => none
  | f + 1, .cref cm cn =>
    match lookupConst p cm cn with
    | none => none
    | some c =>
      match alookup (cm, cn) σ.cval with
      | some v => scalarKey p σ f v
      | none => scalarKey p σ f c.val
  | _, _ => none

/-- `duplicateScalar` on the linked items of a set constant / keys of a map constant -/
def dupScalar (p : GProg) (σ : St) (vs : List CV) : Bool := dupKeys (vs.map (scalarKey p σ 64)) []

/-- the result of `ConstantSet.Link` / `ConstantMap.Link` after the items are linked: an error if
a scalar is given twice -/
def guardDup (p : GProg) (σ : St) (keys : List CV) (v : CV) : Res (St × CV) :=
  if dupScalar p σ keys then .err else .ok (σ, v)

theorem guardDup_ok {p : GProg} {σ : St} {keys : List CV} {v : CV} {x : St × CV}
    (h : guardDup p σ keys v = .ok x) : x = (σ, v) := by
  unfold guardDup at h
  split at h
  · cases h
  · cases h; rfl

theorem guardDup_cases (p : GProg) (σ : St) (keys : List CV) (v : CV) :
    guardDup p σ keys v = .err ∨ guardDup p σ keys v = .ok (σ, v) := by
  unfold guardDup
  split
  · exact Or.inl rfl
  · exact Or.inr rfl

/-! ### the linker -/

mutual

/-- `TypeSpec.Link(scope)` for a type as written in module `m`; returns the linked spec. -/
def linkTy : Nat → GProg → Nat → TExpr → St → Res (St × LType)
  | 0, _, _, _, _ => .fuel
  | _ + 1, _, _, .base o b, σ => .ok (σ, .base o b)
  | f + 1, p, m, .list o e, σ =>
    match linkTy f p m e σ with
    | .ok (σ1, e') => .ok (σ1, .list o e')
    | .err => .err
    | .fuel => .fuel
  | f + 1, p, m, .set o e, σ =>
    match linkTy f p m e σ with
    | .ok (σ1, e') => .ok (σ1, .set o e')
    | .err => .err
    | .fuel => .fuel
  | f + 1, p, m, .map o k v, σ =>
    match linkTy f p m k σ with
    | .ok (σ1, k') =>
      match linkTy f p m v σ1 with
      | .ok (σ2, v') => .ok (σ2, .map o k' v')
      | .err => .err
      | .fuel => .fuel
    | .err => .err
    | .fuel => .fuel
  | f + 1, p, m, .ref n, σ =>
    -- typeSpecReference.Link
    match lookupType p m n with
    | some _ =>
      match linkNamed f p m n σ with
      | .ok σ1 => .ok (σ1, .named m n)
      | .err => .err
      | .fuel => .fuel
    | none =>
      match splitInclude n with
      | none => .err
      | some (mn, inm) =>
        match lookupInclude p m mn with
        | none => .err
        | some m' => linkTy f p m' (.ref inm) σ
termination_by structural fuel => fuel

/-- `Link` of the definition object `Module[m].Types[n]`. -/
def linkNamed : Nat → GProg → Nat → Name → St → Res St
  | 0, _, _, _, _ => .fuel
  | f + 1, p, m, n, σ =>
    match lookupType p m n with
    | none => .err
    | some (.enum _) => .ok σ
    | some (.typedef target) =>
      if σ.tflag.contains (m, n) then .ok σ else
      match linkTy f p m target { σ with tflag := (m, n) :: σ.tflag } with
      | .ok (σ1, lt) => .ok { σ1 with root := aset (m, n) (rootIn p σ1 lt) σ1.root }
      | .err => .err
      | .fuel => .fuel
    | some (.struct _ fields) =>
      if σ.tflag.contains (m, n) then .ok σ else
      linkFields f p (.strct m n) m 0 fields { σ with tflag := (m, n) :: σ.tflag }
termination_by structural fuel => fuel

/-- `FieldGroup.Link` from field `i` on. -/
def linkFields : Nat → GProg → FOwner → Nat → Nat → List GField → St → Res St
  | 0, _, _, _, _, _, _ => .fuel
  | _ + 1, _, _, _, _, [], σ => .ok σ
  | f + 1, p, o, m, i, fld :: rest, σ =>
    match linkTy f p m fld.ty σ with
    | .ok (σ1, lt) =>
      let σ2 : St := ownerMark o i σ1
      match fld.dflt with
      | none => linkFields f p o m (i + 1) rest σ2
      | some d =>
        match linkVal f p m d lt (ownerBeginDflt o i σ2) with
        | .ok (σ3, v) =>
          let σ4 : St := ownerSetDflt o i v σ3
          linkFields f p o m (i + 1) rest σ4
        | .err => .err
        | .fuel => .fuel
    | .err => .err
    | .fuel => .fuel
termination_by structural fuel => fuel

/-- `Constant.Link`. -/
def linkConst : Nat → GProg → Nat → Name → St → Res St
  | 0, _, _, _, _ => .fuel
  | f + 1, p, m, n, σ =>
    match lookupConst p m n with
    | none => .err
    | some c =>
      if σ.cflag.contains (m, n) then
        -- reached again while its own value is being linked: defined in terms of itself
        (if σ.clink.contains (m, n) then .err else .ok σ) else
      match linkTy f p m c.ty { σ with cflag := (m, n) :: σ.cflag } with
      | .ok (σ1, lt) =>
        match linkVal f p m c.val lt { { σ1 with ctype := (m, n) :: σ1.ctype } with clink := (m, n) :: σ1.clink } with
        | .ok (σ2, v) => .ok (endConst (m, n) v σ2)
        | .err => .err
        | .fuel => .fuel
      | .err => .err
      | .fuel => .fuel
termination_by structural fuel => fuel

/-- `ConstantValue.Link(scope, t)` with `scope` = module `m`. -/
def linkVal : Nat → GProg → Nat → CV → LType → St → Res (St × CV)
  | 0, _, _, _, _, _ => .fuel
  | f + 1, p, m, v, t, σ =>
    match v with
    | .bool b =>
      match rootKind p (rootIn p σ t) with
      | .bool => .ok (σ, .bool b)
      | _ => .err
    | .int n =>
      match castInt (rootKind p (rootIn p σ t)) n with
      | some v' => .ok (σ, v')
      | none => .err
    | .str s =>
      match rootKind p (rootIn p σ t) with
      | .string => .ok (σ, .str s)
      | _ => .err
    | .dbl b =>
      match rootKind p (rootIn p σ t) with
      | .double => .ok (σ, .dbl b)
      | _ => .err
    | .map kvs =>
      match rootKind p (rootIn p σ t) with
      | .strct sm sn fields =>
        match buildStruct kvs [] with
        | none => .err
        | some fs =>
          match linkSFields f p m sm sn 0 fields fs
              { σ with reent := σ.reent || decide (σ.sdoneOf (sm, sn) < fields.length) } with
          | .ok (σ1, fs') => .ok (σ1, .struct fs')
          | .err => .err
          | .fuel => .fuel
      | .map kt vt =>
        match linkPairs f p m kvs kt vt σ with
        | .ok (σ1, kvs') => guardDup p σ1 (kvs'.map (·.1)) (.map kvs')
        | .err => .err
        | .fuel => .fuel
      | _ => .err
    | .struct fs =>
      match rootKind p (rootIn p σ t) with
      | .strct sm sn fields =>
        match linkSFields f p m sm sn 0 fields fs
            { σ with reent := σ.reent || decide (σ.sdoneOf (sm, sn) < fields.length) } with
        | .ok (σ1, fs') => .ok (σ1, .struct fs')
        | .err => .err
        | .fuel => .fuel
      | _ => .err
    | .list xs =>
      match rootKind p (rootIn p σ t) with
      | .set e =>
        match linkVals f p m xs e σ with
        | .ok (σ1, xs') => guardDup p σ1 xs' (.set xs')
        | .err => .err
        | .fuel => .fuel
      | .list e =>
        match linkVals f p m xs e σ with
        | .ok (σ1, xs') => .ok (σ1, .list xs')
        | .err => .err
        | .fuel => .fuel
      | _ => .err
    | .set xs =>
      match rootKind p (rootIn p σ t) with
      | .set e =>
        match linkVals f p m xs e σ with
        | .ok (σ1, xs') => guardDup p σ1 xs' (.set xs')
        | .err => .err
        | .fuel => .fuel
      | _ => .err
    | .eref em en item val =>
      -- EnumItemReference.Link: `RootTypeSpec(t) != e.Enum`
      if rootIn p σ t = some (.named em en) then .ok (σ, .eref em en item val) else .err
    | .cref cm cn =>
      -- ConstReference.Link: `if t == c.Target.Type { return c }; return c.Target.Value.Link(scope, t)`
      match lookupConst p cm cn with
      | none => .err
      | some c =>
        if sameType t (constTypeIn p σ cm cn c) then .ok (σ, .cref cm cn) else
        -- the target's value is cast to another type; needing it again meanwhile is a cycle
        -- (`linkingValue` is set for the duration of the cast, and cleared by the `defer`)
        if σ.clink.contains (cm, cn) then .err else
        match (match alookup (cm, cn) σ.cval with
               | some cur => linkVal f p m cur t { σ with clink := (cm, cn) :: σ.clink }
               | none => linkVal f p m c.val t { σ with reent := true, clink := (cm, cn) :: σ.clink }) with
        | .ok (σ1, v) => .ok ({ σ1 with clink := σ1.clink.filter (fun x => x != (cm, cn)) }, v)
        | .err => .err
        | .fuel => .fuel
    | .uref name =>
      -- constantReference.Link
      match lookupConst p m name with
      | some _ =>
        match linkConst f p m name σ with
        | .ok σ1 => linkVal f p m (.cref m name) t σ1
        | .err => .err
        | .fuel => .fuel
      | none =>
        match splitInclude name with
        | none => .err
        | some (mn, inm) =>
          match lookupType p m mn with
          | some (.enum items) =>
            match alookup inm items with
            | some val =>
              -- `EnumItemReference{…}.Link(scope, t)`
              if rootIn p σ t = some (.named m mn) then .ok (σ, .eref m mn inm val) else .err
            | none => .err
          | _ =>
            match lookupInclude p m mn with
            | none => .err
            | some m' => linkVal f p m' (.uref inm) t σ
termination_by structural fuel => fuel

/-- the items of a list/set literal, all under the element type `t` -/
def linkVals : Nat → GProg → Nat → List CV → LType → St → Res (St × List CV)
  | 0, _, _, _, _, _ => .fuel
  | _ + 1, _, _, [], _, σ => .ok (σ, [])
  | f + 1, p, m, x :: xs, t, σ =>
    match linkVal f p m x t σ with
    | .ok (σ1, x') =>
      match linkVals f p m xs t σ1 with
      | .ok (σ2, xs') => .ok (σ2, x' :: xs')
      | .err => .err
      | .fuel => .fuel
    | .err => .err
    | .fuel => .fuel
termination_by structural fuel => fuel

/-- the items of a map literal -/
def linkPairs : Nat → GProg → Nat → List (CV × CV) → LType → LType → St → Res (St × List (CV × CV))
  | 0, _, _, _, _, _, _ => .fuel
  | _ + 1, _, _, [], _, _, σ => .ok (σ, [])
  | f + 1, p, m, (k, v) :: rest, kt, vt, σ =>
    match linkVal f p m k kt σ with
    | .ok (σ1, k') =>
      match linkVal f p m v vt σ1 with
      | .ok (σ2, v') =>
        match linkPairs f p m rest kt vt σ2 with
        | .ok (σ3, rest') => .ok (σ3, (k', v') :: rest')
        | .err => .err
        | .fuel => .fuel
      | .err => .err
      | .fuel => .fuel
    | .err => .err
    | .fuel => .fuel
termination_by structural fuel => fuel

/-- `ConstantStruct.Link`'s loop over the fields of struct `(sm, sn)` from field `j` on.
The field's type and default are read from the struct *as it currently is*; values are
linked in the scope `m` of whoever is linking the literal. -/
def linkSFields : Nat → GProg → Nat → Nat → Name → Nat → List GField → List (Name × CV) → St →
    Res (St × List (Name × CV))
  | 0, _, _, _, _, _, _, _, _ => .fuel
  | _ + 1, _, _, _, _, _, [], fs, σ => .ok (σ, fs)
  | f + 1, p, m, sm, sn, j, fld :: rest, fs, σ =>
    match alookup fld.name fs with
    | some fv =>
      match linkVal f p m fv (fieldTypeIn p σ sm sn j fld) σ with
      | .ok (σ1, v) => linkSFields f p m sm sn (j + 1) rest (aset fld.name v fs) σ1
      | .err => .err
      | .fuel => .fuel
    | none =>
      match (match alookup (sm, sn, j) σ.sdflt with | some d => some d | none => fld.dflt) with
      | none => if fld.required then .err else linkSFields f p m sm sn (j + 1) rest fs σ
      | some d =>
        -- the default is itself being linked: it depends on itself
        if σ.dlink.contains (sm, sn, j) then .err else
        match linkVal f p m d (fieldTypeIn p σ sm sn j fld) σ with
        | .ok (σ1, v) => linkSFields f p m sm sn (j + 1) rest (aset fld.name v fs) σ1
        | .err => .err
        | .fuel => .fuel
termination_by structural fuel => fuel

end

/-! ### functions and services (compile/service.go) -/

/-- every entry of `throws` must be an exception struct: `exception.Type.(*StructSpec)` — the
linked field type itself, not its root -/
def excsOk (p : GProg) (m : Nat) : List GField → Bool
  | [] => true
  | e :: rest =>
    (match resolveExpr p m e.ty with
     | some (.named em en) =>
       (match lookupType p em en with
        | some (.struct .exception _) => true
        | _ => false)
     | _ => false) && excsOk p m rest

/-- `FunctionSpec.Link` of function `fn` of service `(m, svc)`. -/
def linkFunc (fuel : Nat) (p : GProg) (m : Nat) (svc : Name) (fn : GFunc) (σ : St) : Res St :=
  if σ.fflag.contains (m, svc, fn.name) then .ok σ else
  match linkFields fuel p (.args m svc fn.name) m 0 fn.args { σ with fflag := (m, svc, fn.name) :: σ.fflag } with
  | .ok σ1 =>
    if fn.oneway then .ok σ1 else
    match (match fn.ret with
           | some e => (match linkTy fuel p m e σ1 with
                        | .ok (σ2, _) => Res.ok σ2
                        | .err => .err
                        | .fuel => .fuel)
           | none => .ok σ1) with
    | .ok σ2 =>
      match linkFields fuel p (.excs m svc fn.name) m 0 fn.excs σ2 with
      | .ok σ3 => if excsOk p m fn.excs then .ok σ3 else .err
      | .err => .err
      | .fuel => .fuel
    | .err => .err
    | .fuel => .fuel
  | .err => .err
  | .fuel => .fuel

/-- run `g` on every element in list order, stopping at the first failure -/
def forEach {α : Type} (g : α → St → Res St) : List α → St → Res St
  | [], σ => .ok σ
  | x :: xs, σ =>
    match g x σ with
    | .ok σ1 => forEach g xs σ1
    | .err => .err
    | .fuel => .fuel

/-- A visit order for every map `link`, `ServiceSpec.Link` and `Module.Walk` range over. -/
structure ModOrder where
  includes : List Name := []
  types : List Name := []
  consts : List Name := []
  services : List Name := []
  funcs : List (Name × List Name) := []
  deriving Repr, Inhabited

abbrev Orders := List ModOrder

def dedup : List Name → List Name → List Name
  | [], _ => []
  | x :: xs, seen => if seen.contains x then dedup xs seen else x :: dedup xs (x :: seen)

/-- The keys `names` of a map, visited in the order `ord` prescribes: listed keys first (once
each), the others afterwards. Any `ord` yields a permutation of `names`. -/
def applyOrder (ord names : List Name) : List Name :=
  dedup (ord.filter (fun n => names.contains n)) [] ++ names.filter (fun n => !ord.contains n)

def Orders.at (o : Orders) (m : Nat) : ModOrder := o.getD m {}

def findFunc (n : Name) : List GFunc → Option GFunc
  | [] => none
  | g :: rest => if g.name = n then some g else findFunc n rest

mutual

/-- `ServiceSpec.Link`. -/
def linkService : Nat → GProg → Orders → Nat → Name → St → Res St
  | 0, _, _, _, _, _ => .fuel
  | f + 1, p, o, m, n, σ =>
    match lookupService p m n with
    | none => .err
    | some s =>
      if σ.vflag.contains (m, n) then
        -- reached again while it is being linked: it inherits from itself
        (if σ.vlink.contains (m, n) then .err else .ok σ) else
      match s.parent with
      | none =>
        endService (m, n) (forEach (fun fname σ'' =>
            match findFunc fname s.funcs with
            | some g => linkFunc f p m n g σ''
            | none => .ok σ'')
          (applyOrder (alookup n (o.at m).funcs |>.getD []) (s.funcs.map (·.name)))
          { { σ with vflag := (m, n) :: σ.vflag } with vlink := (m, n) :: σ.vlink })
      | some pname =>
        match resolveSvc f p o m pname { { σ with vflag := (m, n) :: σ.vflag } with vlink := (m, n) :: σ.vlink } with
        | .ok (σ1, pk) =>
          -- `parent.Link(scope)` is a no-op here: resolveService has linked it already
          endService (m, n) (forEach (fun fname σ'' =>
              match findFunc fname s.funcs with
              | some g => linkFunc f p m n g σ''
              | none => .ok σ'')
            (applyOrder (alookup n (o.at m).funcs |>.getD []) (s.funcs.map (·.name)))
            { σ1 with vpar := aset (m, n) pk σ1.vpar })
        | .err => .err
        | .fuel => .fuel
termination_by structural fuel => fuel

/-- `resolveService(src, scope)`: local name first, else split at the first dot and look in
the include; the service found is linked in the scope it was found in. -/
def resolveSvc : Nat → GProg → Orders → Nat → Name → St → Res (St × (Nat × Name))
  | 0, _, _, _, _, _ => .fuel
  | f + 1, p, o, m, name, σ =>
    match lookupService p m name with
    | some _ =>
      match linkService f p o m name σ with
      | .ok σ1 => .ok (σ1, (m, name))
      | .err => .err
      | .fuel => .fuel
    | none =>
      match splitInclude name with
      | none => .err
      | some (mn, inm) =>
        match lookupInclude p m mn with
        | none => .err
        | some m' => resolveSvc f p o m' inm σ
termination_by structural fuel => fuel

end

/-! ### typedef cycles (compile/cycle.go) -/

/-- `typeCycleFinder.Visit` on linked specs: `true` = `typeReferenceCycleError`. `path` holds
the typedefs on the current chain (containers cannot recur: they are anonymous). Fuel
exhaustion cannot happen with `cycleFuel` (the chain has no repeated typedef) and counts
as an error. -/
def visitCycle (p : GProg) : Nat → List (Nat × Name) → LType → Bool
  | 0, _, _ => true
  | f + 1, path, t =>
    match t with
    | .named m n =>
      match lookupType p m n with
      | some (.typedef target) =>
        if path.contains (m, n) then true else
        match resolveExpr p m target with
        | some t' => visitCycle p f ((m, n) :: path) t'
        | none => true
      | _ => false
    | .list _ e => visitCycle p f path e
    | .set _ e => visitCycle p f path e
    | .map _ k v => visitCycle p f path k || visitCycle p f path v
    | _ => false

/-- `typeCycleFinder.Visit` as it runs since the repair of finding D85: the finders of one search
share `seenTypes.clean`, the types under which no reference leads back to the chain; a type found
there is not searched again. (In the Go code a type is recorded unless `hits` moved, and `hits` only
moves together with an error or for a container met twice on one chain, which cannot happen without
meeting a typedef twice first: so exactly the typedefs whose visit returned no error are recorded.)
Same verdicts as `visitCycle`, but linear where that is exponential (`typedef map<B, B> A`,
`typedef map<C, C> B`, …). Returns the verdict and the grown memo. -/
def visitCycleM (p : GProg) : Nat → List (Nat × Name) → List (Nat × Name) → LType → Bool × List (Nat × Name)
  | 0, _, clean, _ => (true, clean)
  | f + 1, path, clean, t =>
    match t with
    | .named m n =>
      match lookupType p m n with
      | some (.typedef target) =>
        if path.contains (m, n) then (true, clean) else
        if clean.contains (m, n) then (false, clean) else
        match resolveExpr p m target with
        | some t' =>
          match visitCycleM p f ((m, n) :: path) clean t' with
          | (true, c) => (true, c)
          | (false, c) => (false, (m, n) :: c)
        | none => (true, clean)
      | _ => (false, clean)
    | .list _ e => visitCycleM p f path clean e
    | .set _ e => visitCycleM p f path clean e
    | .map _ k v =>
      match visitCycleM p f path clean k with
      | (true, c) => (true, c)
      | (false, c) => visitCycleM p f path c v
    | _ => (false, clean)

def TExpr.depth : TExpr → Nat
  | .base _ _ => 1
  | .list _ e => e.depth + 1
  | .set _ e => e.depth + 1
  | .map _ k v => max k.depth v.depth + 1
  | .ref _ => 1

def typedefWeight : List (Name × TDef) → Nat
  | [] => 0
  | (_, .typedef t) :: rest => t.depth + 1 + typedefWeight rest
  | _ :: rest => typedefWeight rest

def cycleFuel (p : GProg) : Nat := (p.map (fun m => typedefWeight m.types)).sum + 2

/-- `findTypeCycles` for every typedef of module `m` (any order: only the error matters; every call
starts with an empty memo, as in the Go code) -/
def moduleHasCycle (p : GProg) (m : Nat) : Bool :=
  (modAt p m).types.any (fun (n, d) =>
    match d with
    | .typedef _ => (visitCycleM p (cycleFuel p) [] [] (.named m n)).1
    | _ => false)

/-! ### `compiler.link`, `Module.Walk`, `Compile` -/

/-- `FunctionSpec.Link` for every function of service `(m, n)`, in the caller's order -/
def linkFuncsOf (fuel : Nat) (p : GProg) (o : Orders) (m : Nat) (n : Name) (σ : St) : Res St :=
  match lookupService p m n with
  | some s =>
    forEach (fun fname σ'' =>
        match findFunc fname s.funcs with
        | some g => linkFunc fuel p m n g σ''
        | none => .ok σ'')
      (applyOrder (alookup n (o.at m).funcs |>.getD []) (s.funcs.map (·.name))) σ
  | none => .ok σ

/-- what `CompileWithLinkOrder` does before linking the services of a module: the functions
of all its services, service by service (nothing without `pre`) -/
def prelinkFuncs (fuel : Nat) (p : GProg) (o : Orders) (pre : Bool) (m : Nat) (svcs : List Name) (σ : St) : Res St :=
  if pre then forEach (fun n σ' => linkFuncsOf fuel p o m n σ') svcs σ else .ok σ

/-- `compiler.link(m)` with visit orders `o`. With `pre` (what `CompileWithLinkOrder` does
before the normal pass) the functions of the module's services are linked before the
services themselves, so that their order is the caller's too. -/
def linkModule (fuel : Nat) (p : GProg) (o : Orders) (pre : Bool) (m : Nat) (σ : St) : Res St :=
  match forEach (fun n σ' => linkNamed fuel p m n σ') (applyOrder (o.at m).types ((modAt p m).types.map (·.1))) σ with
  | .ok σ1 =>
    match forEach (fun n σ' => linkConst fuel p m n σ') (applyOrder (o.at m).consts ((modAt p m).consts.map (·.1))) σ1 with
    | .ok σ2 =>
      match prelinkFuncs fuel p o pre m (applyOrder (o.at m).services ((modAt p m).services.map (·.1))) σ2 with
      | .ok σ3 =>
        match forEach (fun n σ' => linkService fuel p o m n σ')
            (applyOrder (o.at m).services ((modAt p m).services.map (·.1))) σ3 with
        | .ok σ4 => if moduleHasCycle p m then .err else .ok σ4
        | .err => .err
        | .fuel => .fuel
      | .err => .err
      | .fuel => .fuel
    | .err => .err
    | .fuel => .fuel
  | .err => .err
  | .fuel => .fuel

/-- `Module.Walk`: breadth first, each module once; `wf` bounds the number of queue pops. -/
def walk (fuel : Nat) (p : GProg) (o : Orders) (pre : Bool) : Nat → List Nat → List Nat → St → Res St
  | 0, _, _, σ => .ok σ
  | _ + 1, [], _, σ => .ok σ
  | wf + 1, m :: queue, visited, σ =>
    if visited.contains m then walk fuel p o pre wf queue visited σ else
    let incs := modAt p m |>.includes
    let next := (applyOrder (o.at m).includes (incs.map (·.1))).filterMap (fun n => alookup n incs)
    match linkModule fuel p o pre m σ with
    | .ok σ1 => walk fuel p o pre wf (queue ++ next) (m :: visited) σ1
    | .err => .err
    | .fuel => .fuel

def walkFuel (p : GProg) : Nat := (p.map (fun m => m.includes.length + 1)).sum + 2

/-- The compiled program: the gathered modules and the final link state. -/
structure Compiled where
  prog : GProg
  st : St
  deriving Repr, Inhabited

/-- `compile.Compile` (`pre = false`) / `compile.CompileWithLinkOrder` (`pre = true`) with
visit orders `o`; `fuel` bounds the nesting depth of `Link` calls. -/
def compileWith (pre : Bool) (fuel : Nat) (o : Orders) (src : Program) : Res Compiled :=
  match gather src with
  | none => .err
  | some p =>
    match walk fuel p o pre (walkFuel p) [0] [] St.init with
    | .ok σ => .ok ⟨p, σ⟩
    | .err => .err
    | .fuel => .fuel

def compile (fuel : Nat) (o : Orders) (src : Program) : Res Compiled := compileWith false fuel o src

end ThriftVerif.Compile
