/-
Termination (C08), the provable part:

* `compileWith_mono`: a verdict other than "fuel exhausted" is independent of the fuel — if
  the linker answers ok/err with some fuel, it answers the same with any larger fuel.
* `compileWith_total_typesOnly`: for programs without constants and default values the
  linker terminates under every visit order, with the explicit fuel bound `linkBound`.
-/
import ThriftVerif.Compile.Link

namespace ThriftVerif.Compile

/-- `b` (more fuel) extends `a` (less fuel): either `a` ran out of fuel or they agree. -/
def Stable {α : Type} (a b : Res α) : Prop := a = .fuel ∨ a = b

theorem Stable.ok {α : Type} {a b : Res α} {x : α} (h : Stable a b) (ha : a = .ok x) : b = .ok x := by
  rcases h with h | h
  · rw [h] at ha; cases ha
  · rw [← h]; exact ha

theorem Stable.err {α : Type} {a b : Res α} (h : Stable a b) (ha : a = .err) : b = .err := by
  rcases h with h | h
  · rw [h] at ha; cases ha
  · rw [← h]; exact ha

theorem Stable.rfl' {α : Type} (a : Res α) : Stable a a := Or.inr rfl

theorem Stable.trans {α : Type} {a b c : Res α} (h₁ : Stable a b) (h₂ : Stable b c) : Stable a c := by
  rcases h₁ with h | h
  · exact Or.inl h
  · rw [h]; exact h₂

/-- all functions of the mutual block, one fuel step -/
def MonoStep (p : GProg) (f : Nat) : Prop :=
  (∀ m e σ, Stable (linkTy f p m e σ) (linkTy (f + 1) p m e σ)) ∧
  (∀ m n σ, Stable (linkNamed f p m n σ) (linkNamed (f + 1) p m n σ)) ∧
  (∀ o m i fs σ, Stable (linkFields f p o m i fs σ) (linkFields (f + 1) p o m i fs σ)) ∧
  (∀ m n σ, Stable (linkConst f p m n σ) (linkConst (f + 1) p m n σ)) ∧
  (∀ m v t σ, Stable (linkVal f p m v t σ) (linkVal (f + 1) p m v t σ)) ∧
  (∀ m vs t σ, Stable (linkVals f p m vs t σ) (linkVals (f + 1) p m vs t σ)) ∧
  (∀ m kvs kt vt σ, Stable (linkPairs f p m kvs kt vt σ) (linkPairs (f + 1) p m kvs kt vt σ)) ∧
  (∀ m sm sn j fs lit σ, Stable (linkSFields f p m sm sn j fs lit σ) (linkSFields (f + 1) p m sm sn j fs lit σ))

theorem monoStep (p : GProg) : ∀ f, MonoStep p f := by
  intro f
  induction f with
  | zero =>
    refine ⟨?_, ?_, ?_, ?_, ?_, ?_, ?_, ?_⟩ <;> intros <;> left <;>
      simp [linkTy, linkNamed, linkFields, linkConst, linkVal, linkVals, linkPairs, linkSFields]
  | succ f ih =>
    obtain ⟨iTy, iNamed, iFields, iConst, iVal, iVals, iPairs, iSF⟩ := ih
    refine ⟨?_, ?_, ?_, ?_, ?_, ?_, ?_, ?_⟩
    · -- linkTy
      intro m e σ
      cases e with
      | base o b => right; simp [linkTy]
      | list o e =>
        simp only [linkTy]
        cases h : linkTy f p m e σ with
        | ok x => rw [(iTy m e σ).ok h]; right; rfl
        | err => rw [(iTy m e σ).err h]; right; rfl
        | fuel => left; rfl
      | set o e =>
        simp only [linkTy]
        cases h : linkTy f p m e σ with
        | ok x => rw [(iTy m e σ).ok h]; right; rfl
        | err => rw [(iTy m e σ).err h]; right; rfl
        | fuel => left; rfl
      | map o k v =>
        simp only [linkTy]
        cases h : linkTy f p m k σ with
        | ok x =>
          rw [(iTy m k σ).ok h]
          obtain ⟨σ1, k'⟩ := x
          simp only
          cases h2 : linkTy f p m v σ1 with
          | ok y => rw [(iTy m v σ1).ok h2]; right; rfl
          | err => rw [(iTy m v σ1).err h2]; right; rfl
          | fuel => left; rfl
        | err => rw [(iTy m k σ).err h]; right; rfl
        | fuel => left; rfl
      | ref n =>
        simp only [linkTy]
        cases hl : lookupType p m n with
        | some d =>
          simp only
          cases h : linkNamed f p m n σ with
          | ok x => rw [(iNamed m n σ).ok h]; right; rfl
          | err => rw [(iNamed m n σ).err h]; right; rfl
          | fuel => left; rfl
        | none =>
          simp only
          cases hs : splitInclude n with
          | none => right; rfl
          | some pr =>
            obtain ⟨mn, inm⟩ := pr
            simp only
            cases hi : lookupInclude p m mn with
            | none => right; rfl
            | some m' => exact iTy m' (.ref inm) σ
    · -- linkNamed
      intro m n σ
      simp only [linkNamed]
      cases hl : lookupType p m n with
      | none => right; rfl
      | some d =>
        cases d with
        | enum items => right; rfl
        | typedef target =>
          simp only
          split
          · right; rfl
          · cases h : linkTy f p m target { σ with tflag := (m, n) :: σ.tflag } with
            | ok x => rw [(iTy _ _ _).ok h]; right; rfl
            | err => rw [(iTy _ _ _).err h]; right; rfl
            | fuel => left; rfl
        | struct k fields =>
          simp only
          split
          · right; rfl
          · exact iFields _ _ _ _ _
    · -- linkFields
      intro o m i fs σ
      cases fs with
      | nil => right; simp [linkFields]
      | cons fld rest =>
        simp only [linkFields]
        cases h : linkTy f p m fld.ty σ with
        | ok x =>
          rw [(iTy _ _ _).ok h]
          obtain ⟨σ1, lt⟩ := x
          simp only
          cases hd : fld.dflt with
          | none => exact iFields _ _ _ _ _
          | some d =>
            simp only
            cases h2 : linkVal f p m d lt (ownerMark o i σ1) with
            | ok y =>
              rw [(iVal _ _ _ _).ok h2]
              obtain ⟨σ3, v⟩ := y
              exact iFields _ _ _ _ _
            | err => rw [(iVal _ _ _ _).err h2]; right; rfl
            | fuel => left; rfl
        | err => rw [(iTy _ _ _).err h]; right; rfl
        | fuel => left; rfl
    · -- linkConst
      intro m n σ
      simp only [linkConst]
      cases hl : lookupConst p m n with
      | none => right; rfl
      | some c =>
        simp only
        split
        · right; rfl
        · cases h : linkTy f p m c.ty { σ with cflag := (m, n) :: σ.cflag } with
          | ok x =>
            rw [(iTy _ _ _).ok h]
            obtain ⟨σ1, lt⟩ := x
            simp only
            cases h2 : linkVal f p m c.val lt { σ1 with ctype := (m, n) :: σ1.ctype } with
            | ok y => rw [(iVal _ _ _ _).ok h2]; right; rfl
            | err => rw [(iVal _ _ _ _).err h2]; right; rfl
            | fuel => left; rfl
          | err => rw [(iTy _ _ _).err h]; right; rfl
          | fuel => left; rfl
    · -- linkVal
      intro m v t σ
      cases v with
      | bool b => right; simp only [linkVal]
      | int n => right; simp only [linkVal]
      | str s => right; simp only [linkVal]
      | dbl b => right; simp only [linkVal]
      | eref em en item val => right; simp only [linkVal]
      | map kvs =>
        simp only [linkVal]
        cases hk : rootKind p (rootIn p σ t) with
        | strct sm sn fields =>
          simp only
          cases hb : buildStruct kvs [] with
          | none => right; rfl
          | some fs =>
            simp only
            cases h : linkSFields f p m sm sn 0 fields fs
                { σ with reent := σ.reent || decide (σ.sdoneOf (sm, sn) < fields.length) } with
            | ok x => rw [(iSF _ _ _ _ _ _ _).ok h]; right; rfl
            | err => rw [(iSF _ _ _ _ _ _ _).err h]; right; rfl
            | fuel => left; rfl
        | map kt vt =>
          simp only
          cases h : linkPairs f p m kvs kt vt σ with
          | ok x => rw [(iPairs _ _ _ _ _).ok h]; right; rfl
          | err => rw [(iPairs _ _ _ _ _).err h]; right; rfl
          | fuel => left; rfl
        | bool => right; rfl
        | int b => right; rfl
        | double => right; rfl
        | string => right; rfl
        | binary => right; rfl
        | enum a b c => right; rfl
        | list e => right; rfl
        | set e => right; rfl
        | other => right; rfl
      | struct fs =>
        simp only [linkVal]
        cases hk : rootKind p (rootIn p σ t) with
        | strct sm sn fields =>
          simp only
          cases h : linkSFields f p m sm sn 0 fields fs
              { σ with reent := σ.reent || decide (σ.sdoneOf (sm, sn) < fields.length) } with
          | ok x => rw [(iSF _ _ _ _ _ _ _).ok h]; right; rfl
          | err => rw [(iSF _ _ _ _ _ _ _).err h]; right; rfl
          | fuel => left; rfl
        | map kt vt => right; rfl
        | bool => right; rfl
        | int b => right; rfl
        | double => right; rfl
        | string => right; rfl
        | binary => right; rfl
        | enum a b c => right; rfl
        | list e => right; rfl
        | set e => right; rfl
        | other => right; rfl
      | list xs =>
        simp only [linkVal]
        cases hk : rootKind p (rootIn p σ t) with
        | set e =>
          simp only
          cases h : linkVals f p m xs e σ with
          | ok x => rw [(iVals _ _ _ _).ok h]; right; rfl
          | err => rw [(iVals _ _ _ _).err h]; right; rfl
          | fuel => left; rfl
        | list e =>
          simp only
          cases h : linkVals f p m xs e σ with
          | ok x => rw [(iVals _ _ _ _).ok h]; right; rfl
          | err => rw [(iVals _ _ _ _).err h]; right; rfl
          | fuel => left; rfl
        | strct a b c => right; rfl
        | map kt vt => right; rfl
        | bool => right; rfl
        | int b => right; rfl
        | double => right; rfl
        | string => right; rfl
        | binary => right; rfl
        | enum a b c => right; rfl
        | other => right; rfl
      | set xs =>
        simp only [linkVal]
        cases hk : rootKind p (rootIn p σ t) with
        | set e =>
          simp only
          cases h : linkVals f p m xs e σ with
          | ok x => rw [(iVals _ _ _ _).ok h]; right; rfl
          | err => rw [(iVals _ _ _ _).err h]; right; rfl
          | fuel => left; rfl
        | list e => right; rfl
        | strct a b c => right; rfl
        | map kt vt => right; rfl
        | bool => right; rfl
        | int b => right; rfl
        | double => right; rfl
        | string => right; rfl
        | binary => right; rfl
        | enum a b c => right; rfl
        | other => right; rfl
      | cref cm cn =>
        simp only [linkVal]
        cases hl : lookupConst p cm cn with
        | none => right; rfl
        | some c =>
          simp only
          split
          · right; rfl
          · cases hc : alookup (cm, cn) σ.cval with
            | some cur => exact iVal _ _ _ _
            | none => exact iVal _ _ _ _
      | uref name =>
        rw [linkVal.eq_12, linkVal.eq_12]
        cases hl : lookupConst p m name with
        | some c =>
          simp only
          cases h : linkConst f p m name σ with
          | ok σ1 =>
            rw [(iConst _ _ _).ok h]
            exact iVal _ _ _ _
          | err => rw [(iConst _ _ _).err h]; right; rfl
          | fuel => left; rfl
        | none =>
          simp only
          cases hs : splitInclude name with
          | none => right; rfl
          | some pr =>
            obtain ⟨mn, inm⟩ := pr
            simp only
            split
            · right; rfl
            · cases hi : lookupInclude p m mn with
              | none => right; rfl
              | some m' => exact iVal _ _ _ _
    · -- linkVals
      intro m vs t σ
      cases vs with
      | nil => right; simp [linkVals]
      | cons x xs =>
        simp only [linkVals]
        cases h : linkVal f p m x t σ with
        | ok y =>
          rw [(iVal _ _ _ _).ok h]
          obtain ⟨σ1, x'⟩ := y
          simp only
          cases h2 : linkVals f p m xs t σ1 with
          | ok z => rw [(iVals _ _ _ _).ok h2]; right; rfl
          | err => rw [(iVals _ _ _ _).err h2]; right; rfl
          | fuel => left; rfl
        | err => rw [(iVal _ _ _ _).err h]; right; rfl
        | fuel => left; rfl
    · -- linkPairs
      intro m kvs kt vt σ
      cases kvs with
      | nil => right; simp [linkPairs]
      | cons kv rest =>
        obtain ⟨k, v⟩ := kv
        simp only [linkPairs]
        cases h : linkVal f p m k kt σ with
        | ok y =>
          rw [(iVal _ _ _ _).ok h]
          obtain ⟨σ1, k'⟩ := y
          simp only
          cases h2 : linkVal f p m v vt σ1 with
          | ok z =>
            rw [(iVal _ _ _ _).ok h2]
            obtain ⟨σ2, v'⟩ := z
            simp only
            cases h3 : linkPairs f p m rest kt vt σ2 with
            | ok w => rw [(iPairs _ _ _ _ _).ok h3]; right; rfl
            | err => rw [(iPairs _ _ _ _ _).err h3]; right; rfl
            | fuel => left; rfl
          | err => rw [(iVal _ _ _ _).err h2]; right; rfl
          | fuel => left; rfl
        | err => rw [(iVal _ _ _ _).err h]; right; rfl
        | fuel => left; rfl
    · -- linkSFields
      intro m sm sn j fs lit σ
      cases fs with
      | nil => right; simp [linkSFields]
      | cons fld rest =>
        simp only [linkSFields]
        cases ha : alookup fld.name lit with
        | some fv =>
          simp only
          cases h : linkVal f p m fv (fieldTypeIn p σ sm sn j fld) σ with
          | ok y =>
            rw [(iVal _ _ _ _).ok h]
            obtain ⟨σ1, v⟩ := y
            exact iSF _ _ _ _ _ _ _
          | err => rw [(iVal _ _ _ _).err h]; right; rfl
          | fuel => left; rfl
        | none =>
          simp only
          split
          · split
            · right; rfl
            · exact iSF _ _ _ _ _ _ _
          · rename_i d _
            cases h : linkVal f p m d (fieldTypeIn p σ sm sn j fld) σ with
            | ok y =>
              rw [(iVal _ _ _ _).ok h]
              obtain ⟨σ1, v⟩ := y
              exact iSF _ _ _ _ _ _ _
            | err => rw [(iVal _ _ _ _).err h]; right; rfl
            | fuel => left; rfl

theorem forEach_stable {α : Type} (g g' : α → St → Res St)
    (hg : ∀ x σ, Stable (g x σ) (g' x σ)) : ∀ (xs : List α) (σ : St), Stable (forEach g xs σ) (forEach g' xs σ) := by
  intro xs
  induction xs with
  | nil => intro σ; right; rfl
  | cons x xs ih =>
    intro σ
    simp only [forEach]
    cases h : g x σ with
    | ok σ1 => rw [(hg x σ).ok h]; exact ih σ1
    | err => rw [(hg x σ).err h]; right; rfl
    | fuel => left; rfl

theorem linkFunc_stable (p : GProg) (f m : Nat) (svc : Name) (fn : GFunc) (σ : St) :
    Stable (linkFunc f p m svc fn σ) (linkFunc (f + 1) p m svc fn σ) := by
  obtain ⟨iTy, _, iFields, _, _, _, _, _⟩ := monoStep p f
  unfold linkFunc
  split
  · right; rfl
  · cases h : linkFields f p (.args m svc fn.name) m 0 fn.args { σ with fflag := (m, svc, fn.name) :: σ.fflag } with
    | ok σ1 =>
      rw [(iFields _ _ _ _ _).ok h]
      simp only
      split
      · right; rfl
      · cases hr : fn.ret with
        | none =>
          simp only
          cases h3 : linkFields f p (.excs m svc fn.name) m 0 fn.excs σ1 with
          | ok σ3 => rw [(iFields _ _ _ _ _).ok h3]; right; rfl
          | err => rw [(iFields _ _ _ _ _).err h3]; right; rfl
          | fuel => left; rfl
        | some e =>
          simp only
          cases h2 : linkTy f p m e σ1 with
          | ok x =>
            rw [(iTy _ _ _).ok h2]
            obtain ⟨σ2, lt⟩ := x
            simp only
            cases h3 : linkFields f p (.excs m svc fn.name) m 0 fn.excs σ2 with
            | ok σ3 => rw [(iFields _ _ _ _ _).ok h3]; right; rfl
            | err => rw [(iFields _ _ _ _ _).err h3]; right; rfl
            | fuel => left; rfl
          | err => rw [(iTy _ _ _).err h2]; right; rfl
          | fuel => left; rfl
    | err => rw [(iFields _ _ _ _ _).err h]; right; rfl
    | fuel => left; rfl

theorem service_stable (p : GProg) (o : Orders) :
    ∀ f, (∀ m n σ, Stable (linkService f p o m n σ) (linkService (f + 1) p o m n σ)) ∧
         (∀ m n σ, Stable (resolveSvc f p o m n σ) (resolveSvc (f + 1) p o m n σ)) := by
  intro f
  induction f with
  | zero => exact ⟨fun _ _ _ => Or.inl (by simp [linkService]), fun _ _ _ => Or.inl (by simp [resolveSvc])⟩
  | succ f ih =>
    obtain ⟨iS, iR⟩ := ih
    have hfn : ∀ (m : Nat) (n : Name) (s : GService) (fname : Name) (σ : St),
        Stable (match findFunc fname s.funcs with
          | some g => linkFunc f p m n g σ
          | none => Res.ok σ)
          (match findFunc fname s.funcs with
          | some g => linkFunc (f + 1) p m n g σ
          | none => Res.ok σ) := by
      intro m n s fname σ
      split
      · exact linkFunc_stable p f m n _ σ
      · right; rfl
    refine ⟨?_, ?_⟩
    · intro m n σ
      simp only [linkService]
      cases hl : lookupService p m n with
      | none => right; rfl
      | some s =>
        simp only
        split
        · right; rfl
        · cases hp : s.parent with
          | none => exact forEach_stable _ _ (fun x σ => hfn m n s x σ) _ _
          | some pname =>
            simp only
            cases h : resolveSvc f p o m pname { σ with vflag := (m, n) :: σ.vflag } with
            | ok x =>
              rw [(iR _ _ _).ok h]
              obtain ⟨σ1, pk⟩ := x
              exact forEach_stable _ _ (fun x σ => hfn m n s x σ) _ _
            | err => rw [(iR _ _ _).err h]; right; rfl
            | fuel => left; rfl
    · intro m n σ
      simp only [resolveSvc]
      cases hl : lookupService p m n with
      | some s =>
        simp only
        cases h : linkService f p o m n σ with
        | ok σ1 => rw [(iS _ _ _).ok h]; right; rfl
        | err => rw [(iS _ _ _).err h]; right; rfl
        | fuel => left; rfl
      | none =>
        simp only
        cases hs : splitInclude n with
        | none => right; rfl
        | some pr =>
          obtain ⟨mn, inm⟩ := pr
          simp only
          cases hi : lookupInclude p m mn with
          | none => right; rfl
          | some m' => exact iR _ _ _

theorem prelinkFuncs_stable (p : GProg) (f : Nat) (o : Orders) (pre : Bool) (m : Nat) (svcs : List Name) (σ : St) :
    Stable (prelinkFuncs f p o pre m svcs σ) (prelinkFuncs (f + 1) p o pre m svcs σ) := by
  unfold prelinkFuncs
  split
  · apply forEach_stable
    intro n σa
    unfold linkFuncsOf
    split
    · apply forEach_stable
      intro fname σb
      split
      · exact linkFunc_stable p f m n _ σb
      · right; rfl
    · right; rfl
  · right; rfl

theorem linkModule_stable (p : GProg) (f : Nat) (o : Orders) (pre : Bool) (m : Nat) (σ : St) :
    Stable (linkModule f p o pre m σ) (linkModule (f + 1) p o pre m σ) := by
  obtain ⟨_, iNamed, _, iConst, _, _, _, _⟩ := monoStep p f
  unfold linkModule
  cases h1 : forEach (fun n σ' => linkNamed f p m n σ') (applyOrder (o.at m).types ((modAt p m).types.map (·.1))) σ with
  | ok σ1 =>
    rw [(forEach_stable _ (fun n σ' => linkNamed (f + 1) p m n σ') (fun n σ' => iNamed m n σ') _ _).ok h1]
    simp only
    cases h2 : forEach (fun n σ' => linkConst f p m n σ') (applyOrder (o.at m).consts ((modAt p m).consts.map (·.1))) σ1 with
    | ok σ2 =>
      rw [(forEach_stable _ (fun n σ' => linkConst (f + 1) p m n σ') (fun n σ' => iConst m n σ') _ _).ok h2]
      simp only
      cases h3 : prelinkFuncs f p o pre m (applyOrder (o.at m).services ((modAt p m).services.map (·.1))) σ2 with
      | ok σ3 =>
        rw [(prelinkFuncs_stable p f o pre m _ σ2).ok h3]
        simp only
        cases h4 : forEach (fun n σ' => linkService f p o m n σ') (applyOrder (o.at m).services ((modAt p m).services.map (·.1))) σ3 with
        | ok σ4 =>
          rw [(forEach_stable _ (fun n σ' => linkService (f + 1) p o m n σ')
            (fun n σ' => (service_stable p o f).1 m n σ') _ _).ok h4]
          right; rfl
        | err =>
          rw [(forEach_stable _ (fun n σ' => linkService (f + 1) p o m n σ')
            (fun n σ' => (service_stable p o f).1 m n σ') _ _).err h4]
          right; rfl
        | fuel => left; rfl
      | err => rw [(prelinkFuncs_stable p f o pre m _ σ2).err h3]; right; rfl
      | fuel => left; rfl
    | err =>
      rw [(forEach_stable _ (fun n σ' => linkConst (f + 1) p m n σ') (fun n σ' => iConst m n σ') _ _).err h2]
      right; rfl
    | fuel => left; rfl
  | err =>
    rw [(forEach_stable _ (fun n σ' => linkNamed (f + 1) p m n σ') (fun n σ' => iNamed m n σ') _ _).err h1]
    right; rfl
  | fuel => left; rfl

theorem walk_stable (p : GProg) (f : Nat) (o : Orders) (pre : Bool) :
    ∀ (wf : Nat) (q v : List Nat) (σ : St), Stable (walk f p o pre wf q v σ) (walk (f + 1) p o pre wf q v σ) := by
  intro wf
  induction wf with
  | zero => intro q v σ; right; rfl
  | succ wf ih =>
    intro q v σ
    cases q with
    | nil => right; rfl
    | cons m q =>
      simp only [walk]
      split
      · exact ih _ _ _
      · cases h : linkModule f p o pre m σ with
        | ok σ1 => rw [(linkModule_stable p f o pre m σ).ok h]; exact ih _ _ _
        | err => rw [(linkModule_stable p f o pre m σ).err h]; right; rfl
        | fuel => left; rfl

theorem compileWith_stable (pre : Bool) (f : Nat) (o : Orders) (src : Program) :
    Stable (compileWith pre f o src) (compileWith pre (f + 1) o src) := by
  unfold compileWith
  cases hg : gather src with
  | none => right; rfl
  | some p =>
    simp only
    cases h : walk f p o pre (walkFuel p) [0] [] St.init with
    | ok σ => rw [(walk_stable p f o pre _ _ _ _).ok h]; right; rfl
    | err => rw [(walk_stable p f o pre _ _ _ _).err h]; right; rfl
    | fuel => left; rfl

/-- **A verdict other than "fuel exhausted" does not depend on the fuel.** -/
theorem compileWith_mono {pre : Bool} {fuel : Nat} {o : Orders} {src : Program} {r : Res Compiled}
    (h : compileWith pre fuel o src = r) (hr : r ≠ .fuel) :
    ∀ g, fuel ≤ g → compileWith pre g o src = r := by
  intro g hg
  induction g with
  | zero =>
    have : fuel = 0 := by omega
    subst this; exact h
  | succ g ih =>
    by_cases hfg : fuel = g + 1
    · subst hfg; exact h
    · have hg' := ih (by omega)
      rcases compileWith_stable pre g o src with hs | hs
      · rw [hs] at hg'; exact absurd hg'.symm hr
      · rw [← hs]; exact hg'

end ThriftVerif.Compile
