/-
Termination (C08), the provable part:

* `compileWith_mono`: a verdict other than "fuel exhausted" is independent of the fuel — if
  the linker answers ok/err with some fuel, it answers the same with any larger fuel.
* `compileWith_total_typesOnly`: for programs without constants and default values the
  linker terminates under every visit order, with the explicit fuel bound `linkBound`.
-/
import ThriftVerif.Compile.Link

namespace ThriftVerif.Compile

/-- `b` (more fuel) extends `a` (less fuel): either `a` ran out of fuel or they agree. -/
def Stable {α : Type} (a b : Res α) : Prop := a = .fuel ∨ a = b

theorem Stable.ok {α : Type} {a b : Res α} {x : α} (h : Stable a b) (ha : a = .ok x) : b = .ok x := by
  rcases h with h | h
  · rw [h] at ha; cases ha
  · rw [← h]; exact ha

theorem Stable.err {α : Type} {a b : Res α} (h : Stable a b) (ha : a = .err) : b = .err := by
  rcases h with h | h
  · rw [h] at ha; cases ha
  · rw [← h]; exact ha

theorem Stable.rfl' {α : Type} (a : Res α) : Stable a a := Or.inr rfl

theorem Stable.trans {α : Type} {a b c : Res α} (h₁ : Stable a b) (h₂ : Stable b c) : Stable a c := by
  rcases h₁ with h | h
  · exact Or.inl h
  · rw [h]; exact h₂

/-- all functions of the mutual block, one fuel step -/
def MonoStep (p : GProg) (f : Nat) : Prop :=
  (∀ m e σ, Stable (linkTy f p m e σ) (linkTy (f + 1) p m e σ)) ∧
  (∀ m n σ, Stable (linkNamed f p m n σ) (linkNamed (f + 1) p m n σ)) ∧
  (∀ o m i fs σ, Stable (linkFields f p o m i fs σ) (linkFields (f + 1) p o m i fs σ)) ∧
  (∀ m n σ, Stable (linkConst f p m n σ) (linkConst (f + 1) p m n σ)) ∧
  (∀ m v t σ, Stable (linkVal f p m v t σ) (linkVal (f + 1) p m v t σ)) ∧
  (∀ m vs t σ, Stable (linkVals f p m vs t σ) (linkVals (f + 1) p m vs t σ)) ∧
  (∀ m kvs kt vt σ, Stable (linkPairs f p m kvs kt vt σ) (linkPairs (f + 1) p m kvs kt vt σ)) ∧
  (∀ m sm sn j fs lit σ, Stable (linkSFields f p m sm sn j fs lit σ) (linkSFields (f + 1) p m sm sn j fs lit σ))

theorem monoStep (p : GProg) : ∀ f, MonoStep p f := by
  intro f
  induction f with
  | zero =>
    refine ⟨?_, ?_, ?_, ?_, ?_, ?_, ?_, ?_⟩ <;> intros <;> left <;>
      simp [linkTy, linkNamed, linkFields, linkConst, linkVal, linkVals, linkPairs, linkSFields]
  | succ f ih =>
    obtain ⟨iTy, iNamed, iFields, iConst, iVal, iVals, iPairs, iSF⟩ := ih
    refine ⟨?_, ?_, ?_, ?_, ?_, ?_, ?_, ?_⟩
    · -- linkTy
      intro m e σ
      cases e with
      | base o b => right; simp [linkTy]
      | list o e =>
        simp only [linkTy]
        cases h : linkTy f p m e σ with
        | ok x => rw [(iTy m e σ).ok h]; right; rfl
        | err => rw [(iTy m e σ).err h]; right; rfl
        | fuel => left; rfl
      | set o e =>
        simp only [linkTy]
        cases h : linkTy f p m e σ with
        | ok x => rw [(iTy m e σ).ok h]; right; rfl
        | err => rw [(iTy m e σ).err h]; right; rfl
        | fuel => left; rfl
      | map o k v =>
        simp only [linkTy]
        cases h : linkTy f p m k σ with
        | ok x =>
          rw [(iTy m k σ).ok h]
          obtain ⟨σ1, k'⟩ := x
          simp only
          cases h2 : linkTy f p m v σ1 with
          | ok y => rw [(iTy m v σ1).ok h2]; right; rfl
          | err => rw [(iTy m v σ1).err h2]; right; rfl
          | fuel => left; rfl
        | err => rw [(iTy m k σ).err h]; right; rfl
        | fuel => left; rfl
      | ref n =>
        simp only [linkTy]
        cases hl : lookupType p m n with
        | some d =>
          simp only
          cases h : linkNamed f p m n σ with
          | ok x => rw [(iNamed m n σ).ok h]; right; rfl
          | err => rw [(iNamed m n σ).err h]; right; rfl
          | fuel => left; rfl
        | none =>
          simp only
          cases hs : splitInclude n with
          | none => right; rfl
          | some pr =>
            obtain ⟨mn, inm⟩ := pr
            simp only
            cases hi : lookupInclude p m mn with
            | none => right; rfl
            | some m' => exact iTy m' (.ref inm) σ
    · -- linkNamed
      intro m n σ
      simp only [linkNamed]
      cases hl : lookupType p m n with
      | none => right; rfl
      | some d =>
        cases d with
        | enum items => right; rfl
        | typedef target =>
          simp only
          split
          · right; rfl
          · cases h : linkTy f p m target { σ with tflag := (m, n) :: σ.tflag } with
            | ok x => rw [(iTy _ _ _).ok h]; right; rfl
            | err => rw [(iTy _ _ _).err h]; right; rfl
            | fuel => left; rfl
        | struct k fields =>
          simp only
          split
          · right; rfl
          · exact iFields _ _ _ _ _
    · -- linkFields
      intro o m i fs σ
      cases fs with
      | nil => right; simp [linkFields]
      | cons fld rest =>
        simp only [linkFields]
        cases h : linkTy f p m fld.ty σ with
        | ok x =>
          rw [(iTy _ _ _).ok h]
          obtain ⟨σ1, lt⟩ := x
          simp only
          cases hd : fld.dflt with
          | none => exact iFields _ _ _ _ _
          | some d =>
            simp only
            cases h2 : linkVal f p m d lt (ownerBeginDflt o i (ownerMark o i σ1)) with
            | ok y =>
              rw [(iVal _ _ _ _).ok h2]
              obtain ⟨σ3, v⟩ := y
              exact iFields _ _ _ _ _
            | err => rw [(iVal _ _ _ _).err h2]; right; rfl
            | fuel => left; rfl
        | err => rw [(iTy _ _ _).err h]; right; rfl
        | fuel => left; rfl
    · -- linkConst
      intro m n σ
      simp only [linkConst]
      cases hl : lookupConst p m n with
      | none => right; rfl
      | some c =>
        simp only
        split
        · right; rfl
        · cases h : linkTy f p m c.ty { σ with cflag := (m, n) :: σ.cflag } with
          | ok x =>
            rw [(iTy _ _ _).ok h]
            obtain ⟨σ1, lt⟩ := x
            simp only
            cases h2 : linkVal f p m c.val lt { σ1 with ctype := (m, n) :: σ1.ctype, clink := (m, n) :: σ1.clink } with
            | ok y => rw [(iVal _ _ _ _).ok h2]; right; rfl
            | err => rw [(iVal _ _ _ _).err h2]; right; rfl
            | fuel => left; rfl
          | err => rw [(iTy _ _ _).err h]; right; rfl
          | fuel => left; rfl
    · -- linkVal
      intro m v t σ
      cases v with
      | bool b => right; simp only [linkVal]
      | int n => right; simp only [linkVal]
      | str s => right; simp only [linkVal]
      | dbl b => right; simp only [linkVal]
      | eref em en item val => right; simp only [linkVal]
      | map kvs =>
        simp only [linkVal]
        cases hk : rootKind p (rootIn p σ t) with
        | strct sm sn fields =>
          simp only
          cases hb : buildStruct kvs [] with
          | none => right; rfl
          | some fs =>
            simp only
            cases h : linkSFields f p m sm sn 0 fields fs
                { σ with reent := σ.reent || decide (σ.sdoneOf (sm, sn) < fields.length) } with
            | ok x => rw [(iSF _ _ _ _ _ _ _).ok h]; right; rfl
            | err => rw [(iSF _ _ _ _ _ _ _).err h]; right; rfl
            | fuel => left; rfl
        | map kt vt =>
          simp only
          cases h : linkPairs f p m kvs kt vt σ with
          | ok x => rw [(iPairs _ _ _ _ _).ok h]; right; rfl
          | err => rw [(iPairs _ _ _ _ _).err h]; right; rfl
          | fuel => left; rfl
        | bool => right; rfl
        | int b => right; rfl
        | double => right; rfl
        | string => right; rfl
        | binary => right; rfl
        | enum a b c => right; rfl
        | list e => right; rfl
        | set e => right; rfl
        | other => right; rfl
      | struct fs =>
        simp only [linkVal]
        cases hk : rootKind p (rootIn p σ t) with
        | strct sm sn fields =>
          simp only
          cases h : linkSFields f p m sm sn 0 fields fs
              { σ with reent := σ.reent || decide (σ.sdoneOf (sm, sn) < fields.length) } with
          | ok x => rw [(iSF _ _ _ _ _ _ _).ok h]; right; rfl
          | err => rw [(iSF _ _ _ _ _ _ _).err h]; right; rfl
          | fuel => left; rfl
        | map kt vt => right; rfl
        | bool => right; rfl
        | int b => right; rfl
        | double => right; rfl
        | string => right; rfl
        | binary => right; rfl
        | enum a b c => right; rfl
        | list e => right; rfl
        | set e => right; rfl
        | other => right; rfl
      | list xs =>
        simp only [linkVal]
        cases hk : rootKind p (rootIn p σ t) with
        | set e =>
          simp only
          cases h : linkVals f p m xs e σ with
          | ok x => rw [(iVals _ _ _ _).ok h]; right; rfl
          | err => rw [(iVals _ _ _ _).err h]; right; rfl
          | fuel => left; rfl
        | list e =>
          simp only
          cases h : linkVals f p m xs e σ with
          | ok x => rw [(iVals _ _ _ _).ok h]; right; rfl
          | err => rw [(iVals _ _ _ _).err h]; right; rfl
          | fuel => left; rfl
        | strct a b c => right; rfl
        | map kt vt => right; rfl
        | bool => right; rfl
        | int b => right; rfl
        | double => right; rfl
        | string => right; rfl
        | binary => right; rfl
        | enum a b c => right; rfl
        | other => right; rfl
      | set xs =>
        simp only [linkVal]
        cases hk : rootKind p (rootIn p σ t) with
        | set e =>
          simp only
          cases h : linkVals f p m xs e σ with
          | ok x => rw [(iVals _ _ _ _).ok h]; right; rfl
          | err => rw [(iVals _ _ _ _).err h]; right; rfl
          | fuel => left; rfl
        | list e => right; rfl
        | strct a b c => right; rfl
        | map kt vt => right; rfl
        | bool => right; rfl
        | int b => right; rfl
        | double => right; rfl
        | string => right; rfl
        | binary => right; rfl
        | enum a b c => right; rfl
        | other => right; rfl
      | cref cm cn =>
        rw [linkVal.eq_11, linkVal.eq_11]
        cases hl : lookupConst p cm cn with
        | none => right; rfl
        | some c =>
          simp only
          split
          · right; rfl
          · split
            · right; rfl
            · cases hc : alookup (cm, cn) σ.cval with
              | some cur =>
                simp only
                cases h : linkVal f p m cur t { σ with clink := (cm, cn) :: σ.clink } with
                | ok x => rw [(iVal _ _ _ _).ok h]; right; rfl
                | err => rw [(iVal _ _ _ _).err h]; right; rfl
                | fuel => left; rfl
              | none =>
                simp only
                cases h : linkVal f p m c.val t { σ with reent := true, clink := (cm, cn) :: σ.clink } with
                | ok x => rw [(iVal _ _ _ _).ok h]; right; rfl
                | err => rw [(iVal _ _ _ _).err h]; right; rfl
                | fuel => left; rfl
      | uref name =>
        rw [linkVal.eq_12, linkVal.eq_12]
        cases hl : lookupConst p m name with
        | some c =>
          simp only
          cases h : linkConst f p m name σ with
          | ok σ1 =>
            rw [(iConst _ _ _).ok h]
            exact iVal _ _ _ _
          | err => rw [(iConst _ _ _).err h]; right; rfl
          | fuel => left; rfl
        | none =>
          simp only
          cases hs : splitInclude name with
          | none => right; rfl
          | some pr =>
            obtain ⟨mn, inm⟩ := pr
            simp only
            split
            · right; rfl
            · cases hi : lookupInclude p m mn with
              | none => right; rfl
              | some m' => exact iVal _ _ _ _
    · -- linkVals
      intro m vs t σ
      cases vs with
      | nil => right; simp [linkVals]
      | cons x xs =>
        simp only [linkVals]
        cases h : linkVal f p m x t σ with
        | ok y =>
          rw [(iVal _ _ _ _).ok h]
          obtain ⟨σ1, x'⟩ := y
          simp only
          cases h2 : linkVals f p m xs t σ1 with
          | ok z => rw [(iVals _ _ _ _).ok h2]; right; rfl
          | err => rw [(iVals _ _ _ _).err h2]; right; rfl
          | fuel => left; rfl
        | err => rw [(iVal _ _ _ _).err h]; right; rfl
        | fuel => left; rfl
    · -- linkPairs
      intro m kvs kt vt σ
      cases kvs with
      | nil => right; simp [linkPairs]
      | cons kv rest =>
        obtain ⟨k, v⟩ := kv
        simp only [linkPairs]
        cases h : linkVal f p m k kt σ with
        | ok y =>
          rw [(iVal _ _ _ _).ok h]
          obtain ⟨σ1, k'⟩ := y
          simp only
          cases h2 : linkVal f p m v vt σ1 with
          | ok z =>
            rw [(iVal _ _ _ _).ok h2]
            obtain ⟨σ2, v'⟩ := z
            simp only
            cases h3 : linkPairs f p m rest kt vt σ2 with
            | ok w => rw [(iPairs _ _ _ _ _).ok h3]; right; rfl
            | err => rw [(iPairs _ _ _ _ _).err h3]; right; rfl
            | fuel => left; rfl
          | err => rw [(iVal _ _ _ _).err h2]; right; rfl
          | fuel => left; rfl
        | err => rw [(iVal _ _ _ _).err h]; right; rfl
        | fuel => left; rfl
    · -- linkSFields
      intro m sm sn j fs lit σ
      cases fs with
      | nil => right; simp [linkSFields]
      | cons fld rest =>
        simp only [linkSFields]
        cases ha : alookup fld.name lit with
        | some fv =>
          simp only
          cases h : linkVal f p m fv (fieldTypeIn p σ sm sn j fld) σ with
          | ok y =>
            rw [(iVal _ _ _ _).ok h]
            obtain ⟨σ1, v⟩ := y
            exact iSF _ _ _ _ _ _ _
          | err => rw [(iVal _ _ _ _).err h]; right; rfl
          | fuel => left; rfl
        | none =>
          simp only
          split
          · split
            · right; rfl
            · exact iSF _ _ _ _ _ _ _
          · rename_i d _
            split
            · right; rfl
            · cases h : linkVal f p m d (fieldTypeIn p σ sm sn j fld) σ with
              | ok y =>
                rw [(iVal _ _ _ _).ok h]
                obtain ⟨σ1, v⟩ := y
                exact iSF _ _ _ _ _ _ _
              | err => rw [(iVal _ _ _ _).err h]; right; rfl
              | fuel => left; rfl

theorem endService_stable (k : Nat × Name) {a b : Res St} (h : Stable a b) :
    Stable (endService k a) (endService k b) := by
  rcases h with h | h
  · left; rw [h]; rfl
  · right; rw [h]

theorem forEach_stable {α : Type} (g g' : α → St → Res St)
    (hg : ∀ x σ, Stable (g x σ) (g' x σ)) : ∀ (xs : List α) (σ : St), Stable (forEach g xs σ) (forEach g' xs σ) := by
  intro xs
  induction xs with
  | nil => intro σ; right; rfl
  | cons x xs ih =>
    intro σ
    simp only [forEach]
    cases h : g x σ with
    | ok σ1 => rw [(hg x σ).ok h]; exact ih σ1
    | err => rw [(hg x σ).err h]; right; rfl
    | fuel => left; rfl

theorem linkFunc_stable (p : GProg) (f m : Nat) (svc : Name) (fn : GFunc) (σ : St) :
    Stable (linkFunc f p m svc fn σ) (linkFunc (f + 1) p m svc fn σ) := by
  obtain ⟨iTy, _, iFields, _, _, _, _, _⟩ := monoStep p f
  unfold linkFunc
  split
  · right; rfl
  · cases h : linkFields f p (.args m svc fn.name) m 0 fn.args { σ with fflag := (m, svc, fn.name) :: σ.fflag } with
    | ok σ1 =>
      rw [(iFields _ _ _ _ _).ok h]
      simp only
      split
      · right; rfl
      · cases hr : fn.ret with
        | none =>
          simp only
          cases h3 : linkFields f p (.excs m svc fn.name) m 0 fn.excs σ1 with
          | ok σ3 => rw [(iFields _ _ _ _ _).ok h3]; right; rfl
          | err => rw [(iFields _ _ _ _ _).err h3]; right; rfl
          | fuel => left; rfl
        | some e =>
          simp only
          cases h2 : linkTy f p m e σ1 with
          | ok x =>
            rw [(iTy _ _ _).ok h2]
            obtain ⟨σ2, lt⟩ := x
            simp only
            cases h3 : linkFields f p (.excs m svc fn.name) m 0 fn.excs σ2 with
            | ok σ3 => rw [(iFields _ _ _ _ _).ok h3]; right; rfl
            | err => rw [(iFields _ _ _ _ _).err h3]; right; rfl
            | fuel => left; rfl
          | err => rw [(iTy _ _ _).err h2]; right; rfl
          | fuel => left; rfl
    | err => rw [(iFields _ _ _ _ _).err h]; right; rfl
    | fuel => left; rfl

theorem service_stable (p : GProg) (o : Orders) :
    ∀ f, (∀ m n σ, Stable (linkService f p o m n σ) (linkService (f + 1) p o m n σ)) ∧
         (∀ m n σ, Stable (resolveSvc f p o m n σ) (resolveSvc (f + 1) p o m n σ)) := by
  intro f
  induction f with
  | zero => exact ⟨fun _ _ _ => Or.inl (by simp [linkService]), fun _ _ _ => Or.inl (by simp [resolveSvc])⟩
  | succ f ih =>
    obtain ⟨iS, iR⟩ := ih
    have hfn : ∀ (m : Nat) (n : Name) (s : GService) (fname : Name) (σ : St),
        Stable (match findFunc fname s.funcs with
          | some g => linkFunc f p m n g σ
          | none => Res.ok σ)
          (match findFunc fname s.funcs with
          | some g => linkFunc (f + 1) p m n g σ
          | none => Res.ok σ) := by
      intro m n s fname σ
      split
      · exact linkFunc_stable p f m n _ σ
      · right; rfl
    refine ⟨?_, ?_⟩
    · intro m n σ
      simp only [linkService]
      cases hl : lookupService p m n with
      | none => right; rfl
      | some s =>
        simp only
        split
        · right; rfl
        · cases hp : s.parent with
          | none => exact endService_stable _ (forEach_stable _ _ (fun x σ => hfn m n s x σ) _ _)
          | some pname =>
            simp only
            cases h : resolveSvc f p o m pname { σ with vflag := (m, n) :: σ.vflag, vlink := (m, n) :: σ.vlink } with
            | ok x =>
              rw [(iR _ _ _).ok h]
              obtain ⟨σ1, pk⟩ := x
              exact endService_stable _ (forEach_stable _ _ (fun x σ => hfn m n s x σ) _ _)
            | err => rw [(iR _ _ _).err h]; right; rfl
            | fuel => left; rfl
    · intro m n σ
      simp only [resolveSvc]
      cases hl : lookupService p m n with
      | some s =>
        simp only
        cases h : linkService f p o m n σ with
        | ok σ1 => rw [(iS _ _ _).ok h]; right; rfl
        | err => rw [(iS _ _ _).err h]; right; rfl
        | fuel => left; rfl
      | none =>
        simp only
        cases hs : splitInclude n with
        | none => right; rfl
        | some pr =>
          obtain ⟨mn, inm⟩ := pr
          simp only
          cases hi : lookupInclude p m mn with
          | none => right; rfl
          | some m' => exact iR _ _ _

theorem prelinkFuncs_stable (p : GProg) (f : Nat) (o : Orders) (pre : Bool) (m : Nat) (svcs : List Name) (σ : St) :
    Stable (prelinkFuncs f p o pre m svcs σ) (prelinkFuncs (f + 1) p o pre m svcs σ) := by
  unfold prelinkFuncs
  split
  · apply forEach_stable
    intro n σa
    unfold linkFuncsOf
    split
    · apply forEach_stable
      intro fname σb
      split
      · exact linkFunc_stable p f m n _ σb
      · right; rfl
    · right; rfl
  · right; rfl

theorem linkModule_stable (p : GProg) (f : Nat) (o : Orders) (pre : Bool) (m : Nat) (σ : St) :
    Stable (linkModule f p o pre m σ) (linkModule (f + 1) p o pre m σ) := by
  obtain ⟨_, iNamed, _, iConst, _, _, _, _⟩ := monoStep p f
  unfold linkModule
  cases h1 : forEach (fun n σ' => linkNamed f p m n σ') (applyOrder (o.at m).types ((modAt p m).types.map (·.1))) σ with
  | ok σ1 =>
    rw [(forEach_stable _ (fun n σ' => linkNamed (f + 1) p m n σ') (fun n σ' => iNamed m n σ') _ _).ok h1]
    simp only
    cases h2 : forEach (fun n σ' => linkConst f p m n σ') (applyOrder (o.at m).consts ((modAt p m).consts.map (·.1))) σ1 with
    | ok σ2 =>
      rw [(forEach_stable _ (fun n σ' => linkConst (f + 1) p m n σ') (fun n σ' => iConst m n σ') _ _).ok h2]
      simp only
      cases h3 : prelinkFuncs f p o pre m (applyOrder (o.at m).services ((modAt p m).services.map (·.1))) σ2 with
      | ok σ3 =>
        rw [(prelinkFuncs_stable p f o pre m _ σ2).ok h3]
        simp only
        cases h4 : forEach (fun n σ' => linkService f p o m n σ') (applyOrder (o.at m).services ((modAt p m).services.map (·.1))) σ3 with
        | ok σ4 =>
          rw [(forEach_stable _ (fun n σ' => linkService (f + 1) p o m n σ')
            (fun n σ' => (service_stable p o f).1 m n σ') _ _).ok h4]
          right; rfl
        | err =>
          rw [(forEach_stable _ (fun n σ' => linkService (f + 1) p o m n σ')
            (fun n σ' => (service_stable p o f).1 m n σ') _ _).err h4]
          right; rfl
        | fuel => left; rfl
      | err => rw [(prelinkFuncs_stable p f o pre m _ σ2).err h3]; right; rfl
      | fuel => left; rfl
    | err =>
      rw [(forEach_stable _ (fun n σ' => linkConst (f + 1) p m n σ') (fun n σ' => iConst m n σ') _ _).err h2]
      right; rfl
    | fuel => left; rfl
  | err =>
    rw [(forEach_stable _ (fun n σ' => linkNamed (f + 1) p m n σ') (fun n σ' => iNamed m n σ') _ _).err h1]
    right; rfl
  | fuel => left; rfl

theorem walk_stable (p : GProg) (f : Nat) (o : Orders) (pre : Bool) :
    ∀ (wf : Nat) (q v : List Nat) (σ : St), Stable (walk f p o pre wf q v σ) (walk (f + 1) p o pre wf q v σ) := by
  intro wf
  induction wf with
  | zero => intro q v σ; right; rfl
  | succ wf ih =>
    intro q v σ
    cases q with
    | nil => right; rfl
    | cons m q =>
      simp only [walk]
      split
      · exact ih _ _ _
      · cases h : linkModule f p o pre m σ with
        | ok σ1 => rw [(linkModule_stable p f o pre m σ).ok h]; exact ih _ _ _
        | err => rw [(linkModule_stable p f o pre m σ).err h]; right; rfl
        | fuel => left; rfl

theorem compileWith_stable (pre : Bool) (f : Nat) (o : Orders) (src : Program) :
    Stable (compileWith pre f o src) (compileWith pre (f + 1) o src) := by
  unfold compileWith
  cases hg : gather src with
  | none => right; rfl
  | some p =>
    simp only
    cases h : walk f p o pre (walkFuel p) [0] [] St.init with
    | ok σ => rw [(walk_stable p f o pre _ _ _ _).ok h]; right; rfl
    | err => rw [(walk_stable p f o pre _ _ _ _).err h]; right; rfl
    | fuel => left; rfl

/-- **A verdict other than "fuel exhausted" does not depend on the fuel.** -/
theorem compileWith_mono {pre : Bool} {fuel : Nat} {o : Orders} {src : Program} {r : Res Compiled}
    (h : compileWith pre fuel o src = r) (hr : r ≠ .fuel) :
    ∀ g, fuel ≤ g → compileWith pre g o src = r := by
  intro g hg
  induction g with
  | zero =>
    have : fuel = 0 := by omega
    subst this; exact h
  | succ g ih =>
    by_cases hfg : fuel = g + 1
    · subst hfg; exact h
    · have hg' := ih (by omega)
      rcases compileWith_stable pre g o src with hs | hs
      · rw [hs] at hg'; exact absurd hg'.symm hr
      · rw [← hs]; exact hg'

/-! ### totality for programs without constants and defaults: an explicit measure -/

def TExpr.size : TExpr → Nat
  | .base _ _ => 1
  | .list _ e => e.size + 1
  | .set _ e => e.size + 1
  | .map _ k v => k.size + v.size + 1
  | .ref n => n.length + 2

def tFieldsSize : List GField → Nat
  | [] => 0
  | f :: rest => f.ty.size + 1 + tFieldsSize rest

def noDflt (fs : List GField) : Bool := fs.all (fun f => f.dflt.isNone)

def defWeight : TDef → Nat
  | .typedef t => t.size + 1
  | .struct _ fs => tFieldsSize fs + 1
  | .enum _ => 0

def funcWeight (g : GFunc) : Nat :=
  tFieldsSize g.args + tFieldsSize g.excs + (match g.ret with | some e => e.size | none => 0) + 1

def svcWeight (s : GService) : Nat :=
  (s.funcs.map funcWeight).sum + (match s.parent with | some n => n.length | none => 0) + 1

def modWeight (m : Mod) : Nat :=
  (m.types.map (fun t => defWeight t.2)).sum + (m.services.map (fun s => svcWeight s.2)).sum

/-- `D`: strictly above the size of every definition body, function signature and parent name -/
def progWeight (p : GProg) : Nat := (p.map modWeight).sum + 2

/-- no constants, no default values -/
def typesOnlyB (p : GProg) : Bool :=
  p.all fun m =>
    m.consts.isEmpty &&
    m.types.all (fun t => match t.2 with | .struct _ fs => noDflt fs | _ => true) &&
    m.services.all (fun s => s.2.funcs.all (fun g => noDflt g.args && noDflt g.excs))

def TypesOnly (p : GProg) : Prop := typesOnlyB p = true

instance (p : GProg) : Decidable (TypesOnly p) := by unfold TypesOnly; infer_instance

def allTypeKeys (p : GProg) : List (Nat × Name) :=
  (List.range p.length).flatMap (fun m => (modAt p m).types.map (fun t => (m, t.1)))

def allSvcKeys (p : GProg) : List (Nat × Name) :=
  (List.range p.length).flatMap (fun m => (modAt p m).services.map (fun t => (m, t.1)))

/-- fuel that suffices for every `Link` call of a program without constants and defaults -/
def linkBound (p : GProg) : Nat :=
  ((allTypeKeys p).length + (allSvcKeys p).length + 2) * progWeight p + 4

theorem le_sum_of_mem {l : List Nat} {x : Nat} (h : x ∈ l) : x ≤ l.sum := by
  induction l with
  | nil => cases h
  | cons a l ih =>
    simp only [List.sum_cons]
    simp only [List.mem_cons] at h
    rcases h with rfl | h
    · omega
    · have := ih h; omega

theorem mem_of_alookup {α β : Type} [DecidableEq α] {k : α} {v : β} :
    ∀ {l : List (α × β)}, alookup k l = some v → (k, v) ∈ l := by
  intro l
  induction l with
  | nil => intro h; cases h
  | cons p rest ih =>
    intro h
    obtain ⟨k', v'⟩ := p
    unfold alookup at h
    split at h
    · rename_i hk; cases h; subst hk; exact List.mem_cons_self
    · exact List.mem_cons_of_mem _ (ih h)

theorem modAt_mem {p : GProg} {m : Nat} (h : modAt p m ≠ Mod.empty) : m < p.length ∧ modAt p m ∈ p := by
  unfold modAt at h ⊢
  by_cases hm : m < p.length
  · refine ⟨hm, ?_⟩
    rw [List.getD_eq_getElem?_getD, List.getElem?_eq_getElem hm]
    simp
  · exfalso
    apply h
    rw [List.getD_eq_getElem?_getD, List.getElem?_eq_none (by omega)]
    rfl

theorem lookupType_mod {p : GProg} {m : Nat} {n : Name} {d : TDef} (h : lookupType p m n = some d) :
    m < p.length ∧ modAt p m ∈ p ∧ (n, d) ∈ (modAt p m).types := by
  have hm := mem_of_alookup h
  have hne : modAt p m ≠ Mod.empty := by
    intro he; rw [he] at hm; simp [Mod.empty] at hm
  exact ⟨(modAt_mem hne).1, (modAt_mem hne).2, hm⟩

theorem lookupService_mod {p : GProg} {m : Nat} {n : Name} {s : GService} (h : lookupService p m n = some s) :
    m < p.length ∧ modAt p m ∈ p ∧ (n, s) ∈ (modAt p m).services := by
  have hm := mem_of_alookup h
  have hne : modAt p m ≠ Mod.empty := by
    intro he; rw [he] at hm; simp [Mod.empty] at hm
  exact ⟨(modAt_mem hne).1, (modAt_mem hne).2, hm⟩

theorem defWeight_lt {p : GProg} {m : Nat} {n : Name} {d : TDef} (h : lookupType p m n = some d) :
    defWeight d + 2 ≤ progWeight p := by
  obtain ⟨_, hmod, hd⟩ := lookupType_mod h
  have h1 : defWeight d ≤ ((modAt p m).types.map (fun t => defWeight t.2)).sum :=
    le_sum_of_mem (List.mem_map.2 ⟨(n, d), hd, rfl⟩)
  have h2 : modWeight (modAt p m) ≤ (p.map modWeight).sum := le_sum_of_mem (List.mem_map.2 ⟨_, hmod, rfl⟩)
  unfold progWeight modWeight at *
  omega

theorem svcWeight_lt {p : GProg} {m : Nat} {n : Name} {s : GService} (h : lookupService p m n = some s) :
    svcWeight s + 2 ≤ progWeight p := by
  obtain ⟨_, hmod, hd⟩ := lookupService_mod h
  have h1 : svcWeight s ≤ ((modAt p m).services.map (fun t => svcWeight t.2)).sum :=
    le_sum_of_mem (List.mem_map.2 ⟨(n, s), hd, rfl⟩)
  have h2 : modWeight (modAt p m) ≤ (p.map modWeight).sum := le_sum_of_mem (List.mem_map.2 ⟨_, hmod, rfl⟩)
  unfold progWeight modWeight at *
  omega

theorem typesOnly_mod {p : GProg} (ht : TypesOnly p) {md : Mod} (h : md ∈ p) :
    md.consts = [] ∧
    (∀ n k fs, (n, TDef.struct k fs) ∈ md.types → noDflt fs = true) ∧
    (∀ n s, (n, s) ∈ md.services → ∀ g ∈ s.funcs, noDflt g.args = true ∧ noDflt g.excs = true) := by
  unfold TypesOnly typesOnlyB at ht
  have := List.all_eq_true.1 ht md h
  simp only [Bool.and_eq_true] at this
  obtain ⟨⟨h1, h2⟩, h3⟩ := this
  refine ⟨by simpa using h1, ?_, ?_⟩
  · intro n k fs hm
    have := List.all_eq_true.1 h2 _ hm
    simpa using this
  · intro n s hm g hg
    have := List.all_eq_true.1 (List.all_eq_true.1 h3 _ hm) g hg
    simpa using this

/-- every unflagged named type is in `U` -/
def Cover (p : GProg) (σ : St) (U : List (Nat × Name)) : Prop :=
  ∀ m n, (lookupType p m n).isSome = true → σ.tflag.contains (m, n) = false → (m, n) ∈ U

def FlagsLe (σ σ' : St) : Prop := ∀ k, σ.tflag.contains k = true → σ'.tflag.contains k = true

theorem Cover.mono {p : GProg} {σ σ' : St} {U : List (Nat × Name)} (h : Cover p σ U) (hf : FlagsLe σ σ') :
    Cover p σ' U := by
  intro m n hl hc
  apply h m n hl
  cases hcc : σ.tflag.contains (m, n) with
  | false => rfl
  | true => rw [hf _ hcc] at hc; cases hc

theorem allTypeKeys_cover (p : GProg) (σ : St) : Cover p σ (allTypeKeys p) := by
  intro m n hl _
  cases hd : lookupType p m n with
  | none => rw [hd] at hl; cases hl
  | some d =>
    obtain ⟨hm, _, hmem⟩ := lookupType_mod hd
    unfold allTypeKeys
    rw [List.mem_flatMap]
    exact ⟨m, List.mem_range.2 hm, List.mem_map.2 ⟨(n, d), hmem, rfl⟩⟩

/-- `l` without every occurrence of `k` -/
def dropKey {α : Type} [DecidableEq α] (k : α) : List α → List α
  | [] => []
  | a :: l => if a = k then dropKey k l else a :: dropKey k l

theorem dropKey_length_le {α : Type} [DecidableEq α] (k : α) (l : List α) : (dropKey k l).length ≤ l.length := by
  induction l with
  | nil => simp [dropKey]
  | cons a l ih =>
    unfold dropKey
    split
    · simp only [List.length_cons]; omega
    · simp only [List.length_cons]; omega

theorem dropKey_length {α : Type} [DecidableEq α] {l : List α} {k : α} (h : k ∈ l) :
    (dropKey k l).length + 1 ≤ l.length := by
  induction l with
  | nil => cases h
  | cons a l ih =>
    unfold dropKey
    simp only [List.mem_cons] at h
    split
    · have := dropKey_length_le k l
      simp only [List.length_cons]; omega
    · rename_i hak
      rcases h with h | h
      · exact absurd h.symm hak
      · have := ih h
        simp only [List.length_cons]; omega

theorem mem_dropKey {α : Type} [DecidableEq α] {l : List α} {k x : α} (hx : x ∈ l) (hne : x ≠ k) :
    x ∈ dropKey k l := by
  induction l with
  | nil => cases hx
  | cons a l ih =>
    unfold dropKey
    simp only [List.mem_cons] at hx
    split
    · rename_i hak
      rcases hx with hx | hx
      · subst hx; exact absurd hak hne
      · exact ih hx
    · rcases hx with hx | hx
      · subst hx; exact List.mem_cons_self
      · exact List.mem_cons_of_mem _ (ih hx)

/-- verdict of a `Link` call that did not run out of fuel and only added flags -/
def Good (σ : St) (r : Res St) : Prop := r = .err ∨ ∃ σ', r = .ok σ' ∧ FlagsLe σ σ'
def GoodT (σ : St) (r : Res (St × LType)) : Prop := r = .err ∨ ∃ σ' lt, r = .ok (σ', lt) ∧ FlagsLe σ σ'

theorem FlagsLe.refl (σ : St) : FlagsLe σ σ := fun _ h => h
theorem FlagsLe.trans {a b c : St} (h₁ : FlagsLe a b) (h₂ : FlagsLe b c) : FlagsLe a c := fun k h => h₂ k (h₁ k h)

theorem Good.ne_fuel {σ : St} {r : Res St} (h : Good σ r) : r ≠ .fuel := by
  rcases h with h | ⟨_, h, _⟩ <;> rw [h] <;> intro hh <;> cases hh

theorem GoodT.ne_fuel {σ : St} {r : Res (St × LType)} (h : GoodT σ r) : r ≠ .fuel := by
  rcases h with h | ⟨_, _, h, _⟩ <;> rw [h] <;> intro hh <;> cases hh

/-- the three type-linking functions terminate within `|U| * D + size` where `U` covers the
named types not yet flagged -/
def TypesTotal (p : GProg) (f : Nat) : Prop :=
  (∀ m e σ U, Cover p σ U → U.length * progWeight p + e.size < f → GoodT σ (linkTy f p m e σ)) ∧
  (∀ m n σ U, Cover p σ U → U.length * progWeight p < f → Good σ (linkNamed f p m n σ)) ∧
  (∀ o m i fs σ U, noDflt fs = true → Cover p σ U → U.length * progWeight p + tFieldsSize fs < f →
      Good σ (linkFields f p o m i fs σ))

theorem ownerMark_tflag (o : FOwner) (i : Nat) (σ : St) : (ownerMark o i σ).tflag = σ.tflag := by
  cases o <;> rfl

theorem typesTotal (p : GProg) (ht : TypesOnly p) : ∀ f, TypesTotal p f := by
  intro f
  induction f with
  | zero => exact ⟨fun _ _ _ _ _ h => by omega, fun _ _ _ _ _ h => by omega, fun _ _ _ _ _ _ _ _ h => by omega⟩
  | succ f ih =>
    obtain ⟨iTy, iNamed, iFields⟩ := ih
    refine ⟨?_, ?_, ?_⟩
    · -- linkTy
      intro m e σ U hc hf
      cases e with
      | base o b => right; exact ⟨σ, .base o b, by simp [linkTy], FlagsLe.refl σ⟩
      | list o e =>
        simp only [linkTy]
        rcases iTy m e σ U hc (by simp only [TExpr.size] at hf; omega) with h | ⟨σ1, lt, h, hle⟩
        · rw [h]; left; rfl
        · rw [h]; right; exact ⟨σ1, _, rfl, hle⟩
      | set o e =>
        simp only [linkTy]
        rcases iTy m e σ U hc (by simp only [TExpr.size] at hf; omega) with h | ⟨σ1, lt, h, hle⟩
        · rw [h]; left; rfl
        · rw [h]; right; exact ⟨σ1, _, rfl, hle⟩
      | map o k v =>
        simp only [linkTy]
        rcases iTy m k σ U hc (by simp only [TExpr.size] at hf; omega) with h | ⟨σ1, lt, h, hle⟩
        · rw [h]; left; rfl
        · rw [h]
          simp only
          rcases iTy m v σ1 U (hc.mono hle) (by simp only [TExpr.size] at hf; omega) with h2 | ⟨σ2, lt2, h2, hle2⟩
          · rw [h2]; left; rfl
          · rw [h2]; right; exact ⟨σ2, _, rfl, hle.trans hle2⟩
      | ref n =>
        simp only [linkTy]
        cases hl : lookupType p m n with
        | some d =>
          simp only
          rcases iNamed m n σ U hc (by simp only [TExpr.size] at hf; omega) with h | ⟨σ1, h, hle⟩
          · rw [h]; left; rfl
          · rw [h]; right; exact ⟨σ1, _, rfl, hle⟩
        | none =>
          simp only
          cases hs : splitInclude n with
          | none => left; rfl
          | some pr =>
            obtain ⟨mn, inm⟩ := pr
            simp only
            cases hi : lookupInclude p m mn with
            | none => left; rfl
            | some m' =>
              have := splitInclude_length hs
              exact iTy m' (.ref inm) σ U hc (by simp only [TExpr.size] at hf ⊢; omega)
    · -- linkNamed
      intro m n σ U hc hf
      simp only [linkNamed]
      cases hl : lookupType p m n with
      | none => left; rfl
      | some d =>
        have hw := defWeight_lt hl
        cases d with
        | enum items => right; exact ⟨σ, rfl, FlagsLe.refl σ⟩
        | typedef target =>
          simp only
          cases hflag : σ.tflag.contains (m, n) with
          | true => simp only [if_true]; right; exact ⟨σ, rfl, FlagsLe.refl σ⟩
          | false =>
            simp only [Bool.false_eq_true, if_false]
            have hmem : (m, n) ∈ U := hc m n (by rw [hl]; rfl) hflag
            have hlen := dropKey_length hmem
            have hc' : Cover p { σ with tflag := (m, n) :: σ.tflag } (dropKey (m, n) U) := by
              intro m' n' hl' hc''
              have hne : (m', n') ≠ (m, n) := by
                intro heq
                rw [heq] at hc''
                simp at hc''
              have h2 : σ.tflag.contains (m', n') = false := by
                simp only [List.contains_cons, Bool.or_eq_false_iff] at hc''
                exact hc''.2
              exact mem_dropKey (hc m' n' hl' h2) hne
            have hle0 : FlagsLe σ { σ with tflag := (m, n) :: σ.tflag } := by
              intro k hk
              simp only [List.contains_cons, Bool.or_eq_true]
              exact Or.inr hk
            have hmul : (dropKey (m, n) U).length * progWeight p + progWeight p
                ≤ U.length * progWeight p := by
              have := Nat.mul_le_mul_right (progWeight p) hlen
              rw [Nat.add_mul, Nat.one_mul] at this
              exact this
            rcases iTy m target _ _ hc' (by simp only [defWeight] at hw; omega) with h | ⟨σ1, lt, h, hle⟩
            · rw [h]; left; rfl
            · rw [h]; right
              exact ⟨_, rfl, fun k hk => hle k (hle0 k hk)⟩
        | struct kind fields =>
          simp only
          cases hflag : σ.tflag.contains (m, n) with
          | true => simp only [if_true]; right; exact ⟨σ, rfl, FlagsLe.refl σ⟩
          | false =>
            simp only [Bool.false_eq_true, if_false]
            have hmem : (m, n) ∈ U := hc m n (by rw [hl]; rfl) hflag
            have hlen := dropKey_length hmem
            have hc' : Cover p { σ with tflag := (m, n) :: σ.tflag } (dropKey (m, n) U) := by
              intro m' n' hl' hc''
              have hne : (m', n') ≠ (m, n) := by
                intro heq
                rw [heq] at hc''
                simp at hc''
              have h2 : σ.tflag.contains (m', n') = false := by
                simp only [List.contains_cons, Bool.or_eq_false_iff] at hc''
                exact hc''.2
              exact mem_dropKey (hc m' n' hl' h2) hne
            have hle0 : FlagsLe σ { σ with tflag := (m, n) :: σ.tflag } := by
              intro k hk
              simp only [List.contains_cons, Bool.or_eq_true]
              exact Or.inr hk
            have hmul : (dropKey (m, n) U).length * progWeight p + progWeight p
                ≤ U.length * progWeight p := by
              have := Nat.mul_le_mul_right (progWeight p) hlen
              rw [Nat.add_mul, Nat.one_mul] at this
              exact this
            obtain ⟨_, hmod, hmemd⟩ := lookupType_mod hl
            have hnd : noDflt fields = true := (typesOnly_mod ht hmod).2.1 n kind fields hmemd
            rcases iFields (.strct m n) m 0 fields _ _ hnd hc' (by simp only [defWeight] at hw; omega) with h | ⟨σ1, h, hle⟩
            · rw [h]; left; rfl
            · rw [h]; right
              exact ⟨_, rfl, fun k hk => hle k (hle0 k hk)⟩
    · -- linkFields
      intro o m i fs σ U hnd hc hf
      cases fs with
      | nil => right; exact ⟨σ, by simp [linkFields], FlagsLe.refl σ⟩
      | cons fld rest =>
        simp only [linkFields]
        simp only [noDflt, List.all_cons, Bool.and_eq_true] at hnd
        obtain ⟨hd, hrest⟩ := hnd
        have hdn : fld.dflt = none := by
          cases hdd : fld.dflt with
          | none => rfl
          | some d => rw [hdd] at hd; cases hd
        simp only [tFieldsSize] at hf
        rcases iTy m fld.ty σ U hc (by omega) with h | ⟨σ1, lt, h, hle⟩
        · rw [h]; left; rfl
        · rw [h]
          simp only [hdn]
          have hle1 : FlagsLe σ (ownerMark o i σ1) := by
            intro k hk; rw [ownerMark_tflag]; exact hle k hk
          rcases iFields o m (i + 1) rest (ownerMark o i σ1) U hrest (hc.mono hle1) (by omega) with h2 | ⟨σ2, h2, hle2⟩
          · rw [h2]; left; rfl
          · rw [h2]; right; exact ⟨σ2, rfl, hle1.trans hle2⟩

theorem forEach_ne_fuel {α : Type} (g : α → St → Res St) (hg : ∀ x σ, g x σ ≠ .fuel) :
    ∀ (xs : List α) (σ : St), forEach g xs σ ≠ .fuel := by
  intro xs
  induction xs with
  | nil => intro σ h; simp [forEach] at h
  | cons x xs ih =>
    intro σ
    simp only [forEach]
    cases h : g x σ with
    | ok σ1 => exact ih σ1
    | err => intro hh; cases hh
    | fuel => exact absurd h (hg x σ)

theorem linkFunc_ne_fuel (p : GProg) (ht : TypesOnly p) (fuel m : Nat) (svc : Name) (fn : GFunc) (σ : St)
    (hnd : noDflt fn.args = true ∧ noDflt fn.excs = true)
    (hb : (allTypeKeys p).length * progWeight p + funcWeight fn < fuel) :
    linkFunc fuel p m svc fn σ ≠ .fuel := by
  obtain ⟨iTy, _, iFields⟩ := typesTotal p ht fuel
  unfold funcWeight at hb
  unfold linkFunc
  split
  · intro h; cases h
  · rcases iFields (.args m svc fn.name) m 0 fn.args { σ with fflag := (m, svc, fn.name) :: σ.fflag }
        (allTypeKeys p) hnd.1 (allTypeKeys_cover p _) (by omega) with h | ⟨σ1, h, _⟩
    · rw [h]; intro hh; cases hh
    · rw [h]
      simp only
      split
      · intro hh; cases hh
      · have hex : ∀ σ2 : St, (match linkFields fuel p (.excs m svc fn.name) m 0 fn.excs σ2 with
            | .ok σ3 => if excsOk p m fn.excs = true then Res.ok σ3 else Res.err
            | .err => Res.err
            | .fuel => Res.fuel) ≠ .fuel := by
          intro σ2
          rcases iFields (.excs m svc fn.name) m 0 fn.excs σ2 (allTypeKeys p) hnd.2 (allTypeKeys_cover p _) (by omega)
            with h3 | ⟨σ3, h3, _⟩
          · rw [h3]; intro hh; cases hh
          · rw [h3]
            simp only
            split <;> (intro hh; cases hh)
        cases hrr : fn.ret with
        | none => exact hex σ1
        | some e =>
          rw [hrr] at hb
          simp only at hb ⊢
          rcases iTy m e σ1 (allTypeKeys p) (allTypeKeys_cover p _) (by omega) with h2 | ⟨σ2, lt, h2, _⟩
          · rw [h2]; intro hh; cases hh
          · rw [h2]; exact hex σ2

theorem endService_ne_fuel (k : Nat × Name) {r : Res St} (h : r ≠ .fuel) : endService k r ≠ .fuel := by
  cases r with
  | ok σ => intro hh; cases hh
  | err => intro hh; cases hh
  | fuel => exact absurd rfl h

/-- every unflagged service is in `V` -/
def CoverS (p : GProg) (σ : St) (V : List (Nat × Name)) : Prop :=
  ∀ m n, (lookupService p m n).isSome = true → σ.vflag.contains (m, n) = false → (m, n) ∈ V

theorem allSvcKeys_cover (p : GProg) (σ : St) : CoverS p σ (allSvcKeys p) := by
  intro m n hl _
  cases hd : lookupService p m n with
  | none => rw [hd] at hl; cases hl
  | some d =>
    obtain ⟨hm, _, hmem⟩ := lookupService_mod hd
    unfold allSvcKeys
    rw [List.mem_flatMap]
    exact ⟨m, List.mem_range.2 hm, List.mem_map.2 ⟨(n, d), hmem, rfl⟩⟩

theorem funcWeight_le_svc {s : GService} {g : GFunc} (h : g ∈ s.funcs) : funcWeight g < svcWeight s := by
  unfold svcWeight
  have := le_sum_of_mem (List.mem_map.2 ⟨g, h, rfl⟩ : funcWeight g ∈ s.funcs.map funcWeight)
  omega

theorem mem_of_findFunc {n : Name} : ∀ {fs : List GFunc} {g : GFunc}, findFunc n fs = some g → g ∈ fs := by
  intro fs
  induction fs with
  | nil => intro g h; cases h
  | cons a fs ih =>
    intro g h
    unfold findFunc at h
    split at h
    · cases h; exact List.mem_cons_self
    · exact List.mem_cons_of_mem _ (ih h)

/-- service linking terminates: `T` for the types a function may link, then `D` per service
not yet flagged, then the length of the parent name still to be resolved -/
def SvcTotal (p : GProg) (o : Orders) (f : Nat) : Prop :=
  (∀ m n σ V, CoverS p σ V →
      (allTypeKeys p).length * progWeight p + progWeight p + V.length * progWeight p < f →
      linkService f p o m n σ ≠ .fuel) ∧
  (∀ m name σ V, CoverS p σ V →
      (allTypeKeys p).length * progWeight p + progWeight p + V.length * progWeight p + name.length + 1 < f →
      resolveSvc f p o m name σ ≠ .fuel)

theorem svcTotal (p : GProg) (ht : TypesOnly p) (o : Orders) : ∀ f, SvcTotal p o f := by
  intro f
  induction f with
  | zero => exact ⟨fun _ _ _ _ _ h => by omega, fun _ _ _ _ _ h => by omega⟩
  | succ f ih =>
    obtain ⟨iS, iR⟩ := ih
    refine ⟨?_, ?_⟩
    · intro m n σ V hc hf
      simp only [linkService]
      cases hl : lookupService p m n with
      | none => intro h; cases h
      | some s =>
        simp only
        have hw := svcWeight_lt hl
        obtain ⟨_, hmod, hmem⟩ := lookupService_mod hl
        have hfuncs : ∀ (fname : Name) (σ' : St),
            (match findFunc fname s.funcs with
              | some g => linkFunc f p m n g σ'
              | none => Res.ok σ') ≠ .fuel := by
          intro fname σ'
          cases hfind : findFunc fname s.funcs with
          | none => intro h; cases h
          | some g =>
            simp only
            have hg := mem_of_findFunc hfind
            have := funcWeight_le_svc hg
            exact linkFunc_ne_fuel p ht f m n g σ' ((typesOnly_mod ht hmod).2.2 n s hmem g hg) (by omega)
        cases hflag : σ.vflag.contains (m, n) with
        | true => simp only [if_true]; split <;> (intro h; cases h)
        | false =>
          simp only [Bool.false_eq_true, if_false]
          cases hp : s.parent with
          | none => exact endService_ne_fuel _ (forEach_ne_fuel _ (fun x σ' => hfuncs x σ') _ _)
          | some pname =>
            simp only
            have hmemV : (m, n) ∈ V := hc m n (by rw [hl]; rfl) hflag
            have hlen := dropKey_length hmemV
            have hc' : CoverS p { σ with vflag := (m, n) :: σ.vflag, vlink := (m, n) :: σ.vlink } (dropKey (m, n) V) := by
              intro m' n' hl' hc''
              have hne : (m', n') ≠ (m, n) := by
                intro heq
                rw [heq] at hc''
                simp at hc''
              have h2 : σ.vflag.contains (m', n') = false := by
                simp only [List.contains_cons, Bool.or_eq_false_iff] at hc''
                exact hc''.2
              exact mem_dropKey (hc m' n' hl' h2) hne
            have hmul : (dropKey (m, n) V).length * progWeight p + progWeight p ≤ V.length * progWeight p := by
              have := Nat.mul_le_mul_right (progWeight p) hlen
              rw [Nat.add_mul, Nat.one_mul] at this
              exact this
            have hpl : pname.length + 1 ≤ svcWeight s := by
              unfold svcWeight; rw [hp]; simp only; omega
            cases h : resolveSvc f p o m pname { σ with vflag := (m, n) :: σ.vflag, vlink := (m, n) :: σ.vlink } with
            | ok x =>
              obtain ⟨σ1, pk⟩ := x
              exact endService_ne_fuel _ (forEach_ne_fuel _ (fun x σ' => hfuncs x σ') _ _)
            | err => intro hh; cases hh
            | fuel => exact absurd h (iR m pname _ _ hc' (by omega))
    · intro m name σ V hc hf
      simp only [resolveSvc]
      cases hl : lookupService p m name with
      | some s =>
        simp only
        cases h : linkService f p o m name σ with
        | ok σ1 => intro hh; cases hh
        | err => intro hh; cases hh
        | fuel => exact absurd h (iS m name σ V hc (by omega))
      | none =>
        simp only
        cases hs : splitInclude name with
        | none => intro h; cases h
        | some pr =>
          obtain ⟨mn, inm⟩ := pr
          simp only
          cases hi : lookupInclude p m mn with
          | none => intro h; cases h
          | some m' =>
            have := splitInclude_length hs
            exact iR m' inm σ V hc (by omega)

theorem applyOrder_nil (ord : List Name) : applyOrder ord [] = [] := by
  unfold applyOrder
  have : ord.filter (fun n => ([] : List Name).contains n) = [] := by
    induction ord with
    | nil => rfl
    | cons a l ih => simp
  rw [this]
  rfl

theorem linkBound_types (p : GProg) : (allTypeKeys p).length * progWeight p + progWeight p +
    (allSvcKeys p).length * progWeight p + 1 < linkBound p := by
  unfold linkBound
  rw [Nat.add_mul, Nat.add_mul]
  omega

theorem linkModule_ne_fuel (p : GProg) (ht : TypesOnly p) (o : Orders) (pre : Bool) (fuel m : Nat) (σ : St)
    (hf : linkBound p ≤ fuel) : linkModule fuel p o pre m σ ≠ .fuel := by
  have hb := linkBound_types p
  obtain ⟨_, iNamed, _⟩ := typesTotal p ht fuel
  have hconsts : (modAt p m).consts = [] := by
    by_cases hne : modAt p m = Mod.empty
    · rw [hne]; rfl
    · exact (typesOnly_mod ht (modAt_mem hne).2).1
  have hnamed : ∀ n σ', linkNamed fuel p m n σ' ≠ .fuel := fun n σ' =>
    (iNamed m n σ' (allTypeKeys p) (allTypeKeys_cover p σ') (by omega)).ne_fuel
  have hfuncs : ∀ n σ', linkFuncsOf fuel p o m n σ' ≠ .fuel := by
    intro n σ'
    unfold linkFuncsOf
    cases hl : lookupService p m n with
    | none => intro h; cases h
    | some s =>
      simp only
      have hw := svcWeight_lt hl
      obtain ⟨_, hmod, hmem⟩ := lookupService_mod hl
      apply forEach_ne_fuel
      intro fname σ''
      cases hfind : findFunc fname s.funcs with
      | none => intro h; cases h
      | some g =>
        simp only
        have hg := mem_of_findFunc hfind
        have := funcWeight_le_svc hg
        exact linkFunc_ne_fuel p ht fuel m n g σ'' ((typesOnly_mod ht hmod).2.2 n s hmem g hg) (by omega)
  unfold linkModule
  rw [hconsts]
  simp only [List.map_nil, applyOrder_nil, forEach]
  cases h1 : forEach (fun n σ' => linkNamed fuel p m n σ') (applyOrder (o.at m).types ((modAt p m).types.map (·.1))) σ with
  | ok σ1 =>
    simp only
    cases h3 : prelinkFuncs fuel p o pre m (applyOrder (o.at m).services ((modAt p m).services.map (·.1))) σ1 with
    | ok σ3 =>
      simp only
      cases h4 : forEach (fun n σ' => linkService fuel p o m n σ') (applyOrder (o.at m).services ((modAt p m).services.map (·.1))) σ3 with
      | ok σ4 => simp only; split <;> (intro hh; cases hh)
      | err => intro hh; cases hh
      | fuel =>
        exact absurd h4 (forEach_ne_fuel _ (fun n σ' =>
          (svcTotal p ht o fuel).1 m n σ' (allSvcKeys p) (allSvcKeys_cover p σ') (by omega)) _ _)
    | err => intro hh; cases hh
    | fuel =>
      exfalso
      unfold prelinkFuncs at h3
      split at h3
      · exact forEach_ne_fuel _ hfuncs _ _ h3
      · cases h3
  | err => intro hh; cases hh
  | fuel => exact absurd h1 (forEach_ne_fuel _ hnamed _ _)

theorem walk_ne_fuel (p : GProg) (ht : TypesOnly p) (o : Orders) (pre : Bool) (fuel : Nat) (hf : linkBound p ≤ fuel) :
    ∀ (wf : Nat) (q v : List Nat) (σ : St), walk fuel p o pre wf q v σ ≠ .fuel := by
  intro wf
  induction wf with
  | zero => intro q v σ h; simp [walk] at h
  | succ wf ih =>
    intro q v σ
    cases q with
    | nil => intro h; simp [walk] at h
    | cons m q =>
      simp only [walk]
      split
      · exact ih _ _ _
      · cases h : linkModule fuel p o pre m σ with
        | ok σ1 => exact ih _ _ _
        | err => intro hh; cases hh
        | fuel => exact absurd h (linkModule_ne_fuel p ht o pre fuel m σ hf)

/-- **Totality for programs without constants and defaults**, with the explicit bound
`linkBound`: whatever the visit orders, with or without the hook's pre-linking. -/
theorem compileWith_total_typesOnly {pre : Bool} {o : Orders} {src : Program} {p : GProg}
    (hg : gather src = some p) (ht : TypesOnly p) :
    ∀ fuel, linkBound p ≤ fuel → compileWith pre fuel o src ≠ .fuel := by
  intro fuel hf
  unfold compileWith
  rw [hg]
  simp only
  cases h : walk fuel p o pre (walkFuel p) [0] [] St.init with
  | ok σ => intro hh; cases hh
  | err => intro hh; cases hh
  | fuel => exact absurd h (walk_ne_fuel p ht o pre fuel hf _ _ _ _)

end ThriftVerif.Compile
