import ThriftVerif.Compile.Spec

namespace ThriftVerif.Compile

/-- the string keys of a struct literal, in the order written -/
def litKeys : List (CV × CV) → List Name
  | [] => []
  | (.str s, _) :: rest => s :: litKeys rest
  | _ :: rest => litKeys rest

/-- `buildConstantStruct` (since the repair of D95) accepts a literal only if every key is a string, no key
is given twice, and none is taken already -/
theorem buildStruct_some (kvs : List (CV × CV)) : ∀ (acc fs : List (Name × CV)),
    buildStruct kvs acc = some fs →
    (litKeys kvs).Nodup ∧ (∀ k ∈ litKeys kvs, alookup k acc = none) ∧ (litKeys kvs).length = kvs.length := by
  induction kvs with
  | nil => intro acc fs _; simp [litKeys]
  | cons e rest ih =>
    intro acc fs h
    obtain ⟨k, v⟩ := e
    cases k with
    | str s =>
      simp only [buildStruct] at h
      split at h
      · cases h
      · rename_i hs
        have hnone : alookup s acc = none := by
          cases ha : alookup s acc with
          | none => rfl
          | some x => simp [ha] at hs
        obtain ⟨hnd, hfree, hlen⟩ := ih _ _ h
        have hs_notin : s ∉ litKeys rest := by
          intro hmem
          have := hfree s hmem
          rw [alookup_aset_self] at this
          cases this
        refine ⟨?_, ?_, ?_⟩
        · simp only [litKeys, List.nodup_cons]
          exact ⟨hs_notin, hnd⟩
        · intro k hk
          simp only [litKeys, List.mem_cons] at hk
          rcases hk with rfl | hk
          · exact hnone
          · have h1 := hfree k hk
            have hne : s ≠ k := fun e => hs_notin (e ▸ hk)
            rwa [alookup_aset_ne _ _ hne] at h1
        · simp only [litKeys, List.length_cons, hlen]
    | _ => simp [buildStruct] at h

/-- a literal that gives one field twice is refused -/
theorem buildStruct_dup_rejected (kvs : List (CV × CV)) (h : ¬ (litKeys kvs).Nodup) : buildStruct kvs [] = none := by
  cases hb : buildStruct kvs [] with
  | none => rfl
  | some fs => exact absurd (buildStruct_some kvs [] fs hb).1 h

end ThriftVerif.Compile
