/-
M-Compile, part 4: the **declarative resolution spec** — Thrift's scoping and casting
rules as stateless functions over the gathered program: `resolveType`, `resolveExpr`,
`rootOf`, `resolveConst`, `resolveService`, `castConst` / `constValue`. No link state, no
flags, no visit order. The stateful linker (Link.lean) follows the Go code instead and is
compared with this spec (LinkProofs.lean, Properties/C07.lean, and the harness).

The scalar cast rules (`rootKind`, `castInt`, `buildStruct`) are shared with the linker:
they are the bodies of `ConstantInt.Link` etc., which have no state. Core-only.
-/
import ThriftVerif.Compile.Gather

namespace ThriftVerif.Compile

/-- A linked (or, for `uref`, still unlinked) `TypeSpec` value. `named m n` is the
definition object `Module[m].Types[n]` (a `*TypedefSpec`, `*EnumSpec` or `*StructSpec`);
the other constructors are the anonymous spec objects, identified by their occurrence. -/
inductive LType where
  | base (occ : Nat) (b : Base)
  | list (occ : Nat) (e : LType)
  | set (occ : Nat) (e : LType)
  | map (occ : Nat) (k v : LType)
  | named (m : Nat) (n : Name)
  | uref (name : Name)                -- typeSpecReference
  deriving DecidableEq, Repr, Inhabited

/-- an unlinked type as written -/
def TExpr.raw : TExpr → LType
  | .base o b => .base o b
  | .list o e => .list o e.raw
  | .set o e => .set o e.raw
  | .map o k v => .map o k.raw v.raw
  | .ref n => .uref n

/-- Go pointer identity of a `TypeSpec` interface value (what `t == c.Target.Type` compares) -/
def LType.ident : LType → Option (Sum (Nat × Name) Nat)
  | .base o _ => some (.inr o)
  | .list o _ => some (.inr o)
  | .set o _ => some (.inr o)
  | .map o _ _ => some (.inr o)
  | .named m n => some (.inl (m, n))
  | .uref _ => none

def sameType (a b : LType) : Bool := a.ident.isSome && decide (a.ident = b.ident)

/-! ### lookups in the gathered program -/

def modAt (p : GProg) (m : Nat) : Mod := p.getD m Mod.empty
def lookupType (p : GProg) (m : Nat) (n : Name) : Option TDef := alookup n (modAt p m).types
def lookupConst (p : GProg) (m : Nat) (n : Name) : Option GConst := alookup n (modAt p m).consts
def lookupService (p : GProg) (m : Nat) (n : Name) : Option GService := alookup n (modAt p m).services
def lookupInclude (p : GProg) (m : Nat) (n : Name) : Option Nat := alookup n (modAt p m).includes

/-- what a root type is, as far as casting constants is concerned -/
inductive RootKind where
  | bool | int (bits : Nat) | double | string | binary
  | enum (m : Nat) (n : Name) (items : List (Name × Int))
  | strct (m : Nat) (n : Name) (fields : List GField)
  | list (e : LType) | set (e : LType) | map (k v : LType)
  | other
  deriving Repr

def rootKind (p : GProg) : Option LType → RootKind
  | some (.base _ .bool) => .bool
  | some (.base _ .i8) => .int 8
  | some (.base _ .i16) => .int 16
  | some (.base _ .i32) => .int 32
  | some (.base _ .i64) => .int 64
  | some (.base _ .double) => .double
  | some (.base _ .string) => .string
  | some (.base _ .binary) => .binary
  | some (.list _ e) => .list e
  | some (.set _ e) => .set e
  | some (.map _ k v) => .map k v
  | some (.named m n) =>
    match lookupType p m n with
    | some (.enum items) => .enum m n items
    | some (.struct _ fields) => .strct m n fields
    | _ => .other
  | _ => .other

/-- first enum item with the given value (`for _, item := range spec.Items`) -/
def findItemByValue (v : Int) : List (Name × Int) → Option (Name × Int)
  | [] => none
  | (n, x) :: rest => if x = v then some (n, x) else findItemByValue v rest

/-- `ConstantInt.Link`: an integer must lie in the range of an i8/i16/i32 type (`inRange`); at
an enum type it denotes the item with exactly that value. -/
def castInt (k : RootKind) (n : Int) : Option CV :=
  match k with
  | .int bits => if inRange bits n then some (.int n) else none
  | .double => some (.dbl (doubleOfInt n))
  | .bool => if n = 0 then some (.bool false) else if n = 1 then some (.bool true) else none
  | .enum m en items =>
    match findItemByValue n items with
    | some (item, v) => some (.eref m en item v)
    | none => none
  | _ => none

/-- what `scalarKey` (compile/constant_value.go) compares: booleans, numbers, strings and enum
items, as the generated map / set literal will compare them when it is compiled. -/
inductive SKey where
  | b (x : Bool) | i (x : Int) | d (bits : Nat) | s (x : Str)
  deriving DecidableEq, Repr

/-- a double as a Go map key: NaN equals nothing (no key), negative zero equals zero -/
def dblKey (bits : Nat) : Option SKey :=
  if (bits / 2 ^ 52) % 2048 = 2047 ∧ bits % 2 ^ 52 ≠ 0 then none
  else if bits = 2 ^ 63 then some (.d 0) else some (.d bits)

/-- `duplicateScalar`: some value with a key equal to an earlier one -/
def dupKeys : List (Option SKey) → List SKey → Bool
  | [], _ => false
  | none :: rest, seen => dupKeys rest seen
  | some k :: rest, seen => if seen.contains k then true else dupKeys rest (k :: seen)

/-- `buildConstantStruct`: all keys must be string literals, and no key may be given twice (since the
repair of finding D95: one of the values would survive and the other never be checked). -/
def buildStruct : List (CV × CV) → List (Name × CV) → Option (List (Name × CV))
  | [], acc => some acc
  | (.str s, v) :: rest, acc =>
    if (alookup s acc).isSome then none else buildStruct rest (aset s v acc)
  | _ :: _, _ => none


/-! ### type resolution -/

/-- fuel-free type resolution, used to read back what an earlier `Link` stored
(`FieldSpec.Type`, `Constant.Type`, `TypedefSpec.Target` after linking). `resolveNameF`
is `typeSpecReference.Link`'s lookup: local name first, else split at the first dot. -/
def resolveNameF (p : GProg) : Nat → Nat → Name → Option (Nat × Name)
  | 0, _, _ => none
  | f + 1, m, n =>
    match lookupType p m n with
    | some _ => some (m, n)
    | none =>
      match splitInclude n with
      | none => none
      | some (mn, inm) =>
        match lookupInclude p m mn with
        | none => none
        | some m' => resolveNameF p f m' inm

def resolveType (p : GProg) (m : Nat) (n : Name) : Option (Nat × Name) :=
  resolveNameF p (n.length + 1) m n

def resolveExpr (p : GProg) (m : Nat) : TExpr → Option LType
  | .base o b => some (.base o b)
  | .list o e => (resolveExpr p m e).map (.list o)
  | .set o e => (resolveExpr p m e).map (.set o)
  | .map o k v =>
    match resolveExpr p m k, resolveExpr p m v with
    | some k', some v' => some (.map o k' v')
    | _, _ => none
  | .ref n => (resolveType p m n).map (fun k => .named k.1 k.2)


/-- `RootTypeSpec`, declaratively: the ultimate non-typedef target. `none`: the chain of
typedef targets does not end (cycle) or dangles. -/
def rootOfF (p : GProg) : Nat → LType → Option LType
  | 0, _ => none
  | f + 1, .named m n =>
    match lookupType p m n with
    | some (.typedef target) =>
      match resolveExpr p m target with
      | some t' => rootOfF p f t'
      | none => none
    | _ => some (.named m n)
  | _ + 1, t => some t

def typedefCount (p : GProg) : Nat :=
  (p.map (fun m => m.types.length)).sum

def rootOf (p : GProg) (t : LType) : Option LType := rootOfF p (typedefCount p + 1) t

/-! ### constant and service resolution -/

/-- what a constant reference denotes -/
inductive CTarget where
  | const (m : Nat) (n : Name)
  | item (m : Nat) (enum item : Name) (val : Int)
  deriving DecidableEq, Repr

/-- `constantReference.Link`'s lookup: a constant of that (possibly dotted) name in this
file; else split at the first dot: an item of a local enum; else the rest in the include. -/
def resolveConstF (p : GProg) : Nat → Nat → Name → Option CTarget
  | 0, _, _ => none
  | f + 1, m, name =>
    match lookupConst p m name with
    | some _ => some (.const m name)
    | none =>
      match splitInclude name with
      | none => none
      | some (mn, inm) =>
        match lookupType p m mn with
        | some (.enum items) =>
          match alookup inm items with
          | some v => some (.item m mn inm v)
          | none => none
        | _ =>
          match lookupInclude p m mn with
          | none => none
          | some m' => resolveConstF p f m' inm

def resolveConst (p : GProg) (m : Nat) (name : Name) : Option CTarget :=
  resolveConstF p (name.length + 1) m name

/-- `resolveService`'s lookup -/
def resolveServiceF (p : GProg) : Nat → Nat → Name → Option (Nat × Name)
  | 0, _, _ => none
  | f + 1, m, name =>
    match lookupService p m name with
    | some _ => some (m, name)
    | none =>
      match splitInclude name with
      | none => none
      | some (mn, inm) =>
        match lookupInclude p m mn with
        | none => none
        | some m' => resolveServiceF p f m' inm

def resolveService (p : GProg) (m : Nat) (name : Name) : Option (Nat × Name) :=
  resolveServiceF p (name.length + 1) m name

/-! ### casting constants to their declared type -/

mutual

/-- The value a constant expression `v`, written in module `m`, denotes at type `t`. -/
def castF : Nat → GProg → Nat → CV → LType → Option CV
  | 0, _, _, _, _ => none
  | f + 1, p, m, v, t =>
    match v with
    | .bool b =>
      match rootKind p (rootOf p t) with
      | .bool => some (.bool b)
      | _ => none
    | .int n => castInt (rootKind p (rootOf p t)) n
    | .str s =>
      match rootKind p (rootOf p t) with
      | .string => some (.str s)
      | _ => none
    | .dbl b =>
      match rootKind p (rootOf p t) with
      | .double => some (.dbl b)
      | _ => none
    | .map kvs =>
      match rootKind p (rootOf p t) with
      | .strct sm sn fields =>
        match buildStruct kvs [] with
        | none => none
        | some fs => (castFieldsF f p m sm sn 0 fields fs).map .struct
      | .map kt vt => (castPairsF f p m kvs kt vt).bind fun kvs' =>
          if dupKeys (kvs'.map fun kv => skeyF f p kv.1) [] then none else some (.map kvs')
      | _ => none
    | .struct fs =>
      match rootKind p (rootOf p t) with
      | .strct sm sn fields => (castFieldsF f p m sm sn 0 fields fs).map .struct
      | _ => none
    | .list xs =>
      match rootKind p (rootOf p t) with
      | .set e => (castValsF f p m xs e).bind fun xs' =>
          if dupKeys (xs'.map (skeyF f p)) [] then none else some (.set xs')
      | .list e => (castValsF f p m xs e).map .list
      | _ => none
    | .set xs =>
      match rootKind p (rootOf p t) with
      | .set e => (castValsF f p m xs e).bind fun xs' =>
          if dupKeys (xs'.map (skeyF f p)) [] then none else some (.set xs')
      | _ => none
    | .eref em en item val =>
      if rootOf p t = some (.named em en) then some (.eref em en item val) else none
    | .cref cm cn => castRefF f p cm cn t
    | .uref name =>
      match resolveConst p m name with
      | some (.const cm cn) => castRefF f p cm cn t
      -- an enum item is accepted at that enum only (`EnumItemReference.Link`)
      | some (.item em en item val) =>
        if rootOf p t = some (.named em en) then some (.eref em en item val) else none
      | none => none
termination_by structural fuel => fuel

/-- `scalarKey` on a value of the spec: a reference stands for the value of its constant -/
def skeyF : Nat → GProg → CV → Option SKey
  | _, _, .bool b => some (.b b)
  | _, _, .int n => some (.i n)
  | _, _, .dbl bits => dblKey bits
  | _, _, .str s => some (.s s)
  | _, _, .eref _ _ _ val => some (.i val)
  | 0, _, .cref _ _ => none
  | f + 1, p, .cref cm cn =>
    match constValueF f p cm cn with
    | some v => skeyF f p v
    | none => none
  | _, _, _ => none
termination_by structural fuel => fuel

/-- a reference to constant `(cm, cn)` used at type `t`: the reference itself when `t` is the
constant's own type object, otherwise the constant's value re-cast to `t` -/
def castRefF : Nat → GProg → Nat → Name → LType → Option CV
  | 0, _, _, _, _ => none
  | f + 1, p, cm, cn, t =>
    match lookupConst p cm cn with
    | none => none
    | some c =>
      match resolveExpr p cm c.ty with
      | none => none
      | some ct =>
        if sameType t ct then some (.cref cm cn) else
        match constValueF f p cm cn with
        | some cv => castF f p cm cv t
        | none => none
termination_by structural fuel => fuel

/-- the linked value of constant `(cm, cn)`: its expression cast to its declared type -/
def constValueF : Nat → GProg → Nat → Name → Option CV
  | 0, _, _, _ => none
  | f + 1, p, cm, cn =>
    match lookupConst p cm cn with
    | none => none
    | some c =>
      match resolveExpr p cm c.ty with
      | none => none
      | some ct => castF f p cm c.val ct
termination_by structural fuel => fuel

def castValsF : Nat → GProg → Nat → List CV → LType → Option (List CV)
  | 0, _, _, _, _ => none
  | _ + 1, _, _, [], _ => some []
  | f + 1, p, m, x :: xs, t =>
    match castF f p m x t, castValsF f p m xs t with
    | some x', some xs' => some (x' :: xs')
    | _, _ => none
termination_by structural fuel => fuel

def castPairsF : Nat → GProg → Nat → List (CV × CV) → LType → LType → Option (List (CV × CV))
  | 0, _, _, _, _, _ => none
  | _ + 1, _, _, [], _, _ => some []
  | f + 1, p, m, (k, v) :: rest, kt, vt =>
    match castF f p m k kt, castF f p m v vt, castPairsF f p m rest kt vt with
    | some k', some v', some rest' => some ((k', v') :: rest')
    | _, _, _ => none
termination_by structural fuel => fuel

/-- a struct literal: every field of the struct, in declaration order; a field missing from
the literal takes the field's default (itself cast in the struct's own module) -/
def castFieldsF : Nat → GProg → Nat → Nat → Name → Nat → List GField → List (Name × CV) →
    Option (List (Name × CV))
  | 0, _, _, _, _, _, _, _ => none
  | _ + 1, _, _, _, _, _, [], fs => some fs
  | f + 1, p, m, sm, sn, j, fld :: rest, fs =>
    match resolveExpr p sm fld.ty with
    | none => none
    | some ft =>
      match alookup fld.name fs with
      | some fv =>
        match castF f p m fv ft with
        | some v => castFieldsF f p m sm sn (j + 1) rest (aset fld.name v fs)
        | none => none
      | none =>
        match fld.dflt with
        | none => if fld.required then none else castFieldsF f p m sm sn (j + 1) rest fs
        | some d =>
          match castF f p sm d ft with
          | none => none
          | some d' =>
            match castF f p m d' ft with
            | some v => castFieldsF f p m sm sn (j + 1) rest (aset fld.name v fs)
            | none => none
termination_by structural fuel => fuel

end

/-! ### sizes, for the spec's fuel -/

mutual
  def CV.size : CV → Nat
    | .list xs => CV.sizeList xs + 1
    | .set xs => CV.sizeList xs + 1
    | .map kvs => CV.sizePairs kvs + 1
    | .struct fs => CV.sizeFields fs + 1
    | _ => 1
  def CV.sizeList : List CV → Nat
    | [] => 0
    | x :: xs => x.size + CV.sizeList xs + 1
  def CV.sizePairs : List (CV × CV) → Nat
    | [] => 0
    | (k, v) :: rest => k.size + v.size + CV.sizePairs rest + 1
  def CV.sizeFields : List (Name × CV) → Nat
    | [] => 0
    | (_, v) :: rest => v.size + CV.sizeFields rest + 1
end

def fieldsSize : List GField → Nat
  | [] => 0
  | f :: rest => (match f.dflt with | some d => d.size | none => 0) + 2 + fieldsSize rest

def typesSize : List (Name × TDef) → Nat
  | [] => 0
  | (_, .struct _ fs) :: rest => fieldsSize fs + 1 + typesSize rest
  | _ :: rest => 1 + typesSize rest

def constsSize : List (Name × GConst) → Nat
  | [] => 0
  | (_, c) :: rest => c.val.size + 2 + constsSize rest

def progSize (p : GProg) : Nat :=
  (p.map (fun m => typesSize m.types + constsSize m.consts)).sum

/-- Fuel for the spec's cast functions: constant references can nest at most as deep as
there are constants, each contributing at most its own size (plus the defaults it pulls
in); `progSize ^ 2` covers that. -/
def specFuel (p : GProg) : Nat := (progSize p + 2) * (progSize p + 2) + 8

/-- the value a constant expression written in module `m` denotes at type `t` -/
def castConst (p : GProg) (m : Nat) (v : CV) (t : LType) : Option CV := castF (specFuel p) p m v t

/-- the linked value of a constant -/
def constValue (p : GProg) (m : Nat) (n : Name) : Option CV := constValueF (specFuel p) p m n

/-- the linked default of field `j` of struct `(sm, sn)` -/
def fieldDefault (p : GProg) (sm : Nat) (fld : GField) : Option CV :=
  match fld.dflt, resolveExpr p sm fld.ty with
  | some d, some ft => castConst p sm d ft
  | _, _ => none

end ThriftVerif.Compile
