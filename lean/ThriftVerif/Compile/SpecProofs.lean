/-
Proofs about the declarative resolution spec (C07): scoping rules of `resolveType`,
`resolveConst`, `resolveService`; the root relation `IsRoot` and its executable version
`rootOf`; cast rules.
-/
import ThriftVerif.Compile.Spec

namespace ThriftVerif.Compile

/-! ### scoping -/

theorem resolveNameF_local {p : GProg} {f m : Nat} {n : Name} {d : TDef}
    (h : lookupType p m n = some d) : resolveNameF p (f + 1) m n = some (m, n) := by
  simp [resolveNameF, h]

/-- A name defined in the file itself — bare or dotted — denotes that definition: local
definitions shadow include-qualified names. -/
theorem resolveType_local {p : GProg} {m : Nat} {n : Name} {d : TDef}
    (h : lookupType p m n = some d) : resolveType p m n = some (m, n) :=
  resolveNameF_local h

theorem resolveNameF_fuel_irrelevant (p : GProg) :
    ∀ (f : Nat) (m : Nat) (n : Name), n.length < f → ∀ g, n.length < g →
      resolveNameF p f m n = resolveNameF p g m n := by
  intro f
  induction f with
  | zero => intro m n h; omega
  | succ f ih =>
    intro m n hf g hg
    cases g with
    | zero => omega
    | succ g =>
      simp only [resolveNameF]
      split
      · rfl
      · split
        · rfl
        · rename_i mn inm hs
          split
          · rfl
          · have hl := splitInclude_length hs
            exact ih _ _ (by omega) g (by omega)

/-- `inc.name`, when no local definition has that dotted name, denotes `name` in the file
included as `inc` — resolved there by the same rule. -/
theorem resolveType_include {p : GProg} {m m' : Nat} {n inc rest : Name}
    (hl : lookupType p m n = none) (hs : splitInclude n = some (inc, rest))
    (hi : lookupInclude p m inc = some m') : resolveType p m n = resolveType p m' rest := by
  unfold resolveType
  have h1 : resolveNameF p (n.length + 1) m n = resolveNameF p n.length m' rest := by
    simp only [resolveNameF, hl, hs, hi]
  rw [h1]
  have := splitInclude_length hs
  exact resolveNameF_fuel_irrelevant p _ _ _ (by omega) _ (by omega)

/-- A bare name (no dot) that is not defined in the file denotes nothing. -/
theorem resolveType_unknown {p : GProg} {m : Nat} {n : Name}
    (hl : lookupType p m n = none) (hs : splitInclude n = none) : resolveType p m n = none := by
  simp [resolveType, resolveNameF, hl, hs]

/-- An include-qualified name whose qualifier is no include of the file denotes nothing. -/
theorem resolveType_unknown_include {p : GProg} {m : Nat} {n inc rest : Name}
    (hl : lookupType p m n = none) (hs : splitInclude n = some (inc, rest))
    (hi : lookupInclude p m inc = none) : resolveType p m n = none := by
  simp [resolveType, resolveNameF, hl, hs, hi]

/-- A file reached through several include paths is one module: what `inc.name` denotes
depends only on which file `inc` is, not on the file the reference is written in nor on
the name it is included under. -/
theorem resolveType_shared_module {p : GProg} {m₁ m₂ k : Nat} {n₁ n₂ i₁ i₂ rest : Name}
    (hl₁ : lookupType p m₁ n₁ = none) (hs₁ : splitInclude n₁ = some (i₁, rest))
    (hi₁ : lookupInclude p m₁ i₁ = some k)
    (hl₂ : lookupType p m₂ n₂ = none) (hs₂ : splitInclude n₂ = some (i₂, rest))
    (hi₂ : lookupInclude p m₂ i₂ = some k) :
    resolveType p m₁ n₁ = resolveType p m₂ n₂ := by
  rw [resolveType_include hl₁ hs₁ hi₁, resolveType_include hl₂ hs₂ hi₂]

/-- Whatever `resolveType` answers is a definition that exists. -/
theorem resolveNameF_defined (p : GProg) :
    ∀ (f m : Nat) (n : Name) (k : Nat × Name), resolveNameF p f m n = some k →
      ∃ d, lookupType p k.1 k.2 = some d := by
  intro f
  induction f with
  | zero => intro m n k h; simp [resolveNameF] at h
  | succ f ih =>
    intro m n k h
    simp only [resolveNameF] at h
    split at h
    · rename_i d hd
      cases h
      exact ⟨d, hd⟩
    · split at h
      · cases h
      · split at h
        · cases h
        · exact ih _ _ _ h

theorem resolveType_defined {p : GProg} {m : Nat} {n : Name} {k : Nat × Name}
    (h : resolveType p m n = some k) : ∃ d, lookupType p k.1 k.2 = some d :=
  resolveNameF_defined p _ _ _ _ h

/-- constants: a (possibly dotted) constant name defined in the file itself wins -/
theorem resolveConst_local {p : GProg} {m : Nat} {n : Name} {c : GConst}
    (h : lookupConst p m n = some c) : resolveConst p m n = some (.const m n) := by
  simp [resolveConst, resolveConstF, h]

/-- `Enum.Item` denotes the item of the local enum `Enum` -/
theorem resolveConst_enum_item {p : GProg} {m : Nat} {n e item : Name} {items : List (Name × Int)} {v : Int}
    (hl : lookupConst p m n = none) (hs : splitInclude n = some (e, item))
    (he : lookupType p m e = some (.enum items)) (hv : alookup item items = some v) :
    resolveConst p m n = some (.item m e item v) := by
  simp [resolveConst, resolveConstF, hl, hs, he, hv]

/-- services: a service of that name in the file itself wins -/
theorem resolveService_local {p : GProg} {m : Nat} {n : Name} {s : GService}
    (h : lookupService p m n = some s) : resolveService p m n = some (m, n) := by
  simp [resolveService, resolveServiceF, h]

/-! ### roots -/

/-- `IsRoot p t r`: `r` is the ultimate non-typedef target of `t` (the declarative meaning
of `RootTypeSpec`). -/
inductive IsRoot (p : GProg) : LType → LType → Prop where
  | self (t : LType) :
      (∀ m n target, t = .named m n → lookupType p m n ≠ some (.typedef target)) → IsRoot p t t
  | step (m : Nat) (n : Name) (target : TExpr) (t r : LType) :
      lookupType p m n = some (.typedef target) → resolveExpr p m target = some t →
      IsRoot p t r → IsRoot p (.named m n) r

/-- The root is unique. -/
theorem IsRoot.functional {p : GProg} {t r₁ r₂ : LType} (h₁ : IsRoot p t r₁) (h₂ : IsRoot p t r₂) :
    r₁ = r₂ := by
  induction h₁ with
  | self t hn =>
    cases h₂ with
    | self _ _ => rfl
    | step m n target t' r hl _ _ => exact absurd hl (hn m n target rfl)
  | step m n target t r hl hr _ ih =>
    cases h₂ with
    | self _ hn => exact absurd hl (hn m n target rfl)
    | step _ _ target' t' _ hl' hr' h' =>
      rw [hl] at hl'
      cases hl'
      rw [hr] at hr'
      cases hr'
      exact ih h'

/-- The root is never a typedef. -/
theorem IsRoot.not_typedef {p : GProg} {t r : LType} (h : IsRoot p t r) :
    ∀ m n target, r = .named m n → lookupType p m n ≠ some (.typedef target) := by
  induction h with
  | self t hn => exact hn
  | step _ _ _ _ _ _ _ _ ih => exact ih

/-- The executable `rootOf` answers with the root. -/
theorem rootOfF_sound (p : GProg) :
    ∀ (f : Nat) (t r : LType), rootOfF p f t = some r → IsRoot p t r := by
  intro f
  induction f with
  | zero => intro t r h; simp [rootOfF] at h
  | succ f ih =>
    intro t r h
    cases t with
    | named m n =>
      simp only [rootOfF] at h
      split at h
      · rename_i target hl
        split at h
        · rename_i t' hr
          exact .step m n target t' r hl hr (ih _ _ h)
        · cases h
      · rename_i hne
        cases h
        exact .self _ (by
          intro m' n' target heq
          cases heq
          exact fun hl => hne target hl)
    | base o b => simp only [rootOfF] at h; cases h; exact .self _ (by intro _ _ _ h; cases h)
    | list o e => simp only [rootOfF] at h; cases h; exact .self _ (by intro _ _ _ h; cases h)
    | set o e => simp only [rootOfF] at h; cases h; exact .self _ (by intro _ _ _ h; cases h)
    | map o k v => simp only [rootOfF] at h; cases h; exact .self _ (by intro _ _ _ h; cases h)
    | uref n => simp only [rootOfF] at h; cases h; exact .self _ (by intro _ _ _ h; cases h)

theorem rootOf_sound {p : GProg} {t r : LType} (h : rootOf p t = some r) : IsRoot p t r :=
  rootOfF_sound p _ _ _ h

/-! ### casts -/

/-- An integer literal at an integer type denotes itself and lies in the range of that type
(the spec shares `castInt` with the linker). -/
theorem castF_int_exact {p : GProg} {f m : Nat} {n : Int} {t : LType} {bits : Nat} {v : CV}
    (hk : rootKind p (rootOf p t) = .int bits) (h : castF (f + 1) p m (.int n) t = some v) :
    v = .int n ∧ inRange bits n := by
  simp only [castF, hk, castInt] at h
  split at h
  · rename_i hr; cases h; exact ⟨rfl, hr⟩
  · cases h

/-! ### the order of definitions in a file does not matter -/

/-- A lookup in a map with unique keys does not depend on the order of its entries. -/
theorem alookup_perm {α β : Type} [DecidableEq α] {l₁ l₂ : List (α × β)} (hp : l₁.Perm l₂)
    (hn : (l₁.map (·.1)).Nodup) (k : α) : alookup k l₁ = alookup k l₂ := by
  induction hp with
  | nil => rfl
  | cons x _ ih =>
    obtain ⟨k', v⟩ := x
    simp only [List.map_cons, List.nodup_cons] at hn
    simp only [alookup]
    split
    · rfl
    · exact ih hn.2
  | swap x y l =>
    obtain ⟨kx, vx⟩ := x
    obtain ⟨ky, vy⟩ := y
    simp only [List.map_cons, List.nodup_cons, List.mem_cons, not_or] at hn
    simp only [alookup]
    by_cases h1 : ky = k
    · by_cases h2 : kx = k
      · exact absurd (h1.trans h2.symm) hn.1.1
      · simp [h1, h2]
    · by_cases h2 : kx = k
      · simp [h1, h2]
      · simp [h1, h2]
  | trans h₁ _ ih₁ ih₂ =>
    rw [ih₁ hn]
    exact ih₂ ((h₁.map (·.1)).nodup_iff.1 hn)

/-- Resolution sees a program only through its lookups: two programs with the same lookups
(in particular: the same definitions listed in a different order) resolve every name alike. -/
theorem resolveType_congr {p q : GProg}
    (ht : ∀ m n, lookupType p m n = lookupType q m n)
    (hi : ∀ m n, lookupInclude p m n = lookupInclude q m n) :
    ∀ m n, resolveType p m n = resolveType q m n := by
  intro m n
  unfold resolveType
  generalize n.length + 1 = f
  induction f generalizing m n with
  | zero => rfl
  | succ f ih =>
    simp only [resolveNameF, ht, hi]
    split
    · rfl
    · split
      · rfl
      · split
        · rfl
        · exact ih _ _

end ThriftVerif.Compile
