/-
M-Compile, part 6: the one place where the generator recurses over the compiled service
graph — `generateServiceBuilder.addService` (gen/plugin.go), reached from `gen.Generate`
through `AddRootService` for every service of every generated module. The service id is
recorded only *after* the recursive call for the parent returns, so a cyclic `Parent`
chain never ends. Core-only.
-/
import ThriftVerif.Compile.Link

namespace ThriftVerif.Compile

/-- `addService(spec)`: `ids` = services that already have an id (`g.serviceIDs`). -/
def addService (σ : St) : Nat → List (Nat × Name) → Nat × Name → Res (List (Nat × Name))
  | 0, _, _ => .fuel
  | f + 1, ids, k =>
    if ids.contains k then .ok ids else
    match alookup k σ.vpar with
    | some pk =>
      match addService σ f ids pk with
      | .ok ids' => .ok (k :: ids')
      | .err => .err
      | .fuel => .fuel
    | none => .ok (k :: ids)

/-- `AddRootService` for all the given services in turn -/
def addServices (σ : St) (fuel : Nat) : List (Nat × Name) → List (Nat × Name) → Res (List (Nat × Name))
  | [], ids => .ok ids
  | k :: rest, ids =>
    match addService σ fuel ids k with
    | .ok ids' => addServices σ fuel rest ids'
    | .err => .err
    | .fuel => .fuel

/-- all services of all modules `Module.Walk` reaches (the generator visits every module when
recursion is on; the order does not matter for termination) -/
def allServices (p : GProg) : Nat → List Nat → List Nat → List (Nat × Name)
  | 0, _, _ => []
  | _ + 1, [], _ => []
  | f + 1, m :: queue, seen =>
    if seen.contains m then allServices p f queue seen else
    ((modAt p m).services.map (fun s => (m, s.1))) ++
      allServices p f (queue ++ (modAt p m).includes.map (·.2)) (m :: seen)

/-! ### constants and defaults (gen/constant.go `ConstantValue`, gen/field.go) -/

/-- `isPrimitiveType` / `canBeConstant` (gen/type.go) -/
def isPrimitive (p : GProg) (σ : St) (t : LType) : Bool :=
  match rootKind p (rootIn p σ t) with
  | .bool | .int _ | .double | .string | .enum .. => true
  | _ => false

mutual

/-- `ConstantValue(g, c, t)`: a reference to a constant of primitive type is rendered by
name; a reference to any other constant is replaced by that constant's value, rendered
recursively — without end if the value leads back to the reference. -/
def genValue (p : GProg) (σ : St) : Nat → CV → Res Unit
  | 0, _ => .fuel
  | f + 1, v =>
    match v with
    | .cref cm cn =>
      match lookupConst p cm cn with
      | none => .ok ()
      | some c =>
        if isPrimitive p σ (constTypeIn p σ cm cn c) then .ok () else
        match alookup (cm, cn) σ.cval with
        | some cv => genValue p σ f cv
        | none => .ok ()
    | .list xs => genValues p σ f xs
    | .set xs => genValues p σ f xs
    | .map kvs => genPairs p σ f kvs
    | .struct fs => genFields p σ f fs
    | _ => .ok ()
termination_by structural fuel => fuel

def genValues (p : GProg) (σ : St) : Nat → List CV → Res Unit
  | 0, _ => .fuel
  | _ + 1, [] => .ok ()
  | f + 1, x :: xs =>
    match genValue p σ f x with
    | .ok _ => genValues p σ f xs
    | .err => .err
    | .fuel => .fuel
termination_by structural fuel => fuel

def genPairs (p : GProg) (σ : St) : Nat → List (CV × CV) → Res Unit
  | 0, _ => .fuel
  | _ + 1, [] => .ok ()
  | f + 1, (k, v) :: rest =>
    match genValue p σ f k with
    | .ok _ =>
      match genValue p σ f v with
      | .ok _ => genPairs p σ f rest
      | .err => .err
      | .fuel => .fuel
    | .err => .err
    | .fuel => .fuel
termination_by structural fuel => fuel

def genFields (p : GProg) (σ : St) : Nat → List (Name × CV) → Res Unit
  | 0, _ => .fuel
  | _ + 1, [] => .ok ()
  | f + 1, (_, v) :: rest =>
    match genValue p σ f v with
    | .ok _ => genFields p σ f rest
    | .err => .err
    | .fuel => .fuel
termination_by structural fuel => fuel

end

def allOk (g : CV → Res Unit) : List CV → Res Unit
  | [] => .ok ()
  | v :: vs =>
    match g v with
    | .ok _ => allOk g vs
    | .err => .err
    | .fuel => .fuel

/-- every linked constant value and default the generator renders -/
def allValues (σ : St) : List CV :=
  σ.cval.map (·.2) ++ σ.sdflt.map (·.2) ++ σ.fdflt.map (·.2)

/-- Do the recursive parts of `gen.Generate` return for the compiled program: the rendering
of every constant and default, and the service recursion? -/
def genServices (fuel : Nat) (c : Compiled) : Res Unit :=
  match allOk (genValue c.prog c.st fuel) (allValues c.st) with
  | .ok _ =>
    match addServices c.st fuel (allServices c.prog (walkFuel c.prog) [0] []) [] with
    | .ok _ => .ok ()
    | .err => .err
    | .fuel => .fuel
  | .err => .err
  | .fuel => .fuel

end ThriftVerif.Compile
