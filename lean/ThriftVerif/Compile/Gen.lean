/-
M-Compile, part 6: the one place where the generator recurses over the compiled service
graph — `generateServiceBuilder.addService` (gen/plugin.go), reached from `gen.Generate`
through `AddRootService` for every service of every generated module. The service id is
recorded only *after* the recursive call for the parent returns, so a cyclic `Parent`
chain never ends. Core-only.
-/
import ThriftVerif.Compile.Link

namespace ThriftVerif.Compile

/-- `addService(spec)`: `ids` = services that already have an id (`g.serviceIDs`). -/
def addService (σ : St) : Nat → List (Nat × Name) → Nat × Name → Res (List (Nat × Name))
  | 0, _, _ => .fuel
  | f + 1, ids, k =>
    if ids.contains k then .ok ids else
    match alookup k σ.vpar with
    | some pk =>
      match addService σ f ids pk with
      | .ok ids' => .ok (k :: ids')
      | .err => .err
      | .fuel => .fuel
    | none => .ok (k :: ids)

/-- `AddRootService` for all the given services in turn -/
def addServices (σ : St) (fuel : Nat) : List (Nat × Name) → List (Nat × Name) → Res (List (Nat × Name))
  | [], ids => .ok ids
  | k :: rest, ids =>
    match addService σ fuel ids k with
    | .ok ids' => addServices σ fuel rest ids'
    | .err => .err
    | .fuel => .fuel

/-- all services of all modules `Module.Walk` reaches (the generator visits every module when
recursion is on; the order does not matter for termination) -/
def allServices (p : GProg) : Nat → List Nat → List Nat → List (Nat × Name)
  | 0, _, _ => []
  | _ + 1, [], _ => []
  | f + 1, m :: queue, seen =>
    if seen.contains m then allServices p f queue seen else
    ((modAt p m).services.map (fun s => (m, s.1))) ++
      allServices p f (queue ++ (modAt p m).includes.map (·.2)) (m :: seen)

/-- Does the service part of `gen.Generate` return for the compiled program? -/
def genServices (fuel : Nat) (c : Compiled) : Res Unit :=
  match addServices c.st fuel (allServices c.prog (walkFuel c.prog) [0] []) [] with
  | .ok _ => .ok ()
  | .err => .err
  | .fuel => .fuel

end ThriftVerif.Compile
