/-
Termination (C08): programs whose constant values and default values are plain (no map or struct
literal) — `ConstTotal.clauses_all` carried to `compileWith` through `ConstTotalLift`.
-/
import ThriftVerif.Compile.ConstTotalLift

namespace ThriftVerif.Compile

theorem plain_func {p : GProg} (hp : PlainValues p) {m : Nat} {n : Name} {s : GService}
    (h : lookupService p m n = some s) {g : GFunc} (hg : g ∈ s.funcs) :
    dfltsPlain g.args = true ∧ dfltsPlain g.excs = true := by
  obtain ⟨_, hmod, hmem⟩ := lookupService_mod h
  unfold PlainValues plainValuesB at hp
  have := List.all_eq_true.1 hp _ hmod
  simp only [Bool.and_eq_true] at this
  have h2 := List.all_eq_true.1 (List.all_eq_true.1 this.2 _ hmem) g hg
  simpa using h2

theorem blockOK_plain (p : GProg) (hp : PlainValues p) : BlockOK p StoreOK (fun fs => dfltsPlain fs = true) where
  named σ hs m n := by
    obtain ⟨f, hf⟩ := (clauses_of_storeOK p hp σ hs).named m n
    rcases hf with h | ⟨σ', h, hq⟩
    · exact ⟨f, Or.inl h⟩
    · exact ⟨f, Or.inr ⟨σ', h, hq.2.2 hs⟩⟩
  const σ hs m n := by
    obtain ⟨f, hf⟩ := (clauses_of_storeOK p hp σ hs).const m n
    rcases hf with h | ⟨σ', h, hq⟩
    · exact ⟨f, Or.inl h⟩
    · exact ⟨f, Or.inr ⟨σ', h, hq.2.2 hs⟩⟩
  fields σ hs o m i fs hg := by
    obtain ⟨f, hf⟩ := ((clauses_of_storeOK p hp σ hs).sized (fsz fs)).fields o m i fs hg (Nat.le_refl _)
    rcases hf with h | ⟨σ', h, hq⟩
    · exact ⟨f, Or.inl h⟩
    · exact ⟨f, Or.inr ⟨σ', h, hq.2.2 hs⟩⟩
  ty σ hs m e := by
    obtain ⟨f, hf⟩ := ((clauses_of_storeOK p hp σ hs).sized e.size).ty m e (Nat.le_refl _)
    rcases hf with h | ⟨σ', lt, h, hq⟩
    · exact ⟨f, Or.inl h⟩
    · exact ⟨f, Or.inr ⟨σ', lt, h, hq.2.2 hs⟩⟩
  inv_fflag _ _ hs := fun k v h => hs k v h
  inv_vflag_vlink _ _ _ hs := fun k v h => hs k v h
  inv_vpar _ _ hs := fun k v h => hs k v h
  inv_vlink _ _ hs := fun k v h => hs k v h
  funcs m n s hl g hg := plain_func hp hl hg
  init := storeOK_init

/-- **Totality of compilation for programs whose constant and default values are plain**
(scalars, references, list literals — no map or struct literal): for every visit order the
compiler returns a module or an error with some fuel, and keeps that verdict with any larger
fuel. Constants defined through other constants in chains and cycles of any length, across
modules, cast to other types, with struct types whose defaults refer to constants (finding D74)
are all inside this class. -/
theorem compileWith_total_plainValues {pre : Bool} {o : Orders} {src : Program} {p : GProg}
    (hg : gather src = some p) (hp : PlainValues p) :
    ∃ fuel, ∀ g, fuel ≤ g → compileWith pre g o src ≠ .fuel :=
  compileWith_total_of_block (blockOK_plain p hp) hg

end ThriftVerif.Compile
