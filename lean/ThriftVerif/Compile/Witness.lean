/-
Witness programs for the findings (the exact inputs of DESIGN.md §2.6, as model ASTs) and
small observers used to state what the model computes on them. Core-only.
-/
import ThriftVerif.Compile.Gen

namespace ThriftVerif.Compile

/-- a name written as a string literal -/
def nm (x : String) : Str := x.toList.map Char.toNat

def oneFileProg (strict : Bool) (defs : List Def) : Program := ⟨strict, [.ok [] defs]⟩

def Res.isOk {α : Type} : Res α → Bool
  | .ok _ => true
  | _ => false

def Res.isFuel {α : Type} : Res α → Bool
  | .fuel => true
  | _ => false

def Res.toOption {α : Type} : Res α → Option α
  | .ok a => some a
  | _ => none

/-- compiled enum item values of enum `n` in module `m` -/
def enumItemsOf (c : Compiled) (m : Nat) (n : Name) : Option (List (Name × Int)) :=
  match lookupType c.prog m n with
  | some (.enum is) => some is
  | _ => none

/-- compiled field identifiers of struct `n` in module `m` -/
def fieldIdsOf (c : Compiled) (m : Nat) (n : Name) : Option (List Int) :=
  match lookupType c.prog m n with
  | some (.struct _ fs) => some (fs.map (·.id))
  | _ => none

/-- linked integer value of constant `n` -/
def constIntOf (c : Compiled) (m : Nat) (n : Name) : Option Int :=
  match alookup (m, n) c.st.cval with
  | some (.int v) => some v
  | _ => none

/-- is the linked value of constant `n` a bare reference to constant `n'`? -/
def constIsRefTo (c : Compiled) (m : Nat) (n n' : Name) : Bool :=
  match alookup (m, n) c.st.cval with
  | some (.cref m' x) => m' == m && x == n'
  | _ => false

/-- is the linked value of constant `n` an enum item with the given name and value? -/
def constIsItem (c : Compiled) (m : Nat) (n item : Name) (v : Int) : Bool :=
  match alookup (m, n) c.st.cval with
  | some (.eref _ _ i x) => i == item && x == v
  | _ => false

/-- `TypedefSpec.root` after linking: `none` = never assigned, `some none` = nil -/
def rootOfTypedef (c : Compiled) (m : Nat) (n : Name) : Option (Option LType) :=
  alookup (m, n) c.st.root

/-- what `RootTypeSpec` answers for typedef `n` after linking -/
def rootSeenOfTypedef (c : Compiled) (m : Nat) (n : Name) : Option LType :=
  rootIn c.prog c.st (.named m n)

/-! ### the programs -/

/-- D7: `enum E {A = 4294967296}` -/
def progD7 : Program := oneFileProg true [.enum (nm "E") [(nm "A", some 4294967296)]]

/-- D8: non-strict `struct S {-40000: optional i32 x}` -/
def progD8 : Program :=
  oneFileProg false [.struct .struct (nm "S") [⟨some (-40000), nm "x", .optional, .base 0 .i32, none⟩]]

/-- D95: `struct S {1: optional i8 x}  const S c = {"x": 1000, "x": 1}` -/
def progD95 : Program :=
  oneFileProg true [.struct .struct (nm "S") [⟨some 1, nm "x", .optional, .base 0 .i8, none⟩],
    .const (nm "c") (.ref (nm "S")) (.map [(.str (nm "x"), .int 1000), (.str (nm "x"), .int 1)])]

/-- D9: `const i8 x = 1000` -/
def progD9 : Program := oneFileProg true [.const (nm "x") (.base 0 .i8) (.int 1000)]

/-- D9 (enum lookup by `int32(c)`): `enum E {A = 1}  const E x = 4294967297` -/
def progD9enum : Program :=
  oneFileProg true [.enum (nm "E") [(nm "A", some 1)], .const (nm "x") (.ref (nm "E")) (.int 4294967297)]

/-- D6: `const i32 a = a` -/
def progD6 : Program := oneFileProg true [.const (nm "a") (.base 0 .i32) (.uref (nm "a"))]

/-- D4: `const i32 a = b  const i32 b = a` -/
def progD4 : Program :=
  oneFileProg true [.const (nm "a") (.base 0 .i32) (.uref (nm "b")),
                    .const (nm "b") (.base 1 .i32) (.uref (nm "a"))]

/-- D5: `service A extends B {}  service B extends A {}` -/
def progD5 : Program :=
  oneFileProg true [.service (nm "A") (some (nm "B")) [], .service (nm "B") (some (nm "A")) []]

/-- D5, length 1: `service A extends A {}` -/
def progD5self : Program := oneFileProg true [.service (nm "A") (some (nm "A")) []]

/-- D10: `typedef B A  typedef C B  struct C {1: optional A a}` -/
def progD10 : Program :=
  oneFileProg true [.typedef (nm "A") (.ref (nm "B")), .typedef (nm "B") (.ref (nm "C")),
    .struct .struct (nm "C") [⟨some 1, nm "a", .optional, .ref (nm "A"), none⟩]]

/-- D85: `typedef map<T1,T1> T0 … typedef map<T4,T4> T3  typedef i32 T4` — no cycle; every type is
referred to twice by the one above it. -/
def progD85 : Program :=
  oneFileProg true [
    .typedef (nm "T0") (.map 0 (.ref (nm "T1")) (.ref (nm "T1"))),
    .typedef (nm "T1") (.map 0 (.ref (nm "T2")) (.ref (nm "T2"))),
    .typedef (nm "T2") (.map 0 (.ref (nm "T3")) (.ref (nm "T3"))),
    .typedef (nm "T3") (.map 0 (.ref (nm "T4")) (.ref (nm "T4"))),
    .typedef (nm "T4") (.base 0 .i32)]

/-- a typedef cycle through a container, entered twice: `typedef map<B, B> A  typedef list<A> B` -/
def progTypedefCycle : Program :=
  oneFileProg true [
    .typedef (nm "A") (.map 0 (.ref (nm "B")) (.ref (nm "B"))),
    .typedef (nm "B") (.list 0 (.ref (nm "A")))]

/-- D17: `enum Color {RED = 1}  const string s = Color.RED` -/
def progD17 : Program :=
  oneFileProg true [.enum (nm "Color") [(nm "RED", some 1)],
    .const (nm "s") (.base 0 .string) (.uref (nm "Color.RED"))]

/-- D40: `struct S {1: optional S f = {}}` -/
def progD40 : Program :=
  oneFileProg true [.struct .struct (nm "S") [⟨some 1, nm "f", .optional, .ref (nm "S"), some (.map [])⟩]]

/-- D74: two constants defined as each other, each of a struct type with a default that refers to
the other, reached from an including file *before* their types are linked:
`include "./inc.thrift"  struct X {1: optional i32 v = inc.a}` with inc.thrift =
`struct T1 {1: optional i32 f = b}  struct T2 {1: optional i32 g = a}  const T1 a = b  const T2 b = a` -/
def progD74 : Program := ⟨true, [
  .ok [⟨false, nm "inc", some 1⟩]
    [.struct .struct (nm "X") [⟨some 1, nm "v", .optional, .base 0 .i32, some (.uref (nm "inc.a"))⟩]],
  .ok [] [.struct .struct (nm "T1") [⟨some 1, nm "f", .optional, .base 0 .i32, some (.uref (nm "b"))⟩],
          .struct .struct (nm "T2") [⟨some 1, nm "g", .optional, .base 0 .i32, some (.uref (nm "a"))⟩],
          .const (nm "a") (.ref (nm "T1")) (.uref (nm "b")),
          .const (nm "b") (.ref (nm "T2")) (.uref (nm "a"))]]⟩

/-- D50: `struct S {1: optional T t; 2: optional E e = 1}  struct T {1: optional S s = {}}  enum E {X = 1}` -/
def progD50 : Program :=
  oneFileProg true [
    .struct .struct (nm "S") [⟨some 1, nm "t", .optional, .ref (nm "T"), none⟩,
                              ⟨some 2, nm "e", .optional, .ref (nm "E"), some (.int 1)⟩],
    .struct .struct (nm "T") [⟨some 1, nm "s", .optional, .ref (nm "S"), some (.map [])⟩],
    .enum (nm "E") [(nm "X", some 1)]]

end ThriftVerif.Compile
