/-
Termination (C08) for programs whose DEFAULT values are closed — part 2: the mutual block.

Constants are unrestricted here (map and struct literals, references, cycles); what is required is
that every default value of a struct field or function parameter is *closed*: built from
scalars, enum items and list literals, with no reference to a constant in whatever module it is
linked (`closedD`), and that the field names of a struct are pairwise different (which
`compileFields` guarantees). Then a struct literal is completed only from values that touch no
constant (`ConstTotalDCDefs`), so `ConstantStruct.Link`'s loop is: link what the literal sets —
strictly smaller parts of it, after which the remaining fields see strictly less (`sel`,
`sel_tail`) — and complete or skip the rest without changing the state (`sfields_of`).
The induction is the one of `ConstTotal`: (definitions not entered, constants not being linked or
cast, size of the argument).
-/
import ThriftVerif.Compile.ConstTotalDCDefs
import ThriftVerif.Compile.ConstTotal


namespace ThriftVerif.Compile.DC
open ThriftVerif.Compile

/-! ### sizes -/

mutual
def gsz : CV → Nat
  | .uref n => n.length + 3
  | .list xs => gszList xs + 1
  | .set xs => gszList xs + 1
  | .map kvs => gszPairs kvs + 1
  | .struct fs => gszFields fs + 1
  | _ => 1
def gszList : List CV → Nat
  | [] => 0
  | x :: xs => gsz x + gszList xs + 1
def gszPairs : List (CV × CV) → Nat
  | [] => 0
  | (k, v) :: rest => gsz k + gsz v + gszPairs rest + 1
def gszFields : List (Name × CV) → Nat
  | [] => 0
  | (_, v) :: rest => gsz v + gszFields rest + 1
end

theorem gsz_pos (v : CV) : 1 ≤ gsz v := by cases v <;> simp [gsz] <;> omega

/-- the entries of a struct literal that the fields `rest` can still look at -/
def sel (rest : List GField) (lit : List (Name × CV)) : List (Name × CV) :=
  lit.filter (fun e => rest.any (fun f => f.name == e.1))

theorem gszFields_filter_le (q : Name × CV → Bool) : ∀ l, gszFields (l.filter q) ≤ gszFields l := by
  intro l
  induction l with
  | nil => simp [gszFields]
  | cons e l ih =>
    obtain ⟨n, v⟩ := e
    simp only [List.filter_cons]
    split
    · simp only [gszFields]; omega
    · simp only [gszFields]; omega

theorem gsz_le_of_alookup (q : Name → Bool) : ∀ (l : List (Name × CV)) (n : Name) (v : CV),
    alookup n l = some v → q n = true → gsz v + 1 ≤ gszFields (l.filter (fun e => q e.1)) := by
  intro l
  induction l with
  | nil => intro n v h; cases h
  | cons e l ih =>
    intro n v h hq
    obtain ⟨k, x⟩ := e
    unfold alookup at h
    split at h
    · rename_i hk
      cases h
      subst hk
      simp only [List.filter_cons, hq, if_true, gszFields]
      omega
    · have := ih n v h hq
      simp only [List.filter_cons]
      split
      · simp only [gszFields]; omega
      · exact this

theorem filter_aset_of_not (q : Name → Bool) (k : Name) (v : CV) (hk : q k = false) : ∀ l : List (Name × CV),
    (aset k v l).filter (fun e => q e.1) = l.filter (fun e => q e.1) := by
  intro l
  induction l with
  | nil => simp [aset, hk]
  | cons e l ih =>
    obtain ⟨k', v'⟩ := e
    unfold aset
    split
    · rename_i h; subst h
      simp [hk]
    · simp only [List.filter_cons]
      rw [ih]

/-- names of a field list are pairwise different -/
def namesNodupB : List GField → Bool
  | [] => true
  | f :: rest => !(rest.any (fun g => g.name == f.name)) && namesNodupB rest

theorem sel_cons_entry (rest : List GField) (k : Name) (x : CV) (lit : List (Name × CV)) :
    sel rest ((k, x) :: lit) = if rest.any (fun f => f.name == k) then (k, x) :: sel rest lit else sel rest lit := by
  simp only [sel, List.filter_cons]

theorem sel_mono (fld : GField) (rest : List GField) : ∀ lit, gszFields (sel rest lit) ≤ gszFields (sel (fld :: rest) lit) := by
  intro lit
  induction lit with
  | nil => simp [sel, gszFields]
  | cons e lit ih =>
    obtain ⟨k, x⟩ := e
    rw [sel_cons_entry, sel_cons_entry]
    simp only [List.any_cons]
    by_cases hr : (rest.any fun f => f.name == k) = true
    · simp only [hr, Bool.or_true, if_true, gszFields]; omega
    · have hr' : (rest.any fun f => f.name == k) = false := by simpa using hr
      simp only [hr', Bool.false_eq_true, if_false, Bool.or_false]
      split
      · simp only [gszFields]; omega
      · exact ih

/-- dropping the first field: what the remaining fields can see shrinks by the first field's entry -/
theorem sel_tail (fld : GField) (rest : List GField) (hnd : rest.any (fun g => g.name == fld.name) = false)
    (lit : List (Name × CV)) :
    gszFields (sel rest lit) + (match alookup fld.name lit with | some v => gsz v + 1 | none => 0) ≤
      gszFields (sel (fld :: rest) lit) := by
  induction lit with
  | nil => simp [sel, alookup, gszFields]
  | cons e lit ih =>
    obtain ⟨k, x⟩ := e
    rw [sel_cons_entry, sel_cons_entry]
    simp only [List.any_cons]
    by_cases hk : k = fld.name
    · have hlk : alookup fld.name ((k, x) :: lit) = some x := by unfold alookup; simp [hk]
      have h1 : (rest.any fun f => f.name == k) = false := by rw [hk]; exact hnd
      have h2 : (fld.name == k) = true := by simp [hk]
      rw [hlk]
      simp only [h1, h2, Bool.true_or, if_true, Bool.false_eq_true, if_false, gszFields]
      have := sel_mono fld rest lit
      omega
    · have hne : (fld.name == k) = false := by
        simp only [beq_eq_false_iff_ne, ne_eq]; exact fun h => hk h.symm
      have hlk : alookup fld.name ((k, x) :: lit) = alookup fld.name lit := by
        show (if k = fld.name then some x else alookup fld.name lit) = _
        simp [hk]
      rw [hlk]
      simp only [hne, Bool.false_or]
      split
      · simp only [gszFields]; omega
      · exact ih


theorem gszFields_aset_le (k : Name) (v : CV) : ∀ l, gszFields (aset k v l) ≤ gszFields l + gsz v + 1 := by
  intro l
  induction l with
  | nil => simp [aset, gszFields]
  | cons e l ih =>
    obtain ⟨k', v'⟩ := e
    unfold aset
    split
    · simp only [gszFields]; omega
    · simp only [gszFields]; omega

theorem buildStruct_size : ∀ (kvs : List (CV × CV)) (acc fs : List (Name × CV)),
    buildStruct kvs acc = some fs → gszFields fs ≤ gszFields acc + gszPairs kvs := by
  intro kvs
  induction kvs with
  | nil => intro acc fs h; simp only [buildStruct] at h; cases h; simp [gszPairs]
  | cons e kvs ih =>
    intro acc fs h
    obtain ⟨k, v⟩ := e
    cases k with
    | str s =>
      simp only [buildStruct] at h
      split at h
      · cases h
      · have := ih _ _ h
        have h2 := gszFields_aset_le s v acc
        simp only [gszPairs]
        omega
    | _ => simp [buildStruct] at h

/-! ### the class of programs -/

/-- the default touches no constant in whatever scope it is linked (the scopes of the program's
modules, and the scope of a module index beyond them, which stands for all such indices) -/
def closedD (p : GProg) (d : CV) : Bool := (List.range (p.length + 1)).all (fun m => nrAt p m d)

def dfltsClosed (p : GProg) : List GField → Bool
  | [] => true
  | f :: rest => (match f.dflt with | some d => closedD p d | none => true) && dfltsClosed p rest

/-- every default value of the program is closed, and the field names of a struct are pairwise
different (`compileFields` guarantees the latter) -/
def defaultsClosedB (p : GProg) : Bool :=
  p.all (fun md =>
    md.types.all (fun t => match t.2 with | .struct _ fs => dfltsClosed p fs && namesNodupB fs | _ => true) &&
    md.services.all (fun s => s.2.funcs.all (fun g => dfltsClosed p g.args && dfltsClosed p g.excs)))

def DefaultsClosed (p : GProg) : Prop := defaultsClosedB p = true
instance (p : GProg) : Decidable (DefaultsClosed p) := by unfold DefaultsClosed; infer_instance

theorem modAt_oob {p : GProg} {m : Nat} (h : p.length ≤ m) : modAt p m = Mod.empty := by
  unfold modAt
  rw [List.getD_eq_getElem?_getD, List.getElem?_eq_none h]
  rfl

theorem enumRefF_oob (p : GProg) : ∀ (f m m' : Nat) (name : Name), p.length ≤ m → p.length ≤ m' →
    enumRefF p f m name = enumRefF p f m' name := by
  intro f m m' name h h'
  cases f with
  | zero => rfl
  | succ f =>
    simp only [enumRefF, lookupConst, lookupType, lookupInclude, modAt_oob h, modAt_oob h']

mutual
theorem nrAt_oob (p : GProg) (m m' : Nat) (h : p.length ≤ m) (h' : p.length ≤ m') : ∀ v : CV, nrAt p m v = nrAt p m' v
  | .int _ => rfl
  | .dbl _ => rfl
  | .bool _ => rfl
  | .str _ => rfl
  | .eref _ _ _ _ => rfl
  | .uref n => by simp only [nrAt]; exact enumRefF_oob p _ m m' n h h'
  | .list xs => by simp only [nrAt]; exact nrAtList_oob p m m' h h' xs
  | .set xs => by simp only [nrAt]; exact nrAtList_oob p m m' h h' xs
  | .map _ => rfl
  | .struct _ => rfl
  | .cref _ _ => rfl
theorem nrAtList_oob (p : GProg) (m m' : Nat) (h : p.length ≤ m) (h' : p.length ≤ m') : ∀ xs : List CV,
    nrAtList p m xs = nrAtList p m' xs
  | [] => rfl
  | x :: xs => by simp only [nrAtList]; rw [nrAt_oob p m m' h h' x, nrAtList_oob p m m' h h' xs]
end

theorem closedD_all {p : GProg} {d : CV} (h : closedD p d = true) (m : Nat) : nrAt p m d = true := by
  unfold closedD at h
  have hall := List.all_eq_true.1 h
  by_cases hm : m < p.length + 1
  · exact hall m (List.mem_range.2 hm)
  · rw [nrAt_oob p m p.length (by omega) (Nat.le_refl _) d]
    exact hall p.length (List.mem_range.2 (by omega))

theorem closed_struct {p : GProg} (hp : DefaultsClosed p) {m : Nat} {n : Name} {k : SKind} {fs : List GField}
    (h : lookupType p m n = some (.struct k fs)) : dfltsClosed p fs = true ∧ namesNodupB fs = true := by
  obtain ⟨_, hmod, hmem⟩ := lookupType_mod h
  unfold DefaultsClosed defaultsClosedB at hp
  have := List.all_eq_true.1 hp _ hmod
  simp only [Bool.and_eq_true] at this
  have h2 := List.all_eq_true.1 this.1 _ hmem
  simpa using h2

theorem closed_func {p : GProg} (hp : DefaultsClosed p) {m : Nat} {n : Name} {s : GService}
    (h : lookupService p m n = some s) {g : GFunc} (hg : g ∈ s.funcs) :
    dfltsClosed p g.args = true ∧ dfltsClosed p g.excs = true := by
  obtain ⟨_, hmod, hmem⟩ := lookupService_mod h
  unfold DefaultsClosed defaultsClosedB at hp
  have := List.all_eq_true.1 hp _ hmod
  simp only [Bool.and_eq_true] at this
  have h2 := List.all_eq_true.1 (List.all_eq_true.1 this.2 _ hmem) g hg
  simpa using h2

theorem rootKind_strct {p : GProg} {x : Option LType} {sm : Nat} {sn : Name} {fields : List GField}
    (h : rootKind p x = .strct sm sn fields) : ∃ k, lookupType p sm sn = some (.struct k fields) := by
  unfold rootKind at h
  split at h <;> try (cases h)
  rename_i m n
  split at h
  · cases h
  · rename_i k fs hl; cases h; exact ⟨k, hl⟩
  · cases h

/-! ### the invariant and what a completed call guarantees -/

/-- every stored field default is a linked value without references -/
def DfltOK (σ : St) : Prop := ∀ k d, alookup k σ.sdflt = some d → lnk d = true

def Post (p : GProg) (σ σ' : St) : Prop :=
  FlagsLe2 σ σ' ∧ (uCount p σ' < uCount p σ ∨ ClinkGe σ σ') ∧ (DfltOK σ → DfltOK σ')

theorem Post.refl (p : GProg) (σ : St) : Post p σ σ := ⟨FlagsLe2.refl σ, Or.inr (fun _ h => h), fun h => h⟩

theorem Post.trans {p : GProg} {a b c : St} (h₁ : Post p a b) (h₂ : Post p b c) : Post p a c := by
  obtain ⟨f1, d1, s1⟩ := h₁
  obtain ⟨f2, d2, s2⟩ := h₂
  refine ⟨f1.trans f2, ?_, fun h => s2 (s1 h)⟩
  have u1 := uCount_le (p := p) f1
  have u2 := uCount_le (p := p) f2
  rcases d1 with d1 | d1
  · left; omega
  · rcases d2 with d2 | d2
    · left; omega
    · right; exact fun k h => d2 k (d1 k h)

/-- states that agree on the four fields `Post` talks about -/
def KeyEq (a b : St) : Prop := a.tflag = b.tflag ∧ a.cflag = b.cflag ∧ a.clink = b.clink ∧ a.sdflt = b.sdflt

theorem KeyEq.post {p : GProg} {a b : St} (h : KeyEq a b) : Post p a b := by
  obtain ⟨h1, h2, h3, h4⟩ := h
  refine ⟨⟨fun k hk => by rw [← h1]; exact hk, fun k hk => by rw [← h2]; exact hk⟩,
    Or.inr (fun k hk => by rw [← h3]; exact hk), fun hs k v hv => hs k v (by rw [h4]; exact hv)⟩

theorem keyEq_ownerMark (o : FOwner) (i : Nat) (σ : St) : KeyEq σ (ownerMark o i σ) := by
  cases o <;> exact ⟨rfl, rfl, rfl, rfl⟩
theorem keyEq_ownerBeginDflt (o : FOwner) (i : Nat) (σ : St) : KeyEq σ (ownerBeginDflt o i σ) := by
  cases o <;> exact ⟨rfl, rfl, rfl, rfl⟩

/-- storing a linked default -/
theorem post_ownerSetDflt (p : GProg) (o : FOwner) (i : Nat) (v : CV) (hv : lnk v = true) (σ : St) :
    Post p σ (ownerSetDflt o i v σ) := by
  cases o with
  | strct sm sn =>
    refine ⟨⟨fun _ h => h, fun _ h => h⟩, Or.inr (fun _ h => h), ?_⟩
    intro hs k d hd
    simp only [ownerSetDflt] at hd
    by_cases hk : (sm, sn, i) = k
    · subst hk; rw [alookup_aset_self] at hd; cases hd; exact hv
    · rw [alookup_aset_ne _ _ hk] at hd; exact hs k d hd
  | args am svc fn => exact KeyEq.post ⟨rfl, rfl, rfl, rfl⟩
  | excs am svc fn => exact KeyEq.post ⟨rfl, rfl, rfl, rfl⟩

theorem Post.tflag_cons (p : GProg) (σ : St) (x : Nat × Name) : Post p σ { σ with tflag := x :: σ.tflag } :=
  ⟨⟨fun _ h => contains_cons_of _ h, fun _ h => h⟩, Or.inr (fun _ h => h), fun h => h⟩
theorem Post.cflag_cons (p : GProg) (σ : St) (x : Nat × Name) : Post p σ { σ with cflag := x :: σ.cflag } :=
  ⟨⟨fun _ h => h, fun _ h => contains_cons_of _ h⟩, Or.inr (fun _ h => h), fun h => h⟩

theorem Post.of_lt {p : GProg} {σ σ' : St} (hf : FlagsLe2 σ σ') (hu : uCount p σ' < uCount p σ)
    (hs : DfltOK σ → DfltOK σ') : Post p σ σ' := ⟨hf, Or.inl hu, hs⟩

/-- the state after the cast of a constant's value (`ConstReference.Link`) -/
theorem post_cast {p : GProg} {σ σc σ1 : St} {c : Nat × Name} (hnc : σ.clink.contains c = false)
    (h1 : σc.tflag = σ.tflag) (h2 : σc.cflag = σ.cflag) (h3 : σc.clink = c :: σ.clink) (h4 : σc.sdflt = σ.sdflt)
    (hp : Post p σc σ1) : Post p σ { σ1 with clink := σ1.clink.filter (fun x => x != c) } := by
  obtain ⟨hf, hd, hs⟩ := hp
  refine ⟨⟨fun k h => hf.1 k (by rw [h1]; exact h), fun k h => hf.2 k (by rw [h2]; exact h)⟩, ?_, ?_⟩
  · rcases hd with hd | hd
    · left
      have e1 : uCount p σc = uCount p σ := by unfold uCount; rw [h1, h2]
      have e2 : uCount p { σ1 with clink := σ1.clink.filter (fun x => x != c) } = uCount p σ1 := rfl
      omega
    · right
      intro k hk
      have hk1 : σ1.clink.contains k = true := hd k (by rw [h3]; exact contains_cons_of _ hk)
      have hne : k ≠ c := by
        intro he; subst he; rw [hnc] at hk; cases hk
      exact contains_filter_ne hk1 hne
  · intro hs0
    have := hs (fun k v hv => hs0 k v (by rw [← h4]; exact hv))
    exact fun k v hv => this k v hv

def fsz2 : List GField → Nat
  | [] => 0
  | f :: rest => f.ty.size + (match f.dflt with | some d => gsz d | none => 0) + 1 + fsz2 rest

def HaltsS (F : Nat → Res St) (Q : St → Prop) : Prop := ∃ f, F f = .err ∨ ∃ σ', F f = .ok σ' ∧ Q σ'
def HaltsP {β : Type} (F : Nat → Res (St × β)) (Q : St → β → Prop) : Prop :=
  ∃ f, F f = .err ∨ ∃ σ' x, F f = .ok (σ', x) ∧ Q σ' x

/-- the clauses for arguments of size at most `s` -/
structure ClausesUpTo (p : GProg) (σ : St) (s : Nat) : Prop where
  ty : ∀ m e, e.size ≤ s → HaltsP (fun f => linkTy f p m e σ) (fun σ' _ => Post p σ σ')
  fields : ∀ o m i fs, dfltsClosed p fs = true → fsz2 fs ≤ s → HaltsS (fun f => linkFields f p o m i fs σ) (Post p σ)
  val : ∀ m v t, gsz v ≤ s → HaltsP (fun f => linkVal f p m v t σ) (fun σ' _ => Post p σ σ')
  vals : ∀ m vs t, gszList vs ≤ s → HaltsP (fun f => linkVals f p m vs t σ) (fun σ' _ => Post p σ σ')
  pairs : ∀ m kvs kt vt, gszPairs kvs ≤ s → HaltsP (fun f => linkPairs f p m kvs kt vt σ) (fun σ' _ => Post p σ σ')
  sfields : ∀ m sm sn j rest lit, dfltsClosed p rest = true → namesNodupB rest = true →
    gszFields (sel rest lit) ≤ s →
    HaltsP (fun f => linkSFields f p m sm sn j rest lit σ) (fun σ' _ => Post p σ σ')

structure Clauses (p : GProg) (σ : St) : Prop where
  named : ∀ m n, HaltsS (fun f => linkNamed f p m n σ) (Post p σ)
  const : ∀ m n, HaltsS (fun f => linkConst f p m n σ) (Post p σ)
  sized : ∀ s, ClausesUpTo p σ s


theorem linkPairs_lift (p : GProg) {m kvs kt vt σ f r} (h : linkPairs f p m kvs kt vt σ = r) (hr : r ≠ .fuel) {g : Nat} (hg : f ≤ g) :
    linkPairs g p m kvs kt vt σ = r :=
  stable_lift (fun f => linkPairs f p m kvs kt vt σ) (fun f => (monoStep p f).2.2.2.2.2.2.1 m kvs kt vt σ) h hr g hg
theorem linkSFields_lift (p : GProg) {m sm sn j fs lit σ f r} (h : linkSFields f p m sm sn j fs lit σ = r) (hr : r ≠ .fuel)
    {g : Nat} (hg : f ≤ g) : linkSFields g p m sm sn j fs lit σ = r :=
  stable_lift (fun f => linkSFields f p m sm sn j fs lit σ) (fun f => (monoStep p f).2.2.2.2.2.2.2 m sm sn j fs lit σ) h hr g hg

/-- `linkNamed` and `linkConst` halt in `σ` once every state with a smaller `uCount` has all clauses -/
theorem named_const_of_smaller (p : GProg) (hp : DefaultsClosed p) (σ : St) (hs : DfltOK σ)
    (ih : ∀ σ0, uCount p σ0 < uCount p σ → DfltOK σ0 → Clauses p σ0) :
    (∀ m n, HaltsS (fun f => linkNamed f p m n σ) (Post p σ)) ∧
    (∀ m n, HaltsS (fun f => linkConst f p m n σ) (Post p σ)) := by
  refine ⟨?_, ?_⟩
  · intro m n
    cases hl : lookupType p m n with
    | none => exact ⟨1, Or.inl (by simp only [linkNamed, hl])⟩
    | some d =>
      cases d with
      | enum items => exact ⟨1, Or.inr ⟨σ, by simp only [linkNamed, hl], Post.refl p σ⟩⟩
      | typedef target =>
        by_cases hc : σ.tflag.contains (m, n) = true
        · exact ⟨1, Or.inr ⟨σ, by simp only [linkNamed, hl, hc, if_true], Post.refl p σ⟩⟩
        · have hc' : σ.tflag.contains (m, n) = false := by simpa using hc
          have C0 := ih _ (uCount_tflag_lt hl hc') (fun k d h => hs k d h)
          obtain ⟨f, hf⟩ := (C0.sized target.size).ty m target (Nat.le_refl _)
          rcases hf with he | ⟨σ1, lt, hok, hpost⟩
          · refine ⟨f + 1, Or.inl ?_⟩
            simp only [linkNamed, hl, hc', Bool.false_eq_true, if_false]
            simp only at he
            rw [he]
          · refine ⟨f + 1, Or.inr ⟨{ σ1 with root := aset (m, n) (rootIn p σ1 lt) σ1.root }, ?_, ?_⟩⟩
            · simp only [linkNamed, hl, hc', Bool.false_eq_true, if_false]
              simp only at hok
              rw [hok]
            · exact (Post.tflag_cons p σ (m, n)).trans (hpost.trans (KeyEq.post ⟨rfl, rfl, rfl, rfl⟩))
      | struct k fs =>
        by_cases hc : σ.tflag.contains (m, n) = true
        · exact ⟨1, Or.inr ⟨σ, by simp only [linkNamed, hl, hc, if_true], Post.refl p σ⟩⟩
        · have hc' : σ.tflag.contains (m, n) = false := by simpa using hc
          have C0 := ih _ (uCount_tflag_lt hl hc') (fun k d h => hs k d h)
          obtain ⟨f, hf⟩ := (C0.sized (fsz2 fs)).fields (.strct m n) m 0 fs (closed_struct hp hl).1 (Nat.le_refl _)
          rcases hf with he | ⟨σ1, hok, hpost⟩
          · refine ⟨f + 1, Or.inl ?_⟩
            simp only [linkNamed, hl, hc', Bool.false_eq_true, if_false]
            exact he
          · refine ⟨f + 1, Or.inr ⟨σ1, ?_, (Post.tflag_cons p σ (m, n)).trans hpost⟩⟩
            simp only [linkNamed, hl, hc', Bool.false_eq_true, if_false]
            exact hok
  · intro m n
    cases hl : lookupConst p m n with
    | none => exact ⟨1, Or.inl (by simp only [linkConst, hl])⟩
    | some c =>
      by_cases hc : σ.cflag.contains (m, n) = true
      · by_cases hk : σ.clink.contains (m, n) = true
        · exact ⟨1, Or.inl (by simp only [linkConst, hl, hc, hk, if_true])⟩
        · have hk' : σ.clink.contains (m, n) = false := by simpa using hk
          exact ⟨1, Or.inr ⟨σ, by simp only [linkConst, hl, hc, hk', if_true, Bool.false_eq_true, if_false], Post.refl p σ⟩⟩
      · have hc' : σ.cflag.contains (m, n) = false := by simpa using hc
        have hlt := uCount_cflag_lt hl hc'
        have C0 := ih _ hlt (fun k d h => hs k d h)
        obtain ⟨f1, hf1⟩ := (C0.sized c.ty.size).ty m c.ty (Nat.le_refl _)
        rcases hf1 with he | ⟨σ1, lt, hok1, hpost1⟩
        · refine ⟨f1 + 1, Or.inl ?_⟩
          simp only [linkConst, hl, hc', Bool.false_eq_true, if_false]
          simp only at he
          rw [he]
        · have hu1 : uCount p σ1 < uCount p σ := Nat.lt_of_le_of_lt (uCount_le hpost1.1) hlt
          have hs1 : DfltOK σ1 := hpost1.2.2 (fun k d h => hs k d h)
          have C1 := ih { σ1 with ctype := (m, n) :: σ1.ctype, clink := (m, n) :: σ1.clink } hu1 (fun k d h => hs1 k d h)
          obtain ⟨f2, hf2⟩ := (C1.sized (gsz c.val)).val m c.val lt (Nat.le_refl _)
          have hok1' : linkTy (max f1 f2) p m c.ty { σ with cflag := (m, n) :: σ.cflag } = .ok (σ1, lt) :=
            linkTy_lift p hok1 (by intro h; cases h) (Nat.le_max_left _ _)
          rcases hf2 with he | ⟨σ2, v, hok2, hpost2⟩
          · refine ⟨max f1 f2 + 1, Or.inl ?_⟩
            have he' := linkVal_lift p he (by intro h; cases h) (Nat.le_max_right f1 f2)
            simp only [linkConst, hl, hc', Bool.false_eq_true, if_false]
            rw [hok1']
            simp only
            rw [he']
          · refine ⟨max f1 f2 + 1, Or.inr ⟨endConst (m, n) v σ2, ?_, ?_⟩⟩
            · have hok2' := linkVal_lift p hok2 (by intro h; cases h) (Nat.le_max_right f1 f2)
              simp only [linkConst, hl, hc', Bool.false_eq_true, if_false]
              rw [hok1']
              simp only
              rw [hok2']
            · have hfl : FlagsLe2 σ σ2 :=
                (Post.cflag_cons p σ (m, n)).1.trans (hpost1.1.trans hpost2.1)
              have hu2 : uCount p σ2 ≤ uCount p σ1 := by
                have := uCount_le (p := p) hpost2.1
                simpa [uCount] using this
              refine Post.of_lt ⟨fun k h => hfl.1 k h, fun k h => hfl.2 k h⟩ ?_ ?_
              · have : uCount p (endConst (m, n) v σ2) = uCount p σ2 := rfl
                omega
              · intro hs0
                have h1 : DfltOK σ1 := hpost1.2.2 (fun k d hd => hs0 k d hd)
                have h2 : DfltOK σ2 := hpost2.2.2 (fun k d hd => h1 k d hd)
                exact fun k d hd => h2 k d hd


theorem dfltsClosed_cons {p : GProg} {fld : GField} {rest : List GField} (h : dfltsClosed p (fld :: rest) = true) :
    (∀ d, fld.dflt = some d → closedD p d = true) ∧ dfltsClosed p rest = true := by
  simp only [dfltsClosed, Bool.and_eq_true] at h
  refine ⟨fun d hd => ?_, h.2⟩
  have := h.1
  rw [hd] at this
  exact this

/-- `ConstantStruct.Link`'s loop, from what is known about the values it can reach: a field that
the literal sets is linked (a strictly smaller part of the literal), after which the remaining
fields see strictly less; a field the literal does not set is skipped or completed from its
default, which touches no constant and leaves the state alone. -/
theorem sfields_of (p : GProg) (σ : St) (hs : DfltOK σ) (L : Nat)
    (valLt : ∀ m fv t, gsz fv + 1 ≤ L → HaltsP (fun f => linkVal f p m fv t σ) (fun σ' _ => Post p σ σ'))
    (nextSF : ∀ σ1, Post p σ σ1 → ∀ m sm sn j rest lit, dfltsClosed p rest = true → namesNodupB rest = true →
      gszFields (sel rest lit) + 1 ≤ L →
      HaltsP (fun f => linkSFields f p m sm sn j rest lit σ1) (fun σ' _ => Post p σ1 σ')) :
    ∀ m sm sn rest j lit, dfltsClosed p rest = true → namesNodupB rest = true → gszFields (sel rest lit) ≤ L →
      HaltsP (fun f => linkSFields f p m sm sn j rest lit σ) (fun σ' _ => Post p σ σ') := by
  intro m sm sn rest
  induction rest with
  | nil => intro j lit _ _ _; exact ⟨1, Or.inr ⟨σ, lit, by simp only [linkSFields], Post.refl p σ⟩⟩
  | cons fld rest ihr =>
    intro j lit hcl hnd hsz
    have hcl' := dfltsClosed_cons hcl
    simp only [namesNodupB, Bool.and_eq_true, Bool.not_eq_true'] at hnd
    have htail := sel_tail fld rest hnd.1 lit
    have hselEq : ∀ v, sel rest (aset fld.name v lit) = sel rest lit := fun v =>
      filter_aset_of_not (fun n => rest.any (fun f => f.name == n)) fld.name v hnd.1 lit
    cases hlk : alookup fld.name lit with
    | some fv =>
      rw [hlk] at htail
      simp only at htail
      obtain ⟨f1, h1⟩ := valLt m fv (fieldTypeIn p σ sm sn j fld) (by omega)
      rcases h1 with h | ⟨σ1, v, h1, hpost1⟩
      · exact ⟨f1 + 1, Or.inl (by simp only [linkSFields, hlk]; simp only at h; rw [h])⟩
      · obtain ⟨f2, h2⟩ := nextSF σ1 hpost1 m sm sn (j + 1) rest (aset fld.name v lit) hcl'.2 hnd.2
          (by rw [hselEq]; omega)
        have h1' := linkVal_lift p h1 (by intro h; cases h) (Nat.le_max_left f1 f2)
        rcases h2 with h | ⟨σ2, lit2, h2, hpost2⟩
        · have h' := linkSFields_lift p h (by intro h; cases h) (Nat.le_max_right f1 f2)
          exact ⟨max f1 f2 + 1, Or.inl (by simp only [linkSFields, hlk]; rw [h1']; exact h')⟩
        · have h2' := linkSFields_lift p h2 (by intro h; cases h) (Nat.le_max_right f1 f2)
          exact ⟨max f1 f2 + 1, Or.inr ⟨σ2, lit2, by simp only [linkSFields, hlk]; rw [h1']; exact h2', hpost1.trans hpost2⟩⟩
    | none =>
      rw [hlk] at htail
      simp only at htail
      -- the default the loop uses for this field, if any
      have completed : ∀ d, nrAt p m d = true →
          HaltsP (fun f => (if σ.dlink.contains (sm, sn, j) then (Res.err : Res (St × List (Name × CV))) else
            match linkVal f p m d (fieldTypeIn p σ sm sn j fld) σ with
            | .ok (σ1, v) => linkSFields f p m sm sn (j + 1) rest (aset fld.name v lit) σ1
            | .err => .err
            | .fuel => .fuel)) (fun σ' _ => Post p σ σ') := by
        intro d hd
        by_cases hdl : σ.dlink.contains (sm, sn, j) = true
        · exact ⟨0, Or.inl (by simp only [hdl, if_true])⟩
        · have hdl' : σ.dlink.contains (sm, sn, j) = false := by simpa using hdl
          obtain ⟨f1, h1⟩ := (nrHalts p (d.msz)).1 m d (fieldTypeIn p σ sm sn j fld) σ (Nat.le_refl _) hd
          rcases h1 with h | ⟨v, h1, hv⟩
          · exact ⟨f1, Or.inl (by simp only [hdl', Bool.false_eq_true, if_false]; rw [h])⟩
          · obtain ⟨f2, h2⟩ := ihr (j + 1) (aset fld.name v lit) hcl'.2 hnd.2 (by rw [hselEq]; omega)
            have h1' := linkVal_lift p h1 (by intro h; cases h) (Nat.le_max_left f1 f2)
            rcases h2 with h | ⟨σ2, lit2, h2, hpost2⟩
            · have h' := linkSFields_lift p h (by intro h; cases h) (Nat.le_max_right f1 f2)
              exact ⟨max f1 f2, Or.inl (by simp only [hdl', Bool.false_eq_true, if_false]; rw [h1']; exact h')⟩
            · have h2' := linkSFields_lift p h2 (by intro h; cases h) (Nat.le_max_right f1 f2)
              exact ⟨max f1 f2, Or.inr ⟨σ2, lit2, by simp only [hdl', Bool.false_eq_true, if_false]; rw [h1']; exact h2', hpost2⟩⟩
      cases hsd : alookup (sm, sn, j) σ.sdflt with
      | some d =>
        obtain ⟨f, hf⟩ := completed d (nrAt_of_lnk p m d (hs _ _ hsd))
        exact ⟨f + 1, by simp only [linkSFields, hlk, hsd]; exact hf⟩
      | none =>
        cases hfd : fld.dflt with
        | some d =>
          obtain ⟨f, hf⟩ := completed d (closedD_all (hcl'.1 d hfd) m)
          exact ⟨f + 1, by simp only [linkSFields, hlk, hsd, hfd]; exact hf⟩
        | none =>
          by_cases hreq : fld.required = true
          · exact ⟨1, Or.inl (by simp only [linkSFields, hlk, hsd, hfd, hreq, if_true])⟩
          · have hreq' : fld.required = false := by simpa using hreq
            obtain ⟨f, hf⟩ := ihr (j + 1) lit hcl'.2 hnd.2 (by omega)
            exact ⟨f + 1, by simp only [linkSFields, hlk, hsd, hfd, hreq', Bool.false_eq_true, if_false]; exact hf⟩

theorem sized_of (p : GProg) (hp : DefaultsClosed p) (N K : Nat)
    (ihU : ∀ σ0, uCount p σ0 < N → DfltOK σ0 → Clauses p σ0)
    (ihK : ∀ σ0, uCount p σ0 ≤ N → kCount p σ0 < K → DfltOK σ0 → ∀ s, ClausesUpTo p σ0 s) :
    ∀ s σ, uCount p σ ≤ N → kCount p σ ≤ K → DfltOK σ → ClausesUpTo p σ s := by
  intro s
  induction s with
  | zero =>
    intro σ _ _ _
    refine ⟨?_, ?_, ?_, ?_, ?_, ?_⟩
    · intro m e he; have := TExpr.size_pos e; omega
    · intro o m i fs _ hf
      cases fs with
      | nil => exact ⟨1, Or.inr ⟨σ, by simp only [linkFields], Post.refl p σ⟩⟩
      | cons fld rest => simp only [fsz2] at hf; omega
    · intro m v t hm; have := gsz_pos v; omega
    · intro m vs t hm
      cases vs with
      | nil => exact ⟨1, Or.inr ⟨σ, [], by simp only [linkVals], Post.refl p σ⟩⟩
      | cons x xs => simp only [gszList] at hm; omega
    · intro m kvs kt vt hm
      cases kvs with
      | nil => exact ⟨1, Or.inr ⟨σ, [], by simp only [linkPairs], Post.refl p σ⟩⟩
      | cons e rest => obtain ⟨k, v⟩ := e; simp only [gszPairs] at hm; omega
    · -- linkSFields with nothing to look at in the literal: only skips and defaults
      rename_i hs0
      exact fun m sm sn j rest lit => sfields_of p σ hs0 0 (fun m fv t h => by have := gsz_pos fv; omega)
        (fun σ1 _ m sm sn j rest lit _ _ h => by omega) m sm sn rest j lit
  | succ s ih =>
    intro σ hu hk hs
    have hNC := named_const_of_smaller p hp σ hs (fun σ0 hlt hs0 => ihU σ0 (by omega) hs0)
    have here := ih σ hu hk hs
    have next : ∀ σ1, Post p σ σ1 → ClausesUpTo p σ1 s := by
      intro σ1 hp1
      have hs1 := hp1.2.2 hs
      rcases hp1.2.1 with hlt | hge
      · exact (ihU σ1 (by omega) hs1).sized s
      · exact ih σ1 (Nat.le_trans (uCount_le hp1.1) hu) (Nat.le_trans (kCount_le hge) hk) hs1
    -- linking a struct literal against a struct type (after `buildStruct`, or an already built one)
    have viaStruct : ∀ m sm sn fields (fs : List (Name × CV)) (b : Bool), gszFields fs ≤ s →
        (∃ k, lookupType p sm sn = some (.struct k fields)) →
        HaltsP (fun f => (match linkSFields f p m sm sn 0 fields fs { σ with reent := b } with
              | .ok (σ1, fs') => Res.ok (σ1, CV.struct fs')
              | .err => .err
              | .fuel => .fuel)) (fun σ' _ => Post p σ σ') := by
      intro m sm sn fields fs b hsz hlk
      obtain ⟨k, hlk⟩ := hlk
      have hcs := closed_struct hp hlk
      have hpr : Post p σ { σ with reent := b } := KeyEq.post ⟨rfl, rfl, rfl, rfl⟩
      obtain ⟨f, hf⟩ := (next _ hpr).sfields m sm sn 0 fields fs hcs.1 hcs.2
        (Nat.le_trans (gszFields_filter_le _ _) hsz)
      rcases hf with h | ⟨σ1, fs', h, hpost⟩
      · exact ⟨f, Or.inl (by simp only at h ⊢; rw [h])⟩
      · exact ⟨f, Or.inr ⟨σ1, .struct fs', by simp only at h ⊢; rw [h], hpr.trans hpost⟩⟩
    have valC : ∀ m v t, gsz v ≤ s + 1 → HaltsP (fun f => linkVal f p m v t σ) (fun σ' _ => Post p σ σ') := by
      intro m v t hm
      cases v with
      | bool b =>
        refine ⟨1, ?_⟩
        simp only [linkVal]
        split
        · exact Or.inr ⟨σ, _, rfl, Post.refl p σ⟩
        · exact Or.inl rfl
      | int n =>
        refine ⟨1, ?_⟩
        simp only [linkVal]
        split
        · exact Or.inr ⟨σ, _, rfl, Post.refl p σ⟩
        · exact Or.inl rfl
      | str x =>
        refine ⟨1, ?_⟩
        simp only [linkVal]
        split
        · exact Or.inr ⟨σ, _, rfl, Post.refl p σ⟩
        · exact Or.inl rfl
      | dbl x =>
        refine ⟨1, ?_⟩
        simp only [linkVal]
        split
        · exact Or.inr ⟨σ, _, rfl, Post.refl p σ⟩
        · exact Or.inl rfl
      | eref em en item val =>
        refine ⟨1, ?_⟩
        simp only [linkVal]
        split
        · exact Or.inr ⟨σ, _, rfl, Post.refl p σ⟩
        · exact Or.inl rfl
      | map kvs =>
        simp only [gsz] at hm
        cases hk : rootKind p (rootIn p σ t) with
        | strct sm sn fields =>
          cases hb : buildStruct kvs [] with
          | none => exact ⟨1, Or.inl (by simp only [linkVal, hk, hb])⟩
          | some fs =>
            have hsz := buildStruct_size kvs [] fs hb
            simp only [gszFields, Nat.zero_add] at hsz
            obtain ⟨f, hf⟩ := viaStruct m sm sn fields fs (σ.reent || decide (σ.sdoneOf (sm, sn) < fields.length))
              (by omega) (rootKind_strct hk)
            exact ⟨f + 1, by simp only [linkVal, hk, hb]; exact hf⟩
        | map kt vt =>
          obtain ⟨f, hf⟩ := here.pairs m kvs kt vt (by omega)
          rcases hf with h | ⟨σ1, kvs', h, hpost⟩
          · exact ⟨f + 1, Or.inl (by simp only [linkVal, hk]; simp only at h; rw [h])⟩
          · rcases guardDup_cases p σ1 (kvs'.map (·.1)) (.map kvs') with hg | hg
            · exact ⟨f + 1, Or.inl (by simp only [linkVal, hk]; simp only at h; rw [h]; exact hg)⟩
            · exact ⟨f + 1, Or.inr ⟨σ1, .map kvs', by simp only [linkVal, hk]; simp only at h; rw [h]; exact hg, hpost⟩⟩
        | _ => exact ⟨1, Or.inl (by simp only [linkVal, hk])⟩
      | struct fs =>
        simp only [gsz] at hm
        cases hk : rootKind p (rootIn p σ t) with
        | strct sm sn fields =>
          obtain ⟨f, hf⟩ := viaStruct m sm sn fields fs (σ.reent || decide (σ.sdoneOf (sm, sn) < fields.length))
            (by omega) (rootKind_strct hk)
          exact ⟨f + 1, by simp only [linkVal, hk]; exact hf⟩
        | _ => exact ⟨1, Or.inl (by simp only [linkVal, hk])⟩
      | list xs =>
        have hsz : gszList xs ≤ s := by simp only [gsz] at hm; omega
        cases hk : rootKind p (rootIn p σ t) with
        | set e =>
          obtain ⟨f, hf⟩ := here.vals m xs e hsz
          rcases hf with h | ⟨σ1, xs', h, hpost⟩
          · exact ⟨f + 1, Or.inl (by simp only [linkVal, hk]; simp only at h; rw [h])⟩
          · rcases guardDup_cases p σ1 xs' (.set xs') with hg | hg
            · exact ⟨f + 1, Or.inl (by simp only [linkVal, hk]; simp only at h; rw [h]; exact hg)⟩
            · exact ⟨f + 1, Or.inr ⟨σ1, .set xs', by simp only [linkVal, hk]; simp only at h; rw [h]; exact hg, hpost⟩⟩
        | list e =>
          obtain ⟨f, hf⟩ := here.vals m xs e hsz
          rcases hf with h | ⟨σ1, xs', h, hpost⟩
          · exact ⟨f + 1, Or.inl (by simp only [linkVal, hk]; simp only at h; rw [h])⟩
          · exact ⟨f + 1, Or.inr ⟨σ1, .list xs', by simp only [linkVal, hk]; simp only at h; rw [h], hpost⟩⟩
        | _ => exact ⟨1, Or.inl (by simp only [linkVal, hk])⟩
      | set xs =>
        have hsz : gszList xs ≤ s := by simp only [gsz] at hm; omega
        cases hk : rootKind p (rootIn p σ t) with
        | set e =>
          obtain ⟨f, hf⟩ := here.vals m xs e hsz
          rcases hf with h | ⟨σ1, xs', h, hpost⟩
          · exact ⟨f + 1, Or.inl (by simp only [linkVal, hk]; simp only at h; rw [h])⟩
          · rcases guardDup_cases p σ1 xs' (.set xs') with hg | hg
            · exact ⟨f + 1, Or.inl (by simp only [linkVal, hk]; simp only at h; rw [h]; exact hg)⟩
            · exact ⟨f + 1, Or.inr ⟨σ1, .set xs', by simp only [linkVal, hk]; simp only at h; rw [h]; exact hg, hpost⟩⟩
        | _ => exact ⟨1, Or.inl (by simp only [linkVal, hk])⟩
      | cref cm cn =>
        cases hl : lookupConst p cm cn with
        | none => exact ⟨1, Or.inl (by simp only [linkVal, hl])⟩
        | some c =>
          by_cases hst : sameType t (constTypeIn p σ cm cn c) = true
          · exact ⟨1, Or.inr ⟨σ, .cref cm cn, by simp only [linkVal, hl, hst, if_true], Post.refl p σ⟩⟩
          · by_cases hcl : σ.clink.contains (cm, cn) = true
            · exact ⟨1, Or.inl (by simp only [linkVal, hl, hst, hcl, if_true, if_false, Bool.false_eq_true])⟩
            · have hcl' : σ.clink.contains (cm, cn) = false := by simpa using hcl
              cases hcv : alookup (cm, cn) σ.cval with
              | some cur =>
                have hkc : kCount p { σ with clink := (cm, cn) :: σ.clink } < kCount p σ :=
                  kCount_clink_lt hl hcl' _ rfl
                have Cc := ihK { σ with clink := (cm, cn) :: σ.clink } hu (by omega) (fun k v h => hs k v h) (gsz cur)
                obtain ⟨f, hf⟩ := Cc.val m cur t (Nat.le_refl _)
                rcases hf with h | ⟨σ1, v', h, hpost⟩
                · refine ⟨f + 1, Or.inl ?_⟩
                  simp only [linkVal, hl, hst, hcl', hcv, if_false, Bool.false_eq_true]
                  simp only at h; rw [h]
                · refine ⟨f + 1, Or.inr ⟨{ σ1 with clink := σ1.clink.filter (fun x => x != (cm, cn)) }, v', ?_,
                    post_cast (σc := { σ with clink := (cm, cn) :: σ.clink }) hcl' rfl rfl rfl rfl hpost⟩⟩
                  simp only [linkVal, hl, hst, hcl', hcv, if_false, Bool.false_eq_true]
                  simp only at h; rw [h]
              | none =>
                have hkc : kCount p { σ with reent := true, clink := (cm, cn) :: σ.clink } < kCount p σ :=
                  kCount_clink_lt hl hcl' _ rfl
                have Cc := ihK { σ with reent := true, clink := (cm, cn) :: σ.clink } hu (by omega)
                  (fun k v h => hs k v h) (gsz c.val)
                obtain ⟨f, hf⟩ := Cc.val m c.val t (Nat.le_refl _)
                rcases hf with h | ⟨σ1, v', h, hpost⟩
                · refine ⟨f + 1, Or.inl ?_⟩
                  simp only [linkVal, hl, hst, hcl', hcv, if_false, Bool.false_eq_true]
                  simp only at h; rw [h]
                · refine ⟨f + 1, Or.inr ⟨{ σ1 with clink := σ1.clink.filter (fun x => x != (cm, cn)) }, v', ?_,
                    post_cast (σc := { σ with reent := true, clink := (cm, cn) :: σ.clink }) hcl' rfl rfl rfl rfl hpost⟩⟩
                  simp only [linkVal, hl, hst, hcl', hcv, if_false, Bool.false_eq_true]
                  simp only at h; rw [h]
      | uref name =>
        simp only [gsz] at hm
        cases hl : lookupConst p m name with
        | some c0 =>
          obtain ⟨f1, hf1⟩ := hNC.2 m name
          rcases hf1 with h | ⟨σ1, h1, hpost1⟩
          · exact ⟨f1 + 1, Or.inl (by simp only [linkVal, hl]; simp only at h; rw [h])⟩
          · obtain ⟨f2, hf2⟩ := (next σ1 hpost1).val m (.cref m name) t (by simp only [gsz]; omega)
            have h1' := linkConst_lift p h1 (by intro h; cases h) (Nat.le_max_left f1 f2)
            rcases hf2 with h | ⟨σ2, v', h2, hpost2⟩
            · have h' := linkVal_lift p h (by intro h; cases h) (Nat.le_max_right f1 f2)
              exact ⟨max f1 f2 + 1, Or.inl (by simp only [linkVal, hl]; rw [h1']; simp only; exact h')⟩
            · have h2' := linkVal_lift p h2 (by intro h; cases h) (Nat.le_max_right f1 f2)
              exact ⟨max f1 f2 + 1, Or.inr ⟨σ2, v', by simp only [linkVal, hl]; rw [h1']; simp only; exact h2',
                hpost1.trans hpost2⟩⟩
        | none =>
          cases hsp : splitInclude name with
          | none => exact ⟨1, Or.inl (by simp only [linkVal, hl, hsp])⟩
          | some pr =>
            obtain ⟨mn, inm⟩ := pr
            have hlen := splitInclude_length hsp
            have hinc : ∀ m', HaltsP (fun f => linkVal f p m' (.uref inm) t σ) (fun σ' _ => Post p σ σ') :=
              fun m' => here.val m' (.uref inm) t (by simp only [gsz]; omega)
            have viaInclude : HaltsP (fun f => (match lookupInclude p m mn with
                  | none => (Res.err : Res (St × CV))
                  | some m' => linkVal f p m' (.uref inm) t σ)) (fun σ' _ => Post p σ σ') := by
              cases hi : lookupInclude p m mn with
              | none => exact ⟨0, Or.inl rfl⟩
              | some m' => exact hinc m'
            obtain ⟨f, hf⟩ := viaInclude
            refine ⟨f + 1, ?_⟩
            show linkVal (f + 1) p m (.uref name) t σ = .err ∨ _
            simp only [linkVal, hl, hsp]
            split
            · split
              · split
                · exact Or.inr ⟨σ, _, rfl, Post.refl p σ⟩
                · exact Or.inl rfl
              · exact Or.inl rfl
            · exact hf
    refine ⟨?_, ?_, valC, ?_, ?_, ?_⟩
    · -- linkTy
      intro m e he
      cases e with
      | base o b => exact ⟨1, Or.inr ⟨σ, .base o b, by simp only [linkTy], Post.refl p σ⟩⟩
      | list o e =>
        obtain ⟨f, hf⟩ := here.ty m e (by simp only [TExpr.size] at he; omega)
        rcases hf with h | ⟨σ1, lt, h, hpost⟩
        · exact ⟨f + 1, Or.inl (by simp only [linkTy]; simp only at h; rw [h])⟩
        · exact ⟨f + 1, Or.inr ⟨σ1, .list o lt, by simp only [linkTy]; simp only at h; rw [h], hpost⟩⟩
      | set o e =>
        obtain ⟨f, hf⟩ := here.ty m e (by simp only [TExpr.size] at he; omega)
        rcases hf with h | ⟨σ1, lt, h, hpost⟩
        · exact ⟨f + 1, Or.inl (by simp only [linkTy]; simp only at h; rw [h])⟩
        · exact ⟨f + 1, Or.inr ⟨σ1, .set o lt, by simp only [linkTy]; simp only at h; rw [h], hpost⟩⟩
      | map o k v =>
        obtain ⟨f1, hf1⟩ := here.ty m k (by simp only [TExpr.size] at he; omega)
        rcases hf1 with h | ⟨σ1, kt, h1, hpost1⟩
        · exact ⟨f1 + 1, Or.inl (by simp only [linkTy]; simp only at h; rw [h])⟩
        · obtain ⟨f2, hf2⟩ := (next σ1 hpost1).ty m v (by simp only [TExpr.size] at he; omega)
          have h1' := linkTy_lift p h1 (by intro h; cases h) (Nat.le_max_left f1 f2)
          rcases hf2 with h | ⟨σ2, vt, h2, hpost2⟩
          · have h' := linkTy_lift p h (by intro h; cases h) (Nat.le_max_right f1 f2)
            exact ⟨max f1 f2 + 1, Or.inl (by simp only [linkTy]; rw [h1']; simp only; rw [h'])⟩
          · have h2' := linkTy_lift p h2 (by intro h; cases h) (Nat.le_max_right f1 f2)
            exact ⟨max f1 f2 + 1, Or.inr ⟨σ2, .map o kt vt, by simp only [linkTy]; rw [h1']; simp only; rw [h2'],
              hpost1.trans hpost2⟩⟩
      | ref n =>
        cases hl : lookupType p m n with
        | some d =>
          obtain ⟨f, hf⟩ := hNC.1 m n
          rcases hf with h | ⟨σ1, h, hpost⟩
          · exact ⟨f + 1, Or.inl (by simp only [linkTy, hl]; simp only at h; rw [h])⟩
          · exact ⟨f + 1, Or.inr ⟨σ1, .named m n, by simp only [linkTy, hl]; simp only at h; rw [h], hpost⟩⟩
        | none =>
          cases hsp : splitInclude n with
          | none => exact ⟨1, Or.inl (by simp only [linkTy, hl, hsp])⟩
          | some pr =>
            obtain ⟨mn, inm⟩ := pr
            cases hi : lookupInclude p m mn with
            | none => exact ⟨1, Or.inl (by simp only [linkTy, hl, hsp, hi])⟩
            | some m' =>
              have hlen := splitInclude_length hsp
              obtain ⟨f, hf⟩ := here.ty m' (.ref inm) (by simp only [TExpr.size] at he ⊢; omega)
              rcases hf with h | ⟨σ1, lt, h, hpost⟩
              · exact ⟨f + 1, Or.inl (by simp only [linkTy, hl, hsp, hi]; exact h)⟩
              · exact ⟨f + 1, Or.inr ⟨σ1, lt, by simp only [linkTy, hl, hsp, hi]; exact h, hpost⟩⟩
    · -- linkFields
      intro o m i fs hpl hsz
      cases fs with
      | nil => exact ⟨1, Or.inr ⟨σ, by simp only [linkFields], Post.refl p σ⟩⟩
      | cons fld rest =>
        have hcl' := dfltsClosed_cons hpl
        simp only [fsz2] at hsz
        obtain ⟨f1, hf1⟩ := here.ty m fld.ty (by omega)
        rcases hf1 with h | ⟨σ1, lt, h1, hpost1⟩
        · exact ⟨f1 + 1, Or.inl (by simp only [linkFields]; simp only at h; rw [h])⟩
        · have hpost2 : Post p σ (ownerMark o i σ1) := hpost1.trans (KeyEq.post (keyEq_ownerMark o i σ1))
          cases hd : fld.dflt with
          | none =>
            obtain ⟨f2, hf2⟩ := (next _ hpost2).fields o m (i + 1) rest hcl'.2 (by omega)
            have h1' := linkTy_lift p h1 (by intro h; cases h) (Nat.le_max_left f1 f2)
            rcases hf2 with h | ⟨σ3, h3, hpost3⟩
            · have h' := linkFields_lift p h (by intro h; cases h) (Nat.le_max_right f1 f2)
              exact ⟨max f1 f2 + 1, Or.inl (by simp only [linkFields]; rw [h1']; simp only [hd]; exact h')⟩
            · have h3' := linkFields_lift p h3 (by intro h; cases h) (Nat.le_max_right f1 f2)
              exact ⟨max f1 f2 + 1, Or.inr ⟨σ3, by simp only [linkFields]; rw [h1']; simp only [hd]; exact h3',
                hpost2.trans hpost3⟩⟩
          | some d =>
            rw [hd] at hsz
            simp only at hsz
            have hpostb : Post p σ (ownerBeginDflt o i (ownerMark o i σ1)) :=
              hpost2.trans (KeyEq.post (keyEq_ownerBeginDflt o i _))
            have hnr : nrAt p m d = true := closedD_all (hcl'.1 d hd) m
            obtain ⟨f2, hf2⟩ := (nrHalts p d.msz).1 m d lt (ownerBeginDflt o i (ownerMark o i σ1)) (Nat.le_refl _) hnr
            rcases hf2 with h | ⟨v, h3, hv⟩
            · have h1' := linkTy_lift p h1 (by intro h; cases h) (Nat.le_max_left f1 f2)
              have h' := linkVal_lift p h (by intro h; cases h) (Nat.le_max_right f1 f2)
              exact ⟨max f1 f2 + 1, Or.inl (by simp only [linkFields]; rw [h1']; simp only [hd]; rw [h'])⟩
            · have hpost4 : Post p σ (ownerSetDflt o i v (ownerBeginDflt o i (ownerMark o i σ1))) :=
                hpostb.trans (post_ownerSetDflt p o i v hv _)
              obtain ⟨f3, hf3⟩ := (next _ hpost4).fields o m (i + 1) rest hcl'.2 (by omega)
              have h1' := linkTy_lift p h1 (by intro h; cases h) (show f1 ≤ max f1 (max f2 f3) from Nat.le_max_left _ _)
              have h3' := linkVal_lift p h3 (by intro h; cases h)
                (show f2 ≤ max f1 (max f2 f3) from Nat.le_trans (Nat.le_max_left _ _) (Nat.le_max_right _ _))
              have hle3 : f3 ≤ max f1 (max f2 f3) := Nat.le_trans (Nat.le_max_right _ _) (Nat.le_max_right _ _)
              rcases hf3 with h | ⟨σ5, h5, hpost5⟩
              · have h' := linkFields_lift p h (by intro h; cases h) hle3
                exact ⟨max f1 (max f2 f3) + 1, Or.inl (by
                  simp only [linkFields]; rw [h1']; simp only [hd]; rw [h3']; simp only; exact h')⟩
              · have h5' := linkFields_lift p h5 (by intro h; cases h) hle3
                exact ⟨max f1 (max f2 f3) + 1, Or.inr ⟨σ5, by
                  simp only [linkFields]; rw [h1']; simp only [hd]; rw [h3']; simp only; exact h5',
                  hpost4.trans hpost5⟩⟩
    · -- linkVals
      intro m vs t hm
      cases vs with
      | nil => exact ⟨1, Or.inr ⟨σ, [], by simp only [linkVals], Post.refl p σ⟩⟩
      | cons x xs =>
        simp only [gszList] at hm
        obtain ⟨f1, hf1⟩ := here.val m x t (by omega)
        rcases hf1 with h | ⟨σ1, x', h1, hpost1⟩
        · exact ⟨f1 + 1, Or.inl (by simp only [linkVals]; simp only at h; rw [h])⟩
        · obtain ⟨f2, hf2⟩ := (next σ1 hpost1).vals m xs t (by omega)
          have h1' := linkVal_lift p h1 (by intro h; cases h) (Nat.le_max_left f1 f2)
          rcases hf2 with h | ⟨σ2, xs', h2, hpost2⟩
          · have h' := linkVals_lift p h (by intro h; cases h) (Nat.le_max_right f1 f2)
            exact ⟨max f1 f2 + 1, Or.inl (by simp only [linkVals]; rw [h1']; simp only; rw [h'])⟩
          · have h2' := linkVals_lift p h2 (by intro h; cases h) (Nat.le_max_right f1 f2)
            exact ⟨max f1 f2 + 1, Or.inr ⟨σ2, x' :: xs', by simp only [linkVals]; rw [h1']; simp only; rw [h2'],
              hpost1.trans hpost2⟩⟩
    · -- linkPairs
      intro m kvs kt vt hm
      cases kvs with
      | nil => exact ⟨1, Or.inr ⟨σ, [], by simp only [linkPairs], Post.refl p σ⟩⟩
      | cons e rest =>
        obtain ⟨k, v⟩ := e
        simp only [gszPairs] at hm
        obtain ⟨f1, hf1⟩ := here.val m k kt (by omega)
        rcases hf1 with h | ⟨σ1, k', h1, hpost1⟩
        · exact ⟨f1 + 1, Or.inl (by simp only [linkPairs]; simp only at h; rw [h])⟩
        · obtain ⟨f2, hf2⟩ := (next σ1 hpost1).val m v vt (by omega)
          rcases hf2 with h | ⟨σ2, v', h2, hpost2⟩
          · have h1' := linkVal_lift p h1 (by intro h; cases h) (Nat.le_max_left f1 f2)
            have h' := linkVal_lift p h (by intro h; cases h) (Nat.le_max_right f1 f2)
            exact ⟨max f1 f2 + 1, Or.inl (by simp only [linkPairs]; rw [h1']; simp only; rw [h'])⟩
          · obtain ⟨f3, hf3⟩ := (next σ2 (hpost1.trans hpost2)).pairs m rest kt vt (by omega)
            have h1' := linkVal_lift p h1 (by intro h; cases h) (show f1 ≤ max f1 (max f2 f3) from Nat.le_max_left _ _)
            have h2' := linkVal_lift p h2 (by intro h; cases h)
              (show f2 ≤ max f1 (max f2 f3) from Nat.le_trans (Nat.le_max_left _ _) (Nat.le_max_right _ _))
            have hle3 : f3 ≤ max f1 (max f2 f3) := Nat.le_trans (Nat.le_max_right _ _) (Nat.le_max_right _ _)
            rcases hf3 with h | ⟨σ3, rest', h3, hpost3⟩
            · have h' := linkPairs_lift p h (by intro h; cases h) hle3
              exact ⟨max f1 (max f2 f3) + 1, Or.inl (by
                simp only [linkPairs]; rw [h1']; simp only; rw [h2']; simp only; rw [h'])⟩
            · have h3' := linkPairs_lift p h3 (by intro h; cases h) hle3
              exact ⟨max f1 (max f2 f3) + 1, Or.inr ⟨σ3, (k', v') :: rest', by
                simp only [linkPairs]; rw [h1']; simp only; rw [h2']; simp only; rw [h3'],
                (hpost1.trans hpost2).trans hpost3⟩⟩
    · -- linkSFields
      exact fun m sm sn j rest lit => sfields_of p σ hs (s + 1)
        (fun m fv t h => here.val m fv t (by omega))
        (fun σ1 hp1 m sm sn j rest lit hc hn h => (next σ1 hp1).sfields m sm sn j rest lit hc hn (by omega))
        m sm sn rest j lit


/-- **Every call of the linker's mutual block halts** for a program whose default values are
closed, from every state whose stored defaults are linked values without references. -/
theorem clauses_all (p : GProg) (hp : DefaultsClosed p) : ∀ N σ, uCount p σ ≤ N → DfltOK σ → Clauses p σ := by
  intro N
  induction N using Nat.strongRecOn with
  | ind N ihN =>
    intro σ hu hs
    have ihU : ∀ σ0, uCount p σ0 < N → DfltOK σ0 → Clauses p σ0 :=
      fun σ0 h hs0 => ihN (uCount p σ0) h σ0 (Nat.le_refl _) hs0
    have hK : ∀ K, ∀ σ0, uCount p σ0 ≤ N → kCount p σ0 ≤ K → DfltOK σ0 → ∀ s, ClausesUpTo p σ0 s := by
      intro K
      induction K using Nat.strongRecOn with
      | ind K ihK =>
        intro σ0 h1 h2 h3 s
        exact sized_of p hp N K ihU
          (fun σ1 g1 g2 g3 s' => ihK (kCount p σ1) g2 σ1 g1 (Nat.le_refl _) g3 s') s σ0 h1 h2 h3
    have hNC := named_const_of_smaller p hp σ hs (fun σ0 hlt hs0 => ihU σ0 (by omega) hs0)
    exact ⟨hNC.1, hNC.2, fun s => hK (kCount p σ) σ hu (Nat.le_refl _) hs s⟩

theorem clauses_of_dfltOK (p : GProg) (hp : DefaultsClosed p) (σ : St) (hs : DfltOK σ) : Clauses p σ :=
  clauses_all p hp (uCount p σ) σ (Nat.le_refl _) hs

theorem dfltOK_init : DfltOK St.init := by
  intro k v h; simp [St.init, alookup] at h

end ThriftVerif.Compile.DC
