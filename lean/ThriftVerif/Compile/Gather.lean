/-
M-Compile, part 3: `compiler.load/gather` — name claims, enum value assignment
(compile/enum.go), field identifier assignment and checks (compile/field.go), function
and service checks (compile/service.go). Every error collapses to `none`.

The result (`GProg`) is the compiled-but-unlinked module graph: what `link` starts from.
Core-only.
-/
import ThriftVerif.Compile.Ast
import ThriftVerif.Compile.Num

namespace ThriftVerif.Compile

/-- compile.FieldSpec before linking -/
structure GField where
  id : Int              -- FieldSpec.ID (an int16)
  name : Name
  required : Bool
  ty : TExpr
  dflt : Option CV
  deriving Repr, Inhabited

structure GFunc where
  name : Name
  oneway : Bool
  args : List GField
  ret : Option TExpr
  excs : List GField
  deriving Repr, Inhabited

/-- The named types of a module (`Module.Types` values). -/
inductive TDef where
  | typedef (target : TExpr)
  | enum (items : List (Name × Int))      -- EnumItem.Value is an int32
  | struct (kind : SKind) (fields : List GField)
  deriving Repr, Inhabited

structure GConst where
  ty : TExpr
  val : CV
  deriving Repr, Inhabited

structure GService where
  parent : Option Name
  funcs : List GFunc
  deriving Repr, Inhabited

/-- compile.Module before linking. The three maps are association lists in declaration
order with unique keys (the shared Thrift namespace guarantees uniqueness). -/
structure Mod where
  includes : List (Name × Nat)
  types : List (Name × TDef)
  consts : List (Name × GConst)
  services : List (Name × GService)
  deriving Repr, Inhabited

def Mod.empty : Mod := ⟨[], [], [], []⟩

/-- All modules, indexed like the program's files. -/
abbrev GProg := List Mod

/-! ### fields (compile/field.go) -/

/-- fieldRequiredness -/
inductive ReqMode where
  | defaultToOptional | explicit | noRequired
  deriving DecidableEq, Repr

/-- fieldOptions -/
structure FieldOpts where
  reqMode : ReqMode
  disallowDefault : Bool
  allowNeg : Bool
  deriving Repr

/-- `fieldRequiredness.isRequired`: `none` = error. -/
def isRequired (m : ReqMode) (f : Field) : Option Bool :=
  match m with
  | .explicit => if f.req = .unspecified then none else some (f.req = .required ∧ f.dflt.isNone)
  | .noRequired => if f.req = .required then none else some (f.req = .required ∧ f.dflt.isNone)
  | .defaultToOptional => some (f.req = .required ∧ f.dflt.isNone)

/-- The identifier the source designates for a field, and the next auto-assigned negative
identifier (`compileFields`: `nextNegativeID`). Without `allowNegativeIDs` an unset
identifier stays 0 (`ast.Field.ID`'s zero value). -/
def assignId (allowNeg : Bool) (next : Int) (id : Option Int) : Int × Int :=
  match id with
  | some i => if allowNeg ∧ i < 0 then (i, i - 1) else (i, next)
  | none => if allowNeg then (next, next - 1) else (0, next)

/-- The identifiers the source designates, field by field (before the `int16` conversion). -/
def srcIds (allowNeg : Bool) : Int → List Field → List Int
  | _, [] => []
  | next, f :: rest => (assignId allowNeg next f.id).1 :: srcIds allowNeg (assignId allowNeg next f.id).2 rest

/-- `compileField`'s bounds check:
`(src.ID < 1 && !allowNegativeIDs) || src.ID > math.MaxInt16 || src.ID < math.MinInt16`. -/
def idRejected (allowNeg : Bool) (sid : Int) : Bool :=
  (decide (sid < 1) && !allowNeg) || decide (sid > 32767) || decide (sid < -32768)

/-- `compileFields`. `names`: claimed field names; `used`: `usedIDs` keys; `next`: `nextNegativeID`. -/
def gatherFields (o : FieldOpts) : List Field → List Name → List Int → Int → Option (List GField)
  | [], _, _, _ => some []
  | f :: rest, names, used, next =>
    if names.contains f.name then none else
    if idRejected o.allowNeg (assignId o.allowNeg next f.id).1 then none else
    match isRequired o.reqMode f with
    | none => none
    | some req =>
      if o.disallowDefault ∧ f.dflt.isSome then none else
      -- `ID: int16(src.ID)`
      if used.contains (wrap16 (assignId o.allowNeg next f.id).1) then none else
      match gatherFields o rest (f.name :: names) (wrap16 (assignId o.allowNeg next f.id).1 :: used)
          (assignId o.allowNeg next f.id).2 with
      | none => none
      | some gs => some (⟨wrap16 (assignId o.allowNeg next f.id).1, f.name, req, f.ty, f.dflt⟩ :: gs)

def compileFields (o : FieldOpts) (fs : List Field) : Option (List GField) :=
  gatherFields o fs [] [] (-1)

/-! ### enums (compile/enum.go) -/

/-- `compileEnum`'s bounds check: `value < math.MinInt32 || value > math.MaxInt32`. -/
def enumValueRejected (v : Int) : Bool := decide (v < -2147483648) || decide (v > 2147483647)

/-- `compileEnum`'s loop. `names`: lower-cased claimed names; `prev`: previous value (a Go `int`). -/
def gatherEnumItems : List (Name × Option Int) → List Name → Int → Option (List (Name × Int))
  | [], _, _ => some []
  | (n, v) :: rest, names, prev =>
    if names.contains (toLower n) then none else
    if enumValueRejected (match v with | some x => x | none => wrap64 (prev + 1)) then none else
    match gatherEnumItems rest (toLower n :: names) (match v with | some x => x | none => wrap64 (prev + 1)) with
    | none => none
    -- `Value: int32(value)`
    | some is => some ((n, wrap32 (match v with | some x => x | none => wrap64 (prev + 1))) :: is)

def compileEnum (items : List (Name × Option Int)) : Option (List (Name × Int)) :=
  gatherEnumItems items [] (-1)

/-- The values the source designates (explicit, or previous + 1 starting from 0). -/
def srcEnumValues : Int → List (Name × Option Int) → List Int
  | _, [] => []
  | _, (_, some x) :: rest => x :: srcEnumValues x rest
  | prev, (_, none) :: rest => (prev + 1) :: srcEnumValues (prev + 1) rest

/-! ### structs, services -/

def structOpts (strict : Bool) (k : SKind) : FieldOpts :=
  match k with
  | .union => ⟨.noRequired, true, !strict⟩
  | _ => ⟨if strict then .explicit else .defaultToOptional, false, !strict⟩

def argOpts : FieldOpts := ⟨.defaultToOptional, false, false⟩
def excOpts : FieldOpts := ⟨.noRequired, true, false⟩

/-- `compileFunction` -/
def compileFunction (f : Func) : Option GFunc :=
  match compileFields argOpts f.args with
  | none => none
  | some args =>
    if f.oneway then
      if f.ret.isSome ∨ f.excs ≠ [] then none else some ⟨f.name, true, args, none, []⟩
    else
      match (if f.excs = [] then some [] else compileFields excOpts f.excs) with
      | none => none
      | some excs => some ⟨f.name, false, args, f.ret, excs⟩

/-- `compileService`'s loop; function names are claimed case-insensitively. -/
def gatherFuncs : List Func → List Name → Option (List GFunc)
  | [], _ => some []
  | f :: rest, names =>
    if names.contains (toLower f.name) then none else
    match compileFunction f, gatherFuncs rest (toLower f.name :: names) with
    | some g, some gs => some (g :: gs)
    | _, _ => none

/-! ### a file -/

/-- the include headers: `include()` checks and the claim of the include name -/
def gatherIncludes : List Include → List Name → Option (List (Name × Nat) × List Name)
  | [], names => some ([], names)
  | i :: rest, names =>
    if i.asName then none else
    if i.name.contains hyphen then none else
    match i.target with
    | none => none
    | some t =>
      if names.contains i.name then none else
      match gatherIncludes rest (i.name :: names) with
      | none => none
      | some (is, ns) => some ((i.name, t) :: is, ns)

/-- the definitions, claiming names in the file's (case-sensitive) Thrift namespace -/
def gatherDefs (strict : Bool) : List Def → List Name → Mod → Option Mod
  | [], _, m => some m
  | d :: rest, names, m =>
    if names.contains d.name then none else
    match d with
    | .const n ty v => gatherDefs strict rest (n :: names) { m with consts := m.consts ++ [(n, ⟨ty, v⟩)] }
    | .typedef n ty => gatherDefs strict rest (n :: names) { m with types := m.types ++ [(n, .typedef ty)] }
    | .enum n items =>
      match compileEnum items with
      | none => none
      | some is => gatherDefs strict rest (n :: names) { m with types := m.types ++ [(n, .enum is)] }
    | .struct k n fields =>
      match compileFields (structOpts strict k) fields with
      | none => none
      | some fs => gatherDefs strict rest (n :: names) { m with types := m.types ++ [(n, .struct k fs)] }
    | .service n parent funcs =>
      match gatherFuncs funcs [] with
      | none => none
      | some fs => gatherDefs strict rest (n :: names) { m with services := m.services ++ [(n, ⟨parent, fs⟩)] }

def gatherFile (strict : Bool) : File → Option Mod
  | .bad => none
  | .ok incs defs =>
    match gatherIncludes incs [] with
    | none => none
    | some (is, names) => gatherDefs strict defs names ⟨is, [], [], []⟩

/-! ### the file set -/

def File.targets : File → List Nat
  | .bad => []
  | .ok incs _ => incs.filterMap (·.target)

/-- files reachable from the `todo` list through include headers (`load` recursion; a file is
loaded once: `compiler.Modules`) -/
def reach (files : List File) : Nat → List Nat → List Nat → List Nat
  | 0, _, seen => seen
  | _ + 1, [], seen => seen
  | f + 1, i :: todo, seen =>
    if seen.contains i then reach files f todo seen
    else reach files f (todo ++ (files.getD i .bad).targets) (i :: seen)

def reachFuel (files : List File) : Nat :=
  (files.map (fun f => f.targets.length + 1)).sum + 2

def reachable (p : Program) : List Nat := reach p.files (reachFuel p.files) [0] []

/-- `load` of the root file: every reachable file must parse and gather. Files that are not
reachable are never read; their slot holds an empty module. -/
def gather (p : Program) : Option GProg :=
  if (reachable p).all (fun i => (gatherFile p.strict (p.files.getD i .bad)).isSome) then
    some (p.files.map (fun f => (gatherFile p.strict f).getD Mod.empty))
  else none

end ThriftVerif.Compile
