/-
M-Compile, part 7: the canonical dump of a compiled module graph (the observable the
correspondence harness compares): kinds, names, files, field ids / types / requiredness,
enum item values, typedef targets and roots, linked constant values and defaults, service
parents. Produced either from the stateful linker's final state or from the declarative
spec. Drivers only; nothing here is used in theorems. Core-only.
-/
import ThriftVerif.Compile.Gen

namespace ThriftVerif.Compile

def strOf (s : Str) : String := String.ofList (s.map Char.ofNat)
def ofStr (s : String) : Str := s.toList.map Char.toNat

def hexDigitC (n : Nat) : Char := if n < 10 then Char.ofNat (48 + n) else Char.ofNat (87 + n)
def hexOfStr (s : Str) : String :=
  String.ofList (s.foldr (fun b acc => hexDigitC (b / 16 % 16) :: hexDigitC (b % 16) :: acc) [])

def hexNat (n : Nat) : String := String.ofList (Nat.toDigits 16 n)

def baseText : Base → String
  | .bool => "bool" | .i8 => "i8" | .i16 => "i16" | .i32 => "i32" | .i64 => "i64"
  | .double => "double" | .string => "string" | .binary => "binary"

def tyText : LType → String
  | .base _ b => baseText b
  | .list _ e => "list<" ++ tyText e ++ ">"
  | .set _ e => "set<" ++ tyText e ++ ">"
  | .map _ k v => "map<" ++ tyText k ++ "," ++ tyText v ++ ">"
  | .named m n => "@" ++ toString m ++ "." ++ strOf n
  | .uref n => "?" ++ strOf n

def optTyText : Option LType → String
  | some t => tyText t
  | none => "nil"

/-- lexicographic order on code points (= Go's string order on ASCII names) -/
def strLe : Str → Str → Bool
  | [], _ => true
  | _ :: _, [] => false
  | a :: as, b :: bs => if a < b then true else if b < a then false else strLe as bs

def insertBy {α : Type} (key : α → Str) (x : α) : List α → List α
  | [] => [x]
  | y :: ys => if strLe (key x) (key y) then x :: y :: ys else y :: insertBy key x ys

def sortBy {α : Type} (key : α → Str) (l : List α) : List α := l.foldr (insertBy key) []

mutual
  def cvText : CV → String
    | .int n => "i" ++ toString n
    | .dbl b => "d" ++ hexNat b
    | .bool b => if b then "b1" else "b0"
    | .str s => "s" ++ hexOfStr s
    | .list xs => "[" ++ cvListText xs ++ "]"
    | .set xs => "{" ++ cvListText xs ++ "}"
    | .map kvs => "m[" ++ cvPairsText kvs ++ "]"
    | .struct fs => "S[" ++ ",".intercalate (sortBy id (cvFieldsText fs) |>.map strOf) ++ "]"
    | .uref n => "u" ++ strOf n
    | .cref m n => "c@" ++ toString m ++ "." ++ strOf n
    | .eref m e i v => "e@" ++ toString m ++ "." ++ strOf e ++ "." ++ strOf i ++ "=" ++ toString v
  def cvListText : List CV → String
    | [] => ""
    | [x] => cvText x
    | x :: xs => cvText x ++ "," ++ cvListText xs
  def cvPairsText : List (CV × CV) → String
    | [] => ""
    | [(k, v)] => cvText k ++ ">" ++ cvText v
    | (k, v) :: rest => cvText k ++ ">" ++ cvText v ++ "," ++ cvPairsText rest
  /-- one entry `name=value` per field, as a `Str` so that the entries can be sorted -/
  def cvFieldsText : List (Name × CV) → List Str
    | [] => []
    | (n, v) :: rest => (n ++ ofStr ("=" ++ cvText v)) :: cvFieldsText rest
end

def optCvText : Option CV → String
  | some v => cvText v
  | none => "?"

/-- where the state-dependent parts of the dump come from -/
structure Acc where
  root : Nat → Name → Option LType
  cval : Nat → Name → Option CV
  sdflt : Nat → Name → Nat → GField → Option CV
  fdflt : Nat → Name → Name → Nat → GField → Option CV
  parent : Nat → Name → Name → Option (Nat × Name)

def Acc.ofState (p : GProg) (σ : St) : Acc where
  root m n := rootIn p σ (.named m n)   -- what `RootTypeSpec` answers (not the stored field: finding D10, repaired)
  cval m n := alookup (m, n) σ.cval
  sdflt m n i _ := alookup (m, n, i) σ.sdflt
  fdflt m s f i _ := alookup (m, s, f, i) σ.fdflt
  parent m n _ := alookup (m, n) σ.vpar

def Acc.ofSpec (p : GProg) : Acc where
  root m n := rootOf p (.named m n)
  cval m n := constValue p m n
  sdflt m _ _ f := fieldDefault p m f
  fdflt m _ _ _ f := fieldDefault p m f
  parent m _ pn := resolveService p m pn

def fieldsText (p : GProg) (m : Nat) (dflt : Nat → GField → Option CV) : Nat → List GField → List String
  | _, [] => []
  | i, f :: rest =>
    (toString f.id ++ ":" ++ strOf f.name ++ ":" ++ (if f.required then "r" else "o") ++ ":" ++
      optTyText (resolveExpr p m f.ty) ++
      (match f.dflt with
       | some _ => "=" ++ optCvText (dflt i f)
       | none => "")) :: fieldsText p m dflt (i + 1) rest

def kindText : SKind → String
  | .struct => "struct" | .union => "union" | .exception => "exception"

def typeText (p : GProg) (a : Acc) (m : Nat) (n : Name) : TDef → String
  | .typedef target =>
    "typedef " ++ strOf n ++ "=" ++ optTyText (resolveExpr p m target) ++ "~" ++ optTyText (a.root m n)
  | .enum items =>
    "enum " ++ strOf n ++ "[" ++ ",".intercalate (items.map fun (i, v) => strOf i ++ "=" ++ toString v) ++ "]"
  | .struct k fields =>
    kindText k ++ " " ++ strOf n ++ "[" ++ ",".intercalate (fieldsText p m (a.sdflt m n) 0 fields) ++ "]"

def funcText (p : GProg) (a : Acc) (m : Nat) (svc : Name) (g : GFunc) : String :=
  strOf g.name ++ ":" ++ (if g.oneway then "1" else "0") ++ "(" ++
    ",".intercalate (fieldsText p m (a.fdflt m svc g.name) 0 g.args) ++ ")->" ++
    (if g.oneway then "none" else
      (match g.ret with
       | some e => optTyText (resolveExpr p m e)
       | none => "void") ++ "!(" ++ ",".intercalate (fieldsText p m (fun _ _ => none) 0 g.excs) ++ ")")

def serviceText (p : GProg) (a : Acc) (m : Nat) (n : Name) (s : GService) : String :=
  strOf n ++ "^" ++
    (match s.parent with
     | none => "-"
     | some pn =>
       match a.parent m n pn with
       | some (pm, pname) => "@" ++ toString pm ++ "." ++ strOf pname
       | none => "?") ++
    "[" ++ ",".intercalate ((sortBy (·.name) s.funcs).map (funcText p a m n)) ++ "]"

def moduleText (p : GProg) (a : Acc) (m : Nat) : String :=
  let md := modAt p m
  "M" ++ toString m ++ "{T:" ++
    ";".intercalate ((sortBy (·.1) md.types).map fun (n, d) => typeText p a m n d) ++ "|C:" ++
    ";".intercalate ((sortBy (·.1) md.consts).map fun (n, c) =>
      strOf n ++ ":" ++ optTyText (resolveExpr p m c.ty) ++ "=" ++ optCvText (a.cval m n)) ++ "|S:" ++
    ";".intercalate ((sortBy (·.1) md.services).map fun (n, s) => serviceText p a m n s) ++ "}"

/-- modules reachable from the root, ascending -/
def reachableMods (p : GProg) : Nat → List Nat → List Nat → List Nat
  | 0, _, seen => seen
  | _ + 1, [], seen => seen
  | f + 1, m :: queue, seen =>
    if seen.contains m then reachableMods p f queue seen
    else reachableMods p f (queue ++ (modAt p m).includes.map (·.2)) (m :: seen)

def dumpText (p : GProg) (a : Acc) : String :=
  let mods := (List.range p.length).filter (fun m => (reachableMods p (walkFuel p) [0] []).contains m)
  " ".intercalate (mods.map (moduleText p a))

end ThriftVerif.Compile
