/-
M-Compile, part 1: the program AST as the correspondence harness sends it
(what `idl.Parse` hands to `compile.Compile`, positions and annotations dropped),
plus the string helpers of compile/string.go and compile/namespace.go.

Strings are lists of code points (`Str`), so that every definition below is
evaluated by the kernel (`decide`) in the witness theorems. Core-only.
-/

namespace ThriftVerif.Compile

/-- A string: list of code points. Identifiers are ASCII (`[A-Za-z_][A-Za-z0-9_.]*`). -/
abbrev Str := List Nat
abbrev Name := Str

/-- ast.BaseTypeID. -/
inductive Base where
  | bool | i8 | i16 | i32 | i64 | double | string | binary
  deriving DecidableEq, Repr, Inhabited

/-- ast.Type. `occ` identifies the occurrence: `compileTypeReference` allocates a fresh
`*I32Spec`, `*ListSpec`, … for every base/container type written in the source, and
`ConstReference.Link` compares such pointers (`t == c.Target.Type`). The driver numbers
the occurrences while parsing. -/
inductive TExpr where
  | base (occ : Nat) (b : Base)
  | list (occ : Nat) (e : TExpr)
  | set (occ : Nat) (e : TExpr)
  | map (occ : Nat) (k v : TExpr)
  | ref (name : Name)
  deriving DecidableEq, Repr, Inhabited

/-- compile.ConstantValue: the source forms (`int … uref`) and the forms only linking
produces (`set struct cref eref`). Doubles are IEEE-754 bit patterns. -/
inductive CV where
  | int (n : Int)
  | dbl (bits : Nat)
  | bool (b : Bool)
  | str (s : Str)
  | list (xs : List CV)
  | map (kvs : List (CV × CV))
  | uref (name : Name)                                   -- constantReference (unlinked)
  | set (xs : List CV)                                   -- ConstantSet
  | struct (fs : List (Name × CV))                       -- *ConstantStruct (a Go map: key order is not observable)
  | cref (m : Nat) (name : Name)                         -- ConstReference{Target}
  | eref (m : Nat) (enum : Name) (item : Name) (val : Int) -- EnumItemReference
  deriving Repr, Inhabited

/-- ast.Requiredness -/
inductive Req where
  | unspecified | required | optional
  deriving DecidableEq, Repr, Inhabited

/-- ast.Field -/
structure Field where
  id : Option Int          -- none = IDUnset
  name : Name
  req : Req
  ty : TExpr
  dflt : Option CV
  deriving Repr, Inhabited

/-- ast.Function (`ret = none` is `void`). -/
structure Func where
  name : Name
  oneway : Bool
  args : List Field
  ret : Option TExpr
  excs : List Field
  deriving Repr, Inhabited

/-- ast.StructureType -/
inductive SKind where
  | struct | union | exception
  deriving DecidableEq, Repr, Inhabited

/-- ast.Definition -/
inductive Def where
  | typedef (name : Name) (ty : TExpr)
  | enum (name : Name) (items : List (Name × Option Int))
  | struct (kind : SKind) (name : Name) (fields : List Field)
  | const (name : Name) (ty : TExpr) (val : CV)
  | service (name : Name) (parent : Option Name) (funcs : List Func)
  deriving Repr, Inhabited

def Def.name : Def → Name
  | .typedef n _ => n | .enum n _ => n | .struct _ n _ => n | .const n _ _ => n | .service n _ _ => n

/-- ast.Include as the compiler sees it: `asName` = the disabled `include name "path"` form;
`name = fileBaseName(path)`; `target` = index of the file `filepath.Join(dir, path)` denotes
(`none`: no such file). -/
structure Include where
  asName : Bool
  name : Name
  target : Option Nat
  deriving Repr, Inhabited

/-- One Thrift file: unparsable, or headers + definitions. -/
inductive File where
  | bad
  | ok (includes : List Include) (defs : List Def)
  deriving Repr, Inhabited

/-- A set of files; file 0 is the one handed to `Compile`. -/
structure Program where
  strict : Bool
  files : List File
  deriving Repr, Inhabited

/-! ### string helpers -/

def dot : Nat := 46
def hyphen : Nat := 45

/-- strings.ToLower on ASCII. -/
def lowerChar (c : Nat) : Nat := if 65 ≤ c ∧ c ≤ 90 then c + 32 else c
def toLower (s : Str) : Str := s.map lowerChar

/-- `splitInclude` (compile/string.go): split at the first '.', provided it is not the
first character. -/
def splitAtDot : Str → Str → Option (Str × Str)
  | _, [] => none
  | acc, c :: rest => if c = dot then some (acc.reverse, rest) else splitAtDot (c :: acc) rest

def splitInclude (s : Str) : Option (Str × Str) :=
  match splitAtDot [] s with
  | some (a, b) => if a = [] then none else some (a, b)
  | none => none

theorem splitAtDot_length {acc s a b} (h : splitAtDot acc s = some (a, b)) :
    b.length < s.length := by
  induction s generalizing acc with
  | nil => simp [splitAtDot] at h
  | cons c rest ih =>
    unfold splitAtDot at h
    split at h
    · cases h; simp
    · have := ih h; simp; omega

theorem splitInclude_length {s a b} (h : splitInclude s = some (a, b)) : b.length < s.length := by
  unfold splitInclude at h
  split at h
  · split at h
    · cases h
    · cases h; exact splitAtDot_length (by assumption)
  · cases h

/-- association-list lookup (first match), the model of a Go map keyed by unique names -/
def alookup {α β : Type} [DecidableEq α] (k : α) : List (α × β) → Option β
  | [] => none
  | (k', v) :: rest => if k' = k then some v else alookup k rest

/-- replace or append -/
def aset {α β : Type} [DecidableEq α] (k : α) (v : β) : List (α × β) → List (α × β)
  | [] => [(k, v)]
  | (k', v') :: rest => if k' = k then (k, v) :: rest else (k', v') :: aset k v rest

theorem alookup_aset_self {α β : Type} [DecidableEq α] (k : α) (v : β) (l : List (α × β)) :
    alookup k (aset k v l) = some v := by
  induction l with
  | nil => simp [aset, alookup]
  | cons p rest ih =>
    obtain ⟨k', v'⟩ := p
    by_cases h : k' = k
    · simp [aset, alookup, h]
    · simp [aset, alookup, h, ih]

theorem alookup_aset_ne {α β : Type} [DecidableEq α] {k k2 : α} (v : β) (l : List (α × β))
    (hne : k ≠ k2) : alookup k2 (aset k v l) = alookup k2 l := by
  induction l with
  | nil => simp [aset, alookup, hne]
  | cons p rest ih =>
    obtain ⟨k', v'⟩ := p
    by_cases h : k' = k
    · subst h; simp [aset, alookup, hne]
    · by_cases h2 : k' = k2
      · subst h2; simp [aset, alookup, h]
      · simp [aset, alookup, h, h2, ih]

end ThriftVerif.Compile
