/-
Termination (C08) — from the linker's mutual block to `compileWith`, generically.

`BlockOK p Inv Good`: from every state satisfying `Inv`, the calls the upper layers make into the
mutual block (`linkNamed`, `linkConst`, `linkTy`, `linkFields` on field lists that are `Good`) halt
and re-establish `Inv`. This file carries that through `FunctionSpec.Link`, `ServiceSpec.Link` /
`resolveService` (service inheritance, also cyclic: induction on the number of services not yet
entered, then on the length of the dotted name), `compiler.link(m)`, `Module.Walk`, `Compile`.
Sub-calls halt with *some* fuel each; a verdict is kept with more fuel (the `*_stable` lemmas of
`TotalProofs`), so the fuels are combined with `max`. Instantiated twice: `ConstTotalPlain`
(plain values, invariant `StoreOK`) and `ConstTotalDC` (closed defaults, invariant `DfltOK`).
-/
import ThriftVerif.Compile.ConstTotal

namespace ThriftVerif.Compile

/-- what the layers above the mutual block need from it -/
structure BlockOK (p : GProg) (Inv : St → Prop) (Good : List GField → Prop) : Prop where
  named : ∀ σ, Inv σ → ∀ m n, ∃ f, linkNamed f p m n σ = .err ∨ ∃ σ', linkNamed f p m n σ = .ok σ' ∧ Inv σ'
  const : ∀ σ, Inv σ → ∀ m n, ∃ f, linkConst f p m n σ = .err ∨ ∃ σ', linkConst f p m n σ = .ok σ' ∧ Inv σ'
  fields : ∀ σ, Inv σ → ∀ o m i fs, Good fs →
    ∃ f, linkFields f p o m i fs σ = .err ∨ ∃ σ', linkFields f p o m i fs σ = .ok σ' ∧ Inv σ'
  ty : ∀ σ, Inv σ → ∀ m e, ∃ f, linkTy f p m e σ = .err ∨ ∃ σ' lt, linkTy f p m e σ = .ok (σ', lt) ∧ Inv σ'
  inv_fflag : ∀ σ x, Inv σ → Inv { σ with fflag := x }
  inv_vflag_vlink : ∀ σ x y, Inv σ → Inv { { σ with vflag := x } with vlink := y }
  inv_vpar : ∀ σ x, Inv σ → Inv { σ with vpar := x }
  inv_vlink : ∀ σ x, Inv σ → Inv { σ with vlink := x }
  funcs : ∀ m n s, lookupService p m n = some s → ∀ g ∈ s.funcs, Good g.args ∧ Good g.excs
  init : Inv St.init


/-- the fuel-indexed call `F` returns for some fuel, and an `ok` result satisfies `Inv` -/
def HaltsI (Inv : St → Prop) (F : Nat → Res St) : Prop := ∃ f, F f = .err ∨ ∃ σ', F f = .ok σ' ∧ Inv σ'

theorem forEach_halts {α : Type} (g : Nat → α → St → Res St) (Inv : St → Prop)
    (hst : ∀ f x σ, Stable (g f x σ) (g (f + 1) x σ))
    (hh : ∀ x σ, Inv σ → HaltsI Inv (fun f => g f x σ)) :
    ∀ xs σ, Inv σ → HaltsI Inv (fun f => forEach (g f) xs σ) := by
  intro xs
  induction xs with
  | nil => intro σ hi; exact ⟨0, Or.inr ⟨σ, rfl, hi⟩⟩
  | cons x xs ih =>
    intro σ hi
    obtain ⟨f1, h1⟩ := hh x σ hi
    rcases h1 with h | ⟨σ1, h1, hi1⟩
    · exact ⟨f1, Or.inl (by simp only at h; simp only [forEach, h])⟩
    · obtain ⟨f2, h2⟩ := ih σ1 hi1
      have h1' : g (max f1 f2) x σ = .ok σ1 :=
        stable_lift (fun f => g f x σ) (fun f => hst f x σ) h1 (by intro h; cases h) _ (Nat.le_max_left _ _)
      have lift2 : ∀ r, forEach (g f2) xs σ1 = r → r ≠ .fuel → forEach (g (max f1 f2)) xs σ1 = r := fun r hr hne =>
        stable_lift (fun f => forEach (g f) xs σ1) (fun f => forEach_stable _ _ (hst f) xs σ1) hr hne _ (Nat.le_max_right _ _)
      rcases h2 with h | ⟨σ2, h2, hi2⟩
      · exact ⟨max f1 f2, Or.inl (by simp only [forEach, h1']; exact lift2 _ h (by intro h; cases h))⟩
      · exact ⟨max f1 f2, Or.inr ⟨σ2, by simp only [forEach, h1']; exact lift2 _ h2 (by intro h; cases h), hi2⟩⟩


theorem linkFunc_lift (p : GProg) {m svc fn σ f r} (h : linkFunc f p m svc fn σ = r) (hr : r ≠ .fuel) {g : Nat} (hg : f ≤ g) :
    linkFunc g p m svc fn σ = r :=
  stable_lift (fun f => linkFunc f p m svc fn σ) (fun f => linkFunc_stable p f m svc fn σ) h hr g hg

/-- `FunctionSpec.Link` halts -/
theorem linkFunc_halts {p : GProg} {Inv : St → Prop} {Good : List GField → Prop} (B : BlockOK p Inv Good)
    (m : Nat) (svc : Name) (fn : GFunc) (ha : Good fn.args) (he : Good fn.excs) (σ : St) (hs : Inv σ) :
    HaltsI Inv (fun f => linkFunc f p m svc fn σ) := by
  by_cases hc : σ.fflag.contains (m, svc, fn.name) = true
  · exact ⟨0, Or.inr ⟨σ, by simp only [linkFunc, hc, if_true], hs⟩⟩
  · have hc' : σ.fflag.contains (m, svc, fn.name) = false := by simpa using hc
    have hs0 : Inv { σ with fflag := (m, svc, fn.name) :: σ.fflag } := B.inv_fflag _ _ hs
    obtain ⟨f1, h1⟩ := B.fields _ hs0 (.args m svc fn.name) m 0 fn.args ha
    rcases h1 with h | ⟨σ1, h1, hs1⟩
    · refine ⟨f1, Or.inl ?_⟩
      simp only [linkFunc, hc', Bool.false_eq_true, if_false]
      (try simp only at h); rw [h]
    · by_cases hw : fn.oneway = true
      · refine ⟨f1, Or.inr ⟨σ1, ?_, hs1⟩⟩
        simp only [linkFunc, hc', Bool.false_eq_true, if_false]
        (try simp only at h1); rw [h1]
        simp only [hw, if_true]
      · have hw' : fn.oneway = false := by simpa using hw
        have h1' : ∀ g, f1 ≤ g → linkFields g p (.args m svc fn.name) m 0 fn.args { σ with fflag := (m, svc, fn.name) :: σ.fflag } = .ok σ1 :=
          fun g hg => linkFields_lift p h1 (by intro h; cases h) hg
        have excsH : ∀ σ2, Inv σ2 → ∃ f3 r, linkFields f3 p (.excs m svc fn.name) m 0 fn.excs σ2 = r ∧ r ≠ .fuel ∧
            ∀ σ3, r = .ok σ3 → Inv σ3 := by
          intro σ2 hs2
          obtain ⟨f3, h3⟩ := B.fields _ hs2 (.excs m svc fn.name) m 0 fn.excs he
          rcases h3 with h | ⟨σ3, h3, hp3⟩
          · refine ⟨f3, Res.err, h, ?_, ?_⟩
            · intro h; cases h
            · intro _ h; cases h
          · refine ⟨f3, Res.ok σ3, h3, ?_, ?_⟩
            · intro h; cases h
            · intro σ3' h; cases h; exact hp3
        -- what remains once the state after the return type is known
        have finish : ∀ (F : Nat) (σ2 : St) (r : Res St), linkFields F p (.excs m svc fn.name) m 0 fn.excs σ2 = r → r ≠ .fuel →
            (∀ σ3, r = .ok σ3 → Inv σ3) →
            (match r with
              | .ok σ3 => if excsOk p m fn.excs then Res.ok σ3 else .err
              | .err => .err
              | .fuel => .fuel) = .err ∨
            ∃ σ', (match r with
              | .ok σ3 => if excsOk p m fn.excs then Res.ok σ3 else .err
              | .err => .err
              | .fuel => .fuel) = .ok σ' ∧ Inv σ' := by
          intro F σ2 r _ hne hok
          cases r with
          | fuel => exact absurd rfl hne
          | err => exact Or.inl rfl
          | ok σ3 =>
            by_cases hx : excsOk p m fn.excs = true
            · exact Or.inr ⟨σ3, by simp only [hx, if_true], hok σ3 rfl⟩
            · exact Or.inl (by simp only [hx]; rfl)
        cases hr : fn.ret with
        | none =>
          obtain ⟨f3, r, h3, hne, hok⟩ := excsH σ1 hs1
          have h3' := linkFields_lift p h3 hne (Nat.le_max_right f1 f3)
          refine ⟨max f1 f3, ?_⟩
          show linkFunc (max f1 f3) p m svc fn σ = .err ∨ _
          simp only [linkFunc, hc', Bool.false_eq_true, if_false]
          rw [h1' _ (Nat.le_max_left _ _)]
          simp only [hw', Bool.false_eq_true, if_false, hr]
          rw [h3']
          exact finish _ _ r h3' hne hok
        | some e =>
          obtain ⟨f2, h2⟩ := B.ty _ hs1 m e
          rcases h2 with h | ⟨σ2, lt, h2, hs2⟩
          · have hte' := linkTy_lift p h (by intro h; cases h) (Nat.le_max_right f1 f2)
            refine ⟨max f1 f2, Or.inl ?_⟩
            simp only [linkFunc, hc', Bool.false_eq_true, if_false]
            rw [h1' _ (Nat.le_max_left _ _)]
            simp only [hw', Bool.false_eq_true, if_false, hr, hte']
          · obtain ⟨f3, r, h3, hne, hok⟩ := excsH σ2 hs2
            have hle1 : f1 ≤ max f1 (max f2 f3) := Nat.le_max_left _ _
            have hle2 : f2 ≤ max f1 (max f2 f3) := Nat.le_trans (Nat.le_max_left _ _) (Nat.le_max_right _ _)
            have hle3 : f3 ≤ max f1 (max f2 f3) := Nat.le_trans (Nat.le_max_right _ _) (Nat.le_max_right _ _)
            have h2' := linkTy_lift p h2 (by intro h; cases h) hle2
            have h3' := linkFields_lift p h3 hne hle3
            refine ⟨max f1 (max f2 f3), ?_⟩
            show linkFunc (max f1 (max f2 f3)) p m svc fn σ = .err ∨ _
            simp only [linkFunc, hc', Bool.false_eq_true, if_false]
            rw [h1' _ hle1]
            simp only [hw', Bool.false_eq_true, if_false, hr, h2']
            rw [h3']
            exact finish _ _ r h3' hne hok


/-- services whose `Link` has not started -/
def vCount (p : GProg) (σ : St) : Nat := (allSvcKeys p).countP (fun k => !σ.vflag.contains k)

theorem allSvcKeys_mem {p : GProg} {m : Nat} {n : Name} {s : GService} (h : lookupService p m n = some s) :
    (m, n) ∈ allSvcKeys p := by
  obtain ⟨hm, _, hmem⟩ := lookupService_mod h
  unfold allSvcKeys
  rw [List.mem_flatMap]
  exact ⟨m, List.mem_range.2 hm, List.mem_map.2 ⟨(n, s), hmem, rfl⟩⟩

theorem vCount_vflag_lt {p : GProg} {σ : St} {m : Nat} {n : Name} {s : GService} (hl : lookupService p m n = some s)
    (hc : σ.vflag.contains (m, n) = false) (σ0 : St) (h0 : σ0.vflag = (m, n) :: σ.vflag) :
    vCount p σ0 < vCount p σ := by
  unfold vCount
  rw [h0]
  have := countP_lt_of_imp (fun k => !((m, n) :: σ.vflag).contains k) (fun k => !σ.vflag.contains k) (allSvcKeys p)
    (by intro x hx
        simp only [Bool.not_eq_true'] at hx ⊢
        cases hcx : σ.vflag.contains x with
        | false => rfl
        | true => rw [contains_cons_of _ hcx] at hx; cases hx)
    (m, n) (allSvcKeys_mem hl) (by show (!σ.vflag.contains (m, n)) = true; rw [hc]; rfl) (by simp)
  simpa using this

/-- the step `ServiceSpec.Link` folds over the function names of a service -/
def funcStep (p : GProg) (m : Nat) (n : Name) (s : GService) (f : Nat) (fname : Name) (σ : St) : Res St :=
  match findFunc fname s.funcs with
  | some g => linkFunc f p m n g σ
  | none => .ok σ

theorem funcStep_stable (p : GProg) (m : Nat) (n : Name) (s : GService) (f : Nat) (fname : Name) (σ : St) :
    Stable (funcStep p m n s f fname σ) (funcStep p m n s (f + 1) fname σ) := by
  unfold funcStep
  split
  · exact linkFunc_stable p f m n _ σ
  · right; rfl

theorem funcStep_halts {p : GProg} {Inv : St → Prop} {Good : List GField → Prop} (B : BlockOK p Inv Good)
    {m : Nat} {n : Name} {s : GService}
    (hl : lookupService p m n = some s) (fname : Name) (σ : St) (hs : Inv σ) :
    HaltsI Inv (fun f => funcStep p m n s f fname σ) := by
  unfold funcStep
  cases hf : findFunc fname s.funcs with
  | none => exact ⟨0, Or.inr ⟨σ, rfl, hs⟩⟩
  | some g =>
    have hg := B.funcs m n s hl g (mem_of_findFunc hf)
    exact linkFunc_halts B m n g hg.1 hg.2 σ hs

theorem endService_halts {p : GProg} {Inv : St → Prop} {Good : List GField → Prop} (B : BlockOK p Inv Good)
    {k : Nat × Name} {F : Nat → Res St} (h : HaltsI Inv F) :
    HaltsI Inv (fun f => endService k (F f)) := by
  obtain ⟨f, hf⟩ := h
  rcases hf with h | ⟨σ', h, hs⟩
  · exact ⟨f, Or.inl (by simp only [h, endService])⟩
  · exact ⟨f, Or.inr ⟨{ σ' with vlink := σ'.vlink.filter (fun x => x != k) }, by simp only [h, endService],
      B.inv_vlink _ _ hs⟩⟩

theorem linkService_lift (p : GProg) (o : Orders) {m n σ f r} (h : linkService f p o m n σ = r) (hr : r ≠ .fuel)
    {g : Nat} (hg : f ≤ g) : linkService g p o m n σ = r :=
  stable_lift (fun f => linkService f p o m n σ) (fun f => (service_stable p o f).1 m n σ) h hr g hg

theorem resolveSvc_lift (p : GProg) (o : Orders) {m n σ f r} (h : resolveSvc f p o m n σ = r) (hr : r ≠ .fuel)
    {g : Nat} (hg : f ≤ g) : resolveSvc g p o m n σ = r :=
  stable_lift (fun f => resolveSvc f p o m n σ) (fun f => (service_stable p o f).2 m n σ) h hr g hg

/-- `ServiceSpec.Link` and `resolveService` halt (service inheritance, also cyclic): by induction on
the number of services whose `Link` has not started, then on the length of the dotted name. -/
theorem service_halts {p : GProg} {Inv : St → Prop} {Good : List GField → Prop} (B : BlockOK p Inv Good) (o : Orders) :
    ∀ N σ, vCount p σ ≤ N → Inv σ →
    (∀ m n, HaltsI Inv (fun f => linkService f p o m n σ)) ∧
    (∀ L m name, name.length ≤ L →
      ∃ f, resolveSvc f p o m name σ = .err ∨ ∃ σ' pk, resolveSvc f p o m name σ = .ok (σ', pk) ∧ Inv σ') := by
  intro N
  induction N using Nat.strongRecOn with
  | ind N ihN =>
    intro σ hN hs
    have hLS : ∀ m n, HaltsI Inv (fun f => linkService f p o m n σ) := by
      intro m n
      cases hl : lookupService p m n with
      | none => exact ⟨1, Or.inl (by simp only [linkService, hl])⟩
      | some s =>
        by_cases hc : σ.vflag.contains (m, n) = true
        · by_cases hk : σ.vlink.contains (m, n) = true
          · exact ⟨1, Or.inl (by simp only [linkService, hl, hc, hk, if_true])⟩
          · have hk' : σ.vlink.contains (m, n) = false := by simpa using hk
            exact ⟨1, Or.inr ⟨σ, by simp only [linkService, hl, hc, hk', if_true, Bool.false_eq_true, if_false], hs⟩⟩
        · have hc' : σ.vflag.contains (m, n) = false := by simpa using hc
          have hs0 : Inv { { σ with vflag := (m, n) :: σ.vflag } with vlink := (m, n) :: σ.vlink } := B.inv_vflag_vlink _ _ _ hs
          cases hpar : s.parent with
          | none =>
            obtain ⟨f, hf⟩ := endService_halts B (k := (m, n))
              (forEach_halts (funcStep p m n s) Inv (funcStep_stable p m n s) (funcStep_halts B hl)
                (applyOrder (alookup n (o.at m).funcs |>.getD []) (s.funcs.map (·.name))) _ hs0)
            refine ⟨f + 1, ?_⟩
            show linkService (f + 1) p o m n σ = .err ∨ _
            simp only [linkService, hl, hc', Bool.false_eq_true, if_false, hpar]
            exact hf
          | some pname =>
            have hv0 : vCount p { { σ with vflag := (m, n) :: σ.vflag } with vlink := (m, n) :: σ.vlink } < vCount p σ :=
              vCount_vflag_lt hl hc' _ rfl
            obtain ⟨f1, h1⟩ := (ihN _ (by omega) _ (Nat.le_refl _) hs0).2 pname.length m pname (Nat.le_refl _)
            rcases h1 with h | ⟨σ1, pk, h1, hs1⟩
            · refine ⟨f1 + 1, Or.inl ?_⟩
              simp only [linkService, hl, hc', Bool.false_eq_true, if_false, hpar]
              (try simp only at h); rw [h]
            · have hs1' : Inv { σ1 with vpar := aset (m, n) pk σ1.vpar } := B.inv_vpar _ _ hs1
              obtain ⟨f2, hf2⟩ := endService_halts B (k := (m, n))
                (forEach_halts (funcStep p m n s) Inv (funcStep_stable p m n s) (funcStep_halts B hl)
                  (applyOrder (alookup n (o.at m).funcs |>.getD []) (s.funcs.map (·.name))) _ hs1')
              have h1' := resolveSvc_lift p o h1 (by intro h; cases h) (Nat.le_max_left f1 f2)
              have lift2 : ∀ r, endService (m, n) (forEach (funcStep p m n s f2)
                    (applyOrder (alookup n (o.at m).funcs |>.getD []) (s.funcs.map (·.name))) { σ1 with vpar := aset (m, n) pk σ1.vpar }) = r →
                  r ≠ .fuel → endService (m, n) (forEach (funcStep p m n s (max f1 f2))
                    (applyOrder (alookup n (o.at m).funcs |>.getD []) (s.funcs.map (·.name))) { σ1 with vpar := aset (m, n) pk σ1.vpar }) = r :=
                fun r hr hne => stable_lift
                  (fun f => endService (m, n) (forEach (funcStep p m n s f)
                    (applyOrder (alookup n (o.at m).funcs |>.getD []) (s.funcs.map (·.name))) { σ1 with vpar := aset (m, n) pk σ1.vpar }))
                  (fun f => endService_stable (m, n) (forEach_stable _ _ (funcStep_stable p m n s f) _ _)) hr hne _ (Nat.le_max_right _ _)
              refine ⟨max f1 f2 + 1, ?_⟩
              show linkService (max f1 f2 + 1) p o m n σ = .err ∨ _
              simp only [linkService, hl, hc', Bool.false_eq_true, if_false, hpar]
              rw [h1']
              simp only
              rcases hf2 with h | ⟨σ2, h2, hs2⟩
              · exact Or.inl (lift2 _ h (by intro h; cases h))
              · exact Or.inr ⟨σ2, lift2 _ h2 (by intro h; cases h), hs2⟩
    refine ⟨hLS, ?_⟩
    intro L
    induction L with
    | zero =>
      intro m name hlen
      cases hl : lookupService p m name with
      | some s =>
        obtain ⟨f, hf⟩ := hLS m name
        rcases hf with h | ⟨σ1, h, hs1⟩
        · exact ⟨f + 1, Or.inl (by simp only [resolveSvc, hl]; (try simp only at h); rw [h])⟩
        · exact ⟨f + 1, Or.inr ⟨σ1, (m, name), by simp only [resolveSvc, hl]; (try simp only at h); rw [h], hs1⟩⟩
      | none =>
        cases hsp : splitInclude name with
        | none => exact ⟨1, Or.inl (by simp only [resolveSvc, hl, hsp])⟩
        | some pr =>
          have := splitInclude_length hsp
          omega
    | succ L ihL =>
      intro m name hlen
      cases hl : lookupService p m name with
      | some s =>
        obtain ⟨f, hf⟩ := hLS m name
        rcases hf with h | ⟨σ1, h, hs1⟩
        · exact ⟨f + 1, Or.inl (by simp only [resolveSvc, hl]; (try simp only at h); rw [h])⟩
        · exact ⟨f + 1, Or.inr ⟨σ1, (m, name), by simp only [resolveSvc, hl]; (try simp only at h); rw [h], hs1⟩⟩
      | none =>
        cases hsp : splitInclude name with
        | none => exact ⟨1, Or.inl (by simp only [resolveSvc, hl, hsp])⟩
        | some pr =>
          obtain ⟨mn, inm⟩ := pr
          have hlen2 := splitInclude_length hsp
          cases hi : lookupInclude p m mn with
          | none => exact ⟨1, Or.inl (by simp only [resolveSvc, hl, hsp, hi])⟩
          | some m' =>
            obtain ⟨f, hf⟩ := ihL m' inm (by omega)
            rcases hf with h | ⟨σ1, pk, h, hs1⟩
            · exact ⟨f + 1, Or.inl (by simp only [resolveSvc, hl, hsp, hi]; exact h)⟩
            · exact ⟨f + 1, Or.inr ⟨σ1, pk, by simp only [resolveSvc, hl, hsp, hi]; exact h, hs1⟩⟩


def bindR (a : Res St) (k : St → Res St) : Res St :=
  match a with
  | .ok σ => k σ
  | .err => .err
  | .fuel => .fuel

theorem bindR_stable {a b : Res St} {k k' : St → Res St} (h : Stable a b) (hk : ∀ σ, Stable (k σ) (k' σ)) :
    Stable (bindR a k) (bindR b k') := by
  cases a with
  | fuel => left; rfl
  | err => rw [h.err rfl]; right; rfl
  | ok σ => rw [h.ok rfl]; exact hk σ

theorem seq_halts {Inv : St → Prop} (F1 : Nat → Res St) (F2 : Nat → St → Res St)
    (s1 : ∀ f, Stable (F1 f) (F1 (f + 1))) (s2 : ∀ f σ, Stable (F2 f σ) (F2 (f + 1) σ))
    (h1 : HaltsI Inv F1) (h2 : ∀ σ, Inv σ → HaltsI Inv (fun f => F2 f σ)) :
    HaltsI Inv (fun f => bindR (F1 f) (F2 f)) := by
  obtain ⟨f1, h1⟩ := h1
  rcases h1 with h | ⟨σ1, h1, hi1⟩
  · exact ⟨f1, Or.inl (by simp only [h, bindR])⟩
  · obtain ⟨f2, h2⟩ := h2 σ1 hi1
    have h1' : F1 (max f1 f2) = .ok σ1 := stable_lift F1 s1 h1 (by intro h; cases h) _ (Nat.le_max_left _ _)
    have lift2 : ∀ r, F2 f2 σ1 = r → r ≠ .fuel → F2 (max f1 f2) σ1 = r := fun r hr hne =>
      stable_lift (fun f => F2 f σ1) (fun f => s2 f σ1) hr hne _ (Nat.le_max_right _ _)
    rcases h2 with h | ⟨σ2, h2, hi2⟩
    · exact ⟨max f1 f2, Or.inl (by simp only [h1', bindR]; exact lift2 _ h (by intro h; cases h))⟩
    · exact ⟨max f1 f2, Or.inr ⟨σ2, by simp only [h1', bindR]; exact lift2 _ h2 (by intro h; cases h), hi2⟩⟩

def svcNames (p : GProg) (o : Orders) (m : Nat) : List Name :=
  applyOrder (o.at m).services ((modAt p m).services.map (·.1))

/-- the stages of `compiler.link(m)` after the types: constants, (pre-linked functions,) services,
typedef cycle check -/
def stage4 (p : GProg) (o : Orders) (m : Nat) (f : Nat) (σ3 : St) : Res St :=
  bindR (forEach (fun n σ' => linkService f p o m n σ') (svcNames p o m) σ3)
    (fun σ4 => if moduleHasCycle p m then .err else .ok σ4)
def stage3 (p : GProg) (o : Orders) (pre : Bool) (m : Nat) (f : Nat) (σ2 : St) : Res St :=
  bindR (prelinkFuncs f p o pre m (svcNames p o m) σ2) (stage4 p o m f)
def stage2 (p : GProg) (o : Orders) (pre : Bool) (m : Nat) (f : Nat) (σ1 : St) : Res St :=
  bindR (forEach (fun n σ' => linkConst f p m n σ') (applyOrder (o.at m).consts ((modAt p m).consts.map (·.1))) σ1)
    (stage3 p o pre m f)

theorem linkModule_eq (fuel : Nat) (p : GProg) (o : Orders) (pre : Bool) (m : Nat) (σ : St) :
    linkModule fuel p o pre m σ =
      bindR (forEach (fun n σ' => linkNamed fuel p m n σ') (applyOrder (o.at m).types ((modAt p m).types.map (·.1))) σ)
        (stage2 p o pre m fuel) := by
  unfold linkModule stage2 stage3 stage4 svcNames bindR
  rfl

theorem linkFuncsOf_stable (p : GProg) (o : Orders) (m : Nat) (n : Name) (f : Nat) (σ : St) :
    Stable (linkFuncsOf f p o m n σ) (linkFuncsOf (f + 1) p o m n σ) := by
  unfold linkFuncsOf
  split
  · apply forEach_stable
    intro fname σb
    split
    · exact linkFunc_stable p f m n _ σb
    · right; rfl
  · right; rfl

theorem linkFuncsOf_halts {p : GProg} {Inv : St → Prop} {Good : List GField → Prop} (B : BlockOK p Inv Good)
    (o : Orders) (m : Nat) (n : Name) (σ : St) (hs : Inv σ) :
    HaltsI Inv (fun f => linkFuncsOf f p o m n σ) := by
  unfold linkFuncsOf
  cases hl : lookupService p m n with
  | none => exact ⟨0, Or.inr ⟨σ, rfl, hs⟩⟩
  | some s =>
    exact forEach_halts (funcStep p m n s) Inv (funcStep_stable p m n s) (funcStep_halts B hl) _ σ hs

theorem prelinkFuncs_halts {p : GProg} {Inv : St → Prop} {Good : List GField → Prop} (B : BlockOK p Inv Good)
    (o : Orders) (pre : Bool) (m : Nat) (svcs : List Name)
    (σ : St) (hs : Inv σ) : HaltsI Inv (fun f => prelinkFuncs f p o pre m svcs σ) := by
  unfold prelinkFuncs
  cases pre with
  | false => exact ⟨0, Or.inr ⟨σ, rfl, hs⟩⟩
  | true =>
    simp only [if_true]
    exact forEach_halts (fun f n σ' => linkFuncsOf f p o m n σ') Inv (fun f n σ' => linkFuncsOf_stable p o m n f σ')
      (fun n σ' hs' => linkFuncsOf_halts B o m n σ' hs') svcs σ hs

theorem stage4_stable (p : GProg) (o : Orders) (m : Nat) (f : Nat) (σ3 : St) :
    Stable (stage4 p o m f σ3) (stage4 p o m (f + 1) σ3) :=
  bindR_stable (forEach_stable _ _ (fun n σ' => (service_stable p o f).1 m n σ') _ _) (fun _ => Stable.rfl' _)

theorem stage3_stable (p : GProg) (o : Orders) (pre : Bool) (m : Nat) (f : Nat) (σ2 : St) :
    Stable (stage3 p o pre m f σ2) (stage3 p o pre m (f + 1) σ2) :=
  bindR_stable (prelinkFuncs_stable p f o pre m _ σ2) (stage4_stable p o m f)

theorem stage2_stable (p : GProg) (o : Orders) (pre : Bool) (m : Nat) (f : Nat) (σ1 : St) :
    Stable (stage2 p o pre m f σ1) (stage2 p o pre m (f + 1) σ1) :=
  bindR_stable (forEach_stable _ _ (fun n σ' => (monoStep p f).2.2.2.1 m n σ') _ _) (stage3_stable p o pre m f)

theorem stage4_halts {p : GProg} {Inv : St → Prop} {Good : List GField → Prop} (B : BlockOK p Inv Good)
    (o : Orders) (m : Nat) (σ3 : St) (hs3 : Inv σ3) :
    HaltsI Inv (fun f => stage4 p o m f σ3) := by
  unfold stage4
  refine seq_halts (Inv := Inv) (fun f => forEach (fun n σ' => linkService f p o m n σ') (svcNames p o m) σ3)
    (fun _ σ4 => if moduleHasCycle p m then .err else .ok σ4)
    (fun f => forEach_stable _ _ (fun n σ' => (service_stable p o f).1 m n σ') _ _) (fun f σ4 => Stable.rfl' _) ?_ ?_
  · exact forEach_halts (fun f n σ'' => linkService f p o m n σ'') Inv (fun f n σ'' => (service_stable p o f).1 m n σ'')
      (fun n σ'' hs'' => (service_halts B o _ σ'' (Nat.le_refl _) hs'').1 m n) _ σ3 hs3
  · intro σ4 hs4
    by_cases hc : moduleHasCycle p m = true
    · exact ⟨0, Or.inl (by simp only [hc, if_true])⟩
    · have hc' : moduleHasCycle p m = false := by simpa using hc
      exact ⟨0, Or.inr ⟨σ4, by simp only [hc', Bool.false_eq_true, if_false], hs4⟩⟩

theorem stage3_halts {p : GProg} {Inv : St → Prop} {Good : List GField → Prop} (B : BlockOK p Inv Good)
    (o : Orders) (pre : Bool) (m : Nat) (σ2 : St) (hs2 : Inv σ2) :
    HaltsI Inv (fun f => stage3 p o pre m f σ2) := by
  unfold stage3
  exact seq_halts (Inv := Inv) (fun f => prelinkFuncs f p o pre m (svcNames p o m) σ2) (stage4 p o m)
    (fun f => prelinkFuncs_stable p f o pre m _ σ2) (stage4_stable p o m)
    (prelinkFuncs_halts B o pre m _ σ2 hs2) (stage4_halts B o m)

theorem stage2_halts {p : GProg} {Inv : St → Prop} {Good : List GField → Prop} (B : BlockOK p Inv Good)
    (o : Orders) (pre : Bool) (m : Nat) (σ1 : St) (hs1 : Inv σ1) :
    HaltsI Inv (fun f => stage2 p o pre m f σ1) := by
  unfold stage2
  refine seq_halts (Inv := Inv)
    (fun f => forEach (fun n σ' => linkConst f p m n σ') (applyOrder (o.at m).consts ((modAt p m).consts.map (·.1))) σ1)
    (stage3 p o pre m)
    (fun f => forEach_stable _ _ (fun n σ' => (monoStep p f).2.2.2.1 m n σ') _ _) (stage3_stable p o pre m) ?_
    (stage3_halts B o pre m)
  exact forEach_halts (fun f n σ'' => linkConst f p m n σ'') Inv (fun f n σ'' => (monoStep p f).2.2.2.1 m n σ'')
    (fun n σ'' hs'' => B.const σ'' hs'' m n) _ σ1 hs1

/-- `compiler.link(m)` halts -/
theorem linkModule_halts {p : GProg} {Inv : St → Prop} {Good : List GField → Prop} (B : BlockOK p Inv Good)
    (o : Orders) (pre : Bool) (m : Nat) (σ : St) (hs : Inv σ) :
    HaltsI Inv (fun f => linkModule f p o pre m σ) := by
  have h := seq_halts (Inv := Inv)
    (fun f => forEach (fun n σ' => linkNamed f p m n σ') (applyOrder (o.at m).types ((modAt p m).types.map (·.1))) σ)
    (stage2 p o pre m)
    (fun f => forEach_stable _ _ (fun n σ' => (monoStep p f).2.1 m n σ') _ _) (stage2_stable p o pre m)
    (forEach_halts (fun f n σ'' => linkNamed f p m n σ'') Inv (fun f n σ'' => (monoStep p f).2.1 m n σ'')
      (fun n σ'' hs'' => B.named σ'' hs'' m n) _ σ hs)
    (stage2_halts B o pre m)
  obtain ⟨f, hf⟩ := h
  exact ⟨f, by simp only [linkModule_eq]; exact hf⟩

theorem walk_lift (p : GProg) (o : Orders) (pre : Bool) {wf q v σ f r} (h : walk f p o pre wf q v σ = r) (hr : r ≠ .fuel)
    {g : Nat} (hg : f ≤ g) : walk g p o pre wf q v σ = r :=
  stable_lift (fun f => walk f p o pre wf q v σ) (fun f => walk_stable p f o pre wf q v σ) h hr g hg

/-- `Module.Walk` with `compiler.link` halts -/
theorem walk_halts {p : GProg} {Inv : St → Prop} {Good : List GField → Prop} (B : BlockOK p Inv Good)
    (o : Orders) (pre : Bool) :
    ∀ wf q v σ, Inv σ → HaltsI Inv (fun f => walk f p o pre wf q v σ) := by
  intro wf
  induction wf with
  | zero => intro q v σ hs; exact ⟨0, Or.inr ⟨σ, rfl, hs⟩⟩
  | succ wf ih =>
    intro q v σ hs
    cases q with
    | nil => exact ⟨0, Or.inr ⟨σ, rfl, hs⟩⟩
    | cons m q =>
      by_cases hv : v.contains m = true
      · obtain ⟨f, hf⟩ := ih q v σ hs
        exact ⟨f, by simp only [walk, hv, if_true]; exact hf⟩
      · have hv' : v.contains m = false := by simpa using hv
        obtain ⟨f1, h1⟩ := linkModule_halts B o pre m σ hs
        rcases h1 with h | ⟨σ1, h1, hs1⟩
        · exact ⟨f1, Or.inl (by simp only [walk, hv', Bool.false_eq_true, if_false]; (try simp only at h); rw [h])⟩
        · obtain ⟨f2, h2⟩ := ih (q ++ (applyOrder (o.at m).includes ((modAt p m).includes.map (·.1))).filterMap
              (fun n => alookup n (modAt p m).includes)) (m :: v) σ1 hs1
          have h1' : linkModule (max f1 f2) p o pre m σ = .ok σ1 :=
            stable_lift (fun f => linkModule f p o pre m σ) (fun f => linkModule_stable p f o pre m σ) h1
              (by intro h; cases h) _ (Nat.le_max_left _ _)
          rcases h2 with h | ⟨σ2, h2, hs2⟩
          · have h' := walk_lift p o pre h (by intro h; cases h) (Nat.le_max_right f1 f2)
            exact ⟨max f1 f2, Or.inl (by simp only [walk, hv', Bool.false_eq_true, if_false]; rw [h1']; exact h')⟩
          · have h2' := walk_lift p o pre h2 (by intro h; cases h) (Nat.le_max_right f1 f2)
            exact ⟨max f1 f2, Or.inr ⟨σ2, by simp only [walk, hv', Bool.false_eq_true, if_false]; rw [h1']; exact h2', hs2⟩⟩

/-- compilation halts, for every visit order, once the mutual block is known to -/
theorem compileWith_total_of_block {p : GProg} {Inv : St → Prop} {Good : List GField → Prop} (B : BlockOK p Inv Good)
    {pre : Bool} {o : Orders} {src : Program} (hg : gather src = some p) :
    ∃ fuel, ∀ g, fuel ≤ g → compileWith pre g o src ≠ .fuel := by
  obtain ⟨f, hf⟩ := walk_halts B o pre (walkFuel p) [0] [] St.init B.init
  refine ⟨f, fun g hg' => ?_⟩
  have key : compileWith pre f o src ≠ .fuel := by
    unfold compileWith
    rw [hg]
    simp only
    rcases hf with h | ⟨σ', h, _⟩
    · (try simp only at h); rw [h]; intro hh; cases hh
    · (try simp only at h); rw [h]; intro hh; cases hh
  intro hfu
  cases hr : compileWith pre f o src with
  | fuel => exact key hr
  | err => rw [compileWith_mono hr (by intro h; cases h) g hg'] at hfu; cases hfu
  | ok c => rw [compileWith_mono hr (by intro h; cases h) g hg'] at hfu; cases hfu

end ThriftVerif.Compile
