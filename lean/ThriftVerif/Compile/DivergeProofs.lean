/-
Non-termination witnesses (C08): on the inputs of D4, D5, D6 (container type) and D40 the
model's fuel is exhausted for EVERY fuel — the recursion of the current code has no bound.
Each proof isolates the loop (a state in which a `Link`/`addService`/`ConstantValue` call
reaches itself again with the same arguments) and evaluates the finite prefix that leads
into it with `cbv`.
-/
import ThriftVerif.Compile.Witness

namespace ThriftVerif.Compile

attribute [local cbv_opaque] linkVal
attribute [local cbv_eval] linkVal.eq_1 linkVal.eq_2 linkVal.eq_3 linkVal.eq_4 linkVal.eq_5 linkVal.eq_6
  linkVal.eq_7 linkVal.eq_8 linkVal.eq_9 linkVal.eq_10 linkVal.eq_11 linkVal.eq_12

/-! ### D4: `const i32 a = b  const i32 b = a` -/

abbrev gpD4 : GProg :=
  [⟨[], [], [([97], ⟨.base 0 .i32, .uref [98]⟩), ([98], ⟨.base 1 .i32, .uref [97]⟩)], []⟩]

theorem gather_D4 : gather progD4 = some gpD4 := by rfl

/-- The loop: once `b.Value` is `ConstReference{b}` (which is what linking `b` leaves behind),
`ConstReference{b}.Link(scope, <a's i32>)` calls `b.Value.Link(scope, <a's i32>)`, which is the
same call again. -/
theorem loop_D4 (σ : St) (h : alookup (0, [98]) σ.cval = some (.cref 0 [98])) :
    ∀ k, linkVal k gpD4 0 (.cref 0 [98]) (.base 0 .i32) σ = .fuel := by
  intro k
  induction k with
  | zero => simp [linkVal]
  | succ k ih =>
    simp only [linkVal]
    have hl : lookupConst gpD4 0 [98] = some ⟨.base 1 .i32, .uref [97]⟩ := by rfl
    simp only [hl]
    have hs : sameType (.base 0 .i32) (constTypeIn gpD4 σ 0 [98] ⟨.base 1 .i32, .uref [97]⟩) = false := by
      simp [constTypeIn, resolveExpr, sameType, LType.ident]
    simp only [hs, h]
    exact ih

theorem diverges_D4_tail (k : Nat) : compile (k + 12) [] progD4 = .fuel := by
  unfold compile compileWith
  rw [gather_D4]
  simp only
  have hw : walkFuel gpD4 = 3 := by rfl
  rw [hw]
  cbv
  rw [loop_D4 _ rfl k]

/-- `compile.Compile` does not return on D4's input, whatever the stack. -/
theorem diverges_D4 : ∀ fuel, compile fuel [] progD4 = .fuel
  | 0 => by rfl
  | 1 => by rfl
  | 2 => by rfl
  | 3 => by rfl
  | 4 => by rfl
  | 5 => by rfl
  | 6 => by rfl
  | 7 => by rfl
  | 8 => by rfl
  | 9 => by rfl
  | 10 => by rfl
  | 11 => by rfl
  | k + 12 => diverges_D4_tail k

/-! ### D40: `struct S {1: optional S f = {}}` -/

abbrev gpD40 : GProg :=
  [⟨[], [([83], .struct .struct [⟨1, [102], false, .ref [83], some (.map [])⟩])], [], []⟩]

theorem gather_D40 : gather progD40 = some gpD40 := by rfl

/-- The loop: casting `{}` to `S` while `S.f` still holds its unlinked default `{}` fills in
`f` from that default and casts it to `S` — the same call again. -/
theorem loop_D40 (σ : St) (h1 : alookup (0, [83]) σ.sdone = some 1) (h2 : alookup (0, [83], 0) σ.sdflt = none)
    (_h3 : σ.root = []) :
    ∀ k σ', σ'.sdone = σ.sdone → σ'.sdflt = σ.sdflt → σ'.root = σ.root →
      linkVal k gpD40 0 (.map []) (.named 0 [83]) σ' = .fuel := by
  intro k
  induction k using Nat.strongRecOn with
  | _ k ih =>
    intro σ' e1 e2 e3
    match k with
    | 0 => simp [linkVal]
    | 1 =>
      simp only [linkVal]
      have hk : rootKind gpD40 (rootIn gpD40 σ' (.named 0 [83])) =
          .strct 0 [83] [⟨1, [102], false, .ref [83], some (.map [])⟩] := by rfl
      simp only [hk, buildStruct, linkSFields]
    | k + 2 =>
      simp only [linkVal]
      have hk : rootKind gpD40 (rootIn gpD40 σ' (.named 0 [83])) =
          .strct 0 [83] [⟨1, [102], false, .ref [83], some (.map [])⟩] := by rfl
      simp only [hk, buildStruct, linkSFields, alookup]
      have hd : alookup (0, [83], 0) σ'.sdflt = none := by rw [e2]; exact h2
      simp only [hd]
      have hft : fieldTypeIn gpD40 { σ' with reent := σ'.reent || decide (σ'.sdoneOf (0, [83]) < [(⟨1, [102], false, .ref [83], some (.map [])⟩ : GField)].length) }
          0 [83] 0 ⟨1, [102], false, .ref [83], some (.map [])⟩ = .named 0 [83] := by
        simp [fieldTypeIn, St.sdoneOf, e1, h1]
        rfl
      rw [hft]
      rw [ih k (by omega) _ (by simpa using e1) (by simpa using e2) (by simpa using e3)]

theorem diverges_D40_tail (k : Nat) : compile (k + 4) [] progD40 = .fuel := by
  unfold compile compileWith
  rw [gather_D40]
  simp only
  have hw : walkFuel gpD40 = 3 := by rfl
  rw [hw]
  cbv
  rw [loop_D40 { tflag := [(0, [83])], sdone := [((0, [83]), 1)] } rfl rfl rfl k _ rfl rfl rfl]

/-- `compile.Compile` does not return on D40's input, whatever the stack. -/
theorem diverges_D40 : ∀ fuel, compile fuel [] progD40 = .fuel
  | 0 => by rfl
  | 1 => by rfl
  | 2 => by rfl
  | 3 => by rfl
  | k + 4 => diverges_D40_tail k

/-! ### D5: `service A extends B {}  service B extends A {}` -/

/-- the compiled program (compilation itself succeeds) -/
def cD5 : Compiled :=
  match compile 100 [] progD5 with
  | .ok c => c
  | _ => default

theorem compile_D5 : compile 100 [] progD5 = .ok cD5 := by rfl

theorem vpar_D5 : alookup (0, nm "A") cD5.st.vpar = some (0, nm "B") ∧
    alookup (0, nm "B") cD5.st.vpar = some (0, nm "A") := by
  constructor <;> rfl

/-- The loop: `addService(A)` first calls `addService(A.Parent)` = `addService(B)`, which first
calls `addService(A)` — neither has been given an id yet. -/
theorem loop_D5 : ∀ k ids, ids.contains (0, nm "A") = false → ids.contains (0, nm "B") = false →
    addService cD5.st k ids (0, nm "A") = .fuel ∧ addService cD5.st k ids (0, nm "B") = .fuel := by
  intro k
  induction k with
  | zero => intro ids _ _; exact ⟨rfl, rfl⟩
  | succ k ih =>
    intro ids ha hb
    obtain ⟨iha, ihb⟩ := ih ids ha hb
    constructor
    · simp only [addService, ha, vpar_D5.1, ihb]; rfl
    · simp only [addService, hb, vpar_D5.2, iha]; rfl

/-- The generator does not return on what `compile.Compile` produces for D5's input. -/
theorem gen_diverges_D5 : ∀ fuel, genServices fuel cD5 = .fuel := by
  intro fuel
  unfold genServices
  have hv : allValues cD5.st = [] := by rfl
  have hs : allServices cD5.prog (walkFuel cD5.prog) [0] [] = [(0, nm "A"), (0, nm "B")] := by rfl
  rw [hv, hs]
  simp only [allOk, addServices, (loop_D5 fuel [] rfl rfl).1]

/-! ### D6 at a container type: `const list<i32> c = c` -/

def progD6list : Program :=
  oneFileProg true [.const (nm "c") (.list 0 (.base 1 .i32)) (.uref (nm "c"))]

def cD6list : Compiled :=
  match compile 100 [] progD6list with
  | .ok c => c
  | _ => default

theorem compile_D6list : compile 100 [] progD6list = .ok cD6list := by rfl

/-- The loop: `ConstantValue` replaces a reference to a non-primitive constant by that
constant's value, which is the reference again. -/
theorem loop_D6list : ∀ k, genValue cD6list.prog cD6list.st k (.cref 0 (nm "c")) = .fuel := by
  intro k
  induction k with
  | zero => rfl
  | succ k ih =>
    simp only [genValue]
    have hl : lookupConst cD6list.prog 0 (nm "c") = some ⟨.list 0 (.base 1 .i32), .uref (nm "c")⟩ := by rfl
    have hp : isPrimitive cD6list.prog cD6list.st
        (constTypeIn cD6list.prog cD6list.st 0 (nm "c") ⟨.list 0 (.base 1 .i32), .uref (nm "c")⟩) = false := by rfl
    have hv : alookup (0, nm "c") cD6list.st.cval = some (.cref 0 (nm "c")) := by rfl
    simp only [hl, hp, hv]
    exact ih

theorem gen_diverges_D6list : ∀ fuel, genServices fuel cD6list = .fuel := by
  intro fuel
  unfold genServices
  have hv : allValues cD6list.st = [.cref 0 (nm "c")] := by rfl
  rw [hv]
  simp only [allOk, loop_D6list fuel]

end ThriftVerif.Compile
