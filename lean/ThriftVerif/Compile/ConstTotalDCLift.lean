/-
Termination (C08): programs whose default values are closed (constants unrestricted) —
`ConstTotalDC.clauses_all` carried to `compileWith` through `ConstTotalLift`.
-/
import ThriftVerif.Compile.ConstTotalDC
import ThriftVerif.Compile.ConstTotalLift

namespace ThriftVerif.Compile.DC
open ThriftVerif.Compile

theorem blockOK_dc (p : GProg) (hp : DefaultsClosed p) : BlockOK p DfltOK (fun fs => dfltsClosed p fs = true) where
  named σ hs m n := by
    obtain ⟨f, hf⟩ := (clauses_of_dfltOK p hp σ hs).named m n
    rcases hf with h | ⟨σ', h, hq⟩
    · exact ⟨f, Or.inl h⟩
    · exact ⟨f, Or.inr ⟨σ', h, hq.2.2 hs⟩⟩
  const σ hs m n := by
    obtain ⟨f, hf⟩ := (clauses_of_dfltOK p hp σ hs).const m n
    rcases hf with h | ⟨σ', h, hq⟩
    · exact ⟨f, Or.inl h⟩
    · exact ⟨f, Or.inr ⟨σ', h, hq.2.2 hs⟩⟩
  fields σ hs o m i fs hg := by
    obtain ⟨f, hf⟩ := ((clauses_of_dfltOK p hp σ hs).sized (fsz2 fs)).fields o m i fs hg (Nat.le_refl _)
    rcases hf with h | ⟨σ', h, hq⟩
    · exact ⟨f, Or.inl h⟩
    · exact ⟨f, Or.inr ⟨σ', h, hq.2.2 hs⟩⟩
  ty σ hs m e := by
    obtain ⟨f, hf⟩ := ((clauses_of_dfltOK p hp σ hs).sized e.size).ty m e (Nat.le_refl _)
    rcases hf with h | ⟨σ', lt, h, hq⟩
    · exact ⟨f, Or.inl h⟩
    · exact ⟨f, Or.inr ⟨σ', lt, h, hq.2.2 hs⟩⟩
  inv_fflag _ _ hs := fun k v h => hs k v h
  inv_vflag_vlink _ _ _ hs := fun k v h => hs k v h
  inv_vpar _ _ hs := fun k v h => hs k v h
  inv_vlink _ _ hs := fun k v h => hs k v h
  funcs m n s hl g hg := closed_func hp hl hg
  init := dfltOK_init

/-- **Totality of compilation for programs whose default values are closed**: whatever the
constants are (map and struct literals, references, cycles of any kind, casts), for every visit
order the compiler returns a module or an error with some fuel and keeps that verdict with any
larger fuel — provided no default value of a struct field or function parameter refers to a
constant or contains a struct / map literal. -/
theorem compileWith_total_defaultsClosed {pre : Bool} {o : Orders} {src : Program} {p : GProg}
    (hg : gather src = some p) (hp : DefaultsClosed p) :
    ∃ fuel, ∀ g, fuel ≤ g → compileWith pre g o src ≠ .fuel :=
  compileWith_total_of_block (blockOK_dc p hp) hg

end ThriftVerif.Compile.DC
