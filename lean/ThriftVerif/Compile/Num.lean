/-
M-Compile, part 2: Go's integer conversions (`int16(x)`, `int32(x)`, wrap-around of `int`
arithmetic) and `float64(int64)` as arithmetic on `Int`/`Nat`. Core-only.
-/

namespace ThriftVerif.Compile

/-- Two's-complement truncation to `bits` bits: Go's `intN(x)` conversion. -/
def wrapBits (bits : Nat) (x : Int) : Int :=
  (x + 2 ^ (bits - 1)) % 2 ^ bits - 2 ^ (bits - 1)

def wrap16 (x : Int) : Int := wrapBits 16 x
def wrap32 (x : Int) : Int := wrapBits 32 x
def wrap64 (x : Int) : Int := wrapBits 64 x

def inRange (bits : Nat) (x : Int) : Prop := -(2 ^ (bits - 1)) ≤ x ∧ x < 2 ^ (bits - 1)

instance (bits : Nat) (x : Int) : Decidable (inRange bits x) := by unfold inRange; infer_instance

theorem wrap16_of_inRange {x : Int} (h : inRange 16 x) : wrap16 x = x := by
  unfold inRange at h; unfold wrap16 wrapBits; omega

theorem wrap32_of_inRange {x : Int} (h : inRange 32 x) : wrap32 x = x := by
  unfold inRange at h; unfold wrap32 wrapBits; omega

theorem wrap64_of_inRange {x : Int} (h : inRange 64 x) : wrap64 x = x := by
  unfold inRange at h; unfold wrap64 wrapBits; omega

theorem wrap16_inRange (x : Int) : inRange 16 (wrap16 x) := by
  unfold inRange wrap16 wrapBits; omega

theorem wrap32_inRange (x : Int) : inRange 32 (wrap32 x) := by
  unfold inRange wrap32 wrapBits; omega

theorem wrap16_eq_iff (x : Int) : wrap16 x = x ↔ inRange 16 x := by
  constructor
  · intro h; rw [← h]; exact wrap16_inRange x
  · exact wrap16_of_inRange

theorem wrap32_eq_iff (x : Int) : wrap32 x = x ↔ inRange 32 x := by
  constructor
  · intro h; rw [← h]; exact wrap32_inRange x
  · exact wrap32_of_inRange

/-- position of the highest set bit (0 for 0 and 1); `fuel` bounds the bit length -/
def topBit : Nat → Nat → Nat
  | 0, _ => 0
  | f + 1, a => if a < 2 then 0 else 1 + topBit f (a / 2)

/-- IEEE-754 binary64 bits of `float64(n)` for an int64 `n` (round to nearest, ties to even). -/
def doubleOfInt (n : Int) : Nat :=
  if n = 0 then 0 else
  let sign : Nat := if n < 0 then 2 ^ 63 else 0
  let a := n.natAbs
  let e := topBit 70 a
  if e ≤ 52 then
    sign + (e + 1023) * 2 ^ 52 + (a * 2 ^ (52 - e) - 2 ^ 52)
  else
    let sh := e - 52
    let q := a / 2 ^ sh
    let r := a % 2 ^ sh
    let half := 2 ^ (sh - 1)
    let q' := if r > half ∨ (r = half ∧ q % 2 = 1) then q + 1 else q
    if q' = 2 ^ 53 then sign + (e + 1 + 1023) * 2 ^ 52
    else sign + (e + 1023) * 2 ^ 52 + (q' - 2 ^ 52)

example : doubleOfInt 1 = 0x3FF0000000000000 := by decide
example : doubleOfInt (-2) = 0xC000000000000000 := by decide
example : doubleOfInt 9007199254740993 = 0x4340000000000000 := by decide
example : doubleOfInt 9223372036854775807 = 0x43E0000000000000 := by decide

end ThriftVerif.Compile
