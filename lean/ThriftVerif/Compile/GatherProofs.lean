/-
Proofs about `gather` (C09): field identifiers, enum values, uniqueness.
-/
import ThriftVerif.Compile.Gather

namespace ThriftVerif.Compile

theorem map_eq_self {α : Type} (f : α → α) : ∀ (l : List α), (∀ a ∈ l, f a = a) → l.map f = l
  | [], _ => rfl
  | a :: l, h => by
    simp only [List.map_cons]
    rw [h a List.mem_cons_self, map_eq_self f l (fun b hb => h b (List.mem_cons_of_mem _ hb))]

/-! ### field identifiers -/

/-- What `gatherFields` returns, identifier by identifier: the `int16` conversion of the
identifiers the source designates; and none of these was rejected by the bounds check. -/
theorem gatherFields_ids (o : FieldOpts) :
    ∀ (fs : List Field) (names : List Name) (used : List Int) (next : Int) (gs : List GField),
      gatherFields o fs names used next = some gs →
      gs.map (·.id) = (srcIds o.allowNeg next fs).map wrap16 ∧
      (∀ s ∈ srcIds o.allowNeg next fs, idRejected o.allowNeg s = false) ∧
      gs.map (·.name) = fs.map (·.name) := by
  intro fs
  induction fs with
  | nil =>
    intro names used next gs h
    simp [gatherFields] at h
    subst h
    simp [srcIds]
  | cons f rest ih =>
    intro names used next gs h
    unfold gatherFields at h
    split at h
    · cases h
    · split at h
      · cases h
      · rename_i hrej
        split at h
        · cases h
        · split at h
          · cases h
          · split at h
            · cases h
            · split at h
              · cases h
              · rename_i gs' hrest
                cases h
                obtain ⟨h1, h2, h3⟩ := ih _ _ _ _ hrest
                refine ⟨?_, ?_, ?_⟩
                · simp [srcIds, h1]
                · intro s hs
                  simp [srcIds] at hs
                  rcases hs with rfl | hs
                  · simpa using hrej
                  · exact h2 s hs
                · simp [h3]

theorem idRejected_false_range {a : Bool} {s : Int} (h : idRejected a s = false) : inRange 16 s := by
  unfold idRejected at h
  simp at h
  unfold inRange
  omega

theorem idRejected_false_strict {s : Int} (h : idRejected false s = false) : 1 ≤ s := by
  unfold idRejected at h
  simp at h
  omega

/-- Field identifiers are exact: every compiled identifier is the one the source designates,
and it lies in the int16 range (the bounds check of `compileField` covers both ends). -/
theorem compileFields_ids_exact (o : FieldOpts) (fs : List Field) (gs : List GField)
    (h : compileFields o fs = some gs) :
    gs.map (·.id) = srcIds o.allowNeg (-1) fs ∧ ∀ g ∈ gs, inRange 16 g.id := by
  obtain ⟨h1, h2, _⟩ := gatherFields_ids o fs [] [] (-1) gs h
  have hall : ∀ s ∈ srcIds o.allowNeg (-1) fs, inRange 16 s := fun s hs => idRejected_false_range (h2 s hs)
  have heq : (srcIds o.allowNeg (-1) fs).map wrap16 = srcIds o.allowNeg (-1) fs := by
    apply map_eq_self
    intro s hs
    exact wrap16_of_inRange (hall s hs)
  refine ⟨by rw [h1, heq], ?_⟩
  intro g hg
  have : g.id ∈ gs.map (·.id) := List.mem_map_of_mem hg
  rw [h1, heq] at this
  exact hall _ this

/-- Without negative identifiers (strict mode, arguments, throws lists) they lie in 1..32767. -/
theorem compileFields_ids_exact_strict (o : FieldOpts) (fs : List Field) (gs : List GField)
    (hs : o.allowNeg = false) (h : compileFields o fs = some gs) :
    gs.map (·.id) = srcIds false (-1) fs ∧ ∀ g ∈ gs, 1 ≤ g.id ∧ g.id ≤ 32767 := by
  obtain ⟨_, h2, _⟩ := gatherFields_ids o fs [] [] (-1) gs h
  rw [hs] at h2
  obtain ⟨h3, _⟩ := compileFields_ids_exact o fs gs h
  rw [hs] at h3
  refine ⟨h3, ?_⟩
  intro g hg
  have : g.id ∈ gs.map (·.id) := List.mem_map_of_mem hg
  rw [h3] at this
  have hr := idRejected_false_range (h2 _ this)
  unfold inRange at hr
  exact ⟨idRejected_false_strict (h2 _ this), by omega⟩

/-- `used`/`names` bookkeeping: identifiers and names of the result are pairwise distinct and
distinct from what was already claimed. -/
theorem gatherFields_nodup (o : FieldOpts) :
    ∀ (fs : List Field) (names : List Name) (used : List Int) (next : Int) (gs : List GField),
      gatherFields o fs names used next = some gs →
      (gs.map (·.id)).Nodup ∧ (∀ g ∈ gs, g.id ∉ used) ∧
      (gs.map (·.name)).Nodup ∧ (∀ g ∈ gs, g.name ∉ names) := by
  intro fs
  induction fs with
  | nil =>
    intro names used next gs h
    simp [gatherFields] at h
    subst h
    simp
  | cons f rest ih =>
    intro names used next gs h
    unfold gatherFields at h
    split at h
    · cases h
    · rename_i hname
      split at h
      · cases h
      · split at h
        · cases h
        · split at h
          · cases h
          · split at h
            · cases h
            · rename_i hused
              split at h
              · cases h
              · rename_i gs' hrest
                cases h
                obtain ⟨h1, h2, h3, h4⟩ := ih _ _ _ _ hrest
                simp only [List.contains_eq_mem, decide_eq_true_eq] at hname hused
                refine ⟨?_, ?_, ?_, ?_⟩
                · simp only [List.map_cons, List.nodup_cons]
                  refine ⟨?_, h1⟩
                  intro hmem
                  obtain ⟨g, hg, hgid⟩ := List.mem_map.1 hmem
                  exact h2 g hg (by rw [hgid]; exact List.mem_cons_self)
                · intro g hg
                  simp only [List.mem_cons] at hg
                  rcases hg with rfl | hg
                  · exact hused
                  · intro hmem
                    exact h2 g hg (List.mem_cons_of_mem _ hmem)
                · simp only [List.map_cons, List.nodup_cons]
                  refine ⟨?_, h3⟩
                  intro hmem
                  obtain ⟨g, hg, hgn⟩ := List.mem_map.1 hmem
                  exact h4 g hg (by rw [hgn]; exact List.mem_cons_self)
                · intro g hg
                  simp only [List.mem_cons] at hg
                  rcases hg with rfl | hg
                  · exact hname
                  · intro hmem
                    exact h4 g hg (List.mem_cons_of_mem _ hmem)

theorem compileFields_nodup (o : FieldOpts) (fs : List Field) (gs : List GField)
    (h : compileFields o fs = some gs) :
    (gs.map (·.id)).Nodup ∧ (gs.map (·.name)).Nodup := by
  obtain ⟨h1, _, h3, _⟩ := gatherFields_nodup o fs [] [] (-1) gs h
  exact ⟨h1, h3⟩

/-! ### enum values -/

/-- What `gatherEnumItems` returns: the `int32` conversion of the designated values, where the
implicit "previous + 1" is computed in Go's 64-bit `int`. -/
def enumRaw : Int → List (Name × Option Int) → List Int
  | _, [] => []
  | _, (_, some x) :: rest => x :: enumRaw x rest
  | prev, (_, none) :: rest => wrap64 (prev + 1) :: enumRaw (wrap64 (prev + 1)) rest

theorem enumValueRejected_false {v : Int} (h : enumValueRejected v = false) : inRange 32 v := by
  unfold enumValueRejected at h
  simp at h
  unfold inRange
  omega

/-- the value an item gets: explicit, or previous + 1 in Go's 64-bit `int` -/
def nextVal (prev : Int) : Option Int → Int
  | some x => x
  | none => wrap64 (prev + 1)

theorem gatherEnumItems_cons (n : Name) (v : Option Int) (rest : List (Name × Option Int)) (names : List Name)
    (prev : Int) :
    gatherEnumItems ((n, v) :: rest) names prev =
      if names.contains (toLower n) then none else
      if enumValueRejected (nextVal prev v) then none else
      match gatherEnumItems rest (toLower n :: names) (nextVal prev v) with
      | none => none
      | some is => some ((n, wrap32 (nextVal prev v)) :: is) := by
  cases v <;> rfl

theorem enumRaw_cons (n : Name) (v : Option Int) (rest : List (Name × Option Int)) (prev : Int) :
    enumRaw prev ((n, v) :: rest) = nextVal prev v :: enumRaw (nextVal prev v) rest := by
  cases v <;> rfl

theorem gatherEnumItems_values :
    ∀ (items : List (Name × Option Int)) (names : List Name) (prev : Int) (is : List (Name × Int)),
      gatherEnumItems items names prev = some is →
      is.map (·.2) = (enumRaw prev items).map wrap32 ∧ is.map (·.1) = items.map (·.1) ∧
      ∀ v ∈ enumRaw prev items, inRange 32 v := by
  intro items
  induction items with
  | nil =>
    intro names prev is h
    simp [gatherEnumItems] at h
    subst h
    simp [enumRaw]
  | cons it rest ih =>
    intro names prev is h
    obtain ⟨n, v⟩ := it
    rw [gatherEnumItems_cons] at h
    split at h
    · cases h
    · split at h
      · cases h
      · rename_i hrej
        split at h
        · cases h
        · rename_i is' hrest
          cases h
          obtain ⟨h1, h2, h3⟩ := ih _ _ _ hrest
          have hr := enumValueRejected_false (by simpa using hrej)
          rw [enumRaw_cons]
          refine ⟨by simp [h1], by simp [h2], ?_⟩
          intro w hw
          simp only [List.mem_cons] at hw
          rcases hw with rfl | hw
          · exact hr
          · exact h3 w hw

/-- The checked values are the designated ones: with every value in the int32 range the
64-bit "previous + 1" never wraps. -/
theorem enumRaw_eq_src :
    ∀ (items : List (Name × Option Int)) (prev : Int), inRange 33 prev →
      (∀ v ∈ enumRaw prev items, inRange 32 v) →
      enumRaw prev items = srcEnumValues prev items := by
  intro items
  induction items with
  | nil => intro prev _ _; simp [enumRaw, srcEnumValues]
  | cons it rest ih =>
    intro prev hp h
    obtain ⟨n, v⟩ := it
    cases v with
    | some x =>
      have hx : inRange 32 x := h x (by simp [enumRaw])
      simp only [enumRaw, srcEnumValues]
      rw [ih x (by unfold inRange at hx ⊢; omega) (fun v hv => h v (by simp [enumRaw, hv]))]
    | none =>
      have hw : wrap64 (prev + 1) = prev + 1 :=
        wrap64_of_inRange (by unfold inRange at hp ⊢; omega)
      have hr : inRange 32 (prev + 1) := by
        have := h (wrap64 (prev + 1)) (by simp [enumRaw])
        rwa [hw] at this
      simp only [enumRaw, srcEnumValues, hw]
      rw [ih (prev + 1) (by unfold inRange at hr ⊢; omega)
        (fun v hv => h v (by simp only [enumRaw, hw, List.mem_cons]; exact Or.inr hv))]

/-- Enum values are exact: every compiled item value is the one the source designates
(explicit, or previous + 1 starting at 0) and lies in the int32 range. -/
theorem compileEnum_values_exact (items : List (Name × Option Int)) (is : List (Name × Int))
    (h : compileEnum items = some is) :
    is.map (·.2) = srcEnumValues (-1) items ∧ is.map (·.1) = items.map (·.1) ∧
    ∀ v ∈ srcEnumValues (-1) items, inRange 32 v := by
  obtain ⟨h1, h2, h3⟩ := gatherEnumItems_values items [] (-1) is h
  have he := enumRaw_eq_src items (-1) (by decide) h3
  rw [he] at h1 h3
  refine ⟨?_, h2, h3⟩
  rw [h1]
  apply map_eq_self
  intro v hv
  exact wrap32_of_inRange (h3 v hv)

theorem gatherEnumItems_nodup :
    ∀ (items : List (Name × Option Int)) (names : List Name) (prev : Int) (is : List (Name × Int)),
      gatherEnumItems items names prev = some is →
      (is.map (fun i => toLower i.1)).Nodup ∧ ∀ i ∈ is, toLower i.1 ∉ names := by
  intro items
  induction items with
  | nil =>
    intro names prev is h
    simp [gatherEnumItems] at h
    subst h
    simp
  | cons it rest ih =>
    intro names prev is h
    obtain ⟨n, v⟩ := it
    rw [gatherEnumItems_cons] at h
    split at h
    · cases h
    · rename_i hname
      split at h
      · cases h
      · split at h
        · cases h
        · rename_i is' hrest
          cases h
          obtain ⟨h1, h2⟩ := ih _ _ _ hrest
          simp only [List.contains_eq_mem, decide_eq_true_eq] at hname
          refine ⟨?_, ?_⟩
          · simp only [List.map_cons, List.nodup_cons]
            refine ⟨?_, h1⟩
            intro hmem
            obtain ⟨i, hi, hin⟩ := List.mem_map.1 hmem
            exact h2 i hi (by rw [hin]; exact List.mem_cons_self)
          · intro i hi
            simp only [List.mem_cons] at hi
            rcases hi with rfl | hi
            · exact hname
            · intro hmem
              exact h2 i hi (List.mem_cons_of_mem _ hmem)

/-- Item names of an accepted enum are pairwise distinct, case-insensitively. -/
theorem compileEnum_names_nodup (items : List (Name × Option Int)) (is : List (Name × Int))
    (h : compileEnum items = some is) : (is.map (fun i => toLower i.1)).Nodup :=
  (gatherEnumItems_nodup items [] (-1) is h).1

/-! ### functions -/

theorem gatherFuncs_nodup :
    ∀ (fs : List Func) (names : List Name) (gs : List GFunc),
      gatherFuncs fs names = some gs →
      (gs.map (fun g => toLower g.name)).Nodup ∧ ∀ g ∈ gs, toLower g.name ∉ names := by
  intro fs
  induction fs with
  | nil =>
    intro names gs h
    simp [gatherFuncs] at h
    subst h
    simp
  | cons f rest ih =>
    intro names gs h
    unfold gatherFuncs at h
    split at h
    · cases h
    · rename_i hname
      split at h
      · rename_i g gs' hg hrest
        cases h
        obtain ⟨h1, h2⟩ := ih _ _ hrest
        simp only [List.contains_eq_mem, decide_eq_true_eq] at hname
        have hgn : g.name = f.name := by
          unfold compileFunction at hg
          split at hg
          · cases hg
          · split at hg
            · split at hg
              · cases hg
              · cases hg; rfl
            · split at hg
              · cases hg
              · cases hg; rfl
        refine ⟨?_, ?_⟩
        · simp only [List.map_cons, List.nodup_cons]
          refine ⟨?_, h1⟩
          intro hmem
          obtain ⟨i, hi, hin⟩ := List.mem_map.1 hmem
          exact h2 i hi (by rw [hin, hgn]; exact List.mem_cons_self)
        · intro i hi
          simp only [List.mem_cons] at hi
          rcases hi with rfl | hi
          · rw [hgn]; exact hname
          · intro hmem
            exact h2 i hi (List.mem_cons_of_mem _ hmem)
      · cases h

/-! ### from a file to its module -/

theorem alookup_of_mem_nodup {α β : Type} [DecidableEq α] :
    ∀ (l : List (α × β)) (k : α) (v : β), (l.map (·.1)).Nodup → (k, v) ∈ l → alookup k l = some v := by
  intro l
  induction l with
  | nil => intro k v _ h; cases h
  | cons p rest ih =>
    intro k v hn hm
    obtain ⟨k', v'⟩ := p
    simp only [List.map_cons, List.nodup_cons] at hn
    simp only [List.mem_cons] at hm
    rcases hm with heq | hm
    · cases heq; simp [alookup]
    · have hne : k' ≠ k := by
        intro h; subst h
        exact hn.1 (List.mem_map.2 ⟨(k', v), hm, rfl⟩)
      simp [alookup, hne, ih k v hn.2 hm]

theorem nodup_snoc {α : Type} {l : List α} {x : α} (h : l.Nodup) (hx : x ∉ l) : (l ++ [x]).Nodup := by
  rw [List.nodup_append]
  refine ⟨h, by simp, ?_⟩
  intro a ha b hb
  simp at hb; subst hb
  intro hab; subst hab
  exact hx ha

/-- `gatherDefs` keeps every earlier type entry, adds type entries under fresh names only,
and compiles structs with `compileFields` and enums with `compileEnum`. -/
theorem gatherDefs_spec (strict : Bool) :
    ∀ (defs : List Def) (names : List Name) (m0 m : Mod),
      gatherDefs strict defs names m0 = some m →
      (∀ x ∈ m0.types.map (·.1), x ∈ names) → (m0.types.map (·.1)).Nodup →
      (m.types.map (·.1)).Nodup ∧
      (∀ e ∈ m0.types, e ∈ m.types) ∧
      (∀ k n fields, Def.struct k n fields ∈ defs →
        ∃ gs, compileFields (structOpts strict k) fields = some gs ∧ (n, TDef.struct k gs) ∈ m.types) ∧
      (∀ n items, Def.enum n items ∈ defs →
        ∃ is, compileEnum items = some is ∧ (n, TDef.enum is) ∈ m.types) := by
  intro defs
  induction defs with
  | nil =>
    intro names m0 m h _ hn
    simp [gatherDefs] at h
    subst h
    exact ⟨hn, fun e he => he, by simp, by simp⟩
  | cons d rest ih =>
    intro names m0 m h hsub hn
    unfold gatherDefs at h
    split at h
    · cases h
    · rename_i hfresh
      simp only [List.contains_eq_mem, decide_eq_true_eq] at hfresh
      have hnot : d.name ∉ m0.types.map (·.1) := fun hm => hfresh (hsub _ hm)
      -- a step that leaves `types` alone
      have same : ∀ m1 : Mod, m1.types = m0.types →
          gatherDefs strict rest (d.name :: names) m1 = some m →
          (m.types.map (·.1)).Nodup ∧ (∀ e ∈ m0.types, e ∈ m.types) ∧
          (∀ k n fields, Def.struct k n fields ∈ rest →
            ∃ gs, compileFields (structOpts strict k) fields = some gs ∧ (n, TDef.struct k gs) ∈ m.types) ∧
          (∀ n items, Def.enum n items ∈ rest →
            ∃ is, compileEnum items = some is ∧ (n, TDef.enum is) ∈ m.types) := by
        intro m1 ht hrest
        have := ih _ _ _ hrest (by rw [ht]; intro x hx; exact List.mem_cons_of_mem _ (hsub x hx)) (by rw [ht]; exact hn)
        rw [ht] at this
        exact this
      -- a step that appends one entry under the fresh name
      have ext : ∀ (m1 : Mod) (td : TDef), m1.types = m0.types ++ [(d.name, td)] →
          gatherDefs strict rest (d.name :: names) m1 = some m →
          (m.types.map (·.1)).Nodup ∧ (∀ e ∈ m0.types, e ∈ m.types) ∧ (d.name, td) ∈ m.types ∧
          (∀ k n fields, Def.struct k n fields ∈ rest →
            ∃ gs, compileFields (structOpts strict k) fields = some gs ∧ (n, TDef.struct k gs) ∈ m.types) ∧
          (∀ n items, Def.enum n items ∈ rest →
            ∃ is, compileEnum items = some is ∧ (n, TDef.enum is) ∈ m.types) := by
        intro m1 td ht hrest
        have hsub1 : ∀ x ∈ m1.types.map (·.1), x ∈ d.name :: names := by
          rw [ht]
          intro x hx
          simp only [List.map_append, List.map_cons, List.map_nil, List.mem_append, List.mem_singleton] at hx
          rcases hx with hx | hx
          · exact List.mem_cons_of_mem _ (hsub x hx)
          · subst hx; exact List.mem_cons_self
        have hnd1 : (m1.types.map (·.1)).Nodup := by
          rw [ht]
          simp only [List.map_append, List.map_cons, List.map_nil]
          exact nodup_snoc hn hnot
        obtain ⟨a, b, c, e⟩ := ih _ _ _ hrest hsub1 hnd1
        refine ⟨a, ?_, ?_, c, e⟩
        · intro x hx; exact b x (by rw [ht]; simp [hx])
        · exact b _ (by rw [ht]; simp)
      cases d with
      | const n ty v =>
        simp only at h
        obtain ⟨a, b, c, e⟩ := same { m0 with consts := m0.consts ++ [(n, ⟨ty, v⟩)] } rfl h
        refine ⟨a, b, ?_, ?_⟩
        · intro k n' fields hm
          simp only [List.mem_cons] at hm
          rcases hm with hm | hm
          · cases hm
          · exact c k n' fields hm
        · intro n' items hm
          simp only [List.mem_cons] at hm
          rcases hm with hm | hm
          · cases hm
          · exact e n' items hm
      | typedef n ty =>
        simp only at h
        obtain ⟨a, b, _, c, e⟩ := ext { m0 with types := m0.types ++ [(n, .typedef ty)] } (.typedef ty) rfl h
        refine ⟨a, b, ?_, ?_⟩
        · intro k n' fields hm
          simp only [List.mem_cons] at hm
          rcases hm with hm | hm
          · cases hm
          · exact c k n' fields hm
        · intro n' items hm
          simp only [List.mem_cons] at hm
          rcases hm with hm | hm
          · cases hm
          · exact e n' items hm
      | enum n items =>
        simp only at h
        split at h
        · cases h
        · rename_i is his
          obtain ⟨a, b, b1, c, e⟩ := ext { m0 with types := m0.types ++ [(n, .enum is)] } (.enum is) rfl h
          refine ⟨a, b, ?_, ?_⟩
          · intro k n' fields hm
            simp only [List.mem_cons] at hm
            rcases hm with hm | hm
            · cases hm
            · exact c k n' fields hm
          · intro n' items' hm
            simp only [List.mem_cons] at hm
            rcases hm with hm | hm
            · cases hm
              exact ⟨is, his, b1⟩
            · exact e n' items' hm
      | struct k n fields =>
        simp only at h
        split at h
        · cases h
        · rename_i gs hgs
          obtain ⟨a, b, b1, c, e⟩ := ext { m0 with types := m0.types ++ [(n, .struct k gs)] } (.struct k gs) rfl h
          refine ⟨a, b, ?_, ?_⟩
          · intro k' n' fields' hm
            simp only [List.mem_cons] at hm
            rcases hm with hm | hm
            · cases hm
              exact ⟨gs, hgs, b1⟩
            · exact c k' n' fields' hm
          · intro n' items' hm
            simp only [List.mem_cons] at hm
            rcases hm with hm | hm
            · cases hm
            · exact e n' items' hm
      | service n parent funcs =>
        simp only at h
        split at h
        · cases h
        · rename_i fs _
          obtain ⟨a, b, c, e⟩ := same { m0 with services := m0.services ++ [(n, ⟨parent, fs⟩)] } rfl h
          refine ⟨a, b, ?_, ?_⟩
          · intro k n' fields hm
            simp only [List.mem_cons] at hm
            rcases hm with hm | hm
            · cases hm
            · exact c k n' fields hm
          · intro n' items hm
            simp only [List.mem_cons] at hm
            rcases hm with hm | hm
            · cases hm
            · exact e n' items hm

/-- A struct / enum definition of a successfully gathered file is found, under its name, in
the module's `Types`, compiled by `compileFields` / `compileEnum`. -/
theorem gatherFile_lookup (strict : Bool) (incs : List Include) (defs : List Def) (m : Mod)
    (h : gatherFile strict (.ok incs defs) = some m) :
    (∀ k n fields, Def.struct k n fields ∈ defs →
      ∃ gs, compileFields (structOpts strict k) fields = some gs ∧ alookup n m.types = some (.struct k gs)) ∧
    (∀ n items, Def.enum n items ∈ defs →
      ∃ is, compileEnum items = some is ∧ alookup n m.types = some (.enum is)) := by
  simp only [gatherFile] at h
  split at h
  · cases h
  · obtain ⟨hnt, _, hs, he⟩ := gatherDefs_spec strict _ _ ⟨_, [], [], []⟩ m h
      (by intro x hx; simp at hx) (by simp)
    refine ⟨?_, ?_⟩
    · intro k n fields hm
      obtain ⟨gs, h1, h2⟩ := hs k n fields hm
      exact ⟨gs, h1, alookup_of_mem_nodup _ _ _ hnt h2⟩
    · intro n items hm
      obtain ⟨is', h1, h2⟩ := he n items hm
      exact ⟨is', h1, alookup_of_mem_nodup _ _ _ hnt h2⟩

end ThriftVerif.Compile
