/-
Termination (C08) for programs with constants — the linker's mutual block.

`clauses_all`: for a program whose constant values and default values are *plain* (scalars,
references to constants / enum items, list literals: no map or struct literals), every call of
`linkTy`, `linkNamed`, `linkFields`, `linkConst`, `linkVal`, `linkVals` halts — from EVERY state
whose stored constant values contain no map / struct node (`StoreOK`), whatever flags are set,
whatever is in progress. Constant cycles of any length, references across modules, casts of
constants to other types (also of constants whose own `Link` has not reached their value yet:
finding D74) are all inside this class.

The proof is an induction on the lexicographic measure
  (definitions whose Link has not started, constants not being linked or cast, size of the argument):
a fresh definition lowers the first component; the cast of a constant's value to another type
(`ConstReference.Link`) holds the constant's in-progress flag and so lowers the second — that is
exactly the repair of D74, and without it the cast chain has no decreasing measure; everything
else descends into its argument. No fuel bound is computed: a verdict reached with some fuel
is kept with more (`monoStep`), so the fuels of sub-calls are combined with `max`.
-/
import ThriftVerif.Compile.ConstTotalDefs

namespace ThriftVerif.Compile
theorem FlagsLe2.refl (σ : St) : FlagsLe2 σ σ := ⟨fun _ h => h, fun _ h => h⟩
theorem FlagsLe2.trans {a b c : St} (h₁ : FlagsLe2 a b) (h₂ : FlagsLe2 b c) : FlagsLe2 a c :=
  ⟨fun k h => h₂.1 k (h₁.1 k h), fun k h => h₂.2 k (h₁.2 k h)⟩

theorem Post.refl (p : GProg) (σ : St) : Post p σ σ := ⟨FlagsLe2.refl σ, Or.inr (fun _ h => h), fun h => h⟩

theorem Post.trans {p : GProg} {a b c : St} (h₁ : Post p a b) (h₂ : Post p b c) : Post p a c := by
  obtain ⟨f1, d1, s1⟩ := h₁
  obtain ⟨f2, d2, s2⟩ := h₂
  refine ⟨f1.trans f2, ?_, fun h => s2 (s1 h)⟩
  have u1 := uCount_le (p := p) f1
  have u2 := uCount_le (p := p) f2
  rcases d1 with d1 | d1
  · left; omega
  · rcases d2 with d2 | d2
    · left; omega
    · right; exact fun k h => d2 k (d1 k h)

/-- states that agree on the four fields `Post` talks about -/
def KeyEq (a b : St) : Prop := a.tflag = b.tflag ∧ a.cflag = b.cflag ∧ a.clink = b.clink ∧ a.cval = b.cval

theorem KeyEq.post {p : GProg} {a b : St} (h : KeyEq a b) : Post p a b := by
  obtain ⟨h1, h2, h3, h4⟩ := h
  refine ⟨⟨fun k hk => by rw [← h1]; exact hk, fun k hk => by rw [← h2]; exact hk⟩,
    Or.inr (fun k hk => by rw [← h3]; exact hk), fun hs k v hv => hs k v (by rw [h4]; exact hv)⟩

theorem KeyEq.symm {a b : St} (h : KeyEq a b) : KeyEq b a := ⟨h.1.symm, h.2.1.symm, h.2.2.1.symm, h.2.2.2.symm⟩

theorem keyEq_ownerMark (o : FOwner) (i : Nat) (σ : St) : KeyEq σ (ownerMark o i σ) := by
  cases o <;> exact ⟨rfl, rfl, rfl, rfl⟩
theorem keyEq_ownerBeginDflt (o : FOwner) (i : Nat) (σ : St) : KeyEq σ (ownerBeginDflt o i σ) := by
  cases o <;> exact ⟨rfl, rfl, rfl, rfl⟩
theorem keyEq_ownerSetDflt (o : FOwner) (i : Nat) (v : CV) (σ : St) : KeyEq σ (ownerSetDflt o i v σ) := by
  cases o <;> exact ⟨rfl, rfl, rfl, rfl⟩

theorem KeyEq.uCount_eq {p : GProg} {a b : St} (h : KeyEq a b) : uCount p a = uCount p b := by
  unfold uCount; rw [h.1, h.2.1]
theorem KeyEq.kCount_eq {p : GProg} {a b : St} (h : KeyEq a b) : kCount p a = kCount p b := by
  unfold kCount; rw [h.2.2.1]
theorem KeyEq.storeOK {a b : St} (h : KeyEq a b) (hs : StoreOK a) : StoreOK b :=
  fun k v hv => hs k v (by rw [h.2.2.2]; exact hv)

theorem contains_cons_self {α : Type} [BEq α] [LawfulBEq α] (a : α) (l : List α) : (a :: l).contains a = true := by
  simp
theorem contains_cons_of {α : Type} [BEq α] [LawfulBEq α] (a : α) {l : List α} {x : α} (h : l.contains x = true) :
    (a :: l).contains x = true := by
  simp only [List.contains_cons, Bool.or_eq_true]; exact Or.inr h

/-- setting the `linkOnce` flag of a named type that has none yet lowers `uCount` -/
theorem uCount_tflag_lt {p : GProg} {σ : St} {m : Nat} {n : Name} {d : TDef} (hl : lookupType p m n = some d)
    (hc : σ.tflag.contains (m, n) = false) :
    uCount p { σ with tflag := (m, n) :: σ.tflag } < uCount p σ := by
  unfold uCount
  have := countP_lt_of_imp (fun k => !((m, n) :: σ.tflag).contains k) (fun k => !σ.tflag.contains k) (allTypeKeys p)
    (by intro x hx
        simp only [Bool.not_eq_true'] at hx ⊢
        cases hcx : σ.tflag.contains x with
        | false => rfl
        | true => rw [contains_cons_of _ hcx] at hx; cases hx)
    (m, n) (allTypeKeys_mem hl) (by show (!σ.tflag.contains (m, n)) = true; rw [hc]; rfl) (by simp)
  simpa using this

theorem uCount_cflag_lt {p : GProg} {σ : St} {m : Nat} {n : Name} {c : GConst} (hl : lookupConst p m n = some c)
    (hc : σ.cflag.contains (m, n) = false) :
    uCount p { σ with cflag := (m, n) :: σ.cflag } < uCount p σ := by
  unfold uCount
  have := countP_lt_of_imp (fun k => !((m, n) :: σ.cflag).contains k) (fun k => !σ.cflag.contains k) (allConstKeys p)
    (by intro x hx
        simp only [Bool.not_eq_true'] at hx ⊢
        cases hcx : σ.cflag.contains x with
        | false => rfl
        | true => rw [contains_cons_of _ hcx] at hx; cases hx)
    (m, n) (allConstKeys_mem hl) (by show (!σ.cflag.contains (m, n)) = true; rw [hc]; rfl) (by simp)
  simpa using this

theorem kCount_clink_lt {p : GProg} {σ : St} {m : Nat} {n : Name} {c : GConst} (hl : lookupConst p m n = some c)
    (hc : σ.clink.contains (m, n) = false) (σ0 : St) (h0 : σ0.clink = (m, n) :: σ.clink) :
    kCount p σ0 < kCount p σ := by
  unfold kCount
  rw [h0]
  have := countP_lt_of_imp (fun k => !((m, n) :: σ.clink).contains k) (fun k => !σ.clink.contains k) (allConstKeys p)
    (by intro x hx
        simp only [Bool.not_eq_true'] at hx ⊢
        cases hcx : σ.clink.contains x with
        | false => rfl
        | true => rw [contains_cons_of _ hcx] at hx; cases hx)
    (m, n) (allConstKeys_mem hl) (by show (!σ.clink.contains (m, n)) = true; rw [hc]; rfl) (by simp)
  simpa using this

/-- a call that is known to have lowered `uCount` -/
theorem Post.of_lt {p : GProg} {σ σ' : St} (hf : FlagsLe2 σ σ') (hu : uCount p σ' < uCount p σ)
    (hs : StoreOK σ → StoreOK σ') : Post p σ σ' := ⟨hf, Or.inl hu, hs⟩

theorem castInt_noMS {k : RootKind} {n : Int} {v : CV} (h : castInt k n = some v) : v.noMS = true := by
  unfold castInt at h
  split at h
  · split at h
    · cases h; rfl
    · cases h
  · cases h; rfl
  · split at h
    · cases h; rfl
    · split at h
      · cases h; rfl
      · cases h
  · split at h
    · cases h; rfl
    · cases h
  · cases h

/-- the fuel-indexed call `F` returns for some fuel, and an `ok` result satisfies `Q` -/
def HaltsS (F : Nat → Res St) (Q : St → Prop) : Prop := ∃ f, F f = .err ∨ ∃ σ', F f = .ok σ' ∧ Q σ'
def HaltsP {β : Type} (F : Nat → Res (St × β)) (Q : St → β → Prop) : Prop :=
  ∃ f, F f = .err ∨ ∃ σ' x, F f = .ok (σ', x) ∧ Q σ' x

/-- the clauses for arguments of size at most `s` -/
structure ClausesUpTo (p : GProg) (σ : St) (s : Nat) : Prop where
  ty : ∀ m e, e.size ≤ s → HaltsP (fun f => linkTy f p m e σ) (fun σ' _ => Post p σ σ')
  fields : ∀ o m i fs, dfltsPlain fs = true → fsz fs ≤ s → HaltsS (fun f => linkFields f p o m i fs σ) (Post p σ)
  val : ∀ m v t, v.noMS = true → v.msz ≤ s →
    HaltsP (fun f => linkVal f p m v t σ) (fun σ' v' => Post p σ σ' ∧ v'.noMS = true)
  vals : ∀ m vs t, CV.noMSList vs = true → CV.mszList vs ≤ s →
    HaltsP (fun f => linkVals f p m vs t σ) (fun σ' vs' => Post p σ σ' ∧ CV.noMSList vs' = true)

structure Clauses (p : GProg) (σ : St) : Prop where
  named : ∀ m n, HaltsS (fun f => linkNamed f p m n σ) (Post p σ)
  const : ∀ m n, HaltsS (fun f => linkConst f p m n σ) (Post p σ)
  sized : ∀ s, ClausesUpTo p σ s


/-! ### what the hypothesis on the program gives -/

theorem plain_const {p : GProg} (hp : PlainValues p) {m : Nat} {n : Name} {c : GConst}
    (h : lookupConst p m n = some c) : c.val.plain = true := by
  have hm := mem_of_alookup h
  have hne : modAt p m ≠ Mod.empty := by
    intro he; unfold lookupConst at h; rw [he] at hm; simp [Mod.empty] at hm
  have hmod := (modAt_mem hne).2
  unfold PlainValues plainValuesB at hp
  have := List.all_eq_true.1 hp _ hmod
  simp only [Bool.and_eq_true] at this
  exact List.all_eq_true.1 this.1.1 _ hm

theorem plain_struct {p : GProg} (hp : PlainValues p) {m : Nat} {n : Name} {k : SKind} {fs : List GField}
    (h : lookupType p m n = some (.struct k fs)) : dfltsPlain fs = true := by
  obtain ⟨_, hmod, hmem⟩ := lookupType_mod h
  unfold PlainValues plainValuesB at hp
  have := List.all_eq_true.1 hp _ hmod
  simp only [Bool.and_eq_true] at this
  exact List.all_eq_true.1 this.1.2 _ hmem


theorem Post.tflag_cons (p : GProg) (σ : St) (x : Nat × Name) : Post p σ { σ with tflag := x :: σ.tflag } :=
  ⟨⟨fun _ h => contains_cons_of _ h, fun _ h => h⟩, Or.inr (fun _ h => h), fun h => h⟩
theorem Post.cflag_cons (p : GProg) (σ : St) (x : Nat × Name) : Post p σ { σ with cflag := x :: σ.cflag } :=
  ⟨⟨fun _ h => h, fun _ h => contains_cons_of _ h⟩, Or.inr (fun _ h => h), fun h => h⟩
theorem Post.clink_cons (p : GProg) (σ σ0 : St) (x : Nat × Name) (h1 : σ0.tflag = σ.tflag) (h2 : σ0.cflag = σ.cflag)
    (h3 : σ0.clink = x :: σ.clink) (h4 : σ0.cval = σ.cval) : Post p σ σ0 :=
  ⟨⟨fun _ h => by rw [h1]; exact h, fun _ h => by rw [h2]; exact h⟩,
   Or.inr (fun _ h => by rw [h3]; exact contains_cons_of _ h), fun hs k v hv => hs k v (by rw [← h4]; exact hv)⟩

theorem storeOK_aset {σ : St} (hs : StoreOK σ) (k : Nat × Name) (v : CV) (hv : v.noMS = true) (σ' : St)
    (h : σ'.cval = aset k v σ.cval) : StoreOK σ' := by
  intro k2 v2 h2
  rw [h] at h2
  by_cases hk : k = k2
  · subst hk; rw [alookup_aset_self] at h2; cases h2; exact hv
  · rw [alookup_aset_ne _ _ hk] at h2; exact hs k2 v2 h2

/-- `linkNamed` and `linkConst` halt in `σ` once every state with a smaller `uCount` has all clauses -/
theorem named_const_of_smaller (p : GProg) (hp : PlainValues p) (σ : St) (hs : StoreOK σ)
    (ih : ∀ σ0, uCount p σ0 < uCount p σ → StoreOK σ0 → Clauses p σ0) :
    (∀ m n, HaltsS (fun f => linkNamed f p m n σ) (Post p σ)) ∧
    (∀ m n, HaltsS (fun f => linkConst f p m n σ) (Post p σ)) := by
  refine ⟨?_, ?_⟩
  · intro m n
    cases hl : lookupType p m n with
    | none => exact ⟨1, Or.inl (by simp only [linkNamed, hl])⟩
    | some d =>
      cases d with
      | enum items => exact ⟨1, Or.inr ⟨σ, by simp only [linkNamed, hl], Post.refl p σ⟩⟩
      | typedef target =>
        by_cases hc : σ.tflag.contains (m, n) = true
        · exact ⟨1, Or.inr ⟨σ, by simp only [linkNamed, hl, hc, if_true], Post.refl p σ⟩⟩
        · have hc' : σ.tflag.contains (m, n) = false := by simpa using hc
          have C0 := ih _ (uCount_tflag_lt hl hc') (fun k v hv => hs k v hv)
          obtain ⟨f, hf⟩ := (C0.sized target.size).ty m target (Nat.le_refl _)
          rcases hf with he | ⟨σ1, lt, hok, hpost⟩
          · refine ⟨f + 1, Or.inl ?_⟩
            simp only [linkNamed, hl, hc', Bool.false_eq_true, if_false]
            simp only at he
            rw [he]
          · refine ⟨f + 1, Or.inr ⟨{ σ1 with root := aset (m, n) (rootIn p σ1 lt) σ1.root }, ?_, ?_⟩⟩
            · simp only [linkNamed, hl, hc', Bool.false_eq_true, if_false]
              simp only at hok
              rw [hok]
            · exact (Post.tflag_cons p σ (m, n)).trans (hpost.trans (KeyEq.post ⟨rfl, rfl, rfl, rfl⟩))
      | struct k fs =>
        by_cases hc : σ.tflag.contains (m, n) = true
        · exact ⟨1, Or.inr ⟨σ, by simp only [linkNamed, hl, hc, if_true], Post.refl p σ⟩⟩
        · have hc' : σ.tflag.contains (m, n) = false := by simpa using hc
          have C0 := ih _ (uCount_tflag_lt hl hc') (fun k v hv => hs k v hv)
          obtain ⟨f, hf⟩ := (C0.sized (fsz fs)).fields (.strct m n) m 0 fs (plain_struct hp hl) (Nat.le_refl _)
          rcases hf with he | ⟨σ1, hok, hpost⟩
          · refine ⟨f + 1, Or.inl ?_⟩
            simp only [linkNamed, hl, hc', Bool.false_eq_true, if_false]
            exact he
          · refine ⟨f + 1, Or.inr ⟨σ1, ?_, (Post.tflag_cons p σ (m, n)).trans hpost⟩⟩
            simp only [linkNamed, hl, hc', Bool.false_eq_true, if_false]
            exact hok
  · intro m n
    cases hl : lookupConst p m n with
    | none => exact ⟨1, Or.inl (by simp only [linkConst, hl])⟩
    | some c =>
      by_cases hc : σ.cflag.contains (m, n) = true
      · by_cases hk : σ.clink.contains (m, n) = true
        · exact ⟨1, Or.inl (by simp only [linkConst, hl, hc, hk, if_true])⟩
        · have hk' : σ.clink.contains (m, n) = false := by simpa using hk
          exact ⟨1, Or.inr ⟨σ, by simp only [linkConst, hl, hc, hk', if_true, Bool.false_eq_true, if_false], Post.refl p σ⟩⟩
      · have hc' : σ.cflag.contains (m, n) = false := by simpa using hc
        have hlt := uCount_cflag_lt hl hc'
        have C0 := ih _ hlt (fun k v hv => hs k v hv)
        obtain ⟨f1, hf1⟩ := (C0.sized c.ty.size).ty m c.ty (Nat.le_refl _)
        rcases hf1 with he | ⟨σ1, lt, hok1, hpost1⟩
        · refine ⟨f1 + 1, Or.inl ?_⟩
          simp only [linkConst, hl, hc', Bool.false_eq_true, if_false]
          simp only at he
          rw [he]
        · have hs1 : StoreOK σ1 := hpost1.2.2 (fun k v hv => hs k v hv)
          have hu1 : uCount p σ1 < uCount p σ := Nat.lt_of_le_of_lt (uCount_le hpost1.1) hlt
          have C1 := ih { σ1 with ctype := (m, n) :: σ1.ctype, clink := (m, n) :: σ1.clink } hu1 (fun k v hv => hs1 k v hv)
          obtain ⟨f2, hf2⟩ := (C1.sized c.val.msz).val m c.val lt (CV.noMS_of_plain _ (plain_const hp hl)) (Nat.le_refl _)
          have hok1' : linkTy (max f1 f2) p m c.ty { σ with cflag := (m, n) :: σ.cflag } = .ok (σ1, lt) :=
            linkTy_lift p hok1 (by intro h; cases h) (Nat.le_max_left _ _)
          rcases hf2 with he | ⟨σ2, v, hok2, hpost2, hv⟩
          · refine ⟨max f1 f2 + 1, Or.inl ?_⟩
            have he' := linkVal_lift p he (by intro h; cases h) (Nat.le_max_right f1 f2)
            simp only [linkConst, hl, hc', Bool.false_eq_true, if_false]
            rw [hok1']
            simp only
            rw [he']
          · refine ⟨max f1 f2 + 1, Or.inr ⟨endConst (m, n) v σ2, ?_, ?_⟩⟩
            · have hok2' := linkVal_lift p hok2 (by intro h; cases h) (Nat.le_max_right f1 f2)
              simp only [linkConst, hl, hc', Bool.false_eq_true, if_false]
              rw [hok1']
              simp only
              rw [hok2']
            · have hfl : FlagsLe2 σ σ2 :=
                (Post.cflag_cons p σ (m, n)).1.trans (hpost1.1.trans hpost2.1)
              have hu2 : uCount p σ2 ≤ uCount p σ1 := by
                have := uCount_le (p := p) hpost2.1
                simpa [uCount] using this
              refine Post.of_lt ⟨fun k h => hfl.1 k h, fun k h => hfl.2 k h⟩ ?_ ?_
              · have : uCount p (endConst (m, n) v σ2) = uCount p σ2 := rfl
                omega
              · intro _
                exact storeOK_aset (hpost2.2.2 (fun k v hv => hs1 k v hv)) (m, n) v hv _ rfl


theorem TExpr.size_pos (e : TExpr) : 1 ≤ e.size := by cases e <;> simp [TExpr.size] <;> omega
theorem CV.msz_pos (v : CV) : 1 ≤ v.msz := by cases v <;> simp [CV.msz] <;> omega

theorem contains_filter_ne {α : Type} [BEq α] [LawfulBEq α] {l : List α} {x c : α} (h : l.contains x = true) (hne : x ≠ c) :
    (l.filter (fun y => y != c)).contains x = true := by
  rw [List.contains_iff_mem] at h ⊢
  exact List.mem_filter.2 ⟨h, by simpa using hne⟩

/-- the state after the cast of a constant's value (`ConstReference.Link`) -/
theorem post_cast {p : GProg} {σ σc σ1 : St} {c : Nat × Name} (hnc : σ.clink.contains c = false)
    (h1 : σc.tflag = σ.tflag) (h2 : σc.cflag = σ.cflag) (h3 : σc.clink = c :: σ.clink) (h4 : σc.cval = σ.cval)
    (hp : Post p σc σ1) : Post p σ { σ1 with clink := σ1.clink.filter (fun x => x != c) } := by
  obtain ⟨hf, hd, hs⟩ := hp
  refine ⟨⟨fun k h => hf.1 k (by rw [h1]; exact h), fun k h => hf.2 k (by rw [h2]; exact h)⟩, ?_, ?_⟩
  · rcases hd with hd | hd
    · left
      have e1 : uCount p σc = uCount p σ := by unfold uCount; rw [h1, h2]
      have e2 : uCount p { σ1 with clink := σ1.clink.filter (fun x => x != c) } = uCount p σ1 := rfl
      omega
    · right
      intro k hk
      have hk1 : σ1.clink.contains k = true := hd k (by rw [h3]; exact contains_cons_of _ hk)
      have hne : k ≠ c := by
        intro he; subst he; rw [hnc] at hk; cases hk
      exact contains_filter_ne hk1 hne
  · intro hs0
    have := hs (fun k v hv => hs0 k v (by rw [← h4]; exact hv))
    exact fun k v hv => this k v hv

theorem sized_of (p : GProg) (hp : PlainValues p) (N K : Nat)
    (ihU : ∀ σ0, uCount p σ0 < N → StoreOK σ0 → Clauses p σ0)
    (ihK : ∀ σ0, uCount p σ0 ≤ N → kCount p σ0 < K → StoreOK σ0 → ∀ s, ClausesUpTo p σ0 s) :
    ∀ s σ, uCount p σ ≤ N → kCount p σ ≤ K → StoreOK σ → ClausesUpTo p σ s := by
  intro s
  induction s with
  | zero =>
    intro σ _ _ _
    refine ⟨?_, ?_, ?_, ?_⟩
    · intro m e he; have := TExpr.size_pos e; omega
    · intro o m i fs _ hf
      cases fs with
      | nil => exact ⟨1, Or.inr ⟨σ, by simp only [linkFields], Post.refl p σ⟩⟩
      | cons fld rest => simp only [fsz] at hf; omega
    · intro m v t _ hm; have := CV.msz_pos v; omega
    · intro m vs t _ hm
      cases vs with
      | nil => exact ⟨1, Or.inr ⟨σ, [], by simp only [linkVals], Post.refl p σ, rfl⟩⟩
      | cons x xs => simp only [CV.mszList] at hm; omega
  | succ s ih =>
    intro σ hu hk hs
    have hNC := named_const_of_smaller p hp σ hs (fun σ0 hlt hs0 => ihU σ0 (by omega) hs0)
    have here := ih σ hu hk hs
    have next : ∀ σ1, Post p σ σ1 → ClausesUpTo p σ1 s := by
      intro σ1 hp1
      have hs1 := hp1.2.2 hs
      rcases hp1.2.1 with hlt | hge
      · exact (ihU σ1 (by omega) hs1).sized s
      · exact ih σ1 (Nat.le_trans (uCount_le hp1.1) hu) (Nat.le_trans (kCount_le hge) hk) hs1
    refine ⟨?_, ?_, ?_, ?_⟩
    · -- linkTy
      intro m e he
      cases e with
      | base o b => exact ⟨1, Or.inr ⟨σ, .base o b, by simp only [linkTy], Post.refl p σ⟩⟩
      | list o e =>
        obtain ⟨f, hf⟩ := here.ty m e (by simp only [TExpr.size] at he; omega)
        rcases hf with h | ⟨σ1, lt, h, hpost⟩
        · exact ⟨f + 1, Or.inl (by simp only [linkTy]; simp only at h; rw [h])⟩
        · exact ⟨f + 1, Or.inr ⟨σ1, .list o lt, by simp only [linkTy]; simp only at h; rw [h], hpost⟩⟩
      | set o e =>
        obtain ⟨f, hf⟩ := here.ty m e (by simp only [TExpr.size] at he; omega)
        rcases hf with h | ⟨σ1, lt, h, hpost⟩
        · exact ⟨f + 1, Or.inl (by simp only [linkTy]; simp only at h; rw [h])⟩
        · exact ⟨f + 1, Or.inr ⟨σ1, .set o lt, by simp only [linkTy]; simp only at h; rw [h], hpost⟩⟩
      | map o k v =>
        obtain ⟨f1, hf1⟩ := here.ty m k (by simp only [TExpr.size] at he; omega)
        rcases hf1 with h | ⟨σ1, kt, h1, hpost1⟩
        · exact ⟨f1 + 1, Or.inl (by simp only [linkTy]; simp only at h; rw [h])⟩
        · obtain ⟨f2, hf2⟩ := (next σ1 hpost1).ty m v (by simp only [TExpr.size] at he; omega)
          have h1' := linkTy_lift p h1 (by intro h; cases h) (Nat.le_max_left f1 f2)
          rcases hf2 with h | ⟨σ2, vt, h2, hpost2⟩
          · have h' := linkTy_lift p h (by intro h; cases h) (Nat.le_max_right f1 f2)
            exact ⟨max f1 f2 + 1, Or.inl (by simp only [linkTy]; rw [h1']; simp only; rw [h'])⟩
          · have h2' := linkTy_lift p h2 (by intro h; cases h) (Nat.le_max_right f1 f2)
            exact ⟨max f1 f2 + 1, Or.inr ⟨σ2, .map o kt vt, by simp only [linkTy]; rw [h1']; simp only; rw [h2'],
              hpost1.trans hpost2⟩⟩
      | ref n =>
        cases hl : lookupType p m n with
        | some d =>
          obtain ⟨f, hf⟩ := hNC.1 m n
          rcases hf with h | ⟨σ1, h, hpost⟩
          · exact ⟨f + 1, Or.inl (by simp only [linkTy, hl]; simp only at h; rw [h])⟩
          · exact ⟨f + 1, Or.inr ⟨σ1, .named m n, by simp only [linkTy, hl]; simp only at h; rw [h], hpost⟩⟩
        | none =>
          cases hsp : splitInclude n with
          | none => exact ⟨1, Or.inl (by simp only [linkTy, hl, hsp])⟩
          | some pr =>
            obtain ⟨mn, inm⟩ := pr
            cases hi : lookupInclude p m mn with
            | none => exact ⟨1, Or.inl (by simp only [linkTy, hl, hsp, hi])⟩
            | some m' =>
              have hlen := splitInclude_length hsp
              obtain ⟨f, hf⟩ := here.ty m' (.ref inm) (by simp only [TExpr.size] at he ⊢; omega)
              rcases hf with h | ⟨σ1, lt, h, hpost⟩
              · exact ⟨f + 1, Or.inl (by simp only [linkTy, hl, hsp, hi]; exact h)⟩
              · exact ⟨f + 1, Or.inr ⟨σ1, lt, by simp only [linkTy, hl, hsp, hi]; exact h, hpost⟩⟩
    · -- linkFields
      intro o m i fs hpl hsz
      cases fs with
      | nil => exact ⟨1, Or.inr ⟨σ, by simp only [linkFields], Post.refl p σ⟩⟩
      | cons fld rest =>
        simp only [dfltsPlain, Bool.and_eq_true] at hpl
        simp only [fsz] at hsz
        obtain ⟨f1, hf1⟩ := here.ty m fld.ty (by omega)
        rcases hf1 with h | ⟨σ1, lt, h1, hpost1⟩
        · exact ⟨f1 + 1, Or.inl (by simp only [linkFields]; simp only at h; rw [h])⟩
        · have hpost2 : Post p σ (ownerMark o i σ1) := hpost1.trans (KeyEq.post (keyEq_ownerMark o i σ1))
          cases hd : fld.dflt with
          | none =>
            obtain ⟨f2, hf2⟩ := (next _ hpost2).fields o m (i + 1) rest hpl.2 (by omega)
            have h1' := linkTy_lift p h1 (by intro h; cases h) (Nat.le_max_left f1 f2)
            rcases hf2 with h | ⟨σ3, h3, hpost3⟩
            · have h' := linkFields_lift p h (by intro h; cases h) (Nat.le_max_right f1 f2)
              exact ⟨max f1 f2 + 1, Or.inl (by simp only [linkFields]; rw [h1']; simp only [hd]; exact h')⟩
            · have h3' := linkFields_lift p h3 (by intro h; cases h) (Nat.le_max_right f1 f2)
              exact ⟨max f1 f2 + 1, Or.inr ⟨σ3, by simp only [linkFields]; rw [h1']; simp only [hd]; exact h3',
                hpost2.trans hpost3⟩⟩
          | some d =>
            rw [hd] at hpl hsz
            simp only at hpl hsz
            have hpostb : Post p σ (ownerBeginDflt o i (ownerMark o i σ1)) :=
              hpost2.trans (KeyEq.post (keyEq_ownerBeginDflt o i _))
            obtain ⟨f2, hf2⟩ := (next _ hpostb).val m d lt (CV.noMS_of_plain _ hpl.1) (by omega)
            rcases hf2 with h | ⟨σ3, v, h3, hpost3, _⟩
            · have h1' := linkTy_lift p h1 (by intro h; cases h) (Nat.le_max_left f1 f2)
              have h' := linkVal_lift p h (by intro h; cases h) (Nat.le_max_right f1 f2)
              exact ⟨max f1 f2 + 1, Or.inl (by simp only [linkFields]; rw [h1']; simp only [hd]; rw [h'])⟩
            · have hpost4 : Post p σ (ownerSetDflt o i v σ3) :=
                (hpostb.trans hpost3).trans (KeyEq.post (keyEq_ownerSetDflt o i v σ3))
              obtain ⟨f3, hf3⟩ := (next _ hpost4).fields o m (i + 1) rest hpl.2 (by omega)
              have h1' := linkTy_lift p h1 (by intro h; cases h) (show f1 ≤ max f1 (max f2 f3) from Nat.le_max_left _ _)
              have h3' := linkVal_lift p h3 (by intro h; cases h)
                (show f2 ≤ max f1 (max f2 f3) from Nat.le_trans (Nat.le_max_left _ _) (Nat.le_max_right _ _))
              have hle3 : f3 ≤ max f1 (max f2 f3) := Nat.le_trans (Nat.le_max_right _ _) (Nat.le_max_right _ _)
              rcases hf3 with h | ⟨σ5, h5, hpost5⟩
              · have h' := linkFields_lift p h (by intro h; cases h) hle3
                exact ⟨max f1 (max f2 f3) + 1, Or.inl (by
                  simp only [linkFields]; rw [h1']; simp only [hd]; rw [h3']; simp only; exact h')⟩
              · have h5' := linkFields_lift p h5 (by intro h; cases h) hle3
                exact ⟨max f1 (max f2 f3) + 1, Or.inr ⟨σ5, by
                  simp only [linkFields]; rw [h1']; simp only [hd]; rw [h3']; simp only; exact h5',
                  hpost4.trans hpost5⟩⟩
    · -- linkVal
      intro m v t hv hm
      cases v with
      | bool b =>
        refine ⟨1, ?_⟩
        simp only [linkVal]
        split
        · exact Or.inr ⟨σ, _, rfl, Post.refl p σ, rfl⟩
        · exact Or.inl rfl
      | int n =>
        refine ⟨1, ?_⟩
        simp only [linkVal]
        split
        · rename_i v' hc
          exact Or.inr ⟨σ, _, rfl, Post.refl p σ, castInt_noMS hc⟩
        · exact Or.inl rfl
      | str x =>
        refine ⟨1, ?_⟩
        simp only [linkVal]
        split
        · exact Or.inr ⟨σ, _, rfl, Post.refl p σ, rfl⟩
        · exact Or.inl rfl
      | dbl x =>
        refine ⟨1, ?_⟩
        simp only [linkVal]
        split
        · exact Or.inr ⟨σ, _, rfl, Post.refl p σ, rfl⟩
        · exact Or.inl rfl
      | map kvs => simp [CV.noMS] at hv
      | struct fs => simp [CV.noMS] at hv
      | eref em en item val =>
        refine ⟨1, ?_⟩
        simp only [linkVal]
        split
        · exact Or.inr ⟨σ, _, rfl, Post.refl p σ, rfl⟩
        · exact Or.inl rfl
      | list xs =>
        have hxs : CV.noMSList xs = true := by simpa [CV.noMS] using hv
        have hsz : CV.mszList xs ≤ s := by simp only [CV.msz] at hm; omega
        cases hk : rootKind p (rootIn p σ t) with
        | set e =>
          obtain ⟨f, hf⟩ := here.vals m xs e hxs hsz
          rcases hf with h | ⟨σ1, xs', h, hpost, hn⟩
          · exact ⟨f + 1, Or.inl (by simp only [linkVal, hk]; simp only at h; rw [h])⟩
          · rcases guardDup_cases p σ1 xs' (.set xs') with hg | hg
            · exact ⟨f + 1, Or.inl (by simp only [linkVal, hk]; simp only at h; rw [h]; exact hg)⟩
            · exact ⟨f + 1, Or.inr ⟨σ1, .set xs', by simp only [linkVal, hk]; simp only at h; rw [h]; exact hg, hpost,
                by simpa [CV.noMS] using hn⟩⟩
        | list e =>
          obtain ⟨f, hf⟩ := here.vals m xs e hxs hsz
          rcases hf with h | ⟨σ1, xs', h, hpost, hn⟩
          · exact ⟨f + 1, Or.inl (by simp only [linkVal, hk]; simp only at h; rw [h])⟩
          · exact ⟨f + 1, Or.inr ⟨σ1, .list xs', by simp only [linkVal, hk]; simp only at h; rw [h], hpost,
              by simpa [CV.noMS] using hn⟩⟩
        | _ => exact ⟨1, Or.inl (by simp only [linkVal, hk])⟩
      | set xs =>
        have hxs : CV.noMSList xs = true := by simpa [CV.noMS] using hv
        have hsz : CV.mszList xs ≤ s := by simp only [CV.msz] at hm; omega
        cases hk : rootKind p (rootIn p σ t) with
        | set e =>
          obtain ⟨f, hf⟩ := here.vals m xs e hxs hsz
          rcases hf with h | ⟨σ1, xs', h, hpost, hn⟩
          · exact ⟨f + 1, Or.inl (by simp only [linkVal, hk]; simp only at h; rw [h])⟩
          · rcases guardDup_cases p σ1 xs' (.set xs') with hg | hg
            · exact ⟨f + 1, Or.inl (by simp only [linkVal, hk]; simp only at h; rw [h]; exact hg)⟩
            · exact ⟨f + 1, Or.inr ⟨σ1, .set xs', by simp only [linkVal, hk]; simp only at h; rw [h]; exact hg, hpost,
                by simpa [CV.noMS] using hn⟩⟩
        | _ => exact ⟨1, Or.inl (by simp only [linkVal, hk])⟩
      | cref cm cn =>
        cases hl : lookupConst p cm cn with
        | none => exact ⟨1, Or.inl (by simp only [linkVal, hl])⟩
        | some c =>
          by_cases hst : sameType t (constTypeIn p σ cm cn c) = true
          · exact ⟨1, Or.inr ⟨σ, .cref cm cn, by simp only [linkVal, hl, hst, if_true], Post.refl p σ, rfl⟩⟩
          · by_cases hcl : σ.clink.contains (cm, cn) = true
            · exact ⟨1, Or.inl (by simp only [linkVal, hl, hst, hcl, if_true, if_false, Bool.false_eq_true])⟩
            · have hcl' : σ.clink.contains (cm, cn) = false := by simpa using hcl
              cases hcv : alookup (cm, cn) σ.cval with
              | some cur =>
                have hkc : kCount p { σ with clink := (cm, cn) :: σ.clink } < kCount p σ :=
                  kCount_clink_lt hl hcl' _ rfl
                have Cc := ihK { σ with clink := (cm, cn) :: σ.clink } hu (by omega) (fun k v h => hs k v h) cur.msz
                obtain ⟨f, hf⟩ := Cc.val m cur t (hs _ _ hcv) (Nat.le_refl _)
                rcases hf with h | ⟨σ1, v', h, hpost, hn⟩
                · refine ⟨f + 1, Or.inl ?_⟩
                  simp only [linkVal, hl, hst, hcl', hcv, if_false, Bool.false_eq_true]
                  simp only at h; rw [h]
                · refine ⟨f + 1, Or.inr ⟨{ σ1 with clink := σ1.clink.filter (fun x => x != (cm, cn)) }, v', ?_,
                    post_cast (σc := { σ with clink := (cm, cn) :: σ.clink }) hcl' rfl rfl rfl rfl hpost, hn⟩⟩
                  simp only [linkVal, hl, hst, hcl', hcv, if_false, Bool.false_eq_true]
                  simp only at h; rw [h]
              | none =>
                have hkc : kCount p { σ with reent := true, clink := (cm, cn) :: σ.clink } < kCount p σ :=
                  kCount_clink_lt hl hcl' _ rfl
                have Cc := ihK { σ with reent := true, clink := (cm, cn) :: σ.clink } hu (by omega)
                  (fun k v h => hs k v h) c.val.msz
                obtain ⟨f, hf⟩ := Cc.val m c.val t (CV.noMS_of_plain _ (plain_const hp hl)) (Nat.le_refl _)
                rcases hf with h | ⟨σ1, v', h, hpost, hn⟩
                · refine ⟨f + 1, Or.inl ?_⟩
                  simp only [linkVal, hl, hst, hcl', hcv, if_false, Bool.false_eq_true]
                  simp only at h; rw [h]
                · refine ⟨f + 1, Or.inr ⟨{ σ1 with clink := σ1.clink.filter (fun x => x != (cm, cn)) }, v', ?_,
                    post_cast (σc := { σ with reent := true, clink := (cm, cn) :: σ.clink }) hcl' rfl rfl rfl rfl hpost, hn⟩⟩
                  simp only [linkVal, hl, hst, hcl', hcv, if_false, Bool.false_eq_true]
                  simp only at h; rw [h]
      | uref name =>
        simp only [CV.msz] at hm
        cases hl : lookupConst p m name with
        | some c0 =>
          obtain ⟨f1, hf1⟩ := hNC.2 m name
          rcases hf1 with h | ⟨σ1, h1, hpost1⟩
          · exact ⟨f1 + 1, Or.inl (by simp only [linkVal, hl]; simp only at h; rw [h])⟩
          · obtain ⟨f2, hf2⟩ := (next σ1 hpost1).val m (.cref m name) t rfl (by simp only [CV.msz]; omega)
            have h1' := linkConst_lift p h1 (by intro h; cases h) (Nat.le_max_left f1 f2)
            rcases hf2 with h | ⟨σ2, v', h2, hpost2, hn⟩
            · have h' := linkVal_lift p h (by intro h; cases h) (Nat.le_max_right f1 f2)
              exact ⟨max f1 f2 + 1, Or.inl (by simp only [linkVal, hl]; rw [h1']; simp only; exact h')⟩
            · have h2' := linkVal_lift p h2 (by intro h; cases h) (Nat.le_max_right f1 f2)
              exact ⟨max f1 f2 + 1, Or.inr ⟨σ2, v', by simp only [linkVal, hl]; rw [h1']; simp only; exact h2',
                hpost1.trans hpost2, hn⟩⟩
        | none =>
          cases hsp : splitInclude name with
          | none => exact ⟨1, Or.inl (by simp only [linkVal, hl, hsp])⟩
          | some pr =>
            obtain ⟨mn, inm⟩ := pr
            have hlen := splitInclude_length hsp
            have hinc : ∀ m', HaltsP (fun f => linkVal f p m' (.uref inm) t σ) (fun σ' v' => Post p σ σ' ∧ v'.noMS = true) :=
              fun m' => here.val m' (.uref inm) t rfl (by simp only [CV.msz]; omega)
            have viaInclude : HaltsP (fun f => (match lookupInclude p m mn with
                  | none => (Res.err : Res (St × CV))
                  | some m' => linkVal f p m' (.uref inm) t σ)) (fun σ' v' => Post p σ σ' ∧ v'.noMS = true) := by
              cases hi : lookupInclude p m mn with
              | none => exact ⟨0, Or.inl rfl⟩
              | some m' => exact hinc m'
            obtain ⟨f, hf⟩ := viaInclude
            refine ⟨f + 1, ?_⟩
            show linkVal (f + 1) p m (.uref name) t σ = .err ∨ _
            simp only [linkVal, hl, hsp]
            split
            · split
              · split
                · exact Or.inr ⟨σ, _, rfl, Post.refl p σ, rfl⟩
                · exact Or.inl rfl
              · exact Or.inl rfl
            · exact hf
    · -- linkVals
      intro m vs t hv hm
      cases vs with
      | nil => exact ⟨1, Or.inr ⟨σ, [], by simp only [linkVals], Post.refl p σ, rfl⟩⟩
      | cons x xs =>
        simp only [CV.noMSList, Bool.and_eq_true] at hv
        simp only [CV.mszList] at hm
        obtain ⟨f1, hf1⟩ := here.val m x t hv.1 (by omega)
        rcases hf1 with h | ⟨σ1, x', h1, hpost1, hn1⟩
        · exact ⟨f1 + 1, Or.inl (by simp only [linkVals]; simp only at h; rw [h])⟩
        · obtain ⟨f2, hf2⟩ := (next σ1 hpost1).vals m xs t hv.2 (by omega)
          have h1' := linkVal_lift p h1 (by intro h; cases h) (Nat.le_max_left f1 f2)
          rcases hf2 with h | ⟨σ2, xs', h2, hpost2, hn2⟩
          · have h' := linkVals_lift p h (by intro h; cases h) (Nat.le_max_right f1 f2)
            exact ⟨max f1 f2 + 1, Or.inl (by simp only [linkVals]; rw [h1']; simp only; rw [h'])⟩
          · have h2' := linkVals_lift p h2 (by intro h; cases h) (Nat.le_max_right f1 f2)
            exact ⟨max f1 f2 + 1, Or.inr ⟨σ2, x' :: xs', by simp only [linkVals]; rw [h1']; simp only; rw [h2'],
              hpost1.trans hpost2, by simp only [CV.noMSList, hn1, hn2, Bool.and_self]⟩⟩


/-- **Every call of the linker's mutual block halts** (programs whose constants and default
values are plain), from every state whose stored constant values are free of map / struct nodes:
by induction on the lexicographic measure (definitions not yet entered, constants not being
linked or cast, size of the argument). -/
theorem clauses_all (p : GProg) (hp : PlainValues p) : ∀ N σ, uCount p σ ≤ N → StoreOK σ → Clauses p σ := by
  intro N
  induction N using Nat.strongRecOn with
  | ind N ihN =>
    intro σ hu hs
    have ihU : ∀ σ0, uCount p σ0 < N → StoreOK σ0 → Clauses p σ0 :=
      fun σ0 h hs0 => ihN (uCount p σ0) h σ0 (Nat.le_refl _) hs0
    have hK : ∀ K, ∀ σ0, uCount p σ0 ≤ N → kCount p σ0 ≤ K → StoreOK σ0 → ∀ s, ClausesUpTo p σ0 s := by
      intro K
      induction K using Nat.strongRecOn with
      | ind K ihK =>
        intro σ0 h1 h2 h3 s
        exact sized_of p hp N K ihU
          (fun σ1 g1 g2 g3 s' => ihK (kCount p σ1) g2 σ1 g1 (Nat.le_refl _) g3 s') s σ0 h1 h2 h3
    have hNC := named_const_of_smaller p hp σ hs (fun σ0 hlt hs0 => ihU σ0 (by omega) hs0)
    exact ⟨hNC.1, hNC.2, fun s => hK (kCount p σ) σ hu (Nat.le_refl _) hs s⟩

theorem clauses_of_storeOK (p : GProg) (hp : PlainValues p) (σ : St) (hs : StoreOK σ) : Clauses p σ :=
  clauses_all p hp (uCount p σ) σ (Nat.le_refl _) hs

theorem storeOK_init : StoreOK St.init := by
  intro k v h; simp [St.init, alookup] at h

end ThriftVerif.Compile
