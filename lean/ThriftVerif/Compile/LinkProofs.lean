/-
Proofs about the stateful linker (C07): what it binds is what the declarative spec
designates, for every visit order.

* `linkTy_resolves`: the spec returned by `Type.Link` is `resolveExpr`'s answer.
* `RootsOk`: every root the linker ever stores is the declarative root (`IsRoot`) — an
  invariant of every `Link` function, hence of `compile` under every visit order. The only
  way a typedef ends up without its root is the nil left behind by re-entrant linking (D10).
-/
import ThriftVerif.Compile.Link
import ThriftVerif.Compile.SpecProofs

namespace ThriftVerif.Compile

/-! ### types are bound as the spec says -/

theorem linkTy_resolves (p : GProg) :
    ∀ (fuel m : Nat) (e : TExpr) (σ σ' : St) (lt : LType),
      linkTy fuel p m e σ = .ok (σ', lt) → resolveExpr p m e = some lt := by
  intro fuel
  induction fuel with
  | zero => intro m e σ σ' lt h; simp [linkTy] at h
  | succ f ih =>
    intro m e σ σ' lt h
    cases e with
    | base o b =>
      simp only [linkTy] at h
      cases h
      rfl
    | list o e =>
      simp only [linkTy] at h
      split at h
      · rename_i σ1 e' he
        cases h
        simp [resolveExpr, ih _ _ _ _ _ he]
      · cases h
      · cases h
    | set o e =>
      simp only [linkTy] at h
      split at h
      · rename_i σ1 e' he
        cases h
        simp [resolveExpr, ih _ _ _ _ _ he]
      · cases h
      · cases h
    | map o k v =>
      simp only [linkTy] at h
      split at h
      · rename_i σ1 k' hk
        split at h
        · rename_i σ2 v' hv
          cases h
          simp [resolveExpr, ih _ _ _ _ _ hk, ih _ _ _ _ _ hv]
        · cases h
        · cases h
      · cases h
      · cases h
    | ref n =>
      simp only [linkTy] at h
      split at h
      · rename_i d hd
        split at h
        · cases h
          simp [resolveExpr, resolveType_local hd]
        · cases h
        · cases h
      · rename_i hl
        split at h
        · cases h
        · rename_i mn inm hs
          split at h
          · cases h
          · rename_i m' hi
            have := ih _ _ _ _ _ h
            simp only [resolveExpr] at this ⊢
            rw [resolveType_include hl hs hi]
            exact this

/-! ### every stored root is the declarative root -/

/-- all roots stored so far are right (a stored nil says nothing) -/
def RootsOk (p : GProg) (roots : List ((Nat × Name) × Option LType)) : Prop :=
  ∀ m n r, alookup (m, n) roots = some (some r) → IsRoot p (.named m n) r

theorem RootsOk.nil (p : GProg) : RootsOk p [] := by
  intro m n r h
  simp [alookup] at h

/-- `RootTypeSpec` read in a state whose stored roots are right gives the right root (or nil) -/
theorem lazyRoot_sound {p : GProg} {σ : St} (hr : RootsOk p σ.root) :
    ∀ (f : Nat) (m : Nat) (n : Name) (r : LType), lazyRoot p σ f m n = some r → IsRoot p (.named m n) r := by
  intro f
  induction f with
  | zero => intro m n r h; simp [lazyRoot] at h
  | succ f ih =>
    intro m n r h
    simp only [lazyRoot] at h
    split at h
    · rename_i target hl
      split at h
      · cases h
      · rename_i r' hlook
        cases h
        exact hr m n r hlook
      · split at h
        · rename_i m' n' hres
          split at h
          · exact .step m n target (.named m' n') r hl hres (ih m' n' r h)
          · cases h
        · cases h
    · rename_i hne
      cases h
      exact .self _ (by
        intro m' n' target heq
        cases heq
        exact fun hl => hne target hl)

theorem rootIn_sound {p : GProg} {σ : St} (hr : RootsOk p σ.root) {t r : LType}
    (h : rootIn p σ t = some r) : IsRoot p t r := by
  cases t with
  | named m n =>
    simp only [rootIn] at h
    exact lazyRoot_sound hr _ m n r h
  | base o b => simp only [rootIn] at h; cases h; exact .self _ (by intro _ _ _ h; cases h)
  | list o e => simp only [rootIn] at h; cases h; exact .self _ (by intro _ _ _ h; cases h)
  | set o e => simp only [rootIn] at h; cases h; exact .self _ (by intro _ _ _ h; cases h)
  | map o k v => simp only [rootIn] at h; cases h; exact .self _ (by intro _ _ _ h; cases h)
  | uref n => simp only [rootIn] at h; cases h; exact .self _ (by intro _ _ _ h; cases h)

/-- storing the root of typedef `(m, n)` computed from its linked target keeps the invariant -/
theorem RootsOk.set {p : GProg} {σ : St} (hr : RootsOk p σ.root) {m : Nat} {n : Name} {target : TExpr}
    {lt : LType} (hl : lookupType p m n = some (.typedef target)) (hres : resolveExpr p m target = some lt) :
    RootsOk p (aset (m, n) (rootIn p σ lt) σ.root) := by
  intro m' n' r h
  by_cases hk : (m, n) = (m', n')
  · cases hk
    rw [alookup_aset_self] at h
    have hroot : rootIn p σ lt = some r := by injection h
    exact .step m n target lt r hl hres (rootIn_sound hr hroot)
  · rw [alookup_aset_ne _ _ hk] at h
    exact hr m' n' r h

/-- resolution of a service reference: `resolveSvc` answers with `resolveService`'s answer -/
theorem resolveServiceF_fuel_irrelevant (p : GProg) :
    ∀ (f : Nat) (m : Nat) (n : Name), n.length < f → ∀ g, n.length < g →
      resolveServiceF p f m n = resolveServiceF p g m n := by
  intro f
  induction f with
  | zero => intro m n h; omega
  | succ f ih =>
    intro m n hf g hg
    cases g with
    | zero => omega
    | succ g =>
      simp only [resolveServiceF]
      split
      · rfl
      · split
        · rfl
        · rename_i mn inm hs
          split
          · rfl
          · have hl := splitInclude_length hs
            exact ih _ _ (by omega) g (by omega)

theorem resolveSvc_resolves (p : GProg) (o : Orders) :
    ∀ (fuel m : Nat) (name : Name) (σ σ' : St) (k : Nat × Name),
      resolveSvc fuel p o m name σ = .ok (σ', k) → resolveService p m name = some k := by
  intro fuel
  induction fuel with
  | zero => intro m name σ σ' k h; simp [resolveSvc] at h
  | succ f ih =>
    intro m name σ σ' k h
    simp only [resolveSvc] at h
    split at h
    · rename_i s hs
      split at h
      · cases h; exact resolveService_local hs
      · cases h
      · cases h
    · rename_i hl
      split at h
      · cases h
      · rename_i mn inm hs
        split at h
        · cases h
        · rename_i m' hi
          have := ih _ _ _ _ _ h
          unfold resolveService at this ⊢
          have h1 : resolveServiceF p (name.length + 1) m name = resolveServiceF p name.length m' inm := by
            simp only [resolveServiceF, hl, hs, hi]
          rw [h1]
          have hlen := splitInclude_length hs
          rw [resolveServiceF_fuel_irrelevant p _ _ _ (by omega) (inm.length + 1) (by omega)]
          exact this

/-- An invariant of the link state that every update the linker performs preserves. The
updates of `root` and `vpar` come with what is known at that point: the typedef's target has
been linked and resolved; the parent name has been resolved. -/
structure LinkInv (p : GProg) (I : St → Prop) : Prop where
  tflag : ∀ σ x, I σ → I { σ with tflag := x }
  cflag : ∀ σ x, I σ → I { σ with cflag := x }
  ctype : ∀ σ x, I σ → I { σ with ctype := x }
  cval : ∀ σ x, I σ → I { σ with cval := x }
  reent : ∀ σ x, I σ → I { σ with reent := x }
  fflag : ∀ σ x, I σ → I { σ with fflag := x }
  vflag : ∀ σ x, I σ → I { σ with vflag := x }
  clink : ∀ σ x, I σ → I { σ with clink := x }
  vlink : ∀ σ x, I σ → I { σ with vlink := x }
  mark : ∀ o i σ, I σ → I (ownerMark o i σ)
  begd : ∀ o i σ, I σ → I (ownerBeginDflt o i σ)
  endc : ∀ k v σ, I σ → I (endConst k v σ)
  setd : ∀ o i v σ, I σ → I (ownerSetDflt o i v σ)
  root : ∀ σ m n target lt, I σ → lookupType p m n = some (.typedef target) →
    resolveExpr p m target = some lt → I { σ with root := aset (m, n) (rootIn p σ lt) σ.root }
  vpar : ∀ σ m n s pname pk, I σ → lookupService p m n = some s → s.parent = some pname →
    resolveService p m pname = some pk → I { σ with vpar := aset (m, n) pk σ.vpar }

/-- The invariant statement for all functions of the mutual block at one fuel. -/
def BlockInv (p : GProg) (I : St → Prop) (f : Nat) : Prop :=
  (∀ m e σ σ' lt, I σ → linkTy f p m e σ = .ok (σ', lt) → I σ') ∧
  (∀ m n σ σ', I σ → linkNamed f p m n σ = .ok σ' → I σ') ∧
  (∀ o m i fs σ σ', I σ → linkFields f p o m i fs σ = .ok σ' → I σ') ∧
  (∀ m n σ σ', I σ → linkConst f p m n σ = .ok σ' → I σ') ∧
  (∀ m v t σ σ' v', I σ → linkVal f p m v t σ = .ok (σ', v') → I σ') ∧
  (∀ m vs t σ σ' vs', I σ → linkVals f p m vs t σ = .ok (σ', vs') → I σ') ∧
  (∀ m kvs kt vt σ σ' kvs', I σ → linkPairs f p m kvs kt vt σ = .ok (σ', kvs') → I σ') ∧
  (∀ m sm sn j fs lit σ σ' lit', I σ →
      linkSFields f p m sm sn j fs lit σ = .ok (σ', lit') → I σ')

theorem blockInv (p : GProg) (I : St → Prop) (hI : LinkInv p I) : ∀ f, BlockInv p I f := by
  intro f
  induction f with
  | zero =>
    refine ⟨?_, ?_, ?_, ?_, ?_, ?_, ?_, ?_⟩ <;> intros <;> rename_i h <;>
      simp [linkTy, linkNamed, linkFields, linkConst, linkVal, linkVals, linkPairs, linkSFields] at h
  | succ f ih =>
    obtain ⟨iTy, iNamed, iFields, iConst, iVal, iVals, iPairs, iSF⟩ := ih
    refine ⟨?_, ?_, ?_, ?_, ?_, ?_, ?_, ?_⟩
    · -- linkTy
      intro m e σ σ' lt hr h
      cases e with
      | base o b => simp only [linkTy] at h; cases h; exact hr
      | list o e =>
        simp only [linkTy] at h
        split at h
        · rename_i σ1 e' he; cases h; exact iTy _ _ _ _ _ hr he
        · cases h
        · cases h
      | set o e =>
        simp only [linkTy] at h
        split at h
        · rename_i σ1 e' he; cases h; exact iTy _ _ _ _ _ hr he
        · cases h
        · cases h
      | map o k v =>
        simp only [linkTy] at h
        split at h
        · rename_i σ1 k' hk
          split at h
          · rename_i σ2 v' hv; cases h; exact iTy _ _ _ _ _ (iTy _ _ _ _ _ hr hk) hv
          · cases h
          · cases h
        · cases h
        · cases h
      | ref n =>
        simp only [linkTy] at h
        split at h
        · split at h
          · rename_i σ1 hn; cases h; exact iNamed _ _ _ _ hr hn
          · cases h
          · cases h
        · split at h
          · cases h
          · split at h
            · cases h
            · exact iTy _ _ _ _ _ hr h
    · -- linkNamed
      intro m n σ σ' hr h
      simp only [linkNamed] at h
      split at h
      · cases h
      · cases h; exact hr
      · rename_i target hl
        split at h
        · cases h; exact hr
        · split at h
          · rename_i σ1 lt hty
            cases h
            have hr1 : I σ1 := iTy _ _ _ _ _ (hI.tflag _ _ hr) hty
            exact hI.root _ _ _ _ _ hr1 hl (linkTy_resolves p _ _ _ _ _ _ hty)
          · cases h
          · cases h
      · split at h
        · cases h; exact hr
        · exact iFields _ _ _ _ _ _ (hI.tflag _ _ hr) h
    · -- linkFields
      intro o m i fs σ σ' hr h
      cases fs with
      | nil => simp only [linkFields] at h; cases h; exact hr
      | cons fld rest =>
        simp only [linkFields] at h
        split at h
        · rename_i σ1 lt hty
          have hr1 : I σ1 := iTy _ _ _ _ _ hr hty
          have hr2 : I (ownerMark o i σ1) := hI.mark _ _ _ hr1
          split at h
          · exact iFields _ _ _ _ _ _ hr2 h
          · split at h
            · rename_i σ3 v hv
              have hr3 : I σ3 := iVal _ _ _ _ _ _ (hI.begd _ _ _ hr2) hv
              exact iFields _ _ _ _ _ _ (hI.setd _ _ _ _ hr3) h
            · cases h
            · cases h
        · cases h
        · cases h
    · -- linkConst
      intro m n σ σ' hr h
      simp only [linkConst] at h
      split at h
      · cases h
      · split at h
        · split at h
          · cases h
          · cases h; exact hr
        · split at h
          · rename_i σ1 lt hty
            have hr1 : I σ1 := iTy _ _ _ _ _ (hI.cflag _ _ hr) hty
            split at h
            · rename_i σ2 v hv
              cases h
              have hr1' : I { σ1 with ctype := (m, n) :: σ1.ctype, clink := (m, n) :: σ1.clink } :=
                hI.clink _ ((m, n) :: σ1.clink) (hI.ctype _ ((m, n) :: σ1.ctype) hr1)
              have hr2 : I σ2 := iVal _ _ _ _ _ _ hr1' hv
              exact hI.endc _ _ _ hr2
            · cases h
            · cases h
          · cases h
          · cases h
    · -- linkVal
      intro m v t σ σ' v' hr h
      simp only [linkVal] at h
      split at h
      · -- bool
        split at h
        · cases h; exact hr
        · cases h
      · -- int
        split at h
        · cases h; exact hr
        · cases h
      · -- str
        split at h
        · cases h; exact hr
        · cases h
      · -- dbl
        split at h
        · cases h; exact hr
        · cases h
      · -- map
        split at h
        · split at h
          · cases h
          · split at h
            · rename_i σ1 fs' hsf; cases h; exact iSF _ _ _ _ _ _ _ _ _ (hI.reent _ _ hr) hsf
            · cases h
            · cases h
        · split at h
          · rename_i σ1 kvs' hp; cases guardDup_ok h; exact iPairs _ _ _ _ _ _ _ hr hp
          · cases h
          · cases h
        · cases h
      · -- struct
        split at h
        · split at h
          · rename_i σ1 fs' hsf; cases h; exact iSF _ _ _ _ _ _ _ _ _ (hI.reent _ _ hr) hsf
          · cases h
          · cases h
        · cases h
      · -- list
        split at h
        · split at h
          · rename_i σ1 xs' hx; cases guardDup_ok h; exact iVals _ _ _ _ _ _ hr hx
          · cases h
          · cases h
        · split at h
          · rename_i σ1 xs' hx; cases h; exact iVals _ _ _ _ _ _ hr hx
          · cases h
          · cases h
        · cases h
      · -- set
        split at h
        · split at h
          · rename_i σ1 xs' hx; cases guardDup_ok h; exact iVals _ _ _ _ _ _ hr hx
          · cases h
          · cases h
        · cases h
      · -- eref
        split at h
        · cases h; exact hr
        · cases h
      · -- cref
        split at h
        · cases h
        · split at h
          · cases h; exact hr
          · split at h
            · cases h
            · split at h
              · rename_i σ1 v1 hv
                cases h
                refine hI.clink _ _ ?_
                split at hv
                · exact iVal _ _ _ _ _ _ (hI.clink _ _ hr) hv
                · exact iVal _ _ _ _ _ _ (hI.clink { σ with reent := true } _ (hI.reent σ true hr)) hv
              · cases h
              · cases h
      · -- uref
        split at h
        · split at h
          · rename_i σ1 hc
            exact iVal _ _ _ _ _ _ (iConst _ _ _ _ hr hc) h
          · cases h
          · cases h
        · split at h
          · cases h
          · split at h
            · split at h
              · split at h
                · cases h; exact hr
                · cases h
              · cases h
            · split at h
              · cases h
              · exact iVal _ _ _ _ _ _ hr h
    · -- linkVals
      intro m vs t σ σ' vs' hr h
      cases vs with
      | nil => simp only [linkVals] at h; cases h; exact hr
      | cons x xs =>
        simp only [linkVals] at h
        split at h
        · rename_i σ1 x' hx
          split at h
          · rename_i σ2 xs' hxs; cases h; exact iVals _ _ _ _ _ _ (iVal _ _ _ _ _ _ hr hx) hxs
          · cases h
          · cases h
        · cases h
        · cases h
    · -- linkPairs
      intro m kvs kt vt σ σ' kvs' hr h
      cases kvs with
      | nil => simp only [linkPairs] at h; cases h; exact hr
      | cons kv rest =>
        obtain ⟨k, v⟩ := kv
        simp only [linkPairs] at h
        split at h
        · rename_i σ1 k' hk
          split at h
          · rename_i σ2 v' hv
            split at h
            · rename_i σ3 rest' hrest
              cases h
              exact iPairs _ _ _ _ _ _ _ (iVal _ _ _ _ _ _ (iVal _ _ _ _ _ _ hr hk) hv) hrest
            · cases h
            · cases h
          · cases h
          · cases h
        · cases h
        · cases h
    · -- linkSFields
      intro m sm sn j fs lit σ σ' lit' hr h
      cases fs with
      | nil => simp only [linkSFields] at h; cases h; exact hr
      | cons fld rest =>
        simp only [linkSFields] at h
        split at h
        · split at h
          · rename_i σ1 v hv
            exact iSF _ _ _ _ _ _ _ _ _ (iVal _ _ _ _ _ _ hr hv) h
          · cases h
          · cases h
        · split at h
          · split at h
            · cases h
            · exact iSF _ _ _ _ _ _ _ _ _ hr h
          · split at h
            · cases h
            · split at h
              · rename_i σ1 v hv
                exact iSF _ _ _ _ _ _ _ _ _ (iVal _ _ _ _ _ _ hr hv) h
              · cases h
              · cases h

/-! ### … and of functions, services, modules, the walk, `compile` -/

theorem forEach_inv {α : Type} (I : St → Prop) (g : α → St → Res St)
    (hg : ∀ x σ σ', I σ → g x σ = .ok σ' → I σ') :
    ∀ (xs : List α) (σ σ' : St), I σ → forEach g xs σ = .ok σ' → I σ' := by
  intro xs
  induction xs with
  | nil => intro σ σ' hi h; simp only [forEach] at h; cases h; exact hi
  | cons x xs ih =>
    intro σ σ' hi h
    simp only [forEach] at h
    split at h
    · rename_i σ1 hx; exact ih _ _ (hg _ _ _ hi hx) h
    · cases h
    · cases h

theorem endService_inv {p : GProg} (I : St → Prop) (hI : LinkInv p I) (k : Nat × Name) (r : Res St) (σ' : St)
    (hr : ∀ σa, r = .ok σa → I σa) (h : endService k r = .ok σ') : I σ' := by
  cases r with
  | ok σa => simp only [endService] at h; cases h; exact hI.vlink _ _ (hr σa rfl)
  | err => cases h
  | fuel => cases h

theorem linkFunc_inv (p : GProg) (I : St → Prop) (hI : LinkInv p I) (fuel m : Nat) (svc : Name) (fn : GFunc) (σ σ' : St)
    (hr : I σ) (h : linkFunc fuel p m svc fn σ = .ok σ') : I σ' := by
  obtain ⟨iTy, _, iFields, _, _, _, _, _⟩ := blockInv p I hI fuel
  unfold linkFunc at h
  split at h
  · cases h; exact hr
  · split at h
    · rename_i σ1 ha
      have hr1 : I σ1 := iFields _ _ _ _ _ _ (hI.fflag _ _ hr) ha
      split at h
      · cases h; exact hr1
      · split at h
        · rename_i σ2 hret
          have hr2 : I σ2 := by
            split at hret
            · split at hret
              · rename_i σ2' _ hty; cases hret; exact iTy _ _ _ _ _ hr1 hty
              · cases hret
              · cases hret
            · cases hret; exact hr1
          split at h
          · rename_i σ3 he
            have hr3 : I σ3 := iFields _ _ _ _ _ _ hr2 he
            split at h
            · cases h; exact hr3
            · cases h
          · cases h
          · cases h
        · cases h
        · cases h
    · cases h
    · cases h

theorem service_inv (p : GProg) (I : St → Prop) (hI : LinkInv p I) (o : Orders) :
    ∀ (f : Nat),
      (∀ m n σ σ', I σ → linkService f p o m n σ = .ok σ' → I σ') ∧
      (∀ m n σ σ' k, I σ → resolveSvc f p o m n σ = .ok (σ', k) → I σ') := by
  intro f
  induction f with
  | zero => exact ⟨by intro m n σ σ' _ h; simp [linkService] at h, by intro m n σ σ' k _ h; simp [resolveSvc] at h⟩
  | succ f ih =>
    obtain ⟨iS, iR⟩ := ih
    have hfn : ∀ (m : Nat) (n : Name) (s : GService) (fname : Name) (σ σ' : St), I σ →
        (match findFunc fname s.funcs with
          | some g => linkFunc f p m n g σ
          | none => Res.ok σ) = .ok σ' → I σ' := by
      intro m n s fname σ σ' hr h
      split at h
      · exact linkFunc_inv p I hI _ _ _ _ _ _ hr h
      · cases h; exact hr
    refine ⟨?_, ?_⟩
    · intro m n σ σ' hr h
      simp only [linkService] at h
      split at h
      · cases h
      · rename_i s hls
        split at h
        · split at h
          · cases h
          · cases h; exact hr
        · have hr0 : I { σ with vflag := (m, n) :: σ.vflag, vlink := (m, n) :: σ.vlink } :=
            hI.vlink _ ((m, n) :: σ.vlink) (hI.vflag _ ((m, n) :: σ.vflag) hr)
          split at h
          · exact endService_inv I hI _ _ _ (fun σa ha => forEach_inv I _ (fun x σ σ' => hfn m n s x σ σ') _ _ _
              hr0 ha) h
          · rename_i pname hpn
            split at h
            · rename_i σ1 pk hres
              have hr1 : I σ1 := iR _ _ _ _ _ hr0 hres
              exact endService_inv I hI _ _ _ (fun σa ha => forEach_inv I _ (fun x σ σ' => hfn m n s x σ σ') _ _ _
                (hI.vpar _ _ _ _ _ _ hr1 hls hpn (resolveSvc_resolves p o _ _ _ _ _ _ hres)) ha) h
            · cases h
            · cases h
    · intro m n σ σ' k hr h
      simp only [resolveSvc] at h
      split at h
      · split at h
        · rename_i σ1 hl; cases h; exact iS _ _ _ _ hr hl
        · cases h
        · cases h
      · split at h
        · cases h
        · split at h
          · cases h
          · exact iR _ _ _ _ _ hr h

theorem prelinkFuncs_inv (p : GProg) (I : St → Prop) (hI : LinkInv p I) (fuel : Nat) (o : Orders) (pre : Bool) (m : Nat) (svcs : List Name)
    (σ σ' : St) (hr : I σ) (h : prelinkFuncs fuel p o pre m svcs σ = .ok σ') : I σ' := by
  unfold prelinkFuncs at h
  split at h
  · refine forEach_inv I _ ?_ _ _ _ hr h
    intro n σa σb hi hx
    unfold linkFuncsOf at hx
    split at hx
    · refine forEach_inv I _ ?_ _ _ _ hi hx
      intro fname σc σd hi' hx'
      split at hx'
      · exact linkFunc_inv p I hI _ _ _ _ _ _ hi' hx'
      · cases hx'; exact hi'
    · cases hx; exact hi
  · cases h; exact hr

theorem linkModule_inv (p : GProg) (I : St → Prop) (hI : LinkInv p I) (fuel : Nat) (o : Orders) (pre : Bool) (m : Nat) (σ σ' : St)
    (hr : I σ) (h : linkModule fuel p o pre m σ = .ok σ') : I σ' := by
  obtain ⟨_, iNamed, _, iConst, _, _, _, _⟩ := blockInv p I hI fuel
  unfold linkModule at h
  split at h
  · rename_i σ1 ht
    have hr1 : I σ1 :=
      forEach_inv I _ (fun n σ σ' hi hx => iNamed _ _ _ _ hi hx) _ _ _ hr ht
    split at h
    · rename_i σ2 hc
      have hr2 : I σ2 :=
        forEach_inv I _ (fun n σ σ' hi hx => iConst _ _ _ _ hi hx) _ _ _ hr1 hc
      split at h
      · rename_i σ3 hpre
        have hr3 : I σ3 := prelinkFuncs_inv p I hI _ _ _ _ _ _ _ hr2 hpre
        split at h
        · rename_i σ4 hs
          have hr4 : I σ4 :=
            forEach_inv I _
              (fun n σ σ' hi hx => (service_inv p I hI o fuel).1 _ _ _ _ hi hx) _ _ _ hr3 hs
          split at h
          · cases h
          · cases h; exact hr4
        · cases h
        · cases h
      · cases h
      · cases h
    · cases h
    · cases h
  · cases h
  · cases h

theorem walk_inv (p : GProg) (I : St → Prop) (hI : LinkInv p I) (fuel : Nat) (o : Orders) (pre : Bool) :
    ∀ (wf : Nat) (queue visited : List Nat) (σ σ' : St), I σ →
      walk fuel p o pre wf queue visited σ = .ok σ' → I σ' := by
  intro wf
  induction wf with
  | zero => intro q v σ σ' hr h; simp only [walk] at h; cases h; exact hr
  | succ wf ih =>
    intro q v σ σ' hr h
    cases q with
    | nil => simp only [walk] at h; cases h; exact hr
    | cons m q =>
      simp only [walk] at h
      split at h
      · exact ih _ _ _ _ hr h
      · split at h
        · rename_i σ1 hm
          exact ih _ _ _ _ (linkModule_inv p I hI _ _ _ _ _ _ hr hm) h
        · cases h
        · cases h

/-- A `LinkInv` invariant that holds of the initial state holds of the final state of every
successful compilation — whatever the visit orders, with or without the hook, for any fuel. -/
theorem compile_inv {pre : Bool} {fuel : Nat} {o : Orders} {src : Program} {c : Compiled}
    (I : GProg → St → Prop) (hI : ∀ p, LinkInv p (I p)) (h0 : ∀ p, I p St.init)
    (h : compileWith pre fuel o src = .ok c) : I c.prog c.st := by
  unfold compileWith at h
  split at h
  · cases h
  · rename_i p _
    split at h
    · rename_i σ hw
      cases h
      exact walk_inv p (I p) (hI p) _ _ _ _ _ _ _ _ (h0 p) hw
    · cases h
    · cases h

theorem rootsLinkInv (p : GProg) : LinkInv p (fun σ => RootsOk p σ.root) where
  tflag _ _ h := h
  cflag _ _ h := h
  ctype _ _ h := h
  cval _ _ h := h
  reent _ _ h := h
  fflag _ _ h := h
  vflag _ _ h := h
  clink _ _ h := h
  vlink _ _ h := h
  mark o _ _ h := by cases o <;> exact h
  begd o _ _ h := by cases o <;> exact h
  endc _ _ _ h := h
  setd o _ _ _ h := by cases o <;> exact h
  root _ _ _ _ _ h hl hres := RootsOk.set h hl hres
  vpar _ _ _ _ _ _ h _ _ _ := h

/-- **Every root stored by a successful compilation is the declarative root**, whatever the
visit orders, with or without the hook's pre-linking, for any fuel. -/
theorem compile_roots_sound {pre : Bool} {fuel : Nat} {o : Orders} {src : Program} {c : Compiled}
    (h : compileWith pre fuel o src = .ok c) : RootsOk c.prog c.st.root :=
  compile_inv (fun p σ => RootsOk p σ.root) rootsLinkInv (fun p => RootsOk.nil p) h

/-- all parents stored so far are what the declared parent name resolves to -/
def ParentsOk (p : GProg) (vpar : List ((Nat × Name) × (Nat × Name))) : Prop :=
  ∀ m n pk, alookup (m, n) vpar = some pk →
    ∃ s pname, lookupService p m n = some s ∧ s.parent = some pname ∧ resolveService p m pname = some pk

theorem parentsLinkInv (p : GProg) : LinkInv p (fun σ => ParentsOk p σ.vpar) where
  tflag _ _ h := h
  cflag _ _ h := h
  ctype _ _ h := h
  cval _ _ h := h
  reent _ _ h := h
  fflag _ _ h := h
  vflag _ _ h := h
  clink _ _ h := h
  vlink _ _ h := h
  mark o _ _ h := by cases o <;> exact h
  begd o _ _ h := by cases o <;> exact h
  endc _ _ _ h := h
  setd o _ _ _ h := by cases o <;> exact h
  root _ _ _ _ _ h _ _ := h
  vpar σ m n s pname pk h hl hp hr := by
    intro m' n' pk' hlook
    by_cases hk : (m, n) = (m', n')
    · cases hk
      rw [alookup_aset_self] at hlook
      cases hlook
      exact ⟨s, pname, hl, hp, hr⟩
    · rw [alookup_aset_ne _ _ hk] at hlook
      exact h m' n' pk' hlook

/-- **Every `ServiceSpec.Parent` stored by a successful compilation is the service the
declared parent name resolves to** (local name first, else include-qualified), whatever the
visit orders. -/
theorem compile_parents_sound {pre : Bool} {fuel : Nat} {o : Orders} {src : Program} {c : Compiled}
    (h : compileWith pre fuel o src = .ok c) : ParentsOk c.prog c.st.vpar :=
  compile_inv (fun p σ => ParentsOk p σ.vpar) parentsLinkInv
    (fun p => by intro m n pk hl; simp [St.init, alookup] at hl) h

end ThriftVerif.Compile
